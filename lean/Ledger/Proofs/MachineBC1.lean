import Ledger.Machine.VM
import Ledger.Proofs.MachineNoFault4

/-! Stage (f), part 1: code segments, resource resolution, and the correctness of the
    code the compiler emits for expressions. -/
namespace Ledger.Machine

/-! ### Segments -/

theorem runSeg_append (resv : List Value) (a b : List Instr) (stk : Stack) (st : State) :
    runSeg resv (a ++ b) stk st =
      match runSeg resv a stk st with
      | .error e => .error e
      | .ok (stk', st') => runSeg resv b stk' st' := by
  induction a generalizing stk st with
  | nil => simp [runSeg]
  | cons i is ih =>
    simp only [List.cons_append, runSeg]
    cases step resv i stk st with
    | error e => rfl
    | ok r => obtain ⟨s1, t1⟩ := r; exact ih s1 t1

theorem execInstrs_eq_runSeg (resv : List Value) (is : List Instr) (stk : Stack) (st : State) :
    execInstrs resv is stk st =
      match runSeg resv is stk st with
      | .error e => .error e
      | .ok (stk', st') =>
        if stk'.isEmpty then .ok st' else .error (.panic "stack not empty after execution") := by
  induction is generalizing stk st with
  | nil => simp [execInstrs, runSeg]
  | cons i is ih =>
    simp only [execInstrs, runSeg]
    cases step resv i stk st with
    | error e => rfl
    | ok r => obtain ⟨s1, t1⟩ := r; exact ih s1 t1

/-! ### Resource resolution -/

theorem resolveRes_spec (env : Env) :
    (rs : List Res) → (acc out : List Value) → resolveRes env rs acc = .ok out →
    ∃ vs, out = acc ++ vs ∧ vs.length = rs.length ∧
      ∀ i r, rs[i]? = some r → ∃ v, vs[i]? = some v ∧ resVal env (acc ++ vs.take i) r = .ok v
  | [], acc, out, h => by
    simp only [resolveRes] at h; cases h
    exact ⟨[], by simp, rfl, by intro i r hr; simp at hr⟩
  | r :: rs, acc, out, h => by
    simp only [resolveRes] at h
    split at h
    · cases h
    · rename_i x hx
      obtain ⟨vs, e1, e2, e3⟩ := resolveRes_spec env rs (acc ++ [x]) out h
      refine ⟨x :: vs, by rw [e1]; simp, by simp [e2], ?_⟩
      intro i r' hr'
      cases i with
      | zero =>
        simp only [List.getElem?_cons_zero, Option.some.injEq] at hr'
        subst hr'
        exact ⟨x, by simp, by simpa using hx⟩
      | succ k =>
        simp only [List.getElem?_cons_succ] at hr'
        obtain ⟨v, hv, hrv⟩ := e3 k r' hr'
        refine ⟨v, by simpa using hv, ?_⟩
        simpa [List.append_assoc] using hrv

/-- The value table of a fully resolved resource table. -/
structure Resolved (env : Env) (R : List Res) (resv : List Value) : Prop where
  len : resv.length = R.length
  get : ∀ i r, R[i]? = some r → ∃ v, resv[i]? = some v ∧ resVal env (resv.take i) r = .ok v

theorem resolved_of_resolveRes {env : Env} {R : List Res} {resv : List Value}
    (h : resolveRes env R [] = .ok resv) : Resolved env R resv := by
  obtain ⟨vs, e1, e2, e3⟩ := resolveRes_spec env R [] resv h
  simp only [List.nil_append] at e1
  subst e1
  exact ⟨e2, fun i r hr => by simpa using e3 i r hr⟩

/-- Value of a constant. -/
def cvalue : CValue → Value
  | .account s => .account s
  | .asset s => .asset s
  | .number n => .number n
  | .str s => .str s
  | .portion p => .portion p

theorem Resolved.const {env : Env} {R : List Res} {resv : List Value} (h : Resolved env R resv)
    {i : Nat} {c : CValue} (hi : R[i]? = some (.const c)) : resv[i]? = some (cvalue c) := by
  obtain ⟨v, hv, hr⟩ := h.get i _ hi
  cases c <;> simp [resVal] at hr <;> subst hr <;> exact hv

/-- Name of a variable resource. -/
def resName : Res → Option String
  | .var _ n => some n
  | .varMeta _ n _ _ => some n
  | .varBalance n _ _ => some n
  | _ => none

theorem Resolved.var {env : Env} {R : List Res} {resv : List Value} (h : Resolved env R resv)
    {i : Nat} {r : Res} {x : String} (hi : R[i]? = some r) (hn : resName r = some x) :
    resv[i]? = env.lookup x := by
  obtain ⟨v, hv, hr⟩ := h.get i _ hi
  cases r <;> simp [resName] at hn <;> subst hn <;> simp only [resVal] at hr <;>
    (split at hr <;> first | (cases hr; rename_i heq; rw [hv, heq]) | cases hr)

theorem Resolved.mon {env : Env} {R : List Res} {resv : List Value} (h : Resolved env R resv)
    {i a : Nat} {amt : Int} (hi : R[i]? = some (.mon a amt)) :
    ∃ s, resv[a]? = some (.asset s) ∧ resv[i]? = some (.monetary s (some amt)) := by
  obtain ⟨v, hv, hr⟩ := h.get i _ hi
  simp only [resVal] at hr
  split at hr
  · rename_i s hs
    cases hr
    refine ⟨s, ?_, hv⟩
    rw [List.getElem?_take] at hs
    split at hs
    · exact hs
    · cases hs
  · cases hr

/-! ### Compile-state invariants -/

/-- `cs'` extends `cs`: code and resources only grow, variables are unchanged. -/
structure Ext (cs cs' : CS) (seg : List Instr) : Prop where
  code : cs'.code = cs.code ++ seg
  res : ∃ more, cs'.res = cs.res ++ more
  vars : cs'.vars = cs.vars

theorem Ext.refl (cs : CS) : Ext cs cs [] := ⟨by simp, ⟨[], by simp⟩, rfl⟩

theorem Ext.trans {a b c : CS} {s1 s2 : List Instr} (h1 : Ext a b s1) (h2 : Ext b c s2) :
    Ext a c (s1 ++ s2) := by
  obtain ⟨m1, e1⟩ := h1.res
  obtain ⟨m2, e2⟩ := h2.res
  exact ⟨by rw [h2.code, h1.code, List.append_assoc], ⟨m1 ++ m2, by rw [e2, e1, List.append_assoc]⟩,
    h2.vars.trans h1.vars⟩

theorem Ext.res_get {cs cs' : CS} {seg : List Instr} (h : Ext cs cs' seg) {i : Nat} {r : Res}
    (hi : cs.res[i]? = some r) : cs'.res[i]? = some r := by
  obtain ⟨more, e⟩ := h.res
  rw [e, List.getElem?_append_left]
  · exact hi
  · exact (List.getElem?_eq_some_iff.mp hi).1

/-- A final resource table `R` extends the table of `cs`. -/
def Final (cs : CS) (R : List Res) : Prop := ∃ tail, R = cs.res ++ tail

theorem Final.of_ext {cs cs' : CS} {seg : List Instr} {R : List Res} (h : Ext cs cs' seg)
    (hf : Final cs' R) : Final cs R := by
  obtain ⟨more, e⟩ := h.res
  obtain ⟨tail, et⟩ := hf
  exact ⟨more ++ tail, by rw [et, e, List.append_assoc]⟩

theorem Final.get {cs : CS} {R : List Res} (hf : Final cs R) {i : Nat} {r : Res}
    (hi : cs.res[i]? = some r) : R[i]? = some r := by
  obtain ⟨tail, et⟩ := hf
  rw [et, List.getElem?_append_left]
  · exact hi
  · exact (List.getElem?_eq_some_iff.mp hi).1

/-- The variable map points at variable resources of the right name and type. -/
def VarsInv (ds : Decls) (cs : CS) : Prop :=
  ∀ x idx, cs.vars.lookup x = some idx →
    ∃ r, cs.res[idx]? = some r ∧ resName r = some x ∧ ds.lookup x = some (resTy r)

theorem VarsInv.ext {ds : Decls} {cs cs' : CS} {seg : List Instr} (h : VarsInv ds cs) (he : Ext cs cs' seg) :
    VarsInv ds cs' := by
  intro x idx hl
  rw [he.vars] at hl
  obtain ⟨r, h1, h2, h3⟩ := h x idx hl
  exact ⟨r, he.res_get h1, h2, h3⟩

/-! ### Primitive steps -/

theorem findIdx?_some {α : Type} {p : α → Bool} {xs : List α} {i : Nat} (h : findIdx? p xs = some i) :
    ∃ x, xs[i]? = some x ∧ p x = true := by
  unfold findIdx? at h
  split at h
  · rename_i hlt
    cases h
    exact ⟨xs[List.findIdx p xs], by simp [hlt], List.findIdx_getElem⟩
  · cases h

theorem allocRes_ok {r : Res} {cs cs' : CS} {a : Nat} (h : allocRes r cs = .ok (a, cs')) :
    Ext cs cs' [] ∧ cs'.res[a]? = some r ∧ cs'.needed = cs.needed := by
  unfold allocRes at h
  split at h
  · cases h
  · cases h
    exact ⟨⟨by simp, ⟨[r], rfl⟩, rfl⟩, by simp, rfl⟩

theorem allocConst_ok {c : CValue} {cs cs' : CS} {a : Nat} (h : allocConst c cs = .ok (a, cs')) :
    Ext cs cs' [] ∧ cs'.res[a]? = some (.const c) ∧ cs'.needed = cs.needed := by
  unfold allocConst at h
  split at h
  · rename_i i hi
    cases h
    obtain ⟨x, hx, hp⟩ := findIdx?_some hi
    have : x = Res.const c := by simpa using hp
    subst this
    exact ⟨Ext.refl _, hx, rfl⟩
  · exact allocRes_ok h

theorem pushIf_ext (push : Bool) (a : Nat) (cs : CS) :
    Ext cs (pushIf push a cs) (if push then [.apush a] else []) ∧ (pushIf push a cs).needed = cs.needed ∧
    (pushIf push a cs).res = cs.res := by
  unfold pushIf
  cases push <;> simp [Ext.refl] <;> exact ⟨by simp, ⟨[], by simp⟩, rfl⟩

theorem opIf_ext (push : Bool) (c : Nat) (cs : CS) :
    Ext cs (opIf push c cs) (if push then [.op c] else []) ∧ (opIf push c cs).needed = cs.needed ∧
    (opIf push c cs).res = cs.res := by
  unfold opIf
  cases push <;> simp [Ext.refl] <;> exact ⟨by simp, ⟨[], by simp⟩, rfl⟩

theorem runSeg_apush {resv : List Value} {a : Nat} {v : Value} (h : resv[a]? = some v) (stk : Stack) (st : State) :
    runSeg resv [.apush a] stk st = .ok (.val v :: stk, st) := by
  simp [runSeg, step, h]

/-! ### Expressions -/

theorem leftmost_self_of_type {ds : Decls} {e : Expr} {t : Ty} (h : typeExpr ds e = .ok t)
    (hn : t ≠ .number) (hm : t ≠ .monetary) : e.leftmost = e := by
  cases e with
  | add l r =>
    exfalso
    simp only [typeExpr] at h
    split at h
    · cases h
    · split at h
      · cases h
      · split at h
        · cases h; exact hn rfl
        · cases h
    · split at h
      · cases h
      · split at h
        · cases h; exact hm rfl
        · cases h
    · cases h
  | sub l r =>
    exfalso
    simp only [typeExpr] at h
    split at h
    · cases h
    · split at h
      · cases h
      · split at h
        · cases h; exact hn rfl
        · cases h
    · split at h
      · cases h
      · split at h
        · cases h; exact hm rfl
        · cases h
    · cases h
  | _ => rfl

/-- An asset-typed expression is an asset literal or an asset variable: it evaluates. -/
theorem asset_typed_eval {ds : Decls} {env : Env} (henv : EnvTyped ds env) :
    (e : Expr) → typeExpr ds e = .ok .asset → ∃ s, evalExpr env e = .ok (.asset s)
  | .asset s, _ => ⟨s, rfl⟩
  | .var x, h => by
    simp only [typeExpr] at h
    split at h
    · rename_i t hl
      cases h
      obtain ⟨w, hw, hty⟩ := henv x _ hl
      obtain ⟨s, rfl⟩ := val_asset hty
      exact ⟨s, by simp [evalExpr, hw]⟩
    · cases h
  | .acct _, h => by simp [typeExpr] at h
  | .num _, h => by simp [typeExpr] at h
  | .str _, h => by simp [typeExpr] at h
  | .portion _, h => by
    simp only [typeExpr] at h
    split at h <;> cases h
  | .mon _ _, h => by
    simp only [typeExpr] at h
    split at h
    · cases h
    · split at h <;> cases h
  | .add l r, h => by
    have := leftmost_self_of_type h (by simp) (by simp)
    exfalso
    simp only [typeExpr] at h
    split at h
    · cases h
    · split at h
      · cases h
      · split at h <;> cases h
    · split at h
      · cases h
      · split at h <;> cases h
    · cases h
  | .sub l r, h => by
    exfalso
    simp only [typeExpr] at h
    split at h
    · cases h
    · split at h
      · cases h
      · split at h <;> cases h
    · split at h
      · cases h
      · split at h <;> cases h
    · cases h

/-- What the code emitted for an expression does, for any final resource table. -/
structure ExprCode (env : Env) (e : Expr) (push : Bool) (oa : Option Nat) (cs' : CS) (seg : List Instr) : Prop where
  nopush : push = false → seg = []
  run : ∀ R resv, Final cs' R → Resolved env R resv → push = true → ∀ stk st,
    runSeg resv seg stk st =
      match evalExpr env e with
      | .ok v => .ok (.val v :: stk, st)
      | .error err => .error err
  addr : ∀ R resv, Final cs' R → Resolved env R resv → ∀ a, oa = some a →
    ∃ v, resv[a]? = some v ∧ evalExpr env e.leftmost = .ok v

theorem constExpr_code {env : Env} {e : Expr} {c : CValue} {push : Bool} {cs cs1 : CS} {a : Nat}
    (he : ∀ env', evalExpr env' e = .ok (cvalue c)) (hl : e.leftmost = e)
    (h : allocConst c cs = .ok (a, cs1)) :
    Ext cs (pushIf push a cs1) (if push then [.apush a] else []) ∧
    (pushIf push a cs1).needed = cs.needed ∧
    ExprCode env e push (some a) (pushIf push a cs1) (if push then [.apush a] else []) := by
  obtain ⟨e1, hres, hnd⟩ := allocConst_ok h
  obtain ⟨p1, p2, p3⟩ := pushIf_ext push a cs1
  have hx := Ext.trans e1 p1
  simp only [List.nil_append] at hx
  refine ⟨hx, by rw [p2, hnd], ⟨by intro hp; simp [hp], ?_, ?_⟩⟩
  · intro R resv hf hr hp stk st
    have hR : R[a]? = some (.const c) := hf.get (by rw [p3]; exact hres)
    simp only [hp, if_true, he]
    exact runSeg_apush (hr.const hR) stk st
  · intro R resv hf hr a' ha'
    cases ha'
    have hR : R[a]? = some (.const c) := hf.get (by rw [p3]; exact hres)
    exact ⟨cvalue c, hr.const hR, by rw [hl]; exact he env⟩

theorem cExpr_ok (ds : Decls) (env : Env) (henv : EnvTyped ds env) :
    (e : Expr) → ∀ push cs t oa cs' ty, cExpr e push cs = .ok ((t, oa), cs') → typeExpr ds e = .ok ty →
    VarsInv ds cs →
    ∃ seg, Ext cs cs' seg ∧ cs'.needed = cs.needed ∧ t = ty ∧ ExprCode env e push oa cs' seg
  | .acct s, push, cs, t, oa, cs', ty, h, ht, _ => by
    simp only [cExpr] at h
    split at h
    · cases h
    · rename_i a cs1 hal
      cases h
      simp only [typeExpr] at ht; cases ht
      obtain ⟨x1, x2, x3⟩ := constExpr_code (env := env) (e := .acct s) (c := .account s) (push := push)
        (fun _ => rfl) rfl hal
      exact ⟨_, x1, x2, rfl, x3⟩
  | .asset s, push, cs, t, oa, cs', ty, h, ht, _ => by
    simp only [cExpr] at h
    split at h
    · cases h
    · rename_i a cs1 hal
      cases h
      simp only [typeExpr] at ht
      split at ht <;> cases ht
      obtain ⟨x1, x2, x3⟩ := constExpr_code (env := env) (e := .asset s) (c := .asset s) (push := push)
        (fun _ => rfl) rfl hal
      exact ⟨_, x1, x2, rfl, x3⟩
  | .num n, push, cs, t, oa, cs', ty, h, ht, _ => by
    simp only [cExpr] at h
    split at h
    · cases h
    · rename_i a cs1 hal
      cases h
      simp only [typeExpr] at ht; cases ht
      obtain ⟨x1, x2, x3⟩ := constExpr_code (env := env) (e := .num n) (c := .number n) (push := push)
        (fun _ => rfl) rfl hal
      exact ⟨_, x1, x2, rfl, x3⟩
  | .str s, push, cs, t, oa, cs', ty, h, ht, _ => by
    simp only [cExpr] at h
    split at h
    · cases h
    · rename_i a cs1 hal
      cases h
      simp only [typeExpr] at ht; cases ht
      obtain ⟨x1, x2, x3⟩ := constExpr_code (env := env) (e := .str s) (c := .str s) (push := push)
        (fun _ => rfl) rfl hal
      exact ⟨_, x1, x2, rfl, x3⟩
  | .portion x, push, cs, t, oa, cs', ty, h, ht, _ => by
    simp only [cExpr] at h
    split at h
    · cases h
    · rename_i p hp
      split at h
      · cases h
      · rename_i a cs1 hal
        cases h
        simp only [typeExpr, hp] at ht; cases ht
        obtain ⟨x1, x2, x3⟩ := constExpr_code (env := env) (e := .portion x) (c := .portion p) (push := push)
          (fun _ => by simp [evalExpr, hp, cvalue]) rfl hal
        exact ⟨_, x1, x2, rfl, x3⟩
  | .var x, push, cs, t, oa, cs', ty, h, ht, hv => by
    simp only [cExpr] at h
    split at h
    · cases h
    · rename_i idx hl
      split at h
      · cases h
      · rename_i r hr
        cases h
        obtain ⟨r', h1, h2, h3⟩ := hv x idx hl
        rw [hr] at h1; cases h1
        simp only [typeExpr, h3] at ht; cases ht
        obtain ⟨p1, p2, p3⟩ := pushIf_ext push idx cs
        obtain ⟨w, hw, _⟩ := henv x _ h3
        refine ⟨_, p1, p2, rfl, ⟨by intro hp; simp [hp], ?_, ?_⟩⟩
        · intro R resv hf hres hp stk st
          have hR : R[idx]? = some r := hf.get (by rw [p3]; exact hr)
          have := hres.var hR h2
          simp only [hp, if_true, evalExpr, hw]
          exact runSeg_apush (by rw [this, hw]) stk st
        · intro R resv hf hres a ha
          cases ha
          have hR : R[idx]? = some r := hf.get (by rw [p3]; exact hr)
          have := hres.var hR h2
          exact ⟨w, by rw [this, hw], by simp [Expr.leftmost, evalExpr, hw]⟩
  | .mon ae n, push, cs, t, oa, cs', ty, h, ht, hv => by
    simp only [typeExpr] at ht
    split at ht
    · cases ht
    · rename_i ta hta
      split at ht
      · rename_i heq
        cases ht; subst heq
        simp only [cExpr] at h
        split at h
        · cases h
        · cases h
        · rename_i t0 assetAddr cs1 hae
          obtain ⟨seg0, e0, n0, _, c0⟩ := cExpr_ok ds env henv ae false cs t0 (some assetAddr) cs1 .asset hae hta hv
          have hseg0 : seg0 = [] := c0.nopush rfl
          subst hseg0
          -- value of the asset expression
          obtain ⟨s, hs⟩ := asset_typed_eval (env := env) henv ae hta
          have hlm : ae.leftmost = ae := leftmost_self_of_type hta (by simp) (by simp)
          have finish : ∀ (i : Nat) (csx : CS), Ext cs1 csx [] → csx.res[i]? = some (.mon assetAddr n) →
              csx.needed = cs1.needed →
              ∃ seg, Ext cs (pushIf push i csx) seg ∧ (pushIf push i csx).needed = cs.needed ∧
                ExprCode env (.mon ae n) push (some i) (pushIf push i csx) seg := by
            intro i csx hex hres hnd
            obtain ⟨p1, p2, p3⟩ := pushIf_ext push i csx
            have hx := Ext.trans (Ext.trans e0 hex) p1
            simp only [List.nil_append] at hx
            have hval : ∀ R resv, Final (pushIf push i csx) R → Resolved env R resv →
                resv[i]? = some (.monetary s (some n)) := by
              intro R resv hf hr
              have hR : R[i]? = some (.mon assetAddr n) := hf.get (by rw [p3]; exact hres)
              obtain ⟨s', hs1, hs2⟩ := hr.mon hR
              obtain ⟨v, hv1, hv2⟩ := c0.addr R resv (Final.of_ext (Ext.trans hex p1) hf) hr assetAddr rfl
              rw [hlm, hs] at hv2
              cases hv2
              rw [hs1] at hv1
              cases hv1
              exact hs2
            refine ⟨_, hx, by rw [p2, hnd, n0], ⟨by intro hp; simp [hp], ?_, ?_⟩⟩
            · intro R resv hf hr hp stk st
              simp only [hp, if_true, evalExpr, hs]
              exact runSeg_apush (hval R resv hf hr) stk st
            · intro R resv hf hr a ha
              cases ha
              exact ⟨_, hval R resv hf hr, by simp [Expr.leftmost, evalExpr, hs]⟩
          split at h
          · rename_i i hi
            cases h
            obtain ⟨x, hx, hp⟩ := findIdx?_some hi
            have : x = Res.mon assetAddr n := by simpa using hp
            subst this
            obtain ⟨seg, f1, f2, f3⟩ := finish i cs1 (Ext.refl _) hx rfl
            exact ⟨seg, f1, f2, rfl, f3⟩
          · split at h
            · cases h
            · rename_i a cs2 hal
              cases h
              obtain ⟨a1, a2, a3⟩ := allocRes_ok hal
              obtain ⟨seg, f1, f2, f3⟩ := finish a cs2 a1 a2 a3
              exact ⟨seg, f1, f2, rfl, f3⟩
      · cases ht
  | .add l r, push, cs, t, oa, cs', ty, h, ht, hv => by
    simp only [cExpr] at h
    split at h
    · cases h
    · rename_i lt la cs1 hl
      split at h
      · cases h
      · rename_i rres cs2 hr
        obtain ⟨rt0, ra⟩ := rres
        -- types of the operands
        simp only [typeExpr] at ht
        split at ht
        · cases ht
        · -- number
          rename_i htl
          split at ht
          · cases ht
          · rename_i rt htr
            split at ht
            · rename_i heq
              cases ht; subst heq
              obtain ⟨s1, e1, n1, t1, c1⟩ := cExpr_ok ds env henv l push cs lt la cs1 .number hl htl hv
              obtain ⟨s2, e2, n2, _, c2⟩ := cExpr_ok ds env henv r push cs1 rt0 ra cs2 .number hr htr (hv.ext e1)
              subst t1
              simp only at h
              cases h
              obtain ⟨p1, p2, p3⟩ := opIf_ext push OP_IADD cs2
              refine ⟨_, Ext.trans (Ext.trans e1 e2) p1, by rw [p2, n2, n1], rfl,
                ⟨?_, ?_, by intro R resv _ _ a ha; cases ha⟩⟩
              · intro hp; simp [hp, c1.nopush hp, c2.nopush hp]
              · intro R resv hf hres hp stk st
                have hf2 : Final cs2 R := Final.of_ext p1 hf
                have hf1 : Final cs1 R := Final.of_ext e2 hf2
                rw [runSeg_append, runSeg_append, c1.run R resv hf1 hres hp]
                simp only [evalExpr]
                rcases evalExpr_typed ds env henv l .number htl with ⟨v, hv', hty, _⟩ | ⟨k, hk⟩
                · obtain ⟨x, rfl⟩ := val_number hty
                  simp only [hv']
                  rw [c2.run R resv hf2 hres hp]
                  rcases evalExpr_typed ds env henv r .number htr with ⟨w, hw', hty', _⟩ | ⟨k, hk⟩
                  · obtain ⟨y, rfl⟩ := val_number hty'
                    simp [hw', hp, runSeg, step, OP_IADD, OP_BUMP, OP_DELETE, popNumber]
                  · simp [hk]
                · simp [hk]
            · cases ht
        · -- monetary
          rename_i htl
          split at ht
          · cases ht
          · rename_i rt htr
            split at ht
            · rename_i heq
              cases ht; subst heq
              obtain ⟨s1, e1, n1, t1, c1⟩ := cExpr_ok ds env henv l push cs lt la cs1 .monetary hl htl hv
              obtain ⟨s2, e2, n2, _, c2⟩ := cExpr_ok ds env henv r push cs1 rt0 ra cs2 .monetary hr htr (hv.ext e1)
              subst t1
              simp only at h
              cases h
              obtain ⟨p1, p2, p3⟩ := opIf_ext push OP_MONETARY_ADD cs2
              refine ⟨_, Ext.trans (Ext.trans e1 e2) p1, by rw [p2, n2, n1], rfl, ⟨?_, ?_, ?_⟩⟩
              · intro hp; simp [hp, c1.nopush hp, c2.nopush hp]
              · intro R resv hf hres hp stk st
                have hf2 : Final cs2 R := Final.of_ext p1 hf
                have hf1 : Final cs1 R := Final.of_ext e2 hf2
                rw [runSeg_append, runSeg_append, c1.run R resv hf1 hres hp]
                simp only [evalExpr]
                rcases evalExpr_typed ds env henv l .monetary htl with ⟨v, hv', hty, _⟩ | ⟨k, hk⟩
                · obtain ⟨a1, x, rfl⟩ := val_monetary hty
                  simp only [hv']
                  rw [c2.run R resv hf2 hres hp]
                  rcases evalExpr_typed ds env henv r .monetary htr with ⟨w, hw', hty', _⟩ | ⟨k, hk⟩
                  · obtain ⟨a2, y, rfl⟩ := val_monetary hty'
                    by_cases ha : a1 = a2
                    · subst ha
                      simp [hw', hp, runSeg, step, OP_MONETARY_ADD, OP_BUMP, OP_DELETE, OP_IADD, OP_ISUB,
                        OP_PRINT, OP_FAIL, OP_ASSET, OP_MONETARY_NEW, popMonetary]
                    · simp [hw', hp, ha, runSeg, step, OP_MONETARY_ADD, OP_BUMP, OP_DELETE, OP_IADD, OP_ISUB,
                        OP_PRINT, OP_FAIL, OP_ASSET, OP_MONETARY_NEW, popMonetary]
                  · simp [hk]
                · simp [hk]
              · intro R resv hf hres a ha
                have hf1 : Final cs1 R := Final.of_ext (Ext.trans e2 p1) hf
                simpa [Expr.leftmost] using c1.addr R resv hf1 hres a ha
            · cases ht
        · cases ht
  | .sub l r, push, cs, t, oa, cs', ty, h, ht, hv => by
    simp only [cExpr] at h
    split at h
    · cases h
    · rename_i lt la cs1 hl
      split at h
      · cases h
      · rename_i rres cs2 hr
        obtain ⟨rt0, ra⟩ := rres
        simp only [typeExpr] at ht
        split at ht
        · cases ht
        · rename_i htl
          split at ht
          · cases ht
          · rename_i rt htr
            split at ht
            · rename_i heq
              cases ht; subst heq
              obtain ⟨s1, e1, n1, t1, c1⟩ := cExpr_ok ds env henv l push cs lt la cs1 .number hl htl hv
              obtain ⟨s2, e2, n2, _, c2⟩ := cExpr_ok ds env henv r push cs1 rt0 ra cs2 .number hr htr (hv.ext e1)
              subst t1
              simp only at h
              cases h
              obtain ⟨p1, p2, p3⟩ := opIf_ext push OP_ISUB cs2
              refine ⟨_, Ext.trans (Ext.trans e1 e2) p1, by rw [p2, n2, n1], rfl,
                ⟨?_, ?_, by intro R resv _ _ a ha; cases ha⟩⟩
              · intro hp; simp [hp, c1.nopush hp, c2.nopush hp]
              · intro R resv hf hres hp stk st
                have hf2 : Final cs2 R := Final.of_ext p1 hf
                have hf1 : Final cs1 R := Final.of_ext e2 hf2
                rw [runSeg_append, runSeg_append, c1.run R resv hf1 hres hp]
                simp only [evalExpr]
                rcases evalExpr_typed ds env henv l .number htl with ⟨v, hv', hty, _⟩ | ⟨k, hk⟩
                · obtain ⟨x, rfl⟩ := val_number hty
                  simp only [hv']
                  rw [c2.run R resv hf2 hres hp]
                  rcases evalExpr_typed ds env henv r .number htr with ⟨w, hw', hty', _⟩ | ⟨k, hk⟩
                  · obtain ⟨y, rfl⟩ := val_number hty'
                    simp [hw', hp, runSeg, step, OP_ISUB, OP_IADD, OP_BUMP, OP_DELETE, popNumber]
                  · simp [hk]
                · simp [hk]
            · cases ht
        · rename_i htl
          split at ht
          · cases ht
          · rename_i rt htr
            split at ht
            · rename_i heq
              cases ht; subst heq
              obtain ⟨s1, e1, n1, t1, c1⟩ := cExpr_ok ds env henv l push cs lt la cs1 .monetary hl htl hv
              obtain ⟨s2, e2, n2, _, c2⟩ := cExpr_ok ds env henv r push cs1 rt0 ra cs2 .monetary hr htr (hv.ext e1)
              subst t1
              simp only at h
              cases h
              obtain ⟨p1, p2, p3⟩ := opIf_ext push OP_MONETARY_SUB cs2
              refine ⟨_, Ext.trans (Ext.trans e1 e2) p1, by rw [p2, n2, n1], rfl, ⟨?_, ?_, ?_⟩⟩
              · intro hp; simp [hp, c1.nopush hp, c2.nopush hp]
              · intro R resv hf hres hp stk st
                have hf2 : Final cs2 R := Final.of_ext p1 hf
                have hf1 : Final cs1 R := Final.of_ext e2 hf2
                rw [runSeg_append, runSeg_append, c1.run R resv hf1 hres hp]
                simp only [evalExpr]
                rcases evalExpr_typed ds env henv l .monetary htl with ⟨v, hv', hty, _⟩ | ⟨k, hk⟩
                · obtain ⟨a1, x, rfl⟩ := val_monetary hty
                  simp only [hv']
                  rw [c2.run R resv hf2 hres hp]
                  rcases evalExpr_typed ds env henv r .monetary htr with ⟨w, hw', hty', _⟩ | ⟨k, hk⟩
                  · obtain ⟨a2, y, rfl⟩ := val_monetary hty'
                    by_cases ha : a1 = a2
                    · subst ha
                      simp [hw', hp, runSeg, step, OP_MONETARY_SUB, OP_MONETARY_ADD, OP_BUMP, OP_DELETE, OP_IADD,
                        OP_ISUB, OP_PRINT, OP_FAIL, OP_ASSET, OP_MONETARY_NEW, popMonetary]
                    · simp [hw', hp, ha, runSeg, step, OP_MONETARY_SUB, OP_MONETARY_ADD, OP_BUMP, OP_DELETE,
                        OP_IADD, OP_ISUB, OP_PRINT, OP_FAIL, OP_ASSET, OP_MONETARY_NEW, popMonetary]
                  · simp [hk]
                · simp [hk]
              · intro R resv hf hres a ha
                have hf1 : Final cs1 R := Final.of_ext (Ext.trans e2 p1) hf
                simpa [Expr.leftmost] using c1.addr R resv hf1 hres a ha
            · cases ht
        · cases ht

end Ledger.Machine
