import Ledger.Proofs.MachineBC4

/-! Stage (f), part 5: `VisitVars`, and `exec (compile p) = sem p` for covered programs. -/
namespace Ledger.Machine

theorem checkVars_mono {vs : List VarDecl} {dsi ds : Decls} (h : checkVars vs dsi = .ok ds) :
    ∀ x t, dsi.lookup x = some t → ds.lookup x = some t := by
  obtain ⟨e, _⟩ := checkVars_names vs dsi ds h
  intro x t hl
  rw [e]; exact lookup_append_left dsi _ x t hl

/-- Invariant of `VisitVars` w.r.t. the FINAL declarations `ds`. -/
structure VInv' (ds dsi : Decls) (cs : CS) : Prop where
  vars : VarsInv ds cs
  res : ResInv ds cs.res
  code : cs.code = []
  names : cs.vars.map (·.1) = dsi.map (·.1)

theorem cVar_ok {ds dsi : Decls} (hmono : ∀ x t, dsi.lookup x = some t → ds.lookup x = some t)
    {v : VarDecl} (hname : ds.lookup v.name = some v.ty)
    (horig : (match v.orig with
      | .none => (.ok () : Except String Unit)
      | .accountMeta acc _ =>
        expectTy dsi acc .account (fun _ => s!"variable ${v.name}: type should be 'account' to pull account metadata")
      | .balance acc asset =>
        if v.ty ≠ Ty.monetary then .error s!"variable ${v.name}: type should be 'monetary' to pull account balance"
        else
          match expectTy dsi acc .account
              (fun _ => s!"variable ${v.name}: the first argument to pull account balance should be of type 'account'") with
          | .error err => .error err
          | .ok () =>
            expectTy dsi asset .asset
              (fun _ => s!"variable ${v.name}: the second argument to pull account balance should be of type 'asset'")) = .ok ())
    {cs cs1 : CS} {idx : Nat} (hv : VarsInv ds cs) (hi : ResInv ds cs.res) (h : cVar v cs = .ok (idx, cs1)) :
    ResInv ds cs1.res ∧ (∃ seg, Ext cs cs1 seg) ∧ cs1.code = cs.code ∧
    ∃ r, cs1.res[idx]? = some r ∧ resName r = some v.name ∧ resTy r = v.ty := by
  unfold cVar at h
  cases ho : v.orig with
  | none =>
    simp only [ho] at h
    obtain ⟨e1, hres, _⟩ := allocRes_ok h
    exact ⟨allocRes_res h hi hname, ⟨_, e1⟩, e1.code_nil, _, hres, rfl, rfl⟩
  | accountMeta acc key =>
    simp only [ho] at h horig
    have hta := typeExpr_mono hmono acc _ (expectTy_inv horig)
    split at h
    · cases h
    · rename_i a cs0 hca
      obtain ⟨i1, ⟨sg, x1⟩, c1, _⟩ := cExprAddr_ok hta hv hi hca
      obtain ⟨e1, hres, _⟩ := allocRes_ok h
      exact ⟨allocRes_res h i1 hname, ⟨_, x1.trans e1⟩, by rw [e1.code_nil, c1], _, hres, rfl, rfl⟩
  | balance acc asset =>
    simp only [ho] at h horig
    split at horig
    · cases horig
    · rename_i hmon
      have hty : v.ty = .monetary := by simpa using hmon
      split at horig
      · cases horig
      · rename_i hca
        have hta := typeExpr_mono hmono acc _ (expectTy_inv hca)
        have hts := typeExpr_mono hmono asset _ (expectTy_inv horig)
        split at h
        · cases h
        · rename_i a cs0 hc0
          obtain ⟨i1, ⟨sg1, x1⟩, c1, _⟩ := cExprAddr_ok hta hv hi hc0
          split at h
          · cases h
          · rename_i c cs2 hc2
            obtain ⟨i2, ⟨sg2, x2⟩, c2, _⟩ := cExprAddr_ok hts (hv.ext x1) i1 hc2
            obtain ⟨e1, hres, _⟩ := allocRes_ok h
            refine ⟨allocRes_res h i2 (by show ds.lookup v.name = some Ty.monetary; rw [← hty]; exact hname),
              ⟨_, (x1.trans x2).trans e1⟩,
              by rw [e1.code_nil, c2, c1], _, hres, rfl, ?_⟩
            rw [hty]; rfl

theorem cVars_ok (ds : Decls) :
    (vs : List VarDecl) → (dsi : Decls) → checkVars vs dsi = .ok ds → ∀ cs cs', VInv' ds dsi cs →
    cVars vs cs = .ok cs' → VInv' ds ds cs'
  | [], dsi, hc, cs, cs', hinv, h => by
    simp only [checkVars] at hc; cases hc
    simp only [cVars] at h; cases h
    exact hinv
  | v :: vs, dsi, hc, cs, cs', hinv, h => by
    have hmono := checkVars_mono hc
    simp only [checkVars] at hc
    split at hc
    · cases hc
    · rename_i hnd
      have hnone : dsi.lookup v.name = none := by
        cases hl : dsi.lookup v.name with
        | none => rfl
        | some t => simp [hl] at hnd
      split at hc
      · cases hc
      · rename_i horig
        have hmono' := checkVars_mono hc
        have hname : ds.lookup v.name = some v.ty := by
          apply hmono'
          rw [lookup_append_right dsi _ v.name hnone]
          simp [List.lookup]
        simp only [cVars] at h
        split at h
        · cases h
        · rename_i idx cs1 hcv
          obtain ⟨i1, ⟨sg, x1⟩, c1, r, hr, hrn, hrt⟩ := cVar_ok hmono hname horig hinv.vars hinv.res hcv
          have hnotin : v.name ∉ cs1.vars.map (·.1) := by
            rw [x1.vars, hinv.names]
            intro hm
            obtain ⟨w, hw⟩ := mem_keys_lookup dsi v.name hm
            rw [hw] at hnone; cases hnone
          apply cVars_ok ds vs _ hc _ cs' _ h
          refine ⟨?_, i1, by simpa using (c1.trans hinv.code), by simp [x1.vars, hinv.names]⟩
          intro x j hl
          simp only at hl
          cases hx : cs1.vars.lookup x with
          | some j0 =>
            rw [lookup_append_left cs1.vars _ x j0 hx] at hl
            have hj : j0 = j := Option.some.inj hl
            subst hj
            rw [x1.vars] at hx
            obtain ⟨r0, h1, h2, h3⟩ := hinv.vars x j0 hx
            exact ⟨r0, x1.res_get h1, h2, h3⟩
          | none =>
            rw [lookup_append_right cs1.vars _ x hx] at hl
            simp only [List.lookup] at hl
            split at hl
            · rename_i heq
              cases hl
              have : x = v.name := by simpa using heq
              subst this
              exact ⟨r, hr, hrn, by rw [hrt]; exact hname⟩
            · cases hl

/-- The programs covered by the byte-code correctness proof so far: every statement is
    `print`, `fail`, `set_tx_meta`, `set_account_meta`, `save`; variables of any kind
    (plain, `meta()`, `balance()`), expressions of any shape. -/
def CompileCovered (s : Script) : Prop := ∀ st ∈ s.stmts, st.covered = true

theorem compile_typechecks {s : Script} {p : Program} (h : compile s = .ok p) :
    ∃ ds, typecheck s = .ok ds := by
  unfold compile at h
  split at h
  · cases h
  · rename_i ds hds; exact ⟨ds, hds⟩

/-- `exec (compile s) = runStmts s` on the resolved environment. -/
theorem exec_compile {s : Script} (hcov : CompileCovered s) {ds : Decls} (htc : typecheck s = .ok ds)
    {p : Program} (hc : compile s = .ok p) {env : Env} (henv : EnvTyped ds env) (bal : Balances) :
    exec p env bal = runStmts Cfg.fixed env s.stmts (initState bal) := by
  have hparts : checkVars s.vars [] = .ok ds ∧ checkStmts ds s.stmts = .ok () := by
    unfold typecheck at htc
    split at htc
    · cases htc
    · split at htc
      · cases htc
      · rename_i hcv _ hcs
        cases htc
        exact ⟨hcv, hcs⟩
  obtain ⟨hcv, hcs⟩ := hparts
  unfold compile at hc
  rw [htc] at hc
  simp only at hc
  split at hc
  · cases hc
  · rename_i cs1 hv1
    split at hc
    · cases hc
    · rename_i stf hst
      cases hc
      have vinv := cVars_ok ds s.vars [] hcv {} cs1
        ⟨(by intro x j h; simp at h), (by intro i r h; simp at h), rfl, rfl⟩ hv1
      obtain ⟨seg, s1, hres, hrun⟩ := cStmts_ok henv s.stmts hcov (checkStmts_inv s.stmts hcs) cs1 stf
        vinv.vars vinv.res hst
      obtain ⟨resv, hresv⟩ := resolveRes_exists henv hres stf.res [] (by simp) [] rfl
        (by intro i r hi; simp at hi)
      have hr := resolved_of_resolveRes hresv
      have hcode : stf.code = seg := by rw [s1.ext.code, vinv.code]; simp
      simp only [exec, hresv, hcode]
      rw [execInstrs_eq_runSeg, hrun stf.res resv ⟨[], by simp⟩ hr [] (initState bal)]
      cases runStmts Cfg.fixed env s.stmts (initState bal) with
      | error e => rfl
      | ok st' => simp

/-- Stage (f), proved part: for covered programs the byte-code pipeline
    (`compile`, then `exec` on the real opcodes) gives exactly what `sem` gives. -/
theorem semBytecode_eq_sem {s : Script} (hcov : CompileCovered s) {p : Program} (hc : compile s = .ok p)
    (inp : Input) : semBytecode Cfg.fixed s inp = sem Cfg.fixed s inp := by
  obtain ⟨ds, htc⟩ := compile_typechecks hc
  unfold semBytecode sem
  rw [hc, htc]
  simp only
  cases hp : prepare Cfg.fixed s inp with
  | error e => rfl
  | ok r =>
    obtain ⟨env, bal, pairs⟩ := r
    simp only
    obtain ⟨henv, _⟩ := (prepare_nf htc inp).2 env bal pairs hp
    rw [exec_compile hcov htc hc henv bal]
    cases runStmts Cfg.fixed env s.stmts (initState bal) <;> rfl

end Ledger.Machine
