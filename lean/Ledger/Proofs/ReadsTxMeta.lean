import Ledger.Proofs.ReadsMeta

/-!
The transaction-metadata history read of `Ledger.Reads` (`txRowOf` + `revisionAt`) equals
builder-core's `Spec.metaAt … (.tx id)` (the pair fold `txMetaStep`), for every journal in which the
transaction is committed once, before any write on it, with well-formed metadata maps.
-/
namespace Ledger.Reads
open Ledger.Base Ledger.Core Ledger.Spec

/-! ### map lemmas -/

theorem get?_foldl_insert_notin (md : Metadata) (m : Metadata) (hw : Map.WF m) (k : String)
    (hk : k ∉ Map.keys md) : (md.foldl (fun acc e => acc.insert e.1 e.2) m).get? k = m.get? k := by
  induction md generalizing m with
  | nil => rfl
  | cons x r ih =>
    simp only [List.foldl_cons]
    have hk' : k ∉ Map.keys r := fun h => hk (by simp [Map.keys] at h ⊢; exact Or.inr h)
    have hne : ¬ k = x.1 := fun h => hk (by simp [Map.keys, h])
    rw [ih _ (WF_insert x.1 x.2 hw) hk']
    unfold Map.insert
    rw [Map.get?_insertWith _ x.1 x.2 hw k, if_neg hne]

theorem get?_foldl_insert_mem (md : Metadata) (m : Metadata) (hw : Map.WF m) (hmd : Map.WF md)
    (e : String × String) (he : e ∈ md) : (md.foldl (fun acc e => acc.insert e.1 e.2) m).get? e.1 = some e.2 := by
  induction md generalizing m with
  | nil => cases he
  | cons x r ih =>
    simp only [List.foldl_cons]
    have hwi := WF_insert x.1 x.2 hw
    rcases List.mem_cons.mp he with rfl | her
    · have hnot : e.1 ∉ Map.keys r := by
        intro hmem
        obtain ⟨y, hy, hyk⟩ := List.mem_map.mp hmem
        have := (Map.WF_cons.mp hmd).1 y hy
        rw [hyk] at this
        exact absurd this (by simp [LawfulKeyOrd.irrefl])
      rw [get?_foldl_insert_notin r _ hwi e.1 hnot]
      unfold Map.insert
      rw [Map.get?_insertWith _ e.1 e.2 hw e.1]
      simp
      cases Map.get? m e.1 <;> rfl
    · exact ih _ hwi (Map.WF_tail hmd) her

/-- `a || d ≠ a` unless `a @> d` (for JSON objects: distinct keys). -/
theorem metaMerge_ne_self (m md : Metadata) (hw : Map.WF m) (hmd : Map.WF md)
    (hc : metaContains m md = false) : metaMerge m md ≠ m := by
  intro heq
  have : metaContains m md = true := by
    unfold metaContains
    rw [List.all_eq_true]
    intro e he
    have := get?_foldl_insert_mem md m hw hmd e he
    unfold metaMerge at heq
    rw [heq] at this
    simp [this]
  rw [this] at hc
  cases hc

theorem erase_eq_self (m : Metadata) (k : String) (h : m.get? k = none) : m.erase k = m := by
  induction m with
  | nil => rfl
  | cons x r ih =>
    obtain ⟨k', v⟩ := x
    unfold Map.erase
    by_cases hk : k' = k
    · simp [Map.get?, hk] at h
    · simp only [hk, if_false]
      have : Map.get? r k = none := by simpa [Map.get?, hk] using h
      rw [ih this]

theorem erase_length (m : Metadata) (k : String) (v : String) (h : m.get? k = some v) :
    (m.erase k).length + 1 = m.length := by
  induction m with
  | nil => simp [Map.get?] at h
  | cons x r ih =>
    obtain ⟨k', v'⟩ := x
    unfold Map.erase
    by_cases hk : k' = k
    · simp [hk]
    · simp only [hk, if_false, List.length_cons]
      have : Map.get? r k = some v := by simpa [Map.get?, hk] using h
      rw [ih this]

theorem erase_ne_self (m : Metadata) (k : String) (h : (m.get? k).isSome = true) : m.erase k ≠ m := by
  intro heq
  cases hg : m.get? k with
  | none => simp [hg] at h
  | some v =>
    have := erase_length m k v hg
    rw [heq] at this
    omega

/-! ### revisions as options -/

def revisionAt? (revs : List Revision) (t : Int) : Option Metadata :=
  ((revs.filter fun r => decide (r.1 ≤ t)).getLast?).map (·.2)

theorem revisionAt_eq (revs : List Revision) (t : Int) : revisionAt revs t = (revisionAt? revs t).getD [] := by
  unfold revisionAt revisionAt?
  cases (revs.filter fun r => decide (r.1 ≤ t)).getLast? <;> rfl

theorem revisionAt?_append (revs : List Revision) (d : Int) (m : Metadata) (t : Int) :
    revisionAt? (revs ++ [(d, m)]) t = if d ≤ t then some m else revisionAt? revs t := by
  unfold revisionAt?
  rw [List.filter_append]
  by_cases h : d ≤ t <;> simp [h]

/-! ### the journal of one transaction -/

/-- The transaction `id` is committed once, before any write on it (revert, metadata save /
    delete), and the metadata maps involved are JSON objects (well-formed maps). `seen`: already
    committed. -/
def TxJournalOK (id : Nat) : Bool → List Event → Prop
  | _, [] => True
  | seen, .committed tx _ _ :: es =>
    if tx.id = id then seen = false ∧ Map.WF tx.metadata ∧ TxJournalOK id true es else TxJournalOK id seen es
  | seen, .reverted id' _ :: es =>
    if id' = id then seen = true ∧ TxJournalOK id seen es else TxJournalOK id seen es
  | seen, .metaWrite e :: es =>
    if e.target = .tx id then
      seen = true ∧ (match e.change with | .save md => Map.WF md | .delete _ => True) ∧ TxJournalOK id seen es
    else TxJournalOK id seen es

/-- Joint invariant: the row of `Ledger.Reads` against the Spec's pair. -/
def TxInv (t : Int) (cur : Option Reads.TxRow) (st : Metadata × Option Metadata) : Prop :=
  match cur with
  | none => st = ([], none)
  | some r => r.metadata = st.1 ∧ revisionAt? r.revisions t = st.2 ∧ Map.WF st.1

theorem TxInv_fold (t : Int) (id : Nat) (es : List Event) :
    ∀ (cur : Option Reads.TxRow) (st : Metadata × Option Metadata), TxInv t cur st →
      TxJournalOK id cur.isSome es →
      TxInv t (es.foldl (txStep id) cur) (es.foldl (txMetaStep id (some t)) st) := by
  induction es with
  | nil => intro cur st h _; exact h
  | cons e es ih =>
    intro cur st hinv hok
    simp only [List.foldl_cons]
    cases e with
    | committed tx am up =>
      by_cases hid : tx.id = id
      · simp only [TxJournalOK, hid, if_true] at hok
        obtain ⟨hseen, hwf, hrest⟩ := hok
        have hcur : cur = none := by
          cases cur with
          | none => rfl
          | some r => simp at hseen
        subst hcur
        have hst : st = ([], none) := hinv
        subst hst
        have hs : txStep id none (.committed tx am up) =
            some { updatedAt := tx.insertedAt, metadata := metaMerge [] tx.metadata,
                   revisions := [(tx.timestamp, metaMerge [] tx.metadata)] } := by simp [txStep, hid]
        have hm : txMetaStep id (some t) ([], none) (.committed tx am up) =
            (metaMerge [] tx.metadata, if inTime (some t) tx.timestamp then some (metaMerge [] tx.metadata) else none) := by
          simp [txMetaStep, hid, applyChange_save]
        rw [hs, hm]
        apply ih _ _ _ (by simpa using hrest)
        refine ⟨rfl, ?_, WF_metaMerge [] tx.metadata Map.WF_nil⟩
        unfold revisionAt? inTime
        by_cases hle : tx.timestamp ≤ t <;> simp [hle]
      · have h1 : txStep id cur (.committed tx am up) = cur := by simp [txStep, hid]
        have h2 : txMetaStep id (some t) st (.committed tx am up) = st := by simp [txMetaStep, hid]
        rw [h1, h2]
        exact ih cur st hinv (by simpa [TxJournalOK, hid] using hok)
    | reverted id' d =>
      by_cases hid : id' = id
      · simp only [TxJournalOK, hid, if_true] at hok
        obtain ⟨hseen, hrest⟩ := hok
        cases cur with
        | none => simp at hseen
        | some r =>
          obtain ⟨h1, h2, h3⟩ := hinv
          apply ih _ _ _ (by simpa [txStep, hid] using hrest)
          simp only [txStep, hid, if_true, Option.map, txMetaStep, TxInv]
          refine ⟨h1, ?_, h3⟩
          rw [revisionAt?_append, h1, h2]
          unfold inTime
          by_cases hle : d ≤ t <;> simp [hle]
      · have h1 : txStep id cur (.reverted id' d) = cur := by simp [txStep, hid]
        have h2 : txMetaStep id (some t) st (.reverted id' d) = st := by simp [txMetaStep, hid]
        rw [h1, h2]
        exact ih cur st hinv (by simpa [TxJournalOK, hid] using hok)
    | metaWrite ev =>
      obtain ⟨target, d, change⟩ := ev
      by_cases htgt : target = .tx id
      · subst htgt
        simp only [TxJournalOK, if_true] at hok
        obtain ⟨hseen, hwf, hrest⟩ := hok
        cases cur with
        | none => simp at hseen
        | some r =>
          obtain ⟨h1, h2, h3⟩ := hinv
          cases change with
          | save md =>
            simp only at hwf
            by_cases hc : metaContains r.metadata md = true
            · have hs : txStep id (some r) (.metaWrite ⟨.tx id, d, .save md⟩) = some r := by
                simp [txStep, hc]
              have hm : txMetaStep id (some t) st (.metaWrite ⟨.tx id, d, .save md⟩) = st := by
                have heq : metaMerge st.1 md = st.1 := by
                  rw [← h1]; exact metaMerge_eq_self _ _ (by rw [h1]; exact h3) hc
                simp only [txMetaStep, if_true, applyChange_save]
                exact if_pos heq
              rw [hs, hm]
              exact ih _ _ ⟨h1, h2, h3⟩ (by simpa using hrest)
            · have hc' : metaContains r.metadata md = false := by simpa using hc
              have hne : metaMerge st.1 md ≠ st.1 := by
                rw [← h1]; exact metaMerge_ne_self _ _ (by rw [h1]; exact h3) hwf hc'
              have hs : txStep id (some r) (.metaWrite ⟨.tx id, d, .save md⟩) =
                  some { updatedAt := d, metadata := metaMerge r.metadata md,
                         revisions := r.revisions ++ [(d, metaMerge r.metadata md)] } := by
                simp [txStep, hc']
              have hm : txMetaStep id (some t) st (.metaWrite ⟨.tx id, d, .save md⟩) =
                  (metaMerge st.1 md, if inTime (some t) d then some (metaMerge st.1 md) else st.2) := by
                simp only [txMetaStep, if_true, applyChange_save]
                exact if_neg hne
              rw [hs, hm]
              apply ih _ _ _ (by simpa using hrest)
              refine ⟨by rw [h1], ?_, WF_metaMerge _ _ h3⟩
              rw [revisionAt?_append, h1, h2]
              unfold inTime
              by_cases hle : d ≤ t <;> simp [hle]
          | delete key =>
            cases hg : r.metadata.get? key with
            | none =>
              have hs : txStep id (some r) (.metaWrite ⟨.tx id, d, .delete key⟩) = some r := by
                simp [txStep, hg]
              have hm : txMetaStep id (some t) st (.metaWrite ⟨.tx id, d, .delete key⟩) = st := by
                have heq : st.1.erase key = st.1 := by rw [← h1]; exact erase_eq_self _ _ hg
                simp only [txMetaStep, if_true, applyChange_delete]
                exact if_pos heq
              rw [hs, hm]
              exact ih _ _ ⟨h1, h2, h3⟩ (by simpa using hrest)
            | some v =>
              have hne : st.1.erase key ≠ st.1 := by
                rw [← h1]; exact erase_ne_self _ _ (by simp [hg])
              have hs : txStep id (some r) (.metaWrite ⟨.tx id, d, .delete key⟩) =
                  some { updatedAt := d, metadata := r.metadata.erase key,
                         revisions := r.revisions ++ [(d, r.metadata.erase key)] } := by
                simp [txStep, hg]
              have hm : txMetaStep id (some t) st (.metaWrite ⟨.tx id, d, .delete key⟩) =
                  (st.1.erase key, if inTime (some t) d then some (st.1.erase key) else st.2) := by
                simp only [txMetaStep, if_true, applyChange_delete]
                exact if_neg hne
              rw [hs, hm]
              apply ih _ _ _ (by simpa using hrest)
              refine ⟨by rw [h1], ?_, WF_erase key h3⟩
              rw [revisionAt?_append, h1, h2]
              unfold inTime
              by_cases hle : d ≤ t <;> simp [hle]
      · have h1 : txStep id cur (.metaWrite ⟨target, d, change⟩) = cur := by
          cases target with
          | account a => cases change <;> simp [txStep]
          | tx id' =>
            have : id' ≠ id := fun h => htgt (by rw [h])
            cases change <;> simp [txStep, this]
        have h2 : txMetaStep id (some t) st (.metaWrite ⟨target, d, change⟩) = st := by
          simp [txMetaStep, htgt]
        rw [h1, h2]
        exact ih cur st hinv (by simpa [TxJournalOK, htgt] using hok)

/-- With the history on, the read at `t` is the Spec's revision lookup. -/
theorem txMetaRead_eq_metaAt (feat : Features) (l : Ledger) (id : Nat) (t : Int)
    (h : feat.txMetaHist = true) (hok : TxJournalOK id false l.events) :
    txMetaRead feat l id (some t) = metaAt l (.tx id) (some t) := by
  have hinv := TxInv_fold t id l.events none ([], none) rfl (by simpa using hok)
  unfold txMetaRead txRowOf metaAt
  simp only [h, if_true]
  cases hrow : l.events.foldl (txStep id) none with
  | none =>
    rw [hrow] at hinv
    have : l.events.foldl (txMetaStep id (some t)) ([], none) = ([], none) := hinv
    simp [this]
  | some r =>
    rw [hrow] at hinv
    obtain ⟨_, h2, _⟩ := hinv
    simp only [revisionAt_eq, h2]

theorem filterMap_congr_mem {α β : Type} (f g : α → Option β) (l : List α) (h : ∀ x ∈ l, f x = g x) :
    l.filterMap f = l.filterMap g := by
  induction l with
  | nil => rfl
  | cons x xs ih =>
    simp only [List.filterMap_cons, h x List.mem_cons_self]
    rw [ih (fun y hy => h y (List.mem_cons_of_mem _ hy))]

end Ledger.Reads
