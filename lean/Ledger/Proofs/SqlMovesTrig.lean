import Ledger.Proofs.SqlMovesSel
open Ledger Ledger.Sql Ledger.Generated Ledger.Core
namespace Ledger.Sql
open Ledger.Spec

theorem evalPureFn_coalesce (args : List Value) : evalPureFn "coalesce" args = some (pure ((args.find? (!·.isNull)).getD .null)) := by
  rfl

def tyNumeric : SqlType := SqlType.mk "" "numeric" "" false
def tyVolumes : SqlType := SqlType.mk "" "volumes" "" false

/-- the type environment knows the composite type `volumes` -/
structure VolTypes (te : TypeEnv) : Prop where
  noEnum : te.enums.lookup "volumes" = none
  comp : te.composites.lookup "volumes" = some [("inputs", tyNumeric), ("outputs", tyNumeric)]

theorem castTo_volumes_row (te : TypeEnv) (h : VolTypes te) (ns : List String) (i o : Int) :
    castTo te tyVolumes (.row ns [.int i, .int o]) = .ok (volVal ⟨i, o⟩) := by
  simp [castTo, tyVolumes, castNonArray, castScalar, isIntType, h.noEnum, h.comp, tyNumeric, volVal, intRangeCheck, bind, Except.bind, pure, Except.pure]

/-- advance the command counter -/
def St.bump (s : St) (k : Nat) : St := { s with nextCid := s.nextCid + k }

@[simp] theorem bump_w (s : St) (k : Nat) : (s.bump k).w = s.w := rfl
@[simp] theorem bump_xid (s : St) (k : Nat) : (s.bump k).xid = s.xid := rfl
@[simp] theorem bump_cid (s : St) (k : Nat) : (s.bump k).cid = s.cid := rfl
@[simp] theorem bump_nextCid (s : St) (k : Nat) : (s.bump k).nextCid = s.nextCid + k := rfl
@[simp] theorem bump_sp (s : St) (k : Nat) : (s.bump k).searchPath = s.searchPath := rfl
theorem enter_withCid (s : St) : s.enter.withCid s.cid = s.bump 1 := rfl
theorem bump_bump (s : St) (a b : Nat) : (s.bump a).bump b = s.bump (a + b) := by simp [St.bump, Nat.add_assoc]
theorem withSP_bump_withSP (s : St) (sp : String) (k : Nat) : ((s.withSP sp).bump k).withSP s.searchPath = s.bump k := rfl

/-- the effective volumes `set_effective_volumes` gives the NEW row -/
def pcevOf (tbl : List Spec.MoveRow) (n : Spec.MoveRow) : Volumes :=
  match prevMove tbl n with
  | some p => p.pcev.add n.delta
  | none => n.delta

/-- `set_effective_volumes` run as BEFORE INSERT ROW trigger for the NEW row `n` of ledger `ln`: NEW gets the effective volumes
    `Spec.setEffective` computes from the moves visible to the trigger; two command ids are used up. -/
theorem exec_runTrigger_setEff (p : Nat) (b ln fname : String) (n : Spec.MoveRow) (x : Value)
    (item wher dflt_ : Expr) (hsem : SetEffSem item wher dflt_) (hname : outNames [(item, "")] = ["row"])
    (f : PlFunc) (hdecls : f.decls = []) (hbody : f.body = setEffBody item wher dflt_)
    (s : St) (hs : TxState s) (hf : s.w.funcs.lookup fname = some f) (hschema : schemaOf fname = b)
    (hnc : s.nextCid + 2 ≤ 1000000000) (hvt : VolTypes s.w.types)
    (trigs : List TriggerDef) (nr : Nat) (rows : List Ver) (t : Table) (htc : t.cols = Schema.tbl_moves.cols)
    (hT : s.w.table? (mvFull b) = some ((mvT b trigs nr).withRows rows))
    (tbl : List (String × Spec.MoveRow)) (hview : MvView { xid := s.xid, cid := s.nextCid, snap := s.snap } rows tbl)
    (hseq : (tbl.map (·.2.seq)).Nodup) :
    (runTrigger (p + 10) fname t (some (mvValsX ln n x)) none).exec s =
      (.ok (some (mvValsX ln n (volVal (pcevOf (ledgerMoves ln tbl) n)))), s.bump 2) := by
  have hs1 : TxState (s.withSP b).enter := (hs.withSP b).enter (by simp; omega)
  have hq := exec_prevQuery p b ln n x false item wher dflt_ hsem hname (s.withSP b).enter hs1 rfl trigs nr rows hT tbl hview hseq
  have hd := hsem.hdflt (cbs (p + 7)) s.w.types ln n x false [] (s.withSP b).enter
  -- the assigned expression
  have hcoal : (evalExpr (cbs (p + 7)) s.w.types (plEnvV (mvValsX ln n x) false [])
      (Expr.call "" "coalesce" [Expr.subq (prevQuery item wher), dflt_])).exec (s.withSP b).enter =
      (.ok (.row [] [.int (pcevOf (ledgerMoves ln tbl) n).input, .int (pcevOf (ledgerMoves ln tbl) n).output]), (s.withSP b).enter) := by
    have hsub : (cbs (p + 7)).sub (prevQuery item wher) (plEnvV (mvValsX ln n x) false []) =
        evalQuery (p + 6) (plEnvV (mvValsX ln n x) false []) (prevQuery item wher) := rfl
    have hco : ((("" : String).isEmpty || "" == "pg_catalog") && "coalesce" == "coalesce") = true := by decide
    simp only [evalExpr, evalCoalesce, hco, if_true, exec_bind, hsub, hq, exec_pure]
    cases hp : prevMove (ledgerMoves ln tbl) n <;> simp [pcevOf, hp, Value.isNull, hd, evalCoalesce, exec_bind]
  have hassign := exec_withNewCid (evalExpr (cbs (p + 7)) s.w.types (plEnvV (mvValsX ln n x) false [])
      (Expr.call "" "coalesce" [Expr.subq (prevQuery item wher), dflt_])) (s.withSP b) _ _ hcoal
  rw [enter_withCid] at hassign
  rw [runTrigger]
  simp only [exec_bind, exec_getW, hf, exec_typeEnv]
  rw [exec_withSearchPath (schemaOf fname) _ s ((s.withSP b).bump 2) (some (mvValsX ln n (volVal (pcevOf (ledgerMoves ln tbl) n))))]
  · rfl
  · rw [hschema]
    simp only [hdecls, List.foldlM_nil, exec_bind, exec_pure, hbody, setEffBody]
    rw [execPl]
    simp only [exec_bind]
    rw [execPlStmt]
    simp only [exec_bind, exec_typeEnv, withSP_w]
    have henv : ∀ nv : List Value, ({ vars := [], tcols := t.cols, new := some nv } : PlSt).env = plEnvV nv false [] := by
      intro nv; simp [PlSt.env, plEnvV, htc, mvCols]
    simp only [prevQuery, prevOrder] at hassign
    simp only [henv, hassign]
    rw [plAssign]
    have hfind : t.cols.find? (fun c => c.name == "post_commit_effective_volumes") =
        some { name := "post_commit_effective_volumes", ty := tyVolumes, notNull := false, dflt := some Expr.null } := by
      rw [htc]; rfl
    simp only [exec_bind, exec_typeEnv, bump_w, withSP_w, show (("new" : String) == "new" || "new" == "old") = true from by decide,
      if_true, hfind, show (("new" : String) == "new") = true from by decide, castTo_volumes_row _ hvt, exec_liftR_ok, exec_pure]
    have hzip : ∀ v' : Value, (t.cols.zip (mvValsX ln n x)).map (fun c => if (c.1.name == "post_commit_effective_volumes") = true then v' else c.2) =
        mvValsX ln n v' := by
      intro v'; rw [htc]; rfl
    simp only [Bool.true_or, if_true, exec_bind, exec_liftR_ok, exec_pure, hzip]
    rw [execPl]
    simp only [exec_bind]
    rw [execPlStmt]
    simp only [exec_bind, exec_typeEnv, bump_w, withSP_w, henv]
    have hret : (evalExpr (cbs (p + 6)) s.w.types (plEnvV (mvValsX ln n (volVal (pcevOf (ledgerMoves ln tbl) n))) false []) (Expr.col "" "new")).exec
        ((s.withSP b).bump 1).enter = (.ok (.row mvCols (mvValsX ln n (volVal (pcevOf (ledgerMoves ln tbl) n)))), ((s.withSP b).bump 1).enter) := by
      simp only [evalExpr]
      rfl
    have hret' := exec_withNewCid _ _ _ _ hret
    rw [enter_withCid, bump_bump] at hret'
    simp only [volVal] at hret' ⊢
    simp only [hret', exec_pure]

end Ledger.Sql
