import Ledger.Proofs.SqlCommit4
import Ledger.Proofs.SqlAccountsRefine

/-!
# The four statements of transaction creation refine `Spec.applyTx` (`upsertAccounts = true`)

`exec_commit4` (UpdateVolumes; InsertTransaction; InsertMoves; UpsertAccounts as successive commands) composed with the abstraction
of `accounts` to the Spec (`AcAbsTo`, metadata through `metaOfJV`): the final state abstracts to `Spec.applyTx st t` in ALL components
the Spec store has a table for — volumes, moves, accounts — and the two sequences.
-/
open Ledger Ledger.Sql Ledger.Generated Ledger.Core Ledger.Base

namespace Ledger.Sql
open Ledger.Spec
open Ledger.Generated.WriteSql

/-- the account upserts `Spec.applyTx` performs, in order: the accounts of the postings (with their metadata, if any), then the
    metadata-only accounts -/
def acctBatch (t : TxIn) : List (String × Metadata) :=
  (involvedAccounts t.postings).map (fun a => (a, (t.accountMetadata.get? a).getD [])) ++
    t.accountMetadata.filter (fun e => !(involvedAccounts t.postings).contains e.1)

theorem foldl_acctBatch (t : TxIn) (m : Map String Spec.AccountRow) :
    (acctBatch t).foldl (fun acc e => upsertAccount acc e.1 (some t.timestamp) t.insertedAt e.2) m =
      (t.accountMetadata.filter (fun e => !(involvedAccounts t.postings).contains e.1)).foldl (fun acc e =>
        upsertAccount acc e.1 (some t.timestamp) t.insertedAt e.2)
        ((involvedAccounts t.postings).foldl (fun acc a =>
          upsertAccount acc a (some t.timestamp) t.insertedAt ((t.accountMetadata.get? a).getD [])) m) := by
  unfold acctBatch
  rw [List.foldl_append, List.foldl_map]

/-- **Refinement of `Spec.applyTx`, transaction creation (`upsertAccounts = true`).** -/
theorem commit4_refines_applyTx (k : Nat) (env : Env) (henv : env.ctes = []) (b l : String) (id : Nat)
    (rsA : List Ver) (nrA : Nat) (trigsT : List TriggerDef) (nrT : Nat) (rowsT : List Ver) (fullT : String) (sqT : Seq)
    (trigsM : List TriggerDef) (B1 B2 : List TriggerDef) (trB : TriggerDef) (A1 A2 : List TriggerDef) (trA : TriggerDef)
    (item wher dflt_ : Expr) (fB : PlFunc) (setE whereU : Expr) (fA : PlFunc) (nrM : Nat) (rowsM : List Ver) (sqM : Seq)
    (trigsC : List TriggerDef) (nrC : Nat) (rowsC : List Ver) (s : St)
    (hst : CommitState s b l rsA nrA trigsT nrT rowsT fullT sqT trigsM B1 B2 trB A1 A2 trA item wher dflt_ fB setE whereU fA nrM rowsM sqM)
    (hac : CommitAccounts s b trigsC nrC rowsC)
    -- the Spec store the state abstracts to
    (st st' : Spec.Store) (t : Spec.TxIn) (hup : t.upsertAccounts = true) (happly : Spec.applyTx st t = .ok st')
    (hwf : Map.WF st.accountsVolumes) (habsA : ∀ key, avAbs s b l key = st.accountsVolumes.get? key)
    (habsM : st.moves.Perm (ledgerMoves l (mvAbs (latestView s.w s.xid) rowsM)))
    (habsC : AcAbsTo l (acAbs (latestView s.w s.xid) rowsC) st.accounts)
    (hmetaC : ∀ a ∈ acAbs (latestView s.w s.xid) rowsC, IsMeta a.md)
    (hidT : (st.nextTxId : Int) = sqT.next) (hidM : (st.nextSeq : Int) = sqM.next)
    -- what the Go layer passes
    (vrows : List P.VolumeRow) (hvu : vuOf vrows = volumeUpdates t.postings) (hvne : vrows ≠ []) (hvnd : (vrows.map avKeyOf).Nodup)
    (L : TxLits) (hl : SeqLit (txSeqLit b id) fullT) (x : TxR) (hlit : TxLit s.w.types l L x) (hid : x.id = st.nextTxId)
    (href : ∀ r ∈ rowsT, r.visible (latestView s.w s.xid) = true → ∀ x', r.vals = txVals x' → txConf2 x x' = false)
    (pm : List (P.MoveRow × Spec.MoveRow)) (hne : pm ≠ []) (hlits : ∀ y ∈ pm, MvLit s.w.types y.1 y.2)
    (hpm : ∀ ms, movesOf (Spec.upsertVolumes st.accountsVolumes (volumeUpdates t.postings)).2 t.postings = .ok ms →
      pm.map (·.2) = toRows st.nextSeq st.nextTxId t.insertedAt t.timestamp ms)
    (hrange : sqM.next + pm.length ≤ 9223372036854775808) (hnc : s.nextCid + 4 + 4 * pm.length ≤ 1000000000)
    (am : List (P.AccountRow × DbR)) (halits : ∀ y ∈ am, DbLit s.w.types y.1 y.2) (hand : ((am.map (·.2)).map (·.address)).Nodup)
    (hbatch : (am.map (·.2)).map (fun d => (d.address, metaOfJV d.md)) = acctBatch t)
    (hdmeta : ∀ d ∈ am.map (·.2), IsMeta d.md ∧ d.dm = JV.obj [])
    (hdates : ∀ d ∈ am.map (·.2), d.fu = t.timestamp ∧ d.ins = t.insertedAt ∧ d.upd = t.insertedAt) :
    ∃ (rsA' : List Ver) (nrA' : Nat) (rowsM' : List Ver) (seqs' : List Seq) (rowsC' : List Ver) (nC : Nat) (res : List DmlResult),
      (seqRun (k + 19) env (P.updateVolumes b l id vrows ++
          P.insertTransaction b l id L.postings L.metadata L.timestamp L.reference L.inserted_at L.updated_at L.post_commit_volumes
            L.template L.sources L.destinations L.sources_arrays L.destinations_arrays ++
          P.insertMoves b l id (pm.map (·.1)) ++ P.upsertAccounts b l id (am.map (·.1)))).exec s =
        (.ok res, (((((s.bump (4 + 4 * pm.length)).withSeqs seqs').withTable (avT b rsA' nrA')).withTable
              ((txT b trigsT (nrT + 1)).withRows (newVer s.xid (s.nextCid + 1) nrT (txVals x) :: rowsT))).withTable
              ((mvT b trigsM (nrM + pm.length)).withRows rowsM')).withTable ((acT b trigsC (nrC + nC)).withRows rowsC')) ∧
      (∀ key, avView (latestView s.w s.xid) rsA' l key = st'.accountsVolumes.get? key) ∧
      (∀ l', l' ≠ l → ∀ key, avView (latestView s.w s.xid) rsA' l' key = avView (latestView s.w s.xid) rsA l' key) ∧
      (ledgerMoves l (mvAbs (latestView s.w s.xid) rowsM')).Perm st'.moves ∧
      (∀ l', l' ≠ l → (ledgerMoves l' (mvAbs (latestView s.w s.xid) rowsM')).Perm (ledgerMoves l' (mvAbs (latestView s.w s.xid) rowsM))) ∧
      AcAbsTo l (acAbs (latestView s.w s.xid) rowsC') st'.accounts ∧
      AvInv (latestView s.w s.xid) rsA' nrA' ∧ MvInv (latestView s.w s.xid) (st'.nextSeq : Int) rowsM' ∧
      AcInv (latestView s.w s.xid) (nrC + nC) rowsC' ∧
      (∃ sq', seqs'.find? (·.name == mvSeqFull b) = some sq' ∧ sq'.next = (st'.nextSeq : Int)) ∧
      (∃ sq', seqs'.find? (·.name == fullT) = some sq' ∧ sq'.next = (st'.nextTxId : Int)) := by
  unfold Spec.applyTx at happly
  simp only at happly
  cases hm : movesOf (Spec.upsertVolumes st.accountsVolumes (volumeUpdates t.postings)).2 t.postings with
  | error e => rw [hm] at happly; cases happly
  | ok ms =>
    rw [hm] at happly
    simp only [hup, if_true, Except.ok.injEq] at happly
    have hpm' := hpm ms hm
    have hlen : pm.length = ms.length := by
      have := congrArg List.length hpm'
      rw [List.length_map, toRows_length] at this
      exact this
    have hsf : SeqFrom sqM.next (pm.map (·.2)) := by
      rw [hpm']; exact seqFrom_toRows ms sqM.next _ _ _ _ hidM
    obtain ⟨rsA', nrA', rowsM', seqs', rowsC', nC, resA, s', hrun, hs', hinvA, hav1, hav2, hmv1, hmv2, hmvInv, hpermC, hinvC, hsM, hsT⟩ :=
      exec_commit4 k env henv b l id rsA nrA trigsT nrT rowsT fullT sqT trigsM B1 B2 trB A1 A2 trA item wher dflt_ fB setE whereU fA nrM rowsM sqM
        trigsC nrC rowsC s hst hac vrows hvne hvnd st.accountsVolumes hwf habsA L hl x hlit (by rw [hid]; exact hidT) href pm hne hlits hsf
        hrange hnc st.moves habsM am halits hand
    subst hs'
    -- accounts
    have hfold := upsert_refines_fold l _ _ (am.map (·.2)) st.accounts t.insertedAt habsC (acAbs_keys_nodup _ _ _ hinvC) hpermC hand hmetaC
      hdmeta (fun d hd => (hdates d hd).2)
    have hacc : (am.map (·.2)).foldl (fun acc d => upsertAccount acc d.address (some d.fu) t.insertedAt (metaOfJV d.md)) st.accounts =
        st'.accounts := by
      have h1 : (am.map (·.2)).foldl (fun acc d => upsertAccount acc d.address (some d.fu) t.insertedAt (metaOfJV d.md)) st.accounts =
          ((am.map (·.2)).map (fun d => (d.address, metaOfJV d.md))).foldl
            (fun acc e => upsertAccount acc e.1 (some t.timestamp) t.insertedAt e.2) st.accounts := by
        conv => rhs; rw [List.foldl_map]
        have : ∀ (ds : List DbR) (m : Map String Spec.AccountRow), (∀ d ∈ ds, d.fu = t.timestamp) →
            ds.foldl (fun acc d => upsertAccount acc d.address (some d.fu) t.insertedAt (metaOfJV d.md)) m =
            ds.foldl (fun acc d => upsertAccount acc d.address (some t.timestamp) t.insertedAt (metaOfJV d.md)) m := by
          intro ds
          induction ds with
          | nil => intro m _; rfl
          | cons d rest ih =>
            intro m h
            simp only [List.foldl_cons, h d (by simp)]
            exact ih _ (fun d' hd' => h d' (by simp [hd']))
        exact this _ _ (fun d hd => (hdates d hd).1)
      rw [h1, hbatch, foldl_acctBatch, ← happly]
    rw [hacc] at hfold
    refine ⟨rsA', nrA', rowsM', seqs', rowsC', nC, _, hrun, ?_, hav2, ?_, hmv2, hfold, hinvA, ?_, hinvC, ?_, ?_⟩
    · intro key
      rw [hav1 key, hvu, ← happly]
    · rw [← happly]
      simp only
      rw [← hpm']
      exact hmv1
    · rw [← happly]
      simp only
      have : ((st.nextSeq + ms.length : Nat) : Int) = sqM.next + pm.length := by rw [hlen]; push_cast; omega
      rw [this]; exact hmvInv
    · refine ⟨_, hsM, ?_⟩
      rw [← happly, Seq.next_set]
      simp only
      rw [hlen]; push_cast; omega
    · refine ⟨_, hsT, ?_⟩
      rw [← happly, Seq.next_set]
      simp only
      push_cast; omega

end Ledger.Sql
