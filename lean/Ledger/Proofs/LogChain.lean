import Ledger.Proofs.LogHashMain
import Ledger.Log.Chain

/-!
C09 helper lemmas: shape of the inserted row, the generated `select … order by id
desc limit 1` on a table with ascending ids, one sequential insert, the chain.
-/
namespace Ledger.Log
set_option linter.unusedSimpArgs false
open Ledger.Generated

/-! ### the row `InsertLog` sends -/

/-- `rowOfLog` succeeds with a `mkRow`, and ledger name / id only fill their columns. -/
theorem rowOfLog_shape (tags : BunTags) (ledger : Bytes) (id : Nat) (log : Log) (row : Row)
    (h : rowOfLog tags ledger id log = .ok row) :
    ∃ m ts ikv sv hv ik, ikText ikv = some ik ∧
      ∀ (ledger' : Bytes) (id' : Nat),
        rowOfLog tags ledger' id' log = .ok (mkRow ledger' id' log.payload.type.label m ts ikv sv hv) := by
  unfold rowOfLog at h
  cases hm : mementoBytes log.payload with
  | error e => simp [hm] at h
  | ok m =>
    simp only [hm] at h
    split at h
    · simp at h
    · next hz =>
      cases hts : timestampIn log.date with
        | error e => simp [hts] at h
        | ok ts =>
          simp only [hts] at h
          cases hik : textParam "idempotency_key" tags.idempotencyKeyNullZero log.idempotencyKey with
          | error e => simp [hik] at h
          | ok ikv =>
            simp only [hik] at h
            cases hsv : textParam "schema_version" tags.schemaVersionNullZero log.schemaVersion with
            | error e => simp [hsv] at h
            | ok sv =>
              have hikt : ∃ ik, ikText ikv = some ik := by
                unfold textParam at hik
                split at hik
                · cases hik; exact ⟨[], rfl⟩
                · split at hik
                  · cases hik; exact ⟨_, rfl⟩
                  · simp at hik
              obtain ⟨ik, hik'⟩ := hikt
              refine ⟨m, ts, ikv, sv, (match log.hash with | none => .null | some h => .bytea h), ik, hik', ?_⟩
              intro ledger' id'
              unfold rowOfLog
              simp only [hm, hts, hik, hsv]
              rw [if_neg hz]
              rfl

  /-! ### tables with ascending ids -/

  /-- rows of ledger `ledger`, ids `n, n+1, …`, hashes resolved -/
  def GoodTbl (ledger : Bytes) : Nat → Table → Prop
    | _, [] => True
    | n, r :: t => (r.ledger = .text ledger ∧ r.id = .num n ∧ ∃ h, r.hash = .bytea h) ∧ GoodTbl ledger (n + 1) t

  /-- the hash of the last row -/
  def lastHash : Table → PrevHash
    | [] => none
    | [r] => (match r.hash with | .bytea h => some h | _ => none)
    | _ :: t => lastHash t

  theorem GoodTbl_append (ledger : Bytes) (n : Nat) (tbl : Table) (r : Row)
      (h : GoodTbl ledger n tbl)
      (hr : r.ledger = .text ledger ∧ r.id = .num ((n + tbl.length : Nat) : Int) ∧ ∃ x, r.hash = .bytea x) :
      GoodTbl ledger n (tbl ++ [r]) := by
    induction tbl generalizing n with
    | nil => simpa [GoodTbl] using hr
    | cons a t ih =>
      obtain ⟨ha, ht⟩ := h
      have e : n + (a :: t).length = (n + 1) + t.length := by simp only [List.length_cons]; omega
      rw [e] at hr
      exact ⟨ha, ih (n + 1) ht hr⟩

  theorem lastHash_append (tbl : Table) (r : Row) (x : Bytes) (h : r.hash = .bytea x) :
      lastHash (tbl ++ [r]) = some x := by
    induction tbl with
    | nil => simp [lastHash, h]
    | cons a t ih =>
      cases t with
      | nil => simp [lastHash, h]
      | cons b t' => simpa [lastHash] using ih

  theorem filter_good (ledger : Bytes) (n : Nat) (tbl : Table) (h : GoodTbl ledger n tbl) :
      tbl.filter (fun r => r.get "ledger" = some (PgVal.text ledger)) = tbl := by
    induction tbl generalizing n with
    | nil => rfl
    | cons a t ih =>
      obtain ⟨⟨ha, _, _⟩, ht⟩ := h
      have hp : decide (a.get "ledger" = some (PgVal.text ledger)) = true := by simp [Row.get, ha]
      rw [List.filter_cons]
      simp only [hp, if_true]
      rw [ih (n + 1) ht]

  theorem selectLastKey_eq (ledger : Bytes) (tbl : Table) :
      selectLastKey genQuery tbl "new" (some (.text ledger)) =
        match pickLast true "id" (tbl.filter (fun r => r.get "ledger" = some (PgVal.text ledger))) none with
        | .error e => .error e
        | .ok none => .ok .null
        | .ok (some r) => match r.get "hash" with
          | some v => .ok v
          | none => .error (.unsupported "select column") := by
    simp [genQuery, selectLastKey]
    rfl

  theorem pickLast_good (ledger : Bytes) (tbl : Table) : ∀ (n : Nat) (b : Row) (k : Nat),
      GoodTbl ledger n tbl → b.id = .num k → k < n →
      ∃ r, pickLast true "id" tbl (some b) = .ok (some r) ∧
        r.hash = (match tbl with | [] => b.hash | _ => prevVal (lastHash tbl)) := by
    induction tbl with
    | nil => intro n b k _ _ _; exact ⟨b, rfl, rfl⟩
    | cons a t ih =>
      intro n b k h hb hk
      obtain ⟨⟨ha1, ha2, x, ha3⟩, ht⟩ := h
      have hlt : (k : Int) < (n : Int) := by exact_mod_cast hk
      obtain ⟨r, hr1, hr2⟩ := ih (n + 1) a n ht ha2 (Nat.lt_succ_self n)
      refine ⟨r, ?_, ?_⟩
      · simp only [pickLast, Row.get, ha2, hb]
        simp [hlt, hr1]
      · cases t with
        | nil => simpa [lastHash, ha3, prevVal] using hr2
        | cons c t' => simpa [lastHash] using hr2

  /-- On a good table the generated query returns the hash of the row with the largest id,
      i.e. of the LAST inserted log. -/
  theorem selectLastKey_good (ledger : Bytes) (tbl : Table) (h : GoodTbl ledger 1 tbl) :
      selectLastKey genQuery tbl "new" (some (.text ledger)) = .ok (prevVal (lastHash tbl)) := by
    rw [selectLastKey_eq, filter_good ledger 1 tbl h]
    cases tbl with
    | nil => simp [pickLast, lastHash, prevVal]
    | cons a t =>
      obtain ⟨⟨ha1, ha2, x, ha3⟩, ht⟩ := h
      obtain ⟨r, hr1, hr2⟩ := pickLast_good ledger t 2 a 1 ht ha2 (by omega)
      simp only [pickLast, hr1, Row.get]
      cases t with
      | nil => simpa [lastHash, ha3, prevVal] using hr2
      | cons c t' => simpa [lastHash] using hr2

  /-! ### one insert -/

  theorem insertLog_good (H : Bytes → Bytes) (ledger : Bytes) (tbl : Table) (log : Log) (tbl' : Table)
      (hg : GoodTbl ledger 1 tbl) (h : insertLog H ledger tbl log = .ok tbl') :
      ∃ row pre, tbl' = tbl ++ [row] ∧ GoodTbl ledger 1 tbl' ∧ row.id = .num (tbl.length + 1) ∧
        sqlPreimage log (lastHash tbl) = .ok pre ∧ row.hash = .bytea (H pre) ∧ lastHash tbl' = some (H pre) := by
    unfold insertLog at h
    cases hrow : rowOfLog bunTags ledger (tbl.length + 1) log with
    | error e => simp [hrow] at h
    | ok row0 =>
      obtain ⟨m, ts, ikv, sv, hv, ik, hik, hshape⟩ := rowOfLog_shape _ _ _ _ _ hrow
      have h1 := hshape ledger (tbl.length + 1)
      rw [hrow] at h1
      cases h1
      simp only [hrow] at h
      rw [trigger_bridge_row tbl ledger _ _ m ts ikv sv hv ik (lastHash tbl) hik (selectLastKey_good ledger tbl hg)] at h
      have hsql : sqlPreimage log (lastHash tbl) = sqlClean (lastHash tbl) (sqlJsonText log.payload.type.label m ts ik) := by
        unfold sqlPreimage sqlPreimageAt
        rw [hshape b!"l" (1 + 1)]
        exact trigger_bridge _ _ _ _ _ _ _ _ _ _ _ hik
      cases hc : sqlClean (lastHash tbl) (sqlJsonText log.payload.type.label m ts ik) with
      | error e => simp [hc] at h
      | ok pre =>
        simp only [hc, mkRow] at h
        cases h
        refine ⟨_, pre, rfl, ?_, ?_, ?_, rfl, ?_⟩
        · apply GoodTbl_append ledger 1 tbl _ hg
          refine ⟨rfl, ?_, _, rfl⟩
          show PgVal.num _ = PgVal.num _
          congr 1
          omega
        · rfl
        · rw [hsql, hc]
        · exact lastHash_append tbl _ _ rfl

  /-! ### the chain -/

  theorem insertAll_chained (H : Bytes → Bytes) (ledger : Bytes) (logs : List Log) :
      ∀ (tbl tbl' : Table), GoodTbl ledger 1 tbl → insertAll H ledger logs tbl = .ok tbl' →
        ∃ rows, tbl' = tbl ++ rows ∧ GoodTbl ledger 1 tbl' ∧ Chained H tbl.length (lastHash tbl) logs rows := by
    induction logs with
    | nil =>
      intro tbl tbl' hg h
      simp only [insertAll] at h
      cases h
      exact ⟨[], by simp, hg, Chained.nil _ _⟩
    | cons l ls ih =>
      intro tbl tbl' hg h
      simp only [insertAll] at h
      cases h1 : insertLog H ledger tbl l with
      | error e => simp [h1] at h
      | ok t1 =>
        simp only [h1] at h
        obtain ⟨row, pre, ht1, hg1, hid, hpre, hhash, hlast⟩ := insertLog_good H ledger tbl l t1 hg h1
        obtain ⟨rows, htbl', hg', hch⟩ := ih t1 tbl' hg1 h
        refine ⟨row :: rows, ?_, hg', ?_⟩
        · rw [htbl', ht1]; simp
        · have hlen : t1.length = tbl.length + 1 := by rw [ht1]; simp
          rw [hlen, hlast] at hch
          exact Chained.cons _ _ _ _ _ _ pre hid hpre hhash hch

  /-! ### the schema version never reaches the digest -/

  theorem textParam_ok (c : String) (nz : Bool) (s : Bytes) (h : pgTextOk s = true) :
      ∃ v, textParam c nz s = .ok v := by
    unfold textParam
    split
    · exact ⟨_, rfl⟩
    · exact ⟨.text s, by simp [h]⟩

  theorem sqlPreimage_schema_version_irrelevant (log : Log) (sv sv' : Bytes) (prev : PrevHash)
      (h : pgTextOk sv = true) (h' : pgTextOk sv' = true) :
      sqlPreimage { log with schemaVersion := sv } prev = sqlPreimage { log with schemaVersion := sv' } prev := by
    obtain ⟨v, hv⟩ := textParam_ok "schema_version" bunTags.schemaVersionNullZero sv h
    obtain ⟨v', hv'⟩ := textParam_ok "schema_version" bunTags.schemaVersionNullZero sv' h'
    unfold sqlPreimage sqlPreimageAt rowOfLog
    simp only [hv, hv']
    cases hm : mementoBytes log.payload with
    | error e => rfl
    | ok m =>
      simp only []
      by_cases hz : (bunTags.dateNullZero && isZeroDate log.date) = true
      · simp only [hz, if_true]
      · simp only [hz, if_false]
        cases hts : timestampIn log.date with
        | error e => rfl
        | ok ts =>
          simp only []
          cases hik : textParam "idempotency_key" bunTags.idempotencyKeyNullZero log.idempotencyKey with
          | error e => rfl
          | ok ikv =>
            simp only []
            have hikt : ∃ ik, ikText ikv = some ik := by
              unfold textParam at hik
              split at hik
              · cases hik; exact ⟨[], rfl⟩
              · split at hik
                · cases hik; exact ⟨_, rfl⟩
                · simp at hik
            obtain ⟨ik, hik'⟩ := hikt
            simp only [Bool.false_eq_true, if_false]
            show triggerPreimage (prevTable _ 1 prev) (mkRow b!"l" _ _ m ts ikv v _) =
              triggerPreimage (prevTable _ 1 prev) (mkRow b!"l" _ _ m ts ikv v' _)
            rw [trigger_bridge _ _ _ _ _ _ _ _ _ _ _ hik', trigger_bridge _ _ _ _ _ _ _ _ _ _ _ hik']

end Ledger.Log
