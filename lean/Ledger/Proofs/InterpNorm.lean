import Ledger.Proofs.InterpQueue
import Ledger.Api.InterpCompare

/-!
The unit expansion of a posting list determines its normal form under the comparison
the C26 differential applies (`Ledger.Api.Interp.norm`: drop the zero-amount postings,
merge adjacent postings of one (source, destination, asset)): two lists of postings with
amounts ≥ 0 and the same units have the same normal form.
-/
namespace Ledger.Interp
open Ledger.Machine

abbrev Key := String × String × String

/-- Put a run of `n` units of `k` in front of a run-length encoding. -/
def consRun (k : Key) (n : Nat) : List (Key × Nat) → List (Key × Nat)
  | [] => [(k, n)]
  | (k', m) :: tl => if k = k' then (k, n + m) :: tl else (k, n) :: (k', m) :: tl

/-- Run-length encoding. -/
def rle : List Key → List (Key × Nat)
  | [] => []
  | x :: xs => consRun x 1 (rle xs)

theorem consRun_consRun (k : Key) (a b : Nat) (r : List (Key × Nat)) :
    consRun k a (consRun k b r) = consRun k (a + b) r := by
  cases r with
  | nil => simp [consRun]
  | cons x tl =>
    obtain ⟨k', m⟩ := x
    by_cases h : k = k'
    · subst h; simp [consRun]; omega
    · simp [consRun, h]

theorem rle_replicate_append (k : Key) (n : Nat) (U : List Key) :
    rle (List.replicate (n + 1) k ++ U) = consRun k (n + 1) (rle U) := by
  induction n with
  | zero => simp [List.replicate, rle]
  | succ n ih =>
    rw [List.replicate_succ, List.cons_append, rle, ih, consRun_consRun]
    congr 1; omega

def toP1 (p : Posting) : Ledger.Api.Interp.P :=
  { source := p.source, destination := p.destination, asset := p.asset, amount := p.amount }

def toP (ps : List Posting) : List Ledger.Api.Interp.P := ps.map toP1

def enc (r : List (Key × Nat)) : List Ledger.Api.Interp.P :=
  r.map fun x => { source := x.1.1, destination := x.1.2.1, asset := x.1.2.2, amount := (x.2 : Int) }

open Ledger.Api.Interp in
theorem norm_eq_enc (ps : List Posting) (h : ∀ p ∈ ps, 0 ≤ p.amount) :
    norm (toP ps) = enc (rle (unitsP ps)) := by
  induction ps with
  | nil => simp [norm, toP, dropZeros, mergeAdjacent, enc, rle]
  | cons p ps ih =>
    have hp : 0 ≤ p.amount := h p (by simp)
    have ih' := ih (fun q hq => h q (by simp [hq]))
    simp only [norm, toP] at ih' ⊢
    by_cases hz : p.amount = 0
    · -- a zero posting disappears on both sides
      have : unitsP (p :: ps) = unitsP ps := by simp [unitsP, hz]
      rw [this, ← ih']
      simp [dropZeros, toP1, hz]
    · obtain ⟨n, hn⟩ : ∃ n : Nat, p.amount.toNat = n + 1 := ⟨p.amount.toNat - 1, by omega⟩
      have hu : unitsP (p :: ps) =
          List.replicate (n + 1) (p.source, p.destination, p.asset) ++ unitsP ps := by
        simp [unitsP, hn]
      rw [hu, rle_replicate_append]
      have hd : dropZeros (List.map toP1 (p :: ps)) = toP1 p :: dropZeros (List.map toP1 ps) := by
        simp [dropZeros, toP1, hz]
      rw [hd, mergeAdjacent, ih']
      cases hr : rle (unitsP ps) with
      | nil =>
        simp only [enc, List.map_nil, consRun, List.map_cons, toP1]
        congr 2; omega
      | cons x tl =>
        obtain ⟨⟨s, d, a⟩, m⟩ := x
        simp only [enc, List.map_cons, consRun, toP1]
        by_cases hk : (p.source, p.destination, p.asset) = (s, d, a)
        · have h3 : p.source = s ∧ p.destination = d ∧ p.asset = a := by
            simpa using hk
          obtain ⟨rfl, rfl, rfl⟩ := h3
          simp only [and_self, if_true, List.map_cons]
          congr 2
          push_cast; omega
        · have h3 : ¬ (p.source = s ∧ p.destination = d ∧ p.asset = a) := by
            intro x; exact hk (by simp [x.1, x.2.1, x.2.2])
          simp only [h3, hk, if_false, List.map_cons]
          congr 2; omega

/-- Same units and amounts ≥ 0 ⇒ same normal form (what the differential compares). -/
theorem norm_eq_of_units {ps qs : List Posting} (hp : ∀ p ∈ ps, 0 ≤ p.amount)
    (hq : ∀ p ∈ qs, 0 ≤ p.amount) (h : unitsP ps = unitsP qs) :
    Ledger.Api.Interp.norm (toP ps) = Ledger.Api.Interp.norm (toP qs) := by
  rw [norm_eq_enc ps hp, norm_eq_enc qs hq, h]

end Ledger.Interp
