import Ledger.Proofs.CoreSpec
import Ledger.Spec.Pcev

/-! C04: the multi-row insert into `moves` with the triggers of migration 11 preserves the
    effective-volumes invariant, for an arbitrary (back-dated / tied / future) effective date. -/
set_option linter.unusedSectionVars false
namespace Ledger.Spec
open Ledger.Base Ledger.Core

/-! ### conditional sums -/

def sumIf (f : MoveRow → Int) (P : MoveRow → Bool) : List MoveRow → Int
  | [] => 0
  | m :: l => (if P m then f m else 0) + sumIf f P l

theorem sumIf_append (f : MoveRow → Int) (P : MoveRow → Bool) (a b : List MoveRow) :
    sumIf f P (a ++ b) = sumIf f P a + sumIf f P b := by
  induction a with
  | nil => simp [sumIf]
  | cons m a ih => simp only [List.cons_append, sumIf, ih]; omega

theorem sumIf_congr {f : MoveRow → Int} {P Q : MoveRow → Bool} {l : List MoveRow}
    (h : ∀ m ∈ l, P m = Q m) : sumIf f P l = sumIf f Q l := by
  induction l with
  | nil => rfl
  | cons m l ih =>
    simp only [sumIf]
    rw [h m List.mem_cons_self, ih (fun x hx => h x (List.mem_cons_of_mem _ hx))]

theorem sumIf_false {f : MoveRow → Int} {P : MoveRow → Bool} {l : List MoveRow}
    (h : ∀ m ∈ l, P m = false) : sumIf f P l = 0 := by
  induction l with
  | nil => rfl
  | cons m l ih =>
    simp only [sumIf]
    rw [h m List.mem_cons_self, ih (fun x hx => h x (List.mem_cons_of_mem _ hx))]
    simp

theorem sumIf_map {f : MoveRow → Int} {P : MoveRow → Bool} (H : MoveRow → MoveRow) (l : List MoveRow)
    (hP : ∀ m ∈ l, P (H m) = P m) (hf : ∀ m ∈ l, f (H m) = f m) : sumIf f P (l.map H) = sumIf f P l := by
  induction l with
  | nil => rfl
  | cons m l ih =>
    simp only [List.map_cons, sumIf]
    rw [hP m List.mem_cons_self, hf m List.mem_cons_self,
      ih (fun x hx => hP x (List.mem_cons_of_mem _ hx)) (fun x hx => hf x (List.mem_cons_of_mem _ hx))]

theorem sumIf_filter (f : MoveRow → Int) (P : MoveRow → Bool) (l : List MoveRow) :
    sumIf f (fun _ => true) (l.filter P) = sumIf f P l := by
  induction l with
  | nil => rfl
  | cons m l ih =>
    simp only [List.filter_cons, sumIf]
    by_cases h : P m = true
    · simp [h, sumIf, ih]
    · simp [h, ih]

/-! ### projections of volumes -/

/-- `g` reads one component of a `Volumes`, `f` the matching component of a move's delta. -/
structure Proj (f : MoveRow → Int) (g : Volumes → Int) : Prop where
  add : ∀ (v : Volumes) (m : MoveRow), g (v.add m.delta) = g v + f m
  zero : g Volumes.zero = 0
  coords : ∀ (a b : MoveRow), a.amount = b.amount → a.isSource = b.isSource → f a = f b

def dIn (m : MoveRow) : Int := if m.isSource then 0 else m.amount
def dOut (m : MoveRow) : Int := if m.isSource then m.amount else 0

theorem projIn : Proj dIn Volumes.input where
  add v m := by unfold MoveRow.delta dIn Volumes.add; split <;> simp
  zero := rfl
  coords a b h1 h2 := by simp [dIn, h1, h2]

theorem projOut : Proj dOut Volumes.output where
  add v m := by unfold MoveRow.delta dOut Volumes.add; split <;> simp
  zero := rfl
  coords a b h1 h2 := by simp [dOut, h1, h2]

theorem g_foldl_deltas {f : MoveRow → Int} {g : Volumes → Int} (pr : Proj f g) (l : List MoveRow) (v : Volumes) :
    g (l.foldl (fun acc m => acc.add m.delta) v) = g v + sumIf f (fun _ => true) l := by
  induction l generalizing v with
  | nil => simp [sumIf]
  | cons m l ih => simp only [List.foldl_cons, ih, pr.add, sumIf, if_true]; omega

theorem g_sumDeltas {f : MoveRow → Int} {g : Volumes → Int} (pr : Proj f g) (l : List MoveRow) :
    g (sumDeltas l) = sumIf f (fun _ => true) l := by
  unfold sumDeltas; rw [g_foldl_deltas pr, pr.zero]; omega

/-- The invariant, one component at a time. -/
def InvF (f : MoveRow → Int) (g : Volumes → Int) (t : List MoveRow) : Prop :=
  ∀ m ∈ t, g m.pcev = sumIf f (MoveRow.countsFor m) t

theorem PCEV_Inv_iff (t : List MoveRow) : PCEV_Inv t ↔ InvF dIn Volumes.input t ∧ InvF dOut Volumes.output t := by
  unfold PCEV_Inv InvF
  constructor
  · intro h
    constructor
    · intro m hm; rw [h m hm, g_sumDeltas projIn, sumIf_filter]
    · intro m hm; rw [h m hm, g_sumDeltas projOut, sumIf_filter]
  · rintro ⟨h1, h2⟩ m hm
    apply Volumes.ext'
    · rw [h1 m hm, g_sumDeltas projIn, sumIf_filter]
    · rw [h2 m hm, g_sumDeltas projOut, sumIf_filter]

/-! ### order facts -/

theorem countsFor_coords {a a' b b' : MoveRow}
    (h1 : a.key = a'.key) (h2 : a.effectiveDate = a'.effectiveDate) (h3 : a.seq = a'.seq)
    (h4 : b.key = b'.key) (h5 : b.effectiveDate = b'.effectiveDate) (h6 : b.seq = b'.seq) :
    MoveRow.countsFor a b = MoveRow.countsFor a' b' := by
  simp [MoveRow.countsFor, MoveRow.notAfter, h1, h2, h3, h4, h5, h6]

theorem before_iff (a b : MoveRow) : a.before b = true ↔
    (a.effectiveDate < b.effectiveDate ∨ (a.effectiveDate = b.effectiveDate ∧ a.seq < b.seq)) := by
  simp [MoveRow.before]

theorem notAfter_iff (a b : MoveRow) : a.notAfter b = true ↔
    (a.effectiveDate < b.effectiveDate ∨ (a.effectiveDate = b.effectiveDate ∧ a.seq ≤ b.seq)) := by
  simp [MoveRow.notAfter]

/-! ### `prevMove` picks the latest candidate -/

theorem prevMove_none {t : List MoveRow} {n : MoveRow} (h : prevMove t n = none) :
    ∀ c ∈ t, ¬ (c.key = n.key ∧ c.before n = true) := by
  induction t with
  | nil => intro c hc; simp at hc
  | cons m r ih =>
    unfold prevMove at h
    by_cases hc : m.key = n.key ∧ m.before n = true
    · rw [if_pos hc] at h
      cases hp : prevMove r n with
      | none => rw [hp] at h; simp at h
      | some b => rw [hp] at h; simp at h
    · rw [if_neg hc] at h
      intro c hcm
      rcases List.mem_cons.mp hcm with rfl | hcm
      · exact hc
      · exact ih h c hcm

theorem prevMove_some {t : List MoveRow} {n p : MoveRow} (h : prevMove t n = some p) :
    p ∈ t ∧ p.key = n.key ∧ p.before n = true ∧
    ∀ c ∈ t, c.key = n.key → c.before n = true → c.notAfter p = true := by
  induction t generalizing p with
  | nil => simp [prevMove] at h
  | cons m r ih =>
    unfold prevMove at h
    by_cases hc : m.key = n.key ∧ m.before n = true
    · rw [if_pos hc] at h
      cases hp : prevMove r n with
      | none =>
        rw [hp] at h
        simp only [Option.some.injEq] at h
        subst h
        refine ⟨List.mem_cons_self, hc.1, hc.2, ?_⟩
        intro c hcm hk hb
        rcases List.mem_cons.mp hcm with rfl | hcm
        · rw [notAfter_iff]; right; exact ⟨rfl, Nat.le_refl _⟩
        · exact absurd ⟨hk, hb⟩ (prevMove_none hp c hcm)
      | some b =>
        rw [hp] at h
        simp only [Option.some.injEq] at h
        obtain ⟨hb1, hb2, hb3, hb4⟩ := ih hp
        by_cases hmb : m.before b = true
        · rw [if_pos hmb] at h
          subst h
          refine ⟨List.mem_cons_of_mem _ hb1, hb2, hb3, ?_⟩
          intro c hcm hk hb
          rcases List.mem_cons.mp hcm with rfl | hcm
          · rw [notAfter_iff]; rw [before_iff] at hmb; omega
          · exact hb4 c hcm hk hb
        · rw [if_neg hmb] at h
          subst h
          refine ⟨List.mem_cons_self, hc.1, hc.2, ?_⟩
          intro c hcm hk hb
          rcases List.mem_cons.mp hcm with rfl | hcm
          · rw [notAfter_iff]; right; exact ⟨rfl, Nat.le_refl _⟩
          · have h1 := hb4 c hcm hk hb
            rw [notAfter_iff] at h1 ⊢
            rw [before_iff] at hmb
            omega
    · rw [if_neg hc] at h
      obtain ⟨hb1, hb2, hb3, hb4⟩ := ih h
      refine ⟨List.mem_cons_of_mem _ hb1, hb2, hb3, ?_⟩
      intro c hcm hk hb
      rcases List.mem_cons.mp hcm with rfl | hcm
      · exact absurd ⟨hk, hb⟩ hc
      · exact hb4 c hcm hk hb

/-! ### phase 1: BEFORE-ROW triggers -/

/-- The invariant restricted to the moves dated `≤ e`. -/
def LowInv (f : MoveRow → Int) (g : Volumes → Int) (e : Int) (t : List MoveRow) : Prop :=
  ∀ m ∈ t, m.effectiveDate ≤ e → g m.pcev = sumIf f (MoveRow.countsFor m) t

theorem LowInv_snoc {f : MoveRow → Int} {g : Volumes → Int} (pr : Proj f g) {e : Int} {t : List MoveRow}
    {r : MoveRow} (hinv : LowInv f g e t) (hr : r.effectiveDate = e) (hseq : ∀ m ∈ t, m.seq < r.seq) :
    LowInv f g e (t ++ [setEffective t r]) := by
  have hcoord : ∀ x : MoveRow, MoveRow.countsFor x (setEffective t r) = MoveRow.countsFor x r := by
    intro x; exact countsFor_coords rfl rfl rfl rfl rfl rfl
  have hf : f (setEffective t r) = f r := pr.coords _ _ rfl rfl
  intro m hm hme
  rw [sumIf_append]
  simp only [sumIf]
  rcases List.mem_append.mp hm with hm | hm
  · -- an existing move dated ≤ e does not count the new one
    have hnot : MoveRow.countsFor m (setEffective t r) = false := by
      rw [hcoord]
      have := hseq m hm
      simp only [MoveRow.countsFor, MoveRow.notAfter, Bool.and_eq_false_iff, Bool.or_eq_false_iff,
        decide_eq_false_iff_not, Bool.and_eq_false_iff]
      right
      constructor
      · omega
      · by_cases h : r.effectiveDate = m.effectiveDate
        · right; omega
        · left; exact h
    rw [hnot, hinv m hm hme]
    simp
  · -- the new move
    simp only [List.mem_singleton] at hm
    subst hm
    have hself : MoveRow.countsFor (setEffective t r) (setEffective t r) = true := by
      simp [MoveRow.countsFor, MoveRow.notAfter]
    rw [hself, hf]
    simp only [if_true]
    have hcong : sumIf f (MoveRow.countsFor (setEffective t r)) t = sumIf f (MoveRow.countsFor r) t :=
      sumIf_congr (fun c _ => countsFor_coords rfl rfl rfl rfl rfl rfl)
    rw [hcong]
    -- `c` counts for `r` iff it is a `prevMove` candidate
    have hcand : ∀ c ∈ t, MoveRow.countsFor r c = true ↔ (c.key = r.key ∧ c.before r = true) := by
      intro c hc
      have := hseq c hc
      simp only [MoveRow.countsFor, Bool.and_eq_true, beq_iff_eq, notAfter_iff, before_iff]
      constructor
      · rintro ⟨h1, h2⟩; exact ⟨h1, by omega⟩
      · rintro ⟨h1, h2⟩; exact ⟨h1, by omega⟩
    show g (setEffective t r).pcev = _
    unfold setEffective
    simp only []
    cases hp : prevMove t r with
    | none =>
      simp only []
      have hz : sumIf f (MoveRow.countsFor r) t = 0 := by
        apply sumIf_false
        intro c hc
        cases hcc : MoveRow.countsFor r c with
        | false => rfl
        | true => exact absurd ((hcand c hc).mp hcc) (prevMove_none hp c hc)
      have : g r.delta = f r := by
        have := pr.add Volumes.zero r
        rw [Volumes.zero_add, pr.zero] at this
        omega
      rw [hz, this]; omega
    | some p =>
      simp only []
      obtain ⟨hp1, hp2, hp3, hp4⟩ := prevMove_some hp
      have hpe : p.effectiveDate ≤ e := by
        rw [before_iff] at hp3; omega
      rw [pr.add, hinv p hp1 hpe]
      have : sumIf f (MoveRow.countsFor p) t = sumIf f (MoveRow.countsFor r) t := by
        apply sumIf_congr
        intro c hc
        rw [Bool.eq_iff_iff]
        constructor
        · intro h
          rw [hcand c hc]
          simp only [MoveRow.countsFor, Bool.and_eq_true, beq_iff_eq, notAfter_iff] at h
          rw [before_iff] at hp3 ⊢
          exact ⟨h.1.trans hp2, by omega⟩
        · intro h
          obtain ⟨h1, h2⟩ := (hcand c hc).mp h
          simp only [MoveRow.countsFor, Bool.and_eq_true, beq_iff_eq]
          exact ⟨h1.trans hp2.symm, hp4 c hc h1 h2⟩
      rw [this]; omega

theorem insertPhase1_eq (t news : List MoveRow) : insertPhase1 t news = t ++ insertedRows t news := by
  induction news generalizing t with
  | nil => simp [insertPhase1, insertedRows]
  | cons n ns ih => simp [insertPhase1, insertedRows, ih]

/-- inserted rows keep every column but `pcev` -/
theorem insertedRows_coords (t news : List MoveRow) :
    ∀ r' ∈ insertedRows t news, ∃ r ∈ news, r'.key = r.key ∧ r'.effectiveDate = r.effectiveDate ∧ r'.seq = r.seq ∧
      r'.amount = r.amount ∧ r'.isSource = r.isSource := by
  induction news generalizing t with
  | nil => intro r' h; simp [insertedRows] at h
  | cons n ns ih =>
    intro r' h
    simp only [insertedRows, List.mem_cons] at h
    rcases h with rfl | h
    · exact ⟨n, List.mem_cons_self, rfl, rfl, rfl, rfl, rfl⟩
    · obtain ⟨r, hr, hh⟩ := ih _ r' h
      exact ⟨r, List.mem_cons_of_mem _ hr, hh⟩

theorem LowInv_phase1 {f : MoveRow → Int} {g : Volumes → Int} (pr : Proj f g) {e : Int} (news : List MoveRow)
    {t : List MoveRow} (hinv : LowInv f g e t) (hb : FreshBatch t news e) :
    LowInv f g e (insertPhase1 t news) := by
  induction news generalizing t with
  | nil => exact hinv
  | cons n ns ih =>
    simp only [insertPhase1]
    apply ih (LowInv_snoc pr hinv (hb.eff n List.mem_cons_self) (fun m hm => hb.above m hm n List.mem_cons_self))
    refine ⟨fun r hr => hb.eff r (List.mem_cons_of_mem _ hr), ?_, (List.pairwise_cons.mp hb.increasing).2⟩
    intro m hm r hr
    rcases List.mem_append.mp hm with hm | hm
    · exact hb.above m hm r (List.mem_cons_of_mem _ hr)
    · simp only [List.mem_singleton] at hm
      subst hm
      exact (List.pairwise_cons.mp hb.increasing).1 r hr

/-! ### phase 2: AFTER-ROW triggers -/

def bump (n m : MoveRow) : MoveRow :=
  if m.key = n.key ∧ n.effectiveDate < m.effectiveDate then { m with pcev := m.pcev.add n.delta } else m

def bumpAll (rs : List MoveRow) (m : MoveRow) : MoveRow := rs.foldl (fun m r => bump r m) m

theorem updateEffective_eq (n : MoveRow) (t : List MoveRow) : updateEffective n t = t.map (bump n) := rfl

theorem insertPhase2_eq (t rs : List MoveRow) : insertPhase2 t rs = t.map (bumpAll rs) := by
  induction rs generalizing t with
  | nil =>
    have : bumpAll [] = id := rfl
    rw [this, List.map_id]; rfl
  | cons r rs ih =>
    simp only [insertPhase2, ih, updateEffective_eq, List.map_map]
    rfl

theorem bump_coords (n m : MoveRow) :
    (bump n m).key = m.key ∧ (bump n m).effectiveDate = m.effectiveDate ∧ (bump n m).seq = m.seq ∧
    (bump n m).amount = m.amount ∧ (bump n m).isSource = m.isSource := by
  unfold bump; split <;> exact ⟨rfl, rfl, rfl, rfl, rfl⟩

theorem bumpAll_coords (rs : List MoveRow) (m : MoveRow) :
    (bumpAll rs m).key = m.key ∧ (bumpAll rs m).effectiveDate = m.effectiveDate ∧ (bumpAll rs m).seq = m.seq ∧
    (bumpAll rs m).amount = m.amount ∧ (bumpAll rs m).isSource = m.isSource := by
  induction rs generalizing m with
  | nil => exact ⟨rfl, rfl, rfl, rfl, rfl⟩
  | cons r rs ih =>
    obtain ⟨a1, a2, a3, a4, a5⟩ := ih (bump r m)
    obtain ⟨b1, b2, b3, b4, b5⟩ := bump_coords r m
    exact ⟨a1.trans b1, a2.trans b2, a3.trans b3, a4.trans b4, a5.trans b5⟩

theorem g_bumpAll {f : MoveRow → Int} {g : Volumes → Int} (pr : Proj f g) {e : Int} (rs : List MoveRow)
    (hrs : ∀ r ∈ rs, r.effectiveDate = e) (m : MoveRow) :
    g (bumpAll rs m).pcev = g m.pcev + sumIf f (fun r => r.key == m.key && decide (e < m.effectiveDate)) rs := by
  induction rs generalizing m with
  | nil => simp [bumpAll, sumIf]
  | cons r rs ih =>
    have hr := hrs r List.mem_cons_self
    have e1 : bumpAll (r :: rs) m = bumpAll rs (bump r m) := rfl
    obtain ⟨b1, b2, _, _, _⟩ := bump_coords r m
    rw [e1, ih (fun x hx => hrs x (List.mem_cons_of_mem _ hx)), b1, b2]
    simp only [sumIf]
    have : g (bump r m).pcev = g m.pcev + (if (r.key == m.key && decide (e < m.effectiveDate)) = true then f r else 0) := by
      unfold bump
      by_cases hc : m.key = r.key ∧ r.effectiveDate < m.effectiveDate
      · rw [if_pos hc, pr.add]
        have : (r.key == m.key && decide (e < m.effectiveDate)) = true := by
          simp [hc.1, ← hr, hc.2]
        rw [if_pos this]
      · rw [if_neg hc]
        have : ¬ ((r.key == m.key && decide (e < m.effectiveDate)) = true) := by
          intro h
          simp only [Bool.and_eq_true, beq_iff_eq, decide_eq_true_eq] at h
          exact hc ⟨h.1.symm, by omega⟩
        rw [if_neg this]; omega
    rw [this]; omega

/-! ### the insert preserves the invariant -/

theorem InvF_insertMoves {f : MoveRow → Int} {g : Volumes → Int} (pr : Proj f g) {e : Int}
    {table news : List MoveRow} (hinv : InvF f g table) (hb : FreshBatch table news e) :
    InvF f g (insertMoves table news) := by
  unfold insertMoves
  rw [insertPhase2_eq]
  obtain ⟨R', hR'⟩ : ∃ R', R' = insertedRows table news := ⟨_, rfl⟩
  rw [← hR']
  have ht1 : insertPhase1 table news = table ++ R' := by rw [hR']; exact insertPhase1_eq table news
  have hlow : LowInv f g e (insertPhase1 table news) :=
    LowInv_phase1 pr news (fun m hm _ => hinv m hm) hb
  have hR'e : ∀ r ∈ R', r.effectiveDate = e := by
    intro r hr
    obtain ⟨r0, hr0, _, h2, _⟩ := insertedRows_coords table news r (hR' ▸ hr)
    rw [h2]; exact hb.eff r0 hr0
  have hR'seq : ∀ m ∈ table, ∀ r ∈ R', m.seq < r.seq := by
    intro m hm r hr
    obtain ⟨r0, hr0, _, _, h3, _⟩ := insertedRows_coords table news r (hR' ▸ hr)
    rw [h3]; exact hb.above m hm r0 hr0
  intro x hx
  obtain ⟨y, hy, rfl⟩ := List.mem_map.mp hx
  obtain ⟨c1, c2, c3, c4, c5⟩ := bumpAll_coords R' y
  -- sums over the bumped table = sums over the phase-1 table
  have hsum : sumIf f (MoveRow.countsFor (bumpAll R' y)) ((insertPhase1 table news).map (bumpAll R')) =
      sumIf f (MoveRow.countsFor y) (insertPhase1 table news) := by
    rw [sumIf_map]
    · apply sumIf_congr
      intro c _
      exact countsFor_coords c1 c2 c3 rfl rfl rfl
    · intro c _
      obtain ⟨d1, d2, d3, _, _⟩ := bumpAll_coords R' c
      exact countsFor_coords rfl rfl rfl d1 d2 d3
    · intro c _
      obtain ⟨_, _, _, d4, d5⟩ := bumpAll_coords R' c
      exact pr.coords _ _ d4 d5
  rw [hsum, g_bumpAll pr R' hR'e y]
  by_cases hye : y.effectiveDate ≤ e
  · -- dated ≤ e: untouched by the AFTER triggers, covered by phase 1
    have hz : sumIf f (fun r => r.key == y.key && decide (e < y.effectiveDate)) R' = 0 := by
      apply sumIf_false
      intro r _
      have : ¬ e < y.effectiveDate := by omega
      simp [this]
    rw [hz, hlow y hy hye]; omega
  · -- dated after e: an old move; it gains the deltas of the new moves of its account/asset
    have hyT : y ∈ table := by
      rw [ht1] at hy
      rcases List.mem_append.mp hy with h | h
      · exact h
      · exact absurd (hR'e y h) (by omega)
    rw [ht1, sumIf_append, hinv y hyT]
    have : sumIf f (fun r => r.key == y.key && decide (e < y.effectiveDate)) R' = sumIf f (MoveRow.countsFor y) R' := by
      apply sumIf_congr
      intro r hr
      have h1 := hR'e r hr
      have : e < y.effectiveDate := by omega
      simp [MoveRow.countsFor, MoveRow.notAfter, h1, this]
    rw [this]

/-- C04: inserting the moves of one transaction (any effective date: back-dated, tied with
    existing moves, or in the future) preserves `PCEV_Inv`. -/
theorem PCEV_Inv_insertMoves {e : Int} {table news : List MoveRow} (hinv : PCEV_Inv table)
    (hb : FreshBatch table news e) : PCEV_Inv (insertMoves table news) := by
  rw [PCEV_Inv_iff] at hinv ⊢
  exact ⟨InvF_insertMoves projIn hinv.1 hb, InvF_insertMoves projOut hinv.2 hb⟩


/-! ### every reachable `moves` table satisfies the invariant -/

theorem seq_insertMoves (table news : List MoveRow) :
    (insertMoves table news).map (·.seq) = table.map (·.seq) ++ news.map (·.seq) := by
  unfold insertMoves
  rw [insertPhase2_eq, insertPhase1_eq, List.map_map]
  have h1 : ((fun m : MoveRow => m.seq) ∘ bumpAll (insertedRows table news)) = (fun m : MoveRow => m.seq) := by
    funext m; exact (bumpAll_coords _ m).2.2.1
  rw [h1, List.map_append]
  congr 1
  clear h1
  induction news generalizing table with
  | nil => rfl
  | cons n ns ih => simp only [insertedRows, List.map_cons]; rw [ih]; rfl

theorem seq_toRows (s0 txId : Nat) (ins eff : Int) (ms : List Move) :
    (toRows s0 txId ins eff ms).map (·.seq) = List.range' s0 ms.length := by
  induction ms generalizing s0 with
  | nil => rfl
  | cons m ms ih => simp only [toRows, List.map_cons, List.length_cons, List.range'_succ, ih]

theorem eff_toRows (s0 txId : Nat) (ins eff : Int) (ms : List Move) :
    ∀ r ∈ toRows s0 txId ins eff ms, r.effectiveDate = eff := by
  induction ms generalizing s0 with
  | nil => intro r h; simp [toRows] at h
  | cons m ms ih =>
    intro r h
    simp only [toRows, List.mem_cons] at h
    rcases h with rfl | h
    · rfl
    · exact ih _ r h

/-- the moves part of the store invariant -/
structure MovesInv (st : Store) : Prop where
  pcev : PCEV_Inv st.moves
  seqs : ∀ m ∈ st.moves, m.seq < st.nextSeq

theorem freshBatch_toRows (st : Store) (hs : ∀ m ∈ st.moves, m.seq < st.nextSeq) (txId : Nat) (ins eff : Int)
    (ms : List Move) : FreshBatch st.moves (toRows st.nextSeq txId ins eff ms) eff := by
  have hmem : ∀ r ∈ toRows st.nextSeq txId ins eff ms, st.nextSeq ≤ r.seq := by
    intro r hr
    have : r.seq ∈ (toRows st.nextSeq txId ins eff ms).map (·.seq) := List.mem_map_of_mem hr
    rw [seq_toRows] at this
    exact (List.mem_range'_1.mp this).1
  refine ⟨eff_toRows _ _ _ _ _, ?_, ?_⟩
  · intro m hm r hr
    have := hs m hm
    have := hmem r hr
    omega
  · have : List.Pairwise (· < ·) ((toRows st.nextSeq txId ins eff ms).map (·.seq)) := by
      rw [seq_toRows]; exact List.pairwise_lt_range'
    exact (List.pairwise_map.mp this)

theorem MovesInv_applyTx {st st' : Store} (inv : MovesInv st) (t : TxIn) (h : applyTx st t = .ok st') :
    MovesInv st' := by
  unfold applyTx at h
  simp only [movesOf_returned] at h
  cases h
  constructor
  · exact PCEV_Inv_insertMoves inv.pcev (freshBatch_toRows st inv.seqs _ _ _ _)
  · intro m hm
    have : m.seq ∈ (insertMoves st.moves (toRows st.nextSeq st.nextTxId t.insertedAt t.timestamp
        (fwdMoves (preVolumes st.accountsVolumes (volumeUpdates t.postings)) t.postings))).map (·.seq) :=
      List.mem_map_of_mem hm
    rw [seq_insertMoves, seq_toRows, List.mem_append] at this
    rcases this with h1 | h1
    · obtain ⟨m0, hm0, e0⟩ := List.mem_map.mp h1
      have := inv.seqs m0 hm0
      show m.seq < st.nextSeq + _
      omega
    · have := (List.mem_range'_1.mp h1).2
      exact this

theorem MovesInv_applyOp {st st' : Store} (inv : MovesInv st) (o : StoreOp) (h : applyOp st o = .ok st') :
    MovesInv st' := by
  cases o with
  | commit t => exact MovesInv_applyTx inv t h
  | lock keys => simp only [applyOp] at h; cases h; exact ⟨inv.pcev, inv.seqs⟩
  | markReverted id a => simp only [applyOp] at h; cases h; exact ⟨inv.pcev, inv.seqs⟩
  | saveAccountMeta a at_ md => simp only [applyOp] at h; cases h; exact ⟨inv.pcev, inv.seqs⟩

theorem MovesInv_runOpsFrom (ops : List StoreOp) {st st' : Store} (inv : MovesInv st)
    (h : runOpsFrom st ops = .ok st') : MovesInv st' := by
  induction ops generalizing st with
  | nil => simp only [runOpsFrom] at h; cases h; exact inv
  | cons o os ih =>
    simp only [runOpsFrom] at h
    cases h1 : applyOp st o with
    | error e => rw [h1] at h; simp at h
    | ok s1 => rw [h1] at h; exact ih (MovesInv_applyOp inv o h1) h

/-- Two rows of one statement with different effective dates (never produced by the ledger). -/
def mixedBatch : List MoveRow :=
  [{ seq := 1, txId := 1, account := "a", asset := "USD", amount := 3, isSource := false, insertionDate := 0, effectiveDate := 1, pcv := ⟨3, 0⟩, pcev := Volumes.zero },
   { seq := 2, txId := 1, account := "a", asset := "USD", amount := 4, isSource := false, insertionDate := 0, effectiveDate := 2, pcv := ⟨7, 0⟩, pcev := Volumes.zero }]

theorem pcevInvCheck_iff (t : List MoveRow) : pcevInvCheck t = true ↔ PCEV_Inv t := by
  unfold pcevInvCheck PCEV_Inv
  rw [List.all_eq_true]
  constructor
  · intro h m hm; exact beq_iff_eq.mp (h m hm)
  · intro h m hm; exact beq_iff_eq.mpr (h m hm)

theorem MovesInv_empty : MovesInv {} :=
  ⟨fun m hm => by simp at hm, fun m hm => by simp at hm⟩

end Ledger.Spec
