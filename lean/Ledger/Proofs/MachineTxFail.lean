import Ledger.Proofs.MachineTxEnv

/-! C25: when the generated statements fail. -/
namespace Ledger.Machine

variable {cfg : Cfg}

theorem finishSend_single_ok {env : Env} {e : Expr} {d a asset : String} {amt : Int}
    (hd : evalExpr env e = .ok (.account d)) (hamt : 0 ≤ amt) (st : State) :
    ∃ st', finishSend env (.account e) ⟨asset, [⟨a, amt⟩]⟩ st = .ok st' := by
  obtain ⟨rem, hev, _⟩ := evalDest_account_single (asset := asset) (a := a) hd hamt st
  refine ⟨{ sendTo asset d [⟨a, amt⟩] st with bal := repay (sendTo asset d [⟨a, amt⟩] st).bal asset rem }, ?_⟩
  simp only [finishSend, hev]

/-- A bounded generated statement fails with insufficient funds exactly when the amount
    is positive and exceeds the tracked balance of its source; otherwise it succeeds. -/
theorem txStmt_bounded_result {env : Env} {monE srcE dstE : Expr} {p : TxPosting}
    (hb : TxBinding env monE srcE dstE p) (hw : srcE.isWorld = false) (st : State) (bal : Int)
    (hbal : st.bal.get p.source p.asset = some bal) (hnn : 0 ≤ p.amount) :
    (0 < p.amount ∧ bal < p.amount →
      evalStmt cfg env (.send monE (.src (.account srcE .none)) (.account dstE)) st =
        .error (.run "exec" "insufficient")) ∧
    (¬ (0 < p.amount ∧ bal < p.amount) →
      ∃ st', evalStmt cfg env (.send monE (.src (.account srcE .none)) (.account dstE)) st = .ok st') := by
  -- what OP_TAKE_ALL yields
  have hwa : ∃ x b1, withdrawAll st.bal p.source p.asset (some 0) = .ok (⟨p.source, x⟩, b1) ∧
      x = (if 0 < bal then bal else 0) := by
    unfold withdrawAll
    simp only [hbal, nilAsZero, Int.add_zero]
    split
    · exact ⟨bal, _, rfl, rfl⟩
    · exact ⟨0, _, rfl, rfl⟩
  obtain ⟨x, b1, hwa, hx⟩ := hwa
  have hstep : evalStmt cfg env (.send monE (.src (.account srcE .none)) (.account dstE)) st =
      match take [⟨p.source, x⟩] p.amount with
      | none => .error (.run "exec" "insufficient")
      | some (res, rem) => finishSend env (.account dstE) ⟨p.asset, res⟩
          { st with bal := repay b1 p.asset rem } := by
    simp only [evalStmt, leftmostAsset, hb.monAtom, hb.mon, evalSource, evalAccount, hb.src, hw,
      Bool.false_eq_true, if_false, hwa, evalMonetary, Source.fallback, takeFromSource,
      ne_eq, not_true_eq_false, needAmt]
    cases take [⟨p.source, x⟩] p.amount with
    | none => rfl
    | some rr => obtain ⟨res, rem⟩ := rr; rfl
  rw [hstep]
  constructor
  · rintro ⟨hpos, hlt⟩
    rw [take_single_pos _ _ _ hpos]
    have h1 : ¬ p.amount < x := by rw [hx]; split <;> omega
    have h2 : ¬ p.amount = x := by rw [hx]; split <;> omega
    simp [h1, h2]
  · intro hno
    by_cases h0 : p.amount = 0
    · rw [h0, take_single_zero]
      exact finishSend_single_ok hb.dst (by omega) _
    · have hpos : 0 < p.amount := by omega
      have hle : p.amount ≤ bal := by
        by_contra hc; exact hno ⟨hpos, by omega⟩
      have hxb : x = bal := by rw [hx]; split <;> omega
      rw [take_single_pos _ _ _ hpos]
      by_cases h1 : p.amount < x
      · simp only [h1, if_true]
        exact finishSend_single_ok hb.dst (by omega) _
      · have h2 : p.amount = x := by omega
        rw [if_neg h1, if_pos h2]
        exact finishSend_single_ok hb.dst (by omega) _

/-- An unbounded generated statement (`@world`, or `allowing unbounded overdraft`)
    always succeeds. -/
theorem txStmt_unbounded_result {env : Env} {monE srcE dstE : Expr} {p : TxPosting} {od : Overdraft}
    (hb : TxBinding env monE srcE dstE p)
    (hod : od = .unbounded ∨ (od = .none ∧ srcE.isWorld = true)) (st : State) (hnn : 0 ≤ p.amount) :
    ∃ st', evalStmt cfg env (.send monE (.src (.account srcE od)) (.account dstE)) st = .ok st' := by
  have hfb : (Source.account srcE od).fallback = some srcE := by
    rcases hod with rfl | ⟨rfl, hw⟩
    · rfl
    · simp [Source.fallback, hw]
  have hsrc : evalSource cfg env p.asset (.account srcE od) st.bal =
      .ok (⟨p.asset, [(withdrawAlways st.bal p.source p.asset 0).1]⟩,
        (withdrawAlways st.bal p.source p.asset 0).2) := by
    rcases hod with rfl | ⟨rfl, hw⟩
    · simp [evalSource, evalAccount, hb.src]
    · simp [evalSource, evalAccount, hb.src, hw]
  have hw1 := (withdrawAlways_spec st.bal p.source p.asset 0).1
  have hneg : ¬ p.amount < 0 := by omega
  have hacc : evalAccount env srcE = .ok p.source := by simp [evalAccount, hb.src]
  have key : concatParts (takeMax [⟨p.source, 0⟩] p.amount).1
      [(withdrawAlways (repay (withdrawAlways st.bal p.source p.asset 0).2 p.asset
          (takeMax [⟨p.source, 0⟩] p.amount).2) p.source p.asset
          (if total [⟨p.source, (0 : Int)⟩] < p.amount then p.amount - total [⟨p.source, (0 : Int)⟩] else 0)).1] =
      [⟨p.source, p.amount⟩] := by
    rw [(withdrawAlways_spec _ p.source p.asset _).1]
    simp only [total, Int.add_zero, takeMax, takeLoop]
    by_cases hz : p.amount = 0
    · simp [hz, concatParts]
    · have hpos : 0 < p.amount := by omega
      simp [hpos, hneg, concatParts, takeLoop]
  simp only [evalStmt, leftmostAsset, hb.monAtom, hb.mon, hsrc, evalMonetary, hfb,
    takeFromSource, takeMaxStep, needAmt, hw1, hneg, if_false, ne_eq, not_true_eq_false, hacc, key]
  exact finishSend_single_ok hb.dst hnn _

end Ledger.Machine

namespace Ledger.Machine

variable {cfg : Cfg}

def txSrcE (accs : List String) (p : TxPosting) : Expr :=
  if p.source = "world" then .acct "world" else .var (accVar (indexOfStr accs p.source))

def txDstE (accs : List String) (p : TxPosting) : Expr :=
  if p.destination = "world" then .acct "world" else .var (accVar (indexOfStr accs p.destination))

def txOd (force : Bool) (p : TxPosting) : Overdraft :=
  if p.source = "world" then .none else if force then .unbounded else .none

theorem txStmt_eq (accs : List String) (mons : List (String × Int)) (force : Bool) (p : TxPosting) :
    txStmt accs mons force p =
      .send (.var (monVar (indexOfMon mons p.asset p.amount)))
        (.src (.account (txSrcE accs p) (txOd force p))) (.account (txDstE accs p)) := by
  unfold txStmt txSrcE txDstE txOd
  by_cases h1 : p.source = "world" <;> by_cases h2 : p.destination = "world" <;> simp [h1, h2]

/-- The decidable `txEnvOK` gives the bindings of one statement. -/
theorem txBinding_of_envOK {env : Env} {accs : List String} {mons : List (String × Int)} {p : TxPosting}
    (hb : txEnvOK env accs mons [p] = true) :
    TxBinding env (.var (monVar (indexOfMon mons p.asset p.amount))) (txSrcE accs p) (txDstE accs p) p := by
  simp only [txEnvOK, Bool.and_true, Bool.and_eq_true, Bool.or_eq_true, decide_eq_true_eq] at hb
  obtain ⟨⟨hm, hs⟩, hd⟩ := hb
  refine ⟨?_, rfl, ?_, ?_⟩
  · split at hm
    · rename_i a v heq
      simp only [Bool.and_eq_true, decide_eq_true_eq] at hm
      rw [heq, hm.1, hm.2]
    · cases hm
  · unfold txSrcE
    by_cases hw : p.source = "world"
    · simp [hw, evalExpr]
    · simp only [hw, if_false]
      rcases hs with hs | hs
      · exact absurd hs hw
      · split at hs
        · rename_i a heq
          simp only [decide_eq_true_eq] at hs
          rw [heq, hs]
        · cases hs
  · unfold txDstE
    by_cases hw : p.destination = "world"
    · simp [hw, evalExpr]
    · simp only [hw, if_false]
      rcases hd with hd | hd
      · exact absurd hd hw
      · split at hd
        · rename_i a heq
          simp only [decide_eq_true_eq] at hd
          rw [heq, hd]
        · cases hd

theorem txEnvOK_cons {env : Env} {accs : List String} {mons : List (String × Int)} {p : TxPosting}
    {ps : List TxPosting} (h : txEnvOK env accs mons (p :: ps) = true) :
    txEnvOK env accs mons [p] = true ∧ txEnvOK env accs mons ps = true := by
  simp only [txEnvOK, Bool.and_eq_true] at h ⊢
  exact ⟨⟨h.1, trivial⟩, h.2⟩

/-- One generated statement posts exactly its posting (any variant, any state). -/
theorem txStmt_posts {env : Env} {accs : List String} {mons : List (String × Int)} {force : Bool}
    {p : TxPosting} (hb : txEnvOK env accs mons [p] = true) (st st' : State)
    (h : evalStmt cfg env (txStmt accs mons force p) st = .ok st') :
    st'.postings = st.postings ++ [p] := by
  have bind := txBinding_of_envOK hb
  rw [txStmt_eq] at h
  unfold txOd at h
  by_cases hw : p.source = "world"
  · simp only [hw, if_true] at h
    exact txStmt_unbounded bind (Or.inr ⟨rfl, by simp [txSrcE, hw, Expr.isWorld]⟩) st st' (by simpa [hw] using h)
  · simp only [hw, if_false] at h
    cases force with
    | true => exact txStmt_unbounded bind (Or.inl rfl) st st' h
    | false => exact txStmt_bounded bind (by simp [txSrcE, hw, Expr.isWorld]) st st' h

/-- One step of the specification on a tracked pair equals the machine's accounting. -/
theorem applyStep_eq (b : String → String → Int) (p : TxPosting) (a c : String) :
    b a c + flowIn a c [p] - flowOut a c [p] =
      (if a = p.destination ∧ c = p.asset then
        (if a = p.source ∧ c = p.asset then b a c - p.amount else b a c) + p.amount
       else (if a = p.source ∧ c = p.asset then b a c - p.amount else b a c)) := by
  simp only [flowIn, flowOut, Int.add_zero]
  have e1 : (p.destination = a ∧ p.asset = c) = (a = p.destination ∧ c = p.asset) :=
    propext ⟨fun h => ⟨h.1.symm, h.2.symm⟩, fun h => ⟨h.1.symm, h.2.symm⟩⟩
  have e2 : (p.source = a ∧ p.asset = c) = (a = p.source ∧ c = p.asset) :=
    propext ⟨fun h => ⟨h.1.symm, h.2.symm⟩, fun h => ⟨h.1.symm, h.2.symm⟩⟩
  simp only [e1, e2]
  by_cases hd : (a = p.destination ∧ c = p.asset) <;> by_cases hs : (a = p.source ∧ c = p.asset)
  · rw [if_pos hd, if_pos hs, if_pos hd, if_pos hs]; omega
  · rw [if_pos hd, if_neg hs, if_pos hd, if_neg hs]; omega
  · rw [if_neg hd, if_pos hs, if_neg hd, if_pos hs]; omega
  · rw [if_neg hd, if_neg hs, if_neg hd, if_neg hs]; omega

/-- Invariant between the machine's tracked balances and the specification's running
    balances on the pairs `T`. -/
def TxInv (T : String → String → Prop) (st : State) (b : String → String → Int) : Prop :=
  st.bal.WF ∧ ∀ a c, T a c → a ≠ "world" ∧ st.bal.get a c = some (b a c)

theorem txInv_step {T : String → String → Prop} {env : Env} {accs : List String}
    {mons : List (String × Int)} {force : Bool} {p : TxPosting}
    (hb : txEnvOK env accs mons [p] = true) {st st' : State} {b : String → String → Int}
    (hinv : TxInv T st b) (h : evalStmt cfg env (txStmt accs mons force p) st = .ok st') :
    TxInv T st' (fun a c =>
      if a = p.destination ∧ c = p.asset then
        (if a = p.source ∧ c = p.asset then b a c - p.amount else b a c) + p.amount
      else (if a = p.source ∧ c = p.asset then b a c - p.amount else b a c)) := by
  obtain ⟨new, ok⟩ := evalStmt_ok h
  have hpost := txStmt_posts hb st st' h
  have hnew : new = [p] := by
    have := ok.postings
    rw [hpost] at this
    exact (List.append_cancel_left this).symm
  have hsend : (txStmt accs mons force p).isSend = true := by rw [txStmt_eq]; rfl
  have hsaved := ok.savedSend hsend
  refine ⟨ok.wf hinv.1, ?_⟩
  intro a c hT
  obtain ⟨ha, hg⟩ := hinv.2 a c hT
  refine ⟨ha, ?_⟩
  obtain ⟨v', g', e'⟩ := ok.track a c _ ha hinv.1 hg
  rw [hsaved, hnew] at e'
  rw [g']
  have e2 := applyStep_eq b p a c
  show some v' = some (if a = p.destination ∧ c = p.asset then
        (if a = p.source ∧ c = p.asset then b a c - p.amount else b a c) + p.amount
      else (if a = p.source ∧ c = p.asset then b a c - p.amount else b a c))
  rw [← e2]
  congr 1; omega

/-- Without force: the run fails with insufficient funds iff the specification does. -/
theorem txRun_noforce (env : Env) (accs : List String) (mons : List (String × Int))
    (T : String → String → Prop) :
    (ps : List TxPosting) → txEnvOK env accs mons ps = true → (∀ p ∈ ps, 0 ≤ p.amount) →
    (∀ p ∈ ps, p.source ≠ "world" → T p.source p.asset) →
    (st : State) → (b : String → String → Int) → TxInv T st b →
    (applyPostings b ps = none →
      runStmts cfg env (ps.map (txStmt accs mons false)) st = .error (.run "exec" "insufficient")) ∧
    ((applyPostings b ps).isSome → ∃ st', runStmts cfg env (ps.map (txStmt accs mons false)) st = .ok st')
  | [], _, _, _, st, b, _ => by
    simp [applyPostings, runStmts]
  | p :: ps, hb, hnn, hT, st, b, hinv => by
    obtain ⟨hb1, hb2⟩ := txEnvOK_cons hb
    have bind := txBinding_of_envOK hb1
    have hamt := hnn p (by simp)
    simp only [List.map_cons, runStmts, applyPostings]
    -- does this statement succeed?
    have hres : (p.source ≠ "world" ∧ 0 < p.amount ∧ b p.source p.asset < p.amount →
          evalStmt cfg env (txStmt accs mons false p) st = .error (.run "exec" "insufficient")) ∧
        (¬ (p.source ≠ "world" ∧ 0 < p.amount ∧ b p.source p.asset < p.amount) →
          ∃ st1, evalStmt cfg env (txStmt accs mons false p) st = .ok st1) := by
      rw [txStmt_eq]
      unfold txOd
      by_cases hw : p.source = "world"
      · simp only [hw, if_true, ne_eq, not_true_eq_false, false_and, false_implies, not_false_eq_true,
          true_implies, true_and]
        have := txStmt_unbounded_result (cfg := cfg) bind
          (Or.inr ⟨rfl, by simp [txSrcE, hw, Expr.isWorld]⟩) st hamt
        simpa [hw] using this
      · simp only [hw, if_false, Bool.false_eq_true, ne_eq, not_false_eq_true, true_and]
        obtain ⟨_, hg⟩ := hinv.2 _ _ (hT p (by simp) hw)
        exact txStmt_bounded_result (cfg := cfg) bind (by simp [txSrcE, hw, Expr.isWorld]) st _ hg hamt
    by_cases hfail : p.source ≠ "world" ∧ 0 < p.amount ∧ b p.source p.asset < p.amount
    · rw [if_pos hfail, hres.1 hfail]
      simp
    · rw [if_neg hfail]
      obtain ⟨st1, h1⟩ := hres.2 hfail
      rw [h1]
      simp only
      exact txRun_noforce env accs mons T ps hb2 (fun q hq => hnn q (by simp [hq]))
        (fun q hq => hT q (by simp [hq])) st1 _ (txInv_step hb1 hinv h1)

/-- With force every generated statement succeeds. -/
theorem txRun_force (env : Env) (accs : List String) (mons : List (String × Int)) :
    (ps : List TxPosting) → txEnvOK env accs mons ps = true → (∀ p ∈ ps, 0 ≤ p.amount) →
    (st : State) → ∃ st', runStmts cfg env (ps.map (txStmt accs mons true)) st = .ok st'
  | [], _, _, st => ⟨st, by simp [runStmts]⟩
  | p :: ps, hb, hnn, st => by
    obtain ⟨hb1, hb2⟩ := txEnvOK_cons hb
    have bind := txBinding_of_envOK hb1
    have hamt := hnn p (by simp)
    have h1 : ∃ st1, evalStmt cfg env (txStmt accs mons true p) st = .ok st1 := by
      rw [txStmt_eq]
      unfold txOd
      by_cases hw : p.source = "world"
      · have := txStmt_unbounded_result (cfg := cfg) bind
          (Or.inr ⟨rfl, by simp [txSrcE, hw, Expr.isWorld]⟩) st hamt
        simpa [hw] using this
      · simp only [hw, if_false, if_true]
        exact txStmt_unbounded_result (cfg := cfg) bind (Or.inl rfl) st hamt
    obtain ⟨st1, h1⟩ := h1
    obtain ⟨st', h2⟩ := txRun_force env accs mons ps hb2 (fun q hq => hnn q (by simp [hq])) st1
    exact ⟨st', by simp only [List.map_cons, runStmts, h1, h2]⟩

end Ledger.Machine
