import Ledger.Proofs.SqlVolumesSpec
import Ledger.Proofs.SqlTxInsert
import Ledger.Proofs.SqlMovesSpec

/-!
# `CommitTransaction` as a sequence of statements: UpdateVolumes; InsertTransaction; InsertMoves
-/
open Ledger Ledger.Sql Ledger.Generated Ledger.Core Ledger.Base
namespace Ledger.Sql
open Ledger.Spec

/-- the statements of one Go store call, run one after the other as the session does: each as a new command of the transaction -/
def seqRun (fuel : Nat) (env : Env) (stmts : List Stmt) : M (List DmlResult) :=
  stmts.mapM (fun st => withNewCid (runStmt fuel env st))

theorem find_seqsSet_ne (full other : String) (v : Int) (h : other ≠ full) : ∀ (seqs : List Seq),
    (seqsSet full v seqs).find? (·.name == other) = seqs.find? (·.name == other) := by
  intro seqs
  induction seqs with
  | nil => rfl
  | cons x xs ih =>
    simp only [seqsSet, List.map_cons, List.find?_cons]
    by_cases hx : x.name = full
    · have h1 : (x.name == full) = true := by simpa using hx
      have h2 : (x.name == other) = false := by simpa [hx] using fun e => h e.symm
      simp only [h1, if_true, h2]
      exact ih
    · have h1 : (x.name == full) = false := by simpa using hx
      simp only [h1, Bool.false_eq_true, if_false]
      cases (x.name == other)
      · exact ih
      · rfl

theorem withTable_table?_ne (s : St) (t : Table) (name : String) (h : name ≠ t.name) :
    (s.withTable t).w.table? name = s.w.table? name := table?_setTable_ne s.w t name h

end Ledger.Sql

namespace Ledger.Sql
open Ledger.Spec

theorem exec_mapM_single_inv {α β : Type} (f : α → M β) (a : α) (s s' : St) (r : β)
    (h : ([a].mapM f).exec s = (.ok [r], s')) : (f a).exec s = (.ok r, s') := by
  rw [exec_mapM_cons] at h
  cases hf : (f a).exec s with
  | mk res s1 =>
    rw [hf] at h
    cases res with
    | error e => simp at h
    | ok v =>
      simp only [List.mapM_nil, exec_pure] at h
      simp only [Prod.mk.injEq, Except.ok.injEq, List.cons.injEq, and_true] at h
      rw [h.1, h.2]

theorem exec_seqRun_single (F : Nat) (env : Env) (stmts : List Stmt) (S : Stmt) (hS : stmts = [S]) (s s2 : St) (r : DmlResult)
    (hrun : (stmts.mapM (runStmt F env)).exec s.enter = (.ok [r], s2)) :
    (seqRun F env stmts).exec s = (.ok [r], s2.withCid s.cid) := by
  subst hS
  have h1 := exec_mapM_single_inv _ _ _ _ _ hrun
  have h2 := exec_withNewCid _ s _ _ h1
  simp only [seqRun, exec_mapM_cons, h2, List.mapM_nil, exec_pure]

theorem exec_seqRun_single' (F : Nat) (env : Env) (S : Stmt) (s s2 : St) (r : DmlResult)
    (hrun : (runStmt F env S).exec s.enter = (.ok r, s2)) :
    (seqRun F env [S]).exec s = (.ok [r], s2.withCid s.cid) := by
  have h2 := exec_withNewCid _ s _ _ hrun
  simp only [seqRun, exec_mapM_cons, h2, List.mapM_nil, exec_pure]

theorem exec_seqRun_append (F : Nat) (env : Env) (A B : List Stmt) (s s1 s2 : St) (ra rb : List DmlResult)
    (hA : (seqRun F env A).exec s = (.ok ra, s1)) (hB : (seqRun F env B).exec s1 = (.ok rb, s2)) :
    (seqRun F env (A ++ B)).exec s = (.ok (ra ++ rb), s2) := by
  unfold seqRun at *
  rw [List.mapM_append]
  simp only [exec_bind, hA, hB, exec_pure]

end Ledger.Sql

namespace Ledger.Sql
open Ledger.Spec

theorem mvFull_ne_avFull (b : String) : mvFull b ≠ avFull b := by
  intro h
  have := congrArg String.length h
  simp [mvFull, avFull, String.length_append] at this
  exact absurd this (by decide)

theorem mvFull_ne_txFull (b : String) : mvFull b ≠ txFull b := by
  intro h
  have := congrArg String.length h
  simp [mvFull, txFull, String.length_append] at this
  exact absurd this (by decide)

theorem txFull_ne_avFull (b : String) : txFull b ≠ avFull b := by
  intro h
  have := congrArg String.length h
  simp [txFull, avFull, String.length_append] at this
  exact absurd this (by decide)

end Ledger.Sql

namespace Ledger.Sql
open Ledger.Spec

/-- The state in which the statements of `CommitTransaction` run: inside a transaction, alone, with the three tables of the bucket in
    their storage invariants (`AvInv`, `TxInv`, `MvInv`), the triggers and functions of the ledger as generated. -/
structure CommitState (s : St) (b l : String)
    (rsA : List Ver) (nrA : Nat)
    (trigsT : List TriggerDef) (nrT : Nat) (rowsT : List Ver) (fullT : String) (sqT : Seq)
    (trigsM : List TriggerDef) (B1 B2 : List TriggerDef) (trB : TriggerDef) (A1 A2 : List TriggerDef) (trA : TriggerDef)
    (item wher dflt_ : Expr) (fB : PlFunc) (setE whereU : Expr) (fA : PlFunc) (nrM : Nat) (rowsM : List Ver) (sqM : Seq) : Prop where
  tx : TxState s
  q0 : s.afterQ = []
  bne : b.isEmpty = false
  cidLt : s.cid < s.nextCid
  -- accounts_volumes
  avTable : s.w.table? (avFull b) = some (avT b rsA nrA)
  avInv : AvInv (latestView s.w s.xid) rsA nrA
  avFresh : ∀ r ∈ rsA, r.xmin = s.xid → r.cmin < s.nextCid
  -- transactions
  txTable : s.w.table? (txFull b) = some ((txT b trigsT nrT).withRows rowsT)
  txInv : TxInv (latestView s.w s.xid) rowsT
  txBefore : ∀ tr ∈ trigsT, tr.timing = .before → tr.event = .insert → tr.when_ = some updatedAtIsNull
  txNoAfter : trigsT.filter (fun tr => tr.timing == .after && tr.event == .insert) = []
  txSeq : s.w.seqs.find? (·.name == fullT) = some sqT
  txIdBound : ∀ r ∈ rowsT, r.visible (latestView s.w s.xid) = true → ∀ x', r.vals = txVals x' → x'.ledger = l → x'.id < sqT.next
  seqNe : fullT ≠ mvSeqFull b
  -- moves
  mvStatic : MvStatic s.w.funcs s.w.types b l trigsM B1 B2 trB A1 A2 trA item wher dflt_ fB
  schA : schemaOf trA.fname = b
  funA : s.w.funcs.lookup trA.fname = some fA
  declsA : fA.decls = []
  bodyA : fA.body = updEffBody setE whereU
  semA : UpdEffSem setE whereU
  noUpdB : trigsM.filter (fun tr => tr.timing == .before && tr.event == .update) = []
  noUpdA : trigsM.filter (fun tr => tr.timing == .after && tr.event == .update) = []
  mvTable : s.w.table? (mvFull b) = some ((mvT b trigsM nrM).withRows rowsM)
  mvSeq : s.w.seqs.find? (·.name == mvSeqFull b) = some sqM
  mvInv : MvInv (latestView s.w s.xid) sqM.next rowsM
  mvFresh : Fresh s.xid s.nextCid rowsM
  mvRidLt : ∀ r ∈ rowsM, r.rid < nrM

end Ledger.Sql

namespace Ledger.Sql
open Ledger.Spec
open Ledger.Generated.WriteSql

theorem enter_withTable_withCid (s : St) (t : Table) : (s.enter.withTable t).withCid s.cid = (s.bump 1).withTable t := rfl
theorem enter_withSeqs_withTable_withCid (s : St) (q : List Seq) (t : Table) :
    ((s.enter.withSeqs q).withTable t).withCid s.cid = ((s.bump 1).withSeqs q).withTable t := rfl
theorem enter_full_withCid (s : St) (q : List Seq) (k : Nat) (t : Table) :
    (((s.enter.withSeqs q).bump k).withTable t).withCid s.cid = ((s.bump (1 + k)).withSeqs q).withTable t := by
  simp only [St.enter, St.withSeqs, St.bump, St.withTable, St.withCid, Nat.add_assoc]

/-- **CommitTransaction (UpdateVolumes; InsertTransaction; InsertMoves)**: the three generated statements run one after the other
    as commands of one transaction. -/
theorem exec_commit3 (p : Nat) (env : Env) (b l : String) (id : Nat)
    (rsA : List Ver) (nrA : Nat) (trigsT : List TriggerDef) (nrT : Nat) (rowsT : List Ver) (fullT : String) (sqT : Seq)
    (trigsM : List TriggerDef) (B1 B2 : List TriggerDef) (trB : TriggerDef) (A1 A2 : List TriggerDef) (trA : TriggerDef)
    (item wher dflt_ : Expr) (fB : PlFunc) (setE whereU : Expr) (fA : PlFunc) (nrM : Nat) (rowsM : List Ver) (sqM : Seq) (s : St)
    (hst : CommitState s b l rsA nrA trigsT nrT rowsT fullT sqT trigsM B1 B2 trB A1 A2 trA item wher dflt_ fB setE whereU fA nrM rowsM sqM)
    -- UpdateVolumes
    (vrows : List P.VolumeRow) (hvne : vrows ≠ []) (hvnd : (vrows.map avKeyOf).Nodup)
    (av : PCV) (hwf : Map.WF av) (habs : ∀ k, avAbs s b l k = av.get? k)
    -- InsertTransaction
    (L : TxLits) (hl : SeqLit (txSeqLit b id) fullT) (x : TxR) (hlit : TxLit s.w.types l L x) (hid : x.id = sqT.next)
    (href : ∀ r ∈ rowsT, r.visible (latestView s.w s.xid) = true → ∀ x', r.vals = txVals x' → txConf2 x x' = false)
    -- InsertMoves
    (pm : List (P.MoveRow × Spec.MoveRow)) (hne : pm ≠ []) (hlits : ∀ y ∈ pm, MvLit s.w.types y.1 y.2)
    (hsf : SeqFrom sqM.next (pm.map (·.2))) (hrange : sqM.next + pm.length ≤ 9223372036854775808)
    (hnc : s.nextCid + 3 + 4 * pm.length ≤ 1000000000)
    (T : List Spec.MoveRow) (hT : T.Perm (ledgerMoves l (mvAbs (latestView s.w s.xid) rowsM))) :
    ∃ (rsA' : List Ver) (nrA' : Nat) (rowsM' : List Ver) (seqs' : List Seq) (s' : St),
      (seqRun (p + 15) env (P.updateVolumes b l id vrows ++
          P.insertTransaction b l id L.postings L.metadata L.timestamp L.reference L.inserted_at L.updated_at L.post_commit_volumes
            L.template L.sources L.destinations L.sources_arrays L.destinations_arrays ++
          P.insertMoves b l id (pm.map (·.1)))).exec s =
        (.ok [{ rel := { cols := ["input", "output"],
                         rows := (Spec.upsertVolumes av (vuOf vrows)).2.map (fun e => [.int e.2.input, .int e.2.output]) },
                affected := vrows.length },
              { rel := { cols := ["id", "timestamp", "inserted_at", "updated_at"],
                         rows := [[.int x.id, .ts x.timestamp, optTs x.insertedAt, .ts x.updatedAt]] }, affected := 1 },
              { rel := { cols := ["post_commit_volumes", "post_commit_effective_volumes"],
                         rows := (Spec.insertedRows T (pm.map (·.2))).map retOf }, affected := pm.length }], s') ∧
      s' = ((((s.bump (3 + 4 * pm.length)).withSeqs seqs').withTable (avT b rsA' nrA')).withTable
              ((txT b trigsT (nrT + 1)).withRows (newVer s.xid (s.nextCid + 1) nrT (txVals x) :: rowsT))).withTable
              ((mvT b trigsM (nrM + pm.length)).withRows rowsM') ∧
      -- accounts_volumes
      AvInv (latestView s.w s.xid) rsA' nrA' ∧
      (∀ k, avView (latestView s.w s.xid) rsA' l k = (Spec.upsertVolumes av (vuOf vrows)).1.get? k) ∧
      (∀ l', l' ≠ l → ∀ k, avView (latestView s.w s.xid) rsA' l' k = avView (latestView s.w s.xid) rsA l' k) ∧
      -- moves
      (ledgerMoves l (mvAbs (latestView s.w s.xid) rowsM')).Perm (Spec.insertMoves T (pm.map (·.2))) ∧
      (∀ l', l' ≠ l → (ledgerMoves l' (mvAbs (latestView s.w s.xid) rowsM')).Perm (ledgerMoves l' (mvAbs (latestView s.w s.xid) rowsM))) ∧
      MvInv (latestView s.w s.xid) (sqM.next + pm.length) rowsM' ∧
      -- sequences
      seqs'.find? (·.name == mvSeqFull b) = some { sqM with last := sqM.next + pm.length - 1, called := true } ∧
      seqs'.find? (·.name == fullT) = some { sqT with last := sqT.next, called := true } := by
  have hxid := hst.tx.xid
  -- 1. UpdateVolumes
  have hAv : AvState s.enter b l rsA nrA :=
    ⟨hst.avTable, hst.tx.solo, hxid, (by simp only [enter_cid]; omega), hst.avInv, (by
      intro r hr h1 h2
      have := hst.avFresh r hr h1
      simp only [enter_cid] at h2
      omega)⟩
  obtain ⟨s1', hrun1, hav1, hav3, rsA', nrA', hs1', hinvA'⟩ :=
    updateVolumes_bridge (p + 8) env b l id hst.bne s.enter rsA nrA hAv vrows hvne hvnd av hwf habs
  obtain ⟨_, _, _, _, _, hshape1, _, _, _⟩ := updateVolumes_shape env b l id
  have hseq1 := exec_seqRun_single (p + 15) env _ _ (hshape1 vrows) s s1' _ hrun1
  rw [hs1', enter_withTable_withCid] at hseq1
  have hT1av : (s.enter.withTable (avT b rsA' nrA')).w.table? (avFull b) = some (avT b rsA' nrA') :=
    withTable_table? s.enter (avT b rsA nrA) (avT b rsA' nrA') hst.avTable
  -- 2. InsertTransaction
  have hTx : TxInsState ((s.bump 1).withTable (avT b rsA' nrA')).enter b l trigsT nrT rowsT fullT sqT :=
    { tx := ((hst.tx.bump 1).withTable _).enter (by simp; omega)
      q0 := hst.q0
      bne := hst.bne
      table := by
        have := withTable_table?_ne (s.bump 1) (avT b rsA' nrA') (txFull b) (txFull_ne_avFull b)
        exact this.trans hst.txTable
      inv := hst.txInv
      beforeTrigs := hst.txBefore
      noAfter := hst.txNoAfter
      seq := hst.txSeq
      idBound := hst.txIdBound }
  have hrun2 := exec_runStmt_insertTx (p + 9) env b l id L trigsT nrT rowsT fullT sqT _ hTx hl x hlit hid href
  have hseq2 := exec_seqRun_single' (p + 15) env _ _ _ _ hrun2
  rw [← insertTransaction_shape, enter_withSeqs_withTable_withCid] at hseq2
  simp only [enter_xid, enter_cid, withTable_xid, bump_xid, withTable_nextCid, bump_nextCid, enter_w, withTable_seqs, bump_w] at hseq2
  -- 3. InsertMoves
  have hMv : MvStmtState (((((s.bump 1).withTable (avT b rsA' nrA')).bump 1).withSeqs (seqsSet fullT sqT.next s.w.seqs)).withTable
        ((txT b trigsT (nrT + 1)).withRows (newVer s.xid (s.nextCid + 1) nrT (txVals x) :: rowsT))).enter
      b l trigsM B1 B2 trB A1 A2 trA item wher dflt_ fB setE whereU fA nrM rowsM sqM :=
    { tx := (((((hst.tx.bump 1).withTable _).bump 1).withSeqs _).withTable _).enter (by simp; omega)
      cidLt := by simp
      q0 := hst.q0
      bne := hst.bne
      static := hst.mvStatic
      schA := hst.schA
      funA := hst.funA
      declsA := hst.declsA
      bodyA := hst.bodyA
      semA := hst.semA
      noUpdB := hst.noUpdB
      noUpdA := hst.noUpdA
      table := by
        have e1 := withTable_table?_ne ((((s.bump 1).withTable (avT b rsA' nrA')).bump 1).withSeqs (seqsSet fullT sqT.next s.w.seqs))
          ((txT b trigsT (nrT + 1)).withRows (newVer s.xid (s.nextCid + 1) nrT (txVals x) :: rowsT)) (mvFull b) (mvFull_ne_txFull b)
        have e2 := withTable_table?_ne (s.bump 1) (avT b rsA' nrA') (mvFull b) (mvFull_ne_avFull b)
        exact e1.trans (e2.trans hst.mvTable)
      seq := by
        show (seqsSet fullT sqT.next s.w.seqs).find? (·.name == mvSeqFull b) = some sqM
        rw [find_seqsSet_ne fullT (mvSeqFull b) sqT.next (fun e => hst.seqNe e.symm)]
        exact hst.mvSeq
      inv := hst.mvInv
      fresh := hst.mvFresh.mono (by simp; omega)
      ridLt := hst.mvRidLt }
  obtain ⟨rowsM', seqs', hrun3, hmv1, hmv2, hmvInv, _, _, hseqM, hseqO⟩ := insertMoves_refines p env b l trigsM B1 B2 trB A1 A2 trA item wher dflt_ fB setE whereU fA
    nrM rowsM sqM _ hMv pm hne hlits hsf hrange (by simp; omega) T hT
  have hseq3 := exec_seqRun_single' (p + 15) env _ _ _ _ hrun3
  rw [← insertMoves_shape b l id, enter_full_withCid] at hseq3
  have h12 := exec_seqRun_append (p + 15) env _ _ _ _ _ _ _ hseq1 hseq2
  have h123 := exec_seqRun_append (p + 15) env _ _ _ _ _ _ _ h12 hseq3
  refine ⟨rsA', nrA', rowsM', seqs', ((((s.bump (3 + 4 * pm.length)).withSeqs seqs').withTable (avT b rsA' nrA')).withTable
      ((txT b trigsT (nrT + 1)).withRows (newVer s.xid (s.nextCid + 1) nrT (txVals x) :: rowsT))).withTable
      ((mvT b trigsM (nrM + pm.length)).withRows rowsM'), ?_, rfl, hinvA', ?_, ?_, hmv1, hmv2, hmvInv, hseqM, ?_⟩
  · have hstate : (((((((s.bump 1).withTable (avT b rsA' nrA')).bump 1).withSeqs (seqsSet fullT sqT.next s.w.seqs)).withTable
        ((txT b trigsT (nrT + 1)).withRows (newVer s.xid (s.nextCid + 1) nrT (txVals x) :: rowsT))).bump (1 + 4 * pm.length)).withSeqs seqs').withTable
        ((mvT b trigsM (nrM + pm.length)).withRows rowsM') =
        ((((s.bump (3 + 4 * pm.length)).withSeqs seqs').withTable (avT b rsA' nrA')).withTable
          ((txT b trigsT (nrT + 1)).withRows (newVer s.xid (s.nextCid + 1) nrT (txVals x) :: rowsT))).withTable
          ((mvT b trigsM (nrM + pm.length)).withRows rowsM') := by
      simp only [St.bump, St.withSeqs, St.withTable]
      congr 1
      omega
    rw [← hstate]
    simpa [List.append_assoc] using h123
  · intro k
    have := hav1 k
    rw [hs1', avAbs_of_table hT1av] at this
    exact this
  · intro l' hl' k
    have := hav3 l' hl' k
    rw [hs1', avAbs_of_table hT1av, avAbs_of_table (s := s.enter) hst.avTable] at this
    exact this
  · have := hseqO fullT hst.seqNe
    rw [this]
    exact find_seqsSet _ _ _ _ hst.txSeq

end Ledger.Sql

namespace Ledger.Sql
open Ledger.Spec
open Ledger.Generated.WriteSql

theorem seqFrom_toRows : ∀ (ms : List Move) (v : Int) (s0 txId : Nat) (ins eff : Int), (s0 : Int) = v →
    SeqFrom v (toRows s0 txId ins eff ms) := by
  intro ms
  induction ms with
  | nil => intro _ _ _ _ _ _; trivial
  | cons m ms ih =>
    intro v s0 txId ins eff h
    exact ⟨h, ih (v + 1) (s0 + 1) txId ins eff (by rw [← h]; push_cast; rfl)⟩

theorem Seq.next_set (sq : Seq) (v : Int) : ({ sq with last := v, called := true } : Seq).next = v + 1 := by
  simp [Seq.next]

theorem toRows_length : ∀ (ms : List Move) (s0 txId : Nat) (ins eff : Int), (toRows s0 txId ins eff ms).length = ms.length := by
  intro ms
  induction ms with
  | nil => intro _ _ _ _; rfl
  | cons m ms ih => intro s0 txId ins eff; simp [toRows, ih]

/-- **Refinement of `Spec.applyTx` (CommitTransaction without the account upsert).** If the SQL state abstracts to the Spec store `st`
    (volumes of the ledger, its moves up to order, the next transaction id and the next `moves` sequence number) and the parameters the
    Go layer passes denote what `Spec.applyTx` computes from them (volume updates of the postings; moves computed from the RETURNING
    rows of UpdateVolumes, numbered by `Spec.toRows`), then running the three generated statements yields a state abstracting to
    `applyTx st t`. -/
theorem commit_refines_applyTx (p : Nat) (env : Env) (b l : String) (id : Nat)
    (rsA : List Ver) (nrA : Nat) (trigsT : List TriggerDef) (nrT : Nat) (rowsT : List Ver) (fullT : String) (sqT : Seq)
    (trigsM : List TriggerDef) (B1 B2 : List TriggerDef) (trB : TriggerDef) (A1 A2 : List TriggerDef) (trA : TriggerDef)
    (item wher dflt_ : Expr) (fB : PlFunc) (setE whereU : Expr) (fA : PlFunc) (nrM : Nat) (rowsM : List Ver) (sqM : Seq) (s : St)
    (hst : CommitState s b l rsA nrA trigsT nrT rowsT fullT sqT trigsM B1 B2 trB A1 A2 trA item wher dflt_ fB setE whereU fA nrM rowsM sqM)
    -- the Spec store the state abstracts to
    (st st' : Spec.Store) (t : Spec.TxIn) (hup : t.upsertAccounts = false) (happly : Spec.applyTx st t = .ok st')
    (hwf : Map.WF st.accountsVolumes) (habsA : ∀ k, avAbs s b l k = st.accountsVolumes.get? k)
    (habsM : st.moves.Perm (ledgerMoves l (mvAbs (latestView s.w s.xid) rowsM)))
    (hidT : (st.nextTxId : Int) = sqT.next) (hidM : (st.nextSeq : Int) = sqM.next)
    -- what the Go layer passes
    (vrows : List P.VolumeRow) (hvu : vuOf vrows = volumeUpdates t.postings) (hvne : vrows ≠ []) (hvnd : (vrows.map avKeyOf).Nodup)
    (L : TxLits) (hl : SeqLit (txSeqLit b id) fullT) (x : TxR) (hlit : TxLit s.w.types l L x) (hid : x.id = st.nextTxId)
    (href : ∀ r ∈ rowsT, r.visible (latestView s.w s.xid) = true → ∀ x', r.vals = txVals x' → txConf2 x x' = false)
    (pm : List (P.MoveRow × Spec.MoveRow)) (hne : pm ≠ []) (hlits : ∀ y ∈ pm, MvLit s.w.types y.1 y.2)
    (hpm : ∀ ms, movesOf (Spec.upsertVolumes st.accountsVolumes (volumeUpdates t.postings)).2 t.postings = .ok ms →
      pm.map (·.2) = toRows st.nextSeq st.nextTxId t.insertedAt t.timestamp ms)
    (hrange : sqM.next + pm.length ≤ 9223372036854775808) (hnc : s.nextCid + 3 + 4 * pm.length ≤ 1000000000) :
    ∃ (rsA' : List Ver) (nrA' : Nat) (rowsM' : List Ver) (seqs' : List Seq) (res : List DmlResult),
      (seqRun (p + 15) env (P.updateVolumes b l id vrows ++
          P.insertTransaction b l id L.postings L.metadata L.timestamp L.reference L.inserted_at L.updated_at L.post_commit_volumes
            L.template L.sources L.destinations L.sources_arrays L.destinations_arrays ++
          P.insertMoves b l id (pm.map (·.1)))).exec s =
        (.ok res, ((((s.bump (3 + 4 * pm.length)).withSeqs seqs').withTable (avT b rsA' nrA')).withTable
              ((txT b trigsT (nrT + 1)).withRows (newVer s.xid (s.nextCid + 1) nrT (txVals x) :: rowsT))).withTable
              ((mvT b trigsM (nrM + pm.length)).withRows rowsM')) ∧
      (∀ k, avView (latestView s.w s.xid) rsA' l k = st'.accountsVolumes.get? k) ∧
      (∀ l', l' ≠ l → ∀ k, avView (latestView s.w s.xid) rsA' l' k = avView (latestView s.w s.xid) rsA l' k) ∧
      (ledgerMoves l (mvAbs (latestView s.w s.xid) rowsM')).Perm st'.moves ∧
      (∀ l', l' ≠ l → (ledgerMoves l' (mvAbs (latestView s.w s.xid) rowsM')).Perm (ledgerMoves l' (mvAbs (latestView s.w s.xid) rowsM))) ∧
      AvInv (latestView s.w s.xid) rsA' nrA' ∧ MvInv (latestView s.w s.xid) (st'.nextSeq : Int) rowsM' ∧
      (∃ sq', seqs'.find? (·.name == mvSeqFull b) = some sq' ∧ sq'.next = (st'.nextSeq : Int)) ∧
      (∃ sq', seqs'.find? (·.name == fullT) = some sq' ∧ sq'.next = (st'.nextTxId : Int)) := by
  -- unfold `applyTx`
  unfold Spec.applyTx at happly
  simp only at happly
  cases hm : movesOf (Spec.upsertVolumes st.accountsVolumes (volumeUpdates t.postings)).2 t.postings with
  | error e => rw [hm] at happly; cases happly
  | ok ms =>
    rw [hm] at happly
    simp only [hup, Bool.false_eq_true, if_false, Except.ok.injEq] at happly
    have hpm' := hpm ms hm
    have hlen : pm.length = ms.length := by
      have := congrArg List.length hpm'
      rw [List.length_map, toRows_length] at this
      exact this
    have hsf : SeqFrom sqM.next (pm.map (·.2)) := by
      rw [hpm']; exact seqFrom_toRows ms sqM.next _ _ _ _ hidM
    obtain ⟨rsA', nrA', rowsM', seqs', s', hrun, hs', hinvA, hav1, hav2, hmv1, hmv2, hmvInv, hsM, hsT⟩ :=
      exec_commit3 p env b l id rsA nrA trigsT nrT rowsT fullT sqT trigsM B1 B2 trB A1 A2 trA item wher dflt_ fB setE whereU fA nrM rowsM sqM s
        hst vrows hvne hvnd st.accountsVolumes hwf habsA L hl x hlit (by rw [hid]; exact hidT) href pm hne hlits hsf hrange hnc st.moves habsM
    subst hs'
    refine ⟨rsA', nrA', rowsM', seqs', _, hrun, ?_, hav2, ?_, hmv2, hinvA, ?_, ?_, ?_⟩
    · intro k
      rw [hav1 k, hvu, ← happly]
    · rw [← happly]
      simp only
      rw [← hpm']
      exact hmv1
    · rw [← happly]
      simp only
      have : ((st.nextSeq + ms.length : Nat) : Int) = sqM.next + pm.length := by rw [hlen]; push_cast; omega
      rw [this]; exact hmvInv
    · refine ⟨_, hsM, ?_⟩
      rw [← happly, Seq.next_set]
      simp only
      rw [hlen]; push_cast; omega
    · refine ⟨_, hsT, ?_⟩
      rw [← happly, Seq.next_set]
      simp only
      push_cast; omega

end Ledger.Sql
