import Ledger.Proofs.MachineBC2

/-! Stage (f), part 3: resource tables are always resolvable, variable declarations, and
    `exec (compile p) = sem p` for the covered programs. -/
namespace Ledger.Machine

/-! ### Resolvable resource tables -/

/-- Shape invariant of a resource table. -/
def ResCond (ds : Decls) (R : List Res) (i : Nat) : Res → Prop
  | .const _ => True
  | .var ty n => ds.lookup n = some ty
  | .varMeta ty n _ _ => ds.lookup n = some ty
  | .varBalance n _ _ => ds.lookup n = some .monetary
  | .mon a _ => a < i ∧ ∃ r', R[a]? = some r' ∧ resTy r' = .asset

def ResInv (ds : Decls) (R : List Res) : Prop := ∀ i r, R[i]? = some r → ResCond ds R i r

theorem ResCond.mono {ds : Decls} {R : List Res} {i : Nat} {r : Res} (more : List Res)
    (h : ResCond ds R i r) : ResCond ds (R ++ more) i r := by
  cases r with
  | mon a amt =>
    obtain ⟨h1, r', h2, h3⟩ := h
    refine ⟨h1, r', ?_, h3⟩
    rw [List.getElem?_append_left (List.getElem?_eq_some_iff.mp h2).1]; exact h2
  | _ => exact h

theorem ResInv.snoc {ds : Decls} {R : List Res} (h : ResInv ds R) {r : Res}
    (hr : ResCond ds R R.length r) : ResInv ds (R ++ [r]) := by
  intro i x hx
  by_cases hi : i < R.length
  · rw [List.getElem?_append_left hi] at hx
    exact (h i x hx).mono [r]
  · have hlen := (List.getElem?_eq_some_iff.mp hx).1
    simp only [List.length_append, List.length_cons, List.length_nil] at hlen
    have : i = R.length := by omega
    subst this
    simp at hx
    subst hx
    exact hr.mono [r]

theorem resVal_typed {ds : Decls} {env : Env} (henv : EnvTyped ds env) {R : List Res} {acc : List Value}
    (hacc : ∀ i r, i < acc.length → R[i]? = some r → ∃ v, acc[i]? = some v ∧ valueTy v = resTy r)
    {r : Res} (hc : ResCond ds R acc.length r) :
    ∃ x, resVal env acc r = .ok x ∧ valueTy x = resTy r := by
  cases r with
  | const c => cases c <;> exact ⟨_, rfl, rfl⟩
  | var ty n =>
    obtain ⟨v, hv, hty⟩ := henv n ty hc
    exact ⟨v, by simp [resVal, hv], hty⟩
  | varMeta ty n a k =>
    obtain ⟨v, hv, hty⟩ := henv n ty hc
    exact ⟨v, by simp [resVal, hv], hty⟩
  | varBalance n a c =>
    obtain ⟨v, hv, hty⟩ := henv n .monetary hc
    exact ⟨v, by simp [resVal, hv], hty⟩
  | mon a amt =>
    obtain ⟨h1, r', h2, h3⟩ := hc
    obtain ⟨v, hv, hty⟩ := hacc a r' h1 h2
    rw [h3] at hty
    obtain ⟨s, rfl⟩ := val_asset hty
    exact ⟨.monetary s (some amt), by simp [resVal, hv], rfl⟩

theorem resolveRes_exists {ds : Decls} {env : Env} (henv : EnvTyped ds env) {R : List Res} (hR : ResInv ds R) :
    (suf pre : List Res) → R = pre ++ suf → (acc : List Value) → acc.length = pre.length →
    (∀ i r, i < acc.length → R[i]? = some r → ∃ v, acc[i]? = some v ∧ valueTy v = resTy r) →
    ∃ out, resolveRes env suf acc = .ok out
  | [], _, _, acc, _, _ => ⟨acc, rfl⟩
  | r :: rest, pre, hsplit, acc, hlen, hacc => by
    have hri : R[pre.length]? = some r := by rw [hsplit]; simp
    have hc := hR _ r hri
    rw [← hlen] at hc
    obtain ⟨x, hx, hxt⟩ := resVal_typed henv hacc hc
    simp only [resolveRes, hx]
    apply resolveRes_exists henv hR rest (pre ++ [r]) (by rw [hsplit]; simp) (acc ++ [x]) (by simp [hlen])
    intro i r' hi hr'
    by_cases hlt : i < acc.length
    · obtain ⟨v, hv, hvt⟩ := hacc i r' hlt hr'
      exact ⟨v, by rw [List.getElem?_append_left hlt]; exact hv, hvt⟩
    · have : i = acc.length := by simp at hi; omega
      subst this
      rw [hlen, hri] at hr'
      cases hr'
      exact ⟨x, by simp, hxt⟩

/-! ### Resource invariant through the compiler -/

theorem allocRes_res {ds : Decls} {r : Res} {cs cs' : CS} {a : Nat} (h : allocRes r cs = .ok (a, cs'))
    (hi : ResInv ds cs.res) (hc : ResCond ds cs.res cs.res.length r) : ResInv ds cs'.res := by
  unfold allocRes at h
  split at h
  · cases h
  · cases h; exact hi.snoc hc

theorem allocConst_res {ds : Decls} {c : CValue} {cs cs' : CS} {a : Nat} (h : allocConst c cs = .ok (a, cs'))
    (hi : ResInv ds cs.res) : ResInv ds cs'.res := by
  unfold allocConst at h
  split at h
  · cases h; exact hi
  · exact allocRes_res h hi trivial

theorem pushIf_res (push : Bool) (a : Nat) (cs : CS) : (pushIf push a cs).res = cs.res := by
  unfold pushIf; split <;> rfl

theorem opIf_res (push : Bool) (c : Nat) (cs : CS) : (opIf push c cs).res = cs.res := by
  unfold opIf; split <;> rfl

theorem resTy_cvalue_account (s : String) : resTy (.const (.account s)) = .account := rfl

theorem pushIf_ext' (push : Bool) (a : Nat) (cs : CS) : ∃ seg, Ext cs (pushIf push a cs) seg :=
  ⟨_, (pushIf_ext push a cs).1⟩

theorem opIf_ext' (push : Bool) (c : Nat) (cs : CS) : ∃ seg, Ext cs (opIf push c cs) seg :=
  ⟨_, (opIf_ext push c cs).1⟩

theorem Ext.comp {a b c : CS} (h1 : ∃ s, Ext a b s) (h2 : ∃ s, Ext b c s) : ∃ s, Ext a c s := by
  obtain ⟨s1, e1⟩ := h1
  obtain ⟨s2, e2⟩ := h2
  exact ⟨_, e1.trans e2⟩

/-- Resource-table facts about the code of an expression (no environment needed). -/
structure ExprRes' (ds : Decls) (cs cs' : CS) (t ty : Ty) (oa : Option Nat) : Prop where
  inv : ResInv ds cs'.res
  ty_eq : t = ty
  ext : ∃ seg, Ext cs cs' seg
  addr : ∀ a, oa = some a → ∃ r, cs'.res[a]? = some r ∧ resTy r = ty

theorem constExpr_res {ds : Decls} {c : CValue} {push : Bool} {cs cs1 : CS} {a : Nat} {ty : Ty}
    (hty : resTy (.const c) = ty) (hal : allocConst c cs = .ok (a, cs1)) (hi : ResInv ds cs.res) :
    ExprRes' ds cs (pushIf push a cs1) ty ty (some a) := by
  obtain ⟨e1, hres, _⟩ := allocConst_ok hal
  refine ⟨by rw [pushIf_res]; exact allocConst_res hal hi, rfl,
    Ext.comp ⟨_, e1⟩ (pushIf_ext' push a cs1), ?_⟩
  intro a' ha'; cases ha'
  exact ⟨_, by rw [pushIf_res]; exact hres, hty⟩

theorem cExpr_res (ds : Decls) :
    (e : Expr) → ∀ push cs t oa cs' ty, cExpr e push cs = .ok ((t, oa), cs') → typeExpr ds e = .ok ty →
    VarsInv ds cs → ResInv ds cs.res → ExprRes' ds cs cs' t ty oa
  | .acct s, push, cs, t, oa, cs', ty, h, ht, _, hi => by
    simp only [cExpr] at h
    split at h
    · cases h
    · rename_i a cs1 hal
      cases h
      simp only [typeExpr] at ht; cases ht
      exact constExpr_res rfl hal hi
  | .asset s, push, cs, t, oa, cs', ty, h, ht, _, hi => by
    simp only [cExpr] at h
    split at h
    · cases h
    · rename_i a cs1 hal
      cases h
      simp only [typeExpr] at ht
      split at ht <;> cases ht
      exact constExpr_res rfl hal hi
  | .num n, push, cs, t, oa, cs', ty, h, ht, _, hi => by
    simp only [cExpr] at h
    split at h
    · cases h
    · rename_i a cs1 hal
      cases h
      simp only [typeExpr] at ht; cases ht
      exact constExpr_res rfl hal hi
  | .str s, push, cs, t, oa, cs', ty, h, ht, _, hi => by
    simp only [cExpr] at h
    split at h
    · cases h
    · rename_i a cs1 hal
      cases h
      simp only [typeExpr] at ht; cases ht
      exact constExpr_res rfl hal hi
  | .portion x, push, cs, t, oa, cs', ty, h, ht, _, hi => by
    simp only [cExpr] at h
    split at h
    · cases h
    · rename_i p hp
      split at h
      · cases h
      · rename_i a cs1 hal
        cases h
        simp only [typeExpr, hp] at ht; cases ht
        exact constExpr_res rfl hal hi
  | .var x, push, cs, t, oa, cs', ty, h, ht, hv, hi => by
    simp only [cExpr] at h
    split at h
    · cases h
    · rename_i idx hl
      split at h
      · cases h
      · rename_i r hr
        cases h
        obtain ⟨r', h1, h2, h3⟩ := hv x idx hl
        rw [hr] at h1; cases h1
        simp only [typeExpr, h3] at ht; cases ht
        refine ⟨by rw [pushIf_res]; exact hi, rfl, pushIf_ext' push idx cs, ?_⟩
        intro a' ha'; cases ha'
        exact ⟨_, by rw [pushIf_res]; exact hr, rfl⟩
  | .mon ae n, push, cs, t, oa, cs', ty, h, ht, hv, hi => by
    simp only [typeExpr] at ht
    split at ht
    · cases ht
    · rename_i ta hta
      split at ht
      · rename_i heq
        cases ht; subst heq
        simp only [cExpr] at h
        split at h
        · cases h
        · cases h
        · rename_i t0 assetAddr cs1 hae
          have ih := cExpr_res ds ae false cs t0 (some assetAddr) cs1 .asset hae hta hv hi
          obtain ⟨r', hr', hrt⟩ := ih.addr assetAddr rfl
          split at h
          · rename_i i hfi
            cases h
            obtain ⟨x, hx, hp⟩ := findIdx?_some hfi
            have : x = Res.mon assetAddr n := by simpa using hp
            subst this
            refine ⟨by rw [pushIf_res]; exact ih.inv, rfl, Ext.comp ih.ext (pushIf_ext' push i cs1), ?_⟩
            intro a' ha'; cases ha'
            exact ⟨_, by rw [pushIf_res]; exact hx, rfl⟩
          · split at h
            · cases h
            · rename_i a cs2 hal
              cases h
              obtain ⟨e2, hres, _⟩ := allocRes_ok hal
              have hinv2 : ResInv ds cs2.res :=
                allocRes_res hal ih.inv ⟨(List.getElem?_eq_some_iff.mp hr').1, r', hr', hrt⟩
              refine ⟨by rw [pushIf_res]; exact hinv2, rfl,
                Ext.comp (Ext.comp ih.ext ⟨_, e2⟩) (pushIf_ext' push a cs2), ?_⟩
              intro a' ha'; cases ha'
              exact ⟨_, by rw [pushIf_res]; exact hres, rfl⟩
      · cases ht
  | .add l r, push, cs, t, oa, cs', ty, h, ht, hv, hi => by
    simp only [cExpr] at h
    split at h
    · cases h
    · rename_i lt la cs1 hl
      split at h
      · cases h
      · rename_i rres cs2 hr
        obtain ⟨rt0, ra⟩ := rres
        simp only [typeExpr] at ht
        split at ht
        · cases ht
        · rename_i htl
          split at ht
          · cases ht
          · rename_i rt htr
            split at ht
            · rename_i heq
              cases ht; subst heq
              have i1 := cExpr_res ds l push cs lt la cs1 .number hl htl hv hi
              obtain ⟨s1, e1⟩ := i1.ext
              have i2 := cExpr_res ds r push cs1 rt0 ra cs2 .number hr htr (hv.ext e1) i1.inv
              have := i1.ty_eq; subst this
              simp only at h
              cases h
              exact ⟨by rw [opIf_res]; exact i2.inv, rfl,
                Ext.comp (Ext.comp i1.ext i2.ext) (opIf_ext' push _ cs2), fun a ha => by cases ha⟩
            · cases ht
        · rename_i htl
          split at ht
          · cases ht
          · rename_i rt htr
            split at ht
            · rename_i heq
              cases ht; subst heq
              have i1 := cExpr_res ds l push cs lt la cs1 .monetary hl htl hv hi
              obtain ⟨s1, e1⟩ := i1.ext
              have i2 := cExpr_res ds r push cs1 rt0 ra cs2 .monetary hr htr (hv.ext e1) i1.inv
              have := i1.ty_eq; subst this
              simp only at h
              cases h
              obtain ⟨s2, e2⟩ := i2.ext
              obtain ⟨s3, e3⟩ := opIf_ext' push OP_MONETARY_ADD cs2
              refine ⟨by rw [opIf_res]; exact i2.inv, rfl, ⟨_, (e1.trans e2).trans e3⟩, ?_⟩
              intro a ha
              obtain ⟨r', hr', hrt⟩ := i1.addr a ha
              exact ⟨r', (e2.trans e3).res_get hr', hrt⟩
            · cases ht
        · cases ht
  | .sub l r, push, cs, t, oa, cs', ty, h, ht, hv, hi => by
    simp only [cExpr] at h
    split at h
    · cases h
    · rename_i lt la cs1 hl
      split at h
      · cases h
      · rename_i rres cs2 hr
        obtain ⟨rt0, ra⟩ := rres
        simp only [typeExpr] at ht
        split at ht
        · cases ht
        · rename_i htl
          split at ht
          · cases ht
          · rename_i rt htr
            split at ht
            · rename_i heq
              cases ht; subst heq
              have i1 := cExpr_res ds l push cs lt la cs1 .number hl htl hv hi
              obtain ⟨s1, e1⟩ := i1.ext
              have i2 := cExpr_res ds r push cs1 rt0 ra cs2 .number hr htr (hv.ext e1) i1.inv
              have := i1.ty_eq; subst this
              simp only at h
              cases h
              exact ⟨by rw [opIf_res]; exact i2.inv, rfl,
                Ext.comp (Ext.comp i1.ext i2.ext) (opIf_ext' push _ cs2), fun a ha => by cases ha⟩
            · cases ht
        · rename_i htl
          split at ht
          · cases ht
          · rename_i rt htr
            split at ht
            · rename_i heq
              cases ht; subst heq
              have i1 := cExpr_res ds l push cs lt la cs1 .monetary hl htl hv hi
              obtain ⟨s1, e1⟩ := i1.ext
              have i2 := cExpr_res ds r push cs1 rt0 ra cs2 .monetary hr htr (hv.ext e1) i1.inv
              have := i1.ty_eq; subst this
              simp only at h
              cases h
              obtain ⟨s2, e2⟩ := i2.ext
              obtain ⟨s3, e3⟩ := opIf_ext' push OP_MONETARY_SUB cs2
              refine ⟨by rw [opIf_res]; exact i2.inv, rfl, ⟨_, (e1.trans e2).trans e3⟩, ?_⟩
              intro a ha
              obtain ⟨r', hr', hrt⟩ := i1.addr a ha
              exact ⟨r', (e2.trans e3).res_get hr', hrt⟩
            · cases ht
        · cases ht

end Ledger.Machine
