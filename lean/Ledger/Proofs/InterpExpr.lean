import Ledger.Interp.Fragment

/-!
Expressions: whenever the machine's `evalExpr` yields a value (on an environment
without unresolved `balance()` placeholders), the interpreter's `evaluateExpr` yields
the same value on an environment with the same bindings, provided the literals are read
alike by both parsers (`litsOK`).
-/
namespace Ledger.Interp
open Ledger.Machine

/-- Same bindings. -/
def EnvEq (env ienv : Env) : Prop := ∀ x, env.lookup x = ienv.lookup x

/-- No unresolved `balance()` placeholder. -/
def EnvOK (env : Env) : Prop := ∀ x v, env.lookup x = some v → valGood v = true

theorem evalExpr_good {env : Env} (henv : EnvOK env) :
    ∀ (e : Expr) (v : Value), Machine.evalExpr env e = .ok v → valGood v = true := by
  intro e
  induction e with
  | acct s => intro v h; simp [Machine.evalExpr] at h; subst h; rfl
  | asset s => intro v h; simp [Machine.evalExpr] at h; subst h; rfl
  | num n => intro v h; simp [Machine.evalExpr] at h; subst h; rfl
  | str s => intro v h; simp [Machine.evalExpr] at h; subst h; rfl
  | portion t =>
    intro v h
    simp only [Machine.evalExpr] at h
    split at h
    · cases h; rfl
    · cases h
  | mon a n _ =>
    intro v h
    simp only [Machine.evalExpr] at h
    split at h
    · cases h; rfl
    · cases h
    · cases h
  | var x =>
    intro v h
    simp only [Machine.evalExpr] at h
    split at h
    · rename_i w hl; cases h; exact henv x _ hl
    · cases h
  | add l r _ _ =>
    intro v h
    simp only [Machine.evalExpr] at h
    split at h
    · cases h
    · split at h
      · cases h
      · split at h
        · cases h; rfl
        · split at h
          · cases h
          · cases h; rfl
        · cases h
  | sub l r _ _ =>
    intro v h
    simp only [Machine.evalExpr] at h
    split at h
    · cases h
    · split at h
      · cases h
      · split at h
        · cases h; rfl
        · split at h
          · cases h
          · cases h; rfl
        · cases h

theorem valGood_monetary {a : String} {x : Option Int} (h : valGood (.monetary a x) = true) :
    ∃ v, x = some v := by
  cases x with
  | none => simp [valGood] at h
  | some v => exact ⟨v, rfl⟩

theorem evalExpr_agree {env ienv : Env} (heq : EnvEq env ienv) (henv : EnvOK env) :
    ∀ (e : Expr) (v : Value), litsOK e = true → Machine.evalExpr env e = .ok v →
      Interp.evalExpr ienv e = .ok v := by
  intro e
  induction e with
  | acct s =>
    intro v hl h
    simp only [litsOK] at hl
    simp [Machine.evalExpr] at h; subst h
    simp [Interp.evalExpr, hl]
  | asset s => intro v _ h; simp [Machine.evalExpr] at h; subst h; rfl
  | num n => intro v _ h; simp [Machine.evalExpr] at h; subst h; rfl
  | str s => intro v _ h; simp [Machine.evalExpr] at h; subst h; rfl
  | portion t =>
    intro v hl h
    simp only [litsOK, portionLitOK] at hl
    simp only [Machine.evalExpr] at h
    split at h
    · rename_i p hp
      cases h
      rw [hp] at hl
      simp only [Interp.evalExpr]
      split at hl
      · rename_i p' q hp' hq
        cases hp'
        have : p = q := by simpa using hl
        subst this; exact hq
      · cases hl
    · cases h
  | mon a n ih =>
    intro v hl h
    simp only [litsOK] at hl
    simp only [Machine.evalExpr] at h
    split at h
    · rename_i s hs
      cases h
      simp only [Interp.evalExpr, ih _ hl hs]
    · cases h
    · cases h
  | var x =>
    intro v _ h
    simp only [Machine.evalExpr] at h
    split at h
    · rename_i w hw
      cases h
      simp only [Interp.evalExpr, ← heq x, hw]
    · cases h
  | add l r ihl ihr =>
    intro v hl h
    simp only [litsOK, Bool.and_eq_true] at hl
    simp only [Machine.evalExpr] at h
    split at h
    · cases h
    · rename_i a ha
      split at h
      · cases h
      · rename_i b hb
        have ga := evalExpr_good henv l a ha
        have gb := evalExpr_good henv r b hb
        have ia := ihl a hl.1 ha
        have ib := ihr b hl.2 hb
        split at h
        · cases h
          simp only [Interp.evalExpr, ia, ib]
        · rename_i a1 x a2 y
          obtain ⟨x', rfl⟩ := valGood_monetary ga
          obtain ⟨y', rfl⟩ := valGood_monetary gb
          split at h
          · cases h
          · rename_i hne
            cases h
            simp only [Interp.evalExpr, ia, ib, nilAsZero]
            rw [if_neg hne]
        · cases h
  | sub l r ihl ihr =>
    intro v hl h
    simp only [litsOK, Bool.and_eq_true] at hl
    simp only [Machine.evalExpr] at h
    split at h
    · cases h
    · rename_i a ha
      split at h
      · cases h
      · rename_i b hb
        have ga := evalExpr_good henv l a ha
        have gb := evalExpr_good henv r b hb
        have ia := ihl a hl.1 ha
        have ib := ihr b hl.2 hb
        split at h
        · cases h
          simp only [Interp.evalExpr, ia, ib]
        · rename_i a1 x a2 y
          obtain ⟨x', rfl⟩ := valGood_monetary ga
          obtain ⟨y', rfl⟩ := valGood_monetary gb
          split at h
          · cases h
          · rename_i hne
            cases h
            simp only [Interp.evalExpr, ia, ib, nilAsZero]
            rw [if_neg hne]
        · cases h

/-! ## The typed accessors -/

theorem evalAcct_agree {env ienv : Env} (heq : EnvEq env ienv) (henv : EnvOK env) {e : Expr} {a : String}
    (hl : litsOK e = true) (h : evalAccount env e = .ok a) : evalAcct ienv e = .ok a := by
  unfold evalAccount at h
  split at h
  · rename_i s hs
    cases h
    simp only [evalAcct, evalExpr_agree heq henv e _ hl hs]
  · cases h
  · cases h

theorem evalMon_agree {env ienv : Env} (heq : EnvEq env ienv) (henv : EnvOK env) {e : Expr} {a : String}
    {v : Int} (hl : litsOK e = true) (h : evalMonetary env e = .ok (a, some v)) :
    evalMon ienv e = .ok (a, v) := by
  unfold evalMonetary at h
  split at h
  · rename_i a' v' hs
    cases h
    simp only [evalMon, evalExpr_agree heq henv e _ hl hs]
  · cases h
  · cases h

theorem evalMonOf_agree {env ienv : Env} (heq : EnvEq env ienv) (henv : EnvOK env) {e : Expr} {a : String}
    {v : Int} (hl : litsOK e = true) (h : evalMonetary env e = .ok (a, some v)) :
    evalMonOf ienv a e = .ok v := by
  simp [evalMonOf, evalMon_agree heq henv hl h]

theorem evalAsset_agree {env ienv : Env} (heq : EnvEq env ienv) (henv : EnvOK env) {e : Expr} {a : String}
    (hl : litsOK e = true) (h : evalAssetE env e = .ok a) : evalAsset ienv e = .ok a := by
  unfold evalAssetE at h
  split at h
  · rename_i s hs
    cases h
    simp only [evalAsset, evalExpr_agree heq henv e _ hl hs]
  · cases h
  · cases h

/-- The cap predicate unpacked. -/
theorem okCap_spec {env : Env} {asset : String} {e : Expr} (h : okCap env asset e = true) :
    litsOK e = true ∧ ∃ v, evalMonetary env e = .ok (asset, some v) ∧ 0 ≤ v := by
  simp only [okCap, Bool.and_eq_true] at h
  refine ⟨h.1, ?_⟩
  have h2 := h.2
  split at h2
  · rename_i a v hv
    simp only [Bool.and_eq_true, decide_eq_true_eq] at h2
    exact ⟨v, by rw [hv, h2.1], h2.2⟩
  · cases h2

theorem okAcct_spec {env : Env} {e : Expr} (h : okAcct env e = true) :
    litsOK e = true ∧ ∃ a, evalAccount env e = .ok a ∧ validAccount a = true := by
  simp only [okAcct, Bool.and_eq_true] at h
  refine ⟨h.1, ?_⟩
  have h2 := h.2
  split at h2
  · rename_i a ha; exact ⟨a, ha, h2⟩
  · cases h2

end Ledger.Interp
