import Ledger.Proofs.SqlTxMeta
import Ledger.Proofs.SqlAccountsSpec

/-!
# `insert_account_metadata_history` / `update_account_metadata_history` (AFTER ROW triggers of `accounts`, ACCOUNT_METADATA_HISTORY = SYNC)

Both trigger functions of `Ledger.Generated.Schema` are `INSERT INTO accounts_metadata (ledger, accounts_address, revision, date, metadata)
VALUES (new.ledger, new.address, <revision>, <date>, new.metadata); RETURN new` — with `1, new.insertion_date` on INSERT and
`coalesce((SELECT revision + 1 FROM accounts_metadata WHERE accounts_address = new.address AND ledger = new.ledger ORDER BY revision DESC
LIMIT 1), 1), new.updated_at` on UPDATE.
-/
open Ledger Ledger.Sql Ledger.Generated Ledger.Core
namespace Ledger.Sql

/-- a row of `accounts_metadata` (column order of `Schema.tbl_accounts_metadata`) -/
structure AmR where
  seq : Int
  ledger : String
  metadata : JV
  revision : Int
  date : Int
  address : String

def amVals (r : AmR) : List Value := [.int r.seq, .text r.ledger, .json r.metadata, .int r.revision, .ts r.date, .text r.address]

def amCols : List String := Schema.tbl_accounts_metadata.cols.map (·.name)

def amFull (b : String) : String := b ++ "." ++ "accounts_metadata"

def amSeqFull (b : String) : String := b ++ "." ++ "accounts_metadata_seq_seq"

/-- `accounts_metadata` of bucket `b` -/
def amT (b : String) (nr : Nat) : Table := { Schema.tbl_accounts_metadata with name := amFull b, nextRid := nr }

/-- the row a trigger writes for the NEW account row `a`: revision `rv`, date `dt`, numbered `q` -/
def amOf (a : AcR) (rv dt q : Int) : AmR := { seq := q, ledger := a.ledger, metadata := a.md, revision := rv, date := dt, address := a.address }

/-- every stored version is a well-typed row with a sequence number below `bound` -/
def AmAll (bound : Int) (rows : List Ver) : Prop := ∀ r ∈ rows, ∃ y : AmR, r.vals = amVals y ∧ y.seq < bound

/-- the statement of both trigger functions -/
def amInsertStmt (revE dateE : Expr) : Stmt :=
  Stmt.insert [] "" "accounts_metadata" "" ["ledger", "accounts_address", "revision", "date", "metadata"]
    (InsertSrc.values [[Expr.col "new" "ledger", Expr.col "new" "address", revE, dateE, Expr.col "new" "metadata"]]) none []

/-- the revision sub-query of `update_account_metadata_history` -/
def amRevQuery : Query :=
  Query.mk [] (SetExpr.select (Select.mk false [] [SelItem.expr (Expr.binop BinOp.add (Expr.col "" "revision") (Expr.int 1)) ""]
    [FromItem.table "" "accounts_metadata" ""]
    (some (Expr.binop BinOp.and (Expr.binop BinOp.eq (Expr.col "accounts_metadata" "accounts_address") (Expr.col "new" "address"))
      (Expr.binop BinOp.eq (Expr.col "accounts_metadata" "ledger") (Expr.col "new" "ledger")))) [] none))
    [OrderItem.mk (Expr.col "" "revision") true NullsOrder.dflt] (some (Expr.int 1)) none LockMode.none

def amRevExpr : Expr := Expr.call "" "coalesce" [Expr.subq amRevQuery, Expr.int 1]

theorem insertAcMeta_body :
    Schema.fn_insert_account_metadata_history.body =
      [PlStmt.exec (amInsertStmt (Expr.int 1) (Expr.col "new" "insertion_date")) [], PlStmt.ret (some (Expr.col "" "new"))] ∧
    Schema.fn_insert_account_metadata_history.decls = [] := ⟨rfl, rfl⟩

theorem updateAcMeta_body :
    Schema.fn_update_account_metadata_history.body =
      [PlStmt.exec (amInsertStmt amRevExpr (Expr.col "new" "updated_at")) [], PlStmt.ret (some (Expr.col "" "new"))] ∧
    Schema.fn_update_account_metadata_history.decls = [] := ⟨rfl, rfl⟩

/-- the environment of the PL body of a row trigger on `accounts` with NEW = `a` (and OLD = `o` on UPDATE) -/
def acPlEnv (a : AcR) (old : Option AcR) (fd : Bool) : Env :=
  { outer := [{ alias := "", cols := ["found"], vals := [.bool fd] }, { alias := "new", cols := acCols, vals := a.vals }] ++
      (match old with | some o => [{ alias := "old", cols := acCols, vals := o.vals }] | none => []) }

theorem lookup_new_ac (a : AcR) (old : Option AcR) (fd : Bool) (c : String) (v : Value) (h : lookupIn acCols a.vals c = some v) :
    lookupColumn (acPlEnv a old fd) "new" c = .ok v := by
  have e2 : ("" == "new") = false := by decide
  simp [lookupColumn, Env.scopes, acPlEnv, findScope, lastComponent_new, h, e2]
  rfl

def amInsertCols : List String := ["ledger", "accounts_address", "revision", "date", "metadata"]

def amSrcRow (a : AcR) (rv dt : Int) : List (Option Value) :=
  [some (.text a.ledger), some (.text a.address), some (.int rv), some (.ts dt), some (.json a.md)]

theorem exec_evalValuesRow_am (n : Nat) (a : AcR) (old : Option AcR) (fd : Bool) (revE dateE : Expr) (rv dt : Int) (s : St)
    (hrev : (evalExpr (cbs n) s.w.types (acPlEnv a old fd) revE).exec s = (.ok (.int rv), s))
    (hdate : (evalExpr (cbs n) s.w.types (acPlEnv a old fd) dateE).exec s = (.ok (.ts dt), s))
    (hr1 : revE ≠ .dflt) (hr2 : dateE ≠ .dflt) :
    (evalValuesRow (n + 1) (acPlEnv a old fd) [Expr.col "new" "ledger", Expr.col "new" "address", revE, dateE,
      Expr.col "new" "metadata"]).exec s = (.ok (amSrcRow a rv dt), s) := by
  rw [evalValuesRow]
  have c1 := lookup_new_ac a old fd "ledger" (.text a.ledger) (by cases a; rfl)
  have c2 := lookup_new_ac a old fd "address" (.text a.address) (by cases a; rfl)
  have c4 := lookup_new_ac a old fd "metadata" (.json a.md) (by cases a; rfl)
  simp only [exec_bind, exec_typeEnv, exec_mapM_cons, List.mapM_nil]
  have h3 : ∀ s', (match revE with
      | Expr.dflt => (pure none : M (Option Value))
      | e => do
        let x ← evalExpr (cbs n) s.w.types (acPlEnv a old fd) e
        pure (some x)).exec s' = (do
        let x ← evalExpr (cbs n) s.w.types (acPlEnv a old fd) revE
        pure (some x)).exec s' := by
    intro s'
    split
    · exact absurd rfl hr1
    · rfl
  have h4 : ∀ s', (match dateE with
      | Expr.dflt => (pure none : M (Option Value))
      | e => do
        let x ← evalExpr (cbs n) s.w.types (acPlEnv a old fd) e
        pure (some x)).exec s' = (do
        let x ← evalExpr (cbs n) s.w.types (acPlEnv a old fd) dateE
        pure (some x)).exec s' := by
    intro s'
    split
    · exact absurd rfl hr2
    · rfl
  simp only [evalExpr, c1, c2, c4, exec_liftR_ok, exec_pure, exec_bind, h3, h4, hrev, hdate, amSrcRow]

theorem exec_buildRow_am (n : Nat) (b : String) (nr : Nat) (rows : List Ver) (a : AcR) (rv dt : Int) (s : St)
    (hsch : schemaOf (amFull b) = b) (sq : Seq) (hsq : s.w.seqs.find? (·.name == amSeqFull b) = some sq)
    (hr1 : -9223372036854775808 ≤ sq.next) (hr2 : sq.next ≤ 9223372036854775807) :
    (buildRow (n + 3) ((amT b nr).withRows rows) amInsertCols (amSrcRow a rv dt)).exec s =
      (.ok (amVals (amOf a rv dt sq.next)), s.withSeqs (seqsSet (amSeqFull b) sq.next s.w.seqs)) := by
  rw [buildRow]
  have hcols : ((amT b nr).withRows rows).cols = Schema.tbl_accounts_metadata.cols := rfl
  have hnames : ((amT b nr).withRows rows).colNames = amCols := rfl
  have hfind : amInsertCols.find? (fun c => !(amCols.contains c)) = none := by decide
  have hlen : (amInsertCols.length != (amSrcRow a rv dt).length) = false := rfl
  simp only [exec_bind, exec_typeEnv, hlen, Bool.false_eq_true, if_false, hnames, hfind, hcols, Schema.tbl_accounts_metadata]
  have g0 : (amInsertCols.zip (amSrcRow a rv dt)).lookup "seq" = none := rfl
  have g1 : (amInsertCols.zip (amSrcRow a rv dt)).lookup "ledger" = some (some (.text a.ledger)) := rfl
  have g2 : (amInsertCols.zip (amSrcRow a rv dt)).lookup "revision" = some (some (.int rv)) := rfl
  have g3 : (amInsertCols.zip (amSrcRow a rv dt)).lookup "date" = some (some (.ts dt)) := rfl
  have g4 : (amInsertCols.zip (amSrcRow a rv dt)).lookup "metadata" = some (some (.json a.md)) := rfl
  have g5 : (amInsertCols.zip (amSrcRow a rv dt)).lookup "accounts_address" = some (some (.text a.address)) := rfl
  have hname : ((amT b nr).withRows rows).name = amFull b := rfl
  have hnv : (evalExpr (cbs (n + 2)) s.w.types {} (Expr.call "" "nextval" [Expr.str "accounts_metadata_seq_seq"])).exec (s.withSP b) =
      (.ok (.int sq.next), (s.withSP b).withSeqs (seqsSet (amSeqFull b) sq.next s.w.seqs)) := by
    have hpure : evalPureFn "nextval" [Value.text "accounts_metadata_seq_seq"] = none := rfl
    have hcall : (cbs (n + 2)).call "" "nextval" [Value.text "accounts_metadata_seq_seq"] =
        callFunc (n + 1) "" "nextval" [Value.text "accounts_metadata_seq_seq"] := rfl
    have hb : callBuiltin "nextval" [Value.text "accounts_metadata_seq_seq"] =
        some (do return .int (← seqNext (← seqName (Value.text "accounts_metadata_seq_seq").toText))) := rfl
    have hsn : (seqName (Value.text "accounts_metadata_seq_seq").toText).exec (s.withSP b) = (.ok (amSeqFull b), s.withSP b) := by
      have e1 : unquoteQualified (Value.text "accounts_metadata_seq_seq").toText = "accounts_metadata_seq_seq" := by decide
      have e2 : (firstDotted "accounts_metadata_seq_seq").isEmpty = true := by decide
      simp [seqName, e1, e2, qualify, amSeqFull]
    rw [evalExpr_call _ _ _ _ _ _ (by decide)]
    simp only [evalExpr, evalExprs, exec_bind, exec_pure, hpure, hcall,
      show (("" : String).isEmpty || "" == "public" || "" == "pg_catalog") = true from by decide, if_true]
    rw [callFunc]
    simp only [show (("" : String).isEmpty || "" == "public" || "" == "pg_catalog") = true from by decide, if_true, hb, exec_bind, hsn,
      exec_seqNext (amSeqFull b) (s.withSP b) sq hsq, exec_pure]
    rfl
  have hnv' := exec_withSearchPath b _ s _ _ hnv
  simp only [exec_mapM_cons, g0, g1, g2, g3, g4, g5, hname, hsch, exec_bind, hnv']
  simp only [castTo_int8 _ sq.next hr1 hr2, castTo_varchar_text, castTo_numeric_int, castTo_ts_ts2, castTo_jsonb_json2,
    exec_liftR_ok, List.mapM_nil, exec_pure]
  rfl

theorem exec_checkConstraints_am (b : String) (nr : Nat) (rows : List Ver) (y : AmR) (s : St) :
    (checkConstraints ((amT b nr).withRows rows) (amVals y)).exec s = (.ok (), s) := by
  simp [checkConstraints, amT, Table.withRows, Schema.tbl_accounts_metadata, notNullViolation, Value.isNull, checkChecks, amVals,
    exec_bind, evalExpr, rowScope, Table.colNames, lookupColumn, Env.scopes, lookupUnqualified, lookupIn, Value.truth]

theorem exec_checkForeignKeys_am (b : String) (nr : Nat) (rows : List Ver) (vals : List Value) (s : St) :
    (checkForeignKeys ((amT b nr).withRows rows) vals).exec s = (.ok (), s) := by
  simp [checkForeignKeys, amT, Table.withRows, Schema.tbl_accounts_metadata, checkForeignKeysOf]

def amIdx : UniqueIdx := { name := "accounts_metadata_pkey", cols := ["seq"], pred := none, primary := true }

theorem amT_uniques (b : String) (nr : Nat) (rows : List Ver) : ((amT b nr).withRows rows).uniques = [amIdx] := rfl

theorem exec_keyMatches_am (b : String) (nr : Nat) (rows : List Ver) (q : Int) (y : AmR) (r : Ver) (hr : r.vals = amVals y) (s : St) :
    (keyMatches ((amT b nr).withRows rows) amIdx [.int q] r).exec s = (.ok (decide (y.seq = q)), s) := by
  have hk : keyOf ((amT b nr).withRows rows) amIdx.cols r.vals = [.int y.seq] := by rw [hr]; rfl
  simp only [keyMatches, hk, exec_bind, sameGroupKey_int1, exec_liftR_ok]
  by_cases h : y.seq = q <;> simp [h, predHolds, amIdx]

theorem exec_findConflict_am_none (b : String) (nr : Nat) (rows : List Ver) (y : AmR) (s : St) (hsolo : ∀ z ∈ s.w.active, z = s.xid)
    (hall : AmAll y.seq rows) :
    (findConflict ((amT b nr).withRows rows) [amIdx] (amVals y) none).exec s = (.ok none, s) := by
  have hk : keyOf ((amT b nr).withRows rows) amIdx.cols (amVals y) = [.int y.seq] := rfl
  have hs1 : (scanConflict ((amT b nr).withRows rows) amIdx [.int y.seq] none (latestView s.w s.xid) s.xid s.w.active rows).exec s =
      (.ok none, s) := by
    rw [exec_scanConflict_gen _ amIdx _ none _ s.xid s.w.active hsolo s (fun _ => false) rows (by
        intro r hr _ _
        obtain ⟨y', hv, hlt⟩ := hall r hr
        rw [exec_keyMatches_am b nr rows y.seq y' r hv s]
        have : ¬ (y'.seq = y.seq) := by omega
        simp [this])]
    simp
  have hp1 : (predHolds ((amT b nr).withRows rows) amIdx.pred (amVals y)).exec s = (.ok true, s) := by
    simp [predHolds, amIdx]
  have hrows : ((amT b nr).withRows rows).rows = rows := rfl
  rw [findConflict]
  simp only [exec_bind, hp1, Bool.not_true, Bool.false_eq_true, if_false, hk, List.any, Value.isNull, Bool.or_false,
    exec_get, hrows, hs1]
  simp [findConflict]

/-- what the triggers need of the state: `accounts_metadata` and its sequence -/
structure AmState (s : St) (b : String) (nr : Nat) (rows : List Ver) (sq : Seq) : Prop where
  table : s.w.table? (amFull b) = some ((amT b nr).withRows rows)
  seq : s.w.seqs.find? (·.name == amSeqFull b) = some sq
  all : AmAll sq.next rows
  lo : 0 ≤ sq.next
  hi : sq.next ≤ 9223372036854775807

/-- the INSERT of the trigger functions, as a statement: revision and date expressions with the values `rv`, `dt` -/
theorem exec_execStmt_amInsert (p : Nat) (b : String) (a : AcR) (old : Option AcR) (fd : Bool) (revE dateE : Expr) (rv dt : Int)
    (nr : Nat) (rows : List Ver) (sq : Seq) (s : St)
    (hs : TxState s) (hsp : s.searchPath = b) (hsch : schemaOf (amFull b) = b) (hst : AmState s b nr rows sq)
    (hrev : (evalExpr (cbs (p + 3)) s.w.types (acPlEnv a old fd) revE).exec s = (.ok (.int rv), s))
    (hdate : (evalExpr (cbs (p + 3)) s.w.types (acPlEnv a old fd) dateE).exec s = (.ok (.ts dt), s))
    (hr1 : revE ≠ .dflt) (hr2 : dateE ≠ .dflt) :
    (execStmt (p + 6) (acPlEnv a old fd) (amInsertStmt revE dateE)).exec s =
      (.ok { rel := { cols := [], rows := [] }, affected := 1 },
       (s.withSeqs (seqsSet (amSeqFull b) sq.next s.w.seqs)).withTable
         ((amT b (nr + 1)).withRows (newVer s.xid s.cid nr (amVals (amOf a rv dt sq.next)) :: rows))) := by
  have hq : (qualify "" "accounts_metadata").exec s = (.ok (amFull b), s) := by simp [qualify, hsp, amFull]
  have hvals := exec_evalValuesRow_am (p + 3) a old fd revE dateE rv dt s hrev hdate hr1 hr2
  have hbuild := exec_buildRow_am p b nr rows a rv dt s hsch sq hst.seq (by have := hst.lo; omega) hst.hi
  simp only [amInsertCols] at hbuild
  have hT1 : (s.withSeqs (seqsSet (amSeqFull b) sq.next s.w.seqs)).w.table? (amFull b) = some ((amT b nr).withRows rows) := hst.table
  have hfire : (fireBefore (p + 3) ((amT b nr).withRows rows) .insert [] (some (amVals (amOf a rv dt sq.next))) none).exec
      (s.withSeqs (seqsSet (amSeqFull b) sq.next s.w.seqs)) =
      (.ok (some (amVals (amOf a rv dt sq.next))), s.withSeqs (seqsSet (amSeqFull b) sq.next s.w.seqs)) := by
    apply exec_fireBefore_noneApply
    intro tr htr
    have := mem_sortTriggers htr
    simp [amT, Table.withRows, Schema.tbl_accounts_metadata] at this
  have hconf := exec_findConflict_am_none b nr rows (amOf a rv dt sq.next) (s.withSeqs (seqsSet (amSeqFull b) sq.next s.w.seqs)) hs.solo hst.all
  have hins : (insertVersion (amFull b) (amVals (amOf a rv dt sq.next))).exec (s.withSeqs (seqsSet (amSeqFull b) sq.next s.w.seqs)) =
      (.ok nr, (s.withSeqs (seqsSet (amSeqFull b) sq.next s.w.seqs)).withTable
        ((amT b (nr + 1)).withRows (newVer s.xid s.cid nr (amVals (amOf a rv dt sq.next)) :: rows))) :=
    exec_insertVersion hT1 _
  have hT2 : ((s.withSeqs (seqsSet (amSeqFull b) sq.next s.w.seqs)).withTable
      ((amT b (nr + 1)).withRows (newVer s.xid s.cid nr (amVals (amOf a rv dt sq.next)) :: rows))).w.table? (amFull b) =
      some ((amT b (nr + 1)).withRows (newVer s.xid s.cid nr (amVals (amOf a rv dt sq.next)) :: rows)) :=
    withTable_table? _ ((amT b nr).withRows rows) _ hT1
  have hqa := exec_queueAfter_none (p + 2) ((amT b (nr + 1)).withRows (newVer s.xid s.cid nr (amVals (amOf a rv dt sq.next)) :: rows)) .insert []
    (some (amVals (amOf a rv dt sq.next))) none ((s.withSeqs (seqsSet (amSeqFull b) sq.next s.w.seqs)).withTable
      ((amT b (nr + 1)).withRows (newVer s.xid s.cid nr (amVals (amOf a rv dt sq.next)) :: rows))) (by rfl)
  rw [amInsertStmt, execStmt, evalCtes]
  · simp only [exec_bind, exec_pure]
    rw [execInsert]
    have hctes : (acPlEnv a old fd).ctes.lookup "accounts_metadata" = none := rfl
    simp only [show ("" : String).isEmpty = true from by decide, if_true, hctes, exec_bind, hq, exec_getTable hst.table, exec_mapM_cons,
      List.mapM_nil, hvals, exec_pure, List.isEmpty_cons, Bool.false_eq_true, if_false, exec_foldlM_cons, List.foldlM_nil]
    rw [insertRowStep]
    simp only [exec_bind, exec_getTable hst.table, hbuild, hfire, exec_getTable hT1, exec_checkConstraints_am, exec_pure, amT_uniques,
      hconf, exec_checkForeignKeys_am, hins, exec_getTable hT2, hqa]
    rw [accReturning]
    simp only [List.isEmpty_nil, if_true, exec_pure, Bool.true_and, Bool.not_true, Bool.and_false, Bool.false_eq_true, if_false]
  · intro h; omega

theorem exec_ret_new_ac (cb : Callbacks) (te : TypeEnv) (a : AcR) (old : Option AcR) (fd : Bool) (s : St) :
    (withNewCid (evalExpr cb te (acPlEnv a old fd) (Expr.col "" "new"))).exec s = (.ok (.row acCols a.vals), s.bump 1) := by
  have h : (evalExpr cb te (acPlEnv a old fd) (Expr.col "" "new")).exec s.enter = (.ok (.row acCols a.vals), s.enter) := by
    simp only [evalExpr]
    cases old <;> cases a <;> rfl
  have := exec_withNewCid _ s _ _ h
  rw [enter_withCid] at this
  exact this

/-- **either trigger**, run for NEW = `a` (OLD = `old`), its revision / date expressions having the values `rv`, `dt` in the nested
    command's state -/
theorem exec_runTrigger_am (k : Nat) (b fname : String) (a : AcR) (old : Option AcR) (revE dateE : Expr) (rv dt : Int)
    (f : PlFunc) (hdecls : f.decls = [])
    (hbody : f.body = [PlStmt.exec (amInsertStmt revE dateE) [], PlStmt.ret (some (Expr.col "" "new"))])
    (s : St) (hs : TxState s) (hf : s.w.funcs.lookup fname = some f) (hschema : schemaOf fname = b) (hsch : schemaOf (amFull b) = b)
    (hnc : s.nextCid + 2 ≤ 1000000000) (t : Table) (htc : t.cols = Schema.tbl_accounts.cols)
    (nr : Nat) (rows : List Ver) (sq : Seq) (hst : AmState s b nr rows sq)
    (hrev : (evalExpr (cbs (k + 3)) s.w.types (acPlEnv a old false) revE).exec (s.withSP b).enter.clearQ = (.ok (.int rv), (s.withSP b).enter.clearQ))
    (hdate : (evalExpr (cbs (k + 3)) s.w.types (acPlEnv a old false) dateE).exec (s.withSP b).enter.clearQ = (.ok (.ts dt), (s.withSP b).enter.clearQ))
    (hr1 : revE ≠ .dflt) (hr2 : dateE ≠ .dflt) :
    (runTrigger (k + 10) fname t (some a.vals) (old.map (·.vals))).exec s =
      (.ok (some a.vals), ((s.withSeqs (seqsSet (amSeqFull b) sq.next s.w.seqs)).bump 2).withTable
        ((amT b (nr + 1)).withRows (newVer s.xid s.nextCid nr (amVals (amOf a rv dt sq.next)) :: rows))) := by
  have hs1 : TxState (s.withSP b).enter.clearQ := ((hs.withSP b).enter (by simp; omega)).clearQ
  have hst1 : AmState (s.withSP b).enter.clearQ b nr rows sq := ⟨hst.table, hst.seq, hst.all, hst.lo, hst.hi⟩
  have hins := exec_execStmt_amInsert k b a old false revE dateE rv dt nr rows sq (s.withSP b).enter.clearQ hs1 rfl hsch hst1 hrev hdate hr1 hr2
  have hrun := exec_runStmt_noAfter' (k + 5) _ _ (s.withSP b).enter _ _ hins rfl
  have hcmd := exec_withNewCid _ (s.withSP b) _ _ hrun
  have henv : ∀ fd : Bool,
      ({ vars := [], tcols := t.cols, new := some a.vals, old := old.map (·.vals), found := fd } : PlSt).env = acPlEnv a old fd := by
    intro fd
    cases old <;> simp [PlSt.env, acPlEnv, htc, acCols]
  rw [runTrigger]
  simp only [exec_bind, exec_getW, hf, exec_typeEnv]
  rw [exec_withSearchPath (schemaOf fname) _ s (((s.withSP b).withSeqs (seqsSet (amSeqFull b) sq.next s.w.seqs)).bump 2 |>.withTable
    ((amT b (nr + 1)).withRows (newVer s.xid s.nextCid nr (amVals (amOf a rv dt sq.next)) :: rows))) (some a.vals)]
  · rfl
  · rw [hschema]
    simp only [hdecls, List.foldlM_nil, exec_bind, exec_pure, hbody]
    rw [execPl]
    simp only [exec_bind]
    rw [execPlStmt]
    simp only [exec_bind, exec_typeEnv, withSP_w, henv]
    simp only [hcmd, List.isEmpty_nil, if_true, exec_bind, exec_pure]
    rw [execPl]
    simp only [exec_bind]
    rw [execPlStmt]
    simp only [exec_bind, exec_typeEnv, henv, exec_ret_new_ac, exec_pure]
    rfl

end Ledger.Sql
