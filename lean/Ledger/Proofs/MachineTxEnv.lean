import Ledger.Proofs.MachineTx
import Std.Data.String.ToNat

/-! C25: the variables `va{i}` / `vm{j}` that `TxToScriptData` generates resolve to the
    accounts / monetaries they were generated for (`txEnvOK`), whenever the run gets
    past variable resolution. String formatting / parsing round trips. -/
namespace Ledger.Machine

/-! ### Names -/

theorem accVar_inj {i j : Nat} (h : accVar i = accVar j) : i = j := by
  unfold accVar at h
  exact Nat.repr_injective ((String.append_right_inj "va").mp h)

theorem monVar_inj {i j : Nat} (h : monVar i = monVar j) : i = j := by
  unfold monVar at h
  exact Nat.repr_injective ((String.append_right_inj "vm").mp h)

theorem accVar_ne_monVar (i j : Nat) : accVar i ≠ monVar j := by
  intro h
  have := congrArg String.toList h
  simp only [accVar, monVar, String.toList_append] at this
  have e1 : "va".toList = ['v', 'a'] := rfl
  have e2 : "vm".toList = ['v', 'm'] := rfl
  rw [e1, e2] at this
  simp at this

/-! ### Numbers -/

theorem isDigit_of_Char_isDigit {c : Char} (h : c.isDigit = true) : isDigit c = true := by
  simp only [Char.isDigit, Bool.and_eq_true, decide_eq_true_eq] at h
  simp only [isDigit, Bool.and_eq_true, decide_eq_true_eq]
  exact ⟨h.1, h.2⟩

theorem digitsVal_eq_ofDigitChars (l : List Char) : digitsVal l = Nat.ofDigitChars 10 l 0 := by
  rw [Nat.ofDigitChars_eq_foldl]
  unfold digitsVal
  congr 1
  funext acc c
  rw [Nat.mul_comm]

theorem digitsVal_repr (n : Nat) : digitsVal (Nat.repr n).toList = n := by
  rw [Nat.toList_repr, digitsVal_eq_ofDigitChars, Nat.ofDigitChars_ten_toDigits]

theorem repr_allDigits (n : Nat) : allDigits (Nat.repr n).toList = true := by
  rw [Nat.toList_repr]
  simp only [allDigits, Bool.and_eq_true, Bool.not_eq_true', List.all_eq_true]
  refine ⟨?_, fun c hc => isDigit_of_Char_isDigit (Nat.isDigit_of_mem_toDigits (by omega) (by omega) hc)⟩
  cases h : Nat.toDigits 10 n with
  | nil => exact absurd h Nat.toDigits_ne_nil
  | cons _ _ => rfl

theorem allDigits_head {c : Char} {cs : List Char} (h : allDigits (c :: cs) = true) :
    c ≠ '-' ∧ c ≠ '+' ∧ c ≠ ' ' := by
  simp only [allDigits, List.all_cons, Bool.and_eq_true] at h
  have hd := h.2.1
  simp only [isDigit, Bool.and_eq_true, decide_eq_true_eq] at hd
  refine ⟨?_, ?_, ?_⟩ <;> (intro hc; subst hc; revert hd; decide)

theorem parseDigitsInt_repr (n : Nat) :
    parseDigitsInt false (Nat.repr n).toList = some (n : Int) ∧
    parseDigitsInt true (Nat.repr n).toList = some (-(n : Int)) := by
  have ha := repr_allDigits n
  have hv := digitsVal_repr n
  constructor <;> simp only [parseDigitsInt, ha, digitsNat, hv] <;> simp

theorem parseBigInt10_nat (n : Nat) : parseBigInt10 (Nat.repr n).toList = some (n : Int) := by
  have ha := repr_allDigits n
  have hp := (parseDigitsInt_repr n).1
  cases hl : (Nat.repr n).toList with
  | nil => rw [hl] at ha; simp [allDigits] at ha
  | cons c cs =>
    rw [hl] at ha hp
    obtain ⟨h1, h2, _⟩ := allDigits_head ha
    unfold parseBigInt10
    split
    · rename_i r heq; cases heq; exact absurd rfl h1
    · rename_i r heq; cases heq; exact absurd rfl h2
    · exact hp

theorem parseBigInt10_int (v : Int) : parseBigInt10 (toString v).toList = some v := by
  cases v with
  | ofNat n => exact parseBigInt10_nat n
  | negSucc m =>
    have e : (toString (Int.negSucc m)).toList = '-' :: (Nat.repr (m + 1)).toList := by
      show ("-" ++ Nat.repr (m + 1)).toList = _
      rw [String.toList_append]; rfl
    rw [e]
    simp only [parseBigInt10, (parseDigitsInt_repr (m + 1)).2]
    rfl

theorem parseDigitsInt_noSpace {neg : Bool} {ds : List Char} {v : Int}
    (h : parseDigitsInt neg ds = some v) : ' ' ∉ ds := by
  unfold parseDigitsInt at h
  split at h
  · cases h
  · rename_i hd
    intro hm
    have hd' : allDigits ds = true := by simpa using hd
    simp only [allDigits, Bool.and_eq_true, List.all_eq_true] at hd'
    have := hd'.2 ' ' hm
    revert this; decide

theorem parseBigInt10_noSpace {cs : List Char} {v : Int} (h : parseBigInt10 cs = some v) : ' ' ∉ cs := by
  unfold parseBigInt10 at h
  split at h
  · intro hm
    rcases List.mem_cons.mp hm with hm | hm
    · revert hm; decide
    · exact parseDigitsInt_noSpace h hm
  · intro hm
    rcases List.mem_cons.mp hm with hm | hm
    · revert hm; decide
    · exact parseDigitsInt_noSpace h hm
  · exact parseDigitsInt_noSpace h

/-! ### `strings.SplitN(data, " ", 2)` -/

theorem splitFirstSpace_append (a d : List Char) :
    ∀ x y, splitFirstSpace (a ++ ' ' :: d) = some (x, y) → (x = a ∧ y = d) ∨ ' ' ∈ y := by
  induction a with
  | nil =>
    intro x y h
    simp only [List.nil_append, splitFirstSpace, if_true] at h
    cases h; exact Or.inl ⟨rfl, rfl⟩
  | cons c cs ih =>
    intro x y h
    simp only [List.cons_append, splitFirstSpace] at h
    split at h
    · cases h
      right
      simp
    · cases hs' : splitFirstSpace (cs ++ ' ' :: d) with
      | none => simp [hs'] at h
      | some ab =>
        obtain ⟨a', b'⟩ := ab
        simp only [hs'] at h
        have i0 := ih a' b' hs'
        cases h
        rcases i0 with ⟨rfl, rfl⟩ | hm
        · exact Or.inl ⟨rfl, rfl⟩
        · exact Or.inr hm

/-- The value `TxToScriptData` writes for a monetary variable parses back to it. -/
theorem parseValue_monetary_roundtrip {asset : String} {amt : Int} {v : Value}
    (h : parseValue cfg .monetary (asset ++ " " ++ toString amt) = .val v) :
    v = .monetary asset (some amt) := by
  unfold parseValue at h
  simp only at h
  have e : (asset ++ " " ++ toString amt).toList = asset.toList ++ ' ' :: (toString amt).toList := by
    rw [String.toList_append, String.toList_append]
    have : " ".toList = [' '] := rfl
    rw [this]; simp
  rw [e] at h
  split at h
  · cases h
  · rename_i a y hs
    split at h
    · cases h
    · rename_i w hw
      rcases splitFirstSpace_append _ _ a y hs with ⟨rfl, rfl⟩ | hm
      · rw [parseBigInt10_int] at hw
        cases hw
        split at h
        · cases h
        · split at h
          · cases h
          · cases h
            simp [String.ofList_toList]
      · exact absurd hm (parseBigInt10_noSpace hw)

theorem parseValue_account_roundtrip {a : String} {v : Value}
    (h : parseValue cfg .account a = .val v) : v = .account a := by
  unfold parseValue at h
  simp only at h
  split at h <;> cases h
  rfl

/-! ### Sorting -/

theorem insertSorted_perm (x : String) (l : List String) : (insertSorted x l).Perm (x :: l) := by
  induction l with
  | nil => exact List.Perm.refl _
  | cons y ys ih =>
    simp only [insertSorted]
    split
    · exact List.Perm.refl _
    · exact (List.Perm.cons y ih).trans (List.Perm.swap x y ys)

theorem sortStrings_perm (l : List String) : (sortStrings l).Perm l := by
  induction l with
  | nil => exact List.Perm.refl _
  | cons x xs ih =>
    simp only [sortStrings, List.foldr_cons]
    exact (insertSorted_perm x _).trans (List.Perm.cons x ih)

/-! ### Scripts whose variables are all plain -/

def AllPlain (ds : List VarDecl) : Prop := ∀ d ∈ ds, d.orig = .none ∨ False

theorem isPlainDecl {d : VarDecl} (h : d.orig = Origin.none) : isPlain d = true := by
  simp [isPlain, h]

/-- `parsePlainVars` on plain declarations: one entry per declaration, parsed from the
    caller's value. -/
theorem parsePlainVars_lookup (cfg : Cfg) (vars : List (String × String)) :
    (ds : List VarDecl) → (out : List (String × Parsed)) → parsePlainVars cfg vars ds = .ok out →
    ∀ name p, out.lookup name = some p →
      ∃ d ∈ ds, d.name = name ∧ ∃ data, vars.lookup name = some data ∧ p = parseValue cfg d.ty data
  | [], out, h => by
    simp only [parsePlainVars] at h; cases h
    intro name p hl; simp at hl
  | d :: ds, out, h => by
    simp only [parsePlainVars] at h
    split at h
    · split at h
      · cases h
      · rename_i data hdata
        split at h
        · cases h
        · rename_i p0 hp0 _
          split at h
          · cases h
          · rename_i r hr
            cases h
            intro name p hl
            simp only [List.lookup] at hl
            split at hl
            · rename_i heq
              cases hl
              have hn : name = d.name := by simpa using heq
              subst hn
              exact ⟨d, by simp, rfl, data, hdata, rfl⟩
            · obtain ⟨d', hd', r1, r2⟩ := parsePlainVars_lookup cfg vars ds r hr name p hl
              exact ⟨d', by simp [hd'], r1, r2⟩
    · intro name p hl
      obtain ⟨d', hd', r1, r2⟩ := parsePlainVars_lookup cfg vars ds out h name p hl
      exact ⟨d', by simp [hd'], r1, r2⟩

/-- `resolveVars` on plain declarations only appends (name, parsed value) pairs. -/
theorem resolveVars_plain (cfg : Cfg) (inp : Input) (plain : List (String × Parsed)) :
    (ds : List VarDecl) → (∀ d ∈ ds, d.orig = Origin.none) → (env : Env) → (bvs : List BalVar) →
    (env' : Env) → (bvs' : List BalVar) → resolveVars cfg inp plain ds env bvs = .ok (env', bvs') →
    bvs' = bvs ∧ ∃ added : Env, env' = env ++ added ∧ added.map (·.1) = ds.map (·.name) ∧
      ∀ kv ∈ added, plain.lookup kv.1 = some (.val kv.2)
  | [], _, env, bvs, env', bvs', h => by
    simp only [resolveVars] at h; cases h
    exact ⟨rfl, [], by simp, rfl, by intro kv hkv; cases hkv⟩
  | d :: ds, hp, env, bvs, env', bvs', h => by
    have hd : d.orig = Origin.none := hp d (by simp)
    simp only [resolveVars, hd] at h
    split at h
    · rename_i v hl
      obtain ⟨r1, added, r2, r3, r4⟩ := resolveVars_plain cfg inp plain ds
        (fun x hx => hp x (by simp [hx])) _ bvs env' bvs' h
      refine ⟨r1, (d.name, v) :: added, by rw [r2]; simp, by simp [r3], ?_⟩
      intro kv hkv
      rcases List.mem_cons.mp hkv with rfl | hkv
      · exact hl
      · exact r4 kv hkv
    · cases h
    · cases h

theorem lookup_of_nodup {α : Type} (l : List (String × α)) (hn : (l.map (·.1)).Nodup)
    (kv : String × α) (h : kv ∈ l) : l.lookup kv.1 = some kv.2 := by
  induction l with
  | nil => cases h
  | cons x xs ih =>
    simp only [List.map_cons, List.nodup_cons] at hn
    simp only [List.lookup]
    rcases List.mem_cons.mp h with rfl | hm
    · simp
    · have hne : ¬ (kv.1 == x.1) = true := by
        intro heq
        have : kv.1 = x.1 := by simpa using heq
        exact hn.1 (by rw [← this]; exact List.mem_map.mpr ⟨kv, hm, rfl⟩)
      simp only [hne]
      exact ih hn.2 hm

theorem decl_unique : (ds : List VarDecl) → (ds.map (·.name)).Nodup → ∀ d d', d ∈ ds → d' ∈ ds →
    d'.name = d.name → d' = d
  | [], _, d, d', hd, _, _ => by cases hd
  | x :: xs, hn, d, d', hd, hd', h1 => by
    simp only [List.map_cons, List.nodup_cons] at hn
    rcases List.mem_cons.mp hd with rfl | hd1 <;> rcases List.mem_cons.mp hd' with rfl | hd2
    · rfl
    · exact absurd (List.mem_map.mpr ⟨d', hd2, h1⟩) hn.1
    · exact absurd (List.mem_map.mpr ⟨d, hd1, h1.symm⟩) hn.1
    · exact decl_unique xs hn.2 d d' hd1 hd2 h1

/-- For a script whose declarations are all plain with distinct names: after a
    successful `prepare`, every declared variable is bound to the value parsed from the
    caller's string. -/
theorem prepare_plain {cfg : Cfg} {s : Script} {inp : Input} {env : Env} {bal : Balances}
    {pairs : List (String × String)} (h : prepare cfg s inp = .ok (env, bal, pairs))
    (hp : ∀ d ∈ s.vars, d.orig = Origin.none) (hn : (s.vars.map (·.name)).Nodup) :
    ∀ d ∈ s.vars, ∃ data v, inp.vars.lookup d.name = some data ∧
      parseValue cfg d.ty data = .val v ∧ env.lookup d.name = some v := by
  unfold prepare at h
  split at h
  · cases h
  · rename_i plain hsv
    have hplain : ∀ name p, plain.lookup name = some p →
        ∃ d ∈ s.vars, d.name = name ∧ ∃ data, inp.vars.lookup name = some data ∧ p = parseValue cfg d.ty data := by
      unfold setVars at hsv
      split at hsv
      · cases hsv
      · rename_i ps hps
        dsimp only at hsv
        split at hsv
        · cases hsv
        · cases hsv
          exact parsePlainVars_lookup cfg inp.vars s.vars _ hps
    split at h
    · cases h
    · rename_i env0 bvs hrv
      obtain ⟨hb, added, he, hnames, hvals⟩ := resolveVars_plain cfg inp plain s.vars hp [] [] env0 bvs hrv
      subst hb
      simp only [List.nil_append] at he
      unfold initBalances at h
      split at h
      · cases h
      · split at h
        · cases h
        · dsimp only at h
          have hlive : (if cfg.balanceVarsPerAddress = true then liveBalVars [] else ([] : List BalVar)) = [] := by
            split <;> rfl
          rw [hlive] at h
          simp only [List.any_nil, Bool.false_eq_true, if_false, List.foldl_nil] at h
          cases h
          intro d hd
          -- the entry of `added` for d
          have hmem : d.name ∈ added.map (·.1) := by rw [hnames]; exact List.mem_map.mpr ⟨d, hd, rfl⟩
          obtain ⟨kv, hkv, hk1⟩ := List.mem_map.mp hmem
          have hl := lookup_of_nodup added (by rw [hnames]; exact hn) kv hkv
          obtain ⟨d', hd', hname, data, hdata, hpv⟩ := hplain kv.1 _ (hvals kv hkv)
          -- d' = d by distinct names
          have hdd : d' = d := decl_unique s.vars hn d d' hd hd' (by rw [hname, hk1])
          subst hdd
          refine ⟨data, kv.2, by rw [← hk1]; exact hdata, by rw [← hpv], by rw [he, ← hk1]; exact hl⟩

end Ledger.Machine

namespace Ledger.Machine

/-! ### `txVars` lookups and indexes -/

theorem lookup_zipIdx_map {α : Type} (f : Nat → String) (hf : ∀ i j, f i = f j → i = j) (g : α → String) :
    (l : List α) → (n k : Nat) → (h : k < l.length) →
    ((l.zipIdx n).map (fun x => (f x.2, g x.1))).lookup (f (n + k)) = some (g l[k])
  | [], _, _, h => by simp at h
  | x :: xs, n, 0, _ => by simp [List.zipIdx, List.lookup]
  | x :: xs, n, k + 1, h => by
    simp only [List.zipIdx_cons, List.map_cons, List.lookup]
    have hne : ¬ (f (n + (k + 1)) == f n) = true := by
      intro heq
      have := hf (n + (k + 1)) n (by simpa using heq)
      omega
    simp only [hne]
    have := lookup_zipIdx_map f hf g xs (n + 1) k (by simpa using h)
    rw [show n + 1 + k = n + (k + 1) by omega] at this
    simpa using this

theorem lookup_zipIdx_map_none {α : Type} (f : Nat → String) (g : α → String) (key : String)
    (hk : ∀ i, f i ≠ key) : (l : List α) → (n : Nat) →
    ((l.zipIdx n).map (fun x => (f x.2, g x.1))).lookup key = none
  | [], _ => by simp
  | x :: xs, n => by
    simp only [List.zipIdx_cons, List.map_cons, List.lookup]
    have hne : ¬ (key == f n) = true := by
      intro heq
      have e : key = f n := by simpa using heq
      exact hk n e.symm
    simp only [hne]
    exact lookup_zipIdx_map_none f g key hk xs (n + 1)

theorem lookup_append_left {α : Type} (a b : List (String × α)) (k : String) (v : α)
    (h : a.lookup k = some v) : (a ++ b).lookup k = some v := by
  induction a with
  | nil => simp at h
  | cons x xs ih =>
    simp only [List.cons_append, List.lookup] at h ⊢
    split
    · rename_i heq; simp only [heq] at h; exact h
    · rename_i hne; simp only [hne] at h; exact ih h

theorem lookup_append_right {α : Type} (a b : List (String × α)) (k : String)
    (h : a.lookup k = none) : (a ++ b).lookup k = b.lookup k := by
  induction a with
  | nil => rfl
  | cons x xs ih =>
    simp only [List.cons_append, List.lookup] at h ⊢
    split
    · rename_i heq; simp only [heq] at h; cases h
    · rename_i hne; simp only [hne] at h; exact ih h

theorem txVars_acc (ps : List TxPosting) (k : Nat) (h : k < (txAccounts ps []).length) :
    (txVars ps).lookup (accVar k) = some (txAccounts ps [])[k] := by
  unfold txVars
  apply lookup_append_left
  have := lookup_zipIdx_map accVar (fun i j => accVar_inj) (fun a : String => a) (txAccounts ps []) 0 k h
  simpa [List.zipIdx] using this

theorem txVars_mon (ps : List TxPosting) (j : Nat) (h : j < (txMons ps []).length) :
    (txVars ps).lookup (monVar j) =
      some ((txMons ps [])[j].1 ++ " " ++ toString (txMons ps [])[j].2) := by
  unfold txVars
  rw [lookup_append_right]
  · have := lookup_zipIdx_map monVar (fun i j => monVar_inj)
      (fun m : String × Int => m.1 ++ " " ++ toString m.2) (txMons ps []) 0 j h
    simpa [List.zipIdx] using this
  · have := lookup_zipIdx_map_none accVar (fun a : String => a) (monVar j)
      (fun i => accVar_ne_monVar i j) (txAccounts ps []) 0
    simpa [List.zipIdx] using this

theorem mem_insertNew (xs : List String) (x y : String) : y ∈ insertNew xs x ↔ y ∈ xs ∨ y = x := by
  unfold insertNew
  split
  · rename_i hc
    have : x ∈ xs := by simpa using hc
    constructor
    · exact Or.inl
    · rintro (h | rfl)
      · exact h
      · exact this
  · simp

theorem txAccounts_mono (ps : List TxPosting) (acc : List String) (a : String) (h : a ∈ acc) :
    a ∈ txAccounts ps acc := by
  induction ps generalizing acc with
  | nil => exact h
  | cons p ps ih =>
    simp only [txAccounts]
    apply ih
    split <;> split <;> simp [mem_insertNew, h]

theorem txAccounts_mem (ps : List TxPosting) (acc : List String) (p : TxPosting) (hp : p ∈ ps) :
    (p.source ≠ "world" → p.source ∈ txAccounts ps acc) ∧
    (p.destination ≠ "world" → p.destination ∈ txAccounts ps acc) := by
  induction ps generalizing acc with
  | nil => cases hp
  | cons q qs ih =>
    simp only [txAccounts]
    rcases List.mem_cons.mp hp with rfl | hq
    · constructor
      · intro hs
        apply txAccounts_mono
        simp only [hs, if_false]
        split <;> simp [mem_insertNew]
      · intro hd
        apply txAccounts_mono
        simp only [hd, if_false]
        simp [mem_insertNew]
    · exact ih _ hq

theorem txMons_mono (ps : List TxPosting) (acc : List (String × Int)) (m : String × Int) (h : m ∈ acc) :
    m ∈ txMons ps acc := by
  induction ps generalizing acc with
  | nil => exact h
  | cons p ps ih =>
    simp only [txMons]
    split
    · exact ih acc h
    · exact ih _ (by simp [h])

theorem txMons_mem (ps : List TxPosting) (acc : List (String × Int)) (p : TxPosting) (hp : p ∈ ps) :
    (p.asset, p.amount) ∈ txMons ps acc := by
  induction ps generalizing acc with
  | nil => cases hp
  | cons q qs ih =>
    simp only [txMons]
    rcases List.mem_cons.mp hp with rfl | hq
    · split
      · rename_i hany
        apply txMons_mono
        simp only [List.any_eq_true, decide_eq_true_eq] at hany
        obtain ⟨m, hm, h1, h2⟩ := hany
        have : m = (p.asset, p.amount) := by cases m; simp_all
        rw [← this]; exact hm
      · apply txMons_mono; simp
    · split
      · exact ih acc hq
      · exact ih _ hq

theorem indexOfStr_spec (xs : List String) (x : String) (h : x ∈ xs) :
    ∃ hlt : indexOfStr xs x < xs.length, xs[indexOfStr xs x] = x := by
  unfold indexOfStr
  have hlt : List.findIdx (fun y => decide (y = x)) xs < xs.length :=
    List.findIdx_lt_length.mpr ⟨x, h, by simp⟩
  refine ⟨hlt, ?_⟩
  have := List.findIdx_getElem (p := fun y => decide (y = x)) (xs := xs) (w := hlt)
  simpa using this

theorem indexOfMon_spec (xs : List (String × Int)) (a : String) (v : Int) (h : (a, v) ∈ xs) :
    ∃ hlt : indexOfMon xs a v < xs.length, xs[indexOfMon xs a v] = (a, v) := by
  unfold indexOfMon
  have hlt : List.findIdx (fun m => decide (m.1 = a ∧ m.2 = v)) xs < xs.length :=
    List.findIdx_lt_length.mpr ⟨(a, v), h, by simp⟩
  refine ⟨hlt, ?_⟩
  have := List.findIdx_getElem (p := fun m => decide (m.1 = a ∧ m.2 = v)) (xs := xs) (w := hlt)
  simp only [decide_eq_true_eq] at this
  exact Prod.ext this.1 this.2

/-! ### Declarations of the generated script -/

theorem txScript_plain (ps : List TxPosting) (force : Bool) :
    ∀ d ∈ (txScript ps force).vars, d.orig = Origin.none := by
  intro d hd
  simp only [txScript, List.mem_append, List.mem_map] at hd
  rcases hd with ⟨n, _, rfl⟩ | ⟨n, _, rfl⟩ <;> rfl

theorem txScript_names (ps : List TxPosting) (force : Bool) :
    ((txScript ps force).vars.map (·.name)).Perm
      ((List.range (txAccounts ps []).length).map accVar ++ (List.range (txMons ps []).length).map monVar) := by
  simp only [txScript, List.map_append, List.map_map]
  have e1 : ((fun x : VarDecl => x.name) ∘ fun n => (⟨.account, n, .none⟩ : VarDecl)) = id := by funext n; rfl
  have e2 : ((fun x : VarDecl => x.name) ∘ fun n => (⟨.monetary, n, .none⟩ : VarDecl)) = id := by funext n; rfl
  rw [e1, e2, List.map_id, List.map_id]
  exact List.Perm.append (sortStrings_perm _) (sortStrings_perm _)

theorem txScript_nodup (ps : List TxPosting) (force : Bool) :
    ((txScript ps force).vars.map (·.name)).Nodup := by
  rw [(txScript_names ps force).nodup_iff]
  rw [List.nodup_append]
  refine ⟨?_, ?_, ?_⟩
  · exact List.Pairwise.map accVar (fun a b hab h => hab (accVar_inj h)) List.nodup_range
  · exact List.Pairwise.map monVar (fun a b hab h => hab (monVar_inj h)) List.nodup_range
  · intro a ha b hb hab
    simp only [List.mem_map] at ha hb
    obtain ⟨i, _, rfl⟩ := ha
    obtain ⟨j, _, rfl⟩ := hb
    exact accVar_ne_monVar i j hab

theorem txScript_accDecl (ps : List TxPosting) (force : Bool) (k : Nat) (h : k < (txAccounts ps []).length) :
    (⟨.account, accVar k, .none⟩ : VarDecl) ∈ (txScript ps force).vars := by
  simp only [txScript, List.mem_append, List.mem_map]
  left
  refine ⟨accVar k, ?_, rfl⟩
  rw [(sortStrings_perm _).mem_iff]
  exact List.mem_map.mpr ⟨k, List.mem_range.mpr h, rfl⟩

theorem txScript_monDecl (ps : List TxPosting) (force : Bool) (j : Nat) (h : j < (txMons ps []).length) :
    (⟨.monetary, monVar j, .none⟩ : VarDecl) ∈ (txScript ps force).vars := by
  simp only [txScript, List.mem_append, List.mem_map]
  right
  refine ⟨monVar j, ?_, rfl⟩
  rw [(sortStrings_perm _).mem_iff]
  exact List.mem_map.mpr ⟨j, List.mem_range.mpr h, rfl⟩

/-- `txEnvOK` in general: once `prepare` succeeds on the generated script with the
    generated variables, every `va{i}` / `vm{j}` is bound to the account / monetary it was
    generated for. -/
theorem txEnvOK_of_prepare {cfg : Cfg} {ps : List TxPosting} {force : Bool} {inp : Input}
    (hv : inp.vars = txVars ps) {env : Env} {bal : Balances} {pairs : List (String × String)}
    (h : prepare cfg (txScript ps force) inp = .ok (env, bal, pairs)) :
    txEnvOK env (txAccounts ps []) (txMons ps []) ps = true := by
  have hplain := prepare_plain h (txScript_plain ps force) (txScript_nodup ps force)
  have hacc : ∀ a, a ∈ txAccounts ps [] →
      evalExpr env (.var (accVar (indexOfStr (txAccounts ps []) a))) = .ok (.account a) := by
    intro a ha
    obtain ⟨hlt, hget⟩ := indexOfStr_spec _ a ha
    obtain ⟨data, v, h1, h2, h3⟩ := hplain _ (txScript_accDecl ps force _ hlt)
    simp only at h1 h2 h3
    rw [hv, txVars_acc ps _ hlt] at h1
    cases h1
    rw [parseValue_account_roundtrip h2, hget] at h3
    simp [evalExpr, h3]
  have hmon : ∀ a v, (a, v) ∈ txMons ps [] →
      evalExpr env (.var (monVar (indexOfMon (txMons ps []) a v))) = .ok (.monetary a (some v)) := by
    intro a v hm
    obtain ⟨hlt, hget⟩ := indexOfMon_spec _ a v hm
    obtain ⟨data, w, h1, h2, h3⟩ := hplain _ (txScript_monDecl ps force _ hlt)
    simp only at h1 h2 h3
    rw [hv, txVars_mon ps _ hlt] at h1
    cases h1
    rw [hget] at h2
    rw [parseValue_monetary_roundtrip h2] at h3
    simp [evalExpr, h3]
  have key : ∀ sub : List TxPosting, (∀ p ∈ sub, p ∈ ps) →
      txEnvOK env (txAccounts ps []) (txMons ps []) sub = true := by
    intro sub
    induction sub with
    | nil => intro _; rfl
    | cons p rest ih =>
      intro hsub
      have hp := hsub p (by simp)
      obtain ⟨ms, md⟩ := txAccounts_mem ps [] p hp
      simp only [txEnvOK, Bool.and_eq_true, Bool.or_eq_true, decide_eq_true_eq]
      refine ⟨⟨⟨?_, ?_⟩, ?_⟩, ih (fun q hq => hsub q (by simp [hq]))⟩
      · rw [hmon p.asset p.amount (txMons_mem ps [] p hp)]; simp
      · by_cases hw : p.source = "world"
        · exact Or.inl hw
        · right; rw [hacc p.source (ms hw)]; simp
      · by_cases hw : p.destination = "world"
        · exact Or.inl hw
        · right; rw [hacc p.destination (md hw)]; simp
  exact key ps (fun p hp => hp)

end Ledger.Machine
