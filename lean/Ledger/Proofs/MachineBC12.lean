import Ledger.Proofs.MachineBC10

/-! Stage (f), part 12: all sources (`max`, in-order) by mutual recursion. -/
namespace Ledger.Machine

/-! ### OP_FUNDING_ASSEMBLE of `n` fundings -/

theorem popFundings_all (asset : String) : (fs : List Funding) → (rest : Stack) →
    popFundings asset fs.length (fs.map SVal.funding ++ rest) =
      if fs.all (fun f => f.asset = asset) then .ok (fs, rest) else .error (.run "exec" "assemble-asset")
  | [], rest => by simp [popFundings]
  | f :: fs, rest => by
    simp only [List.length_cons, List.map_cons, List.cons_append, popFundings, popFundings_all asset fs rest]
    by_cases h1 : f.asset = asset
    · by_cases h2 : (fs.all fun f => decide (f.asset = asset)) = true
      · simp [h1, h2]
      · simp only [Bool.not_eq_true] at h2
        simp [h1, h2]
    · simp [h1]

theorem concatAll_nil : concatAll [] = [] := rfl

theorem opK_ASSEMBLE (fs : List Funding) (rest : Stack) (st : State) :
    opK OP_FUNDING_ASSEMBLE (.val (.number fs.length) :: (fs.reverse.map SVal.funding ++ rest)) st =
      match assemble fs with
      | .error e => .error e
      | .ok f => .ok (.funding f :: rest, st) := by
  simp only [opK, step, OP_FUNDING_ASSEMBLE, OP_TAKE_MAX, OP_TAKE, OP_TAKE_ALWAYS, OP_TAKE_ALL, OP_MAKE_ALLOTMENT,
    OP_MONETARY_SUB, OP_MONETARY_ADD, OP_MONETARY_NEW, OP_ASSET, OP_BUMP, OP_DELETE, OP_IADD, OP_ISUB, OP_PRINT,
    OP_FAIL, popNumber]
  simp only [Nat.reduceEqDiff, if_false, if_true, Int.toNat_natCast]
  rcases List.eq_nil_or_concat fs with rfl | ⟨init, l, rfl⟩
  · simp [assemble]
  · have hlen : (init ++ [l]).length - 1 = init.reverse.length := by simp
    simp only [List.concat_eq_append]
    simp only [List.reverse_append, List.reverse_cons, List.reverse_nil, List.nil_append, List.singleton_append,
      List.map_cons, List.cons_append, popFunding, hlen, popFundings_all, assemble, List.getLast?_append,
      List.getLast?_singleton, Option.some_or]
    simp only [List.length_append, List.length_cons, List.length_nil, Nat.zero_add, Nat.add_eq_zero_iff,
      Nat.succ_ne_zero, and_false, if_false, List.all_reverse, List.all_append, List.all_cons, List.all_nil,
      decide_true, Bool.and_true]
    by_cases h : (init.all fun f => decide (f.asset = l.asset)) = true
    · simp [h]
    · simp only [Bool.not_eq_true] at h
      simp [h]

/-! ### The `max` step -/

/-- `[monetary, funding, …] ↦ [funding', …]` by `takeMaxStep`. -/
def maxK (env : Env) (fb : Option Expr) : Kl := fun stk st =>
  match stk with
  | .val (.monetary a v) :: .funding F :: rest =>
    match takeMaxStep env fb F (a, v) st.bal with
    | .error e => .error e
    | .ok (r, b) => .ok (.funding r :: rest, { st with bal := b })
  | _ => .error (.fault "stack")

theorem sim_max_none (ds : Decls) (env : Env) (C : CS → Prop) (hC : Stable C) :
    Sim ds env C (seqA [emitOp OP_TAKE_MAX, bump 1, emitOp OP_REPAY, seqA [bump 1, emitOp OP_DELETE]])
      MonFunding (maxK env none) := by
  have h := Sim.seq hC (sim_emitOp ds env C OP_TAKE_MAX)
    (Sim.seq hC (sim_bump1 ds env C hC)
    (Sim.seq hC (sim_emitOp ds env C OP_REPAY)
    (Sim.single hC (Sim.seq hC (sim_bump1 ds env C hC) (Sim.single hC (sim_emitOp ds env C OP_DELETE))))))
  refine (h.weaken (fun _ _ => trivial)).congr ?_
  rintro stk st ⟨c, v, F, rest, rfl⟩
  simp only [Kl.comp, opK_TAKE_MAX, maxK, takeMaxStep]
  cases needAmt v with
  | error e => rfl
  | ok amt =>
    simp only
    by_cases hneg : amt < 0
    · simp [hneg]
    · by_cases hfa : F.asset = c
      · simp [hneg, hfa, bumpK, opK_REPAY, opK_DELETE_val]
      · simp [hneg, hfa]

theorem sim_max_some (ds : Decls) (env : Env) {a : Nat} {e : Expr} {acc : String}
    (hacc : evalAccount env e = .ok acc) :
    Sim ds env (AddrVal env a (.account acc))
      (seqA [emitOp OP_TAKE_MAX, bump 1, emitOp OP_REPAY,
        seqA [emitPush a, bump 2, emitOp OP_TAKE_ALWAYS, pushInteger 2, emitOp OP_FUNDING_ASSEMBLE]])
      MonFunding (maxK env (some e)) := by
  have hC := AddrVal.stable env a (.account acc)
  have h := Sim.seq hC (sim_emitOp ds env _ OP_TAKE_MAX)
    (Sim.seq hC (sim_bump1 ds env _ hC)
    (Sim.seq hC (sim_emitOp ds env _ OP_REPAY)
    (Sim.single hC
    (Sim.seq hC (sim_emitPush ds env a (.account acc))
    (Sim.seq hC (sim_bump2 ds env _ hC)
    (Sim.seq hC (sim_emitOp ds env _ OP_TAKE_ALWAYS)
    (Sim.seq hC (sim_pushInteger ds env _ 2)
    (Sim.single hC (sim_emitOp ds env _ OP_FUNDING_ASSEMBLE)))))))))
  refine (h.weaken (fun _ _ => trivial)).congr ?_
  rintro stk st ⟨c, v, F, rest, rfl⟩
  simp only [Kl.comp, opK_TAKE_MAX, maxK, takeMaxStep, hacc]
  cases needAmt v with
  | error e => rfl
  | ok amt =>
    simp only
    by_cases hneg : amt < 0
    · simp [hneg]
    · by_cases hfa : F.asset = c
      · simp [hneg, hfa, bumpK, opK_REPAY, pushK, opK_TAKE_ALWAYS, needAmt, opK_ASSEMBLE2]
      · simp [hneg, hfa]

theorem maxK_post {env : Env} {fbE : Option Expr} {stk s1 : Stack} {st t1 : State}
    (h : maxK env fbE stk st = .ok (s1, t1)) : FundingTop s1 := by
  unfold maxK at h
  split at h
  · split at h
    · cases h
    · cases h; exact ⟨_, _, rfl⟩
  · cases h

/-! ### Source lists -/

/-- Stack effect of a source list: one funding per source, the last on top. -/
def srcsK (env : Env) (asset : String) (ss : SourceList) : Kl := fun stk st =>
  match evalSources Cfg.fixed env asset ss st.bal with
  | .error e => .error e
  | .ok (fs, b) => .ok (fs.reverse.map SVal.funding ++ stk, { st with bal := b })

def SrcsCode (ds : Decls) (env : Env) (asset : String) (ss : SourceList) (cs cs' : CS) (fb : Option Nat) : Prop :=
  ∃ seg, Ext cs cs' seg ∧ Good ds cs' ∧ FbOK env fb ss.fallback cs' ∧
    ∀ R resv, Final cs' R → Resolved env R resv → ∀ stk st, runSeg resv seg stk st = srcsK env asset ss stk st

theorem evalSources_length (cfg : Cfg) (env : Env) (asset : String) :
    (ss : SourceList) → ∀ b fs b', evalSources cfg env asset ss b = .ok (fs, b') → fs.length = ss.length
  | .nil, b, fs, b', h => by simp only [evalSources] at h; cases h; rfl
  | .cons s rest, b, fs, b', h => by
    simp only [evalSources] at h
    split at h
    · cases h
    · rename_i f b1 _
      split at h
      · cases h
      · rename_i fs1 b2 h2
        cases h
        simp [SourceList.length, evalSources_length cfg env asset rest b1 fs1 _ h2]

mutual
  theorem cSource_gen {ds : Decls} {env : Env} (henv : EnvTyped ds env) (C : CS → Prop) (hC : Stable C)
      {pushAsset : Act} {asset : String} (hpa : Sim ds env C pushAsset T (pushK (.asset asset))) :
      (s : Source) → ∀ (isAll : Bool) (rc : List String × Bool) (cs cs' : CS) (accs : List Nat) (fb : Option Nat),
      checkSource ds isAll s = .ok rc → Good ds cs → C cs →
      cSource pushAsset s cs = .ok ((accs, fb), cs') → SrcCode ds env asset s cs cs' fb
    | .account e od, isAll, rc, cs, cs', accs, fb, hchk, hg, hc, h =>
      cSource_account_ok henv C hC hpa hchk hg hc h
    | .maxed m s, isAll, rc, cs, cs', accs, fb, hchk, hg, hc, h => by
      obtain ⟨⟨r', hr'⟩, htm⟩ := checkSource_maxed_inv hchk
      simp only [cSource] at h
      split at h
      · cases h
      · rename_i accs0 subfb cs1 hsub
        obtain ⟨seg1, e1, g1, hfb, r1⟩ := cSource_gen henv C hC hpa s false r' cs cs1 accs0 subfb hr' hg hc hsub
        have hpost : ∀ stk st s1 t1, FundingTop stk → exprK env m stk st = .ok (s1, t1) → MonFunding s1 := by
          rintro stk st s1 t1 ⟨F, rest, rfl⟩ hx
          rw [exprK_monetary henv htm] at hx
          split at hx
          · cases hx; exact ⟨_, _, _, _, rfl⟩
          · cases hx
        have hfin : ∀ (seg2 : List Instr) (cs2 : CS), Ext cs1 cs2 seg2 →
            (∀ R resv, Final cs2 R → Resolved env R resv → ∀ stk st, FundingTop stk →
              runSeg resv seg2 stk st = ((exprK env m).comp (maxK env s.fallback)) stk st) →
            ∀ R resv, Final cs2 R → Resolved env R resv → ∀ stk st,
              runSeg resv (seg1 ++ seg2) stk st = srcK env asset (.maxed m s) stk st := by
          intro seg2 cs2 e2 r2 R resv hf hr stk st
          rw [runSeg_append, r1 R resv (Final.of_ext e2 hf) hr]
          simp only [srcK, evalSource]
          cases evalSource Cfg.fixed env asset s st.bal with
          | error err => rfl
          | ok p =>
            obtain ⟨F, b1⟩ := p
            simp only
            rw [r2 R resv hf hr _ _ ⟨F, stk, rfl⟩]
            simp only [Kl.comp, exprK_monetary henv htm]
            cases evalMonetary env m with
            | error err => rfl
            | ok mon =>
              simp only [maxK]
              cases takeMaxStep env s.fallback F (mon.1, mon.2) b1 with
              | error err => rfl
              | ok q => rfl
        cases subfb with
        | none =>
          cases hfe : s.fallback with
          | some e => rw [hfe] at hfb; simp [FbOK] at hfb
          | none =>
            rw [hfe] at hfin
            dsimp only at h
            split at h
            · cases h
            · rename_i cs2 hseq
              cases h
              obtain ⟨seg2, e2, g2, r2⟩ := (Sim.cons hC
                ((sim_pushExpr henv C htm).weaken (Q := FundingTop) (fun _ _ => trivial))
                (sim_max_none ds env C hC) hpost).ok cs1 _ g1 (hC cs cs1 seg1 hc e1) hseq
              exact ⟨seg1 ++ seg2, e1.trans e2, g2, by simp [Source.fallback, FbOK], hfin seg2 _ e2 r2⟩
        | some a =>
          cases hfe : s.fallback with
          | none => rw [hfe] at hfb; simp [FbOK] at hfb
          | some e =>
            rw [hfe] at hfb hfin
            obtain ⟨acc, hacc, hav⟩ := hfb
            dsimp only at h
            split at h
            · cases h
            · rename_i cs2 hseq
              cases h
              have hC' := AddrVal.stable env a (.account acc)
              obtain ⟨seg2, e2, g2, r2⟩ := (Sim.cons hC'
                ((sim_pushExpr henv _ htm).weaken (Q := FundingTop) (fun _ _ => trivial))
                (sim_max_some ds env hacc) hpost).ok cs1 _ g1 hav hseq
              exact ⟨seg1 ++ seg2, e1.trans e2, g2, by simp [Source.fallback, FbOK], hfin seg2 _ e2 r2⟩
    | .inorder ss, isAll, rc, cs, cs', accs, fb, hchk, hg, hc, h => by
      simp only [checkSource] at hchk
      simp only [cSource] at h
      split at h
      · cases h
      · rename_i accs0 fb0 cs1 hsub
        obtain ⟨seg1, e1, g1, hfb, r1⟩ := cSources_gen henv C hC hpa ss isAll [] rc cs cs1 accs0 fb0 hchk hg hc hsub
        split at h
        · cases h
        · rename_i cs2 hseq
          cases h
          have hT : Stable (fun _ : CS => True) := Stable.true
          obtain ⟨seg2, e2, g2, r2⟩ := (Sim.seq hT (sim_pushInteger ds env _ ss.length)
            (Sim.single hT (sim_emitOp ds env _ OP_FUNDING_ASSEMBLE))).ok cs1 _ g1 trivial hseq
          refine ⟨seg1 ++ seg2, e1.trans e2, g2, ?_, ?_⟩
          · simp only [Source.fallback]
            exact FbOK.stable env _ _ cs1 _ seg2 hfb e2
          · intro R resv hf hr stk st
            rw [runSeg_append, r1 R resv (Final.of_ext e2 hf) hr]
            simp only [srcsK, srcK, evalSource]
            cases hes : evalSources Cfg.fixed env asset ss st.bal with
            | error err => rfl
            | ok p =>
              obtain ⟨fs, b1⟩ := p
              simp only
              rw [r2 R resv hf hr _ _ trivial]
              have hl := evalSources_length Cfg.fixed env asset ss st.bal fs b1 hes
              simp only [Kl.comp, pushK, ← hl, opK_ASSEMBLE]
              cases assemble fs with
              | error err => rfl
              | ok f => rfl
  theorem cSources_gen {ds : Decls} {env : Env} (henv : EnvTyped ds env) (C : CS → Prop) (hC : Stable C)
      {pushAsset : Act} {asset : String} (hpa : Sim ds env C pushAsset T (pushK (.asset asset))) :
      (ss : SourceList) → ∀ (isAll : Bool) (em : List String) (rc : List String × Bool) (cs cs' : CS)
        (accs : List Nat) (fb : Option Nat),
      checkSources ds isAll ss em = .ok rc → Good ds cs → C cs →
      cSources pushAsset ss cs = .ok ((accs, fb), cs') → SrcsCode ds env asset ss cs cs' fb
    | .nil, isAll, em, rc, cs, cs', accs, fb, hchk, hg, hc, h => by
      simp only [cSources] at h; cases h
      exact ⟨[], Ext.refl _, hg, by simp [SourceList.fallback, FbOK],
        fun R resv _ _ stk st => by simp [runSeg, srcsK, evalSources]⟩
    | .cons s rest, isAll, em, rc, cs, cs', accs, fb, hchk, hg, hc, h => by
      obtain ⟨em1, fbb, hs, hrest⟩ := checkSources_cons_inv hchk
      simp only [cSources] at h
      split at h
      · cases h
      · rename_i a1 f1 cs1 hsub
        obtain ⟨seg1, e1, g1, hfb, r1⟩ := cSource_gen henv C hC hpa s isAll _ cs cs1 a1 f1 hs hg hc hsub
        cases rest with
        | nil =>
          simp only at h; cases h
          refine ⟨seg1, e1, g1, by simpa [SourceList.fallback] using hfb, ?_⟩
          intro R resv hf hr stk st
          rw [r1 R resv hf hr]
          simp only [srcK, srcsK, evalSources]
          cases evalSource Cfg.fixed env asset s st.bal with
          | error err => rfl
          | ok p => rfl
        | cons s2 rest2 =>
          simp only at h
          split at h
          · cases h
          · rename_i a2 f2 cs2 hsub2
            cases h
            rcases hrest with hnil | ⟨r', hr'⟩
            · cases hnil
            · obtain ⟨seg2, e2, g2, hfb2, r2⟩ := cSources_gen henv C hC hpa (.cons s2 rest2) isAll _ r' cs1 _ a2 _
                hr' g1 (hC cs cs1 seg1 hc e1) hsub2
              refine ⟨seg1 ++ seg2, e1.trans e2, g2, by simpa [SourceList.fallback] using hfb2, ?_⟩
              intro R resv hf hr stk st
              rw [runSeg_append, r1 R resv (Final.of_ext e2 hf) hr]
              simp only [srcK, srcsK]
              rw [evalSources]
              cases evalSource Cfg.fixed env asset s st.bal with
              | error err => rfl
              | ok p =>
                obtain ⟨F, b1⟩ := p
                simp only
                rw [r2 R resv hf hr]
                simp only [srcsK]
                cases evalSources Cfg.fixed env asset (.cons s2 rest2) b1 with
                | error err => rfl
                | ok q =>
                  obtain ⟨fs, b2⟩ := q
                  simp
end

end Ledger.Machine
