import Ledger.Proofs.InterpSrcSim

/-!
`send [A *]`: the interpreter's `takeAll` pushes every unit of the funding the machine's
`evalSource` yields (sources without unbounded leaf outside a `max`).
-/
namespace Ledger.Interp
open Ledger.Machine

/-- `takeAllFromAccount` against `withdrawAll`. -/
theorem leaf_all {env ienv : Env} (heq : EnvEq env ienv) (henv : EnvOK env)
    {P : List (String × String)} {c : String} {e : Expr} {a : String} {o : Int}
    (hl : litsOK e = true) (ha : evalAccount env e = .ok a) (hw : a ≠ "world") (hP : (a, c) ∈ P)
    (b : Balances) (ist : IState) (hc : ist.asset = c) (hrel : Rel P b ist.bal) :
    ∃ p b1, withdrawAll b a c (some o) = .ok (p, b1) ∧ 0 ≤ p.amount ∧ (∀ x ∈ units [p], x = a) ∧
      ∃ ist', allFromAccount ienv e (some o) ist = .ok (total [p], ist') ∧
        Pushed c ist ist' (units [p]) := by
  have hbal := hrel a c hP hw
  obtain ⟨b1, hb1⟩ := withdrawAll_ok (o := o) hbal
  refine ⟨_, b1, hb1, by simp; omega, ?_, ?_⟩
  · intro x hx
    rw [units_single] at hx
    exact List.eq_of_mem_replicate hx
  · simp only [allFromAccount, evalAcct_agree heq henv hl ha, if_neg hw, hc]
    refine ⟨pushSender a (max (ist.bal a c + o) 0) ist, by simp [total], ?_⟩
    rw [units_single]
    exact pushSender_pushed a _ ist (by omega) hc

mutual
  theorem all_sim {env ienv : Env} (heq : EnvEq env ienv) (henv : EnvOK env)
      {P : List (String × String)} {c : String} :
      (s : Source) → srcWf env c s = true → s.fallback = none → LeavesIn P env c s.neededAccts →
      ∀ (b : Balances) (ist : IState), ist.asset = c → b.WF → Rel P b ist.bal →
      ∃ f b1, evalSource Cfg.fixed env c s b = .ok (f, b1) ∧ f.asset = c ∧
        (∀ x ∈ units f.parts, validAccount x = true) ∧
        ∃ ist', takeAll ienv s ist = .ok (total f.parts, ist') ∧ Pushed c ist ist' (units f.parts)
    | .account e od, hwf, hfb, hin, b, ist, hc, hbwf, hrel => by
      simp only [srcWf, leafWf, Bool.and_eq_true] at hwf
      obtain ⟨hl, a, ha, hva⟩ := okAcct_spec hwf.1
      have hwf2 := hwf.2
      by_cases hw : e.isWorld = true
      · cases od with
        | none => simp [Source.fallback, hw] at hfb
        | upTo x => rw [if_pos hw] at hwf2; simp [odIsNone] at hwf2
        | unbounded => simp [Source.fallback] at hfb
      · rw [if_neg hw] at hwf2
        simp only [Bool.and_eq_true] at hwf2
        have hne : a ≠ "world" := by
          have := hwf2.1; simp only [notWorld, ha] at this; simpa using this
        have hwB : e.isWorld = false := by simpa using hw
        have hP : od ≠ .unbounded → (a, c) ∈ P := by
          intro hod
          have : e ∈ (Source.account e od).neededAccts := by
            cases od with
            | none => simp [Source.neededAccts, hwB]
            | upTo x => simp [Source.neededAccts, hwB]
            | unbounded => exact absurd rfl hod
          obtain ⟨a', h1, h2⟩ := hin e this
          rw [ha] at h1; cases h1; exact h2
        cases od with
        | none =>
          obtain ⟨p, b1, h1, h2, hv', ist', h3, h4⟩ :=
            leaf_all heq henv hl ha hne (hP (by simp)) (o := 0) b ist hc hrel
          refine ⟨⟨c, [p]⟩, b1, ?_, rfl, ?_, ist', by simpa [takeAll] using h3, h4⟩
          · simp [evalSource, ha, hwB, h1]
          · intro x hx; rw [hv' x hx]; exact hva
        | upTo x =>
          obtain ⟨hlx, v, hv, hv0⟩ := okCap_spec (by simpa [odWf] using hwf2.2)
          obtain ⟨p, b1, h1, h2, hv', ist', h3, h4⟩ :=
            leaf_all heq henv hl ha hne (hP (by simp)) (o := v) b ist hc hrel
          have hmo : evalMonOf ienv ist.asset x = .ok v := by
            rw [hc]; exact evalMonOf_agree heq henv hlx hv
          have hmax : max v 0 = v := by omega
          refine ⟨⟨c, [p]⟩, b1, ?_, rfl, ?_, ist', ?_, h4⟩
          · simp [evalSource, ha, hv, checkOverdraft, Cfg.fixed, nilAsZero, h1]
          · intro x hx; rw [hv' x hx]; exact hva
          · simp only [takeAll, hmo, hmax]; exact h3
        | unbounded => simp [Source.fallback] at hfb
    | .maxed m s, hwf, _, hin, b, ist, hc, hbwf, hrel => by
      simp only [srcWf, Bool.and_eq_true] at hwf
      obtain ⟨hlm, cap, hcap, hcap0⟩ := okCap_spec hwf.1
      obtain ⟨f, b1, h1, h2, h3, hval, sent, ist', h4, h5, h6⟩ :=
        src_sim heq henv s hwf.2 (by simpa [Source.neededAccts] using hin) b ist cap
          hcap0 hc hbwf hrel.hasP (fun _ => hrel)
      have hn := (evalSource_ok Cfg.fixed env c s b f b1 h1).1.nonneg f (by simp)
      obtain ⟨g, b2, g1, g2, g3⟩ := takeMaxStep_units (b := b1) hn h2 hcap0 h3
      have hmo : evalMonOf ienv ist.asset m = .ok cap := by
        rw [hc]; exact evalMonOf_agree heq henv hlm hcap
      have hmax : max cap 0 = cap := by omega
      have hgn : partsNonneg g.parts := by
        have := (takeMaxStep_ok g1).1.nonneg hn
        exact this
      refine ⟨g, b2, ?_, g2, ?_, ist', ?_, ?_⟩
      · simp [evalSource, h1, hcap, g1]
      · rw [g3]; exact hval
      · simp only [takeAll, hmo, hmax, h4, h6]
        rw [total_eq_length _ hgn, g3]
      · rw [g3]; exact h5
    | .inorder ss, hwf, hfb, hin, b, ist, hc, hbwf, hrel => by
      simp only [srcWf, Bool.and_eq_true, Bool.not_eq_true'] at hwf
      obtain ⟨fs, b1, h1, h2, h2', hval, ist', h4, h5⟩ :=
        alls_sim heq henv ss hwf.2 (by simpa [Source.fallback] using hfb)
          (by simpa [Source.neededAccts] using hin) b ist 0 hc hbwf hrel
      have hne := h2' hwf.1
      have hnn : ∀ f ∈ fs, partsNonneg f.parts :=
        (evalSources_ok Cfg.fixed env c ss b fs b1 h1).1.nonneg
      obtain ⟨l, hl⟩ : ∃ l, fs.getLast? = some l := by
        cases hg : fs.getLast? with
        | none => exact absurd (List.getLast?_eq_none_iff.mp hg) hne
        | some l => exact ⟨l, rfl⟩
      have hlc : l.asset = c := h2 l (List.mem_of_getLast? hl)
      have hall : fs.all (fun f => f.asset = l.asset) = true := by
        rw [List.all_eq_true]; intro f hf; simp [h2 f hf, hlc]
      have hcn : partsNonneg (concatAll fs) := by
        simpa [concatAll] using concatAll_nonneg_aux fs [] partsNonneg_nil hnn
      refine ⟨⟨l.asset, concatAll fs⟩, b1, ?_, hlc, ?_, ist', ?_, ?_⟩
      · simp [evalSource, h1, assemble, hl, hall]
      · simpa [concatAll_units fs hnn] using hval
      · simp only [takeAll, h4]
        rw [total_eq_length _ hcn, concatAll_units fs hnn]; simp
      · simpa [concatAll_units fs hnn] using h5
  theorem alls_sim {env ienv : Env} (heq : EnvEq env ienv) (henv : EnvOK env)
      {P : List (String × String)} {c : String} :
      (ss : SourceList) → srcsWf env c ss = true → ss.fallback = none →
      LeavesIn P env c ss.neededAccts →
      ∀ (b : Balances) (ist : IState) (tot : Int), ist.asset = c → b.WF → Rel P b ist.bal →
      ∃ fs b1, evalSources Cfg.fixed env c ss b = .ok (fs, b1) ∧ (∀ f ∈ fs, f.asset = c) ∧
        (isNilSrc ss = false → fs ≠ []) ∧
        (∀ x ∈ unitsAll fs, validAccount x = true) ∧
        ∃ ist', takeAllList ienv ss tot ist = .ok (tot + ((unitsAll fs).length : Int), ist') ∧
          Pushed c ist ist' (unitsAll fs)
    | .nil, _, _, _, b, ist, tot, _, _, _ => by
      refine ⟨[], b, rfl, by simp, by simp [isNilSrc], by simp [unitsAll], ist, ?_, ?_⟩
      · simp [takeAllList, unitsAll]
      · simpa [unitsAll] using Pushed.refl c ist
    | .cons s rest, hwf, hfb, hin, b, ist, tot, hc, hbwf, hrel => by
      simp only [srcsWf, Bool.and_eq_true, Bool.or_eq_true] at hwf
      obtain ⟨⟨hws, hwr⟩, hlast⟩ := hwf
      have hin' : LeavesIn P env c (s.neededAccts ++ rest.neededAccts) := by
        simpa [SourceList.neededAccts] using hin
      have hfs : s.fallback = none := by
        cases rest with
        | nil => simpa [SourceList.fallback] using hfb
        | cons s' r' =>
          rcases hlast with h | h
          · simp [isNilSrc] at h
          · simpa using h
      have hfr : rest.fallback = none := by
        cases rest with
        | nil => rfl
        | cons s' r' => simpa [SourceList.fallback] using hfb
      obtain ⟨f, b1, h1, h2, hval1, ist1, h4, h5⟩ :=
        all_sim heq henv s hws hfs hin'.left b ist hc hbwf hrel
      have hok := (evalSource_ok Cfg.fixed env c s b f b1 h1).1
      have hn := hok.nonneg f (by simp)
      have hrel1 : Rel P b1 ist1.bal := rel_after_full hrel hbwf h2 hok h5
      obtain ⟨fs, b2, r1, r2, _, hval2, ist2, r4, r5⟩ :=
        alls_sim heq henv rest hwr hfr hin'.right b1 ist1 (tot + total f.parts)
          (h5.asset.trans hc) (hok.delta.wf hbwf) hrel1
      refine ⟨f :: fs, b2, ?_, ?_, by simp, ?_, ist2, ?_, ?_⟩
      · simp [evalSources, h1, r1]
      · intro g hg
        rcases List.mem_cons.mp hg with rfl | hg
        · exact h2
        · exact r2 g hg
      · intro x hx
        simp only [unitsAll, List.mem_append] at hx
        rcases hx with hx | hx
        · exact hval1 x hx
        · exact hval2 x hx
      · simp only [takeAllList, h4, r4, unitsAll, List.length_append]
        rw [total_eq_length _ hn]
        congr 2; omega
      · simpa [unitsAll] using h5.trans r5
end

end Ledger.Interp
