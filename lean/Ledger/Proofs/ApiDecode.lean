import Ledger.Api.TxBody
import Ledger.Api.Cursor
import Ledger.Proofs.ApiDecimal

/-!
Helper lemmas for C38 (no decoder faults, except where the real code panics) and
C36 (amounts pass through the decoders exactly).
-/
namespace Ledger.Api

theorem Res.ofDec_ne_fault {α : Type} (x : Dec α) (m : String) : Res.ofDec x ≠ .fault m := by
  cases x <;> simp [Res.ofDec]

/-! ## v1 variables (`Script.ToCore`) -/

theorem varV1_ne_fault (v : JVal) (m : String) : varV1 v ≠ .fault m := by
  cases v <;> simp [varV1, v1NonStringScalar, Res.ofDec_ne_fault]

theorem combineV1_ne_fault (k : String) (a : Res String) (b : Res VarMap)
    (ha : ∀ m, a ≠ .fault m) (hb : ∀ m, b ≠ .fault m) (m : String) : combineV1 k a b ≠ .fault m := by
  cases a <;> cases b <;> simp_all [combineV1]

theorem varsV1Loop_ne_fault (kvs : List (String × JVal)) (m : String) : varsV1Loop kvs ≠ .fault m := by
  induction kvs generalizing m with
  | nil => simp [varsV1Loop]
  | cons kv rest ih =>
    obtain ⟨k, v⟩ := kv
    exact combineV1_ne_fault k _ _ (varV1_ne_fault v) ih m

theorem decodeVarsV1_ne_fault (vars : Option JVal) (m : String) : decodeVarsV1 vars ≠ .fault m := by
  unfold decodeVarsV1
  split
  · simp
  · simp
  · exact varsV1Loop_ne_fault _ m
  · simp

/-! ## create transaction -/

theorem createV2_ne_fault (pt : String → Option String) (qf : Bool) (body : JVal) (m : String) :
    createV2 pt qf body ≠ .fault m := by
  unfold createV2
  cases decTxRequestV2 pt body with
  | error e => simp
  | ok req =>
    simp only []
    generalize txKinds req = k
    by_cases h1 : k > 1
    · simp [h1]
    · by_cases h0 : k = 0
      · simp [h0]
      · cases txRequestToCore req (req.force || qf) <;> simp [h1, h0]

/-- Every fault of the v1 create-transaction decoder comes from `decodeVarsV1`. -/
theorem createV1_fault_from_vars (pt : String → Option String) (body : JVal) (m : String)
    (h : createV1 pt body = .fault m) : ∃ vars, decodeVarsV1 vars = .fault m := by
  unfold createV1 at h
  simp only [] at h
  split at h
  · cases h
  · split at h
    · cases h
    · split at h
      · split at h <;> cases h
      · split at h
        · rename_i hv
          cases h
          exact ⟨_, hv⟩
        · cases h
        · cases h

theorem createV1_ne_fault (pt : String → Option String) (body : JVal) (m : String) :
    createV1 pt body ≠ .fault m := by
  intro h
  obtain ⟨vars, hv⟩ := createV1_fault_from_vars pt body m h
  exact decodeVarsV1_ne_fault vars m hv

theorem revertBodyV2_ne_fault (b : Option JVal) (m : String) : revertBodyV2 b ≠ .fault m := by
  unfold revertBodyV2
  split
  · simp
  · split <;> simp

theorem metadataBody_ne_fault (b : JVal) (m : String) : metadataBody b ≠ .fault m := by
  unfold metadataBody
  split <;> simp

/-! ## cursors and query parameters -/

theorem decodeCursor_ne_fault (f : Bool) (v : Option JVal) (m : String) :
    decodeCursor f v ≠ .fault m := by
  unfold decodeCursor
  split
  · simp
  · simp [cursorNullOutcome]
  · exact Res.ofDec_ne_fault _ _
  · simp

theorem pageSizeParam_ne_fault (d mx : Nat) (s m : String) : pageSizeParam d mx s ≠ .fault m := by
  unfold pageSizeParam
  split
  · simp
  · split <;> simp

theorem dateParam_ne_fault (pt : String → Option String) (s m : String) : dateParam pt s ≠ .fault m := by
  unfold dateParam
  split
  · simp
  · split <;> simp

theorem txIdParam_ne_fault (s m : String) : txIdParam s ≠ .fault m := by
  unfold txIdParam
  split <;> simp

/-! ## C36: amounts through the decoders -/

theorem JNum.intVal_ofInt (i : Int) : (JNum.ofInt i).intVal = i := by
  unfold JNum.ofInt JNum.intVal
  by_cases h : i < 0 <;> simp [h] <;> omega

theorem JNum.isIntLit_ofInt (i : Int) : (JNum.ofInt i).isIntLit = true := rfl

/-- A posting amount written as a JSON integer literal of any magnitude is
    decoded exactly. -/
theorem decOptBigInt_int (i : Int) : decOptBigInt (some (JVal.int i)) = .ok (some i) := by
  simp [decOptBigInt, JVal.int, JNum.isIntLit_ofInt, JNum.intVal_ofInt]

theorem decBigIntRaw_int (i : Int) : decBigIntRaw (some (JVal.int i)) = .ok i := by
  simp [decBigIntRaw, JVal.int, JNum.isIntLit_ofInt, JNum.intVal_ofInt]

end Ledger.Api
