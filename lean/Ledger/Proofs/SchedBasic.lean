import Ledger.Sched.Model

/-!
# Generic facts about `step` / `run` of the abstract scheduler model

`step_inv`: an invariant preserved by the primitive world transformers
(session-local updates, COMMIT, ROLLBACK, failure, and every statement's effect)
is preserved by every step of every session, hence by every schedule.
-/
namespace Ledger.Sched

theorem run_inv (P : World → Prop) (h : ∀ w s, P w → P (step w s)) :
    ∀ (σ : Schedule) (w : World), P w → P (run σ w) := by
  intro σ
  induction σ with
  | nil => intro w hw; exact hw
  | cons s σ ih => intro w hw; exact ih _ (h w s hw)

@[simp] theorem setSess_vols (w : World) (s : Sid) (f) : (w.setSess s f).vols = w.vols := rfl
@[simp] theorem setSess_rev (w : World) (s : Sid) (f) : (w.setSess s f).rev = w.rev := rfl
@[simp] theorem setSess_state (w : World) (s : Sid) (f) : (w.setSess s f).state = w.state := rfl
@[simp] theorem setSess_txs (w : World) (s : Sid) (f) : (w.setSess s f).txs = w.txs := rfl
@[simp] theorem setSess_logs (w : World) (s : Sid) (f) : (w.setSess s f).logs = w.logs := rfl
@[simp] theorem setSess_blocks (w : World) (s : Sid) (f) : (w.setSess s f).blocks = w.blocks := rfl
@[simp] theorem setSess_txSeq (w : World) (s : Sid) (f) : (w.setSess s f).txSeq = w.txSeq := rfl
@[simp] theorem setSess_logSeq (w : World) (s : Sid) (f) : (w.setSess s f).logSeq = w.logSeq := rfl
@[simp] theorem setSess_adv (w : World) (s : Sid) (f) : (w.setSess s f).adv = w.adv := rfl
@[simp] theorem setSess_commits (w : World) (s : Sid) (f) : (w.setSess s f).commits = w.commits := rfl
@[simp] theorem setSess_revWins (w : World) (s : Sid) (f) : (w.setSess s f).revWins = w.revWins := rfl
@[simp] theorem setSess_logCommits (w : World) (s : Sid) (f) : (w.setSess s f).logCommits = w.logCommits := rfl
@[simp] theorem setSess_reads (w : World) (s : Sid) (f) : (w.setSess s f).reads = w.reads := rfl
@[simp] theorem setSess_spent (w : World) (s : Sid) (f) : (w.setSess s f).spent = w.spent := rfl

/-- An invariant of the primitive transformers is an invariant of `step`. -/
theorem step_inv (P : World → Prop) (s : Sid)
    (hSess : ∀ w f, P w → P (w.setSess s f))
    (hCommit : ∀ w, P w → P (w.commitTx s))
    (hRollback : ∀ w, P w → P (w.rollbackTx s))
    (hFail : ∀ w, P w → P (w.failTx s))
    (hExec : ∀ w st w' o, P w → exec w s st = .done w' o → P w')
    (hExecF : ∀ w st w' e, P w → exec w s st = .failed w' e → P w') :
    ∀ w, P w → P (step w s) := by
  intro w hw
  unfold step stepR
  simp only
  split
  · exact hw
  · rename_i st k _
    cases st <;> simp only [advance] <;>
      (try split) <;> (try split) <;> (try split) <;> (try dsimp only) <;>
      first
        | exact hw
        | (apply hSess; first
            | exact hw
            | (apply hSess; exact hw)
            | (apply hCommit; exact hw)
            | (apply hRollback; exact hw)
            | (apply hFail; exact hw)
            | (apply hFail; apply hExecF <;> assumption)
            | (apply hExec <;> assumption))
        | (apply hSess; apply hExec <;> assumption)

/-- the same, where the statement cases may use that the statement is the head of `s`'s program -/
theorem step_inv_head (P : World → Prop) (s : Sid) (w : World) (hw : P w)
    (hSess : ∀ w f, P w → P (w.setSess s f))
    (hCommit : ∀ w, P w → P (w.commitTx s))
    (hRollback : ∀ w, P w → P (w.rollbackTx s))
    (hFail : ∀ w, P w → P (w.failTx s))
    (hExec : ∀ st k w' o, (w.sess s).prog = .stmt st k → exec w s st = .done w' o → P w')
    (hExecF : ∀ st k w' e, (w.sess s).prog = .stmt st k → exec w s st = .failed w' e → P w') :
    P (step w s) := by
  unfold step stepR
  simp only
  split
  · exact hw
  · rename_i st k heq
    cases st <;> simp only [advance] <;>
      (try split) <;> (try split) <;> (try split) <;> (try dsimp only) <;>
      first
        | exact hw
        | (apply hSess; first
            | exact hw
            | (apply hSess; exact hw)
            | (apply hCommit; exact hw)
            | (apply hRollback; exact hw)
            | (apply hFail; exact hw)
            | (apply hFail; exact hExecF _ _ _ _ heq (by assumption))
            | exact hExec _ _ _ _ heq (by assumption))
        | (apply hSess; exact hExec _ _ _ _ heq (by assumption))

theorem firstSome_none {α β : Type} (f : α → Option β) :
    ∀ (l : List α), firstSome f l = none → ∀ a ∈ l, f a = none := by
  intro l
  induction l with
  | nil => intro _ a ha; cases ha
  | cons x xs ih =>
    intro h a ha
    unfold firstSome at h
    cases hx : f x with
    | some b => rw [hx] at h; cases h
    | none =>
      rw [hx] at h
      cases ha with
      | head => exact hx
      | tail _ hm => exact ih h a hm

theorem heldByOther_none {α : Type} {s : Sid} {r : Row α} (h : r.heldByOther s = none) :
    r.own = none ∨ r.own = some s := by
  unfold Row.heldByOther at h
  cases ho : r.own with
  | none => exact Or.inl rfl
  | some t =>
    rw [ho] at h
    simp only at h
    split at h
    · rename_i hts; exact Or.inr (by rw [hts])
    · cases h

/-- `InsertTransaction` touches neither balances nor the read ghosts nor locks -/
theorem insTx_frame {w : World} {s : Sid} {l ref : Nat} {id : Option Nat} {w' : World}
    (h : (∃ o, insTx w s l ref id = .done w' o) ∨ (∃ e, insTx w s l ref id = .failed w' e)) :
    w'.vols = w.vols ∧ w'.reads = w.reads ∧ w'.spent = w.spent ∧ w'.adv = w.adv ∧ w'.logs = w.logs ∧
    w'.state = w.state ∧ w'.revWins = w.revWins ∧ w'.logSeq = w.logSeq := by
  unfold insTx at h
  dsimp only at h
  cases h1 : w.txs.find? (fun t => decide (t.l = l) && decide (t.id = id.getD (w.txSeq l + 1))) with
  | some t =>
    rw [h1] at h; dsimp only at h
    rcases h with ⟨o, h⟩ | ⟨e, h⟩ <;> split at h <;> first | (cases h; done) | (cases h; exact ⟨rfl, rfl, rfl, rfl, rfl, rfl, rfl, rfl⟩)
  | none =>
    rw [h1] at h; dsimp only at h
    cases h2 : (if ref = 0 then none else w.txs.find? (fun t => decide (t.l = l) && decide (t.ref = ref))) with
    | some t =>
      rw [h2] at h; dsimp only at h
      rcases h with ⟨o, h⟩ | ⟨e, h⟩ <;> split at h <;> first | (cases h; done) | (cases h; exact ⟨rfl, rfl, rfl, rfl, rfl, rfl, rfl, rfl⟩)
    | none =>
      rw [h2] at h; dsimp only at h
      rcases h with ⟨o, h⟩ | ⟨e, h⟩ <;> first | (cases h; done) | (cases h; exact ⟨rfl, rfl, rfl, rfl, rfl, rfl, rfl, rfl⟩)

/-- the log INSERT touches neither balances nor the read ghosts nor locks -/
theorem insLog_frame {w : World} {s : Sid} {l ik hash : Nat} {sync : Bool} {id : Option Nat} {tx : Nat} {w' : World}
    (h : (∃ o, insLog w s l ik hash sync id tx = .done w' o) ∨ (∃ e, insLog w s l ik hash sync id tx = .failed w' e)) :
    w'.vols = w.vols ∧ w'.reads = w.reads ∧ w'.spent = w.spent ∧ w'.adv = w.adv ∧ w'.txs = w.txs ∧
    w'.state = w.state ∧ w'.revWins = w.revWins ∧ w'.rev = w.rev ∧ w'.txSeq = w.txSeq := by
  unfold insLog at h
  dsimp only at h
  cases h1 : w.logs.find? (fun e => decide (e.l = l) && decide (e.id = id.getD (w.logSeq l + 1))) with
  | some t =>
    rw [h1] at h; dsimp only at h
    rcases h with ⟨o, h⟩ | ⟨e, h⟩ <;> split at h <;> first | (cases h; done) | (cases h; exact ⟨rfl, rfl, rfl, rfl, rfl, rfl, rfl, rfl, rfl⟩)
  | none =>
    rw [h1] at h; dsimp only at h
    cases h2 : (if ik = 0 then none else w.logs.find? (fun e => decide (e.l = l) && decide (e.ik = ik))) with
    | some t =>
      rw [h2] at h; dsimp only at h
      rcases h with ⟨o, h⟩ | ⟨e, h⟩ <;> split at h <;> first | (cases h; done) | (cases h; exact ⟨rfl, rfl, rfl, rfl, rfl, rfl, rfl, rfl, rfl⟩)
    | none =>
      rw [h2] at h; dsimp only at h
      rcases h with ⟨o, h⟩ | ⟨e, h⟩ <;> first | (cases h; done) | (cases h; exact ⟨rfl, rfl, rfl, rfl, rfl, rfl, rfl, rfl, rfl⟩)

end Ledger.Sched
