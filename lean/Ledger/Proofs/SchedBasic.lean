import Ledger.Sched.Model

/-!
# Generic facts about `step` / `run` of the abstract scheduler model

`step_inv`: an invariant preserved by the primitive world transformers
(session-local updates, COMMIT, ROLLBACK, failure, and every statement's effect)
is preserved by every step of every session, hence by every schedule.
-/
namespace Ledger.Sched

theorem run_inv (P : World → Prop) (h : ∀ w s, P w → P (step w s)) :
    ∀ (σ : Schedule) (w : World), P w → P (run σ w) := by
  intro σ
  induction σ with
  | nil => intro w hw; exact hw
  | cons s σ ih => intro w hw; exact ih _ (h w s hw)

@[simp] theorem setSess_vols (w : World) (s : Sid) (f) : (w.setSess s f).vols = w.vols := rfl
@[simp] theorem setSess_rev (w : World) (s : Sid) (f) : (w.setSess s f).rev = w.rev := rfl
@[simp] theorem setSess_state (w : World) (s : Sid) (f) : (w.setSess s f).state = w.state := rfl
@[simp] theorem setSess_txs (w : World) (s : Sid) (f) : (w.setSess s f).txs = w.txs := rfl
@[simp] theorem setSess_logs (w : World) (s : Sid) (f) : (w.setSess s f).logs = w.logs := rfl
@[simp] theorem setSess_blocks (w : World) (s : Sid) (f) : (w.setSess s f).blocks = w.blocks := rfl
@[simp] theorem setSess_txSeq (w : World) (s : Sid) (f) : (w.setSess s f).txSeq = w.txSeq := rfl
@[simp] theorem setSess_logSeq (w : World) (s : Sid) (f) : (w.setSess s f).logSeq = w.logSeq := rfl
@[simp] theorem setSess_adv (w : World) (s : Sid) (f) : (w.setSess s f).adv = w.adv := rfl
@[simp] theorem setSess_commits (w : World) (s : Sid) (f) : (w.setSess s f).commits = w.commits := rfl
@[simp] theorem setSess_revWins (w : World) (s : Sid) (f) : (w.setSess s f).revWins = w.revWins := rfl
@[simp] theorem setSess_logCommits (w : World) (s : Sid) (f) : (w.setSess s f).logCommits = w.logCommits := rfl
@[simp] theorem setSess_reads (w : World) (s : Sid) (f) : (w.setSess s f).reads = w.reads := rfl
@[simp] theorem setSess_spent (w : World) (s : Sid) (f) : (w.setSess s f).spent = w.spent := rfl

/-- An invariant of the primitive transformers is an invariant of `step`. -/
theorem step_inv (P : World → Prop) (s : Sid)
    (hSess : ∀ w f, P w → P (w.setSess s f))
    (hCommit : ∀ w, P w → P (w.commitTx s))
    (hRollback : ∀ w, P w → P (w.rollbackTx s))
    (hFail : ∀ w, P w → P (w.failTx s))
    (hExec : ∀ w st w' o, P w → exec w s st = .done w' o → P w')
    (hExecF : ∀ w st w' e, P w → exec w s st = .failed w' e → P w') :
    ∀ w, P w → P (step w s) := by
  intro w hw
  unfold step stepR
  simp only
  split
  · exact hw
  · rename_i st k _
    cases st <;> simp only [advance] <;>
      (try split) <;> (try split) <;> (try split) <;> (try dsimp only) <;>
      first
        | exact hw
        | (apply hSess; first
            | exact hw
            | (apply hSess; exact hw)
            | (apply hCommit; exact hw)
            | (apply hRollback; exact hw)
            | (apply hFail; exact hw)
            | (apply hFail; apply hExecF <;> assumption)
            | (apply hExec <;> assumption))
        | (apply hSess; apply hExec <;> assumption)

theorem firstSome_none {α β : Type} (f : α → Option β) :
    ∀ (l : List α), firstSome f l = none → ∀ a ∈ l, f a = none := by
  intro l
  induction l with
  | nil => intro _ a ha; cases ha
  | cons x xs ih =>
    intro h a ha
    unfold firstSome at h
    cases hx : f x with
    | some b => rw [hx] at h; cases h
    | none =>
      rw [hx] at h
      cases ha with
      | head => exact hx
      | tail _ hm => exact ih h a hm

theorem heldByOther_none {α : Type} {s : Sid} {r : Row α} (h : r.heldByOther s = none) :
    r.own = none ∨ r.own = some s := by
  unfold Row.heldByOther at h
  cases ho : r.own with
  | none => exact Or.inl rfl
  | some t =>
    rw [ho] at h
    simp only at h
    split at h
    · rename_i hts; exact Or.inr (by rw [hts])
    · cases h

end Ledger.Sched
