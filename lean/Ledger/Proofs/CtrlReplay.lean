import Ledger.Proofs.CtrlReplayVol
import Ledger.Proofs.CtrlSpec

/-!
Replay: `importLog` of the log a committed write produced, run on the tables the
write started from, gives the tables the write ended with — provided `logSafe`.
-/
namespace Ledger.Ctrl
open Ledger.Base Ledger.Core

/-- `InsertLog` replayed with the explicit id and date of the live row. -/
theorem insertLog_replay (now now' : Time) (p : Payload) (ik ihash sv : String) (d d' : Db) (sq sq' sqR : Seqs) (log : Log)
    (h : insertLog now { payload := p, ik := ik, ihash := ihash, schemaVersion := sv } d sq = (sq', .ok (log, d'))) :
    insertLog now' { id := some log.id, payload := log.payload, date := some log.date, ik := log.ik,
                     ihash := log.ihash, schemaVersion := log.schemaVersion } d sqR = (sqR, .ok (log, d')) ∧
    log = mkLog log.id p now ik ihash sv ∧ d' = { d with logs := d.logs ++ [log] } := by
  unfold insertLog at h ⊢
  simp only at h ⊢
  split at h
  · simp only [Prod.mk.injEq] at h; exact nomatch h.2
  · split at h
    · simp only [Prod.mk.injEq] at h; exact nomatch h.2
    · rename_i h1 h2
      simp only [Prod.mk.injEq, Except.ok.injEq] at h
      obtain ⟨_, rfl, rfl⟩ := h
      simp only at h1 h2 ⊢
      rw [if_neg h1, if_neg h2]
      refine ⟨?_, ?_, ?_⟩ <;> first | rfl | trivial

theorem upsertAccount_now (now now' : Time) (accs : Map String Account) (r : AccIn) (f i u : Time)
    (h1 : r.firstUsage = some f) (h2 : r.insertionDate = some i) (h3 : r.updatedAt = some u) :
    upsertAccount now accs r = upsertAccount now' accs r := by
  unfold upsertAccount
  simp only [h1, h2, h3]

theorem upsertAccounts_rows_now (now now' : Time) (schema : Option Schema) (tx : Tx) (am : Map String Meta) (d : Db) :
    upsertAccounts now (accountRows schema tx am) d = upsertAccounts now' (accountRows schema tx am) d := by
  unfold upsertAccounts accountRows
  simp only [List.foldl_map]
  congr 1

theorem updateVolumes_fold (ups v : PCV) : (updateVolumes ups v).2 = ups.foldl addVolumes v := rfl

theorem updateVolumes_pcv_eq (ups v1 v2 : PCV) (h : VolRel v1 v2) : (updateVolumes ups v1).1 = (updateVolumes ups v2).1 := by
  unfold updateVolumes
  simp only
  apply List.map_congr_left
  intro e _
  rw [(h.fold_add ups).volOf]

/-- `CommitTransaction` replayed with the explicit id and dates of the live row, on
    tables with the same transactions and the same volumes up to zero rows. -/
theorem commit_replay (now now' : Time) (t : TxIn) (ht : t.id = none) (hti : t.insertedAt = none)
    (htu : t.updatedAt = none) (dm dR : Db) (sq sq' sqR : Seqs) (row : Tx) (dm' : Db)
    (htx : dm.txs = dR.txs) (hv : VolRel dm.volumes dR.volumes)
    (h : commitTransaction now t dm sq = (sq', .ok (row, dm'))) :
    commitTransaction now' (txIn row) dR sqR =
      (sqR, .ok (row, { dR with volumes := (volumeUpdates t.postings).foldl addVolumes dR.volumes,
                                txs := dR.txs ++ [row] })) ∧
    VolRel dm'.volumes ((volumeUpdates t.postings).foldl addVolumes dR.volumes) ∧
    dm'.txs = dm.txs ++ [row] ∧ dm'.accounts = dm.accounts ∧ dm'.schemas = dm.schemas ∧ dm'.logs = dm.logs := by
  have hpcv := updateVolumes_pcv_eq (volumeUpdates t.postings) _ _ hv
  have hrel := hv.fold_add (volumeUpdates t.postings)
  unfold commitTransaction at h ⊢
  simp only [ht, hti, htu] at h
  split at h
  · simp only [Prod.mk.injEq] at h; exact nomatch h.2
  · split at h
    · simp only [Prod.mk.injEq] at h; exact nomatch h.2
    · rename_i h1 h2
      simp only [Prod.mk.injEq, Except.ok.injEq] at h
      obtain ⟨_, rfl, rfl⟩ := h
      simp only [txIn, ← htx, ← hpcv]
      split
      · rename_i h1'; exact absurd h1' h1
      · split
        · rename_i h2'; exact absurd h2' h2
        · refine ⟨?_, hrel, ?_, ?_, ?_, ?_⟩ <;> first | rfl | trivial

/-! ### calls that neither read nor write `accounts_volumes` -/

def Db.withVol (d : Db) (v : PCV) : Db := { d with volumes := v }

def Call.NoVol : Call → Prop
  | .commitTransaction _ => False
  | .getBalances _ => False
  | _ => True

theorem exec_frame (now : Time) (c : Call) (hc : c.NoVol) (d : Db) (v : PCV) (sq : Seqs) :
    exec now c (d.withVol v) sq =
      match exec now c d sq with
      | (sq', .ok (r, d')) => (sq', .ok (r, d'.withVol v))
      | (sq', .error e) => (sq', .error e) := by
  cases c with
  | commitTransaction t => exact hc.elim
  | getBalances q => exact hc.elim
  | readLogIK ik => rfl
  | findSchema x => rfl
  | findLatestSchemaVersion => rfl
  | getAccount a => rfl
  | upsertAccounts rows => rfl
  | updateAccountsMeta m w => rfl
  | revertTransaction id w =>
    simp only [exec, revertTransaction]
    show (sq, match d.findTx id with | none => _ | some t => _) = _
    cases d.findTx id with
    | none => rfl
    | some t => dsimp only; cases t.revertedAt <;> rfl
  | updateTxMeta id m w =>
    simp only [exec, updateTxMeta]
    show (sq, match d.findTx id with | none => _ | some t => _) = _
    cases d.findTx id <;> rfl
  | deleteTxMeta id k w =>
    simp only [exec, deleteTxMeta]
    show (sq, match d.findTx id with | none => _ | some t => _) = _
    cases d.findTx id <;> rfl
  | deleteAccountMeta a k =>
    simp only [exec, deleteAccountMeta]
    show (sq, Except.ok ((), match d.accounts.get? a with | some x => _ | none => _)) = _
    cases d.accounts.get? a <;> rfl
  | insertSchema s =>
    simp only [exec, insertSchema]
    show (sq, Except.ok (if (d.schemas.any fun x => decide (x.version = s.version)) = true then _ else _)) = _
    split <;> rfl
  | insertLog l =>
    simp only [exec, insertLog]
    rw [show (d.withVol v).logs = d.logs from rfl]
    cases l.id with
    | none =>
      dsimp only
      by_cases h1 : (d.logs.any fun x => decide (x.id = sq.log + 1)) = true
      · simp only [if_pos h1]
      · by_cases h2 : l.ik ≠ "" ∧ (d.logs.any fun x => decide (x.ik = l.ik)) = true
        · simp only [if_neg h1, if_pos h2]
        · simp only [if_neg h1, if_neg h2]; rfl
    | some i =>
      dsimp only
      by_cases h1 : (d.logs.any fun x => decide (x.id = i)) = true
      · simp only [if_pos h1]
      · by_cases h2 : l.ik ≠ "" ∧ (d.logs.any fun x => decide (x.ik = l.ik)) = true
        · simp only [if_neg h1, if_pos h2]
        · simp only [if_neg h1, if_neg h2]; rfl

theorem eval_frame {α : Type} (now : Time) (p : Prog α) (hp : p.All Call.NoVol) (d : Db) (v : PCV) (sq : Seqs) :
    eval now p (d.withVol v) sq = (eval now p d sq).map fun x => (x.1, x.2.1.withVol v, x.2.2) := by
  induction hp generalizing d sq with
  | pure a => rfl
  | fail e => rfl
  | call c k hc _ ih =>
    simp only [eval, exec_frame now c hc d v sq]
    cases hex : exec now c d sq with
    | mk sq' res =>
      cases res with
      | error e => rfl
      | ok x => exact ih x.1 x.2 sq'

/-- `importLog` of a log that is neither a new nor a reverted transaction does not
    touch `accounts_volumes`. -/
theorem importLog_noVol (l : Log) (h : match l.payload with | .created .. => False | .reverted .. => False | _ => True) :
    (importLog l).All Call.NoVol := by
  unfold importLog
  cases hp : l.payload with
  | created tx am => rw [hp] at h; exact h.elim
  | reverted a b => rw [hp] at h; exact h.elim
  | insertedSchema s =>
    refine .call _ _ trivial (fun r => ?_)
    cases r with
    | none => exact .fail _
    | some _ => exact .call _ _ trivial (fun _ => .pure _)
  | savedMeta t m =>
    cases t with
    | account a => exact .call _ _ trivial (fun _ => .call _ _ trivial (fun _ => .pure _))
    | transaction id => exact .call _ _ trivial (fun _ => .call _ _ trivial (fun _ => .pure _))
  | deletedMeta t k =>
    cases t with
    | account a => exact .call _ _ trivial (fun _ => .call _ _ trivial (fun _ => .pure _))
    | transaction id => exact .call _ _ trivial (fun _ => .call _ _ trivial (fun _ => .pure _))

/-- The imported log's own insertion, as every per-kind lemma needs it. -/
def InsertsAs (now' : Time) (L : Log) (d2 : Db) (sqR : Seqs) : Prop :=
  insertLog now' { id := some L.id, payload := L.payload, date := some L.date, ik := L.ik,
                   ihash := L.ihash, schemaVersion := L.schemaVersion } d2 sqR
    = (sqR, .ok (L, { d2 with logs := d2.logs ++ [L] }))

theorem replay_saveTxMeta (now now' : Time) (strict : Bool) (n : Nat) (id : Nat) (m : Meta) (schema : Option Schema)
    (d1 d2 : Db) (sq1 sq2 sqR : Seqs) (p : Payload) (lid : Nat) (ik ihash sv : String)
    (h : eval now (body strict (.saveTxMeta id m) n schema) d1 sq1 = some (p, d2, sq2))
    (hins : InsertsAs now' (mkLog lid p now ik ihash sv) d2 sqR) :
    eval now' (importLog (mkLog lid p now ik ihash sv)) d1 sqR =
      some ((), { d2 with logs := d2.logs ++ [mkLog lid p now ik ihash sv] }, sqR) ∧ d2.volumes = d1.volumes ∧
    (importLog (mkLog lid p now ik ihash sv)).All Call.NoVol := by
  simp only [body, eval, exec, updateTxMeta] at h
  cases hf : d1.findTx id with
  | none => simp only [hf, eval] at h; cases h
  | some t =>
    simp only [hf, eval, Option.some.injEq, Prod.mk.injEq] at h
    obtain ⟨rfl, rfl, _⟩ := h
    refine ⟨?_, rfl, importLog_noVol _ trivial⟩
    unfold InsertsAs at hins
    simp only [mkLog] at hins
    simp only [importLog, mkLog, eval, exec, updateTxMeta, hf, hins]

theorem replay_delTxMeta (now now' : Time) (strict : Bool) (n : Nat) (id : Nat) (key : String) (schema : Option Schema)
    (d1 d2 : Db) (sq1 sq2 sqR : Seqs) (p : Payload) (lid : Nat) (ik ihash sv : String)
    (h : eval now (body strict (.delTxMeta id key) n schema) d1 sq1 = some (p, d2, sq2))
    (hins : InsertsAs now' (mkLog lid p now ik ihash sv) d2 sqR) :
    eval now' (importLog (mkLog lid p now ik ihash sv)) d1 sqR =
      some ((), { d2 with logs := d2.logs ++ [mkLog lid p now ik ihash sv] }, sqR) ∧ d2.volumes = d1.volumes ∧
    (importLog (mkLog lid p now ik ihash sv)).All Call.NoVol := by
  simp only [body, eval, exec, deleteTxMeta] at h
  cases hf : d1.findTx id with
  | none => simp only [hf, eval] at h; cases h
  | some t =>
    simp only [hf, eval] at h
    by_cases hc : t.metadata.contains key = true
    · simp only [hc, ↓reduceIte, eval, Option.some.injEq, Prod.mk.injEq] at h
      obtain ⟨rfl, rfl, _⟩ := h
      refine ⟨?_, rfl, importLog_noVol _ trivial⟩
      unfold InsertsAs at hins
      simp only [mkLog] at hins
      simp only [importLog, mkLog, eval, exec, deleteTxMeta, hf, hins]
    · simp only [hc, Bool.false_eq_true, ↓reduceIte, eval] at h; cases h

theorem replay_insertSchema (now now' : Time) (strict : Bool) (n : Nat) (version : String)
    (chart : Option (String × List (String × Meta))) (tpls : List String) (bad : Bool) (schema : Option Schema)
    (d1 d2 : Db) (sq1 sq2 sqR : Seqs) (p : Payload) (lid : Nat) (ik ihash sv : String)
    (h : eval now (body strict (.insertSchema version chart tpls bad) n schema) d1 sq1 = some (p, d2, sq2))
    (hins : InsertsAs now' (mkLog lid p now ik ihash sv) d2 sqR) :
    eval now' (importLog (mkLog lid p now ik ihash sv)) d1 sqR =
      some ((), { d2 with logs := d2.logs ++ [mkLog lid p now ik ihash sv] }, sqR) ∧ d2.volumes = d1.volumes ∧
    (importLog (mkLog lid p now ik ihash sv)).All Call.NoVol := by
  simp only [body] at h
  cases chart with
  | none => simp only [eval] at h; cases h
  | some c =>
    obtain ⟨raw, table⟩ := c
    simp only at h
    cases bad with
    | true => simp only [↓reduceIte, eval] at h; cases h
    | false =>
      simp only [Bool.false_eq_true, ↓reduceIte, eval, exec, insertSchema] at h
      by_cases hdup : (d1.schemas.any fun x => decide (x.version = version)) = true
      · simp only [hdup, ↓reduceIte, eval] at h; cases h
      · simp only [hdup, Bool.false_eq_true, ↓reduceIte, eval, Option.some.injEq, Prod.mk.injEq] at h
        obtain ⟨rfl, rfl, _⟩ := h
        refine ⟨?_, rfl, importLog_noVol _ trivial⟩
        unfold InsertsAs at hins
        simp only [mkLog] at hins
        simp only [importLog, mkLog, eval, exec, insertSchema, hdup, Bool.false_eq_true, ↓reduceIte, hins]

/-- Account `SET_METADATA`: live `UpsertAccounts` (NULL dates, chart defaults) against the
    replay's `UpdateAccountsMetadata(…, log date)`, under the two safety conditions. -/
theorem saveAcc_paths_agree (now now' : Time) (a : String) (m D : Meta) (d : Db)
    (hnone : d.accounts.get? a = none → metaMerge D m = metaMerge [] m)
    (hsome : ∀ acc, d.accounts.get? a = some acc → metaContains acc.metadata m = true ∨ ¬ now < acc.firstUsage) :
    updateAccountsMeta now' [(a, m)] (some now) d = upsertAccounts now [{ address := a, metadata := m, defaults := D }] d := by
  unfold updateAccountsMeta upsertAccounts
  simp only [List.foldl_cons, List.foldl_nil]
  congr 1
  unfold updateAccountMeta upsertAccount
  cases hg : d.accounts.get? a with
  | none => simp only [hnone hg]
  | some acc =>
    simp only [Bool.false_or]
    by_cases hc : metaContains acc.metadata m = true
    · simp only [hc, ↓reduceIte, Bool.not_true, Bool.false_eq_true]
    · rcases hsome acc hg with hs | hs
      · exact absurd hs hc
      · simp only [hc, Bool.false_eq_true, ↓reduceIte, Bool.not_false, if_neg hs]

theorem replay_saveAccMeta (now now' : Time) (strict : Bool) (n : Nat) (a : String) (m : Meta)
    (d1 d2 : Db) (sq1 sq2 sqR : Seqs) (p : Payload) (lid : Nat) (ik ihash sv : String)
    (h : eval now (body strict (.saveAccMeta a m) n (if sv ≠ "" then findSchema sv d1 else none)) d1 sq1 = some (p, d2, sq2))
    (hins : InsertsAs now' (mkLog lid p now ik ihash sv) d2 sqR)
    (hsafe : logSafe d1 (mkLog lid p now ik ihash sv) = true) :
    eval now' (importLog (mkLog lid p now ik ihash sv)) d1 sqR =
      some ((), { d2 with logs := d2.logs ++ [mkLog lid p now ik ihash sv] }, sqR) ∧ d2.volumes = d1.volumes ∧
    (importLog (mkLog lid p now ik ihash sv)).All Call.NoVol := by
  simp only [body, saveAccMetaBody, eval, exec, Option.some.injEq, Prod.mk.injEq] at h
  obtain ⟨rfl, rfl, _⟩ := h
  refine ⟨?_, rfl, importLog_noVol _ trivial⟩
  unfold InsertsAs at hins
  simp only [mkLog] at hins
  have hp : updateAccountsMeta now' [(a, m)] (some now) d1 = upsertAccounts now
      [{ address := a, metadata := m, defaults := defaultsOf (if sv ≠ "" then findSchema sv d1 else none) a }] d1 := by
    apply saveAcc_paths_agree
    · intro hg
      simp only [logSafe, mkLog, hg] at hsafe
      exact of_decide_eq_true hsafe
    · intro acc hg
      simp only [logSafe, mkLog, hg, Bool.or_eq_true, Bool.not_eq_true'] at hsafe
      exact hsafe.imp id of_decide_eq_false
  simp only [importLog, mkLog, eval, exec]
  rw [hp, hins]

theorem replay_delAccMeta (now now' : Time) (strict : Bool) (n : Nat) (a key : String) (schema : Option Schema)
    (d1 d2 : Db) (sq1 sq2 sqR : Seqs) (p : Payload) (lid : Nat) (ik ihash sv : String)
    (h : eval now (body strict (.delAccMeta a key) n schema) d1 sq1 = some (p, d2, sq2))
    (hins : InsertsAs now' (mkLog lid p now ik ihash sv) d2 sqR)
    (hsafe : logSafe d1 (mkLog lid p now ik ihash sv) = true) :
    eval now' (importLog (mkLog lid p now ik ihash sv)) d1 sqR =
      some ((), { d2 with logs := d2.logs ++ [mkLog lid p now ik ihash sv] }, sqR) ∧ d2.volumes = d1.volumes ∧
    (importLog (mkLog lid p now ik ihash sv)).All Call.NoVol := by
  simp only [body, eval, exec, Option.some.injEq, Prod.mk.injEq] at h
  obtain ⟨rfl, rfl, _⟩ := h
  unfold InsertsAs at hins
  simp only [mkLog] at hins
  simp only [logSafe, mkLog, Option.isNone_iff_eq_none] at hsafe
  have hp : ∀ t, deleteAccountMeta t a key d1 = d1 := by
    intro t; unfold deleteAccountMeta; simp only [hsafe]
  refine ⟨?_, by rw [hp], importLog_noVol _ trivial⟩
  simp only [hp] at hins ⊢
  simp only [importLog, mkLog, eval, exec, hp, hins]

theorem Db.eq_of (d d' : Db) (h1 : d.txs = d'.txs) (h2 : d.accounts = d'.accounts) (h3 : d.volumes = d'.volumes)
    (h4 : d.logs = d'.logs) (h5 : d.schemas = d'.schemas) : d = d' := by
  cases d; cases d'; simp only at h1 h2 h3 h4 h5; subst h1 h2 h3 h4 h5; rfl

theorem eval_call_ok {α : Type} (now : Time) (c : Call) (k : c.Ret → Prog α) (d : Db) (sq sq' : Seqs) (r : c.Ret) (d' : Db)
    (h : exec now c d sq = (sq', .ok (r, d'))) : eval now (Prog.call c k) d sq = eval now (k r) d' sq' := by
  simp only [eval, h]

/-- The tail of every `importLog`: the log's own insertion, on tables with any volumes. -/
theorem eval_insert_frame (now' : Time) (L : Log) (d2 : Db) (v : PCV) (sqR : Seqs) (hins : InsertsAs now' L d2 sqR) :
    eval now' (Prog.call (Call.insertLog { id := some L.id, payload := L.payload, date := some L.date, ik := L.ik, ihash := L.ihash, schemaVersion := L.schemaVersion }) fun _ => Prog.pure ()) (d2.withVol v) sqR =
      some ((), ({ d2 with logs := d2.logs ++ [L] } : Db).withVol v, sqR) := by
  have hnv : (Prog.call (Call.insertLog { id := some L.id, payload := L.payload, date := some L.date, ik := L.ik, ihash := L.ihash, schemaVersion := L.schemaVersion }) fun _ => (Prog.pure () : Prog Unit)).All Call.NoVol :=
    .call _ _ (by exact trivial) (fun _ => .pure _)
  rw [eval_frame now' _ hnv d2 v sqR]
  unfold InsertsAs at hins
  simp only [eval, exec, hins, Option.map_some]

theorem eval_upsert_insert_tail (now now' : Time) (schema : Option Schema) (row : Tx) (am : Map String Meta) (li : LogIn)
    (dc : Db) (v : PCV) (sqR : Seqs) :
    eval now' (Prog.call (Call.upsertAccounts (accountRows schema row am)) fun _ =>
        Prog.call (Call.insertLog li) fun _ => Prog.pure ()) (dc.withVol v) sqR =
      eval now' (Prog.call (Call.insertLog li) fun _ => Prog.pure ())
        ((upsertAccounts now (accountRows schema row am) dc).withVol v) sqR := by
  rw [eval_call_ok now' _ _ _ sqR sqR () _ rfl, upsertAccounts_rows_now now' now]
  rfl

theorem replay_create (now now' : Time) (strict : Bool) (sv : String) (c : CreateIn)
    (machine : Prog MachineResult) (hm : machine.All Call.LockOnly) (d1 d2 : Db) (sq1 sq2 sqR : Seqs) (p : Payload)
    (lid : Nat) (ik ihash : String) (vR : PCV) (hv : VolRel d1.volumes vR)
    (hfound : sv ≠ "" → (findSchema sv d1).isSome = true)
    (h : eval now (createBody strict (if sv ≠ "" then findSchema sv d1 else none) c machine) d1 sq1 = some (p, d2, sq2))
    (hins : InsertsAs now' (mkLog lid p now ik ihash sv) d2 sqR) :
    ∃ vR', eval now' (importLog (mkLog lid p now ik ihash sv)) (d1.withVol vR) sqR =
      some ((), ({ d2 with logs := d2.logs ++ [mkLog lid p now ik ihash sv] } : Db).withVol vR', sqR) ∧
      VolRel d2.volumes vR' := by
  unfold createBody at h
  by_cases htr : templateRefused strict (if sv ≠ "" then findSchema sv d1 else none) c.template = true
  · rw [if_pos htr] at h; simp only [eval] at h; cases h
  · rw [if_neg htr] at h
    obtain ⟨r, dm, sqm, hmach, h⟩ := eval_bind_some now _ _ _ _ _ h
    obtain ⟨hms, hma, hmt, hml⟩ := eval_lockOnly now machine hm d1 sq1 _ hmach
    have hvr := eval_lockOnly_vol now machine hm d1 sq1 vR hv _ hmach
    simp only at hms hma hmt hml hvr
    by_cases hp : r.postings = []
    · rw [if_pos hp] at h; simp only [eval] at h; cases h
    · rw [if_neg hp] at h
      by_cases ho : metaOverride r.txMeta c.metadata = true
      · rw [if_pos ho] at h; simp only [eval] at h; cases h
      · rw [if_neg ho] at h
        obtain ⟨sqc, row, dc, hexc, h⟩ := eval_call_some now _ _ _ _ _ h
        simp only [eval, exec, Option.some.injEq, Prod.mk.injEq] at h
        obtain ⟨rfl, rfl, _⟩ := h
        simp only [exec] at hexc
        obtain ⟨hcm, hrel, htxs, hacc, hsch, hlogs⟩ := commit_replay now now' _ rfl rfl rfl dm (d1.withVol vR)
          sqm sqc sqR row dc hmt hvr hexc
        refine ⟨_, ?_, hrel⟩
        have hdc : ({ d1.withVol vR with
              volumes := (volumeUpdates r.postings).foldl addVolumes (d1.withVol vR).volumes,
              txs := (d1.withVol vR).txs ++ [row] } : Db) =
            dc.withVol ((volumeUpdates r.postings).foldl addVolumes (d1.withVol vR).volumes) :=
          Db.eq_of _ _ (by show d1.txs ++ [row] = dc.txs; rw [htxs, hmt]) (by show d1.accounts = dc.accounts; rw [hacc, hma]) rfl
            (by show d1.logs = dc.logs; rw [hlogs, hml]) (by show d1.schemas = dc.schemas; rw [hsch, hms])
        rw [hdc] at hcm
        simp only [importLog, mkLog]
        by_cases hsv : sv = ""
        · subst hsv
          simp only [ne_eq, not_true_eq_false, ↓reduceIte] at hins ⊢
          rw [eval_call_ok now' (Call.commitTransaction (txIn row)) _ _ sqR sqR (row : Tx) _ hcm, eval_upsert_insert_tail now now']
          exact eval_insert_frame now' _ _ _ sqR hins
        · obtain ⟨sc, hsc⟩ := Option.isSome_iff_exists.mp (hfound hsv)
          simp only [ne_eq, hsv, not_false_eq_true, ↓reduceIte, hsc] at hins ⊢
          have hfs : exec now' (Call.findSchema sv) (d1.withVol vR) sqR = (sqR, .ok (some sc, d1.withVol vR)) := by
            show (sqR, Except.ok (findSchema sv d1, d1.withVol vR)) = _
            rw [hsc]
          rw [eval_call_ok now' _ _ _ sqR sqR _ _ hfs]
          simp only
          rw [eval_call_ok now' (Call.commitTransaction (txIn row)) _ _ sqR sqR (row : Tx) _ hcm, eval_upsert_insert_tail now now']
          exact eval_insert_frame now' _ _ _ sqR hins

theorem findTx_id (d : Db) (id : Nat) (t : Tx) (h : d.findTx id = some t) : t.id = id := by
  unfold Db.findTx at h
  have := List.find?_some h
  simpa using this

theorem replay_revert (now now' : Time) (strict : Bool) (n : Nat) (id : Nat) (force aed : Bool) (m : Meta)
    (schema : Option Schema) (d1 d2 : Db) (sq1 sq2 sqR : Seqs) (p : Payload) (lid : Nat) (ik ihash sv : String)
    (vR : PCV) (hv : VolRel d1.volumes vR)
    (h : eval now (body strict (.revert id force aed m) n schema) d1 sq1 = some (p, d2, sq2))
    (hins : InsertsAs now' (mkLog lid p now ik ihash sv) d2 sqR) :
    ∃ vR', eval now' (importLog (mkLog lid p now ik ihash sv)) (d1.withVol vR) sqR =
      some ((), ({ d2 with logs := d2.logs ++ [mkLog lid p now ik ihash sv] } : Db).withVol vR', sqR) ∧
      VolRel d2.volumes vR' := by
  simp only [body, revertBody] at h
  obtain ⟨sqa, r, da, hex, h⟩ := eval_call_some now _ _ d1 sq1 _ h
  simp only [exec, revertTransaction, Prod.mk.injEq] at hex
  obtain ⟨_, hex⟩ := hex
  cases hf : d1.findTx id with
  | none => simp only [hf] at hex; cases hex
  | some t =>
    have hid := findTx_id d1 id t hf
    subst hid
    simp only [hf] at hex
    cases hr : t.revertedAt with
    | some w =>
      simp only [hr, Except.ok.injEq, Prod.mk.injEq] at hex
      obtain ⟨rfl, rfl⟩ := hex
      simp only [Bool.not_false, ↓reduceIte, eval] at h
      cases h
    | none =>
      simp only [hr, Except.ok.injEq, Prod.mk.injEq] at hex
      obtain ⟨rfl, rfl⟩ := hex
      simp only [Bool.not_true, Bool.false_eq_true, ↓reduceIte] at h
      obtain ⟨sqb, bal, db, hexb, h⟩ := eval_call_some now _ _ _ _ _ h
      simp only [exec, getBalances, Prod.mk.injEq, Except.ok.injEq] at hexb
      obtain ⟨_, _, rfl⟩ := hexb
      split at h
      · simp only [eval] at h; cases h
      · obtain ⟨sqc, row, dc, hexc, h⟩ := eval_call_some now _ _ _ _ _ h
        simp only [eval, Option.some.injEq, Prod.mk.injEq] at h
        obtain ⟨rfl, rfl, _⟩ := h
        simp only [exec] at hexc
        obtain ⟨hcm, hrel, htxs, hacc, hsch, hlogs⟩ := commit_replay now now' _ rfl rfl rfl _
          ((d1.withVol vR).modifyTx t.id fun x => { x with revertedAt := some now, updatedAt := now })
          sqb sqc sqR row dc (by rfl) (by exact hv.fold_lock _) hexc
        refine ⟨_, ?_, hrel⟩
        have hdc : ({ ((d1.withVol vR).modifyTx t.id fun x => { x with revertedAt := some now, updatedAt := now }) with
              volumes := (volumeUpdates (reversePostings t.postings)).foldl addVolumes vR,
              txs := ((d1.withVol vR).modifyTx t.id fun x => { x with revertedAt := some now, updatedAt := now }).txs ++ [row] } : Db) =
            dc.withVol ((volumeUpdates (reversePostings t.postings)).foldl addVolumes vR) :=
          Db.eq_of _ _ (htxs ▸ rfl) (hacc ▸ rfl) rfl (hlogs ▸ rfl) (hsch ▸ rfl)
        have hcm' : commitTransaction now' (txIn row)
            ((d1.withVol vR).modifyTx t.id fun x => { x with revertedAt := some now, updatedAt := now }) sqR =
            (sqR, .ok (row, dc.withVol ((volumeUpdates (reversePostings t.postings)).foldl addVolumes vR))) := by
          rw [← hdc]; exact hcm
        have hrv : exec now' (Call.revertTransaction t.id (some now)) (d1.withVol vR) sqR =
            (sqR, .ok (({ t with revertedAt := some now, updatedAt := now }, true),
              (d1.withVol vR).modifyTx t.id fun x => { x with revertedAt := some now, updatedAt := now })) := by
          have hf' : (d1.withVol vR).findTx t.id = some t := hf
          simp only [exec, revertTransaction, hf', hr]
        simp only [importLog, mkLog]
        rw [eval_call_ok now' _ _ _ sqR sqR _ _ hrv,
          eval_call_ok now' (Call.commitTransaction (txIn row)) _ _ sqR sqR (row : Tx) _ hcm']
        exact eval_insert_frame now' _ _ _ sqR hins

/-- Every operation's function, replayed on tables whose volumes are the live ones
    up to zero rows. -/
theorem replay_body (now now' : Time) (strict : Bool) (kind : OpKind) (n : Nat) (sv : String) (d1 d2 : Db)
    (sq1 sq2 sqR : Seqs) (p : Payload) (lid : Nat) (ik ihash : String) (vR : PCV) (hv : VolRel d1.volumes vR)
    (hfound : sv ≠ "" → (findSchema sv d1).isSome = true)
    (h : eval now (body strict kind n (if sv ≠ "" then findSchema sv d1 else none)) d1 sq1 = some (p, d2, sq2))
    (hins : InsertsAs now' (mkLog lid p now ik ihash sv) d2 sqR)
    (hsafe : logSafe d1 (mkLog lid p now ik ihash sv) = true) :
    ∃ vR', eval now' (importLog (mkLog lid p now ik ihash sv)) (d1.withVol vR) sqR =
      some ((), ({ d2 with logs := d2.logs ++ [mkLog lid p now ik ihash sv] } : Db).withVol vR', sqR) ∧
      VolRel d2.volumes vR' := by
  have simple : ∀ (_ : eval now' (importLog (mkLog lid p now ik ihash sv)) d1 sqR =
        some ((), { d2 with logs := d2.logs ++ [mkLog lid p now ik ihash sv] }, sqR) ∧ d2.volumes = d1.volumes ∧
        (importLog (mkLog lid p now ik ihash sv)).All Call.NoVol),
      ∃ vR', eval now' (importLog (mkLog lid p now ik ihash sv)) (d1.withVol vR) sqR =
        some ((), ({ d2 with logs := d2.logs ++ [mkLog lid p now ik ihash sv] } : Db).withVol vR', sqR) ∧
        VolRel d2.volumes vR' := by
    intro ⟨h1, h2, h3⟩
    refine ⟨vR, ?_, h2 ▸ hv⟩
    rw [eval_frame now' _ h3 d1 vR sqR, h1]
    rfl
  cases kind with
  | createP c ps force =>
    exact replay_create now now' strict sv c _ (postingsMachine_lockOnly ps force) d1 d2 sq1 sq2 sqR p lid ik ihash vR hv
      hfound h hins
  | createS c obs =>
    exact replay_create now now' strict sv c _ (scriptMachine_lockOnly obs n) d1 d2 sq1 sq2 sqR p lid ik ihash vR hv
      hfound h hins
  | revert id force aed m => exact replay_revert now now' strict n id force aed m _ d1 d2 sq1 sq2 sqR p lid ik ihash sv vR hv h hins
  | saveTxMeta id m => exact simple (replay_saveTxMeta now now' strict n id m _ d1 d2 sq1 sq2 sqR p lid ik ihash sv h hins)
  | saveAccMeta a m => exact simple (replay_saveAccMeta now now' strict n a m d1 d2 sq1 sq2 sqR p lid ik ihash sv h hins hsafe)
  | delTxMeta id key => exact simple (replay_delTxMeta now now' strict n id key _ d1 d2 sq1 sq2 sqR p lid ik ihash sv h hins)
  | delAccMeta a key => exact simple (replay_delAccMeta now now' strict n a key _ d1 d2 sq1 sq2 sqR p lid ik ihash sv h hins hsafe)
  | insertSchema v chart tpls bad =>
    exact simple (replay_insertSchema now now' strict n v chart tpls bad _ d1 d2 sq1 sq2 sqR p lid ik ihash sv h hins)

theorem eval_schemaPhase_found (now : Time) (strict : Bool) (kind : OpKind) (sv : String) (d : Db) (sq : Seqs)
    (x : Option Schema × Db × Seqs) (h : eval now (schemaPhase strict kind sv) d sq = some x) (hsv : sv ≠ "") :
    (findSchema sv d).isSome = true := by
  unfold schemaPhase at h
  simp only [ne_eq, hsv, not_false_eq_true, ↓reduceIte, eval, exec] at h
  cases hf : findSchema sv d with
  | none => simp only [hf, eval, exec] at h; cases h
  | some sc => rfl

theorem eval_logPhase_insert (now : Time) (strict : Bool) (ik ihash sv : String) (schema : Option Schema) (p : Payload)
    (d : Db) (sq : Seqs) (x : Log × Db × Seqs) (h : eval now (logPhase strict ik ihash sv schema p) d sq = some x) :
    insertLog now { payload := p, ik := ik, ihash := ihash, schemaVersion := sv } d sq = (x.2.2, .ok (x.1, x.2.1)) := by
  have key : ∀ y : Log × Db × Seqs,
      eval now (Prog.call (Call.insertLog { payload := p, ik := ik, ihash := ihash, schemaVersion := sv }) Prog.pure) d sq
        = some y → insertLog now { payload := p, ik := ik, ihash := ihash, schemaVersion := sv } d sq = (y.2.2, .ok (y.1, y.2.1)) := by
    intro y hy
    simp only [eval, exec] at hy
    split at hy
    · cases hy
    · rename_i sq' r d' heq
      simp only [eval, Option.some.injEq] at hy
      subst hy
      exact heq
  unfold logPhase at h
  cases schema with
  | none => simp only [Bool.false_eq_true, ↓reduceIte] at h; exact key x h
  | some sc =>
    simp only at h
    by_cases hb : (strict && !validPayload sc p) = true
    · rw [if_pos hb] at h; simp only [eval] at h; cases h
    · rw [if_neg hb] at h; exact key x h

/-- A complete `runLog`, replayed by `importLog` of its log on the tables it started
    from (volumes up to zero rows). -/
theorem runLog_replay (now now' : Time) (hn : String) (f : Faults) (strict : Bool) (kind : OpKind)
    (ik ihash sv : String) (n : Nat) (st0 st : RunSt) (log : Log) (sqR : Seqs) (vR : PCV)
    (h : run now hn f (runLog strict kind ik ihash sv n) st0 = (.ok log, st)) (hv : VolRel st0.db.volumes vR)
    (hsafe : logSafe st0.db log = true) :
    ∃ vR', eval now' (importLog log) (st0.db.withVol vR) sqR = some ((), st.db.withVol vR', sqR) ∧
      VolRel st.db.volumes vR' := by
  have hev := run_ok_eval now hn f _ st0 st log h
  unfold runLog at hev
  obtain ⟨schema, d1, sq1, h1, hev⟩ := eval_bind_some now _ _ _ _ _ hev
  obtain ⟨hsch, hd1⟩ := eval_schemaPhase now strict kind sv _ _ _ h1
  have hfound := eval_schemaPhase_found now strict kind sv _ _ _ h1
  simp only at hsch hd1
  subst hd1
  obtain ⟨p, d2, sq2, h2, h3⟩ := eval_bind_some now _ _ _ _ _ hev
  have hil := eval_logPhase_insert now strict ik ihash sv schema p d2 sq2 _ h3
  simp only at hil
  obtain ⟨hins, hlog, hdb⟩ := insertLog_replay now now' p ik ihash sv d2 st.db sq2 st.seq sqR log hil
  rw [hsch] at h2
  rw [hlog] at hsafe
  have hins' : InsertsAs now' (mkLog log.id p now ik ihash sv) d2 sqR := by
    unfold InsertsAs
    rw [← hlog, ← hdb]
    exact hins
  obtain ⟨vR', hev', hrel⟩ := replay_body now now' strict kind n sv st0.db d2 sq1 sq2 sqR p log.id ik ihash vR hv hfound h2
    hins' hsafe
  refine ⟨vR', ?_, ?_⟩
  · rw [hdb, hlog]; exact hev'
  · rw [hdb]; exact hrel

end Ledger.Ctrl
