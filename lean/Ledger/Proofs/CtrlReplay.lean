import Ledger.Proofs.CtrlReplayVol
import Ledger.Proofs.CtrlSpec

/-!
Replay: `importLog` of the log a committed write produced, run on the tables the
write started from, gives the tables the write ended with — provided `logSafe`.
-/
namespace Ledger.Ctrl
open Ledger.Base Ledger.Core

/-- `InsertLog` replayed with the explicit id and date of the live row. -/
theorem insertLog_replay (now now' : Time) (p : Payload) (ik ihash sv : String) (d d' : Db) (sq sq' sqR : Seqs) (log : Log)
    (h : insertLog now { payload := p, ik := ik, ihash := ihash, schemaVersion := sv } d sq = (sq', .ok (log, d'))) :
    insertLog now' { id := some log.id, payload := log.payload, date := some log.date, ik := log.ik,
                     ihash := log.ihash, schemaVersion := log.schemaVersion } d sqR = (sqR, .ok (log, d')) ∧
    log = mkLog log.id p now ik ihash sv ∧ d' = { d with logs := d.logs ++ [log] } := by
  unfold insertLog at h ⊢
  simp only at h ⊢
  split at h
  · simp only [Prod.mk.injEq] at h; exact nomatch h.2
  · split at h
    · simp only [Prod.mk.injEq] at h; exact nomatch h.2
    · rename_i h1 h2
      simp only [Prod.mk.injEq, Except.ok.injEq] at h
      obtain ⟨_, rfl, rfl⟩ := h
      simp only at h1 h2 ⊢
      rw [if_neg h1, if_neg h2]
      refine ⟨?_, ?_, ?_⟩ <;> first | rfl | trivial

theorem upsertAccount_now (now now' : Time) (accs : Map String Account) (r : AccIn) (f i u : Time)
    (h1 : r.firstUsage = some f) (h2 : r.insertionDate = some i) (h3 : r.updatedAt = some u) :
    upsertAccount now accs r = upsertAccount now' accs r := by
  unfold upsertAccount
  simp only [h1, h2, h3]

theorem upsertAccounts_rows_now (now now' : Time) (schema : Option Schema) (tx : Tx) (am : Map String Meta) (d : Db) :
    upsertAccounts now (accountRows schema tx am) d = upsertAccounts now' (accountRows schema tx am) d := by
  unfold upsertAccounts accountRows
  simp only [List.foldl_map]
  congr 1

/-- `CommitTransaction` replayed with the explicit id and dates of the live row, on
    tables with the same transactions and the same `UpdateVolumes` result. -/
theorem commit_replay (now now' : Time) (t : TxIn) (ht : t.id = none) (hti : t.insertedAt = none)
    (htu : t.updatedAt = none) (dm d1 : Db) (sq sq' sqR : Seqs) (row : Tx) (dm' : Db)
    (htx : dm.txs = d1.txs)
    (hv : updateVolumes (volumeUpdates t.postings) dm.volumes = updateVolumes (volumeUpdates t.postings) d1.volumes)
    (h : commitTransaction now t dm sq = (sq', .ok (row, dm'))) :
    commitTransaction now' (txIn row) d1 sqR = (sqR, .ok (row, { d1 with volumes := dm'.volumes, txs := dm'.txs })) ∧
    dm'.volumes = (updateVolumes (volumeUpdates t.postings) dm.volumes).2 ∧ row.postings = t.postings ∧
    dm'.txs = dm.txs ++ [row] ∧ dm'.accounts = dm.accounts ∧ dm'.schemas = dm.schemas ∧ dm'.logs = dm.logs := by
  unfold commitTransaction at h ⊢
  simp only [ht, hti, htu] at h
  split at h
  · simp only [Prod.mk.injEq] at h; exact nomatch h.2
  · split at h
    · simp only [Prod.mk.injEq] at h; exact nomatch h.2
    · rename_i h1 h2
      simp only [Prod.mk.injEq, Except.ok.injEq] at h
      obtain ⟨_, rfl, rfl⟩ := h
      simp only [txIn, ← htx, ← hv]
      split
      · rename_i h1'; exact absurd h1' h1
      · split
        · rename_i h2'; exact absurd h2' h2
        · refine ⟨?_, ?_, ?_, ?_, ?_, ?_, ?_⟩ <;> first | rfl | trivial

/-- The imported log's own insertion, as every per-kind lemma needs it. -/
def InsertsAs (now' : Time) (L : Log) (d2 : Db) (sqR : Seqs) : Prop :=
  insertLog now' { id := some L.id, payload := L.payload, date := some L.date, ik := L.ik,
                   ihash := L.ihash, schemaVersion := L.schemaVersion } d2 sqR
    = (sqR, .ok (L, { d2 with logs := d2.logs ++ [L] }))

theorem replay_saveTxMeta (now now' : Time) (strict : Bool) (n : Nat) (id : Nat) (m : Meta) (schema : Option Schema)
    (d1 d2 : Db) (sq1 sq2 sqR : Seqs) (p : Payload) (lid : Nat) (ik ihash sv : String)
    (h : eval now (body strict (.saveTxMeta id m) n schema) d1 sq1 = some (p, d2, sq2))
    (hins : InsertsAs now' (mkLog lid p now ik ihash sv) d2 sqR) :
    eval now' (importLog (mkLog lid p now ik ihash sv)) d1 sqR =
      some ((), { d2 with logs := d2.logs ++ [mkLog lid p now ik ihash sv] }, sqR) ∧ d2.volumes = d1.volumes := by
  simp only [body, eval, exec, updateTxMeta] at h
  cases hf : d1.findTx id with
  | none => simp only [hf, eval] at h; cases h
  | some t =>
    simp only [hf, eval, Option.some.injEq, Prod.mk.injEq] at h
    obtain ⟨rfl, rfl, _⟩ := h
    unfold InsertsAs at hins
    simp only [mkLog] at hins
    simp only [importLog, mkLog, eval, exec, updateTxMeta, hf, hins]
    refine ⟨?_, ?_⟩ <;> first | rfl | trivial

theorem replay_delTxMeta (now now' : Time) (strict : Bool) (n : Nat) (id : Nat) (key : String) (schema : Option Schema)
    (d1 d2 : Db) (sq1 sq2 sqR : Seqs) (p : Payload) (lid : Nat) (ik ihash sv : String)
    (h : eval now (body strict (.delTxMeta id key) n schema) d1 sq1 = some (p, d2, sq2))
    (hins : InsertsAs now' (mkLog lid p now ik ihash sv) d2 sqR) :
    eval now' (importLog (mkLog lid p now ik ihash sv)) d1 sqR =
      some ((), { d2 with logs := d2.logs ++ [mkLog lid p now ik ihash sv] }, sqR) ∧ d2.volumes = d1.volumes := by
  simp only [body, eval, exec, deleteTxMeta] at h
  cases hf : d1.findTx id with
  | none => simp only [hf, eval] at h; cases h
  | some t =>
    simp only [hf, eval] at h
    by_cases hc : t.metadata.contains key = true
    · simp only [hc, ↓reduceIte, eval, Option.some.injEq, Prod.mk.injEq] at h
      obtain ⟨rfl, rfl, _⟩ := h
      unfold InsertsAs at hins
      simp only [mkLog] at hins
      simp only [importLog, mkLog, eval, exec, deleteTxMeta, hf, hins]
      refine ⟨?_, ?_⟩ <;> first | rfl | trivial
    · simp only [hc, Bool.false_eq_true, ↓reduceIte, eval] at h; cases h

theorem replay_insertSchema (now now' : Time) (strict : Bool) (n : Nat) (version : String)
    (chart : Option (String × List (String × Meta))) (tpls : List String) (bad : Bool) (schema : Option Schema)
    (d1 d2 : Db) (sq1 sq2 sqR : Seqs) (p : Payload) (lid : Nat) (ik ihash sv : String)
    (h : eval now (body strict (.insertSchema version chart tpls bad) n schema) d1 sq1 = some (p, d2, sq2))
    (hins : InsertsAs now' (mkLog lid p now ik ihash sv) d2 sqR) :
    eval now' (importLog (mkLog lid p now ik ihash sv)) d1 sqR =
      some ((), { d2 with logs := d2.logs ++ [mkLog lid p now ik ihash sv] }, sqR) ∧ d2.volumes = d1.volumes := by
  simp only [body] at h
  cases chart with
  | none => simp only [eval] at h; cases h
  | some c =>
    obtain ⟨raw, table⟩ := c
    simp only at h
    cases bad with
    | true => simp only [↓reduceIte, eval] at h; cases h
    | false =>
      simp only [Bool.false_eq_true, ↓reduceIte, eval, exec, insertSchema] at h
      by_cases hdup : (d1.schemas.any fun x => decide (x.version = version)) = true
      · simp only [hdup, ↓reduceIte, eval] at h; cases h
      · simp only [hdup, Bool.false_eq_true, ↓reduceIte, eval, Option.some.injEq, Prod.mk.injEq] at h
        obtain ⟨rfl, rfl, _⟩ := h
        unfold InsertsAs at hins
        simp only [mkLog] at hins
        simp only [importLog, mkLog, eval, exec, insertSchema, hdup, Bool.false_eq_true, ↓reduceIte, hins]
        refine ⟨?_, ?_⟩ <;> first | rfl | trivial

/-- Account `SET_METADATA`: live `UpsertAccounts` (NULL dates, chart defaults) against the
    replay's `UpdateAccountsMetadata(…, log date)`, under the two safety conditions. -/
theorem saveAcc_paths_agree (now now' : Time) (a : String) (m D : Meta) (d : Db)
    (hnone : d.accounts.get? a = none → metaMerge D m = metaMerge [] m)
    (hsome : ∀ acc, d.accounts.get? a = some acc → metaContains acc.metadata m = true ∨ ¬ now < acc.firstUsage) :
    updateAccountsMeta now' [(a, m)] (some now) d = upsertAccounts now [{ address := a, metadata := m, defaults := D }] d := by
  unfold updateAccountsMeta upsertAccounts
  simp only [List.foldl_cons, List.foldl_nil]
  congr 1
  unfold updateAccountMeta upsertAccount
  cases hg : d.accounts.get? a with
  | none => simp only [hnone hg]
  | some acc =>
    simp only [Bool.false_or]
    by_cases hc : metaContains acc.metadata m = true
    · simp only [hc, ↓reduceIte, Bool.not_true, Bool.false_eq_true]
    · rcases hsome acc hg with hs | hs
      · exact absurd hs hc
      · simp only [hc, Bool.false_eq_true, ↓reduceIte, Bool.not_false, if_neg hs]

theorem replay_saveAccMeta (now now' : Time) (strict : Bool) (n : Nat) (a : String) (m : Meta)
    (d1 d2 : Db) (sq1 sq2 sqR : Seqs) (p : Payload) (lid : Nat) (ik ihash sv : String)
    (h : eval now (body strict (.saveAccMeta a m) n (if sv ≠ "" then findSchema sv d1 else none)) d1 sq1 = some (p, d2, sq2))
    (hins : InsertsAs now' (mkLog lid p now ik ihash sv) d2 sqR)
    (hsafe : logSafe d1 { d2 with logs := d2.logs ++ [mkLog lid p now ik ihash sv] } (mkLog lid p now ik ihash sv) = true) :
    eval now' (importLog (mkLog lid p now ik ihash sv)) d1 sqR =
      some ((), { d2 with logs := d2.logs ++ [mkLog lid p now ik ihash sv] }, sqR) ∧ d2.volumes = d1.volumes := by
  simp only [body, saveAccMetaBody, eval, exec, Option.some.injEq, Prod.mk.injEq] at h
  obtain ⟨rfl, rfl, _⟩ := h
  unfold InsertsAs at hins
  simp only [mkLog] at hins
  have hp : updateAccountsMeta now' [(a, m)] (some now) d1 = upsertAccounts now
      [{ address := a, metadata := m, defaults := defaultsOf (if sv ≠ "" then findSchema sv d1 else none) a }] d1 := by
    apply saveAcc_paths_agree
    · intro hg
      simp only [logSafe, mkLog, hg] at hsafe
      exact of_decide_eq_true hsafe
    · intro acc hg
      simp only [logSafe, mkLog, hg, Bool.or_eq_true, Bool.not_eq_true'] at hsafe
      exact hsafe.imp id of_decide_eq_false
  simp only [importLog, mkLog, eval, exec]
  rw [hp, hins]
  refine ⟨?_, ?_⟩ <;> first | rfl | trivial

theorem replay_delAccMeta (now now' : Time) (strict : Bool) (n : Nat) (a key : String) (schema : Option Schema)
    (d1 d2 : Db) (sq1 sq2 sqR : Seqs) (p : Payload) (lid : Nat) (ik ihash sv : String)
    (h : eval now (body strict (.delAccMeta a key) n schema) d1 sq1 = some (p, d2, sq2))
    (hins : InsertsAs now' (mkLog lid p now ik ihash sv) d2 sqR)
    (hsafe : logSafe d1 { d2 with logs := d2.logs ++ [mkLog lid p now ik ihash sv] } (mkLog lid p now ik ihash sv) = true) :
    eval now' (importLog (mkLog lid p now ik ihash sv)) d1 sqR =
      some ((), { d2 with logs := d2.logs ++ [mkLog lid p now ik ihash sv] }, sqR) ∧ d2.volumes = d1.volumes := by
  simp only [body, eval, exec, Option.some.injEq, Prod.mk.injEq] at h
  obtain ⟨rfl, rfl, _⟩ := h
  unfold InsertsAs at hins
  simp only [mkLog] at hins
  simp only [logSafe, mkLog, Option.isNone_iff_eq_none] at hsafe
  have hp : ∀ t, deleteAccountMeta t a key d1 = d1 := by
    intro t; unfold deleteAccountMeta; simp only [hsafe]
  simp only [hp] at hins ⊢
  simp only [importLog, mkLog, eval, exec, hp, hins]
  refine ⟨?_, ?_⟩ <;> first | rfl | trivial

theorem Db.eq_of (d d' : Db) (h1 : d.txs = d'.txs) (h2 : d.accounts = d'.accounts) (h3 : d.volumes = d'.volumes)
    (h4 : d.logs = d'.logs) (h5 : d.schemas = d'.schemas) : d = d' := by
  cases d; cases d'; simp only at h1 h2 h3 h4 h5; subst h1 h2 h3 h4 h5; rfl

theorem updateVolumes_fold (ups v : PCV) : (updateVolumes ups v).2 = ups.foldl addVolumes v := rfl

theorem updateVolumes_congr (ups v1 v2 : PCV) (h : ups.foldl addVolumes v1 = ups.foldl addVolumes v2) :
    updateVolumes ups v1 = updateVolumes ups v2 := by
  unfold updateVolumes
  simp only [h]

/-- Live commit after a lock-only prefix against the replayed commit, when the live
    result is covered. -/
theorem commit_replay_covered (now now' : Time) (t : TxIn) (ht : t.id = none) (hti : t.insertedAt = none)
    (htu : t.updatedAt = none) (d1 dm : Db) (sq sq' sqR : Seqs) (row : Tx) (dm' : Db)
    (htx : dm.txs = d1.txs) (hv : VolRel dm.volumes d1.volumes)
    (h : commitTransaction now t dm sq = (sq', .ok (row, dm')))
    (hc : ∀ k ∈ dm'.volumes.keys, d1.volumes.contains k = true ∨ (volumeUpdates row.postings).contains k = true) :
    commitTransaction now' (txIn row) d1 sqR = (sqR, .ok (row, { d1 with volumes := dm'.volumes, txs := dm'.txs })) ∧
    Map.WF dm'.volumes ∧
    dm'.txs = dm.txs ++ [row] ∧ dm'.accounts = dm.accounts ∧ dm'.schemas = dm.schemas ∧ dm'.logs = dm.logs := by
  have hfold : (volumeUpdates t.postings).foldl addVolumes dm.volumes =
      (volumeUpdates t.postings).foldl addVolumes d1.volumes := by
    apply hv.covered_eq
    intro k hk
    have h0 := commit_replay now now' t ht hti htu dm dm sq sq' sqR row dm' rfl rfl h
    rw [h0.2.2.1] at hc
    apply hc
    rw [h0.2.1, updateVolumes_fold]
    exact hk
  have h0 := commit_replay now now' t ht hti htu dm d1 sq sq' sqR row dm' htx
    (updateVolumes_congr _ _ _ hfold) h
  refine ⟨h0.1, ?_, h0.2.2.2⟩
  rw [h0.2.1, updateVolumes_fold]
  exact (hv.fold_add _).wf1

theorem covered_of_safe (d d' : Db) (ps : List Posting) (h : volumesCovered d d' ps = true) :
    ∀ k ∈ d'.volumes.keys, d.volumes.contains k = true ∨ (volumeUpdates ps).contains k = true := by
  intro k hk
  unfold volumesCovered at h
  have := List.all_eq_true.mp h k hk
  simpa only [Bool.or_eq_true] using this

theorem replay_create (now now' : Time) (strict : Bool) (sv : String) (c : CreateIn)
    (machine : Prog MachineResult) (hm : machine.All Call.LockOnly) (d1 d2 : Db) (sq1 sq2 sqR : Seqs) (p : Payload)
    (lid : Nat) (ik ihash : String) (hw : Map.WF d1.volumes)
    (hfound : sv ≠ "" → (findSchema sv d1).isSome = true)
    (h : eval now (createBody strict (if sv ≠ "" then findSchema sv d1 else none) c machine) d1 sq1 = some (p, d2, sq2))
    (hins : InsertsAs now' (mkLog lid p now ik ihash sv) d2 sqR)
    (hsafe : logSafe d1 { d2 with logs := d2.logs ++ [mkLog lid p now ik ihash sv] } (mkLog lid p now ik ihash sv) = true) :
    eval now' (importLog (mkLog lid p now ik ihash sv)) d1 sqR =
      some ((), { d2 with logs := d2.logs ++ [mkLog lid p now ik ihash sv] }, sqR) ∧ Map.WF d2.volumes := by
  unfold createBody at h
  by_cases htr : templateRefused strict (if sv ≠ "" then findSchema sv d1 else none) c.template = true
  · rw [if_pos htr] at h; simp only [eval] at h; cases h
  · rw [if_neg htr] at h
    obtain ⟨r, dm, sqm, hmach, h⟩ := eval_bind_some now _ _ _ _ _ h
    obtain ⟨hms, hma, hmt, hml⟩ := eval_lockOnly now machine hm d1 sq1 _ hmach
    have hvr := eval_lockOnly_vol now machine hm d1 sq1 d1.volumes (VolRel.refl hw) _ hmach
    simp only at hms hma hmt hml hvr
    by_cases hp : r.postings = []
    · rw [if_pos hp] at h; simp only [eval] at h; cases h
    · rw [if_neg hp] at h
      by_cases ho : metaOverride r.txMeta c.metadata = true
      · rw [if_pos ho] at h; simp only [eval] at h; cases h
      · rw [if_neg ho] at h
        obtain ⟨sqc, row, dc, hexc, h⟩ := eval_call_some now _ _ _ _ _ h
        simp only [eval, exec, Option.some.injEq, Prod.mk.injEq] at h
        obtain ⟨rfl, rfl, _⟩ := h
        simp only [exec] at hexc
        have hcov := covered_of_safe _ _ _ (by simpa only [logSafe, mkLog] using hsafe)
        obtain ⟨hcm, hwf, htxs, hacc, hsch, hlogs⟩ := commit_replay_covered now now' _ rfl rfl rfl d1 dm sqm sqc sqR row dc
          hmt hvr hexc hcov
        have hdc : ({ d1 with volumes := dc.volumes, txs := dc.txs } : Db) = dc :=
          Db.eq_of _ _ rfl (by rw [hacc, hma]) rfl (by rw [hlogs, hml]) (by rw [hsch, hms])
        refine ⟨?_, hwf⟩
        unfold InsertsAs at hins
        simp only [mkLog] at hins
        simp only [importLog, mkLog]
        by_cases hsv : sv = ""
        · subst hsv
          simp only [ne_eq, not_true_eq_false, ↓reduceIte, eval, exec, hcm, hdc] at hins ⊢
          rw [upsertAccounts_rows_now now' now, hins]
        · obtain ⟨sc, hsc⟩ := Option.isSome_iff_exists.mp (hfound hsv)
          simp only [ne_eq, hsv, not_false_eq_true, ↓reduceIte, eval, exec, hsc, hcm, hdc] at hins ⊢
          rw [upsertAccounts_rows_now now' now, hins]

theorem findTx_id (d : Db) (id : Nat) (t : Tx) (h : d.findTx id = some t) : t.id = id := by
  unfold Db.findTx at h
  have := List.find?_some h
  simpa using this

theorem replay_revert (now now' : Time) (strict : Bool) (n : Nat) (id : Nat) (force aed : Bool) (m : Meta)
    (schema : Option Schema) (d1 d2 : Db) (sq1 sq2 sqR : Seqs) (p : Payload) (lid : Nat) (ik ihash sv : String)
    (hw : Map.WF d1.volumes)
    (h : eval now (body strict (.revert id force aed m) n schema) d1 sq1 = some (p, d2, sq2))
    (hins : InsertsAs now' (mkLog lid p now ik ihash sv) d2 sqR)
    (hsafe : logSafe d1 { d2 with logs := d2.logs ++ [mkLog lid p now ik ihash sv] } (mkLog lid p now ik ihash sv) = true) :
    eval now' (importLog (mkLog lid p now ik ihash sv)) d1 sqR =
      some ((), { d2 with logs := d2.logs ++ [mkLog lid p now ik ihash sv] }, sqR) ∧ Map.WF d2.volumes := by
  simp only [body, revertBody] at h
  obtain ⟨sqa, r, da, hex, h⟩ := eval_call_some now _ _ d1 sq1 _ h
  simp only [exec, revertTransaction, Prod.mk.injEq] at hex
  obtain ⟨_, hex⟩ := hex
  cases hf : d1.findTx id with
  | none => simp only [hf] at hex; cases hex
  | some t =>
    have hid := findTx_id d1 id t hf
    subst hid
    simp only [hf] at hex
    cases hr : t.revertedAt with
    | some w =>
      simp only [hr, Except.ok.injEq, Prod.mk.injEq] at hex
      obtain ⟨rfl, rfl⟩ := hex
      simp only [Bool.not_false, ↓reduceIte, eval] at h
      cases h
    | none =>
      simp only [hr, Except.ok.injEq, Prod.mk.injEq] at hex
      obtain ⟨rfl, rfl⟩ := hex
      simp only [Bool.not_true, Bool.false_eq_true, ↓reduceIte] at h
      obtain ⟨sqb, bal, db, hexb, h⟩ := eval_call_some now _ _ _ _ _ h
      simp only [exec, getBalances, Prod.mk.injEq, Except.ok.injEq] at hexb
      obtain ⟨_, _, rfl⟩ := hexb
      split at h
      · simp only [eval] at h; cases h
      · obtain ⟨sqc, row, dc, hexc, h⟩ := eval_call_some now _ _ _ _ _ h
        simp only [eval, Option.some.injEq, Prod.mk.injEq] at h
        obtain ⟨rfl, rfl, _⟩ := h
        simp only [exec] at hexc
        have hcov := covered_of_safe _ _ _ (by simpa only [logSafe, mkLog] using hsafe)
        obtain ⟨hcm, hwf, htxs, hacc, hsch, hlogs⟩ := commit_replay_covered now now' _ rfl rfl rfl
          (d1.modifyTx t.id fun x => { x with revertedAt := some now, updatedAt := now }) _ sqb sqc sqR row dc
          (by rfl) (by exact (VolRel.refl hw).fold_lock _) hexc hcov
        have hdc : ({ (d1.modifyTx t.id fun x => { x with revertedAt := some now, updatedAt := now }) with
              volumes := dc.volumes, txs := dc.txs } : Db) = dc :=
          Db.eq_of _ _ rfl (by rw [hacc]) rfl (by rw [hlogs]) (by rw [hsch])
        refine ⟨?_, hwf⟩
        unfold InsertsAs at hins
        simp only [mkLog] at hins
        simp only [importLog, mkLog, eval, exec, revertTransaction, hf, hr, hcm, hdc]
        rw [hins]

/-- Every operation's function, replayed. -/
theorem replay_body (now now' : Time) (strict : Bool) (kind : OpKind) (n : Nat) (sv : String) (d1 d2 : Db)
    (sq1 sq2 sqR : Seqs) (p : Payload) (lid : Nat) (ik ihash : String) (hw : Map.WF d1.volumes)
    (hfound : sv ≠ "" → (findSchema sv d1).isSome = true)
    (h : eval now (body strict kind n (if sv ≠ "" then findSchema sv d1 else none)) d1 sq1 = some (p, d2, sq2))
    (hins : InsertsAs now' (mkLog lid p now ik ihash sv) d2 sqR)
    (hsafe : logSafe d1 { d2 with logs := d2.logs ++ [mkLog lid p now ik ihash sv] } (mkLog lid p now ik ihash sv) = true) :
    eval now' (importLog (mkLog lid p now ik ihash sv)) d1 sqR =
      some ((), { d2 with logs := d2.logs ++ [mkLog lid p now ik ihash sv] }, sqR) ∧ Map.WF d2.volumes := by
  cases kind with
  | createP c ps force =>
    exact replay_create now now' strict sv c _ (postingsMachine_lockOnly ps force) d1 d2 sq1 sq2 sqR p lid ik ihash hw
      hfound h hins hsafe
  | createS c obs =>
    exact replay_create now now' strict sv c _ (scriptMachine_lockOnly obs n) d1 d2 sq1 sq2 sqR p lid ik ihash hw
      hfound h hins hsafe
  | revert id force aed m => exact replay_revert now now' strict n id force aed m _ d1 d2 sq1 sq2 sqR p lid ik ihash sv hw h hins hsafe
  | saveTxMeta id m =>
    have := replay_saveTxMeta now now' strict n id m _ d1 d2 sq1 sq2 sqR p lid ik ihash sv h hins
    exact ⟨this.1, this.2 ▸ hw⟩
  | saveAccMeta a m =>
    have := replay_saveAccMeta now now' strict n a m d1 d2 sq1 sq2 sqR p lid ik ihash sv h hins hsafe
    exact ⟨this.1, this.2 ▸ hw⟩
  | delTxMeta id key =>
    have := replay_delTxMeta now now' strict n id key _ d1 d2 sq1 sq2 sqR p lid ik ihash sv h hins
    exact ⟨this.1, this.2 ▸ hw⟩
  | delAccMeta a key =>
    have := replay_delAccMeta now now' strict n a key _ d1 d2 sq1 sq2 sqR p lid ik ihash sv h hins hsafe
    exact ⟨this.1, this.2 ▸ hw⟩
  | insertSchema v chart tpls bad =>
    have := replay_insertSchema now now' strict n v chart tpls bad _ d1 d2 sq1 sq2 sqR p lid ik ihash sv h hins
    exact ⟨this.1, this.2 ▸ hw⟩

theorem eval_schemaPhase_found (now : Time) (strict : Bool) (kind : OpKind) (sv : String) (d : Db) (sq : Seqs)
    (x : Option Schema × Db × Seqs) (h : eval now (schemaPhase strict kind sv) d sq = some x) (hsv : sv ≠ "") :
    (findSchema sv d).isSome = true := by
  unfold schemaPhase at h
  simp only [ne_eq, hsv, not_false_eq_true, ↓reduceIte, eval, exec] at h
  cases hf : findSchema sv d with
  | none => simp only [hf, eval, exec] at h; cases h
  | some sc => rfl

theorem eval_logPhase_insert (now : Time) (strict : Bool) (ik ihash sv : String) (schema : Option Schema) (p : Payload)
    (d : Db) (sq : Seqs) (x : Log × Db × Seqs) (h : eval now (logPhase strict ik ihash sv schema p) d sq = some x) :
    insertLog now { payload := p, ik := ik, ihash := ihash, schemaVersion := sv } d sq = (x.2.2, .ok (x.1, x.2.1)) := by
  have key : ∀ y : Log × Db × Seqs,
      eval now (Prog.call (Call.insertLog { payload := p, ik := ik, ihash := ihash, schemaVersion := sv }) Prog.pure) d sq
        = some y → insertLog now { payload := p, ik := ik, ihash := ihash, schemaVersion := sv } d sq = (y.2.2, .ok (y.1, y.2.1)) := by
    intro y hy
    simp only [eval, exec] at hy
    split at hy
    · cases hy
    · rename_i sq' r d' heq
      simp only [eval, Option.some.injEq] at hy
      subst hy
      exact heq
  unfold logPhase at h
  cases schema with
  | none => simp only [Bool.false_eq_true, ↓reduceIte] at h; exact key x h
  | some sc =>
    simp only at h
    by_cases hb : (strict && !validPayload sc p) = true
    · rw [if_pos hb] at h; simp only [eval] at h; cases h
    · rw [if_neg hb] at h; exact key x h

/-- A complete `runLog`, replayed by `importLog` of its log on the tables it started from. -/
theorem runLog_replay (now now' : Time) (hn : String) (f : Faults) (strict : Bool) (kind : OpKind)
    (ik ihash sv : String) (n : Nat) (st0 st : RunSt) (log : Log) (sqR : Seqs)
    (h : run now hn f (runLog strict kind ik ihash sv n) st0 = (.ok log, st)) (hw : Map.WF st0.db.volumes)
    (hsafe : logSafe st0.db st.db log = true) :
    eval now' (importLog log) st0.db sqR = some ((), st.db, sqR) ∧ Map.WF st.db.volumes := by
  have hev := run_ok_eval now hn f _ st0 st log h
  unfold runLog at hev
  obtain ⟨schema, d1, sq1, h1, hev⟩ := eval_bind_some now _ _ _ _ _ hev
  obtain ⟨hsch, hd1⟩ := eval_schemaPhase now strict kind sv _ _ _ h1
  have hfound := eval_schemaPhase_found now strict kind sv _ _ _ h1
  simp only at hsch hd1
  subst hd1
  obtain ⟨p, d2, sq2, h2, h3⟩ := eval_bind_some now _ _ _ _ _ hev
  have hil := eval_logPhase_insert now strict ik ihash sv schema p d2 sq2 _ h3
  simp only at hil
  obtain ⟨hins, hlog, hdb⟩ := insertLog_replay now now' p ik ihash sv d2 st.db sq2 st.seq sqR log hil
  rw [hsch] at h2
  rw [hdb, hlog] at hsafe ⊢
  have hins' : InsertsAs now' (mkLog log.id p now ik ihash sv) d2 sqR := by
    unfold InsertsAs
    rw [← hlog, ← hdb]
    exact hins
  have := replay_body now now' strict kind n sv st0.db d2 sq1 sq2 sqR p log.id ik ihash hw hfound h2 hins' hsafe
  exact this

end Ledger.Ctrl
