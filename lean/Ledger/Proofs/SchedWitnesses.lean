import Ledger.Sched.Writers
import Ledger.Proofs.SchedHandles
import Ledger.Sql.Tests

/-!
# Witness worlds, schedules and programs used by the `…_counterexample` theorems and the examples
of `Ledger/Props/C06.lean`, `C34.lean`, `C09s … C16s.lean` (Props files hold theorems and examples only).
-/

namespace Ledger.C06
open Ledger.Sched

/-- writers A and B each send 10 from the never-used pair 1 with `allowing overdraft up to 10` -/
def cxA : Send := { l := 1, sync := false, src := 1, dst := 2, amt := 10, allow := .bounded 10 }

def cxB : Send := { l := 1, sync := false, src := 1, dst := 3, amt := 10, allow := .bounded 10 }

def cxWorld : World :=
  { sess := fun s => if s = 1 then { prog := sendProg cxA true } else if s = 2 then { prog := sendProg cxB true } else {} }

/-- A: BEGIN, GetBalances (inserts the zero row) · B: BEGIN, GetBalances (waits for A's in-progress row) ·
    A: UpdateVolumes, InsertTransaction, UpsertAccounts, InsertLog, COMMIT · B: GetBalances resumes — `ins` skips, the
    `SELECT … FOR UPDATE` shares the statement's first snapshot, sees no row, locks nothing, reads 0 — then
    UpdateVolumes, InsertTransaction, UpsertAccounts, InsertLog, COMMIT -/
def cxSchedule : Schedule := [1, 1, 2, 2, 1, 1, 1, 1, 1, 2, 2, 2, 2, 2, 2]

end Ledger.C06

namespace Ledger.C34
open Ledger.Sched

/-- chained from `last`: every block starts where the previous one ends and is not empty -/
def ChainedFrom : Nat → List Blk → Prop
  | _, [] => True
  | last, b :: r => b.from_ = last ∧ last < b.to ∧ ChainedFrom b.to r

def cxA : Send := { l := 1, sync := false, src := 1, dst := 2, amt := 1, allow := .unbounded }

def cxB : Send := { l := 1, sync := false, src := 3, dst := 4, amt := 1, allow := .unbounded }

def cxWorld : World :=
  { sess := fun s =>
      if s = 1 then { prog := sendProg cxA true } else if s = 2 then { prog := sendProg cxB true }
      else if s = 3 ∨ s = 4 then { prog := blocksProg 1 100 } else {} }

/-- A: BEGIN, UpdateVolumes, InsertTransaction, UpsertAccounts, InsertLog (log id 1, uncommitted) · B: whole request (log id 2), COMMIT ·
    block builder: `create_blocks` → block (0, 2] hashed over log 2 only · A: COMMIT · block builder again (quiescence) -/
def cxSchedule : Schedule := [1, 1, 1, 1, 1, 2, 2, 2, 2, 2, 2, 3, 1, 4]

end Ledger.C34

namespace Ledger.C09s
open Ledger.Sched

/-- tie (regenerated): in every SYNC write path of the real code the advisory lock is taken
    immediately before the log INSERT, on the same transaction (or savepoint of it) -/
def lockBeforeInsert : List (Kind × Handle) → Bool
  | [] => true
  | [(.insertLog, _)] => false
  | (.insertLog, _) :: _ => false
  | (.advLockLog, h) :: (.insertLog, h') :: r => h == h' && h != .conn && lockBeforeInsert r
  | _ :: r => lockBeforeInsert r

def exA : Send := { l := 1, sync := true, src := 1, dst := 2, amt := 1, allow := .unbounded }

def exB : Send := { l := 1, sync := true, src := 3, dst := 4, amt := 1, allow := .unbounded }

def exWorld : World :=
  { sess := fun s => if s = 1 then { prog := sendProg exA true } else if s = 2 then { prog := sendProg exB true } else {} }

/-- the lock taken AFTER the insert (a breaking change of InsertLog): both logs chain from nothing -/
def lateLock (q : Send) : Prog :=
  .stmt .begin fun _ => .stmt (.updateVolumes [(q.src, -1), (q.dst, 1)]) fun _ => .stmt (.insertTx 1 0 none) fun o =>
    .stmt (.insertLog 1 0 0 true none (headNat o)) fun _ => .stmt (.advLockLog 1) fun _ => .stmt .commit fun _ => .done {}

end Ledger.C09s

namespace Ledger.C12s
open Ledger.Sched

def exW : Send := { l := 1, sync := false, src := 5, dst := 6, amt := 2, allow := .unbounded }

def exWorld (writer : Prog) : World :=
  { state := fun l => if l = 1 then { com := some false } else {}
    sess := fun s => if s = 1 then { prog := importProg 1 false exImp } else if s = 2 then { prog := writer } else {} }

end Ledger.C12s

namespace Ledger.C13s
open Ledger.Sched

/-- two requests with the same key and the same input: send 10 from a pair holding exactly 10 -/
def cxReq : Send := { l := 1, sync := false, src := 1, dst := 2, amt := 10, allow := .bounded 0, ik := 1, hash := 7 }

def cxProg (recheck : Bool) : Prog := forgeLogG recheck topTx cxReq.l cxReq.ik cxReq.hash (sendBody cxReq) .done

def cxWorld (recheck : Bool) : World :=
  { vols := fun k => if k = 1 then { com := some 10 } else {}
    sess := fun s => if s = 1 ∨ s = 2 then { prog := cxProg recheck } else {} }

/-- A: BEGIN, key lookup (miss) · B: BEGIN, key lookup (miss) · A: GetBalances (locks, reads 10),
    UpdateVolumes, InsertTransaction, UpsertAccounts, InsertLog, COMMIT · B: GetBalances (reads 0) → refused → ROLLBACK [→ lookup] -/
def cxSchedule : Schedule := [1, 1, 2, 2, 1, 1, 1, 1, 1, 1, 2, 2, 2]

end Ledger.C13s

namespace Ledger.C15s
open Ledger.Sched

/-- transaction 1 (10 from pair 1 = world to pair 2) is committed; two sessions revert it -/
def exRev (guarded : Bool) : Revert :=
  { l := 1, sync := false, tx := 1, src := 1, dst := 2, amt := 10, force := true, guarded := guarded }

def exWorld (guarded : Bool) : World :=
  { txs := [{ l := 1, id := 1, ref := 0, by_ := 9, com := true }]
    txSeq := fun l => if l = 1 then 1 else 0
    rev := fun l t => if l = 1 ∧ t = 1 then { com := some false } else {}
    vols := fun k => if k = 2 then { com := some 10 } else if k = 1 then { com := some (-10) } else {}
    sess := fun s => if s = 1 ∨ s = 2 then { prog := revertProg (exRev guarded) true } else {} }

/-- A: BEGIN, UPDATE (modified) · B: BEGIN, UPDATE (waits) · A: …COMMIT · B: UPDATE re-evaluated → not modified -/
def exSchedule : Schedule := [1, 1, 2, 2, 1, 1, 1, 1, 1, 2, 2]

end Ledger.C15s

namespace Ledger.C16s
open Ledger.Sched

def cxA (sync : Bool) : Send := { l := 1, sync := sync, src := 1, dst := 2, amt := 1, allow := .unbounded }

def cxB (sync : Bool) : Send := { l := 1, sync := sync, src := 3, dst := 4, amt := 1, allow := .unbounded }

def cxWorld (sync : Bool) : World :=
  { sess := fun s => if s = 1 then { prog := sendProg (cxA sync) true } else if s = 2 then { prog := sendProg (cxB sync) true } else {} }

/-- A: BEGIN, UpdateVolumes, InsertTransaction (id 1) · B: the whole request (id 2), COMMIT · A: the rest -/
def cxTxSchedule : Schedule := [1, 1, 1, 2, 2, 2, 2, 2, 2, 2, 1, 1, 1, 1]

/-- A: BEGIN, UpdateVolumes, InsertTransaction, UpsertAccounts, InsertLog (log id 1) · B: the whole request (log id 2), COMMIT · A: COMMIT -/
def cxLogSchedule : Schedule := [1, 1, 1, 1, 1, 2, 2, 2, 2, 2, 2, 1]

end Ledger.C16s

namespace Ledger.C06
open Ledger.Sql Ledger.Generated

/-- run (session, statement, retry) triples on LeanPG; one tag per statement -/
def sqlRun (w : Ledger.Sql.World) : List (Nat × Stmt × Bool) → Ledger.Sql.World × List String
  | [] => (w, [])
  | (sid, s, retry) :: rest =>
    let (w', r) := execTop w sid s retry none
    let tag := match r with
      | .ok res => s!"ok:rows={res.rows.length}"
      | .error (.blocked ..) => "blocked"
      | .error e => toString e
    let (w'', tags) := sqlRun w' rest
    (w'', tag :: tags)

/-- the REAL `GetBalances` / `UpdateVolumes` statements (regenerated by T1) for the never-used pair alice/USD -/
def sqlGetBalances : Stmt := (WriteSql.P.getBalances "_default" "l" 1 [⟨"alice", "USD"⟩]).headD .begin
def sqlSpend10 : Stmt := (WriteSql.P.updateVolumes "_default" "l" 1 [⟨"alice", "USD", 0, 10⟩]).headD .begin

/-- A: BEGIN, GetBalances · B: BEGIN, GetBalances (blocked) · A: UpdateVolumes, COMMIT ·
    B: GetBalances retried (same snapshot), UpdateVolumes, COMMIT -/
def sqlSchedule : List (Nat × Stmt × Bool) :=
  [(1, .begin, false), (1, sqlGetBalances, false), (2, .begin, false), (2, sqlGetBalances, false),
   (1, sqlSpend10, false), (1, .commit, false), (2, sqlGetBalances, true), (2, sqlSpend10, false), (2, .commit, false)]

end Ledger.C06
