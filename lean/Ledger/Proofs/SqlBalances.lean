import Ledger.Proofs.SqlLock
import Ledger.Proofs.SqlVolumesZeroSpec
import Ledger.Proofs.SqlMovesExpr
import Ledger.Proofs.CoreMap

/-!
# `GetBalances`: the whole statement (zero-row insert, SELECT … ORDER BY … FOR UPDATE) in general
-/
open Ledger Ledger.Sql Ledger.Generated
open Ledger.Generated.WriteSql.P (BalanceRow)

namespace Ledger.Sql

/-- a chain of ORs over Boolean-valued operands -/
theorem exec_evalExpr_orFold (cb : Callbacks) (te : TypeEnv) (env : Env) (s : St) (v : Expr → Bool) :
    ∀ (es : List Expr) (acc : Expr) (x : Bool),
      (evalExpr cb te env acc).exec s = (.ok (.bool x), s) →
      (∀ d ∈ es, (evalExpr cb te env d).exec s = (.ok (.bool (v d)), s)) →
      (evalExpr cb te env (es.foldl (fun a d => Expr.binop BinOp.or a d) acc)).exec s = (.ok (.bool (x || es.any v)), s) := by
  intro es
  induction es with
  | nil => intro acc x h _; simpa using h
  | cons d ds ih =>
    intro acc x hacc hds
    have hd := hds d (by simp)
    have hstep : (evalExpr cb te env (Expr.binop BinOp.or acc d)).exec s = (.ok (.bool (x || v d)), s) := by
      simp only [evalExpr, exec_bind, hacc, truth_bool, exec_liftR_ok]
      cases x
      · cases hv : v d <;> simp [exec_bind, hd, hv, truth_bool, ofTruth, or3]
      · simp
    have := ih (Expr.binop BinOp.or acc d) (x || v d) hstep (fun e he => hds e (by simp [he]))
    simpa [List.foldl_cons, List.any_cons, Bool.or_assoc] using this

open Ledger.Generated.WriteSql.P in
theorem exec_evalExpr_orChain (cb : Callbacks) (te : TypeEnv) (env : Env) (s : St) (v : Expr → Bool) (es : List Expr)
    (h : ∀ d ∈ es, (evalExpr cb te env d).exec s = (.ok (.bool (v d)), s)) :
    (evalExpr cb te env (orChain es)).exec s = (.ok (.bool (es.any v)), s) := by
  cases es with
  | nil => simp [orChain, evalExpr]
  | cons e rest =>
    have := exec_evalExpr_orFold cb te env s v rest e (v e) (h e (by simp)) (fun d hd => h d (by simp [hd]))
    simpa [orChain, List.any_cons] using this


/-! ### the ORDER BY of GetBalances: (accounts_address, asset) ascending -/

open Ledger.Base in
/-- strict-weak-order facts from a lawful key order -/
theorem keyOrd_negTrans {κ : Type} [KeyOrd κ] [LawfulKeyOrd κ] (a b d : κ)
    (h1 : KeyOrd.lt b a = false) (h2 : KeyOrd.lt d b = false) : KeyOrd.lt d a = false := by
  cases hda : KeyOrd.lt d a with
  | false => rfl
  | true =>
    exfalso
    cases hbd : KeyOrd.lt b d with
    | true =>
      have := LawfulKeyOrd.trans hbd hda
      rw [h1] at this; cases this
    | false =>
      have e : d = b := LawfulKeyOrd.tri h2 hbd
      subst e
      rw [h1] at hda; cases hda

/-- the sort key of an output row of GetBalances -/
def balKeyOk (k : List Value) : Prop := ∃ a c, k = [.text a, .text c]

/-- comparison of two such keys -/
def balCmp (k1 k2 : List Value) : Ordering :=
  match k1, k2 with
  | [.text a, .text c], [.text a', .text c'] => if cmpStr a a' == .eq then cmpStr c c' else cmpStr a a'
  | _, _ => .eq

theorem cmpStr_lt (a b : String) : (cmpStr a b = Ordering.lt) ↔ a < b := by
  unfold cmpStr
  by_cases h : a < b
  · simp [h]
  · by_cases e : a = b <;> simp [h, e]

theorem cmpStr_eq_iff (a b : String) : (cmpStr a b = Ordering.eq) ↔ a = b := by
  have := cmpStr_eq' a b
  constructor
  · intro h; rw [h] at this; simpa using this.symm
  · intro h; subst h; simp [cmpStr, String.lt_irrefl]

open Ledger.Base in
theorem balCmp_lt (a c a' c' : String) :
    (balCmp [.text a, .text c] [.text a', .text c'] = Ordering.lt) ↔ KeyOrd.lt (a, c) (a', c') = true := by
  simp only [balCmp, KeyOrd.lt, Bool.or_eq_true, Bool.and_eq_true, decide_eq_true_eq]
  by_cases he : a = a'
  · subst he
    have : (cmpStr a a == Ordering.eq) = true := by rw [cmpStr_eq']; simp
    simp [this, cmpStr_lt, String.lt_irrefl]
  · have : (cmpStr a a' == Ordering.eq) = false := by rw [cmpStr_eq']; simpa using he
    simp [this, cmpStr_lt, he]

theorem balCmpOk {β : Type} :
    CmpOk (fun (x y : List Value × β) => cmpOrderKeys x.1 y.1 [false, false] [NullsOrder.dflt, NullsOrder.dflt])
      (fun x y => balCmp x.1 y.1) (fun x => balKeyOk x.1) where
  ok := by
    intro x y ⟨a, c, hx⟩ ⟨a', c', hy⟩
    rw [hx, hy]
    simp only [cmpOrderKeys, compareForSort_text, bind, Except.bind, pure, Except.pure, balCmp]
    by_cases h1 : cmpStr a a' = Ordering.eq
    · by_cases h2 : cmpStr c c' = Ordering.eq <;> simp [h1, h2]
    · have : (cmpStr a a' == Ordering.eq) = false := by simpa using h1
      simp [h1, this]
  asymm := by
    intro x y ⟨a, c, hx⟩ ⟨a', c', hy⟩ h
    rw [hx, hy] at h ⊢
    rw [balCmp_lt] at h
    intro h'
    rw [balCmp_lt] at h'
    have := Ledger.Base.lt_asymm' h
    rw [this] at h'; cases h'
  negTrans := by
    intro x y z ⟨a, c, hx⟩ ⟨a', c', hy⟩ ⟨a'', c'', hz⟩ h1 h2
    rw [hx, hy] at h1
    rw [hy, hz] at h2
    rw [hx, hz]
    intro h3
    rw [balCmp_lt] at h3
    have e1 : Ledger.Base.KeyOrd.lt (a', c') (a, c) = false := by
      cases h : Ledger.Base.KeyOrd.lt (a', c') (a, c) with
      | false => rfl
      | true => exact absurd ((balCmp_lt _ _ _ _).mpr h) h1
    have e2 : Ledger.Base.KeyOrd.lt (a'', c'') (a', c') = false := by
      cases h : Ledger.Base.KeyOrd.lt (a'', c'') (a', c') with
      | false => rfl
      | true => exact absurd ((balCmp_lt _ _ _ _).mpr h) h2
    have := keyOrd_negTrans (a, c) (a', c') (a'', c'') e1 e2
    rw [this] at h3; cases h3


/-! ### the SELECT of GetBalances on typed rows -/

def balCond (l a c : String) : Expr :=
  Expr.binop BinOp.and (Expr.binop BinOp.and (Expr.binop BinOp.eq (Expr.col "" "ledger") (Expr.str l))
    (Expr.binop BinOp.eq (Expr.col "" "accounts_address") (Expr.str a))) (Expr.binop BinOp.eq (Expr.col "" "asset") (Expr.str c))

def avColNames : List String := ["ledger", "accounts_address", "asset", "input", "output"]

theorem avT_colNames (b : String) (rs : List Ver) (nr : Nat) : (avT b rs nr).colNames = avColNames := rfl

def avScopeOf (vals : List Value) (src : Option (String × Nat)) : Scope :=
  { alias := "accounts_volumes", cols := avColNames, vals := vals, src := src }

theorem lookup_av_unq (env : Env) (vals : List Value) (src : Option (String × Nat)) (c : String) (v : Value)
    (h : lookupIn avColNames vals c = some v) :
    lookupColumn { env with locals := [avScopeOf vals src] } "" c = .ok v := by
  simp [lookupColumn, Env.scopes, lookupUnqualified, avScopeOf, h]
  rfl

theorem lookup_av_q (env : Env) (vals : List Value) (src : Option (String × Nat)) (c : String) (v : Value)
    (h : lookupIn avColNames vals c = some v) :
    lookupColumn { env with locals := [avScopeOf vals src] } "accounts_volumes" c = .ok v := by
  simp [lookupColumn, Env.scopes, findScope, avScopeOf, lastComponent_av, h]
  rfl

theorem exec_balCond (cb : Callbacks) (te : TypeEnv) (env : Env) (l a c : String) (l' a' c' : String) (i o : Int)
    (src : Option (String × Nat)) (s : St) :
    (evalExpr cb te { env with locals := [avScopeOf [.text l', .text a', .text c', .int i, .int o] src] } (balCond l a c)).exec s =
      (.ok (.bool (avKeyIs l a c [.text l', .text a', .text c', .int i, .int o])), s) := by
  have c1 := lookup_av_unq env [.text l', .text a', .text c', .int i, .int o] src "ledger" (.text l') rfl
  have c2 := lookup_av_unq env [.text l', .text a', .text c', .int i, .int o] src "accounts_address" (.text a') rfl
  have c3 := lookup_av_unq env [.text l', .text a', .text c', .int i, .int o] src "asset" (.text c') rfl
  simp only [balCond, evalExpr, exec_bind, c1, c2, c3, exec_liftR_ok, evalBinop_eq_text, truth_bool, avKeyIs]
  by_cases h1 : l' = l <;> by_cases h2 : a' = a <;> by_cases h3 : c' = c <;>
    simp [h1, h2, h3, ofTruth, and3, truth_bool, exec_bind, evalBinop_eq_text]

def balItems : List (Expr × String) :=
  [(Expr.col "accounts_volumes" "accounts_address", ""), (Expr.col "accounts_volumes" "asset", ""),
   (Expr.col "accounts_volumes" "input", ""), (Expr.col "accounts_volumes" "output", "")]

theorem exec_balProj (cb : Callbacks) (te : TypeEnv) (env : Env) (l' a' c' : String) (i o : Int) (src : Option (String × Nat)) (s : St) :
    (evalExprs cb te { env with locals := [avScopeOf [.text l', .text a', .text c', .int i, .int o] src], group := none, wins := [] }
      (balItems.map (·.1))).exec s = (.ok [.text a', .text c', .int i, .int o], s) := by
  have q (c : String) (v : Value) (h : lookupIn avColNames [.text l', .text a', .text c', .int i, .int o] c = some v) :=
    lookup_av_q { env with group := none, wins := [] } [.text l', .text a', .text c', .int i, .int o] src c v h
  simp only [balItems, List.map, evalExprs, evalExpr, exec_bind, q "accounts_address" (.text a') rfl, q "asset" (.text c') rfl,
    q "input" (.int i) rfl, q "output" (.int o) rfl, exec_liftR_ok, exec_pure]

theorem outNames_bal : outNames balItems = ["accounts_address", "asset", "input", "output"] := rfl

def balOrder : List OrderItem :=
  [OrderItem.mk (Expr.col "" "accounts_address") false NullsOrder.dflt, OrderItem.mk (Expr.col "" "asset") false NullsOrder.dflt]

theorem exec_balOrderKeys (cb : Callbacks) (te : TypeEnv) (env : Env) (o : OutRow) (s : St) (a c : Value) (rest : List Value)
    (hv : o.vals = a :: c :: rest) :
    (balOrder.mapM (orderKeyM cb te env ["accounts_address", "asset", "input", "output"] o)).exec s = (.ok [a, c], s) := by
  simp [balOrder, exec_mapM_cons, orderKeyM, colIndex, colIndex.go, hv]


/-! ### assembling the statement -/

theorem sameGroupKey_text2 (a c a' c' : String) : ∃ x, sameGroupKey [.text a, .text c] [.text a', .text c'] = .ok x := by
  apply sameGroupKey_ok
  intro p hp
  simp only [List.zip_cons_cons, List.zip_nil_right, List.mem_cons, List.not_mem_nil, or_false] at hp
  rcases hp with rfl | rfl <;> exact ⟨_, compareForSort_text _ _⟩

theorem sameGroupKey_bal (a c a' c' : String) (i o i' o' : Int) :
    ∃ x, sameGroupKey [.text a, .text c, .int i, .int o] [.text a', .text c', .int i', .int o'] = .ok x := by
  apply sameGroupKey_ok
  intro p hp
  simp only [List.zip_cons_cons, List.zip_nil_right, List.mem_cons, List.not_mem_nil, or_false] at hp
  rcases hp with rfl | rfl | rfl | rfl
  · exact ⟨_, compareForSort_text _ _⟩
  · exact ⟨_, compareForSort_text _ _⟩
  · exact ⟨_, compareForSort_int _ _⟩
  · exact ⟨_, compareForSort_int _ _⟩

/-- an output row of GetBalances -/
def BalOut (p : List Value × OutRow) : Prop :=
  ∃ a c i o, p.1 = [.text a, .text c] ∧ p.2.vals = [.text a, .text c, .int i, .int o]

theorem hasTieR_bal : ∀ (l : List (List Value × OutRow)), (∀ p ∈ l, BalOut p) → ∃ x, hasTieR l = .ok x := by
  intro l
  induction l with
  | nil => intro _; exact ⟨false, rfl⟩
  | cons p rest ih =>
    intro h
    cases rest with
    | nil => exact ⟨false, rfl⟩
    | cons q rest' =>
      obtain ⟨a, c, i, o, hk, hv⟩ := h p (by simp)
      obtain ⟨a', c', i', o', hk', hv'⟩ := h q (by simp)
      obtain ⟨x1, h1⟩ := sameGroupKey_text2 a c a' c'
      obtain ⟨x2, h2⟩ := sameGroupKey_bal a c a' c' i o i' o'
      obtain ⟨x3, h3⟩ := ih (fun r hr => h r (by simp [hr]))
      obtain ⟨k1, r1⟩ := p
      obtain ⟨k2, r2⟩ := q
      simp only at hk hv hk' hv'
      subst hk hk'
      simp only [hasTieR, hv, hv', h1, h2, bind, Except.bind]
      cases (x1 && !x2)
      · simp only [Bool.false_eq_true, if_false]
        exact ⟨x3, h3⟩
      · exact ⟨true, rfl⟩


open Ledger.Generated.WriteSql in
/-- the statement, taken apart -/
theorem getBalances_query_shape (b l : String) (id : Nat) (rows : List BalanceRow) :
    ∃ ins, (P.getBalances b l id rows).flatMap cteStmts = [ins] ∧
      P.getBalances b l id rows =
        [Stmt.query (Query.mk [Cte.mk "ins" [] ins]
          (SetExpr.select (Select.mk false [] (balItems.map (fun p => SelItem.expr p.1 p.2)) [FromItem.table b "accounts_volumes" ""]
            (some (P.orChain (rows.map fun r => balCond l r.accounts_address r.asset))) [] none))
          balOrder none none LockMode.forUpdate)] :=
  ⟨_, rfl, rfl⟩

/-- the key a `balCond` expression asks for, evaluated on a row -/
def balCondVal (l : String) (vals : List Value) : Expr → Bool
  | .binop .and (.binop .and _ (.binop .eq _ (.str a))) (.binop .eq _ (.str c)) => avKeyIs l a c vals
  | _ => false

/-- which keys a row is asked for -/
def balWanted (l : String) (keys : List BalanceRow) (vals : List Value) : Bool :=
  keys.any (fun k => avKeyIs l k.accounts_address k.asset vals)

/-- the SELECT … ORDER BY … FOR UPDATE of GetBalances, from the state `s1` left by its CTE -/
theorem exec_getBalances_select (p : Nat) (env : Env) (b l : String) (keys : List BalanceRow) (hb : b.isEmpty = false)
    (s1 : St) (hs1 : TxState s1) (rows1 : List Ver) (nr1 : Nat) (hT1 : s1.w.table? (avFull b) = some (avT b rows1 nr1))
    (htyped : AvTyped rows1)
    (hvis : ∀ r ∈ rows1, r.visible (cv s1) = true → r.visible (latestView s1.w s1.xid) = true)
    (hinj : RidInj (latestView s1.w s1.xid) rows1)
    (hnd : ((rows1.filter (fun r => r.visible (cv s1))).map (·.rid)).Nodup) :
    ∃ (sorted : List OutRow) (tie : Bool),
      (evalSetExpr (p + 5) env (SetExpr.select (Select.mk false [] (balItems.map (fun p => SelItem.expr p.1 p.2))
          [FromItem.table b "accounts_volumes" ""] (some (WriteSql.P.orChain (keys.map fun r => balCond l r.accounts_address r.asset))) [] none))
          balOrder).exec s1 = (.ok (["accounts_address", "asset", "input", "output"], sorted), s1.tie tie) ∧
      sorted.Perm ((((rows1.filter (fun r => r.visible (cv s1))).reverse).filter (fun r => balWanted l keys r.vals)).map
        (fun r => outRowOf (fun sc => sc.vals.drop 1) (rowScopeOf (avT b rows1 nr1) "accounts_volumes" r))) ∧
      sorted.Pairwise (fun x y => balCmp (y.vals.take 2) (x.vals.take 2) ≠ .lt) := by
  have hq : (qualify b "accounts_volumes").exec s1 = (.ok (avFull b), s1) := by simp [qualify, hb, avFull]
  have hfrom := exec_evalFromList_table p env b "accounts_volumes" "" (avFull b) (avT b rows1 nr1) s1 hs1 (by simp [hb]) hq hT1
  rw [scan_eq] at hfrom
  simp only [show ("" : String).isEmpty = true from by decide, if_true] at hfrom
  have hrows : (avT b rows1 nr1).rows = rows1 := rfl
  rw [hrows] at hfrom
  -- every scanned scope comes from a typed row
  have hsc : ∀ sc ∈ ((rows1.filter (fun r => r.visible (cv s1))).reverse).map (rowScopeOf (avT b rows1 nr1) "accounts_volumes"),
      ∃ r ∈ rows1, ∃ l' a' c' i o, r.vals = [.text l', .text a', .text c', .int i, .int o] ∧
        sc = avScopeOf [.text l', .text a', .text c', .int i, .int o] (some ((avT b rows1 nr1).name, r.rid)) := by
    intro sc hsc
    obtain ⟨r, hr, rfl⟩ := List.mem_map.mp hsc
    have hr' := (List.mem_filter.mp (List.mem_reverse.mp hr)).1
    obtain ⟨l', a', c', i, o, hv⟩ := htyped r hr'
    exact ⟨r, hr', l', a', c', i, o, hv, by simp [rowScopeOf, avScopeOf, hv, avT_colNames]⟩
  -- ORDER BY
  have hsortE := exec_sortOut (p + 2) env ["accounts_address", "asset", "input", "output"]
    ((((rows1.filter (fun r => r.visible (cv s1))).reverse).map (rowScopeOf (avT b rows1 nr1) "accounts_volumes")).filter
      (fun sc => balWanted l keys sc.vals) |>.map (outRowOf (fun sc => sc.vals.drop 1)))
    balOrder (by simp [balOrder]) s1 (fun o => o.vals.take 2) balCmp balKeyOk
  -- each output row is typed
  have hout : ∀ o ∈ ((((rows1.filter (fun r => r.visible (cv s1))).reverse).map (rowScopeOf (avT b rows1 nr1) "accounts_volumes")).filter
      (fun sc => balWanted l keys sc.vals) |>.map (outRowOf (fun sc => sc.vals.drop 1))),
      ∃ a c i o', o.vals = [.text a, .text c, .int i, .int o'] := by
    intro o ho
    obtain ⟨sc, hscm, rfl⟩ := List.mem_map.mp ho
    obtain ⟨r, _, l', a', c', i, o', _, rfl⟩ := hsc sc (List.mem_filter.mp hscm).1
    exact ⟨a', c', i, o', rfl⟩
  obtain ⟨sorted, tie, hsortEq, hperm, hpw⟩ := hsortE
    (by
      intro o ho
      obtain ⟨a, c, i, o', hv⟩ := hout o ho
      rw [exec_balOrderKeys _ _ _ o s1 (.text a) (.text c) [.int i, .int o'] hv, hv]; rfl)
    (by
      have : orderDescs balOrder = [false, false] ∧ orderNulls balOrder = [NullsOrder.dflt, NullsOrder.dflt] := ⟨rfl, rfl⟩
      rw [this.1, this.2]; exact balCmpOk)
    (by
      intro o ho
      obtain ⟨a, c, i, o', hv⟩ := hout o ho
      exact ⟨a, c, by rw [hv]; rfl⟩)
    (by
      intro lst hl
      apply hasTieR_bal
      intro pr hpr
      obtain ⟨o, ho, rfl⟩ := List.mem_map.mp ((hl.mem_iff).mp hpr)
      obtain ⟨a, c, i, o', hv⟩ := hout o ho
      exact ⟨a, c, i, o', by simp [hv], hv⟩)
  refine ⟨sorted, tie, ?_, ?_, hpw⟩
  · rw [evalSetExpr]
    apply exec_evalSelect_simple (p + 3) env balItems _ _ balOrder s1 _ (fun sc => balWanted l keys sc.vals) (fun sc => sc.vals.drop 1) hfrom
    · -- WHERE
      intro sc hscm
      obtain ⟨r, _, l', a', c', i, o', _, rfl⟩ := hsc sc hscm
      have hor := exec_evalExpr_orChain (cbs (p + 3)) s1.w.types
        { env with locals := [avScopeOf [.text l', .text a', .text c', .int i, .int o'] (some ((avT b rows1 nr1).name, r.rid))] } s1
        (balCondVal l [.text l', .text a', .text c', .int i, .int o'])
        (keys.map fun k => balCond l k.accounts_address k.asset)
        (by
          intro d hd
          obtain ⟨k, _, rfl⟩ := List.mem_map.mp hd
          exact exec_balCond _ _ env l k.accounts_address k.asset l' a' c' i o' _ s1)
      simp only [exec_bind, hor, truth_bool, exec_liftR_ok, exec_pure]
      simp only [balWanted, List.any_map, avScopeOf]
      have hfun : (balCondVal l [Value.text l', Value.text a', Value.text c', Value.int i, Value.int o'] ∘ fun (r : BalanceRow) =>
          balCond l r.accounts_address r.asset) =
          fun k => avKeyIs l k.accounts_address k.asset [Value.text l', Value.text a', Value.text c', Value.int i, Value.int o'] := by
        funext k; rfl
      rw [hfun]
      cases (keys.any fun k => avKeyIs l k.accounts_address k.asset [Value.text l', Value.text a', Value.text c', Value.int i, Value.int o']) <;> rfl
    · rfl
    · rfl
    · -- projection
      intro sc hscm _
      obtain ⟨r, _, l', a', c', i, o', _, rfl⟩ := hsc sc hscm
      exact exec_balProj _ _ env l' a' c' i o' _ s1
    · exact hsortEq
  · -- the permutation, as rows
    refine hperm.trans ?_
    rw [List.filter_map]
    simp only [List.map_map]
    exact List.Perm.refl _



/-- the zero rows the CTE inserts: in front of the old rows, written under (xid, cid), with row ids from `nr` on -/
theorem avRunN_shape (lv : View) (xid cid : Nat) (l : String) : ∀ (keys : List BalanceRow) (rs : List Ver) (nr : Nat),
    ∃ news, (avRunN lv xid cid l keys (rs, nr)).1 = news ++ rs ∧
      (∀ r ∈ news, r.xmin = xid ∧ r.cmin = cid ∧ nr ≤ r.rid ∧ r.rid < (avRunN lv xid cid l keys (rs, nr)).2) ∧
      nr ≤ (avRunN lv xid cid l keys (rs, nr)).2 ∧ (news.map (·.rid)).Nodup := by
  intro keys
  induction keys with
  | nil => intro rs nr; exact ⟨[], rfl, by simp, Nat.le_refl _, by simp⟩
  | cons k rest ih =>
    intro rs nr
    cases hf : rs.find? (avHit lv none l k.accounts_address k.asset) with
    | some ex =>
      have hunf : avRunN lv xid cid l (k :: rest) (rs, nr) = avRunN lv xid cid l rest (rs, nr) := by
        simp [avRunN, avStepN, hf]
      rw [hunf]; exact ih rs nr
    | none =>
      have hunf : avRunN lv xid cid l (k :: rest) (rs, nr) =
          avRunN lv xid cid l rest (avNew xid cid nr l k.accounts_address k.asset 0 0 :: rs, nr + 1) := by
        simp [avRunN, avStepN, hf]
      rw [hunf]
      obtain ⟨news, h1, h2, h3, h4⟩ := ih (avNew xid cid nr l k.accounts_address k.asset 0 0 :: rs) (nr + 1)
      refine ⟨news ++ [avNew xid cid nr l k.accounts_address k.asset 0 0], ?_, ?_, ?_, ?_⟩
      · simp [h1]
      · intro r hr
        rcases List.mem_append.mp hr with h | h
        · obtain ⟨a, b', c, d⟩ := h2 r h
          exact ⟨a, b', by omega, d⟩
        · simp only [List.mem_singleton] at h
          subst h
          exact ⟨rfl, rfl, Nat.le_refl _, Nat.lt_of_lt_of_le (Nat.lt_succ_self nr) h3⟩
      · exact Nat.le_trans (Nat.le_succ nr) h3
      · rw [List.map_append, List.nodup_append]
        refine ⟨h4, by simp, ?_⟩
        intro a ha b' hb'
        simp only [List.map_cons, List.map_nil, List.mem_singleton] at hb'
        obtain ⟨r, hr, rfl⟩ := List.mem_map.mp ha
        have := (h2 r hr).2.2.1
        rw [hb']
        simp only [avNew]
        omega


theorem avRunN_inv (w : World) (xid cid : Nat) (hx : xid ≠ 0) (hc : cid < 1000000000) (l : String) :
    ∀ (keys : List BalanceRow) (rs : List Ver) (nr : Nat), AvInv (latestView w xid) rs nr →
      AvInv (latestView w xid) (avRunN (latestView w xid) xid cid l keys (rs, nr)).1 (avRunN (latestView w xid) xid cid l keys (rs, nr)).2 := by
  intro keys
  induction keys with
  | nil => intro rs nr h; exact h
  | cons k rest ih =>
    intro rs nr h
    exact ih _ _ (avStepN_inv w xid cid l k.accounts_address k.asset 0 0 rs nr hx hc h)

/-- hypotheses on the state for GetBalances -/
structure BalState (s : St) (b : String) (rs : List Ver) (nr : Nat) : Prop where
  tx : TxState s
  table : s.w.table? (avFull b) = some (avT b rs nr)
  inv : AvInv (latestView s.w s.xid) rs nr
  fresh : Fresh s.xid s.cid rs
  ridNodup : ((rs.filter (fun r => r.visible (latestView s.w s.xid))).map (·.rid)).Nodup

theorem cv_withTable (s : St) (t : Table) : cv (s.withTable t) = cv s := rfl
theorem cv_tie (s : St) (b : Bool) : cv (s.tie b) = cv s := by cases b <;> rfl

/-- a version written under the running command id is invisible to the statement itself -/
theorem not_visible_cv_own (s : St) (hs : TxState s) (r : Ver) (h1 : r.xmin = s.xid) (h2 : r.cmin = s.cid) : r.visible (cv s) = false := by
  have hx := hs.xid
  simp [Ver.visible, xidVisible, cv, h1, h2, hx]

/-- what the statement's SELECT scans after its own CTE has inserted the zero rows: the rows visible before -/
theorem filter_cv_after_insert (s : St) (hs : TxState s) (rs news : List Ver) (hf : Fresh s.xid s.cid rs)
    (hn : ∀ r ∈ news, r.xmin = s.xid ∧ r.cmin = s.cid) :
    (news ++ rs).filter (fun r => r.visible (cv s)) = rs.filter (fun r => r.visible (latestView s.w s.xid)) := by
  rw [List.filter_append]
  have h1 : news.filter (fun r => r.visible (cv s)) = [] := by
    rw [List.filter_eq_nil_iff]
    intro r hr
    rw [not_visible_cv_own s hs r (hn r hr).1 (hn r hr).2]
    simp
  rw [h1, List.nil_append]
  apply List.filter_congr
  intro r hr
  exact visible_cv_latest s hs rs hf r hr


open Ledger.Generated.WriteSql in
/-- `GetBalances(keys)` as a whole under LeanPG, for ANY keys and ANY contents of `accounts_volumes` satisfying the
    invariants: the answer is a permutation, sorted by (account, asset), of the requested rows that were visible
    BEFORE the statement (a never-used pair is not returned: the statement does not see the zero row its own CTE
    inserts); afterwards the zero rows exist and exactly the returned rows are locked. -/
theorem exec_getBalances (n : Nat) (env : Env) (b l : String) (id : Nat) (keys : List BalanceRow) (hb : b.isEmpty = false)
    (s : St) (rs : List Ver) (nr : Nat) (hs : BalState s b rs nr) :
    ∃ (sorted : List OutRow) (tie : Bool),
      ((P.getBalances b l id keys).mapM (execStmt (n + 8) env)).exec s =
        (.ok [{ rel := { cols := ["accounts_address", "asset", "input", "output"], rows := sorted.map (·.vals) },
                affected := sorted.length }],
         ((s.withTable (avT b (avRunN (latestView s.w s.xid) s.xid s.cid l keys (rs, nr)).1
                              (avRunN (latestView s.w s.xid) s.xid s.cid l keys (rs, nr)).2)).tie tie).withTable
           (avT b (lockRun (latestView s.w s.xid) s.xid s.cid (avRunN (latestView s.w s.xid) s.xid s.cid l keys (rs, nr)).1 (sorted.map srcRid))
                  (avRunN (latestView s.w s.xid) s.xid s.cid l keys (rs, nr)).2)) ∧
      (sorted.map (·.vals)).Perm ((((rs.filter (fun r => r.visible (latestView s.w s.xid))).reverse).filter (fun r => balWanted l keys r.vals)).map
        (fun r => r.vals.drop 1)) ∧
      sorted.Pairwise (fun x y => balCmp (y.vals.take 2) (x.vals.take 2) ≠ .lt) ∧
      (sorted.map srcRid).Perm ((((rs.filter (fun r => r.visible (latestView s.w s.xid))).reverse).filter (fun r => balWanted l keys r.vals)).map (·.rid)) := by
  obtain ⟨ins, hins, hshape⟩ := getBalances_query_shape b l id keys
  -- the CTE
  obtain ⟨cols, target, f, hstmt, hcols, hlit, sh⟩ := getBalances_shape b l id
  have hins' : ins = Stmt.insert [] b "accounts_volumes" "" cols (.values (keys.map f)) (some (.mk target none "" .nothing)) [] := by
    have := hstmt keys
    rw [hins] at this
    exact (List.cons.inj this).1
  have hcte := exec_execInsert_av_nothing n env b "" l cols target none "" f (fun r => litRow (f r)) hb hcols
    (fun r m s => exec_evalValuesRow_lit m env (f r) (hlit r) s) sh s rs nr hs.table hs.tx.names hs.tx.solo hs.tx.xid hs.tx.cid hs.inv keys
  obtain ⟨news, hsh1, hsh2, _, hsh4⟩ := avRunN_shape (latestView s.w s.xid) s.xid s.cid l keys rs nr
  -- abbreviations
  generalize hR : avRunN (latestView s.w s.xid) s.xid s.cid l keys (rs, nr) = R at hcte hsh1 hsh2 hsh4 ⊢
  obtain ⟨rs1, nr1⟩ := R
  simp only at hcte hsh1 hsh2 hsh4 ⊢
  have hs1 : TxState (s.withTable (avT b rs1 nr1)) := hs.tx.withTable _
  have hT1 : (s.withTable (avT b rs1 nr1)).w.table? (avFull b) = some (avT b rs1 nr1) := withTable_av_table? s b rs rs1 nr nr1 hs.table
  have hinvR := avRunN_inv s.w s.xid s.cid hs.tx.xid hs.tx.cid l keys rs nr hs.inv
  rw [hR] at hinvR
  simp only at hinvR
  subst hsh1
  -- what the SELECT scans
  have hfilt := filter_cv_after_insert s hs.tx rs news hs.fresh (fun r hr => ⟨(hsh2 r hr).1, (hsh2 r hr).2.1⟩)
  have hvis1 : ∀ r ∈ news ++ rs, r.visible (cv (s.withTable (avT b (news ++ rs) nr1))) = true →
      r.visible (latestView (s.withTable (avT b (news ++ rs) nr1)).w (s.withTable (avT b (news ++ rs) nr1)).xid) = true := by
    intro r hr hv
    rw [cv_withTable] at hv
    simp only [withTable_latestView, withTable_xid]
    rcases List.mem_append.mp hr with h | h
    · rw [not_visible_cv_own s hs.tx r (hsh2 r h).1 (hsh2 r h).2.1] at hv; cases hv
    · rw [← visible_cv_latest s hs.tx rs hs.fresh r h]; exact hv
  -- distinct row ids among everything visible now
  have hinj1 : RidInj (latestView s.w s.xid) (news ++ rs) := by
    intro r1 h1 r2 h2 v1 v2 e
    rcases List.mem_append.mp h1 with a1 | a1 <;> rcases List.mem_append.mp h2 with a2 | a2
    · exact nodup_map_inj (fun x : Ver => x.rid) _ hsh4 r1 a1 r2 a2 e
    · have := (hsh2 r1 a1).2.2.1; have := hs.inv.ridLt r2 a2; omega
    · have := (hsh2 r2 a2).2.2.1; have := hs.inv.ridLt r1 a1; omega
    · exact nodup_map_inj (fun x : Ver => x.rid) _ hs.ridNodup r1 (List.mem_filter.mpr ⟨a1, v1⟩) r2 (List.mem_filter.mpr ⟨a2, v2⟩) e
  have hnd1 : (((news ++ rs).filter (fun r => r.visible (cv (s.withTable (avT b (news ++ rs) nr1))))).map (·.rid)).Nodup := by
    rw [cv_withTable, hfilt]; exact hs.ridNodup
  obtain ⟨sorted, tie, hsel, hperm, hpw⟩ := exec_getBalances_select (n + 1)
    { env with ctes := ("ins", ({ cols := [], rows := [] } : Rel)) :: env.ctes } b l keys hb (s.withTable (avT b (news ++ rs) nr1)) hs1
    (news ++ rs) nr1 hT1 hinvR.typed hvis1 (by simpa using hinj1) hnd1
  rw [cv_withTable, hfilt] at hperm
  have hridperm : (sorted.map srcRid).Perm ((((rs.filter (fun r => r.visible (latestView s.w s.xid))).reverse).filter (fun r => balWanted l keys r.vals)).map (·.rid)) := by
    have := hperm.map srcRid
    rw [List.map_map] at this
    exact this
  -- the FOR UPDATE loop
  have hs2 : TxState ((s.withTable (avT b (news ++ rs) nr1)).tie tie) := hs1.tie tie
  have hT2 : ((s.withTable (avT b (news ++ rs) nr1)).tie tie).w.table? (avFull b) = some ((avT b [] nr1).withRows (news ++ rs)) := by
    rw [tie_w]; exact hT1
  have hlock := exec_lockLoop (n + 4) { env with ctes := ("ins", ({ cols := [], rows := [] } : Rel)) :: env.ctes }
    (SetExpr.select (Select.mk false [] (balItems.map (fun p => SelItem.expr p.1 p.2)) [FromItem.table b "accounts_volumes" ""]
      (some (P.orChain (keys.map fun r => balCond l r.accounts_address r.asset))) [] none))
    (avFull b) (avT b [] nr1) ((s.withTable (avT b (news ++ rs) nr1)).tie tie) hs2 (news ++ rs) hT2 rfl sorted (news ++ rs) []
    (by
      intro o ho
      obtain ⟨r, hr, rfl⟩ := List.mem_map.mp ((hperm.mem_iff).mp ho)
      have hr' := List.mem_filter.mp hr
      have hr'' := List.mem_filter.mp (List.mem_reverse.mp hr'.1)
      refine ⟨r, List.mem_append_right _ hr''.1, by simpa using hr''.2, rfl, ?_⟩
      exact ⟨rowScopeOf (avT b (news ++ rs) nr1) "accounts_volumes" r, by simp [outRowOf], rfl, rfl⟩)
    (by
      apply (List.Perm.nodup_iff hridperm).mpr
      have h1 : ((rs.filter (fun r => r.visible (latestView s.w s.xid))).reverse.map (·.rid)).Nodup := by
        rw [List.map_reverse]; exact nodup_reverse' _ hs.ridNodup
      exact List.Nodup.sublist (List.Sublist.map _ List.filter_sublist) h1)
    (by simpa using hinj1)
  simp only [tie_w, tie_xid, tie_cid, withTable_latestView, withTable_xid, withTable_cid, List.nil_append] at hlock
  rw [withTable_self _ ((avT b [] nr1).withRows (news ++ rs)) hT2 hs2.names] at hlock
  refine ⟨sorted, tie, ?_, ?_, hpw, hridperm⟩
  · rw [hshape]
    simp only [exec_mapM_cons, exec_mapM_nil]
    rw [execStmt, evalQuery, evalCtes, hins', execStmt, evalCtes]
    · simp only [exec_bind, exec_pure, hcte, List.isEmpty_nil, if_true]
      rw [evalCtes]
      · simp only [exec_pure, exec_bind, exec_typeEnv, hsel, evalOpt, applyLimit, hlock]
        erw [hlock]
        simp
        rfl
      · intro h; omega
    · intro h; omega
  · have := hperm.map (·.vals)
    rw [List.map_map] at this
    exact this


/-! ### the locks do not change what the transaction reads -/

theorem avHit_lockRow (lv lv' : View) (ex : Option Nat) (l a c : String) (xid cid rid : Nat) (r : Ver) :
    avHit lv ex l a c (lockRow lv' xid cid rid r) = avHit lv ex l a c r := by
  simp [avHit]

theorem avGet_lockRun (lv : View) (xid cid : Nat) (l a c : String) : ∀ (rids : List Nat) (rows : List Ver),
    avGet lv (lockRun lv xid cid rows rids) l a c = avGet lv rows l a c := by
  intro rids
  induction rids with
  | nil => intro rows; rfl
  | cons rid rest ih =>
    intro rows
    show avGet lv (lockRun lv xid cid (rows.map (lockRow lv xid cid rid)) rest) l a c = _
    rw [ih]
    unfold avGet
    rw [List.find?_map]
    have : (avHit lv none l a c ∘ lockRow lv xid cid rid) = avHit lv none l a c := by
      funext r; exact avHit_lockRow lv lv none l a c xid cid rid r
    rw [this]
    cases rows.find? (avHit lv none l a c) <;> simp

end Ledger.Sql
