import Ledger.Query.Pushdown
import Ledger.Proofs.QueryAddress

/-! Soundness of the lateral pushdown of address filters (C20). -/
namespace Ledger.Query

mutual
/-- An address filter under a `$not` makes the filter unsafe: a filter that is safe
    *inside a not* contains no address filter at all. -/
theorem safe_insideNot_noAddr : ∀ (f : Filter), safeLateral f true = true → containsAddr f = false
  | .leaf _ k _, h => by
    simp only [safeLateral, Bool.true_and, Bool.not_eq_eq_eq_not, Bool.not_true] at h
    simpa [containsAddr] using h
  | .not g, h => by
    simp only [safeLateral] at h
    simpa [containsAddr] using safe_insideNot_noAddr g h
  | .and fs, h => by
    simp only [safeLateral] at h
    simpa [containsAddr] using safeAll_insideNot_noAddr fs h
  | .or fs, h => by
    simp only [safeLateral, Bool.not_eq_eq_eq_not, Bool.not_true] at h
    simpa [containsAddr] using h
theorem safeAll_insideNot_noAddr : ∀ (fs : List Filter),
    safeLateralAll fs true = true → containsAddrAny fs = false
  | [], _ => rfl
  | g :: gs, h => by
    simp only [safeLateralAll, Bool.and_eq_true] at h
    simp [containsAddrAny, safe_insideNot_noAddr g h.1, safeAll_insideNot_noAddr gs h.2]
end

theorem containsAddrAny_iff (fs : List Filter) :
    containsAddrAny fs = true ↔ ∃ g ∈ fs, containsAddr g = true := by
  induction fs with
  | nil => simp [containsAddrAny]
  | cons g gs ih => simp [containsAddrAny, ih]

/-- A true address leaf. -/
def TrueAddrLeaf (sem : Op → String → Val → Bool) (l : Op × String × Val) : Prop :=
  isAddressKey l.2.1 = true ∧ sem l.1 l.2.1 l.2.2 = true

mutual
/-- In a filter that may be pushed, is true on the row and mentions an address,
    some *address leaf* is true on the row. -/
theorem true_addr_leaf (sem : Op → String → Val → Bool) : ∀ (f : Filter),
    safeLateral f false = true → Filter.eval sem f = true → containsAddr f = true →
    ∃ l ∈ f.leaves, TrueAddrLeaf sem l
  | .leaf op k v, _, he, hc => by
    refine ⟨(op, k, v), by simp [Filter.leaves], ?_, ?_⟩
    · simpa [containsAddr] using hc
    · simpa [Filter.eval] using he
  | .not g, hs, _, hc => by
    simp only [safeLateral] at hs
    have := safe_insideNot_noAddr g hs
    simp [containsAddr, this] at hc
  | .and fs, hs, he, hc => by
    simp only [safeLateral] at hs
    simp only [Filter.eval] at he
    simp only [containsAddr] at hc
    simpa [Filter.leaves] using true_addr_leaf_all sem fs hs he hc
  | .or fs, hs, he, hc => by
    simp only [safeLateral, Bool.and_eq_true, Bool.not_eq_eq_eq_not, Bool.not_true] at hs
    simp only [containsAddr] at hc
    simp only [Filter.eval, Bool.or_eq_true] at he
    obtain ⟨g0, hg0, hg0c⟩ := (containsAddrAny_iff fs).mp hc
    have hne : fs ≠ [] := by intro h; subst h; cases hg0
    have he' : Filter.evalAny sem fs = true := by
      rcases he with h | h
      · simp [List.isEmpty_iff] at h; exact absurd h hne
      · exact h
    -- every branch mentions an address
    have hall : ∀ g ∈ fs, containsAddr g = true := by
      intro g hg
      by_cases hlen : fs.length > 1
      · have hmix : mixesAddr fs = false := by simpa [hlen] using hs.1
        simp only [mixesAddr, Bool.and_eq_false_iff] at hmix
        rcases hmix with h | h
        · have := List.any_eq_false.mp h g0 hg0
          simp [hg0c] at this
        · have := List.any_eq_false.mp h g hg
          simpa using this
      · match fs, hg, hg0, hlen with
        | [x], hg, hg0, _ =>
          simp only [List.mem_singleton] at hg hg0
          subst hg; subst hg0; exact hg0c
        | _ :: _ :: _, _, _, hlen => simp at hlen
    simpa [Filter.leaves] using true_addr_leaf_any sem fs hs.2 he' hall
theorem true_addr_leaf_all (sem : Op → String → Val → Bool) : ∀ (fs : List Filter),
    safeLateralAll fs false = true → Filter.evalAll sem fs = true → containsAddrAny fs = true →
    ∃ l ∈ Filter.leavesList fs, TrueAddrLeaf sem l
  | [], _, _, hc => by simp [containsAddrAny] at hc
  | g :: gs, hs, he, hc => by
    simp only [safeLateralAll, Bool.and_eq_true] at hs
    simp only [Filter.evalAll, Bool.and_eq_true] at he
    simp only [containsAddrAny, Bool.or_eq_true] at hc
    rcases hc with hc | hc
    · obtain ⟨l, hl, ht⟩ := true_addr_leaf sem g hs.1 he.1 hc
      exact ⟨l, by simp [Filter.leavesList, hl], ht⟩
    · obtain ⟨l, hl, ht⟩ := true_addr_leaf_all sem gs hs.2 he.2 hc
      exact ⟨l, by simp [Filter.leavesList, hl], ht⟩
theorem true_addr_leaf_any (sem : Op → String → Val → Bool) : ∀ (fs : List Filter),
    safeLateralAll fs false = true → Filter.evalAny sem fs = true →
    (∀ g ∈ fs, containsAddr g = true) →
    ∃ l ∈ Filter.leavesList fs, TrueAddrLeaf sem l
  | [], _, he, _ => by simp [Filter.evalAny] at he
  | g :: gs, hs, he, hall => by
    simp only [safeLateralAll, Bool.and_eq_true] at hs
    simp only [Filter.evalAny, Bool.or_eq_true] at he
    rcases he with he | he
    · obtain ⟨l, hl, ht⟩ := true_addr_leaf sem g hs.1 he (hall g (List.mem_cons_self))
      exact ⟨l, by simp [Filter.leavesList, hl], ht⟩
    · obtain ⟨l, hl, ht⟩ := true_addr_leaf_any sem gs hs.2 he
        (fun g hg => hall g (List.mem_cons_of_mem _ hg))
      exact ⟨l, by simp [Filter.leavesList, hl], ht⟩
end

mutual
theorem noAddr_leaves : ∀ (f : Filter), containsAddr f = false →
    ∀ l ∈ f.leaves, isAddressKey l.2.1 = false
  | .leaf op k v, h, l, hl => by
    simp only [Filter.leaves, List.mem_singleton] at hl
    subst hl; simpa [containsAddr] using h
  | .not g, h, l, hl => noAddr_leaves g (by simpa [containsAddr] using h) l (by simpa [Filter.leaves] using hl)
  | .and fs, h, l, hl => noAddr_leavesList fs (by simpa [containsAddr] using h) l (by simpa [Filter.leaves] using hl)
  | .or fs, h, l, hl => noAddr_leavesList fs (by simpa [containsAddr] using h) l (by simpa [Filter.leaves] using hl)
theorem noAddr_leavesList : ∀ (fs : List Filter), containsAddrAny fs = false →
    ∀ l ∈ Filter.leavesList fs, isAddressKey l.2.1 = false
  | [], _, l, hl => by simp [Filter.leavesList] at hl
  | g :: gs, h, l, hl => by
    simp only [containsAddrAny, Bool.or_eq_false_iff] at h
    simp only [Filter.leavesList, List.mem_append] at hl
    rcases hl with hl | hl
    · exact noAddr_leaves g h.1 l hl
    · exact noAddr_leavesList gs h.2 l hl
end

theorem mem_addrsWith (ci : Bool) (f : Filter) (s : String) :
    s ∈ addrsWith ci f ↔ ∃ l ∈ f.leaves, isAddressKey l.2.1 = true ∧ s ∈ leafAddrs ci l.2.2 := by
  unfold addrsWith
  simp only [List.mem_flatten, List.mem_map]
  constructor
  · rintro ⟨L, ⟨l, hl, rfl⟩, hs⟩
    obtain ⟨op, k, v⟩ := l
    by_cases hk : isAddressKey k = true
    · exact ⟨(op, k, v), hl, hk, by simpa [hk] using hs⟩
    · simp [hk] at hs
  · rintro ⟨⟨op, k, v⟩, hl, hk, hs⟩
    exact ⟨_, ⟨(op, k, v), hl, rfl⟩, by simpa [hk] using hs⟩

theorem addrsWith_nil_of_noAddr (ci : Bool) (f : Filter) (h : containsAddr f = false) :
    addrsWith ci f = [] := by
  apply List.eq_nil_iff_forall_not_mem.mpr
  intro s hs
  obtain ⟨l, hl, hk, _⟩ := (mem_addrsWith ci f s).mp hs
  rw [noAddr_leaves f h l hl] at hk
  cases hk

/-- The general soundness statement: whenever the meaning of address leaves is
    "one of the collected strings matches the row's account" (`hsem`), a pushable
    filter that is true on a row either collected nothing or collected an address
    matching the row. -/
theorem pushdown_sound_core (ci : Bool) (sem : Op → String → Val → Bool) (acct : List Seg)
    (hsem : ∀ op k v, isAddressKey k = true → sem op k v = true →
      ∃ s ∈ leafAddrs ci v, matchesAddress (Pattern.ofString s) acct = true)
    (f : Filter) (hpush : safeLateral f false = true) (heval : Filter.eval sem f = true) :
    addrsWith ci f = [] ∨ ∃ s ∈ addrsWith ci f, matchesAddress (Pattern.ofString s) acct = true := by
  by_cases hc : containsAddr f = true
  · right
    obtain ⟨l, hl, hk, ht⟩ := true_addr_leaf sem f hpush heval hc
    obtain ⟨s, hs, hm⟩ := hsem l.1 l.2.1 l.2.2 hk ht
    exact ⟨s, (mem_addrsWith ci f s).mpr ⟨l, hl, hk, hs⟩, hm⟩
  · left
    exact addrsWith_nil_of_noAddr ci f (by simpa using hc)

/-- The documented meaning of an address leaf on an account row (`addrLeaf`) is of
    that form for the current `collectAddressFilters` (which includes `$in` members). -/
theorem addrLeaf_witness (v : Val) (acct : List Seg) (h : addrLeaf false v [acct] = true) :
    ∃ s ∈ leafAddrs true v, matchesAddress (Pattern.ofString s) acct = true := by
  unfold addrLeaf at h
  match v, h with
  | .sc (.str s), h =>
    refine ⟨s, by simp [leafAddrs], ?_⟩
    simpa [matchesAny] using h
  | .arr l, h =>
    simp only [List.any_eq_true] at h
    obtain ⟨x, hx, hx'⟩ := h
    match x, hx, hx' with
    | .str s, hx, hx' =>
      simp only [List.any_cons, List.any_nil, Bool.or_false, beq_iff_eq] at hx'
      refine ⟨s, ?_, ?_⟩
      · simp only [leafAddrs, ↓reduceIte, List.mem_filterMap]
        exact ⟨.str s, hx, rfl⟩
      · unfold Pattern.ofString
        rw [← hx']
        exact matches_self _

/-- Without `$in` arrays the same holds for the pre-fix collection. -/
theorem addrLeaf_witness_preFix (v : Val) (acct : List Seg) (hv : ∀ l, v ≠ .arr l)
    (h : addrLeaf false v [acct] = true) :
    ∃ s ∈ leafAddrs false v, matchesAddress (Pattern.ofString s) acct = true := by
  unfold addrLeaf at h
  match v, h, hv with
  | .sc (.str s), h, _ =>
    refine ⟨s, by simp [leafAddrs], ?_⟩
    simpa [matchesAny] using h
  | .arr l, _, hv => exact absurd rfl (hv l)

end Ledger.Query
