import Ledger.Proofs.SchedTrans
import Ledger.Proofs.SchedLocks
import Ledger.Proofs.SchedUnique

/-!
# Lock discipline of the log inserts, under any schedule

A *monitor* follows a session's program and under-approximates what the session is known to
hold: the advisory key `K`, whether it is inside a transaction / a savepoint, and whether it may
have uncommitted logs of ledger `l₀`. `Safe d m p`: along every path of `p` (for every answer of
every statement) each log INSERT on `l₀` is issued while the key is held inside a transaction, and
the session-level unlock is issued only when no log of the session is uncommitted.
`GInv`: every session's program is safe for a monitor state that the world justifies. It is
preserved by every step of every session; hence an uncommitted log always belongs to the holder
of the key.
-/
namespace Ledger.Sched

structure Mon where
  held : Bool := false
  xact : Bool := false
  tx : Bool := false
  sp : Bool := false
  dirty : Bool := false
  deriving DecidableEq, Repr

/-- the discipline: key `K` guards the log inserts of ledger `l₀`; `strict`: moreover the inserts take
    their id from the sequence and run the hash trigger, and the sequences of `l₀` are never reset -/
structure Disc where
  K : Nat
  l₀ : Nat
  strict : Bool

/-- does the statement acquire `K`? (`some xact`) -/
def locksK (d : Disc) : Stmt → Option Bool
  | .advLockLog l => if logKey l = d.K then some true else none
  | .lockLedgerX l => if ledgerKey l = d.K then some true else none
  | .lockLedgerS l => if ledgerKey l = d.K then some false else none
  | _ => none

def monOk (d : Disc) (m : Mon) : Stmt → Prop
  | .insertLog l _ _ sy i _ => l = d.l₀ → (m.held = true ∧ m.tx = true ∧ (d.strict = true → sy = true ∧ i = none))
  | .unlockLedgerS l => ledgerKey l = d.K → m.dirty = false
  | .setval l => d.strict = true → l ≠ d.l₀
  | _ => True

def monStep (d : Disc) (m : Mon) (st : Stmt) (o : Out) : Mon :=
  match o.err with
  | some .aborted => m
  | some _ => { m with held := m.held && (!m.xact || (m.sp && d.K % 2 == 1)), dirty := false }
  | none =>
    match st with
    | .begin => { m with tx := true }
    | .commit | .rollback => { m with held := m.held && !m.xact, tx := false, sp := false, dirty := false }
    | .savepoint => { m with sp := true }
    | .release => { m with sp := false }
    | .insertLog l _ _ _ _ _ => if l = d.l₀ then { m with dirty := true } else m
    | .unlockLedgerS l => if ledgerKey l = d.K then { m with held := m.held && m.xact } else m
    | st =>
      match locksK d st with
      | some x => { m with held := true, xact := if m.held && !m.xact then false else x }
      | none => m

/-- answers a statement can give: BEGIN, COMMIT and ROLLBACK never fail -/
def Possible : Stmt → Out → Prop
  | .begin, o | .commit, o | .rollback, o => o.err = none
  | _, _ => True

def Safe (d : Disc) : Mon → Prog → Prop
  | _, .done _ => True
  | m, .stmt st k => monOk d m st ∧ ∀ o, Possible st o → Safe d (monStep d m st o) (k o)

/-- the world justifies the monitor state of session `s` -/
structure MonOf (d : Disc) (w : World) (s : Sid) (m : Mon) : Prop where
  held : m.held = true → ∃ a ∈ w.adv, a.key = d.K ∧ a.sid = s ∧ a.xact = m.xact
  tx : m.tx = true → (w.sess s).inTx = true
  sp : m.sp = true → (w.sess s).sp ≠ 0
  clean : m.dirty = false → ∀ e ∈ w.logs, e.l = d.l₀ → e.by_ = s → e.com = true
  dirtyTx : m.dirty = true → m.tx = true
  dirtyHeld : m.dirty = true → m.held = true

def GInv (d : Disc) (w : World) : Prop :=
  AdvWf w ∧ ∀ s, ∃ m, MonOf d w s m ∧ Safe d m (w.sess s).prog

/-- consequence: an uncommitted log of `l₀` belongs to a holder of `K` -/
theorem ginv_uncommitted_holds (d : Disc) (w : World) (h : GInv d w) (e : Lg) (he : e ∈ w.logs)
    (hl : e.l = d.l₀) (hc : e.com = false) : Holds w e.by_ d.K := by
  obtain ⟨m, hm, _⟩ := h.2 e.by_
  cases hd : m.dirty with
  | false =>
    have := hm.clean hd e he hl rfl
    rw [hc] at this; cases this
  | true =>
    obtain ⟨a, ha, hk, hs, _⟩ := hm.held (hm.dirtyHeld hd)
    exact ⟨a, ha, hk, hs⟩

end Ledger.Sched

namespace Ledger.Sched

/-! ## AdvWf is preserved by every step -/

theorem advWf_step (w : World) (s : Sid) (h : AdvWf w) : AdvWf (step w s) := by
  refine step_inv AdvWf s ?_ ?_ ?_ ?_ ?_ ?_ w h
  · intro w f h; exact h
  · intro w h; exact advWf_filter w _ h
  · intro w h; exact advWf_filter w _ h
  · intro w h
    unfold World.failTx
    simp only
    split
    · exact advWf_filter w _ h
    · exact h
  · intro w st w' o h he
    cases st with
    | lockLedgerX l =>
      simp only [exec] at he
      split at he
      · cases he
      · rename_i hn; cases he; exact advWf_append w _ _ _ h hn
    | lockLedgerS l =>
      simp only [exec] at he
      split at he
      · cases he
      · rename_i hn; cases he; exact advWf_append w _ _ _ h hn
    | advLockLog l =>
      simp only [exec] at he
      split at he
      · cases he
      · rename_i hn; cases he; exact advWf_append w _ _ _ h hn
    | unlockLedgerS l =>
      simp only [exec] at he
      cases he
      exact advWf_filter w _ h
    | getBalances ps =>
      simp only [exec] at he; unfold getBal at he
      repeat' split at he
      all_goals first | (cases he; done) | (cases he; exact h)
    | updateVolumes ds =>
      simp only [exec] at he; unfold updVol at he
      repeat' split at he
      all_goals first | (cases he; done) | (cases he; exact h)
    | insertTx l r i =>
      simp only [exec] at he
      have := (insTx_frame (Or.inl ⟨o, he⟩)).2.2.2.1
      unfold AdvWf; rw [this]; exact h
    | insertLog l k hh sy i tx =>
      simp only [exec] at he
      have := (insLog_frame (Or.inl ⟨o, he⟩)).2.2.2.1
      unfold AdvWf; rw [this]; exact h
    | _ =>
      simp only [exec] at he
      repeat' split at he
      all_goals first | (cases he; done) | (cases he; exact h)
  · intro w st w' e h he
    cases st with
    | getBalances ps =>
      simp only [exec] at he; unfold getBal at he
      repeat' split at he
      all_goals cases he
    | updateVolumes ds =>
      simp only [exec] at he; unfold updVol at he
      repeat' split at he
      all_goals cases he
    | insertTx l r i =>
      simp only [exec] at he
      have := (insTx_frame (Or.inr ⟨e, he⟩)).2.2.2.1
      unfold AdvWf; rw [this]; exact h
    | insertLog l k hh sy i tx =>
      simp only [exec] at he
      have := (insLog_frame (Or.inr ⟨e, he⟩)).2.2.2.1
      unfold AdvWf; rw [this]; exact h
    | _ =>
      simp only [exec] at he
      repeat' split at he
      all_goals first | (cases he; done) | (cases he; exact h)

/-! ## what a step of `t` leaves alone for another session `s` -/

/-- the facts about `s` that a step of another session cannot change -/
structure SameFor (s : Sid) (w w' : World) : Prop where
  adv : ∀ a ∈ w.adv, a.sid = s → a ∈ w'.adv
  inTx : (w'.sess s).inTx = (w.sess s).inTx
  sp : (w'.sess s).sp = (w.sess s).sp
  prog : (w'.sess s).prog = (w.sess s).prog
  logsOf : ∀ e, e.by_ = s → e.com = false → (e ∈ w'.logs ↔ e ∈ w.logs)

theorem SameFor.refl (s : Sid) (w : World) : SameFor s w w :=
  ⟨fun _ h _ => h, rfl, rfl, rfl, fun _ _ _ => Iff.rfl⟩

theorem SameFor.trans {s : Sid} {a b c : World} (h1 : SameFor s a b) (h2 : SameFor s b c) : SameFor s a c :=
  ⟨fun x hx hs => h2.adv x (h1.adv x hx hs) hs, h2.inTx.trans h1.inTx, h2.sp.trans h1.sp, h2.prog.trans h1.prog,
   fun e hb hc => (h2.logsOf e hb hc).trans (h1.logsOf e hb hc)⟩

end Ledger.Sched

namespace Ledger.Sched

theorem exec_sess_same (w : World) (s : Sid) (st : Stmt) (w' : World)
    (he : (∃ o, exec w s st = .done w' o) ∨ (∃ e, exec w s st = .failed w' e)) :
    ∀ u, (w'.sess u).prog = (w.sess u).prog ∧ (w'.sess u).inTx = (w.sess u).inTx ∧ (w'.sess u).sp = (w.sess u).sp := by
  intro u
  cases st with
  | insertTx l r i =>
    rcases he with ⟨o, he⟩ | ⟨e, he⟩ <;> (simp only [exec] at he; unfold insTx at he; dsimp only at he; repeat' split at he) <;>
      all_goals first | (cases he; done) | (cases he; exact ⟨rfl, rfl, rfl⟩)
  | insertLog l k hh sy i tx =>
    rcases he with ⟨o, he⟩ | ⟨e, he⟩ <;> (simp only [exec] at he; unfold insLog at he; dsimp only at he; repeat' split at he) <;>
      all_goals first | (cases he; done) | (cases he; exact ⟨rfl, rfl, rfl⟩)
  | getBalances ps =>
    rcases he with ⟨o, he⟩ | ⟨e, he⟩ <;> (simp only [exec] at he; unfold getBal at he; repeat' split at he) <;>
      all_goals first | (cases he; done) | (cases he; exact ⟨rfl, rfl, rfl⟩)
  | updateVolumes ds =>
    rcases he with ⟨o, he⟩ | ⟨e, he⟩ <;> (simp only [exec] at he; unfold updVol at he; repeat' split at he) <;>
      all_goals first | (cases he; done) | (cases he; exact ⟨rfl, rfl, rfl⟩)
  | unlockLedgerS l =>
    rcases he with ⟨o, he⟩ | ⟨e, he⟩ <;> simp only [exec] at he
    · cases he
      simp only [World.clearWaiters]
      split <;> exact ⟨rfl, rfl, rfl⟩
    · cases he
  | _ =>
    rcases he with ⟨o, he⟩ | ⟨e, he⟩ <;> (simp only [exec] at he; repeat' split at he) <;>
      all_goals first | (cases he; done) | (cases he; exact ⟨rfl, rfl, rfl⟩)

/-- what `exec` of session `t` does to the advisory locks: entries of other sessions are kept, and every
    new entry belongs to `t` -/
theorem exec_adv (w : World) (t : Sid) (st : Stmt) (w' : World)
    (he : (∃ o, exec w t st = .done w' o) ∨ (∃ e, exec w t st = .failed w' e)) :
    (∀ a ∈ w.adv, a.sid ≠ t → a ∈ w'.adv) ∧ (∀ a ∈ w'.adv, a ∈ w.adv ∨ a.sid = t) := by
  have same : w'.adv = w.adv → (∀ a ∈ w.adv, a.sid ≠ t → a ∈ w'.adv) ∧ (∀ a ∈ w'.adv, a ∈ w.adv ∨ a.sid = t) := by
    intro h; rw [h]; exact ⟨fun _ h _ => h, fun _ h => Or.inl h⟩
  have app : ∀ k x, w'.adv = w.adv ++ [{ key := k, sid := t, xact := x }] →
      (∀ a ∈ w.adv, a.sid ≠ t → a ∈ w'.adv) ∧ (∀ a ∈ w'.adv, a ∈ w.adv ∨ a.sid = t) := by
    intro k x h; rw [h]
    refine ⟨fun a ha _ => List.mem_append_left _ ha, fun a ha => ?_⟩
    simp only [List.mem_append, List.mem_singleton] at ha
    rcases ha with ha | ha
    · exact Or.inl ha
    · right; rw [ha]
  cases st with
  | lockLedgerX l =>
    rcases he with ⟨o, he⟩ | ⟨e, he⟩ <;> simp only [exec] at he <;> split at he <;> cases he
    exact app _ _ rfl
  | lockLedgerS l =>
    rcases he with ⟨o, he⟩ | ⟨e, he⟩ <;> simp only [exec] at he <;> split at he <;> cases he
    exact app _ _ rfl
  | advLockLog l =>
    rcases he with ⟨o, he⟩ | ⟨e, he⟩ <;> simp only [exec] at he <;> split at he <;> cases he
    exact app _ _ rfl
  | unlockLedgerS l =>
    rcases he with ⟨o, he⟩ | ⟨e, he⟩ <;> simp only [exec] at he <;> cases he
    simp only [World.clearWaiters]
    refine ⟨fun a ha hne => ?_, fun a ha => Or.inl (List.mem_filter.mp ha).1⟩
    refine List.mem_filter.mpr ⟨ha, ?_⟩
    simp [hne]
  | insertTx l r i =>
    simp only [exec] at he
    exact same (insTx_frame he).2.2.2.1
  | insertLog l k hh sy i tx =>
    simp only [exec] at he
    exact same (insLog_frame he).2.2.2.1
  | getBalances ps =>
    rcases he with ⟨o, he⟩ | ⟨e, he⟩ <;> (simp only [exec] at he; unfold getBal at he; repeat' split at he) <;>
      all_goals first | (cases he; done) | (cases he; exact same rfl)
  | updateVolumes ds =>
    rcases he with ⟨o, he⟩ | ⟨e, he⟩ <;> (simp only [exec] at he; unfold updVol at he; repeat' split at he) <;>
      all_goals first | (cases he; done) | (cases he; exact same rfl)
  | _ =>
    rcases he with ⟨o, he⟩ | ⟨e, he⟩ <;> (simp only [exec] at he; repeat' split at he) <;>
      all_goals first | (cases he; done) | (cases he; exact same rfl)

/-- what `exec` of session `t` does to the logs: nothing, or one uncommitted log of `t` appended -/
theorem exec_logs (w : World) (t : Sid) (st : Stmt) (w' : World)
    (he : (∃ o, exec w t st = .done w' o) ∨ (∃ e, exec w t st = .failed w' e)) :
    w'.logs = w.logs ∨ ∃ e, w'.logs = w.logs ++ [e] ∧ e.by_ = t ∧ e.com = false := by
  by_cases h2 : ∃ l k hh sy i tx, st = .insertLog l k hh sy i tx
  · obtain ⟨l, ik, hash, sync, id, tx, rfl⟩ := h2
    simp only [exec] at he
    rcases he with ⟨o, he⟩ | ⟨e, he⟩
    · unfold insLog at he
      dsimp only at he
      repeat' split at he
      all_goals first | (cases he; done) | (cases he; exact Or.inr ⟨_, rfl, rfl, rfl⟩)
    · unfold insLog at he
      dsimp only at he
      repeat' split at he
      all_goals first | (cases he; done) | (cases he; exact Or.inl rfl)
  · left
    cases st with
    | insertLog l k hh sy i tx => exact absurd ⟨l, k, hh, sy, i, tx, rfl⟩ h2
    | insertTx l r i => simp only [exec] at he; exact (insTx_frame he).2.2.2.2.1
    | getBalances ps =>
      rcases he with ⟨o, he⟩ | ⟨e, he⟩ <;> (simp only [exec] at he; unfold getBal at he; repeat' split at he) <;>
        all_goals first | (cases he; done) | (cases he; rfl)
    | updateVolumes ds =>
      rcases he with ⟨o, he⟩ | ⟨e, he⟩ <;> (simp only [exec] at he; unfold updVol at he; repeat' split at he) <;>
        all_goals first | (cases he; done) | (cases he; rfl)
    | _ =>
      rcases he with ⟨o, he⟩ | ⟨e, he⟩ <;> (simp only [exec] at he; repeat' split at he) <;>
        all_goals first | (cases he; done) | (cases he; rfl)

end Ledger.Sched

namespace Ledger.Sched

theorem mem_map_flip_logs (logs : List Lg) (t s : Sid) (hts : t ≠ s) (e : Lg) (hb : e.by_ = s) :
    e ∈ logs.map (fun x => if x.by_ = t then { x with com := true } else x) ↔ e ∈ logs := by
  constructor
  · intro h
    obtain ⟨x, hx, hxe⟩ := List.mem_map.mp h
    by_cases hxt : x.by_ = t
    · rw [if_pos hxt] at hxe
      have : e.by_ = t := by rw [← hxe]; exact hxt
      exact absurd (this.symm.trans hb) hts
    · rw [if_neg hxt] at hxe; rw [← hxe]; exact hx
  · intro h
    refine List.mem_map.mpr ⟨e, h, ?_⟩
    have : ¬ e.by_ = t := by rw [hb]; exact Ne.symm hts
    rw [if_neg this]

theorem sameFor_commit (s t : Sid) (hts : t ≠ s) (w : World) : SameFor s w (w.commitTx t) := by
  refine ⟨?_, ?_, ?_, ?_, ?_⟩
  · intro a ha hs
    simp only [World.commitTx]
    refine List.mem_filter.mpr ⟨ha, ?_⟩
    have : ¬ a.sid = t := by rw [hs]; exact Ne.symm hts
    simp [this]
  all_goals simp only [World.commitTx, Ne.symm hts, if_false]
  · split <;> rfl
  · split <;> rfl
  · split <;> rfl
  · intro e hb _
    exact mem_map_flip_logs w.logs t s hts e hb

theorem sameFor_undo (s t : Sid) (hts : t ≠ s) (w : World) (b : Bool) : SameFor s w (w.undo t b) := by
  refine ⟨?_, rfl, rfl, rfl, ?_⟩
  · intro a ha hs
    simp only [World.undo]
    refine List.mem_filter.mpr ⟨ha, ?_⟩
    have : ¬ a.sid = t := by rw [hs]; exact Ne.symm hts
    simp [this]
  · intro e hb _
    simp only [World.undo, List.mem_filter]
    have : e.by_ ≠ t := by rw [hb]; exact Ne.symm hts
    simp [this]

theorem sameFor_clear (s t : Sid) (w : World) : SameFor s w (w.clearWaiters t) := by
  refine ⟨fun _ h _ => h, ?_, ?_, ?_, fun _ _ _ => Iff.rfl⟩ <;> (simp only [World.clearWaiters]; split <;> rfl)

theorem sameFor_setSess (s t : Sid) (hts : t ≠ s) (w : World) (f) : SameFor s w (w.setSess t f) := by
  refine ⟨fun _ h _ => h, ?_, ?_, ?_, fun _ _ _ => Iff.rfl⟩ <;> simp [World.setSess, Ne.symm hts]

theorem sameFor_rollback (s t : Sid) (hts : t ≠ s) (w : World) : SameFor s w (w.rollbackTx t) := by
  unfold World.rollbackTx
  exact ((sameFor_undo s t hts w false).trans (sameFor_clear s t _)).trans (sameFor_setSess s t hts _ _)

theorem sameFor_fail (s t : Sid) (hts : t ≠ s) (w : World) : SameFor s w (w.failTx t) := by
  unfold World.failTx
  simp only
  split
  · exact ((sameFor_undo s t hts w _).trans (sameFor_clear s t _)).trans (sameFor_setSess s t hts _ _)
  · exact sameFor_setSess s t hts _ _

theorem sameFor_exec (s t : Sid) (hts : t ≠ s) (w : World) (st : Stmt) (w' : World)
    (he : (∃ o, exec w t st = .done w' o) ∨ (∃ e, exec w t st = .failed w' e)) : SameFor s w w' := by
  have hs := exec_sess_same w t st w' he s
  refine ⟨?_, hs.2.1, hs.2.2, hs.1, ?_⟩
  · intro a ha hsid
    exact (exec_adv w t st w' he).1 a ha (by rw [hsid]; exact Ne.symm hts)
  · intro e hb hc
    rcases exec_logs w t st w' he with h | ⟨n, h, hn, _⟩
    · rw [h]
    · rw [h]
      simp only [List.mem_append, List.mem_singleton]
      constructor
      · intro h'
        rcases h' with h' | h'
        · exact h'
        · exfalso; rw [h'] at hb; exact hts (hn.symm.trans hb)
      · intro h'; exact Or.inl h'

/-- a step of another session changes nothing `s`'s monitor speaks about -/
theorem sameFor_step (s t : Sid) (hts : t ≠ s) (w : World) : SameFor s w (step w t) := by
  refine step_inv (SameFor s w) t ?_ ?_ ?_ ?_ ?_ ?_ w (SameFor.refl s w)
  · intro w' f h; exact h.trans (sameFor_setSess s t hts w' f)
  · intro w' h; exact h.trans (sameFor_commit s t hts w')
  · intro w' h; exact h.trans (sameFor_rollback s t hts w')
  · intro w' h; exact h.trans (sameFor_fail s t hts w')
  · intro w' st w'' o h he; exact h.trans (sameFor_exec s t hts w' st w'' (Or.inl ⟨o, he⟩))
  · intro w' st w'' e h he; exact h.trans (sameFor_exec s t hts w' st w'' (Or.inr ⟨e, he⟩))

/-- the monitor state of `s` survives a step of another session -/
theorem monOf_same (d : Disc) (s : Sid) (w w' : World) (m : Mon) (h : SameFor s w w') (hm : MonOf d w s m) :
    MonOf d w' s m := by
  refine ⟨?_, ?_, ?_, ?_, hm.dirtyTx, hm.dirtyHeld⟩
  · intro hh
    obtain ⟨a, ha, hk, hs, hx⟩ := hm.held hh
    exact ⟨a, h.adv a ha hs, hk, hs, hx⟩
  · intro ht; rw [h.inTx]; exact hm.tx ht
  · intro hs; rw [h.sp]; exact hm.sp hs
  · intro hd e he hl hb
    cases hc : e.com with
    | true => rfl
    | false =>
      have := (h.logsOf e hb hc).mp he
      have := hm.clean hd e this hl hb
      rw [hc] at this; cases this

end Ledger.Sched

namespace Ledger.Sched

theorem monOf_advance (d : Disc) (w : World) (s : Sid) (k : Out → Prog) (o : Out) (m : Mon)
    (h : MonOf d w s m) : MonOf d (advance w s k o) s m := by
  refine ⟨h.held, ?_, ?_, h.clean, h.dirtyTx, h.dirtyHeld⟩
  · intro ht; simp only [advance, World.setSess, if_true]; exact h.tx ht
  · intro hs; simp only [advance, World.setSess, if_true]; exact h.sp hs

/-- after the uncommitted work of `s` is undone no uncommitted log of `s` is left -/
theorem undo_clean (w : World) (s : Sid) (b : Bool) : ∀ e ∈ (w.undo s b).logs, e.by_ = s → e.com = true := by
  intro e he hb
  simp only [World.undo, List.mem_filter] at he
  have := he.2
  simp only [Bool.or_eq_true, decide_eq_true_eq] at this
  rcases this with h | h
  · exact h
  · exact absurd hb h

theorem monOf_rollback (d : Disc) (w : World) (s : Sid) (m : Mon) (h : MonOf d w s m) :
    MonOf d (w.rollbackTx s) s { m with held := m.held && !m.xact, tx := false, sp := false, dirty := false } := by
  refine ⟨?_, (fun hc => by cases hc), (fun hc => by cases hc), ?_, (fun hc => by cases hc), (fun hc => by cases hc)⟩
  · intro hh
    simp only [Bool.and_eq_true, Bool.not_eq_true'] at hh
    obtain ⟨a, ha, hk, hs, hx⟩ := h.held hh.1
    refine ⟨a, ?_, hk, hs, hx⟩
    simp only [World.rollbackTx, World.setSess, World.clearWaiters, World.undo]
    refine List.mem_filter.mpr ⟨ha, ?_⟩
    simp [hx, hh.2]
  · intro _ e he _ hb
    exact undo_clean w s false e (by simpa [World.rollbackTx, World.setSess, World.clearWaiters] using he) hb

theorem monOf_commit (d : Disc) (w : World) (s : Sid) (m : Mon) (h : MonOf d w s m) :
    MonOf d (w.commitTx s) s { m with held := m.held && !m.xact, tx := false, sp := false, dirty := false } := by
  refine ⟨?_, (fun hc => by cases hc), (fun hc => by cases hc), ?_, (fun hc => by cases hc), (fun hc => by cases hc)⟩
  · intro hh
    simp only [Bool.and_eq_true, Bool.not_eq_true'] at hh
    obtain ⟨a, ha, hk, hs, hx⟩ := h.held hh.1
    refine ⟨a, ?_, hk, hs, hx⟩
    simp only [World.commitTx]
    refine List.mem_filter.mpr ⟨ha, ?_⟩
    simp [hx, hh.2]
  · intro _ e he _ hb
    simp only [World.commitTx, List.mem_map] at he
    obtain ⟨x, _, hxe⟩ := he
    by_cases hxs : x.by_ = s
    · rw [if_pos hxs] at hxe; rw [← hxe]
    · rw [if_neg hxs] at hxe; rw [← hxe] at hb; exact absurd hb hxs

theorem failTx_sess (w : World) (s : Sid) :
    ((w.failTx s).sess s).inTx = (w.sess s).inTx ∧ ((w.failTx s).sess s).sp = (w.sess s).sp := by
  unfold World.failTx
  simp only
  split
  · simp only [World.setSess, World.clearWaiters, World.undo, if_true]
    by_cases hw : (w.sess s).waitsFor = some s <;> simp [hw]
  · simp only [World.setSess, if_true]
    trivial

theorem monOf_fail (d : Disc) (w : World) (s : Sid) (m : Mon) (h : MonOf d w s m) :
    MonOf d (w.failTx s) s { m with held := m.held && (!m.xact || (m.sp && d.K % 2 == 1)), dirty := false } := by
  unfold World.failTx
  simp only
  split
  · rename_i hin
    refine ⟨?_, ?_, ?_, ?_, (fun hc => by cases hc), (fun hc => by cases hc)⟩
    · intro hh
      simp only [Bool.and_eq_true] at hh
      obtain ⟨a, ha, hk, hs, hx⟩ := h.held hh.1
      refine ⟨a, ?_, hk, hs, hx⟩
      simp only [World.setSess, World.clearWaiters, World.undo]
      refine List.mem_filter.mpr ⟨ha, ?_⟩
      have h2 := hh.2
      simp only [Bool.or_eq_true, Bool.not_eq_true', Bool.and_eq_true, beq_iff_eq] at h2
      rcases h2 with h2 | ⟨hsp, hodd⟩
      · simp [hx, h2]
      · have := h.sp hsp
        have hpos : (w.sess s).sp > 0 := Nat.pos_of_ne_zero this
        simp [hs, hx, hk, hpos, hodd]
    · intro ht
      have := (failTx_sess w s).1
      unfold World.failTx at this
      simp only [hin, if_true] at this
      rw [this]
      try exact h.tx ht
    · intro hsp
      have := (failTx_sess w s).2
      unfold World.failTx at this
      simp only [hin, if_true] at this
      rw [this]
      try exact h.sp hsp
    · intro _ e he _ hb
      exact undo_clean w s _ e (by simpa [World.setSess, World.clearWaiters] using he) hb
  · rename_i hin
    have hnd : m.dirty = false := by
      cases hd : m.dirty with
      | false => rfl
      | true => exact absurd (h.tx (h.dirtyTx hd)) hin
    refine ⟨?_, ?_, ?_, ?_, (fun hc => by cases hc), (fun hc => by cases hc)⟩
    · intro hh
      simp only [Bool.and_eq_true] at hh
      exact h.held hh.1
    · intro ht; exact absurd (h.tx ht) hin
    · intro hsp; simp only [World.setSess, if_true]; exact h.sp hsp
    · intro _ e he hl hb; exact h.clean hnd e he hl hb

end Ledger.Sched

namespace Ledger.Sched

theorem exec_done_err (w : World) (s : Sid) (st : Stmt) (w' : World) (o : Out)
    (he : exec w s st = .done w' o) : o.err = none := by
  cases st with
  | insertTx l r i =>
    simp only [exec] at he; unfold insTx at he; dsimp only at he; repeat' split at he
    all_goals first | (cases he; done) | (cases he; rfl)
  | insertLog l k hh sy i tx =>
    simp only [exec] at he; unfold insLog at he; dsimp only at he; repeat' split at he
    all_goals first | (cases he; done) | (cases he; rfl)
  | getBalances ps =>
    simp only [exec] at he; unfold getBal at he; repeat' split at he
    all_goals first | (cases he; done) | (cases he; rfl)
  | updateVolumes ds =>
    simp only [exec] at he; unfold updVol at he; repeat' split at he
    all_goals first | (cases he; done) | (cases he; rfl)
  | _ =>
    simp only [exec] at he; repeat' split at he
    all_goals first | (cases he; done) | (cases he; rfl)

theorem exec_failed_err (w : World) (s : Sid) (st : Stmt) (w' : World) (e : Err)
    (he : exec w s st = .failed w' e) : e ≠ .aborted := by
  cases st with
  | insertTx l r i =>
    simp only [exec] at he; unfold insTx at he; dsimp only at he; repeat' split at he
    all_goals first | (cases he; done) | (cases he; intro h; cases h)
  | insertLog l k hh sy i tx =>
    simp only [exec] at he; unfold insLog at he; dsimp only at he; repeat' split at he
    all_goals first | (cases he; done) | (cases he; intro h; cases h)
  | getBalances ps =>
    simp only [exec] at he; unfold getBal at he; repeat' split at he
    all_goals cases he
  | updateVolumes ds =>
    simp only [exec] at he; unfold updVol at he; repeat' split at he
    all_goals cases he
  | _ =>
    simp only [exec] at he; repeat' split at he
    all_goals first | (cases he; done) | (cases he; intro h; cases h)

/-- a failed statement leaves locks, logs and sessions as they were (only sequences move) -/
theorem exec_failed_frame (w : World) (s : Sid) (st : Stmt) (w' : World) (e : Err)
    (he : exec w s st = .failed w' e) : w'.adv = w.adv ∧ w'.logs = w.logs ∧ w'.sess = w.sess := by
  cases st with
  | insertTx l r i =>
    simp only [exec] at he; unfold insTx at he; dsimp only at he; repeat' split at he
    all_goals first | (cases he; done) | (cases he; exact ⟨rfl, rfl, rfl⟩)
  | insertLog l k hh sy i tx =>
    simp only [exec] at he; unfold insLog at he; dsimp only at he; repeat' split at he
    all_goals first | (cases he; done) | (cases he; exact ⟨rfl, rfl, rfl⟩)
  | getBalances ps =>
    simp only [exec] at he; unfold getBal at he; repeat' split at he
    all_goals cases he
  | updateVolumes ds =>
    simp only [exec] at he; unfold updVol at he; repeat' split at he
    all_goals cases he
  | _ =>
    simp only [exec] at he; repeat' split at he
    all_goals first | (cases he; done) | (cases he; exact ⟨rfl, rfl, rfl⟩)

theorem monOf_congr (d : Disc) (w w' : World) (s : Sid) (m : Mon) (h : MonOf d w s m)
    (h1 : w'.adv = w.adv) (h2 : w'.logs = w.logs) (h3 : (w'.sess s).inTx = (w.sess s).inTx)
    (h4 : (w'.sess s).sp = (w.sess s).sp) : MonOf d w' s m := by
  refine ⟨?_, ?_, ?_, ?_, h.dirtyTx, h.dirtyHeld⟩
  · rw [h1]; exact h.held
  · rw [h3]; exact h.tx
  · rw [h4]; exact h.sp
  · rw [h2]; exact h.clean

/-- the error branch of the monitor for a real failure -/
theorem monStep_err (d : Disc) (m : Mon) (st : Stmt) (o : Out) (e : Err) (ho : o.err = some e) (hne : e ≠ .aborted) :
    monStep d m st o = { m with held := m.held && (!m.xact || (m.sp && d.K % 2 == 1)), dirty := false } := by
  unfold monStep
  rw [ho]
  cases e <;> first | rfl | exact absurd rfl hne

end Ledger.Sched

namespace Ledger.Sched

theorem monOf_exec (d : Disc) (w : World) (s : Sid) (st : Stmt) (w' : World) (o : Out) (m : Mon)
    (hm : MonOf d w s m) (hok : monOk d m st) (hctl : st.isCtl = false)
    (he : exec w s st = .done w' o) : MonOf d w' s (monStep d m st o) := by
  have ho := exec_done_err w s st w' o he
  have hsess := exec_sess_same w s st w' (Or.inl ⟨o, he⟩) s
  cases st with
  | begin => cases hctl
  | commit => cases hctl
  | rollback => cases hctl
  | savepoint => cases hctl
  | release => cases hctl
  | rollbackTo => cases hctl
  | insertLog l ik hash sync id tx =>
    simp only [exec] at he
    obtain ⟨_, _, ⟨prev, hlogs⟩, _⟩ := insLog_done he
    have hadv := (insLog_frame (Or.inl ⟨o, he⟩)).2.2.2.1
    unfold monStep
    rw [ho]
    simp only
    by_cases hl : l = d.l₀
    · rw [if_pos hl]
      have hk := hok hl
      refine ⟨?_, ?_, ?_, (fun hc => by cases hc), (fun _ => hk.2.1), (fun _ => hk.1)⟩
      · rw [hadv]; exact hm.held
      · rw [hsess.2.1]; exact hm.tx
      · rw [hsess.2.2]; exact hm.sp
    · rw [if_neg hl]
      refine ⟨?_, ?_, ?_, ?_, hm.dirtyTx, hm.dirtyHeld⟩
      · rw [hadv]; exact hm.held
      · rw [hsess.2.1]; exact hm.tx
      · rw [hsess.2.2]; exact hm.sp
      · intro hd e he' hel hb
        rw [hlogs] at he'
        simp only [List.mem_append, List.mem_singleton] at he'
        rcases he' with he' | he'
        · exact hm.clean hd e he' hel hb
        · rw [he'] at hel; exact absurd hel hl
  | unlockLedgerS l =>
    simp only [exec] at he
    cases he
    unfold monStep
    simp only
    by_cases hk : ledgerKey l = d.K
    · rw [if_pos hk]
      refine ⟨?_, (fun ht => by rw [hsess.2.1]; exact hm.tx ht), ?_, hm.clean, hm.dirtyTx, ?_⟩
      · intro hh
        simp only [Bool.and_eq_true] at hh
        obtain ⟨a, ha, hak, has, hax⟩ := hm.held hh.1
        refine ⟨a, ?_, hak, has, hax⟩
        simp only [World.clearWaiters]
        refine List.mem_filter.mpr ⟨ha, ?_⟩
        simp [hax, hh.2]
      · intro hsp; rw [hsess.2.2]; exact hm.sp hsp
      · intro hd
        have := hok hk
        rw [this] at hd; cases hd
    · rw [if_neg hk]
      refine ⟨?_, ?_, ?_, hm.clean, hm.dirtyTx, hm.dirtyHeld⟩
      · intro hh
        obtain ⟨a, ha, hak, has, hax⟩ := hm.held hh
        refine ⟨a, ?_, hak, has, hax⟩
        simp only [World.clearWaiters]
        refine List.mem_filter.mpr ⟨ha, ?_⟩
        have : ¬ a.key = ledgerKey l := by rw [hak]; exact fun h => hk h.symm
        simp [this]
      · intro ht; rw [hsess.2.1]; exact hm.tx ht
      · intro hsp; rw [hsess.2.2]; exact hm.sp hsp
  | lockLedgerX l =>
    simp only [exec] at he
    split at he
    · cases he
    · cases he
      unfold monStep
      simp only [locksK]
      by_cases hk : ledgerKey l = d.K
      · simp only [hk, if_true]
        refine ⟨?_, hm.tx, hm.sp, hm.clean, hm.dirtyTx, (fun _ => rfl)⟩
        intro _
        by_cases hh : (m.held && !m.xact) = true
        · simp only [hh, if_true]
          simp only [Bool.and_eq_true, Bool.not_eq_true'] at hh
          obtain ⟨a, ha, hak, has, hax⟩ := hm.held hh.1
          exact ⟨a, List.mem_append_left _ ha, hak, has, hax.trans hh.2⟩
        · simp only [hh]
          exact ⟨_, List.mem_append_right _ (List.mem_singleton.mpr rfl), rfl, rfl, rfl⟩
      · simp only [hk, if_false]
        refine ⟨?_, hm.tx, hm.sp, hm.clean, hm.dirtyTx, hm.dirtyHeld⟩
        intro hh
        obtain ⟨a, ha, hrest⟩ := hm.held hh
        exact ⟨a, List.mem_append_left _ ha, hrest⟩
  | lockLedgerS l =>
    simp only [exec] at he
    split at he
    · cases he
    · cases he
      unfold monStep
      simp only [locksK]
      by_cases hk : ledgerKey l = d.K
      · simp only [hk, if_true]
        refine ⟨?_, hm.tx, hm.sp, hm.clean, hm.dirtyTx, (fun _ => rfl)⟩
        intro _
        by_cases hh : (m.held && !m.xact) = true
        · simp only [hh, if_true]
          simp only [Bool.and_eq_true, Bool.not_eq_true'] at hh
          obtain ⟨a, ha, hak, has, hax⟩ := hm.held hh.1
          exact ⟨a, List.mem_append_left _ ha, hak, has, hax.trans hh.2⟩
        · simp only [hh]
          exact ⟨_, List.mem_append_right _ (List.mem_singleton.mpr rfl), rfl, rfl, rfl⟩
      · simp only [hk, if_false]
        refine ⟨?_, hm.tx, hm.sp, hm.clean, hm.dirtyTx, hm.dirtyHeld⟩
        intro hh
        obtain ⟨a, ha, hrest⟩ := hm.held hh
        exact ⟨a, List.mem_append_left _ ha, hrest⟩
  | advLockLog l =>
    simp only [exec] at he
    split at he
    · cases he
    · cases he
      unfold monStep
      simp only [locksK]
      by_cases hk : logKey l = d.K
      · simp only [hk, if_true]
        refine ⟨?_, hm.tx, hm.sp, hm.clean, hm.dirtyTx, (fun _ => rfl)⟩
        intro _
        by_cases hh : (m.held && !m.xact) = true
        · simp only [hh, if_true]
          simp only [Bool.and_eq_true, Bool.not_eq_true'] at hh
          obtain ⟨a, ha, hak, has, hax⟩ := hm.held hh.1
          exact ⟨a, List.mem_append_left _ ha, hak, has, hax.trans hh.2⟩
        · simp only [hh]
          exact ⟨_, List.mem_append_right _ (List.mem_singleton.mpr rfl), rfl, rfl, rfl⟩
      · simp only [hk, if_false]
        refine ⟨?_, hm.tx, hm.sp, hm.clean, hm.dirtyTx, hm.dirtyHeld⟩
        intro hh
        obtain ⟨a, ha, hrest⟩ := hm.held hh
        exact ⟨a, List.mem_append_left _ ha, hrest⟩
  | insertTx l r i =>
    simp only [exec] at he
    have hf := insTx_frame (Or.inl ⟨o, he⟩)
    have : monStep d m (.insertTx l r i) o = m := by unfold monStep; rw [ho]; rfl
    rw [this]
    exact monOf_congr d w w' s m hm hf.2.2.2.1 hf.2.2.2.2.1 hsess.2.1 hsess.2.2
  | getBalances ps =>
    have : monStep d m (.getBalances ps) o = m := by unfold monStep; rw [ho]; rfl
    rw [this]
    simp only [exec] at he; unfold getBal at he
    repeat' split at he
    all_goals first | (cases he; done) | (cases he; exact monOf_congr d w _ s m hm rfl rfl rfl rfl)
  | updateVolumes ds =>
    have : monStep d m (.updateVolumes ds) o = m := by unfold monStep; rw [ho]; rfl
    rw [this]
    simp only [exec] at he; unfold updVol at he
    repeat' split at he
    all_goals first | (cases he; done) | (cases he; exact monOf_congr d w _ s m hm rfl rfl rfl rfl)
  | updateState l =>
    have : monStep d m (.updateState l) o = m := by unfold monStep; rw [ho]; rfl
    rw [this]
    simp only [exec] at he
    repeat' split at he
    all_goals first | (cases he; done) | (cases he; exact monOf_congr d w _ s m hm rfl rfl rfl rfl)
  | setval l =>
    have : monStep d m (.setval l) o = m := by unfold monStep; rw [ho]; rfl
    rw [this]
    simp only [exec] at he
    cases he; exact monOf_congr d w _ s m hm rfl rfl rfl rfl
  | readState l =>
    have : monStep d m (.readState l) o = m := by unfold monStep; rw [ho]; rfl
    rw [this]
    simp only [exec] at he
    cases he; exact monOf_congr d w _ s m hm rfl rfl rfl rfl
  | readIK l ik =>
    have : monStep d m (.readIK l ik) o = m := by unfold monStep; rw [ho]; rfl
    rw [this]
    simp only [exec] at he
    repeat' split at he
    all_goals first | (cases he; done) | (cases he; exact monOf_congr d w _ s m hm rfl rfl rfl rfl)
  | readLastLog l =>
    have : monStep d m (.readLastLog l) o = m := by unfold monStep; rw [ho]; rfl
    rw [this]
    simp only [exec] at he
    cases he; exact monOf_congr d w _ s m hm rfl rfl rfl rfl
  | upsertAccounts as =>
    have : monStep d m (.upsertAccounts as) o = m := by unfold monStep; rw [ho]; rfl
    rw [this]
    simp only [exec] at he
    repeat' split at he
    all_goals first | (cases he; done) | (cases he; exact monOf_congr d w _ s m hm rfl rfl rfl rfl)
  | revertUpdate l tx g =>
    have : monStep d m (.revertUpdate l tx g) o = m := by unfold monStep; rw [ho]; rfl
    rw [this]
    simp only [exec] at he
    repeat' split at he
    all_goals first | (cases he; done) | (cases he; exact monOf_congr d w _ s m hm rfl rfl rfl rfl)
  | createBlocks l size =>
    have : monStep d m (.createBlocks l size) o = m := by unfold monStep; rw [ho]; rfl
    rw [this]
    simp only [exec] at he
    cases he; exact monOf_congr d w _ s m hm rfl rfl rfl rfl

end Ledger.Sched

namespace Ledger.Sched

theorem monOf_trans (d : Disc) (w : World) (s : Sid) (st : Stmt) (o : Out) (w1 : World) (m : Mon)
    (hm : MonOf d w s m) (hok : monOk d m st) (ht : Trans w s st o w1) : MonOf d w1 s (monStep d m st o) := by
  cases ht with
  | begin =>
    refine ⟨hm.held, (fun _ => by simp [World.setSess]), ?_, hm.clean, (fun _ => rfl), hm.dirtyHeld⟩
    intro hsp; simp only [World.setSess, if_true]; exact hm.sp hsp
  | commitNoop hin =>
    have hnd : m.dirty = false := by
      cases hd : m.dirty with
      | false => rfl
      | true => have := hm.tx (hm.dirtyTx hd); rw [hin] at this; cases this
    refine ⟨?_, (fun hc => by cases hc), (fun hc => by cases hc), (fun _ => hm.clean hnd), (fun hc => by cases hc), (fun hc => by cases hc)⟩
    intro hh
    simp only [monStep, Bool.and_eq_true] at hh
    exact hm.held hh.1
  | commitAborted _ _ => exact monOf_rollback d w s m hm
  | commit _ _ => exact monOf_commit d w s m hm
  | rollback => exact monOf_rollback d w s m hm
  | savepointRefused _ => exact hm
  | releaseRefused _ => exact hm
  | refused _ _ _ => exact hm
  | savepoint _ =>
    refine ⟨hm.held, ?_, ?_, hm.clean, hm.dirtyTx, hm.dirtyHeld⟩
    · intro ht; simp only [World.setSess, if_true]; exact hm.tx ht
    · intro _; simp only [World.setSess, if_true]; omega
  | release _ _ =>
    refine ⟨hm.held, ?_, (fun hc => by cases hc), hm.clean, hm.dirtyTx, hm.dirtyHeld⟩
    intro ht; simp only [World.setSess, if_true]; exact hm.tx ht
  | releaseBad _ _ =>
    rw [monStep_err d m _ _ .noSavepoint rfl (by intro h; cases h)]
    exact monOf_fail d w s m hm
  | rollbackToBad _ =>
    rw [monStep_err d m _ _ .noSavepoint rfl (by intro h; cases h)]
    exact monOf_fail d w s m hm
  | rollbackTo _ =>
    refine ⟨hm.held, ?_, ?_, hm.clean, hm.dirtyTx, hm.dirtyHeld⟩
    · intro ht; simp only [World.setSess, if_true]; exact hm.tx ht
    · intro hsp; simp only [World.setSess, if_true]; exact hm.sp hsp
  | exec _ _ _ hctl _ he => exact monOf_exec d w s _ _ _ m hm hok hctl he
  | execFailed _ w' e _ _ he =>
    rw [monStep_err d m _ _ e rfl (exec_failed_err w s _ w' e he)]
    obtain ⟨h1, h2, h3⟩ := exec_failed_frame w s _ w' e he
    have hm' : MonOf d w' s m := monOf_congr d w w' s m hm h1 h2 (by rw [h3]) (by rw [h3])
    exact monOf_fail d w' s m hm'
  | deadlock _ t _ _ _ =>
    rw [monStep_err d m _ _ .deadlock rfl (by intro h; cases h)]
    exact monOf_fail d w s m hm

theorem possible_of_notCtl (st : Stmt) (o : Out) (h : st.isCtl = false) : Possible st o := by
  cases st <;> first | trivial | (simp [Stmt.isCtl] at h)

theorem trans_possible (w : World) (s : Sid) (st : Stmt) (o : Out) (w1 : World) (h : Trans w s st o w1) :
    Possible st o := by
  cases h with
  | begin => rfl
  | commitNoop _ => rfl
  | commitAborted _ _ => rfl
  | commit _ _ => rfl
  | rollback => rfl
  | savepointRefused _ => trivial
  | savepoint _ => trivial
  | releaseRefused _ => trivial
  | releaseBad _ _ => trivial
  | release _ _ => trivial
  | rollbackToBad _ => trivial
  | rollbackTo _ => trivial
  | refused _ hctl _ => exact possible_of_notCtl _ _ hctl
  | exec _ _ _ hctl _ _ => exact possible_of_notCtl _ _ hctl
  | execFailed _ _ _ hctl _ _ => exact possible_of_notCtl _ _ hctl
  | deadlock _ _ hctl _ _ => exact possible_of_notCtl _ _ hctl

/-- `GInv` is preserved by every step of every session. -/
theorem ginv_step (d : Disc) (w : World) (t : Sid) (h : GInv d w) : GInv d (step w t) := by
  refine ⟨advWf_step w t h.1, ?_⟩
  intro s
  obtain ⟨m, hm, hsafe⟩ := h.2 s
  by_cases hts : t = s
  · subst hts
    rcases step_cases w t with h0 | ⟨sn, wf, h1⟩ | ⟨st, k, o, w1, hp, h2, htr⟩
    · rw [h0]; exact ⟨m, hm, hsafe⟩
    · rw [h1]
      refine ⟨m, ?_, ?_⟩
      · refine ⟨hm.held, ?_, ?_, hm.clean, hm.dirtyTx, hm.dirtyHeld⟩
        · intro ht; simp only [World.setSess, if_true]; exact hm.tx ht
        · intro hsp; simp only [World.setSess, if_true]; exact hm.sp hsp
      · simp only [World.setSess, if_true]; exact hsafe
    · rw [h2]
      rw [hp] at hsafe
      refine ⟨monStep d m st o, monOf_advance d w1 t k o _ (monOf_trans d w t st o w1 m hm hsafe.1 htr), ?_⟩
      simp only [advance, World.setSess, if_true]
      exact hsafe.2 o (trans_possible w t st o w1 htr)
  · have hsame := sameFor_step s t hts w
    refine ⟨m, monOf_same d s w _ m hsame hm, ?_⟩
    rw [hsame.prog]; exact hsafe

theorem ginv_run (d : Disc) (σ : Schedule) (w : World) (h : GInv d w) : GInv d (run σ w) :=
  run_inv (GInv d) (fun w s h => ginv_step d w s h) σ w h

end Ledger.Sched
