import Ledger.Ctrl.Controller

/-!
Generic lemmas about the runner: sequencing, and "whatever every store call
preserves, every program preserves" (by induction on the program).
-/
namespace Ledger.Ctrl
open Ledger.Base Ledger.Core

/-- Every store call of the program satisfies `Q`. -/
inductive Prog.All {α : Type} (Q : Call → Prop) : Prog α → Prop where
  | pure (a : α) : Prog.All Q (.pure a)
  | fail (e : Err) : Prog.All Q (.fail e)
  | call (c : Call) (k : c.Ret → Prog α) (hc : Q c) (hk : ∀ r, Prog.All Q (k r)) : Prog.All Q (.call c k)

theorem Prog.All.bind {α β : Type} {Q : Call → Prop} {p : Prog α} {g : α → Prog β}
    (hp : p.All Q) (hg : ∀ a, (g a).All Q) : (Prog.bind p g).All Q := by
  induction hp with
  | pure a => exact hg a
  | fail e => exact .fail e
  | call c k hc _ ih => exact .call c _ hc ih

theorem Prog.All.mono {α : Type} {Q Q' : Call → Prop} {p : Prog α} (h : ∀ c, Q c → Q' c)
    (hp : p.All Q) : p.All Q' := by
  induction hp with
  | pure a => exact .pure a
  | fail e => exact .fail e
  | call c k hc _ ih => exact .call c k (h c hc) ih

theorem run_bind {α β : Type} (now : Time) (h : String) (f : Faults) (p : Prog α) (g : α → Prog β)
    (st : RunSt) :
    run now h f (Prog.bind p g) st =
      match run now h f p st with
      | (.error e, st') => (.error e, st')
      | (.ok a, st') => run now h f (g a) st' := by
  induction p generalizing st with
  | pure a => rfl
  | fail e => rfl
  | call c k ih =>
    simp only [Prog.bind, run]
    split
    · rfl
    · split
      · rfl
      · exact ih _ _

/-- A relation on (tables, sequences) that every store call satisfying `Q`
    respects — on success and on failure (a failing call may still consume a
    sequence value) — is respected by every program made of such calls. -/
theorem run_rel {α : Type} (now : Time) (h : String) (f : Faults) (Q : Call → Prop)
    (R : Db × Seqs → Db × Seqs → Prop) (refl : ∀ x, R x x) (trans : ∀ x y z, R x y → R y z → R x z)
    (hstep : ∀ c d sq, Q c →
      (∀ sq' e, exec now c d sq = (sq', .error e) → R (d, sq) (d, sq')) ∧
      (∀ sq' r d', exec now c d sq = (sq', .ok (r, d')) → R (d, sq) (d', sq')))
    (p : Prog α) (hp : p.All Q) (st : RunSt) :
    R (st.db, st.seq) ((run now h f p st).2.db, (run now h f p st).2.seq) := by
  induction hp generalizing st with
  | pure a => exact refl _
  | fail e => exact refl _
  | call c k hc _ ih =>
    simp only [run]
    split
    · exact refl _
    · split
      · rename_i sq e heq
        exact (hstep c st.db st.seq hc).1 sq e heq
      · rename_i sq r d heq
        exact trans _ _ _ ((hstep c st.db st.seq hc).2 sq r d heq) (ih r ⟨d, sq, _, _⟩)

/-- The call counter only grows. -/
theorem run_n_le {α : Type} (now : Time) (h : String) (f : Faults) (p : Prog α) (st : RunSt) :
    st.n ≤ (run now h f p st).2.n := by
  induction p generalizing st with
  | pure a => exact Nat.le_refl _
  | fail e => exact Nat.le_refl _
  | call c k ih =>
    simp only [run]
    split
    · exact Nat.le_succ _
    · split
      · exact Nat.le_succ _
      · rename_i sq r d _
        exact Nat.le_trans (Nat.le_succ _) (ih r ⟨d, sq, st.n + 1, _⟩)

end Ledger.Ctrl
