import Ledger.Proofs.CtrlRun

/-!
Facts about single store calls (`exec`) and their lifting to programs:
sequences never decrease; the idempotency-key lookup leaves the tables alone.
-/
namespace Ledger.Ctrl
open Ledger.Base Ledger.Core

theorem fires_nil (n : Nat) : fires [] n = none := rfl

/-- Componentwise order on the two sequences. -/
def SeqLe (a b : Seqs) : Prop := a.tx ≤ b.tx ∧ a.log ≤ b.log

theorem SeqLe.refl (a : Seqs) : SeqLe a a := ⟨Nat.le_refl _, Nat.le_refl _⟩
theorem SeqLe.trans {a b c : Seqs} (h1 : SeqLe a b) (h2 : SeqLe b c) : SeqLe a c :=
  ⟨Nat.le_trans h1.1 h2.1, Nat.le_trans h1.2 h2.2⟩

theorem commitTransaction_seq (now : Time) (t : TxIn) (d : Db) (sq : Seqs) :
    SeqLe sq (commitTransaction now t d sq).1 := by
  unfold commitTransaction
  cases t.id with
  | some i => simp only; split <;> (try split) <;> exact SeqLe.refl _
  | none => simp only; split <;> (try split) <;> exact ⟨Nat.le_succ _, Nat.le_refl _⟩

theorem insertLog_seq (now : Time) (l : LogIn) (d : Db) (sq : Seqs) :
    SeqLe sq (insertLog now l d sq).1 := by
  unfold insertLog
  cases l.id with
  | some i => simp only; split <;> (try split) <;> exact SeqLe.refl _
  | none => simp only; split <;> (try split) <;> exact ⟨Nat.le_refl _, Nat.le_succ _⟩

theorem exec_seq (now : Time) (c : Call) (d : Db) (sq : Seqs) : SeqLe sq (exec now c d sq).1 := by
  cases c <;> first
    | exact SeqLe.refl _
    | exact commitTransaction_seq ..
    | exact insertLog_seq ..

/-- Sequences never decrease along a program. -/
theorem run_seq {α : Type} (now : Time) (h : String) (f : Faults) (p : Prog α) (st : RunSt) :
    SeqLe st.seq (run now h f p st).2.seq := by
  have hall : p.All (fun _ => True) := by
    induction p with
    | pure a => exact .pure a
    | fail e => exact .fail e
    | call c k ih => exact .call c k trivial ih
  exact run_rel now h f (fun _ => True) (fun x y => SeqLe x.2 y.2) (fun x => SeqLe.refl _)
    (fun _ _ _ h1 h2 => SeqLe.trans h1 h2)
    (fun c d sq _ => ⟨fun sq' e he => by have := exec_seq now c d sq; rw [he] at this; exact this,
                      fun sq' r d' he => by have := exec_seq now c d sq; rw [he] at this; exact this⟩)
    p hall st

/-- `fetchLogWithIK` reads only. -/
theorem run_ikLookup_db (now : Time) (h : String) (f : Faults) (ik ihash : String) (st : RunSt) :
    (run now h f (ikLookup ik ihash) st).2.db = st.db ∧ (run now h f (ikLookup ik ihash) st).2.seq = st.seq := by
  unfold ikLookup
  split
  · exact ⟨rfl, rfl⟩
  · simp only [run]
    split
    · exact ⟨rfl, rfl⟩
    · simp only [exec]
      cases readLogWithIK ik st.db with
      | none => exact ⟨rfl, rfl⟩
      | some log =>
        simp only
        split <;> exact ⟨rfl, rfl⟩

end Ledger.Ctrl
