import Ledger.Proofs.SqlMovesUpdate

/-!
# `update_effective_volumes` as an AFTER INSERT ROW trigger, and the drain of the queue
-/
open Ledger Ledger.Sql Ledger.Generated Ledger.Core
namespace Ledger.Sql
open Ledger.Spec

@[simp] theorem clearQ_sp (s : St) : s.clearQ.searchPath = s.searchPath := rfl
@[simp] theorem clearQ_nextCid (s : St) : s.clearQ.nextCid = s.nextCid := rfl
@[simp] theorem enter_funcs (s : St) : s.enter.w.funcs = s.w.funcs := rfl

theorem exec_ret_new (cb : Callbacks) (te : TypeEnv) (l : String) (m : Spec.MoveRow) (x : Value) (fd : Bool) (s : St) :
    (withNewCid (evalExpr cb te (plEnvV (mvValsX l m x) fd []) (Expr.col "" "new"))).exec s = (.ok (.row mvCols (mvValsX l m x)), s.bump 1) := by
  have h : (evalExpr cb te (plEnvV (mvValsX l m x) fd []) (Expr.col "" "new")).exec s.enter = (.ok (.row mvCols (mvValsX l m x)), s.enter) := by
    simp only [evalExpr]
    rfl
  have := exec_withNewCid _ s _ _ h
  rw [enter_withCid] at this
  exact this

/-- the rows of `moves` after `update_effective_volumes` ran for NEW = `n` (as a nested command with id `c`) -/
def bumpRows (lv : View) (xid c : Nat) (ln : String) (n : Spec.MoveRow) (rows : List Ver) : List Ver :=
  updRun lv xid c (mvG ln n) (mvF n) rows (rows.filter (fun r => r.visible lv)).reverse

theorem exec_runTrigger_updEff (k : Nat) (b ln fname : String) (n : Spec.MoveRow)
    (setE wher : Expr) (hsem : UpdEffSem setE wher)
    (f : PlFunc) (hdecls : f.decls = []) (hbody : f.body = updEffBody setE wher)
    (s : St) (hs : TxState s) (hf : s.w.funcs.lookup fname = some f) (hschema : schemaOf fname = b)
    (hnc : s.nextCid + 2 ≤ 1000000000) (hvt : VolTypes s.w.types)
    (trigs : List TriggerDef) (nr : Nat) (rows : List Ver) (t : Table) (htc : t.cols = Schema.tbl_moves.cols)
    (hnb : trigs.filter (fun tr => tr.timing == .before && tr.event == .update) = [])
    (hna : trigs.filter (fun tr => tr.timing == .after && tr.event == .update) = [])
    (hT : s.w.table? (mvFull b) = some ((mvT b trigs nr).withRows rows)) (hfresh : Fresh s.xid s.nextCid rows)
    (bound : Int) (hinv : MvInv (latestView s.w s.xid) bound rows) :
    (runTrigger (k + 11) fname t (some (mvVals ln n)) none).exec s =
      (.ok (some (mvVals ln n)), (s.bump 2).withTable ((mvT b trigs nr).withRows (bumpRows (latestView s.w s.xid) s.xid s.nextCid ln n rows))) := by
  have hs1 : TxState (s.withSP b).enter.clearQ := ((hs.withSP b).enter (by simp; omega)).clearQ
  have hupd := mv_update_exec k b ln n false trigs nr setE wher hsem hnb hna (s.withSP b).enter.clearQ hs1 rfl hvt rows hT hfresh bound hinv
  have hrun := exec_runStmt_noAfter (k + 6) _ _ (s.withSP b).enter _ _ hupd
  have hcmd := exec_withNewCid _ (s.withSP b) _ _ hrun
  have henv : ∀ nv : List Value, ∀ fd : Bool, ({ vars := [], tcols := t.cols, new := some nv, found := fd } : PlSt).env = plEnvV nv fd [] := by
    intro nv fd; simp [PlSt.env, plEnvV, htc, mvCols]
  rw [runTrigger]
  simp only [exec_bind, exec_getW, hf, exec_typeEnv]
  rw [exec_withSearchPath (schemaOf fname) _ s (((s.withSP b).bump 2).withTable ((mvT b trigs nr).withRows (bumpRows (latestView s.w s.xid) s.xid s.nextCid ln n rows)))
    (some (mvVals ln n))]
  · rfl
  · rw [hschema]
    simp only [hdecls, List.foldlM_nil, exec_bind, exec_pure, hbody, updEffBody]
    rw [execPl]
    simp only [exec_bind]
    rw [execPlStmt]
    simp only [exec_bind, exec_typeEnv, withSP_w, henv]
    simp only [hcmd, List.isEmpty_nil, if_true, exec_bind, exec_pure]
    rw [execPl]
    simp only [exec_bind]
    rw [execPlStmt]
    simp only [exec_bind, exec_typeEnv, henv, mvVals, exec_ret_new, exec_pure]
    rfl

/-- the rows of `moves` after the queued `update_effective_volumes` triggers ran for `news`, in order, from command id `c` -/
def drainRows (lv : View) (xid : Nat) (ln : String) : Nat → List Ver → List Spec.MoveRow → List Ver
  | _, rows, [] => rows
  | c, rows, n :: ns => drainRows lv xid ln (c + 2) (bumpRows lv xid c ln n rows) ns

theorem MvInv_bumpRows (w : World) (xid c : Nat) (hx : xid ≠ 0) (hc : c < 1000000000) (b : String) (trigs : List TriggerDef) (nr : Nat)
    (ln : String) (n : Spec.MoveRow) (bound : Int) (rows : List Ver) (h : MvInv (latestView w xid) bound rows) :
    MvInv (latestView w xid) bound (bumpRows (latestView w xid) xid c ln n rows) := by
  apply (mvUpdInv b trigs nr w xid c hx hc ln n bound).run _ _ _ _ h
  · intro r hr
    have := List.mem_filter.mp (List.mem_reverse.mp hr)
    obtain ⟨l, m, hv, _⟩ := h.all r this.1
    exact ⟨this.1, this.2, l, m, hv⟩
  · rw [List.map_reverse]; exact nodup_reverse' _ h.ridNodup

end Ledger.Sql

namespace Ledger.Sql
open Ledger.Spec

/-- one queued AFTER trigger, as `drainAfter` runs it -/
def drainStep (n : Nat) (_ : Unit) (p : PendingTrig) : M Unit := do
  let t ← getTable p.table
  let _ ← runTrigger n p.fname t p.new p.old
  pure ()

theorem exec_drainFold_moves (k : Nat) (b ln fname : String) (setE wher : Expr) (hsem : UpdEffSem setE wher)
    (f : PlFunc) (hdecls : f.decls = []) (hbody : f.body = updEffBody setE wher)
    (s0 : St) (hs0 : TxState s0) (hf : s0.w.funcs.lookup fname = some f) (hschema : schemaOf fname = b) (hvt : VolTypes s0.w.types)
    (trigs : List TriggerDef) (nr : Nat)
    (hnb : trigs.filter (fun tr => tr.timing == .before && tr.event == .update) = [])
    (hna : trigs.filter (fun tr => tr.timing == .after && tr.event == .update) = [])
    (T0 : Table) (hT0 : s0.w.table? (mvFull b) = some T0) (bound : Int) :
    ∀ (news : List Spec.MoveRow) (rows : List Ver) (j : Nat), s0.nextCid + j + 2 * news.length ≤ 1000000000 →
      Fresh s0.xid (s0.nextCid + j) rows → MvInv (latestView s0.w s0.xid) bound rows →
      ((news.map (pendingOf fname (mvFull b) ln)).foldlM (drainStep (k + 11)) ()).exec
          ((s0.bump j).withTable ((mvT b trigs nr).withRows rows)) =
        (.ok (), (s0.bump (j + 2 * news.length)).withTable
          ((mvT b trigs nr).withRows (drainRows (latestView s0.w s0.xid) s0.xid ln (s0.nextCid + j) rows news))) := by
  intro news
  induction news with
  | nil => intro rows j _ _ _; simp [drainRows]
  | cons n ns ih =>
    intro rows j hnc hfresh hinv
    simp only [List.length_cons] at hnc
    have hsS : TxState ((s0.bump j).withTable ((mvT b trigs nr).withRows rows)) := (hs0.bump j).withTable _
    have hT : ((s0.bump j).withTable ((mvT b trigs nr).withRows rows)).w.table? (mvFull b) = some ((mvT b trigs nr).withRows rows) :=
      withTable_table? (s0.bump j) T0 ((mvT b trigs nr).withRows rows) hT0
    have hrun := exec_runTrigger_updEff k b ln fname n setE wher hsem f hdecls hbody
      ((s0.bump j).withTable ((mvT b trigs nr).withRows rows)) hsS (by simpa using hf) hschema (by simp; omega) (by simpa using hvt)
      trigs nr rows ((mvT b trigs nr).withRows rows) rfl hnb hna hT (by simpa using hfresh) bound (by simpa using hinv)
    simp only [withTable_latestView, bump_w, withTable_xid, bump_xid, withTable_nextCid, bump_nextCid] at hrun
    simp only [List.map_cons, exec_foldlM_cons, drainStep, pendingOf, exec_bind, exec_getTable hT, hrun, exec_pure]
    rw [bump_comm_table, bump_bump, withTable_withTable _ _ _ (by rfl)]
    have hih := ih (bumpRows (latestView s0.w s0.xid) s0.xid (s0.nextCid + j) ln n rows) (j + 2) (by omega)
      (by
        have hx := hs0.xid
        have : s0.nextCid + (j + 2) = s0.nextCid + j + 2 := by omega
        rw [this]
        exact Fresh_updRun _ _ _ _ (by omega) hx _ _ _ _ (hfresh.mono (by omega)))
      (MvInv_bumpRows s0.w s0.xid _ hs0.xid (by omega) b trigs nr ln n bound rows hinv)
    have e1 : j + 2 + 2 * ns.length = j + 2 * (ns.length + 1) := by omega
    have e2 : s0.nextCid + (j + 2) = s0.nextCid + j + 2 := by omega
    rw [e1, e2] at hih
    rw [hih]
    rfl

end Ledger.Sql
