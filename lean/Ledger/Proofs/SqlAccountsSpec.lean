import Ledger.Proofs.SqlAccountsStmt

/-!
# `UpsertAccounts`: what the transaction sees afterwards, and the storage invariant
-/
open Ledger Ledger.Sql Ledger.Generated Ledger.Core
open Ledger.Generated.WriteSql.P (AccountRow)
namespace Ledger.Sql

/-- the typed content of the rows of `accounts` visible in `lv` -/
def acAbs (lv : View) (rows : List Ver) : List AcR :=
  ((rows.filter (fun r => r.visible lv)).map (·.vals)).filterMap acDec

/-- the account row after the statement -/
def updOf (l : String) (ds : List DbR) (a : AcR) : AcR :=
  match ds.find? (updCond l a) with
  | some d => updRow a d
  | none => a

theorem filterMap_acDec_map (tbl : List AcR) : (tbl.map AcR.vals).filterMap acDec = tbl := by
  induction tbl with
  | nil => rfl
  | cons p ps ih => simp [List.filterMap_cons, acDec_vals, ih]

theorem acAbs_vals (lv : View) (rows : List Ver) (h : AcTyped rows) :
    (rows.filter (fun r => r.visible lv)).map (·.vals) = (acAbs lv rows).map AcR.vals := by
  unfold acAbs
  induction rows with
  | nil => rfl
  | cons r rs ih =>
    have ihh := ih (fun x hx => h x (by simp [hx]))
    obtain ⟨a, ha⟩ := h r (by simp)
    rw [List.filter_cons]
    split
    · rw [List.map_cons, List.filterMap_cons, ha, acDec_vals, List.map_cons, ← ihh]
    · exact ihh

/-- after the UPDATE of `updated_rows` -/
theorem acAbs_acUpdRows (w : World) (xid cid : Nat) (hx : xid ≠ 0) (hc : cid < 1000000000) (l : String) (ds : List DbR) (nr : Nat) (rows : List Ver)
    (hinv : AcInv (latestView w xid) nr rows) :
    (acAbs (latestView w xid) (acUpdRows (latestView w xid) xid cid l ds rows)).Perm ((acAbs (latestView w xid) rows).map (updOf l ds)) := by
  have hperm := (visible_updRun_all w xid cid hx hc (fun v => (acMatch l ds v).isSome) (acUpdF l ds) rows hinv.ridNodup).map (·.2)
  simp only [List.map_map] at hperm
  have hview := acAbs_vals (latestView w xid) rows hinv.typed
  have hrhs : (rows.filter (fun q => q.visible (latestView w xid))).map
      ((fun x : Nat × List Value => x.2) ∘ fun q => (q.rid, if (acMatch l ds q.vals).isSome then acUpdF l ds q.vals else q.vals)) =
      ((acAbs (latestView w xid) rows).map (updOf l ds)).map AcR.vals := by
    have e : ((fun x : Nat × List Value => x.2) ∘ fun q : Ver => (q.rid, if (acMatch l ds q.vals).isSome then acUpdF l ds q.vals else q.vals)) =
        (fun v => if (acMatch l ds v).isSome then acUpdF l ds v else v) ∘ (fun q : Ver => q.vals) := rfl
    rw [e, ← List.map_map, hview, List.map_map, List.map_map]
    apply List.map_congr_left
    intro a _
    simp only [Function.comp, acMatch_vals, updOf]
    cases hf : ds.find? (updCond l a) with
    | none => simp
    | some d => simp [acUpdF_vals l ds a d hf]
  rw [hrhs] at hperm
  have hlhs : (((updRun (latestView w xid) xid cid (fun v => (acMatch l ds v).isSome) (acUpdF l ds) rows
      (rows.filter (fun q => q.visible (latestView w xid))).reverse).filter
      (fun q => q.visible (latestView w xid))).map ((fun x : Nat × List Value => x.2) ∘ fun q => (q.rid, q.vals))) =
      ((acUpdRows (latestView w xid) xid cid l ds rows).filter (fun q => q.visible (latestView w xid))).map (·.vals) := rfl
  rw [hlhs] at hperm
  have := hperm.filterMap acDec
  rw [filterMap_acDec_map] at this
  exact this

/-- after the INSERT loop of `inserted_rows` -/
theorem acInsRows_props (w : World) (xid cid : Nat) (hx : xid ≠ 0) (hc : cid < 1000000000) (l : String) :
    ∀ (D : List DbR) (nr : Nat) (rows : List Ver), AcInv (latestView w xid) nr rows → (D.map (·.address)).Nodup →
      (∀ d ∈ D, ∀ q ∈ rows, q.visible (latestView w xid) = true → acKeyOf q.vals ≠ (l, d.address)) →
      AcInv (latestView w xid) (nr + D.length) (acInsRows xid cid l nr rows D) ∧
      acAbs (latestView w xid) (acInsRows xid cid l nr rows D) = (D.map (insRow l)).reverse ++ acAbs (latestView w xid) rows := by
  intro D
  induction D with
  | nil => intro nr rows h _ _; exact ⟨by simpa [acInsRows] using h, by simp [acInsRows]⟩
  | cons d D ih =>
    intro nr rows hinv hnd hno
    have hnd' : d.address ∉ D.map (·.address) ∧ (D.map (·.address)).Nodup := List.nodup_cons.mp hnd
    have hvis := newVer_visible w xid cid nr (insRow l d).vals hx hc
    have hfil : (newVer xid cid nr (insRow l d).vals :: rows).filter (fun r => r.visible (latestView w xid)) =
        newVer xid cid nr (insRow l d).vals :: rows.filter (fun r => r.visible (latestView w xid)) := by
      rw [List.filter_cons, if_pos hvis]
    have hinv' : AcInv (latestView w xid) (nr + 1) (newVer xid cid nr (insRow l d).vals :: rows) := by
      refine ⟨?_, ?_, ?_, ?_⟩
      · intro r hr
        rcases List.mem_cons.mp hr with rfl | hr
        · exact ⟨insRow l d, rfl⟩
        · exact hinv.typed r hr
      · intro r hr
        rcases List.mem_cons.mp hr with rfl | hr
        · simp [newVer]
        · have := hinv.ridLt r hr; omega
      · rw [hfil]
        simp only [List.map_cons, List.nodup_cons]
        refine ⟨?_, hinv.ridNodup⟩
        intro hmem
        obtain ⟨q, hq, he⟩ := List.mem_map.mp hmem
        have := hinv.ridLt q (List.mem_filter.mp hq).1
        simp only [newVer] at he
        omega
      · rw [hfil]
        simp only [List.map_cons, List.nodup_cons]
        refine ⟨?_, hinv.keyNodup⟩
        intro hmem
        obtain ⟨q, hq, he⟩ := List.mem_map.mp hmem
        have hq' := List.mem_filter.mp hq
        have := hno d (by simp) q hq'.1 hq'.2
        apply this
        rw [he]
        simp [newVer, insRow]
    have hno' : ∀ d' ∈ D, ∀ q ∈ newVer xid cid nr (insRow l d).vals :: rows, q.visible (latestView w xid) = true →
        acKeyOf q.vals ≠ (l, d'.address) := by
      intro d' hd' q hq hv
      rcases List.mem_cons.mp hq with rfl | hq
      · simp only [newVer, acKeyOf_vals, insRow]
        intro e
        have : d.address = d'.address := by simpa using e
        exact hnd'.1 (by rw [this]; exact List.mem_map_of_mem hd')
      · exact hno d' (by simp [hd']) q hq hv
    obtain ⟨h1, h2⟩ := ih (nr + 1) _ hinv' hnd'.2 hno'
    refine ⟨?_, ?_⟩
    · simp only [acInsRows, List.length_cons]
      have e : nr + 1 + D.length = nr + (D.length + 1) := by omega
      rw [← e]; exact h1
    · simp only [acInsRows]
      rw [h2]
      unfold acAbs
      rw [hfil]
      simp [List.filterMap_cons, newVer, acDec_vals]

end Ledger.Sql

namespace Ledger.Sql

/-- is there an account of ledger `l` with this address among the rows the transaction sees? -/
def hasAccount (l : String) (tbl : List AcR) (addr : String) : Bool :=
  tbl.any (fun a => decide (a.ledger = l) && decide (a.address = addr))

theorem mem_acAbs (lv : View) (rows : List Ver) (h : AcTyped rows) (a : AcR) :
    a ∈ acAbs lv rows ↔ ∃ r ∈ rows, r.visible lv = true ∧ r.vals = a.vals := by
  have hv := acAbs_vals lv rows h
  constructor
  · intro ha
    have : a.vals ∈ (acAbs lv rows).map AcR.vals := List.mem_map_of_mem ha
    rw [← hv] at this
    obtain ⟨r, hr, e⟩ := List.mem_map.mp this
    have := List.mem_filter.mp hr
    exact ⟨r, this.1, this.2, e⟩
  · rintro ⟨r, hr, hvis, e⟩
    have : r.vals ∈ (rows.filter (fun r => r.visible lv)).map (·.vals) := List.mem_map.mpr ⟨r, List.mem_filter.mpr ⟨hr, hvis⟩, rfl⟩
    rw [hv, e] at this
    obtain ⟨a', ha', e'⟩ := List.mem_map.mp this
    rw [← AcR.vals_inj a' a e']; exact ha'


/-- the batch rows that get inserted, in terms of the typed view -/
theorem filter_exAddrs_eq (b l : String) (trigs : List TriggerDef) (nr : Nat) (rows : List Ver) (s : St)
    (htb : AcTblState s b trigs nr rows) (ds : List DbR) :
    ds.filter (fun d => !(exAddrs b l trigs nr rows (cv s) ds).contains d.address) =
      ds.filter (fun d => !hasAccount l (acAbs (latestView s.w s.xid) rows) d.address) := by
  apply List.filter_congr
  intro d hd
  congr 1
  apply Bool.eq_iff_iff.mpr
  rw [List.contains_iff_mem, mem_exAddrs b l trigs nr rows (cv s) ds htb.inv.typed d.address]
  simp only [hasAccount, List.any_eq_true, Bool.and_eq_true, decide_eq_true_eq]
  constructor
  · rintro ⟨r, hr, hv, a, ha, hadr, hl, _⟩
    refine ⟨a, (mem_acAbs _ rows htb.inv.typed a).mpr ⟨r, hr, ?_, ha⟩, hl, hadr⟩
    rw [← visible_cv_latest s htb.tx rows htb.fresh r hr]; exact hv
  · rintro ⟨a, ha, hl, hadr⟩
    obtain ⟨r, hr, hv, e⟩ := (mem_acAbs _ rows htb.inv.typed a).mp ha
    refine ⟨r, hr, ?_, a, e, hadr, hl, d, hd, rfl⟩
    rw [visible_cv_latest s htb.tx rows htb.fresh r hr]; exact hv

/-- the rows `UpsertAccounts` leaves in `accounts`, in terms of the typed view: new rows for the batch addresses without account of the
    ledger, `updOf` applied to the existing rows; the storage invariant holds again -/
theorem upsertAccounts_rows_sem (b l : String) (trigs : List TriggerDef) (nr : Nat) (rows : List Ver) (s : St)
    (htb : AcTblState s b trigs nr rows) (ds : List DbR) (hnd : (ds.map (·.address)).Nodup) :
    (acAbs (latestView s.w s.xid) (acInsRows s.xid s.cid l nr (acUpdRows (latestView s.w s.xid) s.xid s.cid l ds rows)
        (ds.filter (fun d => !(exAddrs b l trigs nr rows (cv s) ds).contains d.address)))).Perm
      ((ds.filter (fun d => !hasAccount l (acAbs (latestView s.w s.xid) rows) d.address)).map (insRow l) ++
        (acAbs (latestView s.w s.xid) rows).map (updOf l ds)) ∧
    AcInv (latestView s.w s.xid) (nr + (ds.filter (fun d => !(exAddrs b l trigs nr rows (cv s) ds).contains d.address)).length)
      (acInsRows s.xid s.cid l nr (acUpdRows (latestView s.w s.xid) s.xid s.cid l ds rows)
        (ds.filter (fun d => !(exAddrs b l trigs nr rows (cv s) ds).contains d.address))) := by
  have hx := htb.tx.xid
  have hc := htb.tx.cid
  have hfilt := filter_exAddrs_eq b l trigs nr rows s htb ds
  rw [hfilt]
  have hinv3 := AcInv_acUpdRows b trigs nr s.w s.xid s.cid hx hc l ds rows htb.inv
  have hperm3 := acAbs_acUpdRows s.w s.xid s.cid hx hc l ds nr rows htb.inv
  have hno : ∀ d ∈ ds.filter (fun d => !hasAccount l (acAbs (latestView s.w s.xid) rows) d.address),
      ∀ q ∈ acUpdRows (latestView s.w s.xid) s.xid s.cid l ds rows, q.visible (latestView s.w s.xid) = true →
      acKeyOf q.vals ≠ (l, d.address) := by
    intro d hd q hq hv
    obtain ⟨r, hr, hrv, hk⟩ := key_acUpdRows s.w s.xid s.cid hx hc l ds nr rows htb.inv q hq hv
    rw [hk]
    intro hkey
    obtain ⟨a, ha⟩ := htb.inv.typed r hr
    rw [ha, acKeyOf_vals] at hkey
    have hf := (List.mem_filter.mp hd).2
    have : hasAccount l (acAbs (latestView s.w s.xid) rows) d.address = true := by
      simp only [hasAccount, List.any_eq_true, Bool.and_eq_true, decide_eq_true_eq]
      exact ⟨a, (mem_acAbs _ rows htb.inv.typed a).mpr ⟨r, hr, hrv, ha⟩, (Prod.mk.inj hkey).1, (Prod.mk.inj hkey).2⟩
    rw [this] at hf
    cases hf
  obtain ⟨h1, h2⟩ := acInsRows_props s.w s.xid s.cid hx hc l (ds.filter (fun d => !hasAccount l (acAbs (latestView s.w s.xid) rows) d.address)) nr _
    hinv3 ((List.filter_sublist.map _).nodup hnd) hno
  refine ⟨?_, h1⟩
  rw [h2]
  exact List.Perm.append (List.reverse_perm _) hperm3

open Ledger.Generated.WriteSql in
/-- **`UpsertAccounts`** (all dates given) on ANY `accounts` table satisfying the storage invariant, for ANY batch with distinct
    addresses: in the rows the transaction sees afterwards, every account of the ledger that a batch row `d` touches
    (`updCond`: lower first usage, or metadata not contained) is `updRow a d`; every batch row without an account is inserted as
    `insRow l d`; all other rows (other ledgers, untouched accounts) are unchanged. -/
theorem upsertAccounts_sem (k : Nat) (env : Env) (b l : String) (id : Nat) (trigs : List TriggerDef) (nr : Nat) (rows : List Ver)
    (s : St) (hst : UpsertState s b trigs nr rows) (henv : env.ctes = [])
    (pm : List (AccountRow × DbR)) (hlits : ∀ x ∈ pm, DbLit s.w.types x.1 x.2) (hnd : ((pm.map (·.2)).map (·.address)).Nodup) :
    ∃ (res : DmlResult) (rows' : List Ver) (n' : Nat),
      ((P.upsertAccounts b l id (pm.map (·.1))).mapM (runStmt (k + 19) env)).exec s =
        (.ok [res], s.withTable ((acT b trigs (nr + n')).withRows rows')) ∧
      (acAbs (latestView s.w s.xid) rows').Perm
        (((pm.map (·.2)).filter (fun d => !hasAccount l (acAbs (latestView s.w s.xid) rows) d.address)).map (insRow l) ++
          (acAbs (latestView s.w s.xid) rows).map (updOf l (pm.map (·.2)))) ∧
      AcInv (latestView s.w s.xid) (nr + n') rows' := by
  obtain ⟨res, hexec⟩ := exec_runStmt_upsertAccounts k env b l id trigs nr rows s hst henv pm hlits hnd
  obtain ⟨h1, h2⟩ := upsertAccounts_rows_sem b l trigs nr rows s hst.tbl (pm.map (·.2)) hnd
  exact ⟨res, _, _, hexec, h1, h2⟩

end Ledger.Sql
