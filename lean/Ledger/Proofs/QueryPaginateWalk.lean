import Ledger.Proofs.QueryPaginateCursor
namespace Ledger.Query

theorem take_succ_split (L : List Row) (n : Nat) (h : n < L.length) :
    ∃ y B, L = L.take n ++ y :: B ∧ L.take (n + 1) = L.take n ++ [y] ∧ L.drop n = y :: B := by
  have hd : L.drop n ≠ [] := by
    intro hnil
    have := congrArg List.length hnil
    simp at this; omega
  obtain ⟨y, B, hyB⟩ := List.exists_cons_of_ne_nil hd
  refine ⟨y, B, ?_, ?_, hyB⟩
  · rw [← hyB, List.take_append_drop]
  · have : L.take (n + 1) = L.take n ++ (L.drop n).take 1 := by
      rw [← List.take_add]
    rw [this, hyB]; simp

/-- Following `next` from a forward query positioned at the suffix `suf` of the
    ordered table enumerates exactly `suf`, page by page, and stops. -/
theorem walk_fwd {φ : Type} (o : Order) (T : List Row) (hT : KeysDistinct T) :
    ∀ (n : Nat) (suf pre : List Row) (q : ColQuery φ) (fuel : Nat),
      suf.length ≤ n → orderBy o T = pre ++ suf → q.order = some o → q.reverse = false →
      ((pre = [] ∧ q.paginationID = none) ∨ (∃ x rest, suf = x :: rest ∧ q.paginationID = some x.key)) →
      fuel ≥ suf.length + 1 →
      ((walkNextCol fuel q T).map (·.data)).flatten = suf ∧
      (∃ last, (walkNextCol fuel q T).getLast? = some last ∧ last.next = none) ∧
      (∀ p ∈ walkNextCol fuel q T, p.data.length ≤ effPageSize q.pageSize) := by
  intro n
  induction n with
  | zero =>
    intro suf pre q fuel hn hS ho hrev hpos hfuel
    have hsuf : suf = [] := List.eq_nil_of_length_eq_zero (by omega)
    subst hsuf
    obtain ⟨f, rfl⟩ : ∃ f, fuel = f + 1 := ⟨fuel - 1, by omega⟩
    have hpid : q.paginationID = none := by
      rcases hpos with ⟨_, h⟩ | ⟨x, rest, h, _⟩
      · exact h
      · cases h
    have hpre : pre = [] := by
      rcases hpos with ⟨h, _⟩ | ⟨x, rest, h, _⟩
      · exact h
      · cases h
    subst hpre
    have hfetch : fetchCol o q.reverse q.paginationID q.pageSize T = [] := by
      rw [hrev, hpid, fetchCol_first, hS]; simp
    obtain ⟨p, hp, hdata, _, hnext⟩ := buildCursorCol_fwd_last q o [] hrev (by simp) (Or.inl hpid)
    simp only [walkNextCol, paginateCol, ho, hfetch, hp, hnext]
    simp [hdata, hnext]
  | succ n ih =>
    intro suf pre q fuel hn hS ho hrev hpos hfuel
    obtain ⟨f, rfl⟩ : ∃ f, fuel = f + 1 := ⟨fuel - 1, by omega⟩
    have hfetch : fetchCol o q.reverse q.paginationID q.pageSize T = suf.take (effPageSize q.pageSize + 1) := by
      rcases hpos with ⟨hpre, hpid⟩ | ⟨x, rest, hsuf, hpid⟩
      · rw [hrev, hpid, fetchCol_first, hS, hpre]; simp
      · rw [hrev, hpid, fetchCol_fwd o T hT q.pageSize pre rest x (by rw [hS, hsuf]), hsuf]
    have hpid' : q.paginationID = none ∨ suf ≠ [] := by
      rcases hpos with ⟨_, hpid⟩ | ⟨x, rest, hsuf, _⟩
      · exact Or.inl hpid
      · exact Or.inr (by rw [hsuf]; simp)
    by_cases hlen : suf.length ≤ effPageSize q.pageSize
    · -- last page
      have htake : suf.take (effPageSize q.pageSize + 1) = suf := List.take_of_length_le (by omega)
      obtain ⟨p, hp, hdata, _, hnext⟩ := buildCursorCol_fwd_last q o suf hrev hlen hpid'
      simp only [walkNextCol, paginateCol, ho, hfetch, htake, hp, hnext]
      refine ⟨by simp [hdata], ⟨p, by simp, hnext⟩, ?_⟩
      intro p' hp'
      simp at hp'
      subst hp'
      rw [hdata]; exact hlen
    · -- a page and a successor
      have hlt : effPageSize q.pageSize < suf.length := by omega
      obtain ⟨y, B, hsplit, htake, hdrop⟩ := take_succ_split suf (effPageSize q.pageSize) hlt
      have hAlen : (suf.take (effPageSize q.pageSize)).length = effPageSize q.pageSize := by
        rw [List.length_take]; omega
      obtain ⟨p, hp, hdata, _, q', hnext, hq'pid, hq'rev, hq'ps, hq'ord, _, _⟩ :=
        buildCursorCol_fwd_more q o (suf.take (effPageSize q.pageSize)) y hrev hAlen
      have hpos := effPageSize_pos q.pageSize
      have hS' : orderBy o T = (pre ++ suf.take (effPageSize q.pageSize)) ++ (y :: B) := by
        rw [List.append_assoc, ← hsplit, hS]
      have hBlen : (y :: B).length ≤ n := by
        have : suf.length = (suf.take (effPageSize q.pageSize)).length + (y :: B).length := by
          conv => lhs; rw [hsplit]
          simp
        omega
      have hBlen2 : suf.length = effPageSize q.pageSize + (y :: B).length := by
        have : suf.length = (suf.take (effPageSize q.pageSize)).length + (y :: B).length := by
          conv => lhs; rw [hsplit]
          simp
        omega
      obtain ⟨ih1, ⟨last, ih2, ih3⟩, ih4⟩ := ih (y :: B) (pre ++ suf.take (effPageSize q.pageSize)) q' f hBlen hS'
        (by rw [hq'ord, ho]) hq'rev (Or.inr ⟨y, B, rfl, hq'pid⟩) (by omega)
      simp only [walkNextCol, paginateCol, ho, hfetch, htake, hp, hnext]
      refine ⟨?_, ?_, ?_⟩
      · simp only [List.map_cons, List.flatten_cons, hdata, ih1]
        exact hsplit.symm
      · refine ⟨last, ?_, ih3⟩
        rw [List.getLast?_cons]
        simp [ih2]
      · intro p' hp'
        rcases List.mem_cons.mp hp' with rfl | hp'
        · rw [hdata, hAlen]; exact Nat.le_refl _
        · have := ih4 p' hp'
          rw [hq'ps] at this; exact this

end Ledger.Query

namespace Ledger.Query

/-- On the pages of a forward walk `hasMore` is `next != nil` (`BuildCursor`). -/
theorem buildCursorCol_hasMore_fwd {φ : Type} (q : ColQuery φ) (o : Order) (ret : List Row)
    (p : Page (ColQuery φ)) (hrev : q.reverse = false) (h : buildCursorCol q o ret = .ok p) :
    p.hasMore = p.next.isSome := by
  unfold buildCursorCol at h
  simp only [hrev, Bool.false_eq_true, ↓reduceIte] at h
  split at h
  · cases h; rfl
  · split at h
    · cases h; rfl
    · cases h; rfl

end Ledger.Query

namespace Ledger.Query

theorem buildCursorCol_next_fwd {φ : Type} (q : ColQuery φ) (o : Order) (ret : List Row)
    (p : Page (ColQuery φ)) (hrev : q.reverse = false) (h : buildCursorCol q o ret = .ok p) :
    ∀ q' ∈ p.next, q'.reverse = false ∧ q'.order = q.order := by
  unfold buildCursorCol at h
  simp only [hrev, Bool.false_eq_true, ↓reduceIte] at h
  intro q' hq'
  split at h
  · cases h
    simp only [Option.mem_def] at hq'
    split at hq'
    · cases hq'; exact ⟨rfl, rfl⟩
    · cases hq'
  · split at h
    · cases h
      simp only [Option.mem_def] at hq'
      split at hq'
      · cases hq'; exact ⟨rfl, rfl⟩
      · cases hq'
    · cases h
      simp only [Option.mem_def] at hq'
      split at hq'
      · cases hq'; exact ⟨rfl, rfl⟩
      · cases hq'

theorem walk_hasMore_eq {φ : Type} : ∀ (fuel : Nat) (q : ColQuery φ) (T : List Row),
    q.reverse = false → ∀ p ∈ walkNextCol fuel q T, p.hasMore = p.next.isSome
  | 0, _, _, _, p, hp => by simp [walkNextCol] at hp
  | fuel + 1, q, T, hrev, p, hp => by
    unfold walkNextCol at hp
    cases ho : q.order with
    | none => simp [paginateCol, ho] at hp
    | some o =>
      simp only [paginateCol, ho] at hp
      cases hb : buildCursorCol q o (fetchCol o q.reverse q.paginationID q.pageSize T) with
      | error e => simp [hb] at hp
      | ok pg =>
        simp only [hb] at hp
        rcases List.mem_cons.mp hp with rfl | hp
        · exact buildCursorCol_hasMore_fwd q o _ _ hrev hb
        · cases hn : pg.next with
          | none => simp [hn] at hp
          | some q' =>
            simp only [hn] at hp
            have := (buildCursorCol_next_fwd q o _ pg hrev hb q' (by simp [hn])).1
            exact walk_hasMore_eq fuel q' T this p hp

end Ledger.Query
