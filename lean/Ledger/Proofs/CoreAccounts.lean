import Ledger.Proofs.CoreHistory
import Ledger.Spec.Accounts

/-! C18 algebra: the `accounts` table of the abstract store follows the history. -/
set_option linter.unusedSectionVars false
namespace Ledger.Spec
open Ledger.Base Ledger.Core

/-- effect of one upsert row on the dates of an account -/
def stepDates (ts ins : Int) : Option (Int × Int) → Option (Int × Int)
  | none => some (ts, ins)
  | some (fu, i) => some (if ts < fu then ts else fu, i)

theorem stepDates_idem (ts ins : Int) (c : Option (Int × Int)) :
    stepDates ts ins (stepDates ts ins c) = stepDates ts ins c := by
  cases c with
  | none => simp [stepDates]
  | some p =>
    obtain ⟨fu, i⟩ := p
    simp only [stepDates]
    by_cases h : ts < fu
    · simp [h]
    · simp [h]

def datesAt (m : Map String AccountRow) (a : String) : Option (Int × Int) := (m.get? a).map AccountRow.dates

theorem upsertAccount_spec {m : Map String AccountRow} (hw : Map.WF m) (a : String) (ts ins : Int) (md : Metadata) :
    Map.WF (upsertAccount m a (some ts) ins md) ∧
    ∀ b, datesAt (upsertAccount m a (some ts) ins md) b = if b = a then stepDates ts ins (datesAt m a) else datesAt m b := by
  unfold upsertAccount
  cases hg : m.get? a with
  | none =>
    simp only []
    refine ⟨Map.WF_insertWith _ _ _ hw, ?_⟩
    intro b
    unfold datesAt Map.insert
    rw [Map.get?_insertWith _ _ _ hw, hg]
    by_cases hb : b = a
    · simp [hb, stepDates, AccountRow.dates]
    · simp [hb]
  | some r =>
    simp only []
    by_cases hc : ((decide (ts < r.firstUsage)) || !metaContains r.metadata md) = true
    · rw [if_pos hc]
      refine ⟨Map.WF_insertWith _ _ _ hw, ?_⟩
      intro b
      unfold datesAt Map.insert
      rw [Map.get?_insertWith _ _ _ hw, hg]
      by_cases hb : b = a
      · simp [hb, stepDates, AccountRow.dates]
      · simp [hb]
    · rw [if_neg hc]
      refine ⟨hw, ?_⟩
      intro b
      by_cases hb : b = a
      · subst hb
        have hlt : ¬ ts < r.firstUsage := by
          intro h; apply hc; simp [h]
        simp [datesAt, hg, stepDates, AccountRow.dates, hlt]
      · simp [hb]

/-- a batch of upsert rows with the same dates -/
theorem upsert_fold_spec (ts ins : Int) (L : List (String × Metadata)) {m : Map String AccountRow} (hw : Map.WF m) :
    Map.WF (L.foldl (fun acc e => upsertAccount acc e.1 (some ts) ins e.2) m) ∧
    ∀ b, datesAt (L.foldl (fun acc e => upsertAccount acc e.1 (some ts) ins e.2) m) b =
      if b ∈ L.map (·.1) then stepDates ts ins (datesAt m b) else datesAt m b := by
  induction L generalizing m with
  | nil => exact ⟨hw, fun b => by simp⟩
  | cons e L ih =>
    obtain ⟨hw1, h1⟩ := upsertAccount_spec hw e.1 ts ins e.2
    obtain ⟨hw2, h2⟩ := ih hw1
    refine ⟨hw2, ?_⟩
    intro b
    simp only [List.foldl_cons, List.map_cons, List.mem_cons]
    rw [h2 b, h1 b]
    by_cases hb : b = e.1
    · subst hb
      by_cases hL : e.1 ∈ L.map (·.1)
      · simp [hL, stepDates_idem]
      · simp [hL]
    · by_cases hL : b ∈ L.map (·.1)
      · simp [hb, hL]
      · simp [hb, hL]

theorem mem_involvedAccounts (ps : List Posting) (a : String) :
    a ∈ involvedAccounts ps ↔ ∃ p ∈ ps, p.source = a ∨ p.destination = a := by
  unfold involvedAccounts
  have gen : ∀ (m : Map String Unit),
      a ∈ (ps.foldl (fun (m : Map String Unit) p => (m.insert p.source ()).insert p.destination ()) m).keys ↔
        a ∈ m.keys ∨ ∃ p ∈ ps, p.source = a ∨ p.destination = a := by
    induction ps with
    | nil => intro m; simp
    | cons p ps ih =>
      intro m
      simp only [List.foldl_cons]
      rw [ih]
      unfold Map.insert
      rw [Map.keys_insertWith_perm_mem, Map.keys_insertWith_perm_mem]
      constructor
      · rintro ((h | h | h) | ⟨q, hq, hk⟩)
        · exact Or.inr ⟨p, List.mem_cons_self, Or.inr h.symm⟩
        · exact Or.inr ⟨p, List.mem_cons_self, Or.inl h.symm⟩
        · exact Or.inl h
        · exact Or.inr ⟨q, List.mem_cons_of_mem _ hq, hk⟩
      · rintro (h | ⟨q, hq, hk⟩)
        · exact Or.inl (Or.inr (Or.inr h))
        · rcases List.mem_cons.mp hq with rfl | hq
          · rcases hk with hk | hk
            · exact Or.inl (Or.inr (Or.inl hk.symm))
            · exact Or.inl (Or.inl hk.symm)
          · exact Or.inr ⟨q, hq, hk⟩
  rw [gen []]
  simp [Map.keys]

theorem involves_iff (t : TxIn) (a : String) :
    t.involves a = true ↔ (t.upsertAccounts = true ∧ (a ∈ involvedAccounts t.postings ∨ a ∈ t.accountMetadata.keys)) := by
  unfold TxIn.involves
  rw [Bool.and_eq_true, Bool.or_eq_true, Map.contains_iff_mem_keys, mem_involvedAccounts]
  simp only [List.any_eq_true, Bool.or_eq_true, beq_iff_eq]

/-- the accounts part of a commit -/
theorem applyTx_accounts {st st' : Store} (hw : Map.WF st.accounts) (t : TxIn) (h : applyTx st t = .ok st') :
    Map.WF st'.accounts ∧ ∀ a, datesAt st'.accounts a = datesStep a (datesAt st.accounts a) t := by
  unfold applyTx at h
  simp only [movesOf_returned] at h
  cases h
  simp only []
  by_cases hflag : t.upsertAccounts = true
  case neg =>
    simp only [hflag]
    refine ⟨hw, ?_⟩
    intro a
    have : ¬ t.involves a = true := by rw [involves_iff]; intro h; exact hflag h.1
    simp [datesStep, this]
  simp only [hflag, if_true]
  -- first batch: the involved accounts
  have e1 : (involvedAccounts t.postings).foldl (fun acc a =>
        upsertAccount acc a (some t.timestamp) t.insertedAt ((t.accountMetadata.get? a).getD [])) st.accounts =
      ((involvedAccounts t.postings).map (fun a => (a, (t.accountMetadata.get? a).getD []))).foldl
        (fun acc e => upsertAccount acc e.1 (some t.timestamp) t.insertedAt e.2) st.accounts := by
    rw [List.foldl_map]
  rw [e1]
  obtain ⟨hw1, h1⟩ := upsert_fold_spec t.timestamp t.insertedAt
    ((involvedAccounts t.postings).map (fun a => (a, (t.accountMetadata.get? a).getD []))) hw
  obtain ⟨hw2, h2⟩ := upsert_fold_spec t.timestamp t.insertedAt
    (t.accountMetadata.filter (fun e => !(involvedAccounts t.postings).contains e.1)) hw1
  refine ⟨hw2, ?_⟩
  intro a
  rw [h2 a, h1 a]
  have hmap : (List.map (fun x => x.1) (List.map (fun a => (a, (t.accountMetadata.get? a).getD []))
      (involvedAccounts t.postings))) = involvedAccounts t.postings := by
    rw [List.map_map]; simp [Function.comp_def]
  rw [hmap]
  have hmem2 : a ∈ List.map (fun x => x.1) (List.filter (fun e => !(involvedAccounts t.postings).contains e.1) t.accountMetadata) ↔
      (a ∈ t.accountMetadata.keys ∧ a ∉ involvedAccounts t.postings) := by
    simp only [List.mem_map, List.mem_filter, Map.keys, Bool.not_eq_true', List.contains_eq_mem,
      decide_eq_false_iff_not]
    constructor
    · rintro ⟨e, ⟨he, hn⟩, rfl⟩; exact ⟨⟨e, he, rfl⟩, hn⟩
    · rintro ⟨⟨e, he, rfl⟩, hn⟩; exact ⟨e, ⟨he, hn⟩, rfl⟩
  unfold datesStep
  by_cases hi : a ∈ involvedAccounts t.postings
  · have hinv : t.involves a = true := (involves_iff t a).mpr ⟨hflag, Or.inl hi⟩
    have hn2 : ¬ (a ∈ List.map (fun x => x.1) (List.filter (fun e => !(involvedAccounts t.postings).contains e.1) t.accountMetadata)) := by
      rw [hmem2]; intro h; exact h.2 hi
    rw [if_neg hn2, if_pos hi, if_pos hinv]
    cases datesAt st.accounts a with
    | none => rfl
    | some p => rfl
  · by_cases hk : a ∈ t.accountMetadata.keys
    · have hinv : t.involves a = true := (involves_iff t a).mpr ⟨hflag, Or.inr hk⟩
      have h2' : a ∈ List.map (fun x => x.1) (List.filter (fun e => !(involvedAccounts t.postings).contains e.1) t.accountMetadata) :=
        hmem2.mpr ⟨hk, hi⟩
      rw [if_pos h2', if_neg hi, if_pos hinv]
      cases datesAt st.accounts a with
      | none => rfl
      | some p => rfl
    · have hinv : ¬ t.involves a = true := by
        rw [involves_iff]; intro h; rcases h.2 with h | h
        · exact hi h
        · exact hk h
      have hn2 : ¬ (a ∈ List.map (fun x => x.1) (List.filter (fun e => !(involvedAccounts t.postings).contains e.1) t.accountMetadata)) := by
        rw [hmem2]; intro h; exact hk h.1
      rw [if_neg hn2, if_neg hi, if_neg hinv]

theorem upsertAccount_none_spec {m : Map String AccountRow} (hw : Map.WF m) (a : String) (date : Int) (md : Metadata) :
    Map.WF (upsertAccount m a none date md) ∧
    ∀ b, datesAt (upsertAccount m a none date md) b =
      if b = a then (match datesAt m a with | none => some (date, date) | some c => some c) else datesAt m b := by
  unfold upsertAccount
  cases hg : m.get? a with
  | none =>
    simp only []
    refine ⟨Map.WF_insertWith _ _ _ hw, ?_⟩
    intro b
    unfold datesAt Map.insert
    rw [Map.get?_insertWith _ _ _ hw, hg]
    by_cases hb : b = a
    · simp [hb, AccountRow.dates]
    · simp [hb]
  | some r =>
    simp only []
    by_cases hc : ((false) || !metaContains r.metadata md) = true
    · rw [if_pos hc]
      refine ⟨Map.WF_insertWith _ _ _ hw, ?_⟩
      intro b
      unfold datesAt Map.insert
      rw [Map.get?_insertWith _ _ _ hw, hg]
      by_cases hb : b = a
      · simp [hb, AccountRow.dates]
      · simp [hb]
    · rw [if_neg hc]
      refine ⟨hw, ?_⟩
      intro b
      by_cases hb : b = a
      · subst hb; simp [datesAt, hg]
      · simp [hb]

theorem datesOfOps_snoc (ops : List StoreOp) (o : StoreOp) (a : String) :
    datesOfOps (ops ++ [o]) a = accountEventStep a (datesOfOps ops a) o := by
  simp [datesOfOps, List.foldl_append]

/-- accounts invariant relative to the prefix of operations already applied -/
structure AccountsInv (st : Store) (done : List StoreOp) : Prop where
  wf : Map.WF st.accounts
  dates : ∀ a, datesAt st.accounts a = datesOfOps done a

theorem AccountsInv_applyOp {st st' : Store} {done : List StoreOp} (inv : AccountsInv st done) (o : StoreOp)
    (ho : applyOp st o = .ok st') : AccountsInv st' (done ++ [o]) := by
  cases o with
  | commit t =>
    simp only [applyOp] at ho
    obtain ⟨hw, hd⟩ := applyTx_accounts inv.wf t ho
    refine ⟨hw, ?_⟩
    intro a
    rw [hd a, inv.dates a, datesOfOps_snoc]; rfl
  | lock keys =>
    simp only [applyOp] at ho; cases ho
    exact ⟨inv.wf, fun a => by rw [datesOfOps_snoc]; exact inv.dates a⟩
  | markReverted id a =>
    simp only [applyOp] at ho; cases ho
    exact ⟨inv.wf, fun b => by rw [datesOfOps_snoc]; exact inv.dates b⟩
  | saveAccountMeta a at_ md =>
    simp only [applyOp] at ho; cases ho
    obtain ⟨hw, hd⟩ := upsertAccount_none_spec inv.wf a at_ md
    refine ⟨hw, ?_⟩
    intro b
    rw [datesOfOps_snoc]
    simp only [accountEventStep]
    rw [hd b]
    by_cases hb : b = a
    · subst hb
      simp only [if_true, inv.dates b]
      cases datesOfOps done b <;> rfl
    · have : ¬ a = b := fun e => hb e.symm
      simp [hb, this, inv.dates b]

theorem AccountsInv_runOpsFrom (ops : List StoreOp) {st st' : Store} {done : List StoreOp} (inv : AccountsInv st done)
    (hr : runOpsFrom st ops = .ok st') : AccountsInv st' (done ++ ops) := by
  induction ops generalizing st done with
  | nil => simp only [runOpsFrom] at hr; cases hr; simpa using inv
  | cons o os ih =>
    simp only [runOpsFrom] at hr
    cases h1 : applyOp st o with
    | error e => rw [h1] at hr; simp at hr
    | ok s1 =>
      rw [h1] at hr
      have := ih (AccountsInv_applyOp inv o h1) hr
      simpa [List.append_assoc] using this

theorem AccountsInv_runOps {ops : List StoreOp} {st : Store} (h : runOps ops = .ok st) :
    AccountsInv st ops := by
  have := AccountsInv_runOpsFrom ops (done := []) ⟨Map.WF_nil, fun a => rfl⟩ h
  simpa using this

/-! ### consequences of the fold -/

theorem accountEventStep_untouched {a : String} {o : StoreOp} (h : o.touches a = false) (cur : Option (Int × Int)) :
    accountEventStep a cur o = cur := by
  cases o with
  | commit t =>
    simp only [StoreOp.touches] at h
    simp [accountEventStep, datesStep, h]
  | saveAccountMeta a' at_ md =>
    simp only [StoreOp.touches, beq_eq_false_iff_ne, ne_eq] at h
    simp [accountEventStep, h]
  | lock keys => rfl
  | markReverted id x => rfl

theorem accountEventStep_touched_isSome {a : String} {o : StoreOp} (h : o.touches a = true) (cur : Option (Int × Int)) :
    (accountEventStep a cur o).isSome = true := by
  cases o with
  | commit t =>
    simp only [StoreOp.touches] at h
    cases cur with
    | none => simp [accountEventStep, datesStep, h]
    | some p => obtain ⟨f, i⟩ := p; simp [accountEventStep, datesStep, h]
  | saveAccountMeta a' at_ md =>
    simp only [StoreOp.touches, beq_iff_eq] at h
    cases cur <;> simp [accountEventStep, h]
  | lock keys => simp [StoreOp.touches] at h
  | markReverted id x => simp [StoreOp.touches] at h

theorem foldl_accountEventStep_isSome (a : String) (ops : List StoreOp) (cur : Option (Int × Int)) (h : cur.isSome = true) :
    (ops.foldl (accountEventStep a) cur).isSome = true := by
  induction ops generalizing cur with
  | nil => exact h
  | cons o ops ih =>
    simp only [List.foldl_cons]
    apply ih
    by_cases ht : o.touches a = true
    · exact accountEventStep_touched_isSome ht cur
    · rw [accountEventStep_untouched (by simpa using ht)]; exact h

theorem foldl_accountEventStep_none_iff (a : String) (ops : List StoreOp) (cur : Option (Int × Int)) :
    ops.foldl (accountEventStep a) cur = none ↔ (cur = none ∧ ∀ o ∈ ops, o.touches a = false) := by
  induction ops generalizing cur with
  | nil => simp
  | cons o ops ih =>
    simp only [List.foldl_cons]
    rw [ih]
    by_cases ht : o.touches a = true
    · constructor
      · rintro ⟨hn, _⟩
        have := accountEventStep_touched_isSome ht cur
        rw [hn] at this; simp at this
      · rintro ⟨_, hall⟩
        have := hall o List.mem_cons_self
        rw [ht] at this; simp at this
    · have hf : o.touches a = false := by simpa using ht
      rw [accountEventStep_untouched hf]
      constructor
      · rintro ⟨hn, hall⟩
        refine ⟨hn, ?_⟩
        intro x hx
        rcases List.mem_cons.mp hx with rfl | hx
        · exact hf
        · exact hall x hx
      · rintro ⟨hn, hall⟩
        exact ⟨hn, fun x hx => hall x (List.mem_cons_of_mem _ hx)⟩

theorem datesOfOps_none_iff (ops : List StoreOp) (a : String) : datesOfOps ops a = none ↔ ∀ o ∈ ops, o.touches a = false := by
  unfold datesOfOps
  rw [foldl_accountEventStep_none_iff]
  simp

/-- one more operation on an existing account: first usage never goes up, insertion date never changes -/
theorem accountEventStep_mono (a : String) (fu ins : Int) (o : StoreOp) :
    ∃ fu', accountEventStep a (some (fu, ins)) o = some (fu', ins) ∧ fu' ≤ fu ∧
      (∀ t, o = .commit t → t.involves a = true → fu' ≤ t.timestamp) := by
  cases o with
  | commit t =>
    simp only [accountEventStep, datesStep]
    by_cases hi : t.involves a = true
    · rw [if_pos hi]
      by_cases hlt : t.timestamp < fu
      · refine ⟨t.timestamp, by simp [hlt], by omega, ?_⟩
        intro t' ht' _; cases ht'; omega
      · refine ⟨fu, by simp [hlt], by omega, ?_⟩
        intro t' ht' _; cases ht'; omega
    · rw [if_neg hi]
      refine ⟨fu, rfl, by omega, ?_⟩
      intro t' ht' hi'; cases ht'; exact absurd hi' hi
  | saveAccountMeta a' at_ md =>
    refine ⟨fu, ?_, by omega, fun t ht => by cases ht⟩
    simp only [accountEventStep]; split <;> rfl
  | lock keys => exact ⟨fu, rfl, by omega, fun t ht => by cases ht⟩
  | markReverted id x => exact ⟨fu, rfl, by omega, fun t ht => by cases ht⟩

/-- the fold's first usage is a lower bound of the timestamps of the involving commits (and of the start) -/
theorem foldl_accountEventStep_bound (a : String) (ops : List StoreOp) (cur : Option (Int × Int)) (fu ins : Int)
    (hr : ops.foldl (accountEventStep a) cur = some (fu, ins)) :
    (∀ t, StoreOp.commit t ∈ ops → t.involves a = true → fu ≤ t.timestamp) ∧ (∀ f0 i0, cur = some (f0, i0) → fu ≤ f0) := by
  induction ops generalizing cur with
  | nil =>
    simp only [List.foldl_nil] at hr
    refine ⟨fun t ht => by simp at ht, ?_⟩
    intro f0 i0 hc
    rw [hc] at hr
    simp only [Option.some.injEq, Prod.mk.injEq] at hr
    omega
  | cons o ops ih =>
    simp only [List.foldl_cons] at hr
    obtain ⟨h1, h2⟩ := ih _ hr
    cases cur with
    | some p =>
      obtain ⟨f0, i0⟩ := p
      obtain ⟨fu', hs, hle, hb⟩ := accountEventStep_mono a f0 i0 o
      have hfu := h2 _ _ hs
      refine ⟨?_, ?_⟩
      · intro t ht hti
        rcases List.mem_cons.mp ht with rfl | ht
        · have := hb t rfl hti; omega
        · exact h1 t ht hti
      · intro f1 i1 hc
        simp only [Option.some.injEq, Prod.mk.injEq] at hc
        omega
    | none =>
      refine ⟨?_, fun f0 i0 hc => by simp at hc⟩
      intro t ht hti
      rcases List.mem_cons.mp ht with rfl | ht
      · have hs : accountEventStep a none (.commit t) = some (t.timestamp, t.insertedAt) := by
          simp [accountEventStep, datesStep, hti]
        exact h2 _ _ hs
      · exact h1 t ht hti

/-- … and it is the timestamp of an involving commit, or the date of a metadata write that created the account -/
theorem foldl_accountEventStep_attained (a : String) (ops : List StoreOp) (cur : Option (Int × Int)) (fu ins : Int)
    (hr : ops.foldl (accountEventStep a) cur = some (fu, ins)) :
    (∃ t, StoreOp.commit t ∈ ops ∧ t.involves a = true ∧ t.timestamp = fu) ∨
    (∃ md, StoreOp.saveAccountMeta a fu md ∈ ops) ∨ (∃ i0, cur = some (fu, i0)) := by
  induction ops generalizing cur with
  | nil => simp only [List.foldl_nil] at hr; exact Or.inr (Or.inr ⟨ins, hr⟩)
  | cons o ops ih =>
    simp only [List.foldl_cons] at hr
    rcases ih _ hr with ⟨x, hx, hxi, hxt⟩ | ⟨md, hmd⟩ | ⟨i0, hc⟩
    · exact Or.inl ⟨x, List.mem_cons_of_mem _ hx, hxi, hxt⟩
    · exact Or.inr (Or.inl ⟨md, List.mem_cons_of_mem _ hmd⟩)
    · cases o with
      | commit t =>
        simp only [accountEventStep] at hc
        by_cases hi : t.involves a = true
        · cases cur with
          | none =>
            simp [datesStep, hi] at hc
            exact Or.inl ⟨t, List.mem_cons_self, hi, hc.1⟩
          | some p =>
            obtain ⟨f0, j0⟩ := p
            simp only [datesStep, hi, if_true, Option.some.injEq, Prod.mk.injEq] at hc
            by_cases hlt : t.timestamp < f0
            · simp only [hlt, if_true] at hc
              exact Or.inl ⟨t, List.mem_cons_self, hi, hc.1⟩
            · simp only [hlt, if_false] at hc
              exact Or.inr (Or.inr ⟨j0, by rw [← hc.1]⟩)
        · have hs : datesStep a cur t = cur := by simp [datesStep, hi]
          rw [hs] at hc
          exact Or.inr (Or.inr ⟨i0, hc⟩)
      | saveAccountMeta a' at_ md =>
        simp only [accountEventStep] at hc
        by_cases ha : a' = a
        · subst ha
          cases cur with
          | none =>
            simp at hc
            exact Or.inr (Or.inl ⟨md, by rw [← hc.1]; exact List.mem_cons_self⟩)
          | some p => simp at hc; exact Or.inr (Or.inr ⟨i0, by rw [hc]⟩)
        · simp only [if_neg ha] at hc
          exact Or.inr (Or.inr ⟨i0, hc⟩)
      | lock keys => exact Or.inr (Or.inr ⟨i0, hc⟩)
      | markReverted id x => exact Or.inr (Or.inr ⟨i0, hc⟩)

end Ledger.Spec
