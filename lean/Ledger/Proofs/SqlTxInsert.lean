import Ledger.Proofs.SqlRevert
import Ledger.Proofs.SqlMovesStmt

/-!
# `InsertTransaction` on any `transactions` table (no AFTER INSERT row trigger: TRANSACTION_METADATA_HISTORY off)
-/
open Ledger Ledger.Sql Ledger.Generated Ledger.Core
namespace Ledger.Sql

def tyJsonb : SqlType := SqlType.mk "" "jsonb" "" false
def tyVarchar : SqlType := SqlType.mk "" "varchar" "" false
def tyText : SqlType := SqlType.mk "" "text" "" false

/-- the rendered literals of one `InsertTransaction` -/
structure TxLits where
  postings : String
  metadata : String
  timestamp : String
  reference : String
  inserted_at : String
  updated_at : String
  post_commit_volumes : String
  template : String
  sources : String
  destinations : String
  sources_arrays : String
  destinations_arrays : String

/-- the literals denote the typed row `x` (everything but the id, which comes from the sequence) -/
structure TxLit (te : TypeEnv) (ledger : String) (L : TxLits) (x : TxR) : Prop where
  ledger : x.ledger = ledger
  postings : x.postings = L.postings
  reference : x.reference = some L.reference
  template : x.template = some L.template
  revertedAt : x.revertedAt = none
  metadata : castTo te tyJsonb (.text L.metadata) = .ok (.json x.metadata)
  sources : castTo te tyJsonb (.text L.sources) = .ok (.json x.sources)
  destinations : castTo te tyJsonb (.text L.destinations) = .ok (.json x.destinations)
  sourcesArrays : castTo te tyJsonb (.text L.sources_arrays) = .ok (.json x.sourcesArrays)
  destinationsArrays : castTo te tyJsonb (.text L.destinations_arrays) = .ok (.json x.destinationsArrays)
  pcv : ∃ j, x.pcv = some j ∧ castTo te tyJsonb (.text L.post_commit_volumes) = .ok (.json j)
  timestamp : castTo te tyTimestamp (.text L.timestamp) = .ok (.ts x.timestamp)
  insertedAt : ∃ t, x.insertedAt = some t ∧ castTo te tyTimestamp (.text L.inserted_at) = .ok (.ts t)
  updatedAt : castTo te tyTimestamp (.text L.updated_at) = .ok (.ts x.updatedAt)

def txInsertCols : List String :=
  ["postings", "metadata", "timestamp", "reference", "id", "inserted_at", "updated_at", "reverted_at", "post_commit_volumes", "template",
   "sources", "destinations", "sources_arrays", "destinations_arrays", "ledger"]

def txReturning : List SelItem :=
  [SelItem.expr (Expr.col "" "id") "", SelItem.expr (Expr.col "" "timestamp") "", SelItem.expr (Expr.col "" "inserted_at") "",
   SelItem.expr (Expr.col "" "updated_at") ""]

/-- the statement of `InsertTransaction` -/
def insertTxStmt (b ledger : String) (id : Nat) (L : TxLits) : Stmt :=
  Stmt.insert [] b "transactions" "" txInsertCols (InsertSrc.values [[(Expr.str L.postings), (Expr.str L.metadata), (Expr.str L.timestamp),
    (Expr.str L.reference), (Expr.call "" "nextval" [(Expr.str ("\"" ++ b ++ "\".\"transaction_id_" ++ toString id ++ "\""))]),
    (Expr.str L.inserted_at), (Expr.str L.updated_at), Expr.dflt, (Expr.str L.post_commit_volumes), (Expr.str L.template), (Expr.str L.sources),
    (Expr.str L.destinations), (Expr.str L.sources_arrays), (Expr.str L.destinations_arrays), (Expr.str ledger)]]) none txReturning

theorem insertTransaction_shape (b ledger : String) (id : Nat) (L : TxLits) :
    WriteSql.P.insertTransaction b ledger id L.postings L.metadata L.timestamp L.reference L.inserted_at L.updated_at L.post_commit_volumes
      L.template L.sources L.destinations L.sources_arrays L.destinations_arrays = [insertTxStmt b ledger id L] := rfl

/-- the evaluated VALUES row (the id taken from the sequence) -/
def txSrcRow (ledger : String) (L : TxLits) (v : Int) : List (Option Value) :=
  [some (.text L.postings), some (.text L.metadata), some (.text L.timestamp), some (.text L.reference), some (.int v),
   some (.text L.inserted_at), some (.text L.updated_at), none, some (.text L.post_commit_volumes), some (.text L.template),
   some (.text L.sources), some (.text L.destinations), some (.text L.sources_arrays), some (.text L.destinations_arrays), some (.text ledger)]

end Ledger.Sql

namespace Ledger.Sql

def txSeqLit (b : String) (id : Nat) : String := "\"" ++ b ++ "\".\"transaction_id_" ++ toString id ++ "\""

/-- the name the sequence literal of the statement denotes -/
structure SeqLit (lit full : String) : Prop where
  unq : unquoteQualified lit = full
  dotted : (firstDotted full).isEmpty = false

theorem exec_nextval (n : Nat) (te : TypeEnv) (env : Env) (lit full : String) (hl : SeqLit lit full) (s : St) (sq : Seq)
    (hsq : s.w.seqs.find? (·.name == full) = some sq) :
    (evalExpr (cbs (n + 2)) te env (Expr.call "" "nextval" [Expr.str lit])).exec s =
      (.ok (.int sq.next), s.withSeqs (seqsSet full sq.next s.w.seqs)) := by
  have hpure : evalPureFn "nextval" [Value.text lit] = none := rfl
  have hcall : (cbs (n + 2)).call "" "nextval" [Value.text lit] = callFunc (n + 1) "" "nextval" [Value.text lit] := rfl
  have hb : callBuiltin "nextval" [Value.text lit] = some (do return .int (← seqNext (← seqName (Value.text lit).toText))) := rfl
  have hsn : (seqName (Value.text lit).toText).exec s = (.ok full, s) := by
    have e1 : unquoteQualified (Value.text lit).toText = full := hl.unq
    simp [seqName, e1, hl.dotted]
  rw [evalExpr_call _ _ _ _ _ _ (by decide)]
  simp only [evalExpr, evalExprs, exec_bind, exec_pure, hpure, hcall,
    show (("" : String).isEmpty || "" == "public" || "" == "pg_catalog") = true from by decide, if_true]
  rw [callFunc]
  simp only [show (("" : String).isEmpty || "" == "public" || "" == "pg_catalog") = true from by decide, if_true, hb, exec_bind, hsn,
    exec_seqNext full s sq hsq, exec_pure]

theorem exec_evalExpr_str (cb : Callbacks) (te : TypeEnv) (env : Env) (x : String) (s : St) :
    (evalExpr cb te env (Expr.str x)).exec s = (.ok (.text x), s) := by
  simp [evalExpr]

theorem exec_evalValuesRow_tx (n : Nat) (env : Env) (b ledger : String) (id : Nat) (L : TxLits) (full : String)
    (hl : SeqLit (txSeqLit b id) full) (s : St) (sq : Seq) (hsq : s.w.seqs.find? (·.name == full) = some sq) :
    (evalValuesRow (n + 3) env [(Expr.str L.postings), (Expr.str L.metadata), (Expr.str L.timestamp),
      (Expr.str L.reference), (Expr.call "" "nextval" [(Expr.str ("\"" ++ b ++ "\".\"transaction_id_" ++ toString id ++ "\""))]),
      (Expr.str L.inserted_at), (Expr.str L.updated_at), Expr.dflt, (Expr.str L.post_commit_volumes), (Expr.str L.template), (Expr.str L.sources),
      (Expr.str L.destinations), (Expr.str L.sources_arrays), (Expr.str L.destinations_arrays), (Expr.str ledger)]).exec s =
      (.ok (txSrcRow ledger L sq.next), s.withSeqs (seqsSet full sq.next s.w.seqs)) := by
  rw [evalValuesRow]
  have hnv := exec_nextval n s.w.types env (txSeqLit b id) full hl s sq hsq
  simp only [txSeqLit] at hnv
  simp only [exec_bind, exec_typeEnv, exec_mapM_cons, exec_evalExpr_str, exec_pure, hnv, List.mapM_nil, withSeqs_types]
  rfl

end Ledger.Sql

namespace Ledger.Sql

theorem castTo_text_text (te : TypeEnv) (x : String) : castTo te (SqlType.mk "" "text" "" false) (.text x) = .ok (.text x) := by
  simp [castTo, castNonArray, castScalar, isIntType, Value.toText, pure, Except.pure]

theorem exec_buildRow_tx (n : Nat) (b ledger : String) (trigs : List TriggerDef) (nr : Nat) (rows : List Ver) (L : TxLits) (x : TxR) (s : St)
    (hlit : TxLit s.w.types ledger L x) :
    (buildRow (n + 1) ((txT b trigs nr).withRows rows) txInsertCols (txSrcRow ledger L x.id)).exec s = (.ok (txVals x), s) := by
  rw [buildRow]
  have hcols : ((txT b trigs nr).withRows rows).cols = Schema.tbl_transactions.cols := rfl
  have hnames : ((txT b trigs nr).withRows rows).colNames = txCols := rfl
  have hfind : txInsertCols.find? (fun c => !(txCols.contains c)) = none := by decide
  have hlen : (txInsertCols.length != (txSrcRow ledger L x.id).length) = false := rfl
  simp only [exec_bind, exec_typeEnv, hlen, Bool.false_eq_true, if_false, hnames, hfind, hcols, Schema.tbl_transactions]
  have g0 : (txInsertCols.zip (txSrcRow ledger L x.id)).lookup "ledger" = some (some (.text ledger)) := rfl
  have g1 : (txInsertCols.zip (txSrcRow ledger L x.id)).lookup "id" = some (some (.int x.id)) := rfl
  have g2 : (txInsertCols.zip (txSrcRow ledger L x.id)).lookup "timestamp" = some (some (.text L.timestamp)) := rfl
  have g3 : (txInsertCols.zip (txSrcRow ledger L x.id)).lookup "reference" = some (some (.text L.reference)) := rfl
  have g4 : (txInsertCols.zip (txSrcRow ledger L x.id)).lookup "reverted_at" = some none := rfl
  have g5 : (txInsertCols.zip (txSrcRow ledger L x.id)).lookup "updated_at" = some (some (.text L.updated_at)) := rfl
  have g6 : (txInsertCols.zip (txSrcRow ledger L x.id)).lookup "postings" = some (some (.text L.postings)) := rfl
  have g7 : (txInsertCols.zip (txSrcRow ledger L x.id)).lookup "sources" = some (some (.text L.sources)) := rfl
  have g8 : (txInsertCols.zip (txSrcRow ledger L x.id)).lookup "destinations" = some (some (.text L.destinations)) := rfl
  have g9 : (txInsertCols.zip (txSrcRow ledger L x.id)).lookup "sources_arrays" = some (some (.text L.sources_arrays)) := rfl
  have g10 : (txInsertCols.zip (txSrcRow ledger L x.id)).lookup "destinations_arrays" = some (some (.text L.destinations_arrays)) := rfl
  have g11 : (txInsertCols.zip (txSrcRow ledger L x.id)).lookup "metadata" = some (some (.text L.metadata)) := rfl
  have g12 : (txInsertCols.zip (txSrcRow ledger L x.id)).lookup "post_commit_volumes" = some (some (.text L.post_commit_volumes)) := rfl
  have g13 : (txInsertCols.zip (txSrcRow ledger L x.id)).lookup "inserted_at" = some (some (.text L.inserted_at)) := rfl
  have g14 : (txInsertCols.zip (txSrcRow ledger L x.id)).lookup "template" = some (some (.text L.template)) := rfl
  obtain ⟨pj, hpj, hpc⟩ := hlit.pcv
  obtain ⟨it, hit, hic⟩ := hlit.insertedAt
  simp only [exec_mapM_cons, g0, g1, g2, g3, g4, g5, g6, g7, g8, g9, g10, g11, g12, g13, g14, exec_bind, exec_pure, List.mapM_nil,
    castTo_varchar_text, castTo_numeric_int, castTo_text_text, exec_liftR_ok,
    show castTo s.w.types (SqlType.mk "" "timestamp" "" false) (Value.text L.timestamp) = .ok (.ts x.timestamp) from hlit.timestamp,
    show castTo s.w.types (SqlType.mk "" "timestamp" "" false) (Value.text L.updated_at) = .ok (.ts x.updatedAt) from hlit.updatedAt,
    show castTo s.w.types (SqlType.mk "" "timestamp" "" false) (Value.text L.inserted_at) = .ok (.ts it) from hic,
    show castTo s.w.types (SqlType.mk "" "jsonb" "" false) (Value.text L.sources) = .ok (.json x.sources) from hlit.sources,
    show castTo s.w.types (SqlType.mk "" "jsonb" "" false) (Value.text L.destinations) = .ok (.json x.destinations) from hlit.destinations,
    show castTo s.w.types (SqlType.mk "" "jsonb" "" false) (Value.text L.sources_arrays) = .ok (.json x.sourcesArrays) from hlit.sourcesArrays,
    show castTo s.w.types (SqlType.mk "" "jsonb" "" false) (Value.text L.destinations_arrays) = .ok (.json x.destinationsArrays) from hlit.destinationsArrays,
    show castTo s.w.types (SqlType.mk "" "jsonb" "" false) (Value.text L.metadata) = .ok (.json x.metadata) from hlit.metadata,
    show castTo s.w.types (SqlType.mk "" "jsonb" "" false) (Value.text L.post_commit_volumes) = .ok (.json pj) from hpc]
  simp only [txVals, hlit.ledger, hlit.postings, hlit.reference, hlit.template, hlit.revertedAt, hpj, hit, optText, optTs, optJson]

end Ledger.Sql

namespace Ledger.Sql

/-- BEFORE INSERT ROW triggers none of which applies to the row -/
theorem exec_fireBefore_noneApply (n : Nat) (t : Table) (nv : List Value) (s : St)
    (h : ∀ tr ∈ sortTriggers (t.triggers.filter (fun x => x.timing == .before && x.event == .insert)), ∀ s',
      (triggerApplies n t tr [] (some nv) none).exec s' = (.ok false, s')) :
    (fireBefore (n + 1) t .insert [] (some nv) none).exec s = (.ok (some nv), s) := by
  rw [fireBefore_eq]
  have : ∀ (L : List TriggerDef), (∀ tr ∈ L, ∀ s', (triggerApplies n t tr [] (some nv) none).exec s' = (.ok false, s')) →
      (L.foldlM (beforeStep n t .insert [] none) (some nv, false)).exec s = (.ok (some nv, false), s) := by
    intro L
    induction L with
    | nil => intro _; simp
    | cons x xs ih =>
      intro hL
      simp only [exec_foldlM_cons, beforeStep, Bool.false_eq_true, if_false, Option.isNone_some, Bool.false_and, exec_bind, hL x (by simp),
        Bool.not_false, if_true, exec_pure]
      exact ih (fun y hy => hL y (by simp [hy]))
  simp only [exec_bind, this _ h, Bool.false_eq_true, if_false, exec_pure]

/-- the WHEN clause of `set_transaction_updated_at` -/
def updatedAtIsNull : Expr := Expr.isNull (Expr.col "new" "updated_at") false

theorem exec_triggerApplies_updNull (n : Nat) (t : Table) (tr : TriggerDef) (nv : List Value) (s : St) (u : Int)
    (hev : tr.event = .insert) (hw : tr.when_ = some updatedAtIsNull) (hl : lookupIn t.colNames nv "updated_at" = some (.ts u)) :
    (triggerApplies (n + 1) t tr [] (some nv) none).exec s = (.ok false, s) := by
  rw [triggerApplies]
  have hlk : lookupColumn { outer := [({ alias := "new", cols := t.colNames, vals := nv } : Scope)] } "new" "updated_at" = .ok (.ts u) := by
    simp [lookupColumn, Env.scopes, findScope, lastComponent_new, hl]
    rfl
  have hev' : (tr.event == TrigEvent.update) = false := by rw [hev]; rfl
  have hin : (evalExpr (cbs n) s.w.types { outer := [({ alias := "new", cols := t.colNames, vals := nv } : Scope)] } updatedAtIsNull).exec
      (s.withSP (schemaOf t.name)) = (.ok (.bool false), s.withSP (schemaOf t.name)) := by
    simp only [updatedAtIsNull, evalExpr, exec_bind, hlk, exec_liftR_ok, exec_pure]
    rfl
  have := exec_withSearchPath (schemaOf t.name) _ s _ _ hin
  rw [withSP_withSP_self] at this
  simp only [hev', Bool.false_and, Bool.false_eq_true, if_false, hw, exec_bind, exec_typeEnv, List.append_nil, this, truth_bool,
    exec_liftR_ok, exec_pure]
  rfl

end Ledger.Sql

namespace Ledger.Sql

/-- the hypotheses on the state in which `InsertTransaction` runs -/
structure TxInsState (s : St) (b ledger : String) (trigs : List TriggerDef) (nr : Nat) (rows : List Ver) (full : String) (sq : Seq) : Prop where
  tx : TxState s
  q0 : s.afterQ = []
  bne : b.isEmpty = false
  table : s.w.table? (txFull b) = some ((txT b trigs nr).withRows rows)
  inv : TxInv (latestView s.w s.xid) rows
  /-- the only BEFORE INSERT row triggers are `set_transaction_updated_at`-like (fire when `updated_at` is NULL) -/
  beforeTrigs : ∀ tr ∈ trigs, tr.timing = .before → tr.event = .insert → tr.when_ = some updatedAtIsNull
  /-- no AFTER INSERT row trigger: TRANSACTION_METADATA_HISTORY is off -/
  noAfter : trigs.filter (fun tr => tr.timing == .after && tr.event == .insert) = []
  seq : s.w.seqs.find? (·.name == full) = some sq
  /-- ids of the ledger's visible transactions are below the sequence -/
  idBound : ∀ r ∈ rows, r.visible (latestView s.w s.xid) = true → ∀ x', r.vals = txVals x' → x'.ledger = ledger → x'.id < sq.next

theorem mem_sortTriggers {ts : List TriggerDef} {x : TriggerDef} (h : x ∈ sortTriggers ts) : x ∈ ts := by
  have hins : ∀ (tr : TriggerDef) (l : List TriggerDef) (y : TriggerDef), y ∈ insertTrigger tr l → y = tr ∨ y ∈ l := by
    intro tr l
    induction l with
    | nil => intro y hy; simp [insertTrigger] at hy; exact Or.inl hy
    | cons a as ih =>
      intro y hy
      simp only [insertTrigger] at hy
      split at hy
      · simp only [List.mem_cons] at hy ⊢
        rcases hy with h | h | h
        · exact Or.inl h
        · exact Or.inr (Or.inl h)
        · exact Or.inr (Or.inr h)
      · simp only [List.mem_cons] at hy ⊢
        rcases hy with h | h
        · exact Or.inr (Or.inl h)
        · rcases ih y h with h | h
          · exact Or.inl h
          · exact Or.inr (Or.inr h)
  have : ∀ (l acc : List TriggerDef) (y : TriggerDef), y ∈ l.foldl (fun acc tr => insertTrigger tr acc) acc → y ∈ l ∨ y ∈ acc := by
    intro l
    induction l with
    | nil => intro acc y hy; exact Or.inr hy
    | cons a as ih =>
      intro acc y hy
      rcases ih _ y hy with h | h
      · exact Or.inl (List.mem_cons_of_mem _ h)
      · rcases hins a acc y h with h | h
        · exact Or.inl (by rw [h]; simp)
        · exact Or.inr h
  rcases this ts [] x h with h | h
  · exact h
  · cases h

end Ledger.Sql

namespace Ledger.Sql

theorem exec_accReturning_txIns (k : Nat) (env : Env) (b : String) (trigs : List TriggerDef) (nr : Nat) (rows : List Ver) (x : TxR)
    (acc : DmlAcc) (s : St) :
    (accReturning (k + 2) env ((txT b trigs nr).withRows rows) "" (txVals x) [] txReturning acc).exec s =
      (.ok { retCols := ["id", "timestamp", "inserted_at", "updated_at"],
             retRows := acc.retRows ++ [[.int x.id, .ts x.timestamp, optTs x.insertedAt, .ts x.updatedAt]], affected := acc.affected + 1 }, s) := by
  have hsc : ∀ c v, lookupIn txCols (txVals x) c = some v →
      lookupColumn { env with locals := [({ alias := baseName ((txT b trigs nr).withRows rows).name, cols := txCols, vals := txVals x } : Scope)] } "" c = .ok v :=
    fun c v h => lookup_local_unq _ { alias := baseName ((txT b trigs nr).withRows rows).name, cols := txCols, vals := txVals x } rfl c v h
  have h1 := hsc "id" (.int x.id) rfl
  have h2 := hsc "timestamp" (.ts x.timestamp) rfl
  have h3 := hsc "inserted_at" (optTs x.insertedAt) rfl
  have h4 := hsc "updated_at" (.ts x.updatedAt) rfl
  rw [accReturning]
  simp only [txReturning, List.isEmpty_cons, Bool.false_eq_true, if_false, exec_bind]
  rw [evalReturning]
  simp only [exec_bind, exec_typeEnv, show ("" : String).isEmpty = true from by decide, if_true, exec_foldlM_cons, List.foldlM_nil,
    evalExpr, txT_colNames, withRows_colNames, h1, h2, h3, h4, exec_liftR_ok, exec_pure, exprOutName, List.nil_append, List.cons_append,
    List.append_nil]

end Ledger.Sql

namespace Ledger.Sql

/-- **`InsertTransaction`** on ANY `transactions` table satisfying the storage invariant: one row is added, whose id is the next value of
    the ledger's sequence and whose other columns are the values the literals denote; RETURNING reports id and the three dates. -/
theorem exec_runStmt_insertTx (p : Nat) (env : Env) (b ledger : String) (id : Nat) (L : TxLits) (trigs : List TriggerDef) (nr : Nat)
    (rows : List Ver) (full : String) (sq : Seq) (s : St) (hst : TxInsState s b ledger trigs nr rows full sq)
    (hl : SeqLit (txSeqLit b id) full) (x : TxR) (hlit : TxLit s.w.types ledger L x) (hid : x.id = sq.next)
    (href : ∀ r ∈ rows, r.visible (latestView s.w s.xid) = true → ∀ x', r.vals = txVals x' → txConf2 x x' = false) :
    (runStmt (p + 6) env (insertTxStmt b ledger id L)).exec s =
      (.ok { rel := { cols := ["id", "timestamp", "inserted_at", "updated_at"],
                      rows := [[.int x.id, .ts x.timestamp, optTs x.insertedAt, .ts x.updatedAt]] }, affected := 1 },
       (s.withSeqs (seqsSet full sq.next s.w.seqs)).withTable ((txT b trigs (nr + 1)).withRows (newVer s.xid s.cid nr (txVals x) :: rows))) := by
  rw [← hid]
  have hcl : ({ s with afterQ := [] } : St) = s := clearQ_of_empty s hst.q0
  have hq : (qualify b "transactions").exec s = (.ok (txFull b), s) := by simp [qualify, hst.bne, txFull]
  have hvals := exec_evalValuesRow_tx p env b ledger id L full hl s sq hst.seq
  rw [← hid] at hvals
  -- state after the VALUES row
  have hT1 : (s.withSeqs (seqsSet full x.id s.w.seqs)).w.table? (txFull b) = some ((txT b trigs nr).withRows rows) := hst.table
  have hbuild := exec_buildRow_tx (p + 1) b ledger trigs nr rows L x (s.withSeqs (seqsSet full x.id s.w.seqs)) (by simpa using hlit)
  have hfire : (fireBefore (p + 2) ((txT b trigs nr).withRows rows) .insert [] (some (txVals x)) none).exec
      (s.withSeqs (seqsSet full x.id s.w.seqs)) = (.ok (some (txVals x)), s.withSeqs (seqsSet full x.id s.w.seqs)) := by
    apply exec_fireBefore_noneApply
    intro tr htr s'
    have hmem := List.mem_filter.mp (mem_sortTriggers htr)
    have hte : tr.timing = .before ∧ tr.event = .insert := by
      have := hmem.2
      simp only [Bool.and_eq_true, beq_iff_eq] at this
      exact this
    exact exec_triggerApplies_updNull p _ tr (txVals x) s' x.updatedAt hte.2 (hst.beforeTrigs tr hmem.1 hte.1 hte.2) rfl
  have hconf := exec_findConflict_tx_none b trigs nr rows x none (s.withSeqs (seqsSet full x.id s.w.seqs)) hst.tx.solo hst.inv.typed
    (by
      intro r hr hv _ x' hx'
      refine ⟨?_, href r hr hv x' hx'⟩
      simp only [txConf1, Bool.and_eq_false_iff]
      by_cases hle : x'.ledger = x.ledger
      · right
        have := hst.idBound r hr hv x' hx' (by rw [hle, hlit.ledger])
        rw [← hid] at this
        have : x'.id ≠ x.id := by omega
        simpa using this
      · left; simpa using hle)
  have hins : (insertVersion (txFull b) (txVals x)).exec (s.withSeqs (seqsSet full x.id s.w.seqs)) =
      (.ok nr, (s.withSeqs (seqsSet full x.id s.w.seqs)).withTable ((txT b trigs (nr + 1)).withRows (newVer s.xid s.cid nr (txVals x) :: rows))) :=
    exec_insertVersion hT1 (txVals x)
  have hT2 : ((s.withSeqs (seqsSet full x.id s.w.seqs)).withTable ((txT b trigs (nr + 1)).withRows (newVer s.xid s.cid nr (txVals x) :: rows))).w.table?
      (txFull b) = some ((txT b trigs (nr + 1)).withRows (newVer s.xid s.cid nr (txVals x) :: rows)) :=
    withTable_table? _ ((txT b trigs nr).withRows rows) _ hT1
  have hqa := exec_queueAfter_none (p + 1) ((txT b trigs (nr + 1)).withRows (newVer s.xid s.cid nr (txVals x) :: rows)) .insert []
    (some (txVals x)) none ((s.withSeqs (seqsSet full x.id s.w.seqs)).withTable ((txT b trigs (nr + 1)).withRows (newVer s.xid s.cid nr (txVals x) :: rows)))
    (by simpa [txT, Table.withRows] using hst.noAfter)
  rw [runStmt]
  simp only [exec_bind, exec_get, exec_modify, exec_pure, hcl]
  rw [insertTxStmt, execStmt, evalCtes]
  · simp only [exec_bind, exec_pure]
    rw [execInsert]
    simp only [hst.bne, Bool.false_eq_true, if_false, exec_bind, hq, exec_getTable hst.table, exec_mapM_cons, List.mapM_nil, hvals,
      exec_pure, show txInsertCols.isEmpty = false from rfl, exec_foldlM_cons, List.foldlM_nil]
    rw [insertRowStep]
    have hfk : ∀ s', (checkForeignKeys ((txT b trigs nr).withRows rows) (txVals x)).exec s' = (.ok (), s') := by
      intro s'; simp [checkForeignKeys, txT, Table.withRows, Schema.tbl_transactions, checkForeignKeysOf]
    simp only [exec_bind, exec_getTable hT1, hbuild, hfire, exec_checkConstraints_tx, exec_pure, txT_uniques, hconf, hfk, hins,
      exec_getTable hT2, hqa, exec_accReturning_txIns]
    simp only [List.isEmpty_cons, Bool.false_and, Bool.false_eq_true, if_false, exec_pure, List.nil_append, Nat.zero_add]
    have hX : ((s.withSeqs (seqsSet full x.id s.w.seqs)).withTable ((txT b trigs (nr + 1)).withRows (newVer s.xid s.cid nr (txVals x) :: rows))).afterQ = [] :=
      hst.q0
    rw [drainAfter]
    simp only [exec_bind, exec_get, hX, List.isEmpty_nil, if_true, exec_pure]
    have hfin : ∀ X : St, X.afterQ = [] → ({ X with afterQ := s.afterQ } : St) = X := by
      intro X h; rw [hst.q0]; exact clearQ_of_empty X h
    rw [hfin _ hX]
  · intro h; omega

end Ledger.Sql
