import Ledger.Base.Map

/-! Lemmas about the sorted association-list maps of `Ledger/Base/Map.lean`. -/
set_option linter.unusedSectionVars false
namespace Ledger.Base
open KeyOrd

/-! ### key orders -/

instance : LawfulKeyOrd String where
  irrefl a := by simp [KeyOrd.lt, String.lt_irrefl]
  trans := by
    intro a b c h1 h2
    simp only [KeyOrd.lt, decide_eq_true_eq] at *
    exact String.lt_trans h1 h2
  tri := by
    intro a b h1 h2
    simp only [KeyOrd.lt, decide_eq_false_iff_not] at *
    exact String.le_antisymm (String.not_lt.mp h2) (String.not_lt.mp h1)

instance : LawfulKeyOrd Nat where
  irrefl a := by simp [KeyOrd.lt]
  trans := by
    intro a b c h1 h2
    simp only [KeyOrd.lt, decide_eq_true_eq] at *
    omega
  tri := by
    intro a b h1 h2
    simp only [KeyOrd.lt, decide_eq_false_iff_not] at *
    omega

instance {α β : Type} [KeyOrd α] [KeyOrd β] [DecidableEq α] [LawfulKeyOrd α] [LawfulKeyOrd β] :
    LawfulKeyOrd (α × β) where
  irrefl a := by simp [KeyOrd.lt, LawfulKeyOrd.irrefl]
  trans := by
    intro a b c h1 h2
    simp only [KeyOrd.lt, Bool.or_eq_true, Bool.and_eq_true, decide_eq_true_eq] at *
    rcases h1 with h1 | ⟨e1, h1⟩ <;> rcases h2 with h2 | ⟨e2, h2⟩
    · exact Or.inl (LawfulKeyOrd.trans h1 h2)
    · exact Or.inl (e2 ▸ h1)
    · exact Or.inl (e1 ▸ h2)
    · exact Or.inr ⟨e1.trans e2, LawfulKeyOrd.trans h1 h2⟩
  tri := by
    intro a b h1 h2
    simp only [KeyOrd.lt, Bool.or_eq_false_iff, Bool.and_eq_false_iff, decide_eq_false_iff_not] at *
    obtain ⟨h1a, h1b⟩ := h1
    obtain ⟨h2a, h2b⟩ := h2
    have e1 : a.1 = b.1 := LawfulKeyOrd.tri h1a h2a
    have e2 : a.2 = b.2 := by
      rcases h1b with h | h
      · exact absurd e1 h
      · rcases h2b with h' | h'
        · exact absurd e1.symm h'
        · exact LawfulKeyOrd.tri h h'
    exact Prod.ext e1 e2

theorem lt_asymm' {κ : Type} [KeyOrd κ] [LawfulKeyOrd κ] {a b : κ} (h : lt a b = true) : lt b a = false := by
  cases hba : lt b a with
  | false => rfl
  | true =>
    have := LawfulKeyOrd.trans h hba
    rw [LawfulKeyOrd.irrefl] at this
    exact absurd this (by simp)

theorem lt_ne {κ : Type} [KeyOrd κ] [LawfulKeyOrd κ] {a b : κ} (h : lt a b = true) : a ≠ b := by
  rintro rfl
  rw [LawfulKeyOrd.irrefl] at h
  exact absurd h (by simp)

namespace Map
variable {κ ν : Type} [DecidableEq κ]

/-! ### `get?`, `contains`, `adjust` (no order needed) -/

@[simp] theorem get?_nil (k : κ) : get? ([] : Map κ ν) k = none := rfl

theorem get?_cons (k' : κ) (v : ν) (r : Map κ ν) (k : κ) :
    get? ((k', v) :: r) k = if k' = k then some v else get? r k := rfl

theorem get?_eq_none_of_not_mem_keys {m : Map κ ν} {k : κ} (h : k ∉ m.keys) : get? m k = none := by
  induction m with
  | nil => rfl
  | cons e r ih =>
    obtain ⟨k', v⟩ := e
    simp only [keys, List.map_cons, List.mem_cons, not_or] at h
    rw [get?_cons, if_neg (Ne.symm h.1)]
    exact ih h.2

theorem mem_keys_of_get? {m : Map κ ν} {k : κ} {v : ν} (h : get? m k = some v) : k ∈ m.keys := by
  induction m with
  | nil => simp at h
  | cons e r ih =>
    obtain ⟨k', v'⟩ := e
    rw [get?_cons] at h
    simp only [keys, List.map_cons, List.mem_cons]
    by_cases hk : k' = k
    · exact Or.inl hk.symm
    · rw [if_neg hk] at h; exact Or.inr (ih h)

theorem get?_isSome_iff_mem_keys {m : Map κ ν} {k : κ} : (get? m k).isSome = true ↔ k ∈ m.keys := by
  constructor
  · intro h
    obtain ⟨v, hv⟩ := Option.isSome_iff_exists.mp h
    exact mem_keys_of_get? hv
  · intro h
    cases hg : get? m k with
    | some v => rfl
    | none =>
      exfalso
      induction m with
      | nil => simp [keys] at h
      | cons e r ih =>
        obtain ⟨k', v'⟩ := e
        rw [get?_cons] at hg
        simp only [keys, List.map_cons, List.mem_cons] at h
        by_cases hk : k' = k
        · rw [if_pos hk] at hg; simp at hg
        · rw [if_neg hk] at hg
          rcases h with h | h
          · exact hk h.symm
          · exact ih h hg

theorem contains_iff_mem_keys {m : Map κ ν} {k : κ} : m.contains k = true ↔ k ∈ m.keys :=
  get?_isSome_iff_mem_keys

theorem get?_adjust (k : κ) (f : ν → ν) (m : Map κ ν) (k' : κ) :
    get? (adjust k f m) k' = if k' = k then (get? m k').map f else get? m k' := by
  induction m with
  | nil => simp [adjust]
  | cons e r ih =>
    obtain ⟨k0, v0⟩ := e
    simp only [adjust]
    by_cases h0 : k0 = k
    · subst h0
      simp only [if_true, get?_cons]
      by_cases h1 : k0 = k'
      · subst h1; simp
      · have : ¬ k' = k0 := fun h => h1 h.symm
        simp [h1, this]
    · simp only [if_neg h0, get?_cons, ih]
      by_cases h1 : k0 = k'
      · subst h1; simp [h0]
      · simp [h1]

@[simp] theorem keys_adjust (k : κ) (f : ν → ν) (m : Map κ ν) : (adjust k f m).keys = m.keys := by
  induction m with
  | nil => rfl
  | cons e r ih =>
    obtain ⟨k0, v0⟩ := e
    simp only [adjust]
    by_cases h0 : k0 = k
    · simp [h0, keys]
    · simp only [if_neg h0, keys, List.map_cons] at *
      rw [ih]

@[simp] theorem contains_adjust (k : κ) (f : ν → ν) (m : Map κ ν) (k' : κ) :
    (adjust k f m).contains k' = m.contains k' := by
  rw [Bool.eq_iff_iff, contains_iff_mem_keys, contains_iff_mem_keys, keys_adjust]

/-- Two adjustments of the same key compose. -/
theorem adjust_adjust_same (k : κ) (f g : ν → ν) (m : Map κ ν) :
    adjust k f (adjust k g m) = adjust k (f ∘ g) m := by
  induction m with
  | nil => rfl
  | cons e r ih =>
    obtain ⟨k0, v0⟩ := e
    by_cases h0 : k0 = k
    · simp [adjust, h0]
    · simp [adjust, h0, ih]

theorem adjust_id' (k : κ) (f : ν → ν) (hf : ∀ v, f v = v) (m : Map κ ν) : adjust k f m = m := by
  induction m with
  | nil => rfl
  | cons e r ih =>
    obtain ⟨k0, v0⟩ := e
    by_cases h0 : k0 = k
    · simp [adjust, h0, hf]
    · simp [adjust, h0, ih]

theorem adjust_cancel (k : κ) (f g : ν → ν) (h : ∀ v, f (g v) = v) (m : Map κ ν) :
    adjust k f (adjust k g m) = m := by
  rw [adjust_adjust_same]
  exact adjust_id' k _ (by intro v; simp [h]) m

/-- Adjustments by commuting functions commute (whatever the keys). -/
theorem adjust_comm (k k' : κ) (f g : ν → ν) (h : ∀ v, f (g v) = g (f v)) (m : Map κ ν) :
    adjust k f (adjust k' g m) = adjust k' g (adjust k f m) := by
  induction m with
  | nil => rfl
  | cons e r ih =>
    obtain ⟨k0, v0⟩ := e
    by_cases h0 : k0 = k
    · subst h0
      by_cases h1 : k0 = k'
      · subst h1; simp [adjust, h]
      · simp [adjust, h1]
    · by_cases h1 : k0 = k'
      · subst h1; simp [adjust, h0]
      · simp [adjust, h0, h1, ih]

theorem sumBy_adjust (h : κ → ν → Int) (k : κ) (f : ν → ν) (m : Map κ ν) (v : ν)
    (hg : get? m k = some v) : sumBy h (adjust k f m) = sumBy h m + (h k (f v) - h k v) := by
  induction m with
  | nil => simp at hg
  | cons e r ih =>
    obtain ⟨k0, v0⟩ := e
    rw [get?_cons] at hg
    by_cases h0 : k0 = k
    · rw [if_pos h0] at hg
      cases hg
      subst h0
      simp only [adjust, if_true, sumBy]
      omega
    · rw [if_neg h0] at hg
      simp only [adjust, if_neg h0, sumBy, ih hg]
      omega

/-! ### `mapVal` -/

theorem get?_mapVal {μ : Type} (f : κ → ν → μ) (m : Map κ ν) (k : κ) :
    get? (mapVal f m) k = (get? m k).map (f k) := by
  induction m with
  | nil => rfl
  | cons e r ih =>
    obtain ⟨k0, v0⟩ := e
    simp only [mapVal, List.map_cons, get?_cons] at *
    by_cases h0 : k0 = k
    · subst h0; simp
    · simp [h0, ih]

@[simp] theorem keys_mapVal {μ : Type} (f : κ → ν → μ) (m : Map κ ν) : (mapVal f m).keys = m.keys := by
  simp [mapVal, keys, List.map_map, Function.comp_def]

theorem sumBy_mapVal {μ : Type} (f : κ → ν → μ) (h : κ → μ → Int) (m : Map κ ν) :
    sumBy h (mapVal f m) = sumBy (fun k v => h k (f k v)) m := by
  induction m with
  | nil => rfl
  | cons e r ih =>
    obtain ⟨k0, v0⟩ := e
    simp only [mapVal, List.map_cons, sumBy] at *
    rw [ih]

theorem sumBy_congr (h h' : κ → ν → Int) (m : Map κ ν) (e : ∀ k v, h k v = h' k v) :
    sumBy h m = sumBy h' m := by
  induction m with
  | nil => rfl
  | cons x r ih => obtain ⟨k0, v0⟩ := x; simp only [sumBy, ih, e]

theorem sumBy_add (h h' : κ → ν → Int) (m : Map κ ν) :
    sumBy (fun k v => h k v + h' k v) m = sumBy h m + sumBy h' m := by
  induction m with
  | nil => rfl
  | cons x r ih => obtain ⟨k0, v0⟩ := x; simp only [sumBy, ih]; omega

theorem sumBy_sub (h h' : κ → ν → Int) (m : Map κ ν) :
    sumBy (fun k v => h k v - h' k v) m = sumBy h m - sumBy h' m := by
  induction m with
  | nil => rfl
  | cons x r ih => obtain ⟨k0, v0⟩ := x; simp only [sumBy, ih]; omega

/-! ### `insertWith` -/
section ord
variable [KeyOrd κ]

/-- Σ over entries after an upsert, for a measure additive w.r.t. the combiner.
    Needs no well-formedness. -/
theorem sumBy_insertWith (h : κ → ν → Int) (f : ν → ν → ν) (k : κ) (v : ν) (m : Map κ ν)
    (hadd : ∀ o, h k (f o v) = h k o + h k v) :
    sumBy h (insertWith f k v m) = sumBy h m + h k v := by
  induction m with
  | nil => simp [insertWith, sumBy]
  | cons e r ih =>
    obtain ⟨k0, v0⟩ := e
    simp only [insertWith]
    by_cases h0 : k0 = k
    · subst h0; simp only [if_true, sumBy, hadd]; omega
    · simp only [if_neg h0]
      by_cases h1 : lt k k0 = true
      · simp only [if_pos h1, sumBy]; omega
      · simp only [if_neg h1, sumBy, ih]; omega

theorem mem_insertWith {f : ν → ν → ν} {k : κ} {v : ν} {m : Map κ ν} {e : κ × ν}
    (h : e ∈ insertWith f k v m) : e.1 = k ∨ e ∈ m := by
  induction m with
  | nil => simp [insertWith] at h; exact Or.inl (by rw [h])
  | cons x r ih =>
    obtain ⟨k0, v0⟩ := x
    simp only [insertWith] at h
    by_cases h0 : k0 = k
    · simp only [if_pos h0, List.mem_cons] at h
      rcases h with h | h
      · exact Or.inl (by rw [h])
      · exact Or.inr (List.mem_cons_of_mem _ h)
    · simp only [if_neg h0] at h
      by_cases h1 : lt k k0 = true
      · simp only [if_pos h1, List.mem_cons] at h
        rcases h with h | h | h
        · exact Or.inl (by rw [h])
        · exact Or.inr (by rw [h]; exact List.mem_cons_self)
        · exact Or.inr (List.mem_cons_of_mem _ h)
      · simp only [if_neg h1, List.mem_cons] at h
        rcases h with h | h
        · exact Or.inr (by rw [h]; exact List.mem_cons_self)
        · rcases ih h with h | h
          · exact Or.inl h
          · exact Or.inr (List.mem_cons_of_mem _ h)

theorem keys_insertWith_perm_mem (f : ν → ν → ν) (k : κ) (v : ν) (m : Map κ ν) (k' : κ) :
    k' ∈ (insertWith f k v m).keys ↔ k' = k ∨ k' ∈ m.keys := by
  induction m with
  | nil => simp [insertWith, keys]
  | cons x r ih =>
    obtain ⟨k0, v0⟩ := x
    simp only [insertWith]
    by_cases h0 : k0 = k
    · subst h0; simp [keys]
    · simp only [if_neg h0]
      by_cases h1 : lt k k0 = true
      · simp [if_pos h1, keys]
      · simp only [if_neg h1, keys, List.map_cons, List.mem_cons] at *
        rw [ih]
        constructor
        · rintro (h | h | h)
          · exact Or.inr (Or.inl h)
          · exact Or.inl h
          · exact Or.inr (Or.inr h)
        · rintro (h | h | h)
          · exact Or.inr (Or.inl h)
          · exact Or.inl h
          · exact Or.inr (Or.inr h)

variable [LawfulKeyOrd κ]

theorem WF_cons {e : κ × ν} {r : Map κ ν} :
    WF (e :: r) ↔ (∀ x ∈ r, lt e.1 x.1 = true) ∧ WF r := by
  simp [WF, List.pairwise_cons]

theorem WF_nil : WF ([] : Map κ ν) := List.Pairwise.nil

theorem WF_tail {e : κ × ν} {r : Map κ ν} (h : WF (e :: r)) : WF r := (WF_cons.mp h).2

theorem get?_eq_none_of_lt {k k0 : κ} {v0 : ν} {r : Map κ ν} (hw : WF ((k0, v0) :: r))
    (hlt : lt k k0 = true) : get? ((k0, v0) :: r) k = none := by
  apply get?_eq_none_of_not_mem_keys
  simp only [keys, List.map_cons, List.mem_cons, List.mem_map, not_or]
  obtain ⟨hall, _⟩ := WF_cons.mp hw
  constructor
  · exact lt_ne hlt
  · rintro ⟨x, hx, rfl⟩
    have h2 := hall x hx
    have := LawfulKeyOrd.trans hlt h2
    rw [LawfulKeyOrd.irrefl] at this
    exact absurd this (by simp)

theorem WF_insertWith (f : ν → ν → ν) (k : κ) (v : ν) {m : Map κ ν} (hw : WF m) :
    WF (insertWith f k v m) := by
  induction m with
  | nil => simp [insertWith, WF]
  | cons x r ih =>
    obtain ⟨k0, v0⟩ := x
    obtain ⟨hall, hr⟩ := WF_cons.mp hw
    simp only [insertWith]
    by_cases h0 : k0 = k
    · subst h0
      simp only [if_true]
      exact WF_cons.mpr ⟨hall, hr⟩
    · simp only [if_neg h0]
      by_cases h1 : lt k k0 = true
      · simp only [if_pos h1]
        refine WF_cons.mpr ⟨?_, hw⟩
        intro x hx
        rcases List.mem_cons.mp hx with hx | hx
        · rw [hx]; exact h1
        · exact LawfulKeyOrd.trans h1 (hall x hx)
      · simp only [if_neg h1]
        refine WF_cons.mpr ⟨?_, ih hr⟩
        intro x hx
        rcases mem_insertWith hx with hx | hx
        · rw [hx]
          cases h2 : lt k0 k with
          | true => rfl
          | false =>
            have h1' : lt k k0 = false := by simpa using h1
            exact absurd (LawfulKeyOrd.tri h2 h1') h0
        · exact hall x hx

theorem get?_insertWith (f : ν → ν → ν) (k : κ) (v : ν) {m : Map κ ν} (hw : WF m) (k' : κ) :
    get? (insertWith f k v m) k' =
      if k' = k then some (match get? m k with | some o => f o v | none => v) else get? m k' := by
  induction m with
  | nil =>
    simp only [insertWith, get?_cons, get?_nil]
    by_cases h : k = k'
    · subst h; simp
    · have : ¬ k' = k := fun e => h e.symm
      simp [h, this]
  | cons x r ih =>
    obtain ⟨k0, v0⟩ := x
    simp only [insertWith]
    by_cases h0 : k0 = k
    · subst h0
      simp only [if_true, get?_cons]
      by_cases h : k0 = k'
      · subst h; simp
      · have : ¬ k' = k0 := fun e => h e.symm
        simp [h, this]
    · simp only [if_neg h0]
      by_cases h1 : lt k k0 = true
      · simp only [if_pos h1]
        have hn : get? ((k0, v0) :: r) k = none := get?_eq_none_of_lt hw h1
        rw [hn]
        by_cases h : k = k'
        · subst h; simp [get?_cons]
        · have : ¬ k' = k := fun e => h e.symm
          rw [get?_cons, if_neg h, if_neg this]
      · simp only [if_neg h1]
        rw [get?_cons, ih (WF_tail hw), get?_cons, get?_cons, if_neg h0]
        by_cases h : k0 = k'
        · subst h
          have : ¬ k0 = k := h0
          simp [this]
        · simp [h]

theorem WF_adjust (k : κ) (f : ν → ν) {m : Map κ ν} (hw : WF m) : WF (adjust k f m) := by
  have hk : (adjust k f m).keys = m.keys := keys_adjust k f m
  unfold WF at *
  have h1 : List.Pairwise (fun a b => lt a b = true) m.keys := by
    simpa [keys, List.pairwise_map] using hw
  rw [← hk] at h1
  simpa [keys, List.pairwise_map] using h1

theorem WF_mapVal {μ : Type} (f : κ → ν → μ) {m : Map κ ν} (hw : WF m) : WF (mapVal f m) := by
  unfold WF at *
  have h1 : List.Pairwise (fun a b => lt a b = true) m.keys := by
    simpa [keys, List.pairwise_map] using hw
  rw [← keys_mapVal f m] at h1
  simpa [keys, List.pairwise_map] using h1

/-- Well-formed maps are determined by their lookups. -/
theorem ext_of_WF {m1 m2 : Map κ ν} (h1 : WF m1) (h2 : WF m2)
    (h : ∀ k, get? m1 k = get? m2 k) : m1 = m2 := by
  induction m1 generalizing m2 with
  | nil =>
    cases m2 with
    | nil => rfl
    | cons y r2 =>
      obtain ⟨k2, v2⟩ := y
      have := h k2
      simp [get?_cons] at this
  | cons x r1 ih =>
    obtain ⟨k1, v1⟩ := x
    cases m2 with
    | nil =>
      have := h k1
      simp [get?_cons] at this
    | cons y r2 =>
      obtain ⟨k2, v2⟩ := y
      have hk : k1 = k2 := by
        apply LawfulKeyOrd.tri
        · cases hlt : lt k1 k2 with
          | false => rfl
          | true =>
            have e := h k1
            rw [get?_eq_none_of_lt h2 hlt] at e
            simp [get?_cons] at e
        · cases hlt : lt k2 k1 with
          | false => rfl
          | true =>
            have e := h k2
            rw [get?_eq_none_of_lt h1 hlt] at e
            simp [get?_cons] at e
      subst hk
      have hv : v1 = v2 := by
        have e := h k1
        simpa [get?_cons] using e
      subst hv
      congr 1
      apply ih (WF_tail h1) (WF_tail h2)
      intro k
      have e := h k
      rw [get?_cons, get?_cons] at e
      by_cases hk : k1 = k
      · subst hk
        have n1 : get? r1 k1 = none := by
          apply get?_eq_none_of_not_mem_keys
          intro hm
          simp only [keys, List.mem_map] at hm
          obtain ⟨x, hx, hx1⟩ := hm
          have := (WF_cons.mp h1).1 x hx
          simp only at this
          rw [hx1, LawfulKeyOrd.irrefl] at this
          exact absurd this (by simp)
        have n2 : get? r2 k1 = none := by
          apply get?_eq_none_of_not_mem_keys
          intro hm
          simp only [keys, List.mem_map] at hm
          obtain ⟨x, hx, hx1⟩ := hm
          have := (WF_cons.mp h2).1 x hx
          simp only at this
          rw [hx1, LawfulKeyOrd.irrefl] at this
          exact absurd this (by simp)
        rw [n1, n2]
      · rw [if_neg hk, if_neg hk] at e
        exact e

end ord
end Map
end Ledger.Base
