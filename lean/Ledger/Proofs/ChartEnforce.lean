import Ledger.Chart.Enforce
import Ledger.Proofs.ChartRoundtrip

/-! Helper lemmas for C29 (schema enforcement, default-metadata merge) and the
sample values used by the non-vacuity examples of C29 / C30. -/
namespace Ledger.Chart

theorem lookup_filter_of_none (over base : Meta) (k : List Char) (h : over.lookup k = none) :
    (base.filter fun kv => (over.lookup kv.1).isNone).lookup k = base.lookup k := by
  induction base with
  | nil => rfl
  | cons kv rest ih =>
    obtain ⟨k', v⟩ := kv
    by_cases hk : k = k'
    · subst hk
      simp [List.filter, h, List.lookup]
    · have hb : (k == k') = false := by simpa using hk
      cases hf : (over.lookup k').isNone
      · simp [List.filter, hf, List.lookup, hb, ih]
      · simp [List.filter, hf, List.lookup, hb, ih]

/-- jsonb `base || over` key by key -/
theorem lookup_mergeMeta (base over : Meta) (k : List Char) :
    (mergeMeta base over).lookup k =
      match over.lookup k with
      | some v => some v
      | none => base.lookup k := by
  unfold mergeMeta
  rw [lookup_append']
  cases h : over.lookup k with
  | some v => rfl
  | none => simp [lookup_filter_of_none over base k h]

theorem validatePostings_mem (ops : RegexOps) (c : Chart) : (ps : List Posting) →
    validatePostings ops c ps = .ok () → ∀ p ∈ ps, validatePosting ops c p.source p.destination = .ok ()
  | [], _, p, hp => by cases hp
  | q :: rest, h, p, hp => by
    simp only [validatePostings, bind, Except.bind] at h
    cases hq : validatePosting ops c q.source q.destination with
    | error e => rw [hq] at h; cases h
    | ok u =>
      rw [hq] at h
      rcases List.mem_cons.1 hp with rfl | hp
      · exact hq
      · exact validatePostings_mem ops c rest h p hp

theorem validatePosting_classify (ops : RegexOps) (c : Chart) (src dst : List Char)
    (h : validatePosting ops c src dst = .ok ()) :
    (classifyAddr ops c src).isSome = true ∧ (classifyAddr ops c dst).isSome = true := by
  unfold validatePosting at h
  simp only [bind, Except.bind] at h
  cases h1 : findAccountSchema ops c (splitColon src).1 (splitColon src).2 with
  | error e => simp [h1] at h
  | ok a1 =>
    simp only [h1] at h
    cases h2 : findAccountSchema ops c (splitColon dst).1 (splitColon dst).2 with
    | error e => simp [h2] at h
    | ok a2 =>
      constructor
      · simp [classifyAddr, classify, h1, Except.toOption]
      · simp [classifyAddr, classify, h2, Except.toOption]

/-! ### samples -/

def sampleOps : RegexOps :=
  { compiles := fun _ => true, isMatch := fun p s => p = "digits" && s.all Char.isDigit }

def sampleChart : Chart :=
  [ ("users".toList, .mk [] (some (.mk "id".toList (some "digits")
      (.mk [("main".toList, .mk [] none (some ⟨some [("kind".toList, some "wallet")]⟩))] none
        (some ⟨none⟩)))) none),
    ("bank".toList, .mk [] none (some ⟨some []⟩)) ]

def samplePosting (src dst : String) : Posting :=
  { source := src.toList, destination := dst.toList, asset := "USD", amount := 1 }

def sampleSchema : Schema :=
  { version := "v1", chart := sampleChart, templates := [("pay", [samplePosting "bank" "users:1:main"])] }

def sampleSchemaNoTemplates : Schema := { sampleSchema with version := "v0", templates := [] }

def sampleState : State := { schemas := [sampleSchemaNoTemplates, sampleSchema], accounts := [], txCount := 0 }

end Ledger.Chart
