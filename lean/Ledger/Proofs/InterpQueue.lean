import Ledger.Interp.Run
import Ledger.Proofs.InterpUnits

/-!
The interpreter's funds queue and `pushSender` / `pushReceiver` on unit lists:
`Pull n` is `take n` / `drop n` on the units of the queue, a receiver's postings are
the pulled units addressed to it.
-/
namespace Ledger.Interp
open Ledger.Machine

/-- Every sender of the queue holds a positive amount (`pushSender` never pushes 0). -/
def Pos (q : List Part) : Prop := ∀ p ∈ q, 0 < p.amount

theorem Pos.nil : Pos [] := by intro p hp; cases hp

theorem Pos.cons {p : Part} {q : List Part} : Pos (p :: q) ↔ 0 < p.amount ∧ Pos q := by
  constructor
  · intro h; exact ⟨h p (by simp), fun x hx => h x (by simp [hx])⟩
  · rintro ⟨h1, h2⟩ x hx
    rcases List.mem_cons.mp hx with rfl | hx
    · exact h1
    · exact h2 x hx

theorem Pos.append {a b : List Part} : Pos (a ++ b) ↔ Pos a ∧ Pos b := by
  constructor
  · intro h; exact ⟨fun x hx => h x (by simp [hx]), fun x hx => h x (by simp [hx])⟩
  · rintro ⟨h1, h2⟩ x hx
    rcases List.mem_append.mp hx with hx | hx
    · exact h1 x hx
    · exact h2 x hx

theorem Pos.nonneg {q : List Part} (h : Pos q) : partsNonneg q := by
  intro p hp; have := h p hp; omega

theorem Pos.units_nil {q : List Part} (h : Pos q) (hu : units q = []) : q = [] := by
  cases q with
  | nil => rfl
  | cons p ps =>
    have hp := (Pos.cons.mp h).1
    simp only [units_cons, List.append_eq_nil_iff, List.replicate_eq_nil_iff] at hu
    omega

theorem replicate_take_append (n m : Nat) (a : String) (l : List String) (h : m ≤ n) :
    (List.replicate n a ++ l).take m = List.replicate m a := by
  rw [List.take_append_of_le_length (by simpa using h), List.take_replicate]
  congr 1; omega

theorem replicate_drop_append (n m : Nat) (a : String) (l : List String) (h : m ≤ n) :
    (List.replicate n a ++ l).drop m = List.replicate (n - m) a ++ l := by
  rw [List.drop_append_of_le_length (by simpa using h), List.drop_replicate]

theorem pullGo_spec (rest : List Part) : ∀ (a : Part) (req : Int), 0 < a.amount → Pos rest → 0 < req →
    units (pullGo a rest req).1 = (units (a :: rest)).take req.toNat ∧
    units (pullGo a rest req).2 = (units (a :: rest)).drop req.toNat ∧
    Pos (pullGo a rest req).1 ∧ Pos (pullGo a rest req).2 := by
  induction rest with
  | nil =>
    intro a req ha _ hreq
    unfold pullGo
    by_cases h1 : a.amount < req
    · rw [if_pos h1]
      refine ⟨?_, ?_, Pos.cons.mpr ⟨ha, Pos.nil⟩, Pos.nil⟩
      · simp only [units_cons, units_nil, List.append_nil]
        rw [List.take_of_length_le]; simp; omega
      · simp only [units_cons, units_nil, List.append_nil]
        rw [List.drop_of_length_le]; simp; omega
    · rw [if_neg h1]
      by_cases h2 : req < a.amount
      · rw [if_pos h2]
        refine ⟨?_, ?_, Pos.cons.mpr ⟨hreq, Pos.nil⟩, Pos.cons.mpr ⟨by simp; omega, Pos.nil⟩⟩
        · simp only [units_cons, units_nil, List.append_nil, List.take_replicate]
          congr 1; omega
        · simp only [units_cons, units_nil, List.append_nil, List.drop_replicate]
          congr 1; omega
      · rw [if_neg h2]
        have : req = a.amount := by omega
        subst this
        refine ⟨?_, ?_, Pos.cons.mpr ⟨hreq, Pos.nil⟩, Pos.nil⟩
        · simp
        · simp
  | cons s rest ih =>
    intro a req ha hrest hreq
    obtain ⟨hs, hr⟩ := Pos.cons.mp hrest
    unfold pullGo
    rw [if_neg (by omega)]
    by_cases hacc : a.account = s.account
    · rw [if_pos hacc]
      obtain ⟨i1, i2, i3, i4⟩ := ih ⟨a.account, a.amount + s.amount⟩ req (by simp; omega) hr hreq
      have e : units (⟨a.account, a.amount + s.amount⟩ :: rest) = units (a :: s :: rest) := by
        simp only [units_cons, ← hacc]
        rw [← List.append_assoc, List.replicate_append_replicate,
          Int.toNat_add (by omega) (by omega)]
      rw [e] at i1 i2
      exact ⟨i1, i2, i3, i4⟩
    · rw [if_neg hacc]
      by_cases h1 : a.amount < req
      · rw [if_pos h1]
        obtain ⟨i1, i2, i3, i4⟩ := ih s (req - a.amount) hs hr (by omega)
        have hn : (req - a.amount).toNat = req.toNat - a.amount.toNat := by omega
        refine ⟨?_, ?_, Pos.cons.mpr ⟨ha, i3⟩, i4⟩
        · simp only [units_cons] at i1 ⊢
          rw [i1, List.take_append (l₁ := List.replicate a.amount.toNat a.account),
            List.length_replicate, hn]
          congr 1
          rw [List.take_of_length_le]; simp; omega
        · simp only [units_cons] at i2 ⊢
          rw [i2, List.drop_append (l₁ := List.replicate a.amount.toNat a.account),
            List.length_replicate, hn,
            List.drop_of_length_le (l := List.replicate a.amount.toNat a.account) (by simp; omega)]
          simp
      · rw [if_neg h1]
        by_cases h2 : req < a.amount
        · rw [if_pos h2]
          refine ⟨?_, ?_, Pos.cons.mpr ⟨hreq, Pos.nil⟩,
            Pos.cons.mpr ⟨by simp; omega, hrest⟩⟩
          · simp only [units_cons, units_nil, List.append_nil]
            rw [replicate_take_append _ _ _ _ (by omega)]
          · simp only [units_cons]
            rw [replicate_drop_append _ _ _ _ (by omega)]
            congr 2; omega
        · rw [if_neg h2]
          have : req = a.amount := by omega
          subst this
          refine ⟨?_, ?_, Pos.cons.mpr ⟨hreq, Pos.nil⟩, hrest⟩
          · simp only [units_cons, units_nil, List.append_nil]
            rw [replicate_take_append _ _ _ _ (by omega)]
          · simp only [units_cons]
            rw [replicate_drop_append _ _ _ _ (by omega)]
            simp

/-- `Pull n` on units. -/
theorem pull_spec (q : List Part) (req : Int) (hq : Pos q) (hreq : 0 ≤ req) :
    units (pull q req).1 = (units q).take req.toNat ∧
    units (pull q req).2 = (units q).drop req.toNat ∧
    Pos (pull q req).1 ∧ Pos (pull q req).2 := by
  unfold pull
  by_cases h0 : req = 0
  · rw [if_pos h0]; subst h0
    exact ⟨by simp, by simp, Pos.nil, hq⟩
  · rw [if_neg h0]
    cases q with
    | nil => exact ⟨by simp, by simp, Pos.nil, Pos.nil⟩
    | cons a rest =>
      obtain ⟨ha, hr⟩ := Pos.cons.mp hq
      exact pullGo_spec rest a req ha hr (by omega)

/-! ## Postings as units -/

/-- The units of a posting list: (source, destination, asset) once per unit of amount. -/
def unitsP : List Posting → List (String × String × String)
  | [] => []
  | p :: ps => List.replicate p.amount.toNat (p.source, p.destination, p.asset) ++ unitsP ps

@[simp] theorem unitsP_nil : unitsP [] = [] := rfl

theorem unitsP_append (a b : List Posting) : unitsP (a ++ b) = unitsP a ++ unitsP b := by
  induction a with
  | nil => simp
  | cons p ps ih => simp [unitsP, ih]

theorem unitsP_mkPostings (asset dest : String) (parts : List Part) :
    unitsP (mkPostings asset dest parts) = (units parts).map (fun s => (s, dest, asset)) := by
  induction parts with
  | nil => simp [mkPostings]
  | cons p ps ih =>
    simp only [mkPostings, List.map_cons] at ih ⊢
    simp [unitsP, ih]

/-! ## `receive` / `pushReceiver` / `pushSender` -/

theorem receive_spec (name : String) (hk : name ≠ KEPT) (out : List Part) : ∀ (st : IState),
    (receive name out st).postings = st.postings ++ mkPostings st.asset name out ∧
    (receive name out st).bal = upd st.bal name st.asset (total out) ∧
    (receive name out st).queue = st.queue ∧ (receive name out st).txMeta = st.txMeta ∧
    (receive name out st).accMeta = st.accMeta ∧ (receive name out st).asset = st.asset := by
  induction out with
  | nil =>
    intro st
    refine ⟨by simp [receive, mkPostings], ?_, rfl, rfl, rfl, rfl⟩
    funext a c; simp [receive, upd, total]
  | cons s rest ih =>
    intro st
    simp only [receive, if_neg hk]
    obtain ⟨i1, i2, i3, i4, i5, i6⟩ := ih
      { st with bal := upd st.bal name st.asset s.amount,
                postings := st.postings ++ [⟨s.account, name, st.asset, s.amount⟩] }
    refine ⟨?_, ?_, i3, i4, i5, i6⟩
    · rw [i1]; simp [mkPostings]
    · rw [i2]; funext a c
      simp only [upd, total]
      split <;> omega

end Ledger.Interp
