import Ledger.Proofs.QueryPaginateWalk
namespace Ledger.Query

theorem orderBy_length (o : Order) (T : List Row) : (orderBy o T).length = T.length :=
  (orderBy_perm o T).length_eq

/-- Following `next` from offset `off` enumerates the ordered table from `off` on. -/
theorem walk_off {φ : Type} (o : Order) (T : List Row) (hmax : T.length ≤ maxInt32) :
    ∀ (n : Nat) (q : OffQuery φ) (fuel : Nat),
      (orderBy o T).length - q.offset ≤ n → q.offset ≤ (orderBy o T).length → q.order = some o →
      fuel ≥ (orderBy o T).length - q.offset + 1 →
      ((walkNextOff fuel q T).map (·.data)).flatten = (orderBy o T).drop q.offset ∧
      (∃ last, (walkNextOff fuel q T).getLast? = some last ∧ last.next = none) := by
  intro n
  induction n with
  | zero =>
    intro q fuel hn hoff ho hfuel
    obtain ⟨f, rfl⟩ : ∃ f, fuel = f + 1 := ⟨fuel - 1, by omega⟩
    have hlen := orderBy_length o T
    have hdrop : (orderBy o T).drop q.offset = [] := List.drop_eq_nil_of_le (by omega)
    have hmx : ¬ q.offset > maxInt32 := by omega
    have hfetch : fetchOff o q.offset q.pageSize T = [] := by
      unfold fetchOff; simp only [hdrop]; split <;> simp
    simp only [walkNextOff, paginateOff, ho, hmx, ↓reduceIte, hfetch, buildCursorOff]
    simp [hdrop]
  | succ n ih =>
    intro q fuel hn hoff ho hfuel
    obtain ⟨f, rfl⟩ : ∃ f, fuel = f + 1 := ⟨fuel - 1, by omega⟩
    have hlen := orderBy_length o T
    have hmx : ¬ q.offset > maxInt32 := by omega
    by_cases hmore : q.pageSize ≠ 0 ∧ ((orderBy o T).drop q.offset).length > q.pageSize
    · obtain ⟨hps, hgt⟩ := hmore
      obtain ⟨y, B, hsplit, htake, hdropy⟩ := take_succ_split ((orderBy o T).drop q.offset) q.pageSize hgt
      have hfetch : fetchOff o q.offset q.pageSize T = ((orderBy o T).drop q.offset).take q.pageSize ++ [y] := by
        unfold fetchOff
        have : q.pageSize > 0 := by omega
        simp only [this, ↓reduceIte, htake]
      have hAlen : (((orderBy o T).drop q.offset).take q.pageSize).length = q.pageSize := by
        rw [List.length_take]; omega
      have hcond : (q.pageSize ≠ 0 && decide ((((orderBy o T).drop q.offset).take q.pageSize ++ [y]).length > q.pageSize)) = true := by
        simp [hAlen, hps]
      have hdl : ((orderBy o T).drop q.offset).length = (orderBy o T).length - q.offset := List.length_drop
      have hov : ¬ q.offset > maxUint64 - q.pageSize := by
        unfold maxUint64; unfold maxInt32 at hmax; omega
      obtain ⟨ih1, last, ih2, ih3⟩ := ih { q with offset := q.offset + q.pageSize } f
        (by simp only; omega) (by simp only; omega) ho (by simp only; omega)
      simp only [walkNextOff, paginateOff, ho, hmx, ↓reduceIte, hfetch, buildCursorOff, hcond, hov,
        List.dropLast_concat]
      simp only [ho] at ih1 ih2
      refine ⟨?_, last, ?_, ih3⟩
      · simp only [List.map_cons, List.flatten_cons, ih1]
        rw [← List.drop_drop, List.take_append_drop]
      · rw [List.getLast?_cons]; simp [ih2]
    · have hfetch : fetchOff o q.offset q.pageSize T = (orderBy o T).drop q.offset := by
        unfold fetchOff
        split
        · apply List.take_of_length_le
          rcases Nat.lt_or_ge q.pageSize (((orderBy o T).drop q.offset).length) with h | h
          · exact absurd ⟨by omega, h⟩ hmore
          · omega
        · rfl
      have hcond : (q.pageSize ≠ 0 && decide (((orderBy o T).drop q.offset).length > q.pageSize)) = false := by
        by_cases h0 : q.pageSize = 0
        · simp [h0]
        · have : ¬ ((orderBy o T).drop q.offset).length > q.pageSize := fun h => hmore ⟨h0, h⟩
          rw [List.length_drop] at this
          simp; intro _; omega
      simp only [walkNextOff, paginateOff, ho, hmx, ↓reduceIte, hfetch, buildCursorOff, hcond]
      simp

end Ledger.Query
