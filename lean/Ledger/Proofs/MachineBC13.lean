import Ledger.Proofs.MachineBC12

/-! Stage (f), part 13: `VisitAllotment` (portions, OP_MAKE_ALLOTMENT) and OP_ALLOC. -/
namespace Ledger.Machine

theorem seqA_append (as bs : List Act) (cs : CS) :
    seqA (as ++ bs) cs = match seqA as cs with
      | .error e => .error e
      | .ok cs1 => seqA bs cs1 := by
  induction as generalizing cs with
  | nil => simp [seqA]
  | cons a as ih =>
    simp only [List.cons_append, seqA]
    cases a cs with
    | error e => rfl
    | ok cs1 => exact ih cs1

theorem Sim.append {ds : Decls} {env : Env} {C : CS → Prop} (hC : Stable C) {as bs : List Act}
    {P Q : Stack → Prop} {f g : Kl} (h1 : Sim ds env C (seqA as) P f) (h2 : Sim ds env C (seqA bs) Q g)
    (hpost : ∀ stk st s1 t1, P stk → f stk st = .ok (s1, t1) → Q s1) :
    Sim ds env C (seqA (as ++ bs)) P (f.comp g) :=
  ⟨fun cs cs' hg hc ha => by
    rw [seqA_append] at ha
    split at ha
    · cases ha
    · rename_i cs1 ha1
      obtain ⟨s1, e1, g1, r1⟩ := h1.ok cs cs1 hg hc ha1
      obtain ⟨s2, e2, g2, r2⟩ := h2.ok cs1 cs' g1 (hC cs cs1 s1 hc e1) ha
      refine ⟨s1 ++ s2, e1.trans e2, g2, ?_⟩
      intro R resv hf hr stk st hs
      rw [runSeg_append, r1 R resv (Final.of_ext e2 hf) hr stk st hs]
      simp only [Kl.comp]
      cases hfs : f stk st with
      | error e => rfl
      | ok r =>
        obtain ⟨x1, t1⟩ := r
        exact r2 R resv hf hr x1 t1 (hpost stk st x1 t1 hs hfs)⟩

/-! ### Portions -/

def portionK (env : Env) (p : PortionE) : Kl := fun stk st =>
  match evalPortion env p with
  | .ok v => .ok (.val (.portion v) :: stk, st)
  | .error e => .error e

theorem evalPortion_ok {ds : Decls} {env : Env} (henv : EnvTyped ds env) {p : PortionE} (hp : PortionOK ds p) :
    ∃ v, evalPortion env p = .ok v := by
  cases p with
  | lit t =>
    obtain ⟨v, hv⟩ := hp
    exact ⟨v, by simp [evalPortion, hv]⟩
  | var x =>
    obtain ⟨w, hw, hty⟩ := henv x _ hp
    obtain ⟨q, rfl⟩ := val_portion hty
    exact ⟨q, by simp [evalPortion, hw]⟩
  | remaining => exact ⟨_, rfl⟩

theorem sim_portion {ds : Decls} {env : Env} (henv : EnvTyped ds env) (C : CS → Prop) {p : PortionE}
    (hp : PortionOK ds p) : Sim ds env C (cPortion p) T (portionK env p) := by
  cases p with
  | lit t =>
    obtain ⟨v, hv⟩ := hp
    refine ⟨fun cs cs' hg hc ha => ?_⟩
    simp only [cPortion, hv] at ha
    obtain ⟨seg, e, g, r⟩ := (sim_pushConst ds env C (.portion v)).ok cs cs' hg hc ha
    refine ⟨seg, e, g, fun R resv hf hr stk st hs => ?_⟩
    rw [r R resv hf hr stk st hs]
    simp [pushK, portionK, evalPortion, hv, cvalue]
  | var x =>
    refine ⟨fun cs cs' hg hc ha => ?_⟩
    simp only [cPortion] at ha
    split at ha
    · cases ha
    · rename_i idx hl
      obtain ⟨s1, r1⟩ := emitPush_ok ha
      obtain ⟨r, h1, h2, h3⟩ := hg.1 x idx hl
      obtain ⟨w, hw, hty⟩ := henv x _ hp
      obtain ⟨q, rfl⟩ := val_portion hty
      refine ⟨_, s1.ext, hg.ext s1.ext (by rw [r1]; exact hg.2), ?_⟩
      intro R resv hf hr stk st _
      have hR : R[idx]? = some r := (Final.of_ext s1.ext hf).get h1
      have := hr.var hR h2
      rw [runSeg_apush (by rw [this, hw]) stk st]
      simp [portionK, evalPortion, hw]
  | remaining =>
    refine ⟨fun cs cs' hg hc ha => ?_⟩
    simp only [cPortion] at ha
    obtain ⟨seg, e, g, r⟩ := (sim_pushConst ds env C (.portion .remaining)).ok cs cs' hg hc ha
    refine ⟨seg, e, g, fun R resv hf hr stk st hs => ?_⟩
    rw [r R resv hf hr stk st hs]
    simp [pushK, portionK, evalPortion, cvalue]

/-- The portions, pushed from the last to the first. -/
def portionsK (env : Env) (ps : List PortionE) : Kl := fun stk st =>
  match evalPortions env ps with
  | .ok vs => .ok (vs.map (fun v => SVal.val (.portion v)) ++ stk, st)
  | .error e => .error e

theorem sim_portions {ds : Decls} {env : Env} (henv : EnvTyped ds env) (C : CS → Prop) (hC : Stable C) :
    (ps : List PortionE) → (∀ p ∈ ps, PortionOK ds p) →
    Sim ds env C (seqA (ps.reverse.map cPortion)) T (portionsK env ps)
  | [], _ => by
    refine (Sim.nil ds env C).congr ?_
    intro stk st _
    simp [Kl.id, portionsK, evalPortions]
  | p :: ps, h => by
    have ih := sim_portions henv C hC ps (fun q hq => h q (by simp [hq]))
    have h1 := Sim.append hC ih (Sim.single hC (sim_portion henv C (h p (by simp)))) (fun _ _ _ _ _ _ => trivial)
    have hl : (p :: ps).reverse.map cPortion = ps.reverse.map cPortion ++ [cPortion p] := by simp
    rw [hl]
    refine h1.congr ?_
    intro stk st _
    obtain ⟨v, hv⟩ := evalPortion_ok henv (h p (by simp))
    simp only [Kl.comp, portionsK, evalPortions, hv]
    cases evalPortions env ps with
    | error e => rfl
    | ok vs => simp [portionK, hv]

theorem popPortions_all : (vs : List Portion) → (rest : Stack) →
    popPortions vs.length (vs.map (fun v => SVal.val (.portion v)) ++ rest) = .ok (vs, rest)
  | [], rest => by simp [popPortions]
  | v :: vs, rest => by simp [popPortions, popPortions_all vs rest]

theorem opK_MAKE_ALLOTMENT (vs : List Portion) (rest : Stack) (st : State) :
    opK OP_MAKE_ALLOTMENT (.val (.number vs.length) :: (vs.map (fun v => SVal.val (.portion v)) ++ rest)) st =
      match newAllotment vs with
      | .ok a => .ok (.allotment a :: rest, st)
      | .error msg =>
        if msg = "sum of portions exceeded 100%" then .error (.run "exec" "allot-exceeded")
        else .error (.run "exec" "allot-two-remaining") := by
  simp only [opK, step, OP_MAKE_ALLOTMENT, OP_MONETARY_SUB, OP_MONETARY_ADD, OP_MONETARY_NEW, OP_ASSET, OP_BUMP,
    OP_DELETE, OP_IADD, OP_ISUB, OP_PRINT, OP_FAIL, popNumber]
  simp only [Nat.reduceEqDiff, if_false, if_true, Int.toNat_natCast, popPortions_all]
  cases newAllotment vs with
  | ok a => rfl
  | error msg => simp only

/-- `VisitAllotment`: pushes the allotment. -/
def allotK (env : Env) (ps : List PortionE) : Kl := fun stk st =>
  match makeAllotment env ps with
  | .error e => .error e
  | .ok a => .ok (.allotment a :: stk, st)

theorem sim_allotment {ds : Decls} {env : Env} (henv : EnvTyped ds env) (C : CS → Prop) (hC : Stable C)
    (ps : List PortionE) (hps : ∀ p ∈ ps, PortionOK ds p) :
    Sim ds env C (cAllotment ps) T (allotK env ps) := by
  have h := Sim.append hC (sim_portions henv C hC ps hps)
    (Sim.seq hC (sim_pushInteger ds env C ps.length) (Sim.single hC (sim_emitOp ds env C OP_MAKE_ALLOTMENT)))
    (fun _ _ _ _ _ _ => trivial)
  unfold cAllotment
  refine h.congr ?_
  intro stk st _
  simp only [Kl.comp, portionsK, allotK, makeAllotment]
  cases hev : evalPortions env ps with
  | error e => rfl
  | ok vs =>
    have hl := evalPortions_length ps vs hev
    simp only [pushK, ← hl, opK_MAKE_ALLOTMENT]
    cases newAllotment vs with
    | ok a => rfl
    | error msg => simp only; split <;> rfl

theorem opK_ALLOC (a : List Rat) (c : String) (v : Option Int) (rest : Stack) (st : State) :
    opK OP_ALLOC (.allotment a :: .val (.monetary c v) :: rest) st =
      match needAmt v with
      | .error e => .error e
      | .ok amt => .ok ((allocate a amt).map (fun p => SVal.val (.monetary c (some p))) ++ rest, st) := by
  simp only [opK, step, OP_ALLOC, OP_FUNDING_REVERSE, OP_FUNDING_SUM, OP_FUNDING_ASSEMBLE, OP_TAKE_MAX, OP_TAKE,
    OP_TAKE_ALWAYS, OP_TAKE_ALL, OP_MAKE_ALLOTMENT, OP_MONETARY_SUB, OP_MONETARY_ADD, OP_MONETARY_NEW, OP_ASSET,
    OP_BUMP, OP_DELETE, OP_IADD, OP_ISUB, OP_PRINT, OP_FAIL, popMonetary]
  simp only [Nat.reduceEqDiff, if_false, if_true]
  cases needAmt v with
  | error e => rfl
  | ok amt => rfl

theorem opK_FUNDING_REVERSE (f : Funding) (rest : Stack) (st : State) :
    opK OP_FUNDING_REVERSE (.funding f :: rest) st = .ok (.funding ⟨f.asset, f.parts.reverse⟩ :: rest, st) := by
  simp [opK, step, OP_FUNDING_REVERSE, OP_FUNDING_SUM, OP_FUNDING_ASSEMBLE, OP_TAKE_MAX, OP_TAKE,
    OP_TAKE_ALWAYS, OP_TAKE_ALL, OP_MAKE_ALLOTMENT, OP_MONETARY_SUB, OP_MONETARY_ADD, OP_MONETARY_NEW, OP_ASSET,
    OP_BUMP, OP_DELETE, OP_IADD, OP_ISUB, OP_PRINT, OP_FAIL, popFunding]

end Ledger.Machine
