import Ledger.Proofs.CtrlLog

/-!
Where retryable errors come from: the store contract never answers a deadlock,
and answers an idempotency-key conflict only from `InsertLog` when a log with
the key is there.  Hence (1) every turn of the retry loop consumes one injected
deadlock — the loop's fuel is enough; (2) the "incoherent error" panic after a
conflict is unreachable under the store contract.
-/
namespace Ledger.Ctrl
open Ledger.Base Ledger.Core

/-- The program never *itself* fails with a retryable error. -/
inductive Prog.Clean {α : Type} : Prog α → Prop where
  | pure (a : α) : Prog.Clean (.pure a)
  | fail (e : Err) (h1 : e ≠ .store .deadlock) (h2 : e ≠ .store .ikConflict) (h3 : e ≠ .outOfFuel) :
      Prog.Clean (.fail e)
  | call (c : Call) (k : c.Ret → Prog α) (hk : ∀ r, Prog.Clean (k r)) : Prog.Clean (.call c k)

theorem Prog.Clean.bind {α β : Type} {p : Prog α} {g : α → Prog β} (hp : p.Clean) (hg : ∀ a, (g a).Clean) :
    (Prog.bind p g).Clean := by
  induction hp with
  | pure a => exact hg a
  | fail e h1 h2 h3 => exact .fail e h1 h2 h3
  | call c k _ ih => exact .call c _ ih

theorem replayCalls_clean (cs : List MCall) : (replayCalls cs).Clean := by
  induction cs with
  | nil => exact .pure ()
  | cons c r ih =>
    cases c with
    | balances q => exact .call _ _ (fun _ => ih)
    | account a => exact .call _ _ (fun _ => ih)

theorem postingsMachine_clean (ps : List Posting) (force : Bool) : (postingsMachine ps force).Clean := by
  unfold postingsMachine
  simp only
  split
  · exact .pure _
  · refine .call _ _ (fun bal => ?_)
    split
    · exact .pure _
    · exact .fail _ (by decide) (by decide) (by decide)

theorem scriptMachine_clean (obs : List MachineObs) (n : Nat) : (scriptMachine obs n).Clean := by
  unfold scriptMachine
  split
  · exact .fail _ (by simp) (by simp) (by simp)
  · refine Prog.Clean.bind (replayCalls_clean _) (fun _ => ?_)
    split
    · exact .fail _ (by simp) (by simp) (by simp)
    · exact .pure _

theorem createBody_clean (strict : Bool) (schema : Option Schema) (c : CreateIn) (m : Prog MachineResult)
    (hm : m.Clean) : (createBody strict schema c m).Clean := by
  unfold createBody
  split
  · exact .fail _ (by decide) (by decide) (by decide)
  · refine Prog.Clean.bind hm (fun r => ?_)
    split
    · exact .fail _ (by decide) (by decide) (by decide)
    · split
      · exact .fail _ (by decide) (by decide) (by decide)
      · exact .call _ _ (fun tx => .call _ _ (fun _ => .pure _))

theorem revertBody_clean (id : Nat) (force aed : Bool) (m : Meta) : (revertBody id force aed m).Clean := by
  unfold revertBody
  refine .call _ _ (fun r => ?_)
  split
  · exact .fail _ (by decide) (by decide) (by decide)
  · refine .call _ _ (fun bal => ?_)
    simp only
    split
    · rename_i e he
      refine .fail _ ?_ ?_ ?_
      · intro h; subst h
        split at he
        · cases he
        · split at he
          · cases he
          · split at he <;> cases he
      · intro h; subst h
        split at he
        · cases he
        · split at he
          · cases he
          · split at he <;> cases he
      · intro h; subst h
        split at he
        · cases he
        · split at he
          · cases he
          · split at he <;> cases he
    · exact .call _ _ (fun tx => .pure _)

theorem body_clean (strict : Bool) (kind : OpKind) (n : Nat) (schema : Option Schema) :
    (body strict kind n schema).Clean := by
  cases kind with
  | createP c ps force => exact createBody_clean _ _ _ _ (postingsMachine_clean ps force)
  | createS c obs => exact createBody_clean _ _ _ _ (scriptMachine_clean obs n)
  | revert id force aed m => exact revertBody_clean id force aed m
  | saveTxMeta id m => exact .call _ _ (fun _ => .pure _)
  | saveAccMeta a m =>
    show (saveAccMetaBody schema a m).Clean
    unfold saveAccMetaBody
    exact .call _ _ (fun _ => .pure _)
  | delTxMeta id key =>
    refine .call _ _ (fun r => ?_)
    split
    · exact .pure _
    · exact .fail _ (by decide) (by decide) (by decide)
  | delAccMeta a key => exact .call _ _ (fun _ => .pure _)
  | insertSchema version chart templates tplBad =>
    simp only [body]
    split
    · exact .fail _ (by decide) (by decide) (by decide)
    · split
      · exact .fail _ (by decide) (by decide) (by decide)
      · refine .call _ _ (fun r => ?_)
        split
        · exact .pure _
        · exact .fail _ (by decide) (by decide) (by decide)

theorem schemaPhase_clean (strict : Bool) (kind : OpKind) (sv : String) : (schemaPhase strict kind sv).Clean := by
  unfold schemaPhase
  split
  · refine .call _ _ (fun r => ?_)
    split
    · exact .pure _
    · exact .call _ _ (fun _ => .fail _ (by decide) (by decide) (by decide))
  · split
    · refine .call _ _ (fun latest => ?_)
      split
      · exact .fail _ (by decide) (by decide) (by decide)
      · exact .pure _
    · exact .pure _

theorem logPhase_clean (strict : Bool) (ik ihash sv : String) (schema : Option Schema) (p : Payload) :
    (logPhase strict ik ihash sv schema p).Clean := by
  unfold logPhase
  simp only
  have hins : (Prog.call (Call.insertLog { payload := p, ik := ik, ihash := ihash, schemaVersion := sv }) Prog.pure).Clean :=
    .call _ _ (fun l => .pure l)
  cases schema with
  | none => simpa using hins
  | some sc =>
    simp only
    split
    · exact .fail _ (by decide) (by decide) (by decide)
    · exact hins

theorem runLog_clean (strict : Bool) (kind : OpKind) (ik ihash sv : String) (n : Nat) :
    (runLog strict kind ik ihash sv n).Clean :=
  Prog.Clean.bind (schemaPhase_clean strict kind sv) fun schema =>
  Prog.Clean.bind (body_clean strict kind n schema) fun p => logPhase_clean strict ik ihash sv schema p

/-- The store contract never answers a deadlock (nor any other injected-only error). -/
theorem exec_no_deadlock (now : Time) (c : Call) (d : Db) (sq sq' : Seqs) (e : StoreErr)
    (h : exec now c d sq = (sq', .error e)) : e ≠ .deadlock := by
  have key : ∀ x : Seqs × Except StoreErr (c.Ret × Db), x = exec now c d sq → x.2 ≠ .error .deadlock := by
    intro x hx
    subst hx
    cases c <;> simp only [exec] <;> try (intro hh; cases hh)
    · rename_i t
      unfold commitTransaction
      cases t.id <;> simp only <;> split <;> (try split) <;> intro hh <;> cases hh
    · rename_i id w
      unfold revertTransaction
      split
      · intro hh; cases hh
      · split <;> (intro hh; cases hh)
    · rename_i id m w
      unfold updateTxMeta
      split <;> (intro hh; cases hh)
    · rename_i id k w
      unfold deleteTxMeta
      split <;> (intro hh; cases hh)
    · rename_i l
      unfold insertLog
      cases l.id <;> simp only <;> split <;> (try split) <;> intro hh <;> cases hh
  intro hd
  subst hd
  exact key _ rfl (by rw [h])

theorem kind_err_deadlock (k : FaultKind) (h : k.err = .deadlock) : k = .deadlock := by
  cases k <;> first | rfl | cases h

/-- A deadlock error of a clean program is an injected one: it fired at the last call made. -/
theorem run_deadlock_origin {α : Type} (now : Time) (hn : String) (f : Faults) (p : Prog α) (hp : p.Clean)
    (st st' : RunSt) (hr : run now hn f p st = (.error (.store .deadlock), st')) :
    fires f st'.n = some .deadlock ∧ st.n < st'.n := by
  induction hp generalizing st with
  | pure a => simp only [run, Prod.mk.injEq] at hr; exact nomatch hr.1
  | fail e h1 _ _ =>
    simp only [run, Prod.mk.injEq, Except.error.injEq] at hr
    exact absurd hr.1 h1
  | call c k _ ih =>
    simp only [run] at hr
    split at hr
    · rename_i kind hf
      simp only [Prod.mk.injEq, Except.error.injEq, Err.store.injEq] at hr
      obtain ⟨hk, rfl⟩ := hr
      have := kind_err_deadlock kind hk
      subst this
      exact ⟨hf, Nat.lt_succ_self _⟩
    · split at hr
      · rename_i sq e heq
        simp only [Prod.mk.injEq, Except.error.injEq, Err.store.injEq] at hr
        exact absurd hr.1 (exec_no_deadlock now c st.db st.seq sq e heq)
      · rename_i sq r d heq
        obtain ⟨h1, h2⟩ := ih r _ hr
        exact ⟨h1, Nat.lt_trans (Nat.lt_succ_self _) h2⟩

/-- Injected deadlocks still ahead of call `n`. -/
def pendingDeadlocks (f : Faults) (n : Nat) : Nat :=
  f.countP (fun x => decide (x.kind = .deadlock ∧ n < x.at_))

theorem countP_lt_of_witness {α : Type} (l : List α) (p q : α → Bool) (hpq : ∀ x, p x = true → q x = true)
    (x : α) (hx : x ∈ l) (hq : q x = true) (hp : p x = false) : l.countP p < l.countP q := by
  induction l with
  | nil => cases hx
  | cons y r ih =>
    simp only [List.countP_cons]
    rcases List.mem_cons.mp hx with rfl | hx'
    · have hle : r.countP p ≤ r.countP q := List.countP_mono_left (fun z _ => hpq z)
      simp only [hq, hp, ↓reduceIte, Bool.false_eq_true]
      omega
    · have := ih hx'
      by_cases hpy : p y = true
      · simp only [hpy, hpq y hpy, ↓reduceIte]; omega
      · simp only [hpy, Bool.false_eq_true, ↓reduceIte]
        split <;> omega

theorem pending_decreases (f : Faults) (n m n' : Nat) (hf : fires f m = some .deadlock) (h1 : n < m) (h2 : m ≤ n') :
    pendingDeadlocks f n' < pendingDeadlocks f n := by
  unfold fires at hf
  split at hf
  · rename_i x hfind
    simp only [Option.some.injEq] at hf
    have hmem := List.mem_of_find?_eq_some hfind
    have hat : x.at_ = m := by
      have := List.find?_some hfind
      simpa using this
    unfold pendingDeadlocks
    refine countP_lt_of_witness f _ _ ?_ x hmem ?_ ?_
    · intro y hy
      simp only [decide_eq_true_eq] at hy ⊢
      exact ⟨hy.1, by omega⟩
    · simp only [decide_eq_true_eq]; exact ⟨hf, by omega⟩
    · simp only [decide_eq_false_iff_not, not_and]; intro _; omega
  · cases hf

/-- A failed `runTx` with a deadlock consumed an injected deadlock ahead of call `n`. -/
theorem runTx_deadlock_consumes (strict : Bool) (op : Op) (f : Faults) (cf : Bool) (s : State) (i tx : Nat) (seq : Seqs)
    (n : Nat) (trace : List String) (seq' : Seqs) (n' : Nat) (trace' : List String)
    (h : runTx strict op f cf s i tx seq n trace = .failed (.store .deadlock) seq' n' trace') :
    pendingDeadlocks f n' < pendingDeadlocks f n := by
  unfold runTx at h
  simp only at h
  split at h
  · rename_i kind hf
    simp only [TxResult.failed.injEq, Err.store.injEq] at h
    obtain ⟨hk, _, rfl, _⟩ := h
    have := kind_err_deadlock kind hk
    subst this
    exact pending_decreases f n (n + 1) (n + 1) hf (Nat.lt_succ_self _) (Nat.le_refl _)
  · split at h
    · rename_i e st1 heq
      split at h
      · cases h
      · simp only [TxResult.failed.injEq] at h
        obtain ⟨rfl, _, rfl, _⟩ := h
        obtain ⟨hf, hlt⟩ := run_deadlock_origin op.now _ f _ (runLog_clean strict op.kind op.ik op.ihash op.sv i) _ st1 heq
        simp only at hlt
        exact pending_decreases f n st1.n (st1.n + 1) hf (by omega) (by omega)
    · rename_i log st1 heq
      have hn : n + 1 ≤ st1.n := by
        have := run_n_le op.now ("t" ++ toString tx) f (runLog strict op.kind op.ik op.ihash op.sv i)
          { db := s.db, seq := seq, n := n + 1, trace := trace ++ ["root BeginTX"] }
        rw [heq] at this; exact this
      split at h
      · cases h
      · split at h
        · rename_i kind hf
          simp only [TxResult.failed.injEq, Err.store.injEq] at h
          obtain ⟨hk, _, rfl, _⟩ := h
          have := kind_err_deadlock kind hk
          subst this
          exact pending_decreases f n (st1.n + 1) (st1.n + 1) hf (by omega) (Nat.le_refl _)
        · split at h
          · simp only [TxResult.failed.injEq] at h
            exact nomatch h.1
          · cases h

/-- A clean program's error is never the model's out-of-fuel marker. -/
theorem run_error_not_outOfFuel {α : Type} (now : Time) (hn : String) (f : Faults) (p : Prog α) (hp : p.Clean)
    (st st' : RunSt) (e : Err) (hr : run now hn f p st = (.error e, st')) : e ≠ .outOfFuel := by
  induction hp generalizing st with
  | pure a => simp only [run, Prod.mk.injEq] at hr; exact nomatch hr.1
  | fail e' _ _ h3 =>
    simp only [run, Prod.mk.injEq, Except.error.injEq] at hr
    rw [← hr.1]; exact h3
  | call c k _ ih =>
    simp only [run] at hr
    split at hr
    · simp only [Prod.mk.injEq, Except.error.injEq] at hr
      rw [← hr.1]; intro h; cases h
    · split at hr
      · simp only [Prod.mk.injEq, Except.error.injEq] at hr
        rw [← hr.1]; intro h; cases h
      · exact ih _ _ hr

theorem recordedOutcome_not_outOfFuel (op : Op) (f : Faults) (s : State) (n : Nat) (o : Outcome)
    (h : o.resp.err ≠ some .outOfFuel) : (recordedOutcome op f s n o).resp.err ≠ some .outOfFuel := by
  unfold recordedOutcome
  repeat' split
  all_goals first | exact h | (intro hh; cases hh)

theorem fetchAfterConflict_not_outOfFuel (op : Op) (f : Faults) (s : State) (seq : Seqs) (n : Nat) (trace : List String) :
    (fetchAfterConflict op f s seq n trace).resp.err ≠ some .outOfFuel := by
  unfold fetchAfterConflict
  repeat' split
  all_goals (intro hh; cases hh)

theorem runTx_not_outOfFuel (strict : Bool) (op : Op) (f : Faults) (cf : Bool) (s : State) (i tx : Nat) (seq : Seqs)
    (n : Nat) (trace : List String) :
    (∀ o, runTx strict op f cf s i tx seq n trace = .done o → o.resp.err ≠ some .outOfFuel) ∧
    (∀ e seq' n' trace', runTx strict op f cf s i tx seq n trace = .failed e seq' n' trace' → e ≠ .outOfFuel) := by
  have failedStore : ∀ (k : FaultKind) (sq : Seqs) (m : Nat) (tr : List String),
      (∀ o, TxResult.failed (.store k.err) sq m tr = .done o → o.resp.err ≠ some .outOfFuel) ∧
      (∀ e seq' n' trace', TxResult.failed (.store k.err) sq m tr = .failed e seq' n' trace' → e ≠ .outOfFuel) := by
    intro k sq m tr
    refine ⟨fun o h => (nomatch h), ?_⟩
    intro e _ _ _ h
    simp only [TxResult.failed.injEq] at h
    rw [← h.1]; intro hh; cases hh
  have doneOk : ∀ (o : Outcome), o.resp.err ≠ some .outOfFuel →
      (∀ o', TxResult.done o = .done o' → o'.resp.err ≠ some .outOfFuel) ∧
      (∀ e seq' n' trace', TxResult.done o = .failed e seq' n' trace' → e ≠ .outOfFuel) := by
    intro o ho
    refine ⟨?_, fun e _ _ _ h => (nomatch h)⟩
    intro o' h
    simp only [TxResult.done.injEq] at h
    rw [← h]; exact ho
  unfold runTx
  simp only
  split
  · exact failedStore _ _ _ _
  · split
    · rename_i e st1 heq
      have hne := run_error_not_outOfFuel op.now _ f _ (runLog_clean strict op.kind op.ik op.ihash op.sv i) _ st1 e heq
      split
      · exact doneOk _ (by intro hh; cases hh)
      · refine ⟨fun o h => (nomatch h), ?_⟩
        intro e' _ _ _ h
        simp only [TxResult.failed.injEq] at h
        rw [← h.1]; exact hne
    · split
      · exact doneOk _ (by intro hh; cases hh)
      · split
        · exact failedStore _ _ _ _
        · split
          · refine ⟨fun o h => (nomatch h), ?_⟩
            intro e _ _ _ h
            simp only [TxResult.failed.injEq] at h
            rw [← h.1]; intro hh; cases hh
          · exact doneOk _ (by intro hh; cases hh)

/-- The fuel of the retry loop is enough whenever it exceeds the number of injected
    deadlocks still ahead: the out-of-fuel outcome is unreachable. -/
theorem retryLoop_fuel_enough (strict : Bool) (op : Op) (f : Faults) (cf : Bool) (s : State) (fuel i tx : Nat)
    (seq : Seqs) (n : Nat) (trace : List String) (h : pendingDeadlocks f n < fuel) :
    (retryLoop strict op f cf s fuel i tx seq n trace).resp.err ≠ some .outOfFuel := by
  induction fuel generalizing i tx seq n trace with
  | zero => exact absurd h (Nat.not_lt_zero _)
  | succ fuel ih =>
    unfold retryLoop
    have hno := runTx_not_outOfFuel strict op f cf s i tx seq n trace
    cases hr : runTx strict op f cf s i tx seq n trace with
    | done o => exact hno.1 o hr
    | failed e seq' n' trace' =>
      simp only
      split
      · rename_i hd
        subst hd
        have := runTx_deadlock_consumes strict op f cf s i tx seq n trace seq' n' trace' hr
        exact ih _ _ _ _ _ (by omega)
      · split
        · exact fetchAfterConflict_not_outOfFuel op f s seq' (n' + 1) trace'
        · exact recordedOutcome_not_outOfFuel _ _ _ _ _ (by
            show some e ≠ some Err.outOfFuel
            intro hh; cases hh; exact hno.2 _ _ _ _ hr rfl)

theorem pending_le_length (f : Faults) (n : Nat) : pendingDeadlocks f n ≤ f.length :=
  List.countP_le_length

/-- No write operation ever answers the model's out-of-fuel marker: the model of
    `forgeLogRetry` (loop until a non-deadlock outcome) is faithful for every fault plan. -/
theorem forgeLog_never_outOfFuel (strict : Bool) (op : Op) (f : Faults) (cf : Bool) (s : State) :
    (forgeLog strict op f cf s).resp.err ≠ some .outOfFuel := by
  unfold forgeLog
  split
  · intro hh; cases hh
  · split
    · rename_i e st1 heq
      have hcl : (ikLookup op.ik op.ihash).Clean := by
        unfold ikLookup
        split
        · exact .pure _
        · refine .call _ _ (fun r => ?_)
          split
          · exact .pure _
          · split
            · exact .fail _ (by decide) (by decide) (by decide)
            · exact .pure _
      have := run_error_not_outOfFuel op.now "t1" f _ hcl _ st1 e heq
      show some e ≠ some Err.outOfFuel
      intro hh; cases hh; exact this rfl
    · intro hh; cases hh
    · split
      · rename_i e st2 heq2
        have hne := run_error_not_outOfFuel op.now "t1" f _ (runLog_clean strict op.kind op.ik op.ihash op.sv 1) _ st2 e heq2
        split
        · exact retryLoop_fuel_enough strict op f cf s _ _ _ _ _ _
            (Nat.lt_succ_of_le (pending_le_length f _))
        · unfold failedThenRecorded
          split
          · unfold failedAttempt; split <;> (intro hh; cases hh)
          · refine recordedOutcome_not_outOfFuel _ _ _ _ _ ?_
            unfold failedAttempt
            split
            · intro hh; cases hh
            · show some e ≠ some Err.outOfFuel
              intro hh; cases hh; exact hne rfl
      · unfold finish
        split
        · intro hh; cases hh
        · unfold commitOrFail
          repeat' split
          all_goals (intro hh; cases hh)

/-! ### the idempotency-key conflict branch -/

theorem kind_err_conflict (k : FaultKind) (h : k.err = .ikConflict) : k = .ikConflict := by
  cases k <;> first | rfl | cases h

theorem fires_mem (f : Faults) (m : Nat) (k : FaultKind) (h : fires f m = some k) : ∃ x ∈ f, x.kind = k := by
  unfold fires at h
  split at h
  · rename_i x hfind
    simp only [Option.some.injEq] at h
    exact ⟨x, List.mem_of_find?_eq_some hfind, h⟩
  · cases h

/-- Apart from `InsertLog`, the store contract never answers an idempotency-key conflict. -/
theorem exec_quiet_no_conflict (now : Time) (c : Call) (hq : c.Quiet) (d : Db) (sq sq' : Seqs) (e : StoreErr)
    (h : exec now c d sq = (sq', .error e)) : e ≠ .ikConflict := by
  have key : ∀ x : Seqs × Except StoreErr (c.Ret × Db), x = exec now c d sq → x.2 ≠ .error .ikConflict := by
    intro x hx
    subst hx
    cases c <;> simp only [exec] <;> try (intro hh; cases hh)
    · rename_i t
      unfold commitTransaction
      cases t.id <;> simp only <;> split <;> (try split) <;> intro hh <;> cases hh
    · rename_i id w
      unfold revertTransaction
      split
      · intro hh; cases hh
      · split <;> (intro hh; cases hh)
    · rename_i id m w
      unfold updateTxMeta
      split <;> (intro hh; cases hh)
    · rename_i id k w
      unfold deleteTxMeta
      split <;> (intro hh; cases hh)
    · exact hq.elim
  intro hd
  subst hd
  exact key _ rfl (by rw [h])

/-- A conflict error of a program without `InsertLog` is an injected one. -/
theorem run_quiet_conflict_injected {α : Type} (now : Time) (hn : String) (f : Faults) (p : Prog α)
    (hq : p.All Call.Quiet) (hc : p.Clean) (st st' : RunSt)
    (hr : run now hn f p st = (.error (.store .ikConflict), st')) : ∃ m, fires f m = some .ikConflict := by
  induction p generalizing st with
  | pure a => simp only [run, Prod.mk.injEq] at hr; exact nomatch hr.1
  | fail e =>
    cases hc with
    | fail _ _ h2 _ =>
      simp only [run, Prod.mk.injEq, Except.error.injEq] at hr
      exact absurd hr.1 h2
  | call c k ih =>
    cases hq with
    | call _ _ hcq hkq =>
      cases hc with
      | call _ _ hkc =>
        simp only [run] at hr
        split at hr
        · rename_i kind hf
          simp only [Prod.mk.injEq, Except.error.injEq, Err.store.injEq] at hr
          have := kind_err_conflict kind hr.1
          subst this
          exact ⟨_, hf⟩
        · split at hr
          · rename_i sq e heq
            simp only [Prod.mk.injEq, Except.error.injEq, Err.store.injEq] at hr
            exact absurd hr.1 (exec_quiet_no_conflict now c hcq st.db st.seq sq e heq)
          · exact ih _ (hkq _) (hkc _) _ hr

theorem run_bind_error {α β : Type} (now : Time) (hn : String) (f : Faults) (p : Prog α) (g : α → Prog β)
    (st st' : RunSt) (e : Err) (h : run now hn f (Prog.bind p g) st = (.error e, st')) :
    run now hn f p st = (.error e, st') ∨
    ∃ a st1, run now hn f p st = (.ok a, st1) ∧ run now hn f (g a) st1 = (.error e, st') := by
  rw [run_bind] at h
  split at h
  · rename_i e' st'' heq
    simp only [Prod.mk.injEq, Except.error.injEq] at h
    obtain ⟨rfl, rfl⟩ := h
    exact Or.inl heq
  · rename_i a st1 heq
    exact Or.inr ⟨a, st1, heq, h⟩

/-- Under the store contract, a `runLog` that ends in an idempotency-key conflict
    (not an injected one) ran into a log that carries the key — in the tables it
    started from. -/
theorem runLog_conflict_log_found (now : Time) (hn : String) (f : Faults) (strict : Bool) (kind : OpKind)
    (ik ihash sv : String) (n : Nat) (st0 st : RunSt) (hnof : ∀ x ∈ f, x.kind ≠ .ikConflict)
    (h : run now hn f (runLog strict kind ik ihash sv n) st0 = (.error (.store .ikConflict), st)) :
    (readLogWithIK ik st0.db).isSome = true := by
  have noinj : ∀ m, fires f m ≠ some .ikConflict := by
    intro m hm
    obtain ⟨x, hx, hk⟩ := fires_mem f m _ hm
    exact hnof x hx hk
  unfold runLog at h
  rcases run_bind_error now hn f _ _ st0 st _ h with h1 | ⟨schema, st1, h1, h⟩
  · obtain ⟨m, hm⟩ := run_quiet_conflict_injected now hn f _ (schemaPhase_quiet strict kind sv)
      (schemaPhase_clean strict kind sv) st0 st h1
    exact absurd hm (noinj m)
  · have hl1 := run_quiet_logs now hn f _ (schemaPhase_quiet strict kind sv) st0
    rw [h1] at hl1
    rcases run_bind_error now hn f _ _ st1 st _ h with h2 | ⟨p, st2, h2, h⟩
    · obtain ⟨m, hm⟩ := run_quiet_conflict_injected now hn f _ (body_quiet strict kind n schema)
        (body_clean strict kind n schema) st1 st h2
      exact absurd hm (noinj m)
    · have hl2 := run_quiet_logs now hn f _ (body_quiet strict kind n schema) st1
      rw [h2] at hl2
      simp only at hl1 hl2
      have hlogs : st2.db.logs = st0.db.logs := hl2.trans hl1
      -- the log phase: schema validation failure is not a conflict; so it is InsertLog
      have key : ∀ st2' : RunSt, st2'.db.logs = st0.db.logs →
          run now hn f (Prog.call (Call.insertLog { payload := p, ik := ik, ihash := ihash, schemaVersion := sv })
            Prog.pure) st2' = (.error (.store .ikConflict), st) → (readLogWithIK ik st0.db).isSome = true := by
        intro st2' hlg hr
        simp only [run] at hr
        split at hr
        · rename_i kd hf
          simp only [Prod.mk.injEq, Except.error.injEq, Err.store.injEq] at hr
          have := kind_err_conflict kd hr.1
          subst this
          exact absurd hf (noinj _)
        · split at hr
          · rename_i sq e heq
            simp only [Prod.mk.injEq, Except.error.injEq, Err.store.injEq] at hr
            obtain ⟨rfl, _⟩ := hr
            simp only [exec, insertLog] at heq
            split at heq
            · simp only [Prod.mk.injEq, Except.error.injEq] at heq; exact nomatch heq.2
            · split at heq
              · rename_i hc
                unfold readLogWithIK
                obtain ⟨hne, hany⟩ := hc
                rw [if_neg hne, ← hlg]
                simp only [List.any_eq_true, decide_eq_true_eq] at hany
                obtain ⟨x, hx, hxe⟩ := hany
                rw [List.find?_isSome]
                exact ⟨x, hx, by simp [hxe]⟩
              · simp only [Prod.mk.injEq] at heq; exact nomatch heq.2
          · simp only [Prod.mk.injEq] at hr; exact nomatch hr.1
      unfold logPhase at h
      cases schema with
      | none =>
        simp only [Bool.false_eq_true, ↓reduceIte] at h
        exact key st2 hlogs h
      | some sc =>
        simp only at h
        by_cases hb : (strict && !validPayload sc p) = true
        · rw [if_pos hb] at h
          simp only [run, Prod.mk.injEq, Except.error.injEq] at h
          exact nomatch h.1
        · rw [if_neg hb] at h
          exact key st2 hlogs h

/-- The "incoherent error, received duplicate IK but log not found" panic of
    `forgeLogRetry` is unreachable under the store contract: when an attempt fails
    with a conflict the store itself reported, the lookup on the root handle finds
    the log. -/
theorem conflict_panic_unreachable (strict : Bool) (op : Op) (f : Faults) (cf : Bool) (s : State) (i tx : Nat)
    (seq : Seqs) (n : Nat) (trace : List String) (seq' : Seqs) (n' : Nat) (trace' : List String)
    (hnof : ∀ x ∈ f, x.kind ≠ .ikConflict)
    (h : runTx strict op f cf s i tx seq n trace = .failed (.store .ikConflict) seq' n' trace') :
    (fetchAfterConflict op f s seq' (n' + 1) trace').resp.err ≠ some .panic := by
  have noinj : ∀ m, fires f m ≠ some .ikConflict := by
    intro m hm
    obtain ⟨x, hx, hk⟩ := fires_mem f m _ hm
    exact hnof x hx hk
  have hfound : (readLogWithIK op.ik s.db).isSome = true := by
    unfold runTx at h
    simp only at h
    split at h
    · rename_i kind hf
      simp only [TxResult.failed.injEq, Err.store.injEq] at h
      have := kind_err_conflict kind h.1
      subst this
      exact absurd hf (noinj _)
    · split at h
      · rename_i e st1 heq
        split at h
        · cases h
        · simp only [TxResult.failed.injEq] at h
          obtain ⟨rfl, _⟩ := h
          exact runLog_conflict_log_found op.now _ f strict op.kind op.ik op.ihash op.sv i _ st1 hnof heq
      · split at h
        · cases h
        · split at h
          · rename_i kind hf
            simp only [TxResult.failed.injEq, Err.store.injEq] at h
            have := kind_err_conflict kind h.1
            subst this
            exact absurd hf (noinj _)
          · split at h
            · simp only [TxResult.failed.injEq] at h; exact nomatch h.1
            · cases h
  unfold fetchAfterConflict
  simp only
  split
  · intro hh; cases hh
  · split
    · intro hh; cases hh
    · cases hr : readLogWithIK op.ik s.db with
      | none => rw [hr] at hfound; cases hfound
      | some log =>
        simp only
        split <;> (intro hh; cases hh)

end Ledger.Ctrl
