import Ledger.Proofs.SqlMovesInsert
open Ledger Ledger.Sql Ledger.Generated Ledger.Core
namespace Ledger.Sql
open Ledger.Spec

theorem MvView.congr {v v' : View} {rows : List Ver} {tbl : List (String × Spec.MoveRow)} (h : MvView v rows tbl)
    (hv : ∀ r ∈ rows, r.visible v' = r.visible v) : MvView v' rows tbl := by
  unfold MvView at *
  rw [← h]
  congr 1
  apply List.filter_congr
  intro r hr
  exact hv r hr

theorem Fresh.mono {xid c c' : Nat} {rows : List Ver} (h : Fresh xid c rows) (hc : c ≤ c') : Fresh xid c' rows := by
  intro r hr
  obtain ⟨h1, h2⟩ := h r hr
  exact ⟨fun e => by have := h1 e; omega, fun e => by have := h2 e; omega⟩

/-- the view of a nested command started now agrees with the "latest" view -/
theorem MvView.nested {s : St} (hs : TxState s) (hn : s.nextCid < 1000000000) {rows : List Ver} {tbl : List (String × Spec.MoveRow)}
    (h : MvView (latestView s.w s.xid) rows tbl) (hf : Fresh s.xid s.nextCid rows) :
    MvView { xid := s.xid, cid := s.nextCid, snap := s.snap } rows tbl := by
  apply h.congr
  intro r hr
  exact visible_cv_latest s.enter (hs.enter hn) rows hf r hr

/-- the rows, typed table, RETURNING rows and queued triggers of a multi-row insert into `moves` -/
def insRows (xid cid : Nat) (ln : String) : Nat → List Ver → List (String × Spec.MoveRow) → List Spec.MoveRow → List Ver
  | _, rows, _, [] => rows
  | nr, rows, tbl, m :: ms =>
    insRows xid cid ln (nr + 1) (newVer xid cid nr (mvVals ln (withPcev tbl ln m)) :: rows) ((ln, withPcev tbl ln m) :: tbl) ms

def insTbl (ln : String) : List (String × Spec.MoveRow) → List Spec.MoveRow → List (String × Spec.MoveRow)
  | tbl, [] => tbl
  | tbl, m :: ms => insTbl ln ((ln, withPcev tbl ln m) :: tbl) ms

/-- the rows as inserted (with their effective volumes) -/
def insNew (ln : String) : List (String × Spec.MoveRow) → List Spec.MoveRow → List Spec.MoveRow
  | _, [] => []
  | tbl, m :: ms => withPcev tbl ln m :: insNew ln ((ln, withPcev tbl ln m) :: tbl) ms

/-- consecutive sequence numbers from `v` -/
def SeqFrom : Int → List Spec.MoveRow → Prop
  | _, [] => True
  | v, m :: ms => (m.seq : Int) = v ∧ SeqFrom (v + 1) ms

def pendingOf (fname full ln : String) (m : Spec.MoveRow) : PendingTrig :=
  { fname := fname, table := full, new := some (mvVals ln m), old := none }

def retOf (m : Spec.MoveRow) : List Value := [volVal m.pcv, volVal m.pcev]

end Ledger.Sql

namespace Ledger.Sql
open Ledger.Spec

@[simp] theorem withTable_funcs (s : St) (t : Table) : (s.withTable t).w.funcs = s.w.funcs := rfl
@[simp] theorem withTable_seqs (s : St) (t : Table) : (s.withTable t).w.seqs = s.w.seqs := rfl
@[simp] theorem withTable_nextCid (s : St) (t : Table) : (s.withTable t).nextCid = s.nextCid := rfl
@[simp] theorem withTable_snap (s : St) (t : Table) : (s.withTable t).snap = s.snap := rfl
@[simp] theorem addQ_nextCid (s : St) (q : List PendingTrig) : (s.addQ q).nextCid = s.nextCid := rfl
@[simp] theorem addQ_snap (s : St) (q : List PendingTrig) : (s.addQ q).snap = s.snap := rfl
@[simp] theorem bump_funcs (s : St) (k : Nat) : (s.bump k).w.funcs = s.w.funcs := rfl

theorem withSeqs_comm_table (s : St) (t : Table) (q : List Seq) : (s.withTable t).withSeqs q = (s.withSeqs q).withTable t := rfl
theorem withSeqs_comm_addQ (s : St) (Q : List PendingTrig) (q : List Seq) : (s.addQ Q).withSeqs q = (s.withSeqs q).addQ Q := rfl
theorem withSeqs_comm_bump (s : St) (k : Nat) (q : List Seq) : (s.bump k).withSeqs q = (s.withSeqs q).bump k := rfl
theorem withSeqs_withSeqs (s : St) (q q' : List Seq) : (s.withSeqs q).withSeqs q' = s.withSeqs q' := rfl
theorem bump_comm_table (s : St) (t : Table) (k : Nat) : (s.withTable t).bump k = (s.bump k).withTable t := rfl
theorem bump_comm_addQ (s : St) (Q : List PendingTrig) (k : Nat) : (s.addQ Q).bump k = (s.bump k).addQ Q := rfl

def seqsRun (full : String) : Int → List Seq → List Spec.MoveRow → List Seq
  | _, seqs, [] => seqs
  | v, seqs, _ :: ms => seqsRun full (v + 1) (seqsSet full v seqs) ms

def insAcc : DmlAcc → List Spec.MoveRow → DmlAcc
  | acc, [] => acc
  | acc, m :: ms =>
    insAcc (DmlAcc.mk ["post_commit_volumes", "post_commit_effective_volumes"] (acc.retRows ++ [retOf m]) (acc.affected + 1)) ms

end Ledger.Sql

namespace Ledger.Sql
open Ledger.Spec

theorem exec_insertLoop_moves (p : Nat) (env : Env) (b ln : String) (trigs : List TriggerDef)
    (B1 B2 : List TriggerDef) (trB : TriggerDef) (A1 A2 : List TriggerDef) (trA : TriggerDef) (item wher dflt_ : Expr) (fB : PlFunc)
    (s0 : St) (hs0 : TxState s0) (hcid : s0.cid < s0.nextCid)
    (hst : MvStatic s0.w.funcs s0.w.types b ln trigs B1 B2 trB A1 A2 trA item wher dflt_ fB)
    (T0 : Table) (hT0 : s0.w.table? (mvFull b) = some T0) (hname0 : T0.name = mvFull b) :
    ∀ (pm : List (WriteSql.P.MoveRow × Spec.MoveRow)), (∀ x ∈ pm, MvLit s0.w.types x.1 x.2) →
    ∀ (nr : Nat) (rows : List Ver) (tbl : List (String × Spec.MoveRow)) (seqs : List Seq) (k : Nat) (acc : DmlAcc) (Q : List PendingTrig)
      (sq : Seq), seqs.find? (·.name == mvSeqFull b) = some sq → SeqFrom sq.next (pm.map (·.2)) →
      sq.next + pm.length ≤ 9223372036854775808 → s0.nextCid + k + 2 * pm.length ≤ 1000000000 →
      MvView (latestView s0.w s0.xid) rows tbl → Fresh s0.xid (s0.nextCid + k) rows → (tbl.map (·.2.seq)).Nodup →
      (∀ q ∈ tbl, (q.2.seq : Int) < sq.next) → MvAll sq.next rows →
      ((pm.map (fun x => mvSrcRow x.1 ln)).foldlM (fun acc sr =>
          insertRowStep (p + 12) env (mvFull b) "moves" "" mvInsertCols none mvReturning sr acc) acc).exec
          ((((s0.withSeqs seqs).bump k).withTable ((mvT b trigs nr).withRows rows)).addQ Q) =
        (.ok (insAcc acc (insNew ln tbl (pm.map (·.2)))),
         ((((s0.withSeqs (seqsRun (mvSeqFull b) sq.next seqs (pm.map (·.2)))).bump (k + 2 * pm.length)).withTable
            ((mvT b trigs (nr + pm.length)).withRows (insRows s0.xid s0.cid ln nr rows tbl (pm.map (·.2))))).addQ
            (Q ++ (insNew ln tbl (pm.map (·.2))).map (pendingOf trA.fname (mvFull b) ln)))) := by
  intro pm
  induction pm with
  | nil =>
    intro _ nr rows tbl seqs k acc Q sq _ _ _ _ _ _ _ _ _
    simp [insAcc, insNew, seqsRun, insRows]
  | cons x pm' ih =>
    intro hlits nr rows tbl seqs k acc Q sq hsq hsf hrange hnc hview hfresh hnd htb hall
    obtain ⟨r, m⟩ := x
    have hlit : MvLit s0.w.types r m := hlits (r, m) (by simp)
    simp only [List.map_cons] at hsf ⊢
    obtain ⟨hseq, hsf'⟩ := hsf
    simp only [List.length_cons] at hrange hnc ⊢
    -- the state of this step
    have hsS : TxState ((((s0.withSeqs seqs).bump k).withTable ((mvT b trigs nr).withRows rows)).addQ Q) :=
      ((((hs0.withSeqs seqs).bump k).withTable _).addQ Q)
    have hT : ((((s0.withSeqs seqs).bump k).withTable ((mvT b trigs nr).withRows rows)).addQ Q).w.table? (mvFull b) =
        some ((mvT b trigs nr).withRows rows) := by
      have := withTable_table? ((s0.withSeqs seqs).bump k) T0 ((mvT b trigs nr).withRows rows) hT0
      exact this
    have hviewN : MvView { xid := s0.xid, cid := s0.nextCid + k, snap := s0.snap } rows tbl := by
      have h1 : TxState ((s0.bump k)) := hs0.bump k
      have := MvView.nested (s := s0.bump k) h1 (by simp; omega) (by simpa using hview) (by simpa using hfresh)
      simpa using this
    have hstep := exec_insertRowStep_moves p env b ln trigs B1 B2 trB A1 A2 trA item wher dflt_ fB
      ((((s0.withSeqs seqs).bump k).withTable ((mvT b trigs nr).withRows rows)).addQ Q) hsS (by simp; omega)
      (by simpa using hst) nr rows hT sq (by simpa using hsq) r m (by simpa using hlit) hseq (by omega) tbl (by simpa using hviewN)
      hnd hall acc
    simp only [addQ_w, withTable_seqs, bump_w, withSeqs_seqs, addQ_xid, withTable_xid, bump_xid, withSeqs_xid, addQ_cid, withTable_cid,
      bump_cid, withSeqs_cid] at hstep
    simp only [exec_foldlM_cons, hstep]
    -- normal form of the state
    have hnorm : (((((((s0.withSeqs seqs).bump k).withTable ((mvT b trigs nr).withRows rows)).addQ Q).withSeqs
          (seqsSet (mvSeqFull b) sq.next seqs)).bump 2).withTable
          ((mvT b trigs (nr + 1)).withRows (newVer s0.xid s0.cid nr (mvVals ln (withPcev tbl ln m)) :: rows))).addQ
          [{ fname := trA.fname, table := mvFull b, new := some (mvVals ln (withPcev tbl ln m)), old := none }] =
        ((((s0.withSeqs (seqsSet (mvSeqFull b) sq.next seqs)).bump (k + 2)).withTable
          ((mvT b trigs (nr + 1)).withRows (newVer s0.xid s0.cid nr (mvVals ln (withPcev tbl ln m)) :: rows))).addQ
          (Q ++ [pendingOf trA.fname (mvFull b) ln (withPcev tbl ln m)])) := by
      rw [withSeqs_comm_addQ, withSeqs_comm_table, withSeqs_comm_bump, withSeqs_withSeqs, bump_comm_addQ, bump_comm_table, bump_bump,
        addQ_withTable, withTable_withTable _ _ _ (by rfl), addQ_addQ]
      rfl
    rw [hnorm]
    have hnext : ({ sq with last := sq.next, called := true } : Seq).next = sq.next + 1 := by simp [Seq.next]
    have hm'seq : (withPcev tbl ln m).seq = m.seq := rfl
    have hx0 := hs0.xid
    have hc0 := hs0.cid
    have hih := ih (fun y hy => hlits y (by simp [hy])) (nr + 1) (newVer s0.xid s0.cid nr (mvVals ln (withPcev tbl ln m)) :: rows)
      ((ln, withPcev tbl ln m) :: tbl) (seqsSet (mvSeqFull b) sq.next seqs) (k + 2)
      (DmlAcc.mk ["post_commit_volumes", "post_commit_effective_volumes"] (acc.retRows ++ [retOf (withPcev tbl ln m)]) (acc.affected + 1))
      (Q ++ [pendingOf trA.fname (mvFull b) ln (withPcev tbl ln m)]) { sq with last := sq.next, called := true }
      (find_seqsSet _ _ seqs sq hsq) (by rw [hnext]; exact hsf') (by rw [hnext]; omega) (by omega)
      (by
        unfold MvView at hview ⊢
        rw [List.filter_cons, newVer_visible s0.w s0.xid s0.cid nr _ hx0 hc0]
        simp only [if_true, List.map_cons, hview]
        rfl)
      (by
        intro q hq
        rcases List.mem_cons.mp hq with rfl | hq
        · exact ⟨fun _ => by simp [newVer]; omega, fun e => by simp [newVer] at e; exact absurd e.symm hx0⟩
        · have := hfresh q hq
          exact ⟨fun e => by have := this.1 e; omega, fun e => by have := this.2 e; omega⟩)
      (by
        simp only [List.map_cons, List.nodup_cons, hm'seq]
        refine ⟨?_, hnd⟩
        intro hmem
        obtain ⟨q, hq, he⟩ := List.mem_map.mp hmem
        have := htb q hq
        omega)
      (by
        rw [hnext]
        intro q hq
        rcases List.mem_cons.mp hq with rfl | hq
        · simp only [hm'seq]; omega
        · have := htb q hq; omega)
      (by
        rw [hnext]
        intro q hq
        rcases List.mem_cons.mp hq with rfl | hq
        · exact ⟨ln, withPcev tbl ln m, rfl, by simp only [hm'seq]; omega⟩
        · obtain ⟨l', m', hv, hlt⟩ := hall q hq
          exact ⟨l', m', hv, by omega⟩)
    rw [hnext] at hih
    have e1 : k + 2 + 2 * pm'.length = k + 2 * (pm'.length + 1) := by omega
    have e2 : nr + 1 + pm'.length = nr + (pm'.length + 1) := by omega
    rw [e1, e2] at hih
    refine hih.trans ?_
    simp [insAcc, insNew, seqsRun, insRows, retOf, List.append_assoc]

end Ledger.Sql
