import Ledger.Wrap.Bulk
import Mathlib.Data.List.Sort

/-!
Helper lemmas about the bulker model (`Ledger/Wrap/Bulk.lean`) for C32.
-/
namespace Ledger.Wrap.Bulk
open List

variable {El S R E : Type} (tag : Nat → Nat) (apply : El → S → Except E R × S)

theorem runSeq_nil (cof : Bool) (i : Nat) (he : Bool) (s : S) :
    runSeq tag apply cof [] i he s = ([], he, s) := rfl

theorem runSeq_cons (cof : Bool) (e : El) (es : List El) (i : Nat) (he : Bool) (s : S) :
    runSeq tag apply cof (e :: es) i he s =
      if he && !cof then
        (mkRes tag i .skipped :: (runSeq tag apply cof es (i + 1) he s).1,
         (runSeq tag apply cof es (i + 1) he s).2.1, (runSeq tag apply cof es (i + 1) he s).2.2)
      else
        (mkRes tag i (outcomeOf apply e s).1 ::
            (runSeq tag apply cof es (i + 1) (he || (outcomeOf apply e s).1.isErr) (outcomeOf apply e s).2).1,
         (runSeq tag apply cof es (i + 1) (he || (outcomeOf apply e s).1.isErr) (outcomeOf apply e s).2).2.1,
         (runSeq tag apply cof es (i + 1) (he || (outcomeOf apply e s).1.isErr) (outcomeOf apply e s).2).2.2) := by
  rw [runSeq]

theorem length_runSeq (cof : Bool) (es : List El) (i : Nat) (he : Bool) (s : S) :
    (runSeq tag apply cof es i he s).1.length = es.length := by
  induction es generalizing i he s with
  | nil => rfl
  | cons e es ih =>
    rw [runSeq_cons]
    split <;> simp [ih]

theorem runSeq_append (cof : Bool) (es1 es2 : List El) (i : Nat) (he : Bool) (s : S) :
    runSeq tag apply cof (es1 ++ es2) i he s =
      ((runSeq tag apply cof es1 i he s).1 ++
          (runSeq tag apply cof es2 (i + es1.length) (runSeq tag apply cof es1 i he s).2.1
            (runSeq tag apply cof es1 i he s).2.2).1,
       (runSeq tag apply cof es2 (i + es1.length) (runSeq tag apply cof es1 i he s).2.1
            (runSeq tag apply cof es1 i he s).2.2).2.1,
       (runSeq tag apply cof es2 (i + es1.length) (runSeq tag apply cof es1 i he s).2.1
            (runSeq tag apply cof es1 i he s).2.2).2.2) := by
  induction es1 generalizing i he s with
  | nil => simp [runSeq_nil]
  | cons e es ih =>
    have h1 : i + (e :: es).length = i + 1 + es.length := by simp; omega
    rw [List.cons_append, runSeq_cons, runSeq_cons, h1]
    split
    · rw [ih]; simp
    · rw [ih]; simp

/-- Once an error has been seen and `continueOnFailure` is off, nothing more is
    applied: every remaining element is skipped and the state is unchanged. -/
theorem runSeq_after_error (es : List El) (i : Nat) (s : S) :
    (runSeq tag apply false es i true s).2 = (true, s) ∧
    ∀ r ∈ (runSeq tag apply false es i true s).1, r.out = .skipped := by
  induction es generalizing i with
  | nil => simp [runSeq_nil]
  | cons e es ih =>
    rw [runSeq_cons]
    simp only [Bool.not_false, Bool.and_self, if_true]
    refine ⟨(ih (i + 1)).1, ?_⟩
    intro r hr
    simp only [List.mem_cons] at hr
    rcases hr with rfl | hr
    · rfl
    · exact (ih (i + 1)).2 r hr

/-- With `continueOnFailure` every element is applied, in order. -/
theorem runSeq_cof_state (es : List El) (i : Nat) (he : Bool) (s : S) :
    (runSeq tag apply true es i he s).2.2 = es.foldl (fun s e => (apply e s).2) s ∧
    ∀ r ∈ (runSeq tag apply true es i he s).1, r.out ≠ .skipped := by
  induction es generalizing i he s with
  | nil => simp [runSeq_nil]
  | cons e es ih =>
    rw [runSeq_cons]
    simp only [Bool.not_true, Bool.and_false, Bool.false_eq_true, if_false, List.foldl_cons]
    have hs : (outcomeOf apply e s).2 = (apply e s).2 := by
      unfold outcomeOf; split <;> simp_all
    have ho : (outcomeOf apply e s).1 ≠ .skipped := by
      unfold outcomeOf; split <;> simp
    refine ⟨by rw [(ih _ _ _).1, hs], ?_⟩
    intro r hr
    simp only [List.mem_cons] at hr
    rcases hr with rfl | hr
    · exact ho
    · exact (ih _ _ _).2 r hr

theorem outcomeOf_state (e : El) (s : S) : (outcomeOf apply e s).2 = (apply e s).2 := by
  unfold outcomeOf; split <;> simp_all

theorem outcomeOf_ok (e : El) (s : S) (r : R) :
    (outcomeOf apply e s).1 = .ok r ↔ (apply e s).1 = .ok r := by
  unfold outcomeOf; split <;> simp_all

theorem outcomeOf_isErr (e : El) (s : S) :
    (outcomeOf apply e s).1.isErr = false ↔ ∃ r, (apply e s).1 = .ok r := by
  unfold outcomeOf; split <;> simp_all [Outcome.isErr]

/-- If a run that started without error ends without error, every element was
    applied successfully, in order. -/
theorem runSeq_no_error (cof : Bool) (es : List El) (i : Nat) (s : S)
    (h : (runSeq tag apply cof es i false s).2.1 = false) :
    (runSeq tag apply cof es i false s).2.2 = es.foldl (fun s e => (apply e s).2) s ∧
    ∀ r ∈ (runSeq tag apply cof es i false s).1, r.out.isOk = true := by
  induction es generalizing i s with
  | nil => simp [runSeq_nil]
  | cons e es ih =>
    rw [runSeq_cons] at h ⊢
    simp only [Bool.false_and, Bool.false_eq_true, if_false, Bool.false_or, List.foldl_cons] at h ⊢
    cases hE : (outcomeOf apply e s).1.isErr with
    | true =>
      -- an error was recorded: `hasError` can never go back to false
      exfalso
      rw [hE] at h
      have : ∀ (es : List El) (i : Nat) (s : S), (runSeq tag apply cof es i true s).2.1 = true := by
        intro es
        induction es with
        | nil => intro i s; rfl
        | cons e es ih2 =>
          intro i s
          rw [runSeq_cons]
          split <;> simp [ih2]
      rw [this] at h
      exact Bool.noConfusion h
    | false =>
      rw [hE] at h
      have := ih (i + 1) (outcomeOf apply e s).2 h
      refine ⟨by rw [this.1, outcomeOf_state], ?_⟩
      intro r hr
      simp only [List.mem_cons] at hr
      rcases hr with rfl | hr
      · obtain ⟨r', hr'⟩ := (outcomeOf_isErr apply e s).1 hE
        have := (outcomeOf_ok apply e s r').2 hr'
        simp [mkRes, this, Outcome.isOk]
      · exact this.2 r hr


/-- The result at the position of an element, in terms of the run of the elements before it. -/
theorem seq_result_split (cof : Bool) (es1 : List El) (e : El) (es2 : List El) (s : S) :
    (runSeq tag apply cof (es1 ++ e :: es2) 0 false s).1[es1.length]? =
      some (mkRes tag es1.length
        (if (runSeq tag apply cof es1 0 false s).2.1 && !cof then .skipped
         else (outcomeOf apply e (runSeq tag apply cof es1 0 false s).2.2).1)) := by
  rw [runSeq_append]
  simp only []
  rw [List.getElem?_append_right (by rw [length_runSeq]), length_runSeq,
    Nat.sub_self, runSeq_cons]
  split <;> simp

theorem seq_result_at (cof : Bool) (els : List El) (s : S) (k : Nat) (hk : k < els.length) :
    (runSeq tag apply cof els 0 false s).1[k]? =
      some (mkRes tag k
        (if (runSeq tag apply cof (els.take k) 0 false s).2.1 && !cof then .skipped
         else (outcomeOf apply els[k] (runSeq tag apply cof (els.take k) 0 false s).2.2).1)) := by
  have h := seq_result_split tag apply cof (els.take k) els[k] (els.drop (k + 1)) s
  rw [← List.drop_eq_getElem_cons hk, List.take_append_drop, List.length_take,
    Nat.min_eq_left (Nat.le_of_lt hk)] at h
  exact h

/-- Sequential run under a transactional controller with an open transaction:
    the durable state is untouched, the working copy evolves as a plain run. -/
theorem runSeq_txApply_some (cof : Bool) (es : List El) (i : Nat) (he : Bool) (d w : S) :
    runSeq tag (txApply apply) cof es i he ⟨d, some w⟩ =
      ((runSeq tag apply cof es i he w).1, (runSeq tag apply cof es i he w).2.1,
       ⟨d, some (runSeq tag apply cof es i he w).2.2⟩) := by
  induction es generalizing i he w with
  | nil => rfl
  | cons e es ih =>
    have ho : outcomeOf (txApply apply) e ⟨d, some w⟩ =
        ((outcomeOf apply e w).1, ⟨d, some (outcomeOf apply e w).2⟩) := by
      rcases h : apply e w with ⟨r | x, s'⟩ <;> simp [outcomeOf, txApply, h]
    rw [runSeq_cons, runSeq_cons]
    split
    · rw [ih]
    · rw [ho]; simp only []; rw [ih]


theorem insertByID_perm (x : BRes R E) (l : List (BRes R E)) : insertByID x l ~ x :: l := by
  induction l with
  | nil => exact Perm.refl _
  | cons y ys ih =>
    unfold insertByID
    split
    · exact Perm.refl _
    · exact (Perm.cons y ih).trans (Perm.swap x y ys)

theorem sortByID_perm (l : List (BRes R E)) : sortByID l ~ l := by
  induction l with
  | nil => exact Perm.refl _
  | cons x xs ih =>
    unfold sortByID
    exact (insertByID_perm x _).trans (Perm.cons x ih)

theorem insertByID_sorted (x : BRes R E) (l : List (BRes R E))
    (h : l.Pairwise (fun a b => a.elementID ≤ b.elementID)) :
    (insertByID x l).Pairwise (fun a b => a.elementID ≤ b.elementID) := by
  induction l with
  | nil => simp [insertByID]
  | cons y ys ih =>
    unfold insertByID
    rw [pairwise_cons] at h
    split
    · rename_i hxy
      refine pairwise_cons.2 ⟨?_, pairwise_cons.2 h⟩
      intro a ha
      rcases mem_cons.1 ha with rfl | ha
      · exact hxy
      · exact Nat.le_trans hxy (h.1 a ha)
    · rename_i hxy
      refine pairwise_cons.2 ⟨?_, ih h.2⟩
      intro a ha
      rcases mem_cons.1 ((insertByID_perm x ys).mem_iff.1 ha) with rfl | ha
      · omega
      · exact h.1 a ha

theorem sortByID_sorted (l : List (BRes R E)) :
    (sortByID l).Pairwise (fun a b => a.elementID ≤ b.elementID) := by
  induction l with
  | nil => simp [sortByID]
  | cons x xs ih => unfold sortByID; exact insertByID_sorted x _ ih

/-- The handler's sort leaves an already ordered list unchanged (it is stable). -/
theorem sortByID_eq_self (l : List (BRes R E))
    (h : l.Pairwise (fun a b => a.elementID ≤ b.elementID)) : sortByID l = l := by
  induction l with
  | nil => rfl
  | cons x xs ih =>
    rw [pairwise_cons] at h
    unfold sortByID
    rw [ih h.2]
    cases xs with
    | nil => rfl
    | cons y ys =>
      unfold insertByID
      rw [if_pos (h.1 y (mem_cons_self ..))]

theorem perm_range_of_length_mem (order : List Nat) (n : Nat) (hl : order.length = n)
    (hm : ∀ i, i < n → i ∈ order) : order ~ List.range n := by
  have hsub : List.range n <+~ order :=
    subperm_of_subset nodup_range (fun i hi => hm i (mem_range.1 hi))
  exact (hsub.perm_of_length_le (by simp [hl])).symm

/-- With every result tagged by its element index, the handler's sort puts the
    result of element `i` at position `i`, whatever the completion order. -/
theorem sortByID_tagged (out : Nat → Outcome R E) (order : List Nat) (n : Nat)
    (h : order ~ List.range n) :
    sortByID (order.map (fun i => mkRes (fun i => i) i (out i))) =
      (List.range n).map (fun i => mkRes (fun i => i) i (out i)) := by
  let f : Nat → BRes R E := fun i => mkRes (fun i => i) i (out i)
  have hf : ∀ i, (f i).elementID = i := fun i => rfl
  have hp := sortByID_perm (order.map f)
  have hkeys : (sortByID (order.map f)).map (·.elementID) = List.range n := by
    apply Perm.eq_of_pairwise' (r := (· ≤ ·))
    · exact (pairwise_map.2 (sortByID_sorted _))
    · exact pairwise_le_range
    · refine (hp.map _).trans ?_
      rw [map_map]
      have : ((fun x : BRes R E => x.elementID) ∘ f) = id := by funext i; exact hf i
      rw [this, map_id]
      exact h
  have hmem : ∀ r ∈ sortByID (order.map f), f r.elementID = r := by
    intro r hr
    obtain ⟨i, _, rfl⟩ := mem_map.1 (hp.mem_iff.1 hr)
    rw [hf]
  calc sortByID (order.map f)
      = (sortByID (order.map f)).map (fun r => f r.elementID) := by
        conv_lhs => rw [← map_id (sortByID (order.map f))]
        exact map_congr_left (fun r hr => (hmem r hr).symm)
    _ = ((sortByID (order.map f)).map (·.elementID)).map f := by rw [map_map]; rfl
    _ = (List.range n).map f := by rw [hkeys]

/-- What `applyInOrder` records for an index is the outcome of that element in
    the state reached by the indices applied before it. -/
theorem applyInOrder_mem (els : List El) (is : List Nat) (s : S) (i : Nat) (o : Outcome R E)
    (h : (i, o) ∈ (applyInOrder apply els is s).1) :
    ∃ e pre post, els[i]? = some e ∧ is = pre ++ i :: post ∧
      o = (outcomeOf apply e (applyInOrder apply els pre s).2).1 := by
  induction is generalizing s with
  | nil => simp [applyInOrder] at h
  | cons j js ih =>
    unfold applyInOrder at h
    split at h
    · rename_i hj
      obtain ⟨e, pre, post, he, hsplit, ho⟩ := ih s h
      refine ⟨e, j :: pre, post, he, by rw [hsplit]; rfl, ?_⟩
      rw [ho]
      conv_rhs => unfold applyInOrder
      simp [hj]
    · rename_i e' hj
      simp only [mem_cons, Prod.mk.injEq] at h
      rcases h with ⟨rfl, rfl⟩ | h
      · exact ⟨e', [], js, hj, rfl, by simp [applyInOrder]⟩
      · obtain ⟨e, pre, post, he, hsplit, ho⟩ := ih _ h
        refine ⟨e, j :: pre, post, he, by rw [hsplit]; rfl, ?_⟩
        rw [ho]
        conv_rhs => unfold applyInOrder
        simp [hj]


/-- `ElementID`s of a sequential run: `tag i, tag (i+1), …` in channel order. -/
theorem runSeq_ids (cof : Bool) (es : List El) (i : Nat) (he : Bool) (s : S) :
    (runSeq tag apply cof es i he s).1.map (·.elementID) = (List.range' i es.length).map tag := by
  induction es generalizing i he s with
  | nil => rfl
  | cons e es ih =>
    rw [runSeq_cons]
    split <;> simp [ih, mkRes, List.range'_succ]

/-- For a monotone tagging the channel order of a sequential run is already sorted. -/
theorem runSeq_sorted (hmono : ∀ i j, i ≤ j → tag i ≤ tag j) (cof : Bool) (es : List El) (i : Nat)
    (he : Bool) (s : S) :
    (runSeq tag apply cof es i he s).1.Pairwise (fun a b => a.elementID ≤ b.elementID) := by
  have h := runSeq_ids tag apply cof es i he s
  have : ((List.range' i es.length).map tag).Pairwise (· ≤ ·) := by
    apply pairwise_map.2
    exact (pairwise_lt_range' (s := i) (n := es.length)).imp (fun hab => hmono _ _ (Nat.le_of_lt hab))
  rw [← h] at this
  exact pairwise_map.1 this

theorem schedOk_order_perm [DecidableEq R] [DecidableEq E] (cof : Bool) (els : List El) (sc : Sched)
    (s : S) (h : schedOk apply cof els sc s = true) : sc.order ~ List.range els.length := by
  unfold schedOk at h
  simp only [Bool.and_eq_true, beq_iff_eq, all_eq_true, mem_range, contains_eq_mem,
    decide_eq_true_eq] at h
  exact perm_range_of_length_mem _ _ h.1.1.1.1 h.1.1.1.2

theorem schedOk_cof_applied_perm [DecidableEq R] [DecidableEq E] (els : List El) (sc : Sched)
    (s : S) (h : schedOk apply true els sc s = true) : sc.applied ~ List.range els.length := by
  unfold schedOk at h
  simp only [Bool.and_eq_true, beq_iff_eq, all_eq_true, mem_range, contains_eq_mem,
    decide_eq_true_eq, Bool.not_true, Bool.false_and, Bool.or_false, List.isEmpty_iff,
    filter_eq_nil_iff, Bool.not_eq_true', decide_eq_false_iff_not, Decidable.not_not] at h
  obtain ⟨⟨⟨⟨_, _⟩, hvalid⟩, hnd⟩, hall⟩ := h
  have hsub : sc.applied <+~ List.range els.length :=
    subperm_of_subset hnd (fun i hi => mem_range.2 (hvalid i hi))
  have hsub2 : List.range els.length <+~ sc.applied :=
    subperm_of_subset nodup_range (fun i hi => hall i (mem_range.1 hi))
  exact hsub.antisymm hsub2 |>.symm |>.symm

end Ledger.Wrap.Bulk
