import Ledger.Proofs.CtrlAcc
import Ledger.Ctrl.Spec

/-!
Success semantics of programs on the tables (`eval`): what a program that ran to
completion did, without faults and traces; every successful `run` is an `eval`.
-/
namespace Ledger.Ctrl
open Ledger.Base Ledger.Core

def eval {α : Type} (now : Time) : Prog α → Db → Seqs → Option (α × Db × Seqs)
  | .pure a, d, sq => some (a, d, sq)
  | .fail _, _, _ => none
  | .call c k, d, sq =>
    match exec now c d sq with
    | (_, .error _) => none
    | (sq', .ok (r, d')) => eval now (k r) d' sq'

theorem run_ok_eval {α : Type} (now : Time) (hn : String) (f : Faults) (p : Prog α) (st st' : RunSt) (a : α)
    (h : run now hn f p st = (.ok a, st')) : eval now p st.db st.seq = some (a, st'.db, st'.seq) := by
  induction p generalizing st with
  | pure x => simp only [run, Prod.mk.injEq, Except.ok.injEq] at h; obtain ⟨rfl, rfl⟩ := h; rfl
  | fail e => simp only [run, Prod.mk.injEq] at h; exact nomatch h.1
  | call c k ih =>
    simp only [run] at h
    split at h
    · simp only [Prod.mk.injEq] at h; exact nomatch h.1
    · split at h
      · simp only [Prod.mk.injEq] at h; exact nomatch h.1
      · rename_i sq r d heq
        simp only [eval, heq]
        exact ih r _ h

theorem eval_bind {α β : Type} (now : Time) (p : Prog α) (g : α → Prog β) (d : Db) (sq : Seqs) :
    eval now (Prog.bind p g) d sq =
      match eval now p d sq with
      | none => none
      | some (a, d', sq') => eval now (g a) d' sq' := by
  induction p generalizing d sq with
  | pure a => rfl
  | fail e => rfl
  | call c k ih =>
    simp only [Prog.bind, eval]
    split
    · rfl
    · exact ih _ _ _

/-- Inversion of `eval_bind`. -/
theorem eval_bind_some {α β : Type} (now : Time) (p : Prog α) (g : α → Prog β) (d : Db) (sq : Seqs)
    (x : β × Db × Seqs) (h : eval now (Prog.bind p g) d sq = some x) :
    ∃ a d' sq', eval now p d sq = some (a, d', sq') ∧ eval now (g a) d' sq' = some x := by
  rw [eval_bind] at h
  split at h
  · cases h
  · rename_i a d' sq' heq
    exact ⟨a, d', sq', heq, h⟩

/-- The calls the Numscript runtime makes: balance locks and account reads. -/
def Call.LockOnly : Call → Prop
  | .getBalances _ => True
  | .getAccount _ => True
  | _ => False

/-- Such a program leaves schemas, accounts, transactions and logs alone. -/
theorem eval_lockOnly {α : Type} (now : Time) (p : Prog α) (hp : p.All Call.LockOnly) (d : Db) (sq : Seqs)
    (x : α × Db × Seqs) (h : eval now p d sq = some x) :
    x.2.1.schemas = d.schemas ∧ x.2.1.accounts = d.accounts ∧ x.2.1.txs = d.txs ∧ x.2.1.logs = d.logs := by
  induction hp generalizing d sq with
  | pure a => simp only [eval, Option.some.injEq] at h; subst h; exact ⟨rfl, rfl, rfl, rfl⟩
  | fail e => simp only [eval] at h; cases h
  | call c k hc _ ih =>
    cases c with
    | getBalances q =>
      simp only [eval, exec, getBalances] at h
      exact ih _ { d with volumes := List.foldl lockZero d.volumes q } _ h
    | getAccount a =>
      simp only [eval, exec] at h
      exact ih _ _ _ h
    | _ => exact hc.elim

theorem replayCalls_lockOnly (cs : List MCall) : (replayCalls cs).All Call.LockOnly := by
  induction cs with
  | nil => exact .pure ()
  | cons c r ih =>
    cases c with
    | balances q => exact .call _ _ trivial (fun _ => ih)
    | account a => exact .call _ _ trivial (fun _ => ih)

theorem postingsMachine_lockOnly (ps : List Posting) (force : Bool) : (postingsMachine ps force).All Call.LockOnly := by
  unfold postingsMachine
  simp only
  split
  · exact .pure _
  · refine .call _ _ trivial (fun bal => ?_)
    split
    · exact .pure _
    · exact .fail _

theorem scriptMachine_lockOnly (obs : List MachineObs) (n : Nat) : (scriptMachine obs n).All Call.LockOnly := by
  unfold scriptMachine
  split
  · exact .fail _
  · refine Prog.All.bind (replayCalls_lockOnly _) (fun _ => ?_)
    split
    · exact .fail _
    · exact .pure _

end Ledger.Ctrl
