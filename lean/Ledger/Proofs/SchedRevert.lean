import Ledger.Proofs.SchedBasic

/-!
# C15: a transaction is reverted at most once, under any schedule

Ghost `World.revWins` records every revert UPDATE that answered `modified = true`
(live until its session commits or rolls back). Invariant: per (ledger, transaction)
at most one win exists, live or committed.
-/
namespace Ledger.Sched

/-- programs that only issue the revert UPDATE WITH its `reverted_at IS NULL` condition -/
def Guarded : Prog → Prop
  | .done _ => True
  | .stmt st k => (∀ l t, st ≠ .revertUpdate l t false) ∧ ∀ o, Guarded (k o)

def winsOf (w : World) (l tx : Nat) : List RevWin := w.revWins.filter (fun e => e.l = l && e.tx = tx)

structure RevInv (w : World) : Prop where
  /-- at most one win per transaction -/
  once : ∀ l tx, (winsOf w l tx).length ≤ 1
  /-- a live win owns the row with the reverted version -/
  live : ∀ e ∈ w.revWins, e.com = false → (w.rev e.l e.tx).own = some e.by_ ∧ (w.rev e.l e.tx).pen = some true
  /-- a committed win: the committed version is reverted and nobody owns the row -/
  done_ : ∀ e ∈ w.revWins, e.com = true → (w.rev e.l e.tx).com = some true ∧ (w.rev e.l e.tx).own = none
  /-- the reverted transaction exists -/
  tx_ : ∀ e ∈ w.revWins, ∃ t ∈ w.txs, t.l = e.l ∧ t.id = e.tx ∧ (t.com = true ∨ (e.com = false ∧ t.by_ = e.by_))

theorem winsOf_map (w : World) (f : RevWin → RevWin) (hf : ∀ e, (f e).l = e.l ∧ (f e).tx = e.tx) (l tx : Nat) :
    ((w.revWins.map f).filter (fun e => e.l = l && e.tx = tx)).length = (winsOf w l tx).length := by
  unfold winsOf
  induction w.revWins with
  | nil => rfl
  | cons a r ih =>
    simp only [List.map_cons, List.filter_cons, (hf a).1, (hf a).2]
    split <;> simp [ih]

theorem revInv_commit (w : World) (s : Sid) (h : RevInv w) : RevInv (w.commitTx s) := by
  constructor
  · intro l tx
    have := winsOf_map w (fun e => if e.by_ = s then { e with com := true } else e)
      (by intro e; split <;> exact ⟨rfl, rfl⟩) l tx
    unfold winsOf at *
    simp only [World.commitTx]
    rw [this]
    exact h.once l tx
  · intro e he hc
    simp only [World.commitTx, List.mem_map] at he
    obtain ⟨e0, he0, rfl⟩ := he
    by_cases hs : e0.by_ = s
    · simp [hs] at hc
    · simp only [hs, if_false] at hc ⊢
      have := h.live e0 he0 hc
      simp only [World.commitTx]
      rw [Row.commit]
      simp [this.1, hs, this.2]
  · intro e he hc
    simp only [World.commitTx, List.mem_map] at he
    obtain ⟨e0, he0, rfl⟩ := he
    simp only [World.commitTx]
    by_cases hs : e0.by_ = s
    · simp only [hs, if_true] at hc ⊢
      cases hc0 : e0.com with
      | true =>
        have := h.done_ e0 he0 hc0
        simp [Row.commit, this.1, this.2]
      | false =>
        have := h.live e0 he0 hc0
        simp [Row.commit, this.1, hs, Row.latest, this.2]
    · simp only [hs, if_false] at hc ⊢
      have := h.done_ e0 he0 hc
      simp [Row.commit, this.1, this.2]
  · intro e he
    simp only [World.commitTx, List.mem_map] at he
    obtain ⟨e0, he0, rfl⟩ := he
    obtain ⟨t, ht, hl, hid, hcom⟩ := h.tx_ e0 he0
    refine ⟨if t.by_ = s then { t with com := true } else t, ?_, ?_, ?_, ?_⟩
    · simp only [World.commitTx, List.mem_map]; exact ⟨t, ht, rfl⟩
    · split <;> split <;> exact hl
    · split <;> split <;> exact hid
    · by_cases hts : t.by_ = s
      · simp [hts]
      · rcases hcom with hc | ⟨hc, hby⟩
        · left; simp [hts, hc]
        · have hes : ¬ e0.by_ = s := by rw [← hby]; exact hts
          right; simp [hts, hes, hc, hby]

theorem revInv_undo (w : World) (s : Sid) (b : Bool) (h : RevInv w) : RevInv (w.undo s b) := by
  constructor
  · intro l tx
    unfold winsOf
    simp only [World.undo]
    have := h.once l tx
    unfold winsOf at this
    refine Nat.le_trans ?_ this
    exact (List.Sublist.filter _ List.filter_sublist).length_le
  · intro e he hc
    simp only [World.undo, List.mem_filter] at he
    have := h.live e he.1 hc
    have hne : e.by_ ≠ s := by
      intro hs; have := he.2; simp [hc, hs] at this
    simp only [World.undo]
    simp [Row.abort, this.1, hne, this.2]
  · intro e he hc
    simp only [World.undo, List.mem_filter] at he
    have := h.done_ e he.1 hc
    simp only [World.undo]
    simp [Row.abort, this.1, this.2]
  · intro e he
    simp only [World.undo, List.mem_filter] at he
    obtain ⟨t, ht, hl, hid, hcom⟩ := h.tx_ e he.1
    refine ⟨t, ?_, hl, hid, hcom⟩
    simp only [World.undo, List.mem_filter]
    refine ⟨ht, ?_⟩
    rcases hcom with hc | ⟨hc, hby⟩
    · simp [hc]
    · have := he.2
      simp only [hc, Bool.false_or, decide_eq_true_eq] at this
      simp [hby, this]

theorem revInv_sess (w : World) (s : Sid) (f) (h : RevInv w) : RevInv (w.setSess s f) :=
  ⟨h.once, h.live, h.done_, h.tx_⟩

theorem revInv_clear (w : World) (s : Sid) (h : RevInv w) : RevInv (w.clearWaiters s) :=
  ⟨h.once, h.live, h.done_, h.tx_⟩

theorem revInv_rollback (w : World) (s : Sid) (h : RevInv w) : RevInv (w.rollbackTx s) := by
  unfold World.rollbackTx
  exact revInv_sess _ _ _ (revInv_clear _ _ (revInv_undo _ _ _ h))

theorem revInv_fail (w : World) (s : Sid) (h : RevInv w) : RevInv (w.failTx s) := by
  unfold World.failTx
  simp only
  split
  · exact revInv_sess _ _ _ (revInv_clear _ _ (revInv_undo _ _ _ h))
  · exact revInv_sess _ _ _ h

theorem revInv_of_frame (w w' : World) (h : RevInv w)
    (h1 : w'.rev = w.rev) (h2 : w'.revWins = w.revWins) (h3 : w'.txs = w.txs) : RevInv w' := by
  constructor
  · intro l tx; unfold winsOf; rw [h2]; exact h.once l tx
  · intro e he hc; rw [h2] at he; rw [h1]; exact h.live e he hc
  · intro e he hc; rw [h2] at he; rw [h1]; exact h.done_ e he hc
  · intro e he; rw [h2] at he; rw [h3]; exact h.tx_ e he

/-- statements other than the revert UPDATE and InsertTransaction leave the revert rows, the wins and the
    transactions alone -/
theorem exec_frame_rev (w : World) (s : Sid) (st : Stmt) (w' : World)
    (hst : (∀ l t g, st ≠ .revertUpdate l t g) ∧ (∀ l r i, st ≠ .insertTx l r i))
    (he : (∃ o, exec w s st = .done w' o) ∨ (∃ e, exec w s st = .failed w' e)) :
    w'.rev = w.rev ∧ w'.revWins = w.revWins ∧ w'.txs = w.txs := by
  cases st with
  | revertUpdate l t g => exact absurd rfl (hst.1 l t g)
  | insertTx l r i => exact absurd rfl (hst.2 l r i)
  | insertLog l k hh sy i t =>
    simp only [exec] at he
    have := insLog_frame he
    exact ⟨this.2.2.2.2.2.2.2.1, this.2.2.2.2.2.2.1, this.2.2.2.2.1⟩
  | getBalances ps =>
    rcases he with ⟨o, he⟩ | ⟨e, he⟩ <;> (simp only [exec] at he; unfold getBal at he; repeat' split at he) <;>
      all_goals first | (cases he; done) | (cases he; exact ⟨rfl, rfl, rfl⟩)
  | updateVolumes ds =>
    rcases he with ⟨o, he⟩ | ⟨e, he⟩ <;> (simp only [exec] at he; unfold updVol at he; repeat' split at he) <;>
      all_goals first | (cases he; done) | (cases he; exact ⟨rfl, rfl, rfl⟩)
  | _ =>
    rcases he with ⟨o, he⟩ | ⟨e, he⟩ <;> (simp only [exec] at he; repeat' split at he) <;>
      all_goals first | (cases he; done) | (cases he; exact ⟨rfl, rfl, rfl⟩)

/-- no win exists for a transaction whose guarded revert UPDATE is about to succeed -/
theorem no_win_when_unreverted (w : World) (s : Sid) (l tx : Nat) (h : RevInv w)
    (hcom : (w.rev l tx).com ≠ some true) (hheld : (w.rev l tx).heldByOther s = none)
    (hlat : (w.rev l tx).latest = some false) :
    ∀ e ∈ w.revWins, ¬ (e.l = l ∧ e.tx = tx) := by
  intro e he ⟨hl, ht⟩
  cases hc : e.com with
  | true =>
    have := (h.done_ e he hc).1
    rw [hl, ht] at this
    exact hcom this
  | false =>
    have := h.live e he hc
    rw [hl, ht] at this
    have hlat' : (w.rev l tx).latest = some true := by simp [Row.latest, this.2]
    rw [hlat'] at hlat
    cases hlat

theorem revInv_revertUpdate (w : World) (s : Sid) (l tx : Nat) (w' : World) (o : Out)
    (h : RevInv w) (he : exec w s (.revertUpdate l tx true) = .done w' o) : RevInv w' := by
  simp only [exec] at he
  split at he
  · cases he; exact h
  · rename_i hex
    split at he
    · cases he; exact h
    · rename_i hnc
      split at he
      · cases he
      · rename_i hheld
        split at he
        · rename_i hlat
          have hlat' : (w.rev l tx).latest = some false := by simpa using hlat
          have hcom : (w.rev l tx).com ≠ some true := by simpa using hnc
          have hno := no_win_when_unreverted w s l tx h hcom hheld hlat'
          cases he
          have hother : ∀ e ∈ w.revWins, ¬ ((decide (e.l = l) && decide (e.tx = tx)) = true) := by
            intro e he hc
            simp only [Bool.and_eq_true, decide_eq_true_eq] at hc
            exact hno e he hc
          constructor
          · intro l' tx'
            unfold winsOf
            simp only [List.filter_append]
            by_cases hk : l' = l ∧ tx' = tx
            · obtain ⟨rfl, rfl⟩ := hk
              have : w.revWins.filter (fun e => decide (e.l = l') && decide (e.tx = tx')) = [] := by
                rw [List.filter_eq_nil_iff]
                intro e he
                exact hother e he
              rw [this]
              simp
            · have : ([({ l := l, tx := tx, by_ := s, com := false } : RevWin)].filter (fun e => decide (e.l = l') && decide (e.tx = tx'))) = [] := by
                simp only [List.filter_cons, List.filter_nil]
                split
                · rename_i hc
                  simp only [Bool.and_eq_true, decide_eq_true_eq] at hc
                  exact absurd ⟨hc.1.symm, hc.2.symm⟩ hk
                · rfl
              rw [this, List.append_nil]
              exact h.once l' tx'
          · intro e he hc
            simp only [List.mem_append, List.mem_singleton] at he
            rcases he with he | he
            · have hne := hother e he
              simp only [hne, if_false]
              exact h.live e he hc
            · subst he
              simp
          · intro e he hc
            simp only [List.mem_append, List.mem_singleton] at he
            rcases he with he | he
            · have hne := hother e he
              simp only [hne, if_false]
              exact h.done_ e he hc
            · subst he; cases hc
          · intro e he
            simp only [List.mem_append, List.mem_singleton] at he
            rcases he with he | he
            · exact h.tx_ e he
            · subst he
              have hex' : ∃ x, x ∈ w.txs ∧ x.l = l ∧ x.id = tx ∧ visTx s x = true := by
                simpa using hex
              obtain ⟨t, ht, hl, hid, hv⟩ := hex'
              simp only [visTx, Bool.or_eq_true, decide_eq_true_eq] at hv
              refine ⟨t, ht, hl, hid, ?_⟩
              rcases hv with hc | hb
              · exact Or.inl hc
              · exact Or.inr ⟨rfl, hb⟩
        · cases he; exact h

theorem revInv_insTx (w : World) (s : Sid) (l ref : Nat) (id : Option Nat) (w' : World) (o : Out)
    (h : RevInv w) (he : insTx w s l ref id = .done w' o) : RevInv w' := by
  unfold insTx at he
  dsimp only at he
  cases h1 : w.txs.find? (fun t => decide (t.l = l) && decide (t.id = id.getD (w.txSeq l + 1))) with
  | some t => rw [h1] at he; dsimp only at he; split at he <;> cases he
  | none =>
    rw [h1] at he; dsimp only at he
    cases h2 : (if ref = 0 then none else w.txs.find? (fun t => decide (t.l = l) && decide (t.ref = ref))) with
    | some t => rw [h2] at he; dsimp only at he; split at he <;> cases he
    | none =>
      rw [h2] at he; dsimp only at he
      injection he with hw _
      subst hw
      -- no transaction (l, nid) exists, hence no win refers to it
      have hfresh : ∀ e ∈ w.revWins, ¬ ((decide (e.l = l) && decide (e.tx = id.getD (w.txSeq l + 1))) = true) := by
        intro e he hc
        simp only [Bool.and_eq_true, decide_eq_true_eq] at hc
        obtain ⟨t, ht, hl, hid, _⟩ := h.tx_ e he
        have := List.find?_eq_none.mp h1 t ht
        simp only [Bool.and_eq_true, decide_eq_true_eq, not_and] at this
        exact this (hl.trans hc.1) (hid.trans hc.2)
      constructor
      · exact h.once
      · intro e he hc
        simp only [hfresh e he, if_false]
        exact h.live e he hc
      · intro e he hc
        simp only [hfresh e he, if_false]
        exact h.done_ e he hc
      · intro e he
        obtain ⟨t, ht, hrest⟩ := h.tx_ e he
        exact ⟨t, List.mem_append_left _ ht, hrest⟩

theorem revInv_exec (w : World) (s : Sid) (st : Stmt) (w' : World) (o : Out)
    (hg : ∀ l t, st ≠ .revertUpdate l t false)
    (h : RevInv w) (he : exec w s st = .done w' o) : RevInv w' := by
  by_cases h1 : ∃ l t g, st = .revertUpdate l t g
  · obtain ⟨l, t, g, rfl⟩ := h1
    cases g with
    | true => exact revInv_revertUpdate w s l t w' o h he
    | false => exact absurd rfl (hg l t)
  · by_cases h2 : ∃ l r i, st = .insertTx l r i
    · obtain ⟨l, r, i, rfl⟩ := h2
      simp only [exec] at he
      exact revInv_insTx w s l r i w' o h he
    · have := exec_frame_rev w s st w'
        ⟨fun l t g hc => h1 ⟨l, t, g, hc⟩, fun l r i hc => h2 ⟨l, r, i, hc⟩⟩ (Or.inl ⟨o, he⟩)
      exact revInv_of_frame w w' h this.1 this.2.1 this.2.2

theorem revInv_execF (w : World) (s : Sid) (st : Stmt) (w' : World) (e : Err)
    (h : RevInv w) (he : exec w s st = .failed w' e) : RevInv w' := by
  by_cases h1 : ∃ l t g, st = .revertUpdate l t g
  · obtain ⟨l, t, g, rfl⟩ := h1
    simp only [exec] at he
    repeat' split at he
    all_goals cases he
  · by_cases h2 : ∃ l r i, st = .insertTx l r i
    · obtain ⟨l, r, i, rfl⟩ := h2
      simp only [exec] at he
      unfold insTx at he
      dsimp only at he
      cases h3 : w.txs.find? (fun t => decide (t.l = l) && decide (t.id = i.getD (w.txSeq l + 1))) with
      | some t =>
        rw [h3] at he; dsimp only at he
        split at he
        · cases he
        · cases he; exact revInv_of_frame w _ h rfl rfl rfl
      | none =>
        rw [h3] at he; dsimp only at he
        cases h4 : (if r = 0 then none else w.txs.find? (fun t => decide (t.l = l) && decide (t.ref = r))) with
        | some t =>
          rw [h4] at he; dsimp only at he
          split at he
          · cases he
          · cases he; exact revInv_of_frame w _ h rfl rfl rfl
        | none => rw [h4] at he; cases he
    · have := exec_frame_rev w s st w'
        ⟨fun l t g hc => h1 ⟨l, t, g, hc⟩, fun l r i hc => h2 ⟨l, r, i, hc⟩⟩ (Or.inr ⟨e, he⟩)
      exact revInv_of_frame w w' h this.1 this.2.1 this.2.2

/-- all sessions run guarded programs -/
def AllGuarded (w : World) : Prop := ∀ s, Guarded (w.sess s).prog

theorem revInv_step (w : World) (s : Sid) (hg : AllGuarded w) (h : RevInv w) : RevInv (step w s) := by
  refine step_inv_head RevInv s w h (fun w f h => revInv_sess w s f h) (fun w h => revInv_commit w s h)
    (fun w h => revInv_rollback w s h) (fun w h => revInv_fail w s h) ?_ ?_
  · intro st k w' o hp he
    have := hg s
    rw [hp] at this
    exact revInv_exec w s st w' o this.1 h he
  · intro st k w' e _ he
    exact revInv_execF w s st w' e h he

/-- the other sessions' programs are untouched by a step of `s` -/
def GuardedExcept (s : Sid) (w : World) : Prop := ∀ t, t ≠ s → Guarded (w.sess t).prog

theorem exec_sess_prog (w : World) (s : Sid) (st : Stmt) (w' : World)
    (he : (∃ o, exec w s st = .done w' o) ∨ (∃ e, exec w s st = .failed w' e)) :
    ∀ t, (w'.sess t).prog = (w.sess t).prog := by
  intro t
  cases st with
  | insertTx l r i =>
    rcases he with ⟨o, he⟩ | ⟨e, he⟩ <;> (simp only [exec] at he; unfold insTx at he; dsimp only at he; repeat' split at he) <;>
      all_goals first | (cases he; done) | (cases he; rfl)
  | insertLog l k hh sy i tx =>
    rcases he with ⟨o, he⟩ | ⟨e, he⟩ <;> (simp only [exec] at he; unfold insLog at he; dsimp only at he; repeat' split at he) <;>
      all_goals first | (cases he; done) | (cases he; rfl)
  | getBalances ps =>
    rcases he with ⟨o, he⟩ | ⟨e, he⟩ <;> (simp only [exec] at he; unfold getBal at he; repeat' split at he) <;>
      all_goals first | (cases he; done) | (cases he; rfl)
  | updateVolumes ds =>
    rcases he with ⟨o, he⟩ | ⟨e, he⟩ <;> (simp only [exec] at he; unfold updVol at he; repeat' split at he) <;>
      all_goals first | (cases he; done) | (cases he; rfl)
  | unlockLedgerS l =>
    rcases he with ⟨o, he⟩ | ⟨e, he⟩ <;> simp only [exec] at he
    · cases he
      simp only [World.clearWaiters]
      split <;> rfl
    · cases he
  | _ =>
    rcases he with ⟨o, he⟩ | ⟨e, he⟩ <;> (simp only [exec] at he; repeat' split at he) <;>
      all_goals first | (cases he; done) | (cases he; rfl)

theorem guardedExcept_step (w : World) (s : Sid) (h : GuardedExcept s w) : GuardedExcept s (step w s) := by
  refine step_inv (GuardedExcept s) s ?_ ?_ ?_ ?_ ?_ ?_ w h
  · intro w f h t ht
    simp only [World.setSess, ht, if_false]
    exact h t ht
  · intro w h t ht
    have := h t ht
    simp only [World.commitTx, ht, if_false]
    split <;> exact this
  · intro w h t ht
    have := h t ht
    simp only [World.rollbackTx, World.setSess, World.clearWaiters, World.undo, ht, if_false]
    by_cases hw : (w.sess t).waitsFor = some s <;> simp only [hw, if_true, if_false] <;> exact this
  · intro w h t ht
    have := h t ht
    unfold World.failTx
    simp only
    split
    · simp only [World.setSess, World.clearWaiters, World.undo, ht, if_false]
      by_cases hw : (w.sess t).waitsFor = some s <;> simp only [hw, if_true, if_false] <;> exact this
    · simp only [World.setSess, ht, if_false]; exact this
  · intro w st w' o h he t ht
    rw [exec_sess_prog w s st w' (Or.inl ⟨o, he⟩) t]; exact h t ht
  · intro w st w' e h he t ht
    rw [exec_sess_prog w s st w' (Or.inr ⟨e, he⟩) t]; exact h t ht

/-- after its step, the program of `s` is unchanged (idle / waiting) or the continuation of its head statement -/
theorem step_prog_self (w : World) (s : Sid) :
    ((step w s).sess s).prog = (w.sess s).prog ∨
    ∃ st k, (w.sess s).prog = .stmt st k ∧ ∃ o, ((step w s).sess s).prog = k o := by
  unfold step stepR
  simp only
  split
  · left; rfl
  · rename_i st k heq
    cases st <;> simp only [advance] <;>
      (try split) <;> (try split) <;> (try split) <;> (try dsimp only) <;>
      first
        | (left; simp [World.setSess]; done)
        | (right; refine ⟨_, k, heq, ?_⟩; simp only [World.setSess, if_true]; exact ⟨_, rfl⟩)

theorem allGuarded_step (w : World) (s : Sid) (hg : AllGuarded w) : AllGuarded (step w s) := by
  intro t
  by_cases hts : t = s
  · subst hts
    rcases step_prog_self w t with h | ⟨st, k, hp, o, hk⟩
    · rw [h]; exact hg t
    · rw [hk]
      have := hg t
      rw [hp] at this
      exact this.2 o
  · exact guardedExcept_step w s (fun u hu => hg u) t hts

theorem revInv_run (σ : Schedule) (w : World) (hg : AllGuarded w) (h : RevInv w) : RevInv (run σ w) ∧ AllGuarded (run σ w) := by
  induction σ generalizing w with
  | nil => exact ⟨h, hg⟩
  | cons s σ ih => exact ih (step w s) (allGuarded_step w s hg) (revInv_step w s hg h)

end Ledger.Sched
