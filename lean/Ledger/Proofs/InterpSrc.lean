import Ledger.Proofs.InterpPush

/-!
Sources: the machine's "withdraw everything, `TakeMax`, repay the rest" and the
interpreter's "pull just what is needed, source after source" take the same units.

`src_sim`: for a well-formed source `s`, any amount `amt ≥ 0`, related balances: the
machine's `evalSource` succeeds with a funding `f`, and the interpreter's
`tryTakingUpTo s amt` pushes exactly the first `amt` units of `f` (topped up from the
unbounded fallback account of `s`, if it has one) — which are also the units the machine's
`TakeMax amt` keeps (`takeMaxStep_units`).
-/
namespace Ledger.Interp
open Ledger.Machine

/-! ## Machine: `takeMaxStep` on units -/

theorem takeMaxStep_units {env : Env} {fb : Option Expr} {f : Funding} {c : String} {amt : Int}
    {b : Balances} (hn : partsNonneg f.parts) (hc : f.asset = c) (hamt : 0 ≤ amt)
    (hfb : ∀ e, fb = some e → ∃ w, evalAccount env e = .ok w) :
    ∃ g b2, takeMaxStep env fb f (c, some amt) b = .ok (g, b2) ∧ g.asset = c ∧
      units g.parts = takeExt amt.toNat (units f.parts) (fbOf env fb) := by
  have htot := total_eq_length f.parts hn
  have htm := takeMax_units f.parts hn amt
  cases fb with
  | none =>
    refine ⟨⟨f.asset, (takeMax f.parts amt).1⟩, repay b f.asset (takeMax f.parts amt).2, ?_, hc, ?_⟩
    · simp only [takeMaxStep, needAmt]
      rw [if_neg (by omega), if_neg (by simp [hc])]
    · simp [fbOf, takeExt_none, htm.1]
  | some e =>
    obtain ⟨w, hw⟩ := hfb e rfl
    refine ⟨⟨c, concatParts (takeMax f.parts amt).1
        [(withdrawAlways (repay b f.asset (takeMax f.parts amt).2) w c
          (if total f.parts < amt then amt - total f.parts else 0)).1]⟩,
      (withdrawAlways (repay b f.asset (takeMax f.parts amt).2) w c
          (if total f.parts < amt then amt - total f.parts else 0)).2, ?_, rfl, ?_⟩
    · simp only [takeMaxStep, needAmt]
      rw [if_neg (by omega), if_neg (by simp [hc])]
      simp only [hw]
    · have hw1 : ∀ b' amt', (withdrawAlways b' w c amt').1 = ⟨w, amt'⟩ :=
        fun b' amt' => (withdrawAlways_spec b' w c amt').1
      simp only [hw1]
      rw [concatParts_units _ _ (takeMax_nonneg _ amt hn).1
        (partsNonneg_cons.mpr ⟨by dsimp only; split <;> omega, partsNonneg_nil⟩)]
      simp only [fbOf, hw, takeExt, htm.1, units_cons, units_nil, List.append_nil]
      congr 2
      split <;> omega

/-! ## Leaves -/

theorem withdrawAll_ok {b : Balances} {a c : String} {o bal : Int} (hb : b.get a c = some bal) :
    ∃ b1, withdrawAll b a c (some o) = .ok (⟨a, max (bal + o) 0⟩, b1) := by
  unfold withdrawAll
  rw [hb]
  by_cases h : 0 < bal + nilAsZero (some o)
  · simp only [if_pos h]
    change 0 < bal + o at h
    have : max (bal + o) 0 = bal + o := by omega
    rw [this]; exact ⟨_, rfl⟩
  · simp only [if_neg h]
    change ¬ 0 < bal + o at h
    have : max (bal + o) 0 = 0 := by omega
    rw [this]; exact ⟨_, rfl⟩

theorem isWorld_eq {e : Expr} (h : e.isWorld = true) : e = .acct "world" := by
  cases e with
  | acct s => simp [Expr.isWorld] at h; subst h; rfl
  | _ => simp [Expr.isWorld] at h

theorem evalAccount_world (env : Env) : evalAccount env (.acct "world") = .ok "world" := rfl

theorem replicate_min_take (n m : Nat) (a : String) :
    List.replicate (min n m) a = (List.replicate m a).take n := by
  rw [List.take_replicate]

/-- The interpreter's bounded leaf against the machine's `withdrawAll`. -/
theorem leaf_bounded {env ienv : Env} (heq : EnvEq env ienv) (henv : EnvOK env)
    {P : List (String × String)} {c : String} {e : Expr} {a : String} {o : Int}
    (hl : litsOK e = true) (ha : evalAccount env e = .ok a) (hw : a ≠ "world") (hP : (a, c) ∈ P)
    (ho : 0 ≤ o) (b : Balances) (ist : IState) (amt : Int) (hamt : 0 ≤ amt) (hc : ist.asset = c)
    (hhas : HasP P b) (hrel : 0 < amt → Rel P b ist.bal) :
    ∃ p b1, withdrawAll b a c (some o) = .ok (p, b1) ∧ 0 ≤ p.amount ∧
      (∀ x ∈ takeExt amt.toNat (units [p]) none, x = a) ∧
      ∃ sent ist', fromAccount ienv e amt (some o) ist = .ok (sent, ist') ∧
        Pushed c ist ist' (takeExt amt.toNat (units [p]) none) ∧
        sent = ((takeExt amt.toNat (units [p]) none).length : Int) := by
  obtain ⟨bal, hbal⟩ := hhas a c hP hw
  obtain ⟨b1, hb1⟩ := withdrawAll_ok (o := o) hbal
  refine ⟨_, b1, hb1, by simp; omega, ?_, ?_⟩
  · intro x hx
    rw [takeExt_none, units_single] at hx
    exact List.eq_of_mem_replicate (List.mem_of_mem_take hx)
  simp only [fromAccount, evalAcct_agree heq henv hl ha, if_neg hw]
  refine ⟨_, _, rfl, ?_, ?_⟩
  · rw [takeExt_none, units_single, ← replicate_min_take]
    by_cases h0 : 0 < amt
    · have hr := hrel h0 a c hP hw
      rw [hbal] at hr
      have hv : ist.bal a c = bal := by cases hr; rfl
      rw [hc, hv]
      have := pushSender_pushed (c := c) a (min (max (bal + o) 0) amt) ist (by omega) hc
      have e2 : (min (max (bal + o) 0) amt).toNat = min amt.toNat (max (bal + o) 0).toNat := by omega
      rw [e2] at this
      exact this
    · have hz : amt = 0 := by omega
      subst hz
      have e1 : min (max (ist.bal a ist.asset + o) 0) 0 = 0 := by omega
      rw [e1]
      have := pushSender_pushed (c := c) a 0 ist (by omega) hc
      simpa using this
  · rw [takeExt_none, units_single]
    simp only [List.length_take, List.length_replicate]
    by_cases h0 : 0 < amt
    · have hr := hrel h0 a c hP hw
      rw [hbal] at hr
      have hv : ist.bal a c = bal := by cases hr; rfl
      rw [hc, hv]; omega
    · have hz : amt = 0 := by omega
      subst hz
      omega

/-- The interpreter's unbounded leaf (`@world`, unbounded overdraft) against the machine's
    `withdrawAlways … 0` + fallback. -/
theorem leaf_unbounded {env ienv : Env} (heq : EnvEq env ienv) (henv : EnvOK env)
    {c : String} {e : Expr} {a : String} (hl : litsOK e = true) (ha : evalAccount env e = .ok a)
    (ist : IState) (amt : Int) (hamt : 0 ≤ amt) (hc : ist.asset = c) (od : Option Int)
    (hod : a = "world" ∨ od = none) :
    ∃ sent ist', fromAccount ienv e amt od ist = .ok (sent, ist') ∧
      Pushed c ist ist' (takeExt amt.toNat [] (some a)) ∧
      sent = ((takeExt amt.toNat [] (some a)).length : Int) := by
  have key : fromAccount ienv e amt od ist = .ok (amt, pushSender a amt ist) := by
    simp only [fromAccount, evalAcct_agree heq henv hl ha]
    cases od with
    | none => simp
    | some o =>
      rcases hod with h | h
      · simp [h]
      · cases h
  rw [key]
  refine ⟨_, _, rfl, ?_, ?_⟩
  · rw [takeExt_nil_some]; exact pushSender_pushed a amt ist hamt hc
  · rw [takeExt_nil_some]; simp; omega

end Ledger.Interp
