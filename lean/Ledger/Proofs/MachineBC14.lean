import Ledger.Proofs.MachineBC13

/-! Stage (f), part 14: all destinations (in-order with `kept`, allotment) by mutual recursion. -/
namespace Ledger.Machine

theorem sim_skip (ds : Decls) (env : Env) (C : CS → Prop) : Sim ds env C (fun cs => .ok cs) T Kl.id :=
  ⟨fun cs cs' hg _ ha => by
    cases ha
    exact ⟨[], Ext.refl _, hg, fun _ _ _ _ _ _ _ => rfl⟩⟩

theorem sim_bump3 (ds : Decls) (env : Env) (C : CS → Prop) (hC : Stable C) :
    Sim ds env C (bump 3) T (bumpK 3) := by
  simpa using sim_bump ds env C hC 3

/-! ### Stack shapes -/

abbrev monV (c : String) (p : Int) : SVal := .val (.monetary c (some p))

def InOrdP : Stack → Prop := fun stk => ∃ F k rest, stk = .funding F :: monV F.asset k :: rest
def InMidP : Stack → Prop := fun stk =>
  ∃ F G k rest, stk = .funding F :: .funding G :: monV G.asset k :: rest ∧ F.asset = G.asset
def TwoFundP : Stack → Prop := fun stk => ∃ F G rest, stk = .funding F :: .funding G :: rest ∧ F.asset = G.asset
def AllotP (n : Nat) : Stack → Prop := fun stk =>
  ∃ (F : Funding) (ps : List Int) (rest : Stack), stk = .funding F :: (ps.map (monV F.asset) ++ rest) ∧ ps.length = n
def AllotMidP (n : Nat) : Stack → Prop := fun stk =>
  ∃ (F G : Funding) (ps : List Int) (rest : Stack),
    stk = .funding F :: .funding G :: (ps.map (monV G.asset) ++ rest) ∧ ps.length = n ∧ F.asset = G.asset

/-! ### Semantic stack transformers -/

def kdK (env : Env) (d : KeptOrDest) : Kl := fun stk st =>
  match stk with
  | .funding F :: rest =>
    match evalKD env F.asset d F.parts st with
    | .error e => .error e
    | .ok (rem, st1) => .ok (.funding ⟨F.asset, rem⟩ :: rest, st1)
  | _ => .error (.fault "stack")

theorem kdK_ok {env : Env} {d : KeptOrDest} {stk s1 : Stack} {st t1 : State}
    (h : kdK env d stk st = .ok (s1, t1)) :
    ∃ F rest rem, stk = .funding F :: rest ∧ s1 = .funding ⟨F.asset, rem⟩ :: rest := by
  unfold kdK at h
  split at h
  · rename_i F rest
    split at h
    · cases h
    · cases h; exact ⟨F, rest, _, rfl, rfl⟩
  · cases h

def inorderK (env : Env) (items : InOrderDstList) : Kl := fun stk st =>
  match stk with
  | .funding F :: .val (.monetary _ (some k)) :: rest =>
    match evalInOrder env F.asset items k F.parts st with
    | .error e => .error e
    | .ok (k', f', st') => .ok (.funding ⟨F.asset, f'⟩ :: monV F.asset k' :: rest, st')
  | _ => .error (.fault "stack")

theorem inorderK_ok {env : Env} {items : InOrderDstList} {stk s1 : Stack} {st t1 : State}
    (h : inorderK env items stk st = .ok (s1, t1)) : InOrdP s1 := by
  unfold inorderK at h
  split at h
  · split at h
    · cases h
    · cases h; exact ⟨_, _, _, rfl⟩
  · cases h

def popMons : Nat → Stack → Option (List Int × Stack)
  | 0, s => some ([], s)
  | n + 1, .val (.monetary _ (some p)) :: s =>
    match popMons n s with
    | some (ps, r) => some (p :: ps, r)
    | none => none
  | _, _ => none

theorem popMons_all (c : String) : (ps : List Int) → (rest : Stack) →
    popMons ps.length (ps.map (monV c) ++ rest) = some (ps, rest)
  | [], rest => by simp [popMons]
  | p :: ps, rest => by simp [popMons, monV, popMons_all c ps rest]

def allotdstK (env : Env) (items : AllotDstList) : Kl := fun stk st =>
  match stk with
  | .funding F :: tl =>
    match popMons items.length tl with
    | some (ps, rest) =>
      match evalAllotDst env F.asset items ps F.parts st with
      | .error e => .error e
      | .ok (f', st') => .ok (.funding ⟨F.asset, f'⟩ :: rest, st')
    | none => .error (.fault "stack")
  | _ => .error (.fault "stack")

/-! ### Blocks of primitive instructions -/

/-- `bump 1; 2; OP_FUNDING_ASSEMBLE`: `[r, g, …] ↦ [g ++ r…]` (concatenation `r` first). -/
def joinK : Kl := fun stk st =>
  match stk with
  | .funding r :: .funding g :: rest =>
    if r.asset ≠ g.asset then .error (.run "exec" "assemble-asset")
    else .ok (.funding ⟨g.asset, concatParts r.parts g.parts⟩ :: rest, st)
  | _ => .error (.fault "stack")

theorem sim_join (ds : Decls) (env : Env) (C : CS → Prop) (hC : Stable C) :
    Sim ds env C (seqA [bump 1, pushInteger 2, emitOp OP_FUNDING_ASSEMBLE]) TwoFundP joinK := by
  have h := Sim.seq hC (sim_bump1 ds env C hC)
    (Sim.seq hC (sim_pushInteger ds env C 2) (Sim.single hC (sim_emitOp ds env C OP_FUNDING_ASSEMBLE)))
  refine (h.weaken (fun _ _ => trivial)).congr ?_
  rintro stk st ⟨F, G, rest, rfl, hfg⟩
  simp [Kl.comp, bumpK, pushK, opK_ASSEMBLE2, joinK]

/-- Head of one in-order item: `<max>; OP_TAKE_MAX; bump 2; OP_DELETE`. -/
def inHeadK (env : Env) (m : Expr) : Kl := fun stk st =>
  match stk with
  | .funding F :: kept :: rest =>
    match evalMonetary env m with
    | .error e => .error e
    | .ok mon =>
      match needAmt mon.2 with
      | .error e => .error e
      | .ok amt =>
        if amt < 0 then .error (.run "exec" "negative-max")
        else if F.asset ≠ mon.1 then .error (.run "exec" "take-asset")
        else .ok (.funding ⟨F.asset, (takeMax F.parts amt).1⟩ :: .funding ⟨F.asset, (takeMax F.parts amt).2⟩ ::
          kept :: rest, st)
  | _ => .error (.fault "stack")

theorem sim_inHead {ds : Decls} {env : Env} (henv : EnvTyped ds env) (C : CS → Prop) (hC : Stable C) {m : Expr}
    (htm : typeExpr ds m = .ok .monetary) :
    Sim ds env C (seqA [pushExpr m, emitOp OP_TAKE_MAX, bump 2, emitOp OP_DELETE]) InOrdP (inHeadK env m) := by
  have h := Sim.seq hC (sim_pushExpr henv C htm)
    (Sim.seq hC (sim_emitOp ds env C OP_TAKE_MAX)
    (Sim.seq hC (sim_bump2 ds env C hC) (Sim.single hC (sim_emitOp ds env C OP_DELETE))))
  refine (h.weaken (fun _ _ => trivial)).congr ?_
  rintro stk st ⟨F, k, rest, rfl⟩
  simp only [Kl.comp, exprK_monetary henv htm, inHeadK]
  cases evalMonetary env m with
  | error e => rfl
  | ok mon =>
    simp only [opK_TAKE_MAX]
    cases needAmt mon.2 with
    | error e => rfl
    | ok amt =>
      simp only
      by_cases hneg : amt < 0
      · simp [hneg]
      · by_cases hfa : F.asset = mon.1
        · simp [hneg, hfa, bumpK, opK_DELETE_val]
        · simp [hneg, hfa]

/-- Tail of one in-order item: `OP_FUNDING_SUM; bump 3; OP_MONETARY_ADD; bump 1; bump 2; 2; OP_FUNDING_ASSEMBLE`. -/
def inTailK : Kl := fun stk st =>
  match stk with
  | .funding r :: .funding t2 :: .val (.monetary a k) :: rest =>
    if r.asset ≠ a then .error (.run "exec" "add-asset")
    else if r.asset ≠ t2.asset then .error (.run "exec" "assemble-asset")
    else .ok (.funding ⟨t2.asset, concatParts r.parts t2.parts⟩ ::
      monV r.asset (total r.parts + nilAsZero k) :: rest, st)
  | _ => .error (.fault "stack")

theorem sim_inTail (ds : Decls) (env : Env) (C : CS → Prop) (hC : Stable C) :
    Sim ds env C (seqA [emitOp OP_FUNDING_SUM, bump 3, emitOp OP_MONETARY_ADD, bump 1, bump 2, pushInteger 2,
      emitOp OP_FUNDING_ASSEMBLE]) InMidP inTailK := by
  have h := Sim.seq hC (sim_emitOp ds env C OP_FUNDING_SUM)
    (Sim.seq hC (sim_bump3 ds env C hC)
    (Sim.seq hC (sim_emitOp ds env C OP_MONETARY_ADD)
    (Sim.seq hC (sim_bump1 ds env C hC)
    (Sim.seq hC (sim_bump2 ds env C hC)
    (Sim.seq hC (sim_pushInteger ds env C 2) (Sim.single hC (sim_emitOp ds env C OP_FUNDING_ASSEMBLE)))))))
  refine (h.weaken (fun _ _ => trivial)).congr ?_
  rintro stk st ⟨F, G, k, rest, rfl, hfg⟩
  simp only [Kl.comp, opK_FUNDING_SUM, bumpK, inTailK, monV]
  simp only [List.getElem?_cons_succ, List.getElem?_cons_zero, List.eraseIdx_cons_succ, List.eraseIdx_cons_zero,
    opK_MONETARY_ADD]
  by_cases h1 : F.asset = G.asset
  · simp [h1, pushK, opK_ASSEMBLE2, nilAsZero]
  · exact absurd hfg h1

/-- Start of an in-order destination: the `kept` accumulator. -/
def inInitK : Kl := fun stk st =>
  match stk with
  | .funding F :: rest => .ok (.funding F :: monV F.asset 0 :: rest, st)
  | _ => .error (.fault "stack")

theorem sim_inInit (ds : Decls) (env : Env) (C : CS → Prop) (hC : Stable C) :
    Sim ds env C (seqA [emitOp OP_FUNDING_SUM, emitOp OP_ASSET, pushInteger 0, emitOp OP_MONETARY_NEW, bump 1])
      FundingTop inInitK := by
  have h := Sim.seq hC (sim_emitOp ds env C OP_FUNDING_SUM)
    (Sim.seq hC (sim_emitOp ds env C OP_ASSET)
    (Sim.seq hC (sim_pushInteger ds env C 0)
    (Sim.seq hC (sim_emitOp ds env C OP_MONETARY_NEW) (Sim.single hC (sim_bump1 ds env C hC)))))
  refine (h.weaken (fun _ _ => trivial)).congr ?_
  rintro stk st ⟨F, rest, rfl⟩
  simp [Kl.comp, opK_FUNDING_SUM, opK_ASSET_mon, pushK, opK_MONETARY_NEW, bumpK, inInitK, monV]

/-- After the items: take `kept` from the END of the funding. -/
def inSplitK : Kl := fun stk st =>
  match stk with
  | .funding F :: .val (.monetary a (some k)) :: rest =>
    if F.asset ≠ a then .error (.run "exec" "take-asset")
    else
      match take F.parts.reverse k with
      | none => .error (.run "exec" "insufficient")
      | some (resR, remR) => .ok (.funding ⟨F.asset, remR.reverse⟩ :: .funding ⟨F.asset, resR.reverse⟩ :: rest, st)
  | _ => .error (.fault "stack")

theorem sim_inSplit (ds : Decls) (env : Env) (C : CS → Prop) (hC : Stable C) :
    Sim ds env C (seqA [emitOp OP_FUNDING_REVERSE, bump 1, emitOp OP_TAKE, emitOp OP_FUNDING_REVERSE, bump 1,
      emitOp OP_FUNDING_REVERSE]) InOrdP inSplitK := by
  have h := Sim.seq hC (sim_emitOp ds env C OP_FUNDING_REVERSE)
    (Sim.seq hC (sim_bump1 ds env C hC)
    (Sim.seq hC (sim_emitOp ds env C OP_TAKE)
    (Sim.seq hC (sim_emitOp ds env C OP_FUNDING_REVERSE)
    (Sim.seq hC (sim_bump1 ds env C hC) (Sim.single hC (sim_emitOp ds env C OP_FUNDING_REVERSE))))))
  refine (h.weaken (fun _ _ => trivial)).congr ?_
  rintro stk st ⟨F, k, rest, rfl⟩
  simp only [Kl.comp, opK_FUNDING_REVERSE, bumpK, inSplitK, monV]
  simp only [List.getElem?_cons_succ, List.getElem?_cons_zero, List.eraseIdx_cons_succ, List.eraseIdx_cons_zero,
    opK_TAKE, needAmt, ne_eq, not_true_eq_false, if_false]
  cases take F.parts.reverse k with
  | none => rfl
  | some r =>
    obtain ⟨resR, remR⟩ := r
    simp [opK_FUNDING_REVERSE]

/-- Head of one allotment item: `bump 1; OP_TAKE`. -/
def alHeadK : Kl := fun stk st =>
  match stk with
  | .funding F :: .val (.monetary a (some p)) :: rest =>
    if F.asset ≠ a then .error (.run "exec" "take-asset")
    else
      match take F.parts p with
      | none => .error (.run "exec" "insufficient")
      | some (res, rem) => .ok (.funding ⟨F.asset, res⟩ :: .funding ⟨F.asset, rem⟩ :: rest, st)
  | _ => .error (.fault "stack")

theorem sim_alHead (ds : Decls) (env : Env) (C : CS → Prop) (hC : Stable C) (n : Nat) :
    Sim ds env C (seqA [bump 1, emitOp OP_TAKE]) (AllotP (n + 1)) alHeadK := by
  have h := Sim.seq hC (sim_bump1 ds env C hC) (Sim.single hC (sim_emitOp ds env C OP_TAKE))
  refine (h.weaken (fun _ _ => trivial)).congr ?_
  rintro stk st ⟨F, ps, rest, rfl, hl⟩
  cases ps with
  | nil => simp at hl
  | cons p ps =>
    simp only [Kl.comp, bumpK, alHeadK, monV, List.map_cons, List.cons_append]
    simp only [List.getElem?_cons_succ, List.getElem?_cons_zero, List.eraseIdx_cons_succ, List.eraseIdx_cons_zero,
      opK_TAKE, needAmt, ne_eq, not_true_eq_false, if_false]
    cases take F.parts p with
    | none => rfl
    | some r => rfl

/-- Start of an allotment destination: `OP_FUNDING_SUM; <allotment>; OP_ALLOC; bump n`. -/
def alInitK (env : Env) (items : AllotDstList) : Kl := fun stk st =>
  match stk with
  | .funding F :: rest =>
    match makeAllotment env items.portions with
    | .error e => .error e
    | .ok a => .ok (.funding F :: ((allocate a (total F.parts)).map (monV F.asset) ++ rest), st)
  | _ => .error (.fault "stack")

theorem bumpK_append (xs : List SVal) (v : SVal) (rest : Stack) (st : State) :
    bumpK xs.length (xs ++ v :: rest) st = .ok (v :: (xs ++ rest), st) := by
  simp [bumpK, List.eraseIdx_append_of_length_le]

theorem sim_alInit {ds : Decls} {env : Env} (henv : EnvTyped ds env) (C : CS → Prop) (hC : Stable C)
    (items : AllotDstList) (hps : ∀ p ∈ items.portions, PortionOK ds p) :
    Sim ds env C (seqA [emitOp OP_FUNDING_SUM, cAllotment items.portions, emitOp OP_ALLOC, bump items.length])
      FundingTop (alInitK env items) := by
  have h := Sim.seq hC (sim_emitOp ds env C OP_FUNDING_SUM)
    (Sim.seq hC (sim_allotment henv C hC items.portions hps)
    (Sim.seq hC (sim_emitOp ds env C OP_ALLOC) (Sim.single hC (sim_bump ds env C hC items.length))))
  refine (h.weaken (fun _ _ => trivial)).congr ?_
  rintro stk st ⟨F, rest, rfl⟩
  simp only [Kl.comp, opK_FUNDING_SUM, allotK, alInitK]
  cases hma : makeAllotment env items.portions with
  | error e => rfl
  | ok a =>
    simp only [opK_ALLOC, needAmt]
    have hl : ((allocate a (total F.parts)).map (fun p => SVal.val (.monetary F.asset (some p)))).length =
        items.length := by
      rw [List.length_map, allocate_length', makeAllotment_length hma, AllotDstList.portions_length]
    rw [← hl, bumpK_append]

/-! ### The mutual simulation -/

mutual
  theorem sim_dest_gen {ds : Decls} {env : Env} (henv : EnvTyped ds env) (C : CS → Prop) (hC : Stable C) :
      (d : Dest) → checkDest ds d = .ok () → Sim ds env C (cDest d) FundingTop (destK env d)
    | .account e, h => by
      simp only [checkDest] at h
      exact sim_dest_account henv C hC (expectTy_inv h)
    | .inorder items rem, h => by
      simp only [checkDest] at h
      split at h
      · cases h
      · rename_i hitems
        have s1 := sim_inInit ds env C hC
        have s2 := sim_inorder_gen henv C hC items hitems
        have s3 := sim_inSplit ds env C hC
        have s4 := (sim_kd_gen henv C hC rem h).weaken (Q := TwoFundP)
          (by rintro _ ⟨F, G, rest, rfl, _⟩; exact ⟨F, _, rfl⟩)
        have s5 := sim_join ds env C hC
        have hd : cDest (.inorder items rem) =
            seqA ([emitOp OP_FUNDING_SUM, emitOp OP_ASSET, pushInteger 0, emitOp OP_MONETARY_NEW, bump 1] ++
              ([cInOrder items] ++
              ([emitOp OP_FUNDING_REVERSE, bump 1, emitOp OP_TAKE, emitOp OP_FUNDING_REVERSE, bump 1,
                emitOp OP_FUNDING_REVERSE] ++
              ([cKD rem] ++ [bump 1, pushInteger 2, emitOp OP_FUNDING_ASSEMBLE])))) := by
          simp [cDest]
        rw [hd]
        have hall := Sim.append hC s1
          (Sim.append hC (Sim.single hC s2)
          (Sim.append hC s3
          (Sim.append hC (Sim.single hC s4) s5
            (by
              rintro stk st s1 t1 ⟨F, G, rest, rfl, hfg⟩ hk
              obtain ⟨F', rest', rem', e1, e2⟩ := kdK_ok hk
              cases e1
              exact ⟨_, _, _, e2, hfg⟩))
            (by
              rintro stk st s1 t1 ⟨F, k, rest, rfl⟩ hk
              simp only [inSplitK, monV, ne_eq, not_true_eq_false, if_false] at hk
              split at hk
              · cases hk
              · cases hk; exact ⟨_, _, _, rfl, rfl⟩))
            (fun _ _ _ _ _ hk => inorderK_ok hk))
          (by
            rintro stk st s1 t1 ⟨F, rest, rfl⟩ hk
            simp only [inInitK] at hk; cases hk
            exact ⟨_, _, _, rfl⟩)
        refine hall.congr ?_
        rintro stk st ⟨F, rest, rfl⟩
        simp only [Kl.comp, inInitK, inorderK, monV, destK, evalDest]
        cases evalInOrder env F.asset items 0 F.parts st with
        | error e => rfl
        | ok r =>
          obtain ⟨kept, f1, st1⟩ := r
          simp only [inSplitK, ne_eq, not_true_eq_false, if_false]
          cases take f1.reverse kept with
          | none => rfl
          | some q =>
            obtain ⟨resR, remR⟩ := q
            simp only [kdK]
            cases evalKD env F.asset rem remR.reverse st1 with
            | error e => rfl
            | ok w =>
              obtain ⟨r, st2⟩ := w
              simp [joinK]
    | .allot items, h => by
      simp only [checkDest] at h
      split at h
      · cases h
      · rename_i hal
        have s1 := sim_alInit henv C hC items (checkAllotment_ok hal)
        have s2 := sim_allotdst_gen henv C hC items h
        have hd : cDest (.allot items) =
            seqA ([emitOp OP_FUNDING_SUM, cAllotment items.portions, emitOp OP_ALLOC, bump items.length] ++
              [cAllotDst items]) := by
          simp [cDest]
        rw [hd]
        have hall := Sim.append hC s1 (Sim.single hC s2)
          (by
            rintro stk st s1 t1 ⟨F, rest, rfl⟩ hk
            simp only [alInitK] at hk
            split at hk
            · cases hk
            · rename_i a hma
              cases hk
              exact ⟨F, _, rest, rfl, by
                rw [allocate_length', makeAllotment_length hma, AllotDstList.portions_length]⟩)
        refine hall.congr ?_
        rintro stk st ⟨F, rest, rfl⟩
        simp only [Kl.comp, alInitK, destK, evalDest]
        cases hma : makeAllotment env items.portions with
        | error e => rfl
        | ok a =>
          have hl : (allocate a (total F.parts)).length = items.length := by
            rw [allocate_length', makeAllotment_length hma, AllotDstList.portions_length]
          simp only [allotdstK, ← hl, popMons_all]
          cases evalAllotDst env F.asset items (allocate a (total F.parts)) F.parts st with
          | error e => rfl
          | ok w => rfl
  theorem sim_kd_gen {ds : Decls} {env : Env} (henv : EnvTyped ds env) (C : CS → Prop) (hC : Stable C) :
      (d : KeptOrDest) → checkKD ds d = .ok () → Sim ds env C (cKD d) FundingTop (kdK env d)
    | .kept, _ => by
      have hk : cKD .kept = fun cs => .ok cs := by simp [cKD]
      rw [hk]
      refine ((sim_skip ds env C).weaken (fun _ _ => trivial)).congr ?_
      rintro stk st ⟨F, rest, rfl⟩
      simp [Kl.id, kdK, evalKD]
    | .to d, h => by
      simp only [checkKD] at h
      have hk : cKD (.to d) = cDest d := by simp [cKD]
      rw [hk]
      refine (sim_dest_gen henv C hC d h).congr ?_
      rintro stk st ⟨F, rest, rfl⟩
      simp only [destK, kdK, evalKD]
      cases evalDest env F.asset d F.parts st with
      | error e => rfl
      | ok w => rfl
  theorem sim_inorder_gen {ds : Decls} {env : Env} (henv : EnvTyped ds env) (C : CS → Prop) (hC : Stable C) :
      (items : InOrderDstList) → checkInOrder ds items = .ok () →
      Sim ds env C (cInOrder items) InOrdP (inorderK env items)
    | .nil, _ => by
      have hk : cInOrder .nil = fun cs => .ok cs := by simp [cInOrder]
      rw [hk]
      refine ((sim_skip ds env C).weaken (fun _ _ => trivial)).congr ?_
      rintro stk st ⟨F, k, rest, rfl⟩
      simp [Kl.id, inorderK, evalInOrder, monV]
    | .cons m d rest, h => by
      simp only [checkInOrder] at h
      split at h
      · cases h
      · rename_i hm
        split at h
        · cases h
        · rename_i hd
          have s1 := sim_inHead henv C hC (expectTy_inv hm)
          have s2 := (sim_kd_gen henv C hC d hd).weaken (Q := InMidP)
            (by rintro _ ⟨F, G, k, rest, rfl, _⟩; exact ⟨F, _, rfl⟩)
          have s3 := sim_inTail ds env C hC
          have s4 := sim_inorder_gen henv C hC rest h
          have hk : cInOrder (.cons m d rest) =
              seqA ([pushExpr m, emitOp OP_TAKE_MAX, bump 2, emitOp OP_DELETE] ++
                ([cKD d] ++
                ([emitOp OP_FUNDING_SUM, bump 3, emitOp OP_MONETARY_ADD, bump 1, bump 2, pushInteger 2,
                  emitOp OP_FUNDING_ASSEMBLE] ++ [cInOrder rest]))) := by
            simp [cInOrder]
          rw [hk]
          have hall := Sim.append hC s1
            (Sim.append hC (Sim.single hC s2)
            (Sim.append hC s3 (Sim.single hC s4)
              (by
                rintro stk st s1 t1 ⟨F, G, k, rest, rfl, hfg⟩ hk
                simp only [inTailK, monV, hfg, ne_eq, not_true_eq_false, if_false] at hk
                cases hk
                exact ⟨_, _, _, rfl⟩))
              (by
                rintro stk st s1 t1 ⟨F, G, k, rest, rfl, hfg⟩ hk
                obtain ⟨F', rest', rem', e1, e2⟩ := kdK_ok hk
                cases e1
                exact ⟨_, _, _, _, e2, hfg⟩))
            (by
              rintro stk st s1 t1 ⟨F, k, rest, rfl⟩ hk
              simp only [inHeadK, monV] at hk
              split at hk
              · cases hk
              · split at hk
                · cases hk
                · split at hk
                  · cases hk
                  · split at hk
                    · cases hk
                    · cases hk; exact ⟨_, _, _, _, rfl, rfl⟩)
          refine hall.congr ?_
          rintro stk st ⟨F, k, rest', rfl⟩
          simp only [Kl.comp, inHeadK, inorderK, monV, evalInOrder]
          cases evalMonetary env m with
          | error e => rfl
          | ok mon =>
            simp only
            cases needAmt mon.2 with
            | error e => rfl
            | ok amt =>
              simp only
              by_cases hneg : amt < 0
              · simp [hneg]
              · by_cases hfa : F.asset = mon.1
                · simp only [hneg, hfa, ne_eq, not_true_eq_false, if_false, kdK]
                  cases evalKD env mon.1 d (takeMax F.parts amt).1 st with
                  | error e => rfl
                  | ok w =>
                    obtain ⟨r, st1⟩ := w
                    simp [inTailK, monV, nilAsZero, inorderK]
                · simp [hneg, hfa]
  theorem sim_allotdst_gen {ds : Decls} {env : Env} (henv : EnvTyped ds env) (C : CS → Prop) (hC : Stable C) :
      (items : AllotDstList) → checkAllotDst ds items = .ok () →
      Sim ds env C (cAllotDst items) (AllotP items.length) (allotdstK env items)
    | .nil, _ => by
      have hk : cAllotDst .nil = fun cs => .ok cs := by simp [cAllotDst]
      rw [hk]
      refine ((sim_skip ds env C).weaken (fun _ _ => trivial)).congr ?_
      rintro stk st ⟨F, ps, rest, rfl, hl⟩
      cases ps with
      | nil => simp [Kl.id, allotdstK, AllotDstList.length, popMons, evalAllotDst]
      | cons p ps => simp [AllotDstList.length] at hl
    | .cons pe d rest, h => by
      simp only [checkAllotDst] at h
      split at h
      · cases h
      · rename_i hd
        have s1 := sim_alHead ds env C hC rest.length
        have s2 := (sim_kd_gen henv C hC d hd).weaken (Q := AllotMidP rest.length)
          (by rintro _ ⟨F, G, ps, rest, rfl, _, _⟩; exact ⟨F, _, rfl⟩)
        have s3 := (sim_join ds env C hC).weaken (Q := AllotMidP rest.length)
          (by rintro _ ⟨F, G, ps, rest, rfl, _, hfg⟩; exact ⟨F, G, _, rfl, hfg⟩)
        have s4 := sim_allotdst_gen henv C hC rest h
        have hk : cAllotDst (.cons pe d rest) =
            seqA ([bump 1, emitOp OP_TAKE] ++ ([cKD d] ++
              ([bump 1, pushInteger 2, emitOp OP_FUNDING_ASSEMBLE] ++ [cAllotDst rest]))) := by
          simp [cAllotDst]
        rw [hk]
        have hall := Sim.append hC s1
          (Sim.append hC (Sim.single hC s2)
          (Sim.append hC s3 (Sim.single hC s4)
            (by
              rintro stk st s1 t1 ⟨F, G, ps, rest, rfl, hl, hfg⟩ hk
              simp only [joinK] at hk
              split at hk
              · cases hk
              · cases hk; exact ⟨_, ps, rest, rfl, hl⟩))
            (by
              rintro stk st s1 t1 ⟨F, G, ps, rest, rfl, hl, hfg⟩ hk
              obtain ⟨F', rest', rem', e1, e2⟩ := kdK_ok hk
              cases e1
              exact ⟨_, _, ps, rest, e2, hl, hfg⟩))
          (by
            rintro stk st s1 t1 ⟨F, ps, rest, rfl, hl⟩ hk
            cases ps with
            | nil => simp at hl
            | cons p ps =>
              simp only [alHeadK, monV, List.map_cons, List.cons_append, ne_eq, not_true_eq_false, if_false] at hk
              split at hk
              · cases hk
              · cases hk
                exact ⟨_, _, ps, rest, rfl, by simpa using hl, rfl⟩)
        refine hall.congr ?_
        rintro stk st ⟨F, ps, rest', rfl, hl⟩
        cases ps with
        | nil => simp [AllotDstList.length] at hl
        | cons p ps =>
          have hl' : ps.length = rest.length := by simpa [AllotDstList.length] using hl
          simp only [Kl.comp, alHeadK, monV, List.map_cons, List.cons_append, ne_eq, not_true_eq_false, if_false,
            allotdstK, AllotDstList.length, popMons, ← hl', popMons_all, evalAllotDst]
          cases take F.parts p with
          | none => rfl
          | some q =>
            obtain ⟨res, rem⟩ := q
            simp only [kdK]
            cases evalKD env F.asset d res st with
            | error e => rfl
            | ok w =>
              obtain ⟨r, st1⟩ := w
              simp [joinK, allotdstK, popMons_all, ← hl']
end

end Ledger.Machine
