import Ledger.Proofs.SqlRunMoves

/-!
# Bounded scenarios for `UpsertAccounts`, `RevertTransaction` and the metadata statements

Each scenario runs the statements of `Ledger.Generated.WriteSql.P` through LeanPG on the ledger of
the generated `addLedger` script (with its metadata-history triggers) and compares the committed
tables, abstracted by `accountsAbs` / `txsAbs`, with the functions of `Ledger.Spec`.
-/
namespace Ledger.Sql.Run
open Ledger Ledger.Sql Ledger.Generated.WriteSql Ledger.Core Ledger.Base

/-- one account of an `UpsertAccounts` call -/
structure Up where
  addr : String
  /-- first usage, seconds -/
  fu : Nat
  /-- insertion date = updated_at of the call, seconds -/
  date : Nat
  md : List (String × String)
  deriving Repr

def mdJson (md : List (String × String)) : String :=
  "{" ++ ",".intercalate (md.map fun kv => "\"" ++ kv.1 ++ "\":\"" ++ kv.2 ++ "\"") ++ "}"

def sqlUpsert (call : List Up) : List Stmt :=
  P.upsertAccounts "_default" "ledger0" 7 (((List.range call.length).zip call).map fun iu =>
    { address := iu.2.addr, metadata := mdJson iu.2.md, first_usage := tsText iu.2.fu, insertion_date := tsText iu.2.date,
      updated_at := tsText iu.2.date, address_array := "[\"" ++ iu.2.addr ++ "\"]", default_metadata := "{}",
      batch_index := toString iu.1 })

def sqlAccounts (calls : List (List Up)) : Map String Spec.AccountRow :=
  accountsAbs (run w1 (on 1 (calls.flatMap sqlUpsert))).1 "_default" "ledger0"

def specAccounts (calls : List (List Up)) : Map String Spec.AccountRow :=
  calls.foldl (fun acc call => call.foldl (fun acc u =>
    Spec.upsertAccount acc u.addr (some (tsMicros u.fu)) (tsMicros u.date) (u.md.foldl (fun (m : Metadata) kv => Map.insert kv.1 kv.2 m) [])) acc) []

def agreeAccounts (calls : List (List Up)) : Bool := decide (sqlAccounts calls = specAccounts calls)


/-! ### transactions: revert and metadata -/

/-- an empty transaction with the given id, timestamp (seconds) and metadata (JSON text) -/
def mkTx (id : Int) (sec : Nat) (md : String) : List Stmt :=
  P.insertTransactionWithID "_default" "ledger0" 7 "[]" md (tsText sec) "" id (tsText sec) (tsText sec) "{}" "" "[]" "[]" "[]" "[]"

def revertAt (id : Int) (sec : Nat) : List Stmt := P.revertTransactionAt "_default" "ledger0" 7 id (tsText sec)

def insertById (x : Int × Option Int) : List (Int × Option Int) → List (Int × Option Int)
  | [] => [x]
  | y :: ys => if x.1 < y.1 then x :: y :: ys else y :: insertById x ys

/-- (id, reverted_at) of the transactions of the ledger, by id -/
def revertedAbs (w : World) : List (Int × Option Int) :=
  (txsAbs w "_default" "ledger0").foldl (fun acc t => insertById (t.1, t.2.1) acc) []

/-- the same through `Spec.markReverted`: transactions `ids` (none reverted), then the marks in order -/
def specReverted (ids : List Nat) (marks : List (Nat × Nat)) : List (Int × Option Int) :=
  let st0 : Spec.Store := { txs := ids.map fun i => { tx := { id := i, postings := [], timestamp := 0, insertedAt := 0 }, pcv := [] } }
  (marks.foldl (fun st m => Spec.markReverted st m.1 (tsMicros m.2)) st0).txs.map fun r => ((r.tx.id : Int), r.tx.revertedAt)

/-- the `modified` flag (last column) of each answer -/
def lastCols (outs : List (String × List (List String))) : List (List String) :=
  outs.map fun o => o.2.map fun row => row.getLast?.getD ""


/-- (address, first usage, insertion date, metadata) of the accounts of the ledger -/
def acctView (w : World) : List (String × Int × Int × List (String × String)) :=
  (accountsAbs w "_default" "ledger0").map (fun e => (e.1, e.2.firstUsage, e.2.insertionDate, e.2.metadata))

/-- (address, metadata text, revision) of the account-metadata history, in insertion order -/
def acctHistView (w : World) : List (String × String × String) :=
  (committed w "_default.accounts_metadata").map (fun tv =>
    ((fieldOf tv "accounts_address").toText, (fieldOf tv "metadata").toText, (fieldOf tv "revision").toText))

end Ledger.Sql.Run
