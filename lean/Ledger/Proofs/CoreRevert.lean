import Ledger.Proofs.CoreHistory

/-! C15 helper lemmas: shape of the revert transaction, absence of panics. -/
set_option linter.unusedSectionVars false
namespace Ledger.Spec
open Ledger.Base Ledger.Core

theorem C02_balance (ops : List StoreOp) (st : Store) (h : runOps ops = .ok st) (k : Key) (v : Volumes)
    (hv : st.accountsVolumes.get? k = some v) : v.balance = balanceOf st.txRecs k := by
  rcases (StoreInv_runOps h).av k with h1 | ⟨h1, _⟩
  · rw [h1] at hv; cases hv; rfl
  · rw [h1] at hv; cases hv

theorem get?_markReverts (m : Metadata) (hm : Map.WF m) (id : Nat) (key : String) :
    (markReverts m id).get? key = if key = revertMetaKey then some (toString id) else m.get? key := by
  unfold markReverts Map.insert
  rw [Map.get?_insertWith _ _ _ hm]
  by_cases h : key = revertMetaKey
  · simp only [h, if_true]; cases m.get? revertMetaKey <;> rfl
  · simp only [if_neg h]

/-- everything `buildRevertTx` can return -/
theorem buildRevertTxV_ok {v : RevertCheck} {orig : Tx} {inp : RevertInput} {balances : Balances} {tx : Tx}
    (h : buildRevertTxV v orig inp balances = .ok tx) :
    ∃ id ts, orig.id = some id ∧ revertTimestamp orig inp.atEffectiveDate = .ok ts ∧
      tx = revertTxOf orig inp ts id := by
  unfold buildRevertTxV at h
  cases hts : revertTimestamp orig inp.atEffectiveDate with
  | error e => rw [hts] at h; simp at h
  | ok ts =>
    rw [hts] at h
    simp only [] at h
    cases hid : orig.id with
    | none => rw [hid] at h; simp at h
    | some id =>
      rw [hid] at h
      simp only [] at h
      refine ⟨id, ts, rfl, rfl, ?_⟩
      by_cases hf : inp.force = true
      · simp only [hf, if_true] at h; cases h; rfl
      · simp only [hf] at h
        cases hra : revertApply v balances (reversePostings orig.postings) with
        | error e => rw [hra] at h; simp at h
        | ok b =>
          rw [hra] at h
          simp only [] at h
          by_cases ho : anyOverdrawn b = true
          · simp [ho] at h
          · simp only [ho] at h; cases h; rfl

theorem buildRevertTx_shape (v : RevertCheck) (orig : Tx) (inp : RevertInput) (balances : Balances) (tx : Tx)
    (hm : Map.WF inp.metadata) (h : buildRevertTxV v orig inp balances = .ok tx) :
    tx.postings = reversePostings orig.postings ∧
    (∃ id, orig.id = some id ∧ tx.metadata.get? revertMetaKey = some (toString id)) ∧
    (∀ key, key ≠ revertMetaKey → tx.metadata.get? key = inp.metadata.get? key) ∧
    tx.timestamp = (if inp.atEffectiveDate then orig.timestamp else orig.revertedAt) ∧
    (inp.atEffectiveDate = false → orig.revertedAt ≠ none) ∧
    tx.id = none ∧ tx.reference = "" ∧ tx.revertedAt = none := by
  obtain ⟨id, ts, hid, hts, rfl⟩ := buildRevertTxV_ok h
  have hts' : ts = (if inp.atEffectiveDate then orig.timestamp else orig.revertedAt) ∧
      (inp.atEffectiveDate = false → orig.revertedAt ≠ none) := by
    unfold revertTimestamp at hts
    by_cases ha : inp.atEffectiveDate = true
    · simp only [ha, if_true] at hts; cases hts; simp [ha]
    · simp only [ha] at hts
      cases hr : orig.revertedAt with
      | none => rw [hr] at hts; simp at hts
      | some r => rw [hr] at hts; simp at hts; subst hts; simp [ha]
  refine ⟨rfl, ⟨id, hid, ?_⟩, ?_, hts'.1, hts'.2, rfl, rfl, rfl⟩
  · simp [revertTxOf, get?_markReverts _ hm]
  · intro key hk; simp [revertTxOf, get?_markReverts _ hm, hk]

/-! ### no panic -/

theorem hasAccount_eq_keys (b : Balances) (a : String) : hasAccount b a = b.keys.any (fun k => k.1 == a) := by
  simp [hasAccount, Map.keys, List.any_map, Function.comp_def]

theorem hasAccount_adjust (b : Balances) (k : Key) (f : Int → Int) (a : String) :
    hasAccount (b.adjust k f) a = hasAccount b a := by
  rw [hasAccount_eq_keys, hasAccount_eq_keys, Map.keys_adjust]

theorem revertApply_preFix_no_panic (b : Balances) (rps : List Posting)
    (h : ∀ rp ∈ rps, b.contains rp.srcKey = true ∧ (hasAccount b rp.destination = true → b.contains rp.dstKey = true)) :
    revertApply .preFix b rps ≠ .error .nilDeref := by
  induction rps generalizing b with
  | nil => simp [revertApply]
  | cons rp rps ih =>
    obtain ⟨hs, hd⟩ := h rp List.mem_cons_self
    have hrest : ∀ (b' : Balances), (∀ k, b'.contains k = b.contains k) → (∀ a, hasAccount b' a = hasAccount b a) →
        ∀ q ∈ rps, b'.contains q.srcKey = true ∧ (hasAccount b' q.destination = true → b'.contains q.dstKey = true) := by
      intro b' hc ha q hq
      have := h q (List.mem_cons_of_mem _ hq)
      rw [hc, hc, ha]; exact this
    unfold revertApply
    have hs' : (b.get? rp.srcKey).isSome = true := hs
    cases hg : b.get? rp.srcKey with
    | none => rw [hg] at hs'; simp at hs'
    | some v =>
      simp only []
      by_cases hacc : hasAccount (b.adjust rp.srcKey (· - rp.amount)) rp.destination = true
      · simp only [hacc, if_true]
        have hd' : ((b.adjust rp.srcKey (· - rp.amount)).get? rp.dstKey).isSome = true := by
          have := hd (by rw [hasAccount_adjust] at hacc; exact hacc)
          have e : (b.adjust rp.srcKey (· - rp.amount)).contains rp.dstKey = true := by
            rw [Map.contains_adjust]; exact this
          exact e
        cases hg2 : (b.adjust rp.srcKey (· - rp.amount)).get? rp.dstKey with
        | none => rw [hg2] at hd'; simp at hd'
        | some w =>
          simp only []
          apply ih
          apply hrest
          · intro k; rw [Map.contains_adjust, Map.contains_adjust]
          · intro a; rw [hasAccount_adjust, hasAccount_adjust]
      · simp only [hacc]
        apply ih
        apply hrest
        · intro k; rw [Map.contains_adjust]
        · intro a; rw [hasAccount_adjust]

/-- The current check only needs the debited pairs to be tracked. -/
theorem revertApply_current_no_panic (b : Balances) (rps : List Posting)
    (h : ∀ rp ∈ rps, b.contains rp.srcKey = true) :
    revertApply .current b rps ≠ .error .nilDeref := by
  induction rps generalizing b with
  | nil => simp [revertApply]
  | cons rp rps ih =>
    have hs := h rp List.mem_cons_self
    have hrest : ∀ (b' : Balances), (∀ k, b'.contains k = b.contains k) → ∀ q ∈ rps, b'.contains q.srcKey = true := by
      intro b' hc q hq
      rw [hc]; exact h q (List.mem_cons_of_mem _ hq)
    unfold revertApply
    have hs' : (b.get? rp.srcKey).isSome = true := hs
    cases hg : b.get? rp.srcKey with
    | none => rw [hg] at hs'; simp at hs'
    | some v =>
      simp only []
      by_cases hc : (b.adjust rp.srcKey (· - rp.amount)).contains rp.dstKey = true
      · simp only [hc, if_true]
        apply ih
        apply hrest
        intro k; rw [Map.contains_adjust, Map.contains_adjust]
      · simp only [hc]
        apply ih
        apply hrest
        intro k; rw [Map.contains_adjust]

/-- keys of the `InvolvedDestinations` fold -/
theorem mem_keys_foldl_insert_dst (ps : List Posting) (m : Map Key Unit) (k : Key) :
    k ∈ (ps.foldl (fun (m : Map Key Unit) p => m.insert p.dstKey ()) m).keys ↔
      k ∈ m.keys ∨ ∃ p ∈ ps, p.dstKey = k := by
  induction ps generalizing m with
  | nil => simp
  | cons p ps ih =>
    simp only [List.foldl_cons]
    rw [ih]
    unfold Map.insert
    rw [Map.keys_insertWith_perm_mem]
    constructor
    · rintro ((h | h) | ⟨q, hq, hk⟩)
      · exact Or.inr ⟨p, List.mem_cons_self, h.symm⟩
      · exact Or.inl h
      · exact Or.inr ⟨q, List.mem_cons_of_mem _ hq, hk⟩
    · rintro (h | ⟨q, hq, hk⟩)
      · exact Or.inl (Or.inr h)
      · rcases List.mem_cons.mp hq with rfl | hq
        · exact Or.inl (Or.inl hk.symm)
        · exact Or.inr ⟨q, hq, hk⟩

theorem dstKey_mem_involvedDestinations {ps : List Posting} {p : Posting} (h : p ∈ ps) :
    p.dstKey ∈ involvedDestinations ps := by
  unfold involvedDestinations
  rw [mem_keys_foldl_insert_dst]
  exact Or.inr ⟨p, h, rfl⟩

theorem buildRevertTxV_no_panic (v : RevertCheck) (orig : Tx) (inp : RevertInput) (balances : Balances)
    (hid : orig.id ≠ none) (hrev : orig.revertedAt ≠ none)
    (hnp : inp.force = false → revertApply v balances (reversePostings orig.postings) ≠ .error .nilDeref) :
    buildRevertTxV v orig inp balances ≠ .error .nilDeref := by
  unfold buildRevertTxV
  have hts : ∃ ts, revertTimestamp orig inp.atEffectiveDate = .ok ts := by
    unfold revertTimestamp
    by_cases ha : inp.atEffectiveDate = true
    · exact ⟨orig.timestamp, by simp [ha]⟩
    · cases hr : orig.revertedAt with
      | none => exact absurd hr hrev
      | some r => exact ⟨some r, by simp [ha]⟩
  obtain ⟨ts, hts⟩ := hts
  rw [hts]
  simp only []
  cases hi : orig.id with
  | none => exact absurd hi hid
  | some id =>
    simp only []
    by_cases hf : inp.force = true
    · simp [hf]
    · simp only [hf]
      have hnp' := hnp (by simpa using hf)
      cases hra : revertApply v balances (reversePostings orig.postings) with
      | error e =>
        simp only []
        intro he
        apply hnp'
        rw [hra]
        simpa using he
      | ok b =>
        simp only []
        by_cases ho : anyOverdrawn b = true <;> simp [ho]

/-- The code in the tree never panics on store-provided inputs: id and `reverted_at` set and
    `balances` holding the (destination, asset) pairs of the original transaction. -/
theorem buildRevertTx_total (orig : Tx) (inp : RevertInput) (balances : Balances)
    (hid : orig.id ≠ none) (hrev : orig.revertedAt ≠ none)
    (hb : balances.keys = involvedDestinations orig.postings) :
    buildRevertTx orig inp balances ≠ .error .nilDeref := by
  apply buildRevertTxV_no_panic .current orig inp balances hid hrev
  intro _
  apply revertApply_current_no_panic
  intro rp hrp
  simp only [reversePostings, List.mem_reverse, List.mem_map] at hrp
  obtain ⟨p, hp, rfl⟩ := hrp
  rw [Map.contains_iff_mem_keys, hb]
  exact dstKey_mem_involvedDestinations hp

/-- The pre-fix check did not panic when forced, or when `balances` was closed for the
    transaction. -/
theorem buildRevertTx_preFix_no_panic (orig : Tx) (inp : RevertInput) (balances : Balances)
    (hid : orig.id ≠ none) (hrev : orig.revertedAt ≠ none)
    (hc : inp.force = true ∨ ∀ p ∈ orig.postings, balances.contains p.dstKey = true ∧
            (hasAccount balances p.source = true → balances.contains p.srcKey = true)) :
    buildRevertTxV .preFix orig inp balances ≠ .error .nilDeref := by
  apply buildRevertTxV_no_panic .preFix orig inp balances hid hrev
  intro hf
  rcases hc with hc | hc
  · rw [hf] at hc; exact absurd hc (by simp)
  · apply revertApply_preFix_no_panic
    intro rp hrp
    simp only [reversePostings, List.mem_reverse, List.mem_map] at hrp
    obtain ⟨p, hp, rfl⟩ := hrp
    exact hc p hp

end Ledger.Spec
