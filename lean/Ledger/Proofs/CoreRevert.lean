import Ledger.Proofs.CoreHistory

/-! C15 helper lemmas: shape of the revert transaction, absence of panics. -/
set_option linter.unusedSectionVars false
namespace Ledger.Spec
open Ledger.Base Ledger.Core

theorem C02_balance (ops : List StoreOp) (st : Store) (h : runOps ops = .ok st) (k : Key) (v : Volumes)
    (hv : st.accountsVolumes.get? k = some v) : v.balance = balanceOf st.txRecs k := by
  rcases (StoreInv_runOps h).av k with h1 | ⟨h1, _⟩
  · rw [h1] at hv; cases hv; rfl
  · rw [h1] at hv; cases hv

theorem get?_markReverts (m : Metadata) (hm : Map.WF m) (id : Nat) (key : String) :
    (markReverts m id).get? key = if key = revertMetaKey then some (toString id) else m.get? key := by
  unfold markReverts Map.insert
  rw [Map.get?_insertWith _ _ _ hm]
  by_cases h : key = revertMetaKey
  · simp only [h, if_true]; cases m.get? revertMetaKey <;> rfl
  · simp only [if_neg h]

/-- everything `buildRevertTx` can return -/
theorem buildRevertTx_ok {orig : Tx} {inp : RevertInput} {balances : Balances} {tx : Tx}
    (h : buildRevertTx orig inp balances = .ok tx) :
    ∃ id ts, orig.id = some id ∧ revertTimestamp orig inp.atEffectiveDate = .ok ts ∧
      tx = revertTxOf orig inp ts id := by
  unfold buildRevertTx at h
  cases hts : revertTimestamp orig inp.atEffectiveDate with
  | error e => rw [hts] at h; simp at h
  | ok ts =>
    rw [hts] at h
    simp only [] at h
    cases hid : orig.id with
    | none => rw [hid] at h; simp at h
    | some id =>
      rw [hid] at h
      simp only [] at h
      refine ⟨id, ts, rfl, rfl, ?_⟩
      by_cases hf : inp.force = true
      · simp only [hf, if_true] at h; cases h; rfl
      · simp only [hf] at h
        cases hra : revertApply balances (reversePostings orig.postings) with
        | error e => rw [hra] at h; simp at h
        | ok b =>
          rw [hra] at h
          simp only [] at h
          by_cases ho : anyOverdrawn b = true
          · simp [ho] at h
          · simp only [ho] at h; cases h; rfl

theorem buildRevertTx_shape (orig : Tx) (inp : RevertInput) (balances : Balances) (tx : Tx)
    (hm : Map.WF inp.metadata) (h : buildRevertTx orig inp balances = .ok tx) :
    tx.postings = reversePostings orig.postings ∧
    (∃ id, orig.id = some id ∧ tx.metadata.get? revertMetaKey = some (toString id)) ∧
    (∀ key, key ≠ revertMetaKey → tx.metadata.get? key = inp.metadata.get? key) ∧
    tx.timestamp = (if inp.atEffectiveDate then orig.timestamp else orig.revertedAt) ∧
    (inp.atEffectiveDate = false → orig.revertedAt ≠ none) ∧
    tx.id = none ∧ tx.reference = "" ∧ tx.revertedAt = none := by
  obtain ⟨id, ts, hid, hts, rfl⟩ := buildRevertTx_ok h
  have hts' : ts = (if inp.atEffectiveDate then orig.timestamp else orig.revertedAt) ∧
      (inp.atEffectiveDate = false → orig.revertedAt ≠ none) := by
    unfold revertTimestamp at hts
    by_cases ha : inp.atEffectiveDate = true
    · simp only [ha, if_true] at hts; cases hts; simp [ha]
    · simp only [ha] at hts
      cases hr : orig.revertedAt with
      | none => rw [hr] at hts; simp at hts
      | some r => rw [hr] at hts; simp at hts; subst hts; simp [ha]
  refine ⟨rfl, ⟨id, hid, ?_⟩, ?_, hts'.1, hts'.2, rfl, rfl, rfl⟩
  · simp [revertTxOf, get?_markReverts _ hm]
  · intro key hk; simp [revertTxOf, get?_markReverts _ hm, hk]

/-! ### no panic -/

theorem hasAccount_eq_keys (b : Balances) (a : String) : hasAccount b a = b.keys.any (fun k => k.1 == a) := by
  simp [hasAccount, Map.keys, List.any_map, Function.comp_def]

theorem hasAccount_adjust (b : Balances) (k : Key) (f : Int → Int) (a : String) :
    hasAccount (b.adjust k f) a = hasAccount b a := by
  rw [hasAccount_eq_keys, hasAccount_eq_keys, Map.keys_adjust]

theorem revertApply_no_panic (b : Balances) (rps : List Posting)
    (h : ∀ rp ∈ rps, b.contains rp.srcKey = true ∧ (hasAccount b rp.destination = true → b.contains rp.dstKey = true)) :
    revertApply b rps ≠ .error .nilDeref := by
  induction rps generalizing b with
  | nil => simp [revertApply]
  | cons rp rps ih =>
    obtain ⟨hs, hd⟩ := h rp List.mem_cons_self
    have hrest : ∀ (b' : Balances), (∀ k, b'.contains k = b.contains k) → (∀ a, hasAccount b' a = hasAccount b a) →
        ∀ q ∈ rps, b'.contains q.srcKey = true ∧ (hasAccount b' q.destination = true → b'.contains q.dstKey = true) := by
      intro b' hc ha q hq
      have := h q (List.mem_cons_of_mem _ hq)
      rw [hc, hc, ha]; exact this
    unfold revertApply
    have hs' : (b.get? rp.srcKey).isSome = true := hs
    cases hg : b.get? rp.srcKey with
    | none => rw [hg] at hs'; simp at hs'
    | some v =>
      simp only []
      by_cases hacc : hasAccount (b.adjust rp.srcKey (· - rp.amount)) rp.destination = true
      · simp only [hacc, if_true]
        have hd' : ((b.adjust rp.srcKey (· - rp.amount)).get? rp.dstKey).isSome = true := by
          have := hd (by rw [hasAccount_adjust] at hacc; exact hacc)
          have e : (b.adjust rp.srcKey (· - rp.amount)).contains rp.dstKey = true := by
            rw [Map.contains_adjust]; exact this
          exact e
        cases hg2 : (b.adjust rp.srcKey (· - rp.amount)).get? rp.dstKey with
        | none => rw [hg2] at hd'; simp at hd'
        | some w =>
          simp only []
          apply ih
          apply hrest
          · intro k; rw [Map.contains_adjust, Map.contains_adjust]
          · intro a; rw [hasAccount_adjust, hasAccount_adjust]
      · simp only [hacc]
        apply ih
        apply hrest
        · intro k; rw [Map.contains_adjust]
        · intro a; rw [hasAccount_adjust]

/-- A revert built from store-provided inputs does not panic when forced, or when `balances`
    is closed for the transaction: it has every (destination, asset) pair and, for every
    posting whose source account appears in it, the (source, asset) pair too. -/
theorem buildRevertTx_no_panic (orig : Tx) (inp : RevertInput) (balances : Balances)
    (hid : orig.id ≠ none) (hrev : orig.revertedAt ≠ none)
    (hc : inp.force = true ∨ ∀ p ∈ orig.postings, balances.contains p.dstKey = true ∧
            (hasAccount balances p.source = true → balances.contains p.srcKey = true)) :
    buildRevertTx orig inp balances ≠ .error .nilDeref := by
  unfold buildRevertTx
  have hts : ∃ ts, revertTimestamp orig inp.atEffectiveDate = .ok ts := by
    unfold revertTimestamp
    by_cases ha : inp.atEffectiveDate = true
    · exact ⟨orig.timestamp, by simp [ha]⟩
    · cases hr : orig.revertedAt with
      | none => exact absurd hr hrev
      | some r => exact ⟨some r, by simp [ha]⟩
  obtain ⟨ts, hts⟩ := hts
  rw [hts]
  simp only []
  cases hi : orig.id with
  | none => exact absurd hi hid
  | some id =>
    simp only []
    by_cases hf : inp.force = true
    · simp [hf]
    · simp only [hf]
      rcases hc with hc | hc
      · exact absurd hc hf
      · have hnp : revertApply balances (reversePostings orig.postings) ≠ .error .nilDeref := by
          apply revertApply_no_panic
          intro rp hrp
          simp only [reversePostings, List.mem_reverse, List.mem_map] at hrp
          obtain ⟨p, hp, rfl⟩ := hrp
          exact hc p hp
        cases hra : revertApply balances (reversePostings orig.postings) with
        | error e =>
          simp only []
          intro he
          apply hnp
          rw [hra]
          simpa using he
        | ok b =>
          simp only []
          by_cases ho : anyOverdrawn b = true <;> simp [ho]

end Ledger.Spec
