import Ledger.E2e.Features
import Ledger.Props.C08

/-!
Helper lemmas for `Ledger.Props.C35e`: the feature set of `Ledger.E2e.runHistWith` reaches the
derived tables only.
-/
namespace Ledger.E2e
open Ledger.Base Ledger.Core Ledger.Ctrl

theorem runHistWith_core (f : FeatureSet) (strict : Bool) (s : FState) (ops : List Op) :
    (runHistWith f strict s ops).1.core = runHist strict s.core ops := by
  induction ops generalizing s with
  | nil => rfl
  | cons op r ih => simp only [runHistWith, runHist]; exact ih _

theorem runHistWith_resps (f : FeatureSet) (strict : Bool) (s : FState) (ops : List Op) :
    (runHistWith f strict s ops).2 = respsHist strict s.core ops := by
  induction ops generalizing s with
  | nil => rfl
  | cons op r ih => simp only [runHistWith, respsHist]; rw [ih]; rfl

theorem newLogs_append (old new : Db) (suf : List Log) (h : new.logs = old.logs ++ suf) : newLogs old new = suf := by
  simp [newLogs, h]

/-- The hashed logs are all the logs (HASH_LOGS=SYNC) or none. -/
def HashInv (f : FeatureSet) (s : FState) : Prop :=
  s.derived.hashed = if f.hashLogs = .sync then s.core.db.logs.map (·.id) else []

theorem stepWith_hashInv (f : FeatureSet) (strict : Bool) (s : FState) (op : Op) (h : HashInv f s) :
    HashInv f (stepWith f strict s op).1 := by
  obtain ⟨suf, hsuf, _⟩ := Ledger.C08.journal_append_only strict s.core op
  unfold HashInv at h ⊢
  simp only [stepWith, derive, newLogs_append _ _ _ hsuf, h]
  by_cases hs : f.hashLogs = .sync
  · simp [hs, hsuf]
  · simp [hs]

theorem runHistWith_hashInv (f : FeatureSet) (strict : Bool) (s : FState) (ops : List Op) (h : HashInv f s) :
    HashInv f (runHistWith f strict s ops).1 := by
  induction ops generalizing s with
  | nil => exact h
  | cons op r ih => simp only [runHistWith]; exact ih _ (stepWith_hashInv f strict s op h)

/-- The tables of the features that are off stay empty; every move carries the PCEV flag of the set. -/
def OffInv (f : FeatureSet) (s : FState) : Prop :=
  (f.movesHistory = false → s.derived.moves = []) ∧
  (f.accMetaHist = false → s.derived.accHist = []) ∧
  (f.txMetaHist = false → s.derived.txHist = []) ∧
  (∀ m ∈ s.derived.moves, m.hasPcev = f.pcev)

theorem movesOf_pcev (pcev : Bool) (t : Ledger.Ctrl.Tx) : ∀ m ∈ movesOf pcev t, m.hasPcev = pcev := by
  intro m hm
  simp only [movesOf, List.mem_flatMap] at hm
  obtain ⟨p, _, hp⟩ := hm
  simp only [List.mem_cons, List.not_mem_nil, or_false] at hp
  rcases hp with rfl | rfl <;> rfl

theorem stepWith_offInv (f : FeatureSet) (strict : Bool) (s : FState) (op : Op) (h : OffInv f s) :
    OffInv f (stepWith f strict s op).1 := by
  obtain ⟨h1, h2, h3, h4⟩ := h
  refine ⟨?_, ?_, ?_, ?_⟩
  · intro hf; simp [stepWith, derive, hf, h1 hf]
  · intro hf; simp [stepWith, derive, hf, h2 hf]
  · intro hf; simp [stepWith, derive, hf, h3 hf]
  · intro m hm
    simp only [stepWith, derive, List.mem_append] at hm
    rcases hm with hm | hm
    · exact h4 m hm
    · by_cases hf : f.movesHistory = true
      · simp only [hf, ↓reduceIte, List.mem_flatMap] at hm
        obtain ⟨t, _, ht⟩ := hm
        exact movesOf_pcev f.pcev t m ht
      · simp [hf] at hm

theorem runHistWith_offInv (f : FeatureSet) (strict : Bool) (s : FState) (ops : List Op) (h : OffInv f s) :
    OffInv f (runHistWith f strict s ops).1 := by
  induction ops generalizing s with
  | nil => exact h
  | cons op r ih => simp only [runHistWith]; exact ih _ (stepWith_offInv f strict s op h)

end Ledger.E2e
