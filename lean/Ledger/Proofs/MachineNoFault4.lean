import Ledger.Proofs.MachineNoFault3
import Ledger.Proofs.MachineTxEnv

/-! No fault / panic: variable resolution and balances (`prepare`), and the whole `sem`. -/
namespace Ledger.Machine

/-! ### Values produced by `parseValue` -/

theorem parseValue_fixed_val {ty : Ty} {data : String} {p : Parsed} (h : parseValue Cfg.fixed ty data = p) :
    p = .bad ∨ ∃ v, p = .val v ∧ valueTy v = ty ∧ ValOK v := by
  subst h
  unfold parseValue
  cases ty with
  | account => simp only; split <;> simp [valueTy, ValOK]
  | asset => simp only; split <;> simp [valueTy, ValOK]
  | number =>
    simp only
    split
    · simp
    · simp [Cfg.fixed]
    · simp [valueTy, ValOK]
  | string => simp [valueTy, ValOK]
  | monetary =>
    simp only
    split
    · simp
    · split
      · simp
      · split
        · simp
        · split
          · simp
          · simp [valueTy, ValOK]
  | portion =>
    simp only
    split
    · rename_i p hp
      obtain ⟨r, rfl⟩ := parsePortionGo_specific hp
      simp [valueTy, ValOK]
    · simp

/-! ### Declarations -/

theorem mem_keys_lookup {α : Type} : (l : List (String × α)) → (x : String) → x ∈ l.map (·.1) →
    ∃ w, l.lookup x = some w
  | [], _, h => by simp at h
  | kv :: rest, x, h => by
    simp only [List.lookup]
    by_cases hx : x = kv.1
    · have : (x == kv.1) = true := by simpa using hx
      simp only [this]; exact ⟨_, rfl⟩
    · have : ¬ (x == kv.1) = true := by simpa using hx
      simp only [this]
      simp only [List.map_cons, List.mem_cons] at h
      rcases h with h | h
      · exact absurd h hx
      · exact mem_keys_lookup rest x h

theorem isSome_false_of_not {α : Type} {o : Option α} (h : ¬ o.isSome = true) : o.isSome = false := by
  cases o <;> simp_all

theorem checkVars_names : (vs : List VarDecl) → (ds ds' : Decls) → checkVars vs ds = .ok ds' →
    ds' = ds ++ vs.map (fun d => (d.name, d.ty)) ∧ ((ds.map (·.1)).Nodup → (ds'.map (·.1)).Nodup)
  | [], ds, ds', h => by simp only [checkVars] at h; cases h; simp
  | v :: vs, ds, ds', h => by
    simp only [checkVars] at h
    split at h
    · cases h
    · rename_i hnd
      split at h
      · cases h
      · obtain ⟨e, hn⟩ := checkVars_names vs _ ds' h
        refine ⟨by rw [e]; simp, ?_⟩
        intro hds
        apply hn
        simp only [List.map_append, List.map_cons, List.map_nil]
        rw [List.nodup_append]
        refine ⟨hds, by simp, ?_⟩
        intro a ha b hb hab
        simp only [List.mem_singleton] at hb
        subst hb; subst hab
        obtain ⟨w, hw⟩ := mem_keys_lookup ds _ ha
        rw [hw] at hnd
        simp at hnd

theorem parsePlainVars_nf (vars : List (String × String)) :
    (ds : List VarDecl) → NF (parsePlainVars Cfg.fixed vars ds)
  | [] => by simp only [parsePlainVars]; exact NF.ok _
  | d :: ds => by
    have ih := parsePlainVars_nf vars ds
    simp only [parsePlainVars]
    split
    · split
      · exact NF.run _ _
      · split
        · exact NF.run _ _
        · split
          · rename_i err heq; exact ih.error_of heq
          · exact NF.ok _
    · exact ih

theorem parsePlainVars_cons_plain {vars : List (String × String)} {x : VarDecl} {xs : List VarDecl}
    {out : List (String × Parsed)} (hx : x.orig = Origin.none)
    (h : parsePlainVars Cfg.fixed vars (x :: xs) = .ok out) :
    ∃ data p r, vars.lookup x.name = some data ∧ p = parseValue Cfg.fixed x.ty data ∧ p ≠ .bad ∧
      parsePlainVars Cfg.fixed vars xs = .ok r ∧ out = (x.name, p) :: r := by
  simp only [parsePlainVars, hx] at h
  cases hl : vars.lookup x.name with
  | none => simp [hl] at h
  | some data =>
    simp only [hl] at h
    cases hr : parsePlainVars Cfg.fixed vars xs with
    | error e =>
      exfalso
      cases hp : parseValue Cfg.fixed x.ty data <;> simp [hp, hr] at h
    | ok r =>
      cases hp : parseValue Cfg.fixed x.ty data with
      | bad => simp [hp] at h
      | nilNumber =>
        simp only [hp, hr] at h; cases h
        exact ⟨data, .nilNumber, r, rfl, hp.symm, by simp, rfl, rfl⟩
      | val v =>
        simp only [hp, hr] at h; cases h
        exact ⟨data, .val v, r, rfl, hp.symm, by simp, rfl, rfl⟩

theorem parsePlainVars_cons_other {vars : List (String × String)} {x : VarDecl} {xs : List VarDecl}
    (hx : x.orig ≠ Origin.none) :
    parsePlainVars Cfg.fixed vars (x :: xs) = parsePlainVars Cfg.fixed vars xs := by
  cases ho : x.orig with
  | none => exact absurd ho hx
  | accountMeta a k => simp [parsePlainVars, ho]
  | balance a c => simp [parsePlainVars, ho]

/-- Every plain declaration has an entry in `parsePlainVars`'s output, never `bad`. -/
theorem parsePlainVars_has (vars : List (String × String)) :
    (ds : List VarDecl) → (out : List (String × Parsed)) → parsePlainVars Cfg.fixed vars ds = .ok out →
    (∀ d ∈ ds, d.orig = Origin.none → ∃ p, out.lookup d.name = some p) ∧ (∀ kv ∈ out, kv.2 ≠ .bad)
  | [], out, h => by
    simp only [parsePlainVars] at h; cases h
    exact ⟨(by intro d hd; cases hd), (by intro kv hkv; cases hkv)⟩
  | x :: xs, out, h => by
    by_cases hx : x.orig = Origin.none
    · obtain ⟨data, p, r, _, _, hnb, hr, rfl⟩ := parsePlainVars_cons_plain hx h
      obtain ⟨i1, i2⟩ := parsePlainVars_has vars xs r hr
      constructor
      · intro d hd hdo
        by_cases hn : d.name = x.name
        · exact ⟨p, by simp [List.lookup, hn]⟩
        · rcases List.mem_cons.mp hd with rfl | hd
          · exact absurd rfl hn
          · obtain ⟨q, hq⟩ := i1 d hd hdo
            refine ⟨q, ?_⟩
            simp only [List.lookup]
            have : ¬ (d.name == x.name) = true := by simpa using hn
            simp only [this]; exact hq
      · intro kv hkv
        rcases List.mem_cons.mp hkv with rfl | hkv
        · exact hnb
        · exact i2 kv hkv
    · rw [parsePlainVars_cons_other hx] at h
      obtain ⟨i1, i2⟩ := parsePlainVars_has vars xs out h
      refine ⟨?_, i2⟩
      intro d hd hdo
      rcases List.mem_cons.mp hd with rfl | hd
      · exact absurd hdo hx
      · exact i1 d hd hdo

/-- What `setVars` gives for the plain declarations of a script with distinct names. -/
def PlainOK (s : Script) (plain : List (String × Parsed)) : Prop :=
  ∀ d ∈ s.vars, d.orig = Origin.none →
    ∃ v, plain.lookup d.name = some (.val v) ∧ valueTy v = d.ty ∧ ValOK v

theorem setVars_plainOK {s : Script} {inp : Input} {plain : List (String × Parsed)}
    (hn : (s.vars.map (·.name)).Nodup) (h : setVars Cfg.fixed s inp = .ok plain) : PlainOK s plain := by
  unfold setVars at h
  split at h
  · cases h
  · rename_i ps hps
    dsimp only at h
    split at h
    · cases h
    · cases h
      intro d hd hdo
      obtain ⟨hhas, hnb⟩ := parsePlainVars_has inp.vars s.vars _ hps
      obtain ⟨p, hp⟩ := hhas d hd hdo
      obtain ⟨d', hd', hname, data, _, hpv⟩ := parsePlainVars_lookup Cfg.fixed inp.vars s.vars _ hps d.name p hp
      have hdd : d' = d := decl_unique s.vars hn d d' hd hd' hname
      subst hdd
      rcases parseValue_fixed_val hpv.symm with hbad | ⟨v, hv, hty, hvok⟩
      · exfalso
        subst hbad
        exact hnb (d'.name, .bad) (lookup_mem _ _ _ hp) rfl
      · subst hv
        exact ⟨v, hp, hty, hvok⟩

/-! ### The invariant of `ResolveResources` -/

structure RInv (ds : Decls) (env : Env) (bvs : List BalVar) : Prop where
  names : env.map (·.1) = ds.map (·.1)
  typed : EnvTyped ds env
  vals : ∀ kv ∈ env, ValOK kv.2 ∨ kv.1 ∈ bvs.map (·.1)
  bal : ∀ bv ∈ bvs, ds.lookup bv.1 = some .monetary

theorem lookup_none_of_not_mem {α : Type} (l : List (String × α)) (x : String)
    (h : x ∉ l.map (·.1)) : l.lookup x = none := by
  induction l with
  | nil => rfl
  | cons kv rest ih =>
    simp only [List.map_cons, List.mem_cons, not_or] at h
    simp only [List.lookup]
    have : ¬ (x == kv.1) = true := by simpa using h.1
    simp only [this]
    exact ih h.2

theorem RInv.extend {ds : Decls} {env : Env} {bvs : List BalVar} (h : RInv ds env bvs)
    {n : String} {t : Ty} {v : Value} (hnew : (ds.lookup n).isSome = false) (hty : valueTy v = t)
    (bvs' : List BalVar) (hb : ∀ x ∈ bvs.map (·.1), x ∈ bvs'.map (·.1))
    (hv : ValOK v ∨ n ∈ bvs'.map (·.1))
    (hbal : ∀ bv ∈ bvs', bv ∈ bvs ∨ (bv.1 = n ∧ t = .monetary)) :
    RInv (ds ++ [(n, t)]) (env ++ [(n, v)]) bvs' := by
  have hn_ds : n ∉ ds.map (·.1) := by
    intro hm
    obtain ⟨w, hw⟩ := mem_keys_lookup ds n hm
    rw [hw] at hnew; simp at hnew
  have hn_env : n ∉ env.map (·.1) := by rw [h.names]; exact hn_ds
  refine ⟨by simp [h.names], ?_, ?_, ?_⟩
  · intro x tx hl
    cases hd : ds.lookup x with
    | some t0 =>
      have e0 : some t0 = some tx := by rw [← lookup_append_left ds [(n, t)] x t0 hd]; exact hl
      have e1 : t0 = tx := Option.some.inj e0
      subst e1
      obtain ⟨w, hw, hwt⟩ := h.typed x t0 hd
      exact ⟨w, lookup_append_left env _ x w hw, hwt⟩
    | none =>
      rw [lookup_append_right ds _ x hd] at hl
      simp only [List.lookup] at hl
      split at hl
      · rename_i heq
        cases hl
        have hx : x = n := by simpa using heq
        subst hx
        refine ⟨v, ?_, hty⟩
        rw [lookup_append_right env _ x (lookup_none_of_not_mem env x hn_env)]
        simp [List.lookup]
      · cases hl
  · intro kv hkv
    rcases List.mem_append.mp hkv with hkv | hkv
    · rcases h.vals kv hkv with h1 | h1
      · exact Or.inl h1
      · exact Or.inr (hb _ h1)
    · simp only [List.mem_singleton] at hkv
      subst hkv
      exact hv
  · intro bv hbv
    rcases hbal bv hbv with h1 | ⟨h1, h2⟩
    · have := h.bal bv h1
      exact lookup_append_left ds _ bv.1 _ this
    · subst h2
      rw [h1, lookup_append_right ds _ n (lookup_none_of_not_mem ds n hn_ds)]
      simp [List.lookup]

theorem resolveVars_inv {s : Script} (inp : Input) {plain : List (String × Parsed)}
    (hplain : PlainOK s plain) :
    (vs : List VarDecl) → (∀ d ∈ vs, d ∈ s.vars) → (ds ds' : Decls) → checkVars vs ds = .ok ds' →
    (env : Env) → (bvs : List BalVar) → RInv ds env bvs →
    NF (resolveVars Cfg.fixed inp plain vs env bvs) ∧
    ∀ env' bvs', resolveVars Cfg.fixed inp plain vs env bvs = .ok (env', bvs') → RInv ds' env' bvs'
  | [], _, ds, ds', hc, env, bvs, hinv => by
    simp only [checkVars] at hc; cases hc
    simp only [resolveVars]
    exact ⟨NF.ok _, fun env' bvs' h => by cases h; exact hinv⟩
  | d :: vs, hsub, ds, ds', hc, env, bvs, hinv => by
    simp only [checkVars] at hc
    split at hc
    · cases hc
    · rename_i hnd
      have hnew : (ds.lookup d.name).isSome = false := isSome_false_of_not hnd
      split at hc
      · cases hc
      · rename_i horig
        have hrest := fun env1 bvs1 (h1 : RInv (ds ++ [(d.name, d.ty)]) env1 bvs1) =>
          resolveVars_inv inp hplain vs (fun x hx => hsub x (by simp [hx])) _ ds' hc env1 bvs1 h1
        cases ho : d.orig with
        | none =>
          obtain ⟨v, hv, hty, hvok⟩ := hplain d (hsub d (by simp)) ho
          simp only [resolveVars, ho, hv]
          exact hrest _ _ (hinv.extend hnew hty bvs (fun x hx => hx) (Or.inl hvok) (fun bv hbv => Or.inl hbv))
        | accountMeta acc key =>
          simp only [ho] at horig
          have hacc := evalAccount_nf hinv.typed (expectTy_inv horig)
          simp only [resolveVars, ho]
          constructor
          · split
            · rename_i err heq; exact hacc.error_of heq
            · split
              · exact NF.run _ _
              · split
                · exact NF.run _ _
                · rename_i data _
                  rcases parseValue_fixed_val (p := parseValue Cfg.fixed d.ty data) rfl with hb | ⟨v, hv, hty, hvok⟩
                  · rw [hb]; exact NF.run _ _
                  · rw [hv]
                    exact (hrest _ _ (hinv.extend hnew hty bvs (fun x hx => hx) (Or.inl hvok)
                      (fun bv hbv => Or.inl hbv))).1
          · intro env' bvs' h
            split at h
            · cases h
            · split at h
              · cases h
              · split at h
                · cases h
                · rename_i data _
                  rcases parseValue_fixed_val (p := parseValue Cfg.fixed d.ty data) rfl with hb | ⟨v, hv, hty, hvok⟩
                  · rw [hb] at h; cases h
                  · rw [hv] at h
                    exact (hrest _ _ (hinv.extend hnew hty bvs (fun x hx => hx) (Or.inl hvok)
                      (fun bv hbv => Or.inl hbv))).2 env' bvs' h
        | balance acc asset =>
          simp only [ho] at horig
          split at horig
          · cases horig
          · rename_i hmon
            have hty : d.ty = .monetary := by simpa using hmon
            split at horig
            · cases horig
            · rename_i hca
              have hacc := evalAccount_nf hinv.typed (expectTy_inv hca)
              have hass := evalAssetE_nf hinv.typed (expectTy_inv horig)
              simp only [resolveVars, ho]
              have hext : ∀ a c, RInv (ds ++ [(d.name, d.ty)]) (env ++ [(d.name, .monetary c none)])
                  (bvs ++ [(d.name, a, c)]) := by
                intro a c
                refine hinv.extend hnew (by rw [hty]; rfl) _ (fun x hx => by simp [hx]) (Or.inr (by simp)) ?_
                intro bv hbv
                rcases List.mem_append.mp hbv with hbv | hbv
                · exact Or.inl hbv
                · simp only [List.mem_singleton] at hbv
                  subst hbv
                  exact Or.inr ⟨rfl, hty⟩
              constructor
              · split
                · rename_i err heq; exact hacc.error_of heq
                · split
                  · rename_i err heq; exact hass.error_of heq
                  · exact (hrest _ _ (hext _ _)).1
              · intro env' bvs' h
                split at h
                · cases h
                · split at h
                  · cases h
                  · exact (hrest _ _ (hext _ _)).2 env' bvs' h

/-! ### `ResolveBalances` -/

mutual
  theorem neededAccts_typed (ds : Decls) :
      (s : Source) → ∀ isAll r, checkSource ds isAll s = .ok r →
      ∀ e ∈ s.neededAccts, typeExpr ds e = .ok .account
    | .account e od, isAll, r, h, e', he => by
      have := (checkSource_account_inv h).1
      simp only [Source.neededAccts] at he
      cases od with
      | unbounded => simp at he
      | none =>
        simp only at he
        split at he
        · cases he
        · simp only [List.mem_singleton] at he; subst he; exact this
      | upTo x =>
        simp only at he
        split at he
        · cases he
        · simp only [List.mem_singleton] at he; subst he; exact this
    | .maxed m s, isAll, r, h, e', he => by
      obtain ⟨⟨r', hr'⟩, _⟩ := checkSource_maxed_inv h
      simp only [Source.neededAccts] at he
      exact neededAccts_typed ds s false r' hr' e' he
    | .inorder ss, isAll, r, h, e', he => by
      simp only [checkSource] at h
      simp only [Source.neededAccts] at he
      exact neededAcctsL_typed ds ss isAll [] r h e' he
  theorem neededAcctsL_typed (ds : Decls) :
      (ss : SourceList) → ∀ isAll em r, checkSources ds isAll ss em = .ok r →
      ∀ e ∈ ss.neededAccts, typeExpr ds e = .ok .account
    | .nil, _, _, _, _, e', he => by simp [SourceList.neededAccts] at he
    | .cons s rest, isAll, em, r, h, e', he => by
      obtain ⟨em1, fb, hs, hrest⟩ := checkSources_cons_inv h
      simp only [SourceList.neededAccts, List.mem_append] at he
      rcases he with he | he
      · exact neededAccts_typed ds s isAll _ hs e' he
      · rcases hrest with hnil | ⟨r', hr'⟩
        · subst hnil; simp [SourceList.neededAccts] at he
        · exact neededAcctsL_typed ds rest isAll _ r' hr' e' he
end

theorem neededAcctsA_typed (ds : Decls) :
    (items : AllotSrcList) → checkAllotSources ds items = .ok () →
    ∀ e ∈ items.neededAccts, typeExpr ds e = .ok .account
  | .nil, _, e', he => by simp [AllotSrcList.neededAccts] at he
  | .cons _ s rest, h, e', he => by
    simp only [checkAllotSources] at h
    split at h
    · cases h
    · rename_i r' hr'
      simp only [AllotSrcList.neededAccts, List.mem_append] at he
      rcases he with he | he
      · exact neededAccts_typed ds s false r' hr' e' he
      · exact neededAcctsA_typed ds rest h e' he

theorem evalAccounts_nf {ds : Decls} {env : Env} (henv : EnvTyped ds env) :
    (es : List Expr) → (∀ e ∈ es, typeExpr ds e = .ok .account) → NF (evalAccounts env es)
  | [], _ => by simp only [evalAccounts]; exact NF.ok _
  | e :: es, h => by
    have h1 := evalAccount_nf henv (h e (by simp))
    have ih := evalAccounts_nf henv es (fun x hx => h x (by simp [hx]))
    simp only [evalAccounts]
    split
    · rename_i err heq; exact h1.error_of heq
    · split
      · rename_i err heq; exact ih.error_of heq
      · exact NF.ok _

theorem neededPairs_nf {ds : Decls} {env : Env} (henv : EnvTyped ds env) :
    (ss : List Stmt) → (∀ s ∈ ss, checkStmt ds s = .ok ()) → NF (neededPairs env ss)
  | [], _ => by simp only [neededPairs]; exact NF.ok _
  | st :: rest, h => by
    have ih := neededPairs_nf henv rest (fun x hx => h x (by simp [hx]))
    have hst := h st (by simp)
    simp only [neededPairs]
    have hhere : NF (match st with
      | .send mon src _ =>
        match leftmostAsset env mon with
        | .error e => .error e
        | .ok asset =>
          match evalAccounts env src.neededAccts with
          | .error e => .error e
          | .ok accs => .ok (accs.map fun a => (a, asset))
      | .sendAll assetE src _ =>
        match evalAssetE env assetE with
        | .error e => .error e
        | .ok asset =>
          match evalAccounts env src.neededAccts with
          | .error e => .error e
          | .ok accs => .ok (accs.map fun a => (a, asset))
      | _ => (.ok [] : Except Err (List (String × String)))) := by
      cases st with
      | send mon src dst =>
        simp only [checkStmt] at hst
        split at hst
        · cases hst
        · rename_i hm
          have h1 := leftmostAsset_nf henv (expectTy_inv hm)
          have h2 : NF (evalAccounts env src.neededAccts) := by
            apply evalAccounts_nf henv
            split at hst
            · cases hst
            · rename_i hsrc
              cases src with
              | src s =>
                simp only at hsrc
                cases hcs : checkSource ds false s with
                | error m => simp [hcs, Except.map] at hsrc
                | ok r => exact fun e he => neededAccts_typed ds s false r hcs e (by simpa [VSource.neededAccts] using he)
              | allot items =>
                simp only at hsrc
                split at hsrc
                · cases hsrc
                · exact fun e he => neededAcctsA_typed ds items hsrc e (by simpa [VSource.neededAccts] using he)
          simp only
          split
          · rename_i err heq; exact h1.error_of heq
          · split
            · rename_i err heq; exact h2.error_of heq
            · exact NF.ok _
      | sendAll assetE src dst =>
        simp only [checkStmt] at hst
        split at hst
        · cases hst
        · rename_i hm
          have h1 := evalAssetE_nf henv (expectTy_inv hm)
          cases src with
          | allot items => simp at hst
          | src s =>
            simp only at hst
            split at hst
            · cases hst
            · rename_i r hcs
              have h2 : NF (evalAccounts env (VSource.src s).neededAccts) :=
                evalAccounts_nf henv _ (fun e he => neededAccts_typed ds s true r hcs e
                  (by simpa [VSource.neededAccts] using he))
              simp only
              split
              · rename_i err heq; exact h1.error_of heq
              · split
                · rename_i err heq; exact h2.error_of heq
                · exact NF.ok _
      | _ => exact NF.ok _
    split
    · rename_i err heq; exact hhere.error_of heq
    · split
      · rename_i err heq; exact ih.error_of heq
      · exact NF.ok _

theorem lookup_setEnv (env : Env) (n : String) (v : Value) (x : String) :
    (setEnv env n v).lookup x = if x = n then (env.lookup x).map (fun _ => v) else env.lookup x := by
  induction env with
  | nil => simp [setEnv]
  | cons kv rest ih =>
    obtain ⟨k0, v0⟩ := kv
    have ih' : List.lookup x (List.map (fun kv => if kv.1 = n then (kv.1, v) else kv) rest) =
        if x = n then (rest.lookup x).map (fun _ => v) else rest.lookup x := ih
    simp only [setEnv, List.map_cons]
    by_cases hk : k0 = n
    · subst hk
      simp only [if_true, List.lookup]
      by_cases hx : x = k0
      · subst hx; simp
      · have hx' : ¬ (x == k0) = true := by simpa using hx
        simp only [hx', hx, if_false]
        rw [ih']; simp [hx]
    · simp only [hk, if_false, List.lookup]
      by_cases hx : x = k0
      · subst hx
        have : ¬ x = n := hk
        simp [this]
      · have hx' : ¬ (x == k0) = true := by simpa using hx
        simp only [hx']
        exact ih'

theorem foldl_setEnv_inv (inp : Input) (ds : Decls) :
    (bvs : List BalVar) → (env : Env) → EnvTyped ds env → (∀ bv ∈ bvs, ds.lookup bv.1 = some .monetary) →
    (∀ kv ∈ env, ValOK kv.2 ∨ kv.1 ∈ bvs.map (·.1)) →
    EnvTyped ds (bvs.foldl (fun e bv => setEnv e bv.1 (.monetary bv.2.2 (some (inp.balance bv.2.1 bv.2.2)))) env) ∧
    EnvValsOK (bvs.foldl (fun e bv => setEnv e bv.1 (.monetary bv.2.2 (some (inp.balance bv.2.1 bv.2.2)))) env)
  | [], env, ht, _, hv => by
    refine ⟨ht, ?_⟩
    intro kv hkv
    rcases hv kv hkv with h | h
    · exact h
    · simp at h
  | bv :: rest, env, ht, hb, hv => by
    simp only [List.foldl_cons]
    apply foldl_setEnv_inv inp ds rest
    · intro x t hl
      obtain ⟨w, hw, hwt⟩ := ht x t hl
      rw [lookup_setEnv]
      by_cases hx : x = bv.1
      · subst hx
        have := hb bv (by simp)
        rw [this] at hl; cases hl
        exact ⟨.monetary bv.2.2 (some (inp.balance bv.2.1 bv.2.2)), by simp [hw], rfl⟩
      · exact ⟨w, by simp [hx, hw], hwt⟩
    · exact fun b hbm => hb b (by simp [hbm])
    · intro kv hkv
      simp only [setEnv, List.mem_map] at hkv
      obtain ⟨kv0, h0, rfl⟩ := hkv
      split
      · exact Or.inl (by simp [ValOK])
      · rename_i hne
        rcases hv kv0 h0 with h | h
        · exact Or.inl h
        · simp only [List.map_cons, List.mem_cons] at h
          rcases h with h | h
          · exact absurd h hne
          · exact Or.inr h

/-- `prepare` never faults, and yields a typed, well-formed environment. -/
theorem prepare_nf {s : Script} {ds : Decls} (htc : typecheck s = .ok ds) (inp : Input) :
    NF (prepare Cfg.fixed s inp) ∧
    ∀ env bal pairs, prepare Cfg.fixed s inp = .ok (env, bal, pairs) → EnvTyped ds env ∧ EnvValsOK env := by
  have hparts : checkVars s.vars [] = .ok ds ∧ checkStmts ds s.stmts = .ok () := by
    unfold typecheck at htc
    split at htc
    · cases htc
    · rename_i ds0 hcv
      split at htc
      · cases htc
      · rename_i hcs
        cases htc
        exact ⟨hcv, hcs⟩
  obtain ⟨hcv, hcs⟩ := hparts
  obtain ⟨e, hnd⟩ := checkVars_names s.vars [] ds hcv
  have hnames : (s.vars.map (·.name)).Nodup := by
    have := hnd (by simp)
    rw [e] at this
    simpa [List.map_map, Function.comp_def] using this
  have hstm := checkStmts_inv s.stmts hcs
  have hset : NF (setVars Cfg.fixed s inp) := by
    have := parsePlainVars_nf inp.vars s.vars
    unfold setVars
    split
    · rename_i err heq; exact this.error_of heq
    · dsimp only
      split
      · exact NF.run _ _
      · exact NF.ok _
  have hb : Cfg.fixed.balanceVarsPerAddress = false := rfl
  have hinit : ∀ env0 bvs, RInv ds env0 bvs →
      NF (initBalances Cfg.fixed inp env0 bvs s.stmts) ∧
      ∀ env bal pairs, initBalances Cfg.fixed inp env0 bvs s.stmts = .ok (env, bal, pairs) →
        EnvTyped ds env ∧ EnvValsOK env := by
    intro env0 bvs hinv
    have hnp := neededPairs_nf hinv.typed s.stmts hstm
    unfold initBalances
    constructor
    · split
      · rename_i err heq; exact hnp.error_of heq
      · split
        · exact NF.run _ _
        · simp only [hb, Bool.false_eq_true, if_false]
          split
          · exact NF.run _ _
          · exact NF.ok _
    · intro env bal pairs h
      split at h
      · cases h
      · split at h
        · cases h
        · simp only [hb, Bool.false_eq_true, if_false] at h
          split at h
          · cases h
          · cases h
            exact foldl_setEnv_inv inp ds bvs env0 hinv.typed hinv.bal hinv.vals
  have hinit0 : RInv [] [] [] :=
    ⟨rfl, (by intro x t h; simp at h), (by intro kv h; cases h), (by intro bv h; cases h)⟩
  unfold prepare
  constructor
  · split
    · rename_i err heq; exact hset.error_of heq
    · rename_i plain hsv
      have hp := setVars_plainOK hnames hsv
      obtain ⟨r1, r2⟩ := resolveVars_inv inp hp s.vars (fun d hd => hd) [] ds hcv [] [] hinit0
      split
      · rename_i err heq; exact r1.error_of heq
      · rename_i env0 bvs hrv
        exact (hinit env0 bvs (r2 env0 bvs hrv)).1
  · intro env bal pairs h
    split at h
    · cases h
    · rename_i plain hsv
      have hp := setVars_plainOK hnames hsv
      obtain ⟨r1, r2⟩ := resolveVars_inv inp hp s.vars (fun d hd => hd) [] ds hcv [] [] hinit0
      split at h
      · cases h
      · rename_i env0 bvs hrv
        exact (hinit env0 bvs (r2 env0 bvs hrv)).2 env bal pairs h

/-- `welltyped_no_stack_fault`: a program the compiler accepted never hits a typed-pop /
    stack fault nor a panic in `sem` (current variant of the code). -/
theorem sem_nf {s : Script} {ds : Decls} (htc : typecheck s = .ok ds) (inp : Input) :
    NF (sem Cfg.fixed s inp) := by
  obtain ⟨p1, p2⟩ := prepare_nf htc inp
  have hstm : ∀ x ∈ s.stmts, checkStmt ds x = .ok () := by
    unfold typecheck at htc
    split at htc
    · cases htc
    · split at htc
      · cases htc
      · rename_i hcs
        cases htc
        exact checkStmts_inv s.stmts hcs
  unfold sem
  rw [htc]
  simp only
  split
  · rename_i err heq; exact p1.error_of heq
  · rename_i env bal pairs hp
    obtain ⟨ht, hv⟩ := p2 env bal pairs hp
    have := runStmts_nf ht hv s.stmts hstm (initState bal)
    split
    · rename_i err heq; exact this.error_of heq
    · exact NF.ok _

end Ledger.Machine
