import Ledger.Proofs.MachineBC14

/-! Stage (f), part 15: the source allotment of `send`. -/
namespace Ledger.Machine

theorem evalAllotSrc_length (cfg : Cfg) (env : Env) (asset c : String) :
    (items : AllotSrcList) → ∀ (ps : List Int) (b : Balances) (fs : List Funding) (b' : Balances),
    evalAllotSrc cfg env asset c items ps b = .ok (fs, b') → fs.length = items.length
  | .nil, ps, b, fs, b', h => by simp only [evalAllotSrc] at h; cases h; rfl
  | .cons _ s rest, [], b, fs, b', h => by simp [evalAllotSrc] at h
  | .cons _ s rest, p :: ps, b, fs, b', h => by
    simp only [evalAllotSrc] at h
    split at h
    · cases h
    · rename_i f b1 _
      split at h
      · cases h
      · rename_i r b2 _
        split at h
        · cases h
        · rename_i rs b3 h3
          cases h
          simp [AllotSrcList.length, evalAllotSrc_length cfg env asset c rest ps b2 rs _ h3]

/-- Stack shape inside the per-source loop: the fundings taken so far, the remaining
    allocated amounts. -/
def SrcP (c : String) (n j : Nat) : Stack → Prop := fun stk =>
  ∃ (rs : List Funding) (ps : List Int) (rest : Stack),
    stk = rs.reverse.map SVal.funding ++ (ps.map (monV c) ++ rest) ∧ rs.length = j ∧ ps.length = n

def allotsrcK (env : Env) (asset c : String) (items : AllotSrcList) (j : Nat) : Kl := fun stk st =>
  match popMons items.length (stk.drop j) with
  | some (ps, rest) =>
    match evalAllotSrc Cfg.fixed env asset c items ps st.bal with
    | .error e => .error e
    | .ok (fs, b) => .ok (fs.reverse.map SVal.funding ++ (stk.take j ++ rest), { st with bal := b })
  | none => .error (.fault "stack")

theorem takeK_ok {env : Env} {fbE : Option Expr} {stk s1 : Stack} {st t1 : State}
    (h : takeK env fbE stk st = .ok (s1, t1)) :
    ∃ a v F rest r, stk = .val (.monetary a v) :: .funding F :: rest ∧ s1 = .funding r :: rest := by
  unfold takeK at h
  split at h
  · split at h
    · cases h
    · cases h; exact ⟨_, _, _, _, _, rfl, rfl⟩
  · cases h

theorem sim_allotsrc {ds : Decls} {env : Env} (henv : EnvTyped ds env) (C : CS → Prop) (hC : Stable C)
    {pushAsset : Act} {asset : String} (hpa : Sim ds env C pushAsset T (pushK (.asset asset)))
    (monAddr : Nat) (c : String) :
    (items : AllotSrcList) → checkAllotSources ds items = .ok () → ∀ j,
    Sim ds env C (cAllotSources pushAsset monAddr items (j + 1)) (SrcP c items.length j)
      (allotsrcK env asset c items j)
  | .nil, _, j => by
    have hk : cAllotSources pushAsset monAddr .nil (j + 1) = fun cs => .ok cs := by simp [cAllotSources]
    rw [hk]
    refine ((sim_skip ds env C).weaken (fun _ _ => trivial)).congr ?_
    rintro stk st ⟨rs, ps, rest, rfl, hj, hl⟩
    cases ps with
    | cons p ps => simp [AllotSrcList.length] at hl
    | nil => simp [Kl.id, allotsrcK, AllotSrcList.length, popMons, evalAllotSrc]
  | .cons pe s rest, hchk, j => by
    simp only [checkAllotSources] at hchk
    split at hchk
    · cases hchk
    · rename_i rc hcs
      refine ⟨fun cs cs' hg hc ha => ?_⟩
      simp only [cAllotSources] at ha
      split at ha
      · cases ha
      · rename_i accs fb cs1 hsub
        obtain ⟨seg1, e1, g1, hfb, r1⟩ := cSource_gen henv C hC hpa s false rc cs cs1 accs fb hcs hg hc hsub
        -- the rest of the iteration, from `cs1`
        let C' : CS → Prop := fun x => C x ∧ FbOK env fb s.fallback x
        have hC' : Stable C' := Stable.and hC (FbOK.stable env fb s.fallback)
        let P1 : Stack → Prop := fun stk => ∃ (F : Funding) (rs : List Funding) (p : Int) (ps : List Int) (tl : Stack),
          stk = .funding F :: (rs.reverse.map SVal.funding ++ (monV c p :: (ps.map (monV c) ++ tl))) ∧
          rs.length = j ∧ ps.length = rest.length
        let P2 : Stack → Prop := fun stk => ∃ (F : Funding) (rs : List Funding) (p : Int) (ps : List Int) (tl : Stack),
          stk = monV c p :: .funding F :: (rs.reverse.map SVal.funding ++ (ps.map (monV c) ++ tl)) ∧
          rs.length = j ∧ ps.length = rest.length
        have ih := (sim_allotsrc henv C hC hpa monAddr c rest hchk (j + 1)).strengthen (D := C') (fun _ h => h.1)
        have sT := ((sim_take ds env fb s.fallback).strengthen (D := C') (fun _ h => h.2)).weaken (Q := P2)
          (by rintro _ ⟨F, rs, p, ps, tl, rfl, _, _⟩; exact ⟨_, _, _, _, rfl⟩)
        have sB := (sim_bump ds env C' hC' (j + 1)).weaken (Q := P1) (fun _ _ => trivial)
        have sN := (sim_setNeeded ds env C' hC' accs monAddr).weaken (Q := P1) (fun _ _ => trivial)
        have hbump : ∀ (F : Funding) (rs : List Funding) (p : Int) (ps : List Int) (tl : Stack) (st : State),
            rs.length = j →
            bumpK (j + 1) (.funding F :: (rs.reverse.map SVal.funding ++ (monV c p :: (ps.map (monV c) ++ tl)))) st =
              .ok (monV c p :: .funding F :: (rs.reverse.map SVal.funding ++ (ps.map (monV c) ++ tl)), st) := by
          intro F rs p ps tl st hj
          have := bumpK_append (.funding F :: rs.reverse.map SVal.funding) (monV c p) (ps.map (monV c) ++ tl) st
          simpa [hj] using this
        have inner := Sim.cons hC' sN (Sim.cons hC' sB (Sim.cons hC' sT (Sim.single hC' ih)
          (by
            rintro stk st s1 t1 ⟨F, rs, p, ps, tl, rfl, hj, hl⟩ hk
            obtain ⟨a, v, F', rest', r, e1', e2'⟩ := takeK_ok hk
            cases e1'
            exact ⟨rs ++ [r], ps, tl, by simp [e2'], by simp [hj], hl⟩))
          (by
            rintro stk st s1 t1 ⟨F, rs, p, ps, tl, rfl, hj, hl⟩ hk
            rw [hbump F rs p ps tl st hj] at hk
            cases hk
            exact ⟨F, rs, p, ps, tl, rfl, hj, hl⟩))
          (by
            intro stk st s1 t1 hp hk
            simp only [Kl.id] at hk; cases hk; exact hp)
        obtain ⟨seg2, e2, g2, r2⟩ := inner.ok cs1 cs' g1 ⟨hC cs cs1 seg1 hc e1, hfb⟩ ha
        refine ⟨seg1 ++ seg2, e1.trans e2, g2, ?_⟩
        rintro R resv hf hr stk st ⟨rs, ps, tl, rfl, hj, hl⟩
        cases ps with
        | nil => simp [AllotSrcList.length] at hl
        | cons p ps =>
          have hl' : ps.length = rest.length := by simpa [AllotSrcList.length] using hl
          rw [runSeg_append, r1 R resv (Final.of_ext e2 hf) hr]
          have hdrop : (rs.reverse.map SVal.funding ++ ((p :: ps).map (monV c) ++ tl)).drop j =
              (p :: ps).map (monV c) ++ tl := by
            rw [List.drop_left' (by simp [hj])]
          have htake : (rs.reverse.map SVal.funding ++ ((p :: ps).map (monV c) ++ tl)).take j =
              rs.reverse.map SVal.funding := by
            rw [List.take_left' (by simp [hj])]
          simp only [srcK, allotsrcK, hdrop, htake, ← hl, popMons_all, evalAllotSrc]
          cases evalSource Cfg.fixed env asset s st.bal with
          | error err => rfl
          | ok q =>
            obtain ⟨F, b1⟩ := q
            simp only
            rw [r2 R resv hf hr _ _ ⟨F, rs, p, ps, tl, by simp, hj, hl'⟩]
            simp only [Kl.comp, Kl.id, List.map_cons, List.cons_append]
            rw [hbump F rs p ps tl _ hj]
            simp only [takeK, monV]
            cases takeFromSource env s.fallback F (c, some p) b1 with
            | error err => rfl
            | ok w =>
              obtain ⟨r, b2⟩ := w
              have hdrop2 : (SVal.funding r :: (rs.reverse.map SVal.funding ++ (ps.map (monV c) ++ tl))).drop (j + 1) =
                  ps.map (monV c) ++ tl := by
                simp only [List.drop_succ_cons]
                rw [List.drop_left' (by simp [hj])]
              have htake2 : (SVal.funding r :: (rs.reverse.map SVal.funding ++ (ps.map (monV c) ++ tl))).take (j + 1) =
                  SVal.funding r :: rs.reverse.map SVal.funding := by
                simp only [List.take_succ_cons]
                rw [List.take_left' (by simp [hj])]
              simp only [allotsrcK, monV] at hdrop2 htake2 ⊢
              simp only [hdrop2, htake2, ← hl', popMons_all]
              cases evalAllotSrc Cfg.fixed env asset c rest ps b2 with
              | error err => rfl
              | ok z =>
                obtain ⟨fs, b3⟩ := z
                simp

end Ledger.Machine
