import Ledger.Proofs.CtrlLog

/-! Idempotency keys: what `forgeLog` answers when a log already carries the key. -/
namespace Ledger.Ctrl

theorem step_ik_hit (strict : Bool) (s : State) (op : Op) (l : Log)
    (hk : op.ik ≠ "") (hf : readLogWithIK op.ik s.db = some l)
    (hh : ¬ (l.ihash ≠ "" ∧ l.ihash ≠ op.ihash)) :
    step strict s op = (s, { hit := true, log := some l }) := by
  unfold step forgeLog
  simp only [fires_nil, ikLookup, if_neg hk, run, exec, hf, if_neg hh, rolledBack]

theorem step_ik_mismatch (strict : Bool) (s : State) (op : Op) (l : Log)
    (hk : op.ik ≠ "") (hf : readLogWithIK op.ik s.db = some l)
    (hh : l.ihash ≠ "" ∧ l.ihash ≠ op.ihash) :
    step strict s op = (s, { err := some .invalidIdempotencyInput }) := by
  unfold step forgeLog
  simp only [fires_nil, ikLookup, if_neg hk, run, exec, hf, if_pos hh, rolledBack]

/-- A committed step: the journal grew by exactly the answered log. -/
theorem step_committed_appended (strict : Bool) (s : State) (op : Op)
    (he : (step strict s op).2.isError = false) (hh : (step strict s op).2.hit = false) (hd : op.dry = false) :
    ∃ log, (step strict s op).2.log = some log ∧ (step strict s op).1.db.logs = s.db.logs ++ [log] ∧
      log.ik = op.ik ∧ log.ihash = op.ihash ∧ log.schemaVersion = op.sv ∧ log.date = op.now := by
  unfold step at *
  rcases forgeLog_ending strict op [] false s with ⟨_, _, why⟩ | ⟨st0, st, log, hn, f', n, _, h0, _, hrun, hc⟩
  · exfalso
    rcases why with w | w | w
    · simp only [Resp.isError] at he; rw [he] at w; exact Bool.false_ne_true w
    · simp only at hh; rw [hh] at w; exact Bool.false_ne_true w
    · rw [hd] at w; exact Bool.false_ne_true w
  · have ha := run_runLog_ok op.now hn f' strict op.kind op.ik op.ihash op.sv n st0 st log hrun
    refine ⟨log, ?_, ?_, ha.ik, ha.ihash, ha.sv, ha.date⟩
    · show (forgeLog strict op [] false s).resp.log = some log
      rw [hc.2]
    · show (forgeLog strict op [] false s).state.db.logs = s.db.logs ++ [log]
      rw [hc.1, ← h0]; exact ha.logs

/-- Anything else leaves the journal as it is. -/
theorem step_not_committed_logs (strict : Bool) (s : State) (op : Op)
    (h : (step strict s op).2.isError = true ∨ (step strict s op).2.hit = true ∨ op.dry = true) :
    (step strict s op).1.db.logs = s.db.logs := by
  unfold step at *
  rcases forgeLog_ending strict op [] false s with ⟨hu, _, _⟩ | ⟨st0, st, log, hn, f', n, hd, _, _, _, hc⟩
  · show (forgeLog strict op [] false s).state.db.logs = s.db.logs
    rw [hu]
  · exfalso
    rcases h with w | w | w
    · have : (forgeLog strict op [] false s).resp.isError = false := by rw [hc.2]; rfl
      simp only at w; rw [this] at w; exact Bool.false_ne_true w
    · have : (forgeLog strict op [] false s).resp.hit = false := by rw [hc.2]
      simp only at w; rw [this] at w; exact Bool.false_ne_true w
    · rw [hd] at w; exact Bool.false_ne_true w

end Ledger.Ctrl
