import Ledger.Proofs.MachineSend

/-! The asset of the funding a source yields, and small helpers for the property files. -/
namespace Ledger.Machine

variable {cfg : Cfg}

mutual
  /-- Every `allowing overdraft up to X` clause of the source is in asset `asset`. -/
  def OdAsset (env : Env) (asset : String) : Source → Prop
    | .account _ od =>
      match od with
      | .upTo x => ∀ c v, evalMonetary env x = .ok (c, v) → c = asset
      | _ => True
    | .maxed _ s => OdAsset env asset s
    | .inorder ss => OdsAsset env asset ss
  def OdsAsset (env : Env) (asset : String) : SourceList → Prop
    | .nil => True
    | .cons s ss => OdAsset env asset s ∧ OdsAsset env asset ss
end

theorem takeMaxStep_asset {env : Env} {fb : Option Expr} {f : Funding} {mon : String × Option Int}
    {b b' : Balances} {r : Funding} (h : takeMaxStep env fb f mon b = .ok (r, b')) :
    r.asset = f.asset := by
  obtain ⟨t, _⟩ := takeMaxStep_ok h
  rw [t.assetR, t.assetF]

mutual
  theorem evalSource_asset (cfg : Cfg) (env : Env) (asset : String) :
      (s : Source) → (b : Balances) → (f : Funding) → (b' : Balances) →
      evalSource cfg env asset s b = .ok (f, b') →
      (cfg.overdraftAssetCheck = true ∨ OdAsset env asset s) → f.asset = asset
    | .account e od, b, f, b', h, ho => by
      simp only [evalSource] at h
      split at h
      · cases h
      · cases od with
        | none =>
          simp only at h
          split at h
          · cases h; rfl
          · split at h
            · cases h
            · cases h; rfl
        | upTo x =>
          simp only at h
          split at h
          · cases h
          · rename_i odv hm
            split at h
            · cases h
            · rename_i oa ov hchk
              obtain ⟨c1, _, c3⟩ := checkOverdraft_spec hchk
              simp only at c1
              split at h
              · cases h
              · cases h
                rw [c1]
                rcases ho with ho | ho
                · exact c3 ho
                · simp only [OdAsset] at ho
                  exact ho odv.1 odv.2 (by rw [hm])
        | unbounded => simp only at h; cases h; rfl
    | .maxed m s, b, f, b', h, ho => by
      simp only [evalSource] at h
      split at h
      · cases h
      · rename_i f0 b1 hs
        split at h
        · cases h
        · rw [takeMaxStep_asset h]
          exact evalSource_asset cfg env asset s b f0 b1 hs (ho.imp id (by simp only [OdAsset]; exact id))
    | .inorder ss, b, f, b', h, ho => by
      simp only [evalSource] at h
      split at h
      · cases h
      · rename_i fs b1 hs
        split at h
        · cases h
        · rename_i f1 hasm
          have hall := evalSources_asset cfg env asset ss b fs b1 hs
            (ho.imp id (by simp only [OdAsset]; exact id))
          obtain ⟨_, _, a3, _⟩ := assemble_ok hasm
          cases h
          cases fs with
          | nil => simp [assemble] at hasm
          | cons g gs =>
            rw [← a3 g (by simp)]; exact hall g (by simp)
  theorem evalSources_asset (cfg : Cfg) (env : Env) (asset : String) :
      (ss : SourceList) → (b : Balances) → (fs : List Funding) → (b' : Balances) →
      evalSources cfg env asset ss b = .ok (fs, b') →
      (cfg.overdraftAssetCheck = true ∨ OdsAsset env asset ss) → ∀ f ∈ fs, f.asset = asset
    | .nil, b, fs, b', h, _ => by
      simp only [evalSources] at h; cases h
      intro f hf; cases hf
    | .cons s ss, b, fs, b', h, ho => by
      simp only [evalSources] at h
      split at h
      · cases h
      · rename_i f b1 hs
        split at h
        · cases h
        · rename_i fs' b2 hss
          have i1 := evalSource_asset cfg env asset s b f b1 hs
            (ho.imp id (by simp only [OdsAsset]; exact fun x => x.1))
          have i2 := evalSources_asset cfg env asset ss b1 fs' b2 hss
            (ho.imp id (by simp only [OdsAsset]; exact fun x => x.2))
          cases h
          intro g hg
          rcases List.mem_cons.mp hg with rfl | hg
          · exact i1
          · exact i2 g hg
end

/-- The postings of a result, for `decide`-able examples. -/
def postingsOf (r : Except Err Result) : Option (List Posting) :=
  match r with
  | .ok x => some x.postings
  | .error _ => none

/-- The tracked balances `ResolveBalances` sets up, if the run gets that far. -/
def trackedInit (cfg : Cfg) (s : Script) (inp : Input) (a c : String) : Option Int :=
  match prepare cfg s inp with
  | .ok (_, bal, _) => bal.get a c
  | .error _ => none

/-- The environment of resolved variables, if the run gets that far. -/
def resolvedEnv (cfg : Cfg) (s : Script) (inp : Input) : Option Env :=
  match prepare cfg s inp with
  | .ok (env, _, _) => some env
  | .error _ => none

theorem sem_ok_iff {s : Script} {inp : Input} {r : Result} (h : sem cfg s inp = .ok r) :
    ∃ ds env bal pairs st, typecheck s = .ok ds ∧ prepare cfg s inp = .ok (env, bal, pairs) ∧
      runStmts cfg env s.stmts (initState bal) = .ok st ∧
      r = { postings := st.postings, txMeta := st.txMeta, accMeta := st.accMeta, final := st } := by
  unfold sem at h
  split at h
  · cases h
  · rename_i ds hds
    split at h
    · cases h
    · rename_i env bal pairs hp
      split at h
      · cases h
      · rename_i st hst
        cases h
        exact ⟨ds, env, bal, pairs, st, hds, hp, hst, rfl⟩

end Ledger.Machine
