import Ledger.Proofs.ReplWF

/-! `Clean` (the batcher's acknowledgement rule) holds in every reachable state. -/
namespace Ledger.Repl

theorem mem_idsOf {a b k : Nat} : k ∈ idsOf a b ↔ a < k ∧ k ≤ b := by
  simp [idsOf, List.mem_range'_1]; omega

/-- the handler, if any, is not in the middle of an export -/
def NotExp (s : State) : Prop :=
  ∀ h, s.handler = some h → ∀ lo hi m pos b g, h.pc ≠ .exporting lo hi m pos b g

theorem NotExp.clean {s : State} (n : NotExp s) : Clean s := by
  intro h lo hi m pos g hh hpc
  exact absurd hpc (n h hh lo hi m pos false g)

theorem notExp_finishOp {s : State} (hh : s.handler = none) : NotExp (finishOp s) := by
  unfold finishOp NotExp
  split <;> simp_all [startHandler, resetRow]

theorem notExp_exit (c : Cfg) (s : State) : NotExp (exitHandler c s) := by
  unfold exitHandler
  split
  · exact notExp_finishOp rfl
  · split <;> exact notExp_finishOp rfl

theorem clean_setHandler {s : State} {h' : Handler}
    (hc : ∀ lo hi m pos g, h'.pc = .exporting lo hi m pos false g → ∀ k, lo < k → k ≤ pos → k ∈ s.acked) :
    Clean { s with handler := some h' } := by
  intro h lo hi m pos g hh hpc
  simp at hh; subst hh
  exact hc lo hi m pos g hpc

theorem clean_atSelect {c : Cfg} {s : State} {h : Handler} {next : Pc}
    (hc : ∀ lo hi m pos g, next = .exporting lo hi m pos false g → ∀ k, lo < k → k ≤ pos → k ∈ s.acked) :
    Clean (atSelect c s h next) := by
  unfold atSelect
  split
  · exact (notExp_exit c s).clean
  · exact clean_setHandler (by simpa using hc)

theorem clean_afterSend (c : Cfg) (s : State) (h : Handler) (more coin : Bool) :
    Clean (afterSend c s h more coin) := by
  unfold afterSend
  split
  · split
    · exact (notExp_exit c s).clean
    · exact clean_setHandler (by simp)
  · exact clean_atSelect (by simp)

theorem clean_requestStop {c : Cfg} {s : State} {h : Handler} : Clean (requestStop c s h) := by
  unfold requestStop
  split
  · rename_i hpc; exact clean_setHandler (by simp [hpc])
  · rename_i hpc; exact clean_setHandler (by simp [hpc])
  · exact (notExp_exit c s).clean

theorem clean_startHandler (s : State) (last : Nat) : Clean (startHandler s last) := by
  intro h lo hi m pos g hh hpc
  simp [startHandler] at hh; subst hh; simp at hpc

theorem clean_exportDone (c : Cfg) (s : State) (h : Handler) (hi : Nat) (more : Bool) :
    Clean (exportDone c s h hi more) := by
  unfold exportDone
  split
  · exact clean_afterSend c _ _ _ _
  · exact clean_setHandler (s := ack s hi) (by simp)

/-- `Clean` only looks at the handler and grows with `acked`. -/
theorem Clean.congr {s s' : State} (cl : Clean s) (hh : s'.handler = s.handler)
    (hm : ∀ k, k ∈ s.acked → k ∈ s'.acked) : Clean s' := by
  intro h lo hi m pos g hh' hpc k h1 h2
  exact hm k (cl h lo hi m pos g (by rw [← hh]; exact hh') hpc k h1 h2)

theorem exporterCall_acked_mono (s : State) (a b : Nat) (r : AcceptRes) :
    ∀ k, k ∈ s.acked → k ∈ (exporterCall s a b r).acked := by
  intro k hk
  cases r <;> simp [exporterCall, ackItems, deliver, hk]

theorem clean_init : Clean State.init := by
  intro h lo hi m pos g hh; simp [State.init] at hh

theorem clean_step {c : Cfg} {s s' : State} {l : Label} (w : WF s) (cl : Clean s)
    (hs : step c s l = some s') : Clean s' := by
  cases l with
  | append n =>
    simp only [step, Option.some.injEq] at hs; subst hs
    exact cl.congr rfl (fun _ h => h)
  | create =>
    simp only [step] at hs
    split at hs <;> simp at hs
    subst hs; exact clean_startHandler _ _
  | start =>
    simp only [step] at hs
    split at hs
    case isFalse => simp at hs
    case isTrue =>
      split at hs
      · simp at hs; subst hs; exact cl
      · split at hs <;> simp at hs <;> subst hs
        · exact cl
        · exact clean_startHandler _ _
  | stop =>
    simp only [step] at hs
    split at hs
    case isFalse => simp at hs
    case isTrue =>
      split at hs <;> simp at hs <;> subst hs
      · exact cl
      · exact clean_requestStop
  | reset =>
    simp only [step] at hs
    split at hs
    case isFalse => simp at hs
    case isTrue =>
      split at hs
      · simp at hs; subst hs; exact cl
      · split at hs <;> simp at hs <;> subst hs
        · rename_i hn
          intro h lo hi m pos g hh
          simp [resetRow, hn] at hh
        · exact clean_requestStop
  | sync =>
    simp only [step] at hs
    split at hs
    case isFalse => simp at hs
    case isTrue =>
      split at hs <;> simp at hs <;> subst hs
      · exact clean_startHandler _ _
      · exact cl
  | mgrStop =>
    simp only [step] at hs
    split at hs
    case isFalse => simp at hs
    case isTrue =>
      split at hs <;> simp at hs <;> subst hs
      · exact cl.congr rfl (fun _ h => h)
      · exact clean_requestStop
  | mgrStart =>
    simp only [step] at hs
    split at hs
    case isFalse => simp at hs
    case isTrue =>
      split at hs <;> simp at hs <;> subst hs
      · exact clean_startHandler _ _
      · exact cl.congr rfl (fun _ h => h)
  | fetch ok =>
    simp only [step] at hs
    split at hs
    · simp at hs
    · split at hs
      · split at hs
        · split at hs <;> simp at hs <;> subst hs
          · apply clean_atSelect
            intro lo hi m pos g e k h1 h2
            simp [enterExport] at e
            omega
          · exact clean_atSelect (by simp)
        · simp at hs; subst hs; exact clean_atSelect (by simp)
      · simp at hs
  | accept r =>
    simp only [step] at hs
    split at hs
    · simp at hs
    · rename_i h hh
      split at hs
      · rename_i lo hi more pos bad hpc
        have hok := w.pcOk h hh
        simp only [PcOk, hpc] at hok
        have hb := chunkEnd_bounds (c := c) hok.2.2.2.2
        split at hs
        · simp at hs; subst hs
          apply clean_setHandler
          intro lo' hi' m' pos' g' e k h1 h2
          simp at e
          obtain ⟨e1, e2, e3, e4, e5, e6⟩ := e
          subst e1 e2 e3 e4
          obtain ⟨hb0, hr⟩ := e5
          cases r <;> simp [AcceptRes.isOk] at hr
          by_cases hkp : k ≤ pos
          · exact exporterCall_acked_mono s _ _ _ k (cl h lo hi more pos true hh (by rw [hpc, hb0]) k h1 hkp)
          · simp only [exporterCall, ackItems]
            exact List.mem_append_left _ (mem_idsOf.mpr ⟨by omega, h2⟩)
        · split at hs
          · simp at hs; subst hs; exact clean_atSelect (by simp)
          · simp at hs; subst hs; exact clean_exportDone _ _ _ _ _
      · simp at hs
  | persist k ok coin =>
    have hw : ∀ (v : Nat) (t : State), (write ok v t).handler = t.handler ∧ (write ok v t).acked = t.acked := by
      intro v t; unfold write; split <;> simp
    simp only [step] at hs
    split at hs
    · simp at hs; subst hs
      exact cl.congr (by simp [(hw _ _).1]) (by simp [(hw _ _).2])
    · split at hs
      · split at hs
        · simp at hs
        · split at hs
          · simp at hs; subst hs
            exact cl.congr (by simp [(hw _ _).1]) (by simp [(hw _ _).2])
          · split at hs
            · simp at hs; subst hs; exact clean_afterSend _ _ _ _ _
            · simp at hs; subst hs
              exact cl.congr (by simp [(hw _ _).1]) (by simp [(hw _ _).2])
      · simp at hs
  | tick =>
    simp only [step] at hs
    split at hs
    · simp at hs; subst hs; exact cl
    · rename_i h hh
      split at hs <;> simp at hs <;> subst hs
      · exact clean_setHandler (by simp)
      · exact clean_setHandler (by split <;> simp)
      · apply clean_setHandler
        intro lo hi m pos g e k h1 h2
        simp [enterExport] at e
        omega
      · rename_i lo hi more pos bad hpc
        apply clean_setHandler
        intro lo' hi' m' pos' g' e k h1 h2
        simp at e
        obtain ⟨e1, e2, e3, e4, e5, e6⟩ := e
        subst e1 e2 e3 e4 e5
        exact cl h lo hi more pos false hh hpc k h1 h2
      · exact cl

theorem clean_reach {c : Cfg} {s : State} (r : Reach c s) : Clean s := by
  induction r with
  | init => exact clean_init
  | step l r hs ih => exact clean_step (wf_reach r) ih hs

end Ledger.Repl
