import Ledger.E2e.Multi
import Ledger.Proofs.CtrlAcc

/-!
Helper lemmas for `Ledger.Props.C19e`: an interleaved multi-ledger history projects, ledger by
ledger, onto the single-ledger model; the storage driver's alone-in-bucket hint is correct after
any sequence of create / open.
-/
namespace Ledger.E2e
open Ledger.Base Ledger.Core Ledger.Ctrl

theorem stepM_other (strict : Bool) (m : MState) (l l' : String) (op : Op) (f : Faults) (cf : Bool) (h : l' ≠ l) :
    (stepM strict m l op f cf).1.ledgers l' = m.ledgers l' := by
  simp [stepM, h]

theorem stepM_self (strict : Bool) (m : MState) (l : String) (op : Op) :
    (stepM strict m l op).1.ledgers l = (step strict (m.ledgers l) op).1 := by
  simp [stepM, Ledger.Ctrl.stepF, step]

theorem runM_project (strict : Bool) (m : MState) (h : List (String × Op)) (l : String) :
    (runM strict m h).ledgers l = runHist strict (m.ledgers l) (opsOf l h) := by
  induction h generalizing m with
  | nil => rfl
  | cons e r ih =>
    obtain ⟨l', op⟩ := e
    simp only [runM]
    rw [ih]
    by_cases hl : l' = l
    · subst hl
      simp only [opsOf, List.filterMap_cons, ↓reduceIte, runHist]
      rw [stepM_self]
    · have hne : l ≠ l' := fun h => hl h.symm
      simp only [opsOf, List.filterMap_cons, hl, ↓reduceIte]
      rw [stepM_other strict m l' l op [] false hne]

/-! ### the alone-in-bucket hint -/

theorem count_append_other (ledgers : List (String × String)) (name bucket b : String) (h : b ≠ bucket) :
    ((ledgers ++ [(name, bucket)]).filter (·.2 == b)).length = (ledgers.filter (·.2 == b)).length := by
  have : ((bucket == b) = false) := by simp [Ne.symm h]
  simp [List.filter_append, this]

theorem driverStep_hints (d : DriverState) (op : DriverOp) (h : d.HintsCorrect) : (driverStep d op).HintsCorrect := by
  cases op with
  | create name bucket =>
    simp only [driverStep]
    by_cases hdup : d.ledgers.any (·.1 == name) = true
    · simp only [hdup, ↓reduceIte]; exact h
    · simp only [hdup, Bool.false_eq_true, ↓reduceIte]
      intro b v hv
      by_cases hb : b = bucket
      · subst hb
        rw [get?_insert_self] at hv
        simp only [DriverState.count]
        exact (Option.some.inj hv).symm
      · rw [get?_insert_ne _ _ _ _ hb] at hv
        have := h b v hv
        simp only [DriverState.count] at this ⊢
        simp only [count_append_other _ _ _ _ hb]
        exact this
  | openLedger name =>
    simp only [driverStep]
    cases hf : d.ledgers.find? (·.1 == name) with
    | none => exact h
    | some e =>
      obtain ⟨n, bucket⟩ := e
      intro b v hv
      simp only at hv
      by_cases hb : b = bucket
      · subst hb
        rw [get?_insert_self] at hv
        simp only [DriverState.count] at hv ⊢
        exact (Option.some.inj hv).symm
      · rw [get?_insert_ne _ _ _ _ hb] at hv
        exact h b v hv

theorem driverRun_hints (d : DriverState) (ops : List DriverOp) (h : d.HintsCorrect) : (driverRun d ops).HintsCorrect := by
  induction ops generalizing d with
  | nil => exact h
  | cons op r ih => exact ih _ (driverStep_hints d op h)

theorem hints_empty : ({} : DriverState).HintsCorrect := by
  intro b v hv
  simp [Map.get?] at hv

end Ledger.E2e
