import Ledger.Proofs.SqlCommit
import Ledger.Proofs.SqlAccountsSpec

/-!
# `CommitTransaction` followed by `UpsertAccounts` (transaction creation: `upsertAccounts = true`)
-/
open Ledger Ledger.Sql Ledger.Generated Ledger.Core Ledger.Base
open Ledger.Generated.WriteSql.P (AccountRow)
namespace Ledger.Sql
open Ledger.Spec
open Ledger.Generated.WriteSql

theorem acFull_ne_avFull (b : String) : acFull b ≠ avFull b := by
  intro h
  have := congrArg String.length h
  simp [acFull, avFull, String.length_append] at this
  exact absurd this (by decide)

theorem acFull_ne_txFull (b : String) : acFull b ≠ txFull b := by
  intro h
  have := congrArg String.length h
  simp [acFull, txFull, String.length_append] at this
  exact absurd this (by decide)

theorem acFull_ne_mvFull (b : String) : acFull b ≠ mvFull b := by
  intro h
  have := congrArg String.length h
  simp [acFull, mvFull, String.length_append] at this
  exact absurd this (by decide)

/-- the hypotheses on `accounts` at the start of the store call -/
structure CommitAccounts (s : St) (b : String) (trigsC : List TriggerDef) (nrC : Nat) (rowsC : List Ver) : Prop where
  table : s.w.table? (acFull b) = some ((acT b trigsC nrC).withRows rowsC)
  fresh : Fresh s.xid s.nextCid rowsC
  inv : AcInv (latestView s.w s.xid) nrC rowsC
  noUpdB : trigsC.filter (fun tr => tr.timing == .before && tr.event == .update) = []
  noUpdA : trigsC.filter (fun tr => tr.timing == .after && tr.event == .update) = []
  noInsB : trigsC.filter (fun tr => tr.timing == .before && tr.event == .insert) = []
  noInsA : trigsC.filter (fun tr => tr.timing == .after && tr.event == .insert) = []

end Ledger.Sql

namespace Ledger.Sql
open Ledger.Spec
open Ledger.Generated.WriteSql

/-- **CommitTransaction + UpsertAccounts** (`upsertAccounts = true`): the four generated statements as successive commands. -/
theorem exec_commit4 (k : Nat) (env : Env) (henv : env.ctes = []) (b l : String) (id : Nat)
    (rsA : List Ver) (nrA : Nat) (trigsT : List TriggerDef) (nrT : Nat) (rowsT : List Ver) (fullT : String) (sqT : Seq)
    (trigsM : List TriggerDef) (B1 B2 : List TriggerDef) (trB : TriggerDef) (A1 A2 : List TriggerDef) (trA : TriggerDef)
    (item wher dflt_ : Expr) (fB : PlFunc) (setE whereU : Expr) (fA : PlFunc) (nrM : Nat) (rowsM : List Ver) (sqM : Seq)
    (trigsC : List TriggerDef) (nrC : Nat) (rowsC : List Ver) (s : St)
    (hst : CommitState s b l rsA nrA trigsT nrT rowsT fullT sqT trigsM B1 B2 trB A1 A2 trA item wher dflt_ fB setE whereU fA nrM rowsM sqM)
    (hac : CommitAccounts s b trigsC nrC rowsC)
    (vrows : List P.VolumeRow) (hvne : vrows ≠ []) (hvnd : (vrows.map avKeyOf).Nodup)
    (av : PCV) (hwf : Map.WF av) (habs : ∀ key, avAbs s b l key = av.get? key)
    (L : TxLits) (hl : SeqLit (txSeqLit b id) fullT) (x : TxR) (hlit : TxLit s.w.types l L x) (hid : x.id = sqT.next)
    (href : ∀ r ∈ rowsT, r.visible (latestView s.w s.xid) = true → ∀ x', r.vals = txVals x' → txConf2 x x' = false)
    (pm : List (P.MoveRow × Spec.MoveRow)) (hne : pm ≠ []) (hlits : ∀ y ∈ pm, MvLit s.w.types y.1 y.2)
    (hsf : SeqFrom sqM.next (pm.map (·.2))) (hrange : sqM.next + pm.length ≤ 9223372036854775808)
    (hnc : s.nextCid + 4 + 4 * pm.length ≤ 1000000000)
    (T : List Spec.MoveRow) (hT : T.Perm (ledgerMoves l (mvAbs (latestView s.w s.xid) rowsM)))
    (am : List (P.AccountRow × DbR)) (halits : ∀ y ∈ am, DbLit s.w.types y.1 y.2) (hand : ((am.map (·.2)).map (·.address)).Nodup) :
    ∃ (rsA' : List Ver) (nrA' : Nat) (rowsM' : List Ver) (seqs' : List Seq) (rowsC' : List Ver) (nC : Nat) (resA : DmlResult) (s' : St),
      (seqRun (k + 19) env (P.updateVolumes b l id vrows ++
          P.insertTransaction b l id L.postings L.metadata L.timestamp L.reference L.inserted_at L.updated_at L.post_commit_volumes
            L.template L.sources L.destinations L.sources_arrays L.destinations_arrays ++
          P.insertMoves b l id (pm.map (·.1)) ++ P.upsertAccounts b l id (am.map (·.1)))).exec s =
        (.ok [{ rel := { cols := ["input", "output"],
                         rows := (Spec.upsertVolumes av (vuOf vrows)).2.map (fun e => [.int e.2.input, .int e.2.output]) },
                affected := vrows.length },
              { rel := { cols := ["id", "timestamp", "inserted_at", "updated_at"],
                         rows := [[.int x.id, .ts x.timestamp, optTs x.insertedAt, .ts x.updatedAt]] }, affected := 1 },
              { rel := { cols := ["post_commit_volumes", "post_commit_effective_volumes"],
                         rows := (Spec.insertedRows T (pm.map (·.2))).map retOf }, affected := pm.length },
              resA], s') ∧
      s' = (((((s.bump (4 + 4 * pm.length)).withSeqs seqs').withTable (avT b rsA' nrA')).withTable
              ((txT b trigsT (nrT + 1)).withRows (newVer s.xid (s.nextCid + 1) nrT (txVals x) :: rowsT))).withTable
              ((mvT b trigsM (nrM + pm.length)).withRows rowsM')).withTable ((acT b trigsC (nrC + nC)).withRows rowsC') ∧
      AvInv (latestView s.w s.xid) rsA' nrA' ∧
      (∀ key, avView (latestView s.w s.xid) rsA' l key = (Spec.upsertVolumes av (vuOf vrows)).1.get? key) ∧
      (∀ l', l' ≠ l → ∀ key, avView (latestView s.w s.xid) rsA' l' key = avView (latestView s.w s.xid) rsA l' key) ∧
      (ledgerMoves l (mvAbs (latestView s.w s.xid) rowsM')).Perm (Spec.insertMoves T (pm.map (·.2))) ∧
      (∀ l', l' ≠ l → (ledgerMoves l' (mvAbs (latestView s.w s.xid) rowsM')).Perm (ledgerMoves l' (mvAbs (latestView s.w s.xid) rowsM))) ∧
      MvInv (latestView s.w s.xid) (sqM.next + pm.length) rowsM' ∧
      (acAbs (latestView s.w s.xid) rowsC').Perm
        (((am.map (·.2)).filter (fun d => !hasAccount l (acAbs (latestView s.w s.xid) rowsC) d.address)).map (insRow l) ++
          (acAbs (latestView s.w s.xid) rowsC).map (updOf l (am.map (·.2)))) ∧
      AcInv (latestView s.w s.xid) (nrC + nC) rowsC' ∧
      seqs'.find? (·.name == mvSeqFull b) = some { sqM with last := sqM.next + pm.length - 1, called := true } ∧
      seqs'.find? (·.name == fullT) = some { sqT with last := sqT.next, called := true } := by
  obtain ⟨rsA', nrA', rowsM', seqs', s3, hrun3, hs3, hinvA, hav1, hav2, hmv1, hmv2, hmvInv, hsqM, hsqT⟩ :=
    exec_commit3 (k + 4) env b l id rsA nrA trigsT nrT rowsT fullT sqT trigsM B1 B2 trB A1 A2 trA item wher dflt_ fB setE whereU fA nrM rowsM sqM s
      hst vrows hvne hvnd av hwf habs L hl x hlit hid href pm hne hlits hsf hrange (by omega) T hT
  have hT3 : s3.w.table? (acFull b) = some ((acT b trigsC nrC).withRows rowsC) := by
    rw [hs3]
    have e1 := withTable_table?_ne ((((s.bump (3 + 4 * pm.length)).withSeqs seqs').withTable (avT b rsA' nrA')).withTable
      ((txT b trigsT (nrT + 1)).withRows (newVer s.xid (s.nextCid + 1) nrT (txVals x) :: rowsT)))
      ((mvT b trigsM (nrM + pm.length)).withRows rowsM') (acFull b) (acFull_ne_mvFull b)
    have e2 := withTable_table?_ne (((s.bump (3 + 4 * pm.length)).withSeqs seqs').withTable (avT b rsA' nrA'))
      ((txT b trigsT (nrT + 1)).withRows (newVer s.xid (s.nextCid + 1) nrT (txVals x) :: rowsT)) (acFull b) (acFull_ne_txFull b)
    have e3 := withTable_table?_ne ((s.bump (3 + 4 * pm.length)).withSeqs seqs') (avT b rsA' nrA') (acFull b) (acFull_ne_avFull b)
    exact e1.trans (e2.trans (e3.trans hac.table))
  have hTx3 : TxState s3 := by
    rw [hs3]; exact ((((hst.tx.bump _).withSeqs _).withTable _).withTable _).withTable _
  have hnc3 : s3.nextCid = s.nextCid + (3 + 4 * pm.length) := by rw [hs3]; rfl
  have hxid3 : s3.xid = s.xid := by rw [hs3]; rfl
  have hcid3 : s3.cid = s.cid := by rw [hs3]; rfl
  have hq3 : s3.afterQ = [] := by rw [hs3]; exact hst.q0
  have hlv3 : latestView s3.w s.xid = latestView s.w s.xid := by rw [hs3]; rfl
  have hty3 : s3.w.types = s.w.types := by rw [hs3]; rfl
  have hUS : UpsertState s3.enter b trigsC nrC rowsC :=
    { tbl :=
        { tx := hTx3.enter (by rw [hnc3]; omega)
          bne := hst.bne
          table := hT3
          fresh := by
            show Fresh s3.xid s3.nextCid rowsC
            rw [hxid3, hnc3]; exact hac.fresh.mono (by omega)
          inv := by
            show AcInv (latestView s3.w s3.xid) nrC rowsC
            rw [hxid3, hlv3]; exact hac.inv
          noUpdB := hac.noUpdB }
      q0 := hq3
      noUpdA := hac.noUpdA
      noInsB := hac.noInsB
      noInsA := hac.noInsA }
  obtain ⟨resA, rowsC', nC, hrun4, hperm4, hinv4⟩ := upsertAccounts_sem k env b l id trigsC nrC rowsC s3.enter hUS henv am
    (by intro y hy; show DbLit s3.w.types y.1 y.2; rw [hty3]; exact halits y hy) hand
  have hlvE : latestView s3.enter.w s3.enter.xid = latestView s.w s.xid := by
    show latestView s3.w s3.xid = _
    rw [hxid3, hlv3]
  rw [hlvE] at hperm4 hinv4
  obtain ⟨_, _, _, _, _, _, hshapeU, _, _⟩ := upsertAccounts_shape4 b l id
  have hsh := hshapeU (am.map (·.1))
  generalize hU4 : P.upsertAccounts b l id (am.map (·.1)) = U4 at *
  subst hsh
  have hone := exec_mapM_single_inv _ _ _ _ _ hrun4
  have hseq4 := exec_seqRun_single' (k + 19) env _ s3 _ resA hone
  rw [enter_withTable_withCid] at hseq4
  have hall := exec_seqRun_append (k + 19) env _ _ _ _ _ _ _ hrun3 hseq4
  refine ⟨rsA', nrA', rowsM', seqs', rowsC', nC, resA, (s3.bump 1).withTable ((acT b trigsC (nrC + nC)).withRows rowsC'), ?_, ?_, hinvA, hav1, hav2, hmv1, hmv2, hmvInv, hperm4, hinv4, hsqM, hsqT⟩
  · simpa [List.append_assoc] using hall
  · rw [hs3]
    simp only [St.bump, St.withSeqs, St.withTable]
    congr 1
    omega

end Ledger.Sql
