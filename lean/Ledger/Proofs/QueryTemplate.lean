import Ledger.Query.RunQuery

/-! Lemmas about template resolution and parameter overwriting (C37). -/
namespace Ledger.Query

mutual
theorem resolveTree_ok (leaf : Op → String → Val → Except TErr Val) : ∀ (f g : Filter),
    resolveTree leaf f = .ok g →
    (∀ l ∈ f.leaves, ∃ v', leaf l.1 l.2.1 l.2.2 = .ok v') ∧ g = substTree (resolvedValue leaf) f
  | .leaf op k v, g, h => by
    simp only [resolveTree] at h
    cases hl : leaf op k v with
    | error e => rw [hl] at h; cases h
    | ok v' =>
      rw [hl] at h
      cases h
      refine ⟨?_, by simp [substTree, resolvedValue, hl]⟩
      intro l hmem
      simp only [Filter.leaves, List.mem_singleton] at hmem
      subst hmem; exact ⟨v', hl⟩
  | .not f, g, h => by
    simp only [resolveTree] at h
    cases hr : resolveTree leaf f with
    | error e => rw [hr] at h; cases h
    | ok f' =>
      rw [hr] at h; cases h
      obtain ⟨h1, h2⟩ := resolveTree_ok leaf f f' hr
      exact ⟨by simpa [Filter.leaves] using h1, by simp [substTree, h2]⟩
  | .and fs, g, h => by
    simp only [resolveTree] at h
    cases hr : resolveTreeList leaf fs with
    | error e => rw [hr] at h; cases h
    | ok fs' =>
      rw [hr] at h; cases h
      obtain ⟨h1, h2⟩ := resolveTreeList_ok leaf fs fs' hr
      exact ⟨by simpa [Filter.leaves] using h1, by simp [substTree, h2]⟩
  | .or fs, g, h => by
    simp only [resolveTree] at h
    cases hr : resolveTreeList leaf fs with
    | error e => rw [hr] at h; cases h
    | ok fs' =>
      rw [hr] at h; cases h
      obtain ⟨h1, h2⟩ := resolveTreeList_ok leaf fs fs' hr
      exact ⟨by simpa [Filter.leaves] using h1, by simp [substTree, h2]⟩
theorem resolveTreeList_ok (leaf : Op → String → Val → Except TErr Val) : ∀ (fs gs : List Filter),
    resolveTreeList leaf fs = .ok gs →
    (∀ l ∈ Filter.leavesList fs, ∃ v', leaf l.1 l.2.1 l.2.2 = .ok v') ∧
      gs = substTreeList (resolvedValue leaf) fs
  | [], gs, h => by
    simp only [resolveTreeList] at h; cases h
    exact ⟨by simp [Filter.leavesList], rfl⟩
  | f :: fs, gs, h => by
    simp only [resolveTreeList] at h
    cases hr : resolveTree leaf f with
    | error e => rw [hr] at h; cases h
    | ok f' =>
      rw [hr] at h
      cases hrs : resolveTreeList leaf fs with
      | error e => rw [hrs] at h; cases h
      | ok fs' =>
        rw [hrs] at h; cases h
        obtain ⟨h1, h2⟩ := resolveTree_ok leaf f f' hr
        obtain ⟨h3, h4⟩ := resolveTreeList_ok leaf fs fs' hrs
        refine ⟨?_, by simp [substTreeList, h2, h4]⟩
        intro l hl
        simp only [Filter.leavesList, List.mem_append] at hl
        rcases hl with hl | hl
        · exact h1 l hl
        · exact h3 l hl
end

mutual
theorem resolveTree_error (leaf : Op → String → Val → Except TErr Val) : ∀ (f : Filter) (e : TErr),
    resolveTree leaf f = .error e → ∃ l ∈ f.leaves, leaf l.1 l.2.1 l.2.2 = .error e
  | .leaf op k v, e, h => by
    simp only [resolveTree] at h
    cases hl : leaf op k v with
    | error e' => rw [hl] at h; cases h; exact ⟨(op, k, v), by simp [Filter.leaves], hl⟩
    | ok v' => rw [hl] at h; cases h
  | .not f, e, h => by
    simp only [resolveTree] at h
    cases hr : resolveTree leaf f with
    | error e' =>
      rw [hr] at h; cases h
      simpa [Filter.leaves] using resolveTree_error leaf f e hr
    | ok f' => rw [hr] at h; cases h
  | .and fs, e, h => by
    simp only [resolveTree] at h
    cases hr : resolveTreeList leaf fs with
    | error e' =>
      rw [hr] at h; cases h
      simpa [Filter.leaves] using resolveTreeList_error leaf fs e hr
    | ok fs' => rw [hr] at h; cases h
  | .or fs, e, h => by
    simp only [resolveTree] at h
    cases hr : resolveTreeList leaf fs with
    | error e' =>
      rw [hr] at h; cases h
      simpa [Filter.leaves] using resolveTreeList_error leaf fs e hr
    | ok fs' => rw [hr] at h; cases h
theorem resolveTreeList_error (leaf : Op → String → Val → Except TErr Val) :
    ∀ (fs : List Filter) (e : TErr),
    resolveTreeList leaf fs = .error e → ∃ l ∈ Filter.leavesList fs, leaf l.1 l.2.1 l.2.2 = .error e
  | [], e, h => by simp [resolveTreeList] at h
  | f :: fs, e, h => by
    simp only [resolveTreeList] at h
    cases hr : resolveTree leaf f with
    | error e' =>
      rw [hr] at h; cases h
      obtain ⟨l, hl, he⟩ := resolveTree_error leaf f e hr
      exact ⟨l, by simp [Filter.leavesList, hl], he⟩
    | ok f' =>
      rw [hr] at h
      cases hrs : resolveTreeList leaf fs with
      | error e' =>
        rw [hrs] at h; cases h
        obtain ⟨l, hl, he⟩ := resolveTreeList_error leaf fs e hrs
        exact ⟨l, by simp [Filter.leavesList, hl], he⟩
      | ok fs' => rw [hrs] at h; cases h
end

mutual
/-- Substitution keeps the leaves' operators and keys, in order. -/
theorem leaves_substTree (σ : Op → String → Val → Val) : ∀ (f : Filter),
    (substTree σ f).leaves = f.leaves.map fun l => (l.1, l.2.1, σ l.1 l.2.1 l.2.2)
  | .leaf op k v => by simp [substTree, Filter.leaves]
  | .not f => by simp [substTree, Filter.leaves, leaves_substTree σ f]
  | .and fs => by simp [substTree, Filter.leaves, leavesList_substTree σ fs]
  | .or fs => by simp [substTree, Filter.leaves, leavesList_substTree σ fs]
theorem leavesList_substTree (σ : Op → String → Val → Val) : ∀ (fs : List Filter),
    Filter.leavesList (substTreeList σ fs) =
      (Filter.leavesList fs).map fun l => (l.1, l.2.1, σ l.1 l.2.1 l.2.2)
  | [] => by simp [substTreeList, Filter.leavesList]
  | f :: fs => by
    simp [substTreeList, Filter.leavesList, leaves_substTree σ f, leavesList_substTree σ fs]
end


theorem parseTemplateAux_noDollar : ∀ (cps : List Nat) (cur : List Char) (fuel : Nat),
    (∀ c ∈ cps, c ≠ 36) → fuel > cps.length →
    parseTemplateAux fuel cps cur =
      .ok (if (cur.reverse ++ cps.map Char.ofNat).isEmpty then [] else [.lit (cur.reverse ++ cps.map Char.ofNat)])
  | [], cur, fuel, _, hf => by
    obtain ⟨f, rfl⟩ : ∃ f, fuel = f + 1 := ⟨fuel - 1, by simp at hf; omega⟩
    simp [parseTemplateAux]
  | c :: cs, cur, fuel, hc, hf => by
    obtain ⟨f, rfl⟩ : ∃ f, fuel = f + 1 := ⟨fuel - 1, by simp at hf; omega⟩
    have h36 : (c == 36) = false := by simpa using hc c (List.mem_cons_self)
    simp only [parseTemplateAux, h36, Bool.false_eq_true, ↓reduceIte]
    rw [parseTemplateAux_noDollar cs (Char.ofNat c :: cur) f
      (fun x hx => hc x (List.mem_cons_of_mem _ hx)) (by simp at hf; omega)]
    simp

/-- A string without `$` is a literal: substitution returns it unchanged. -/
theorem replaceVariables_literal (s : String) (vars : Vars) (h : ∀ c ∈ s.toList, c ≠ '$') :
    replaceVariables codePoints s vars = .ok s := by
  unfold replaceVariables parseTemplate codePoints
  rw [parseTemplateAux_noDollar _ [] _ (by
        intro c hc
        simp only [List.mem_map] at hc
        obtain ⟨ch, hch, rfl⟩ := hc
        intro h36
        apply h ch hch
        have : Char.ofNat ch.toNat = Char.ofNat 36 := by rw [h36]
        simpa using this) (by simp)]
  simp only [List.reverse_nil, List.nil_append, List.map_map]
  have hid : (s.toList.map (Char.ofNat ∘ Char.toNat)) = s.toList := by
    conv => rhs; rw [← List.map_id s.toList]
    apply List.map_congr_left
    intro c _
    simp
  rw [hid]
  by_cases he : s.toList.isEmpty = true
  · simp only [he, ↓reduceIte, renderPieces]
    have : s.toList = [] := by simpa using he
    congr 1
    exact (String.toList_eq_nil_iff.mp this).symm
  · simp only [he, Bool.false_eq_true, ↓reduceIte, renderPieces]
    simp



theorem applySortOpts_keeps (p p' : Params) (j : ParamsJson) (h : applySortOpts p j = .ok p') :
    p'.pit = p.pit ∧ p'.oot = p.oot ∧ p'.expand = p.expand ∧ p'.pageSize = p.pageSize ∧
    p'.opts.groupLvl = j.groupBy.getD p.opts.groupLvl ∧
    p'.opts.useInsertionDate = j.insertionDate.getD p.opts.useInsertionDate ∧
    (j.sort = none → p'.sortColumn = p.sortColumn ∧ p'.sortOrder = p.sortOrder) := by
  unfold applySortOpts at h
  simp only [bind, Except.bind, pure, Except.pure] at h
  split at h
  · cases h
  · rename_i q hq
    cases h
    simp only
    split at hq
    · cases hq; simp
    · cases hq; simp
    · rename_i s hs1 hs2
      split at hq
      · cases hq
      · split at hq
        · cases hq; simp [hs2]
        · split at hq
          · cases hq; simp [hs2]
          · split at hq
            · cases hq; simp [hs2]
            · cases hq

theorem optDate_ok (pd : String → Option Int) (o : Option String) (r : Option Int)
    (h : optDate pd o = .ok r) : (o = none → r = none) ∧ (∀ s, o = some s → pd s = r) := by
  cases o with
  | none => simp [optDate] at h; exact ⟨fun _ => h.symm, fun s hs => by cases hs⟩
  | some s =>
    simp only [optDate] at h
    split at h
    · rename_i t ht
      cases h
      refine ⟨(fun hh => by cases hh), ?_⟩
      intro s' hs'
      cases hs'; exact ht
    · cases h

/-- One `params` object: each key it gives overrides, each key it omits is kept. -/
theorem applyParams_fields (pd : String → Option Int) (p p' : Params) (j : ParamsJson)
    (h : applyParams pd p j = .ok p') :
    p'.pageSize = j.pageSize.getD p.pageSize ∧ p'.expand = j.expand.getD p.expand ∧
    (j.endTime = none → p'.pit = p.pit) ∧ (∀ s, j.endTime = some s → p'.pit = pd s ∧ (pd s).isSome) ∧
    (j.startTime = none → p'.oot = p.oot) ∧ (∀ s, j.startTime = some s → p'.oot = pd s ∧ (pd s).isSome) ∧
    p'.opts.groupLvl = j.groupBy.getD p.opts.groupLvl ∧
    p'.opts.useInsertionDate = j.insertionDate.getD p.opts.useInsertionDate ∧
    (j.sort = none → p'.sortColumn = p.sortColumn ∧ p'.sortOrder = p.sortOrder) := by
  unfold applyParams at h
  simp only [bind, Except.bind] at h
  cases h1 : optDate pd j.endTime with
  | error e => rw [h1] at h; cases h
  | ok pit =>
    rw [h1] at h
    cases h2 : optDate pd j.startTime with
    | error e => rw [h2] at h; cases h
    | ok oot =>
      rw [h2] at h
      simp only at h
      obtain ⟨k1, k2, k3, k4, k5, k6, k7⟩ := applySortOpts_keeps _ p' j h
      obtain ⟨a1, a2⟩ := optDate_ok pd _ _ h1
      obtain ⟨b1, b2⟩ := optDate_ok pd _ _ h2
      refine ⟨by rw [k4], by rw [k3], ?_, ?_, ?_, ?_, by rw [k5], by rw [k6], ?_⟩
      · intro hn; rw [k1]; simp [hn]
      · intro s hs
        have := a2 s hs
        rw [k1]; simp only [hs, Option.isSome_some, ↓reduceIte]
        refine ⟨this.symm, ?_⟩
        rw [this]
        cases hp : pit with
        | some t => rfl
        | none =>
          rw [hs] at h1; simp only [optDate] at h1
          rw [this, hp] at h1; cases h1
      · intro hn; rw [k2]; simp [hn]
      · intro s hs
        have := b2 s hs
        rw [k2]; simp only [hs, Option.isSome_some, ↓reduceIte]
        refine ⟨this.symm, ?_⟩
        rw [this]
        cases hp : oot with
        | some t => rfl
        | none =>
          rw [hs] at h2; simp only [optDate] at h2
          rw [this, hp] at h2; cases h2
      · intro hn; exact k7 hn


/-- The cursors a column page hands out carry the query unchanged (same filters /
    column, order, page size); only the position changes. -/
theorem buildCursorCol_same_query {φ : Type} (q : ColQuery φ) (o : Order) (ret : List Row)
    (p : Page (ColQuery φ)) (h : buildCursorCol q o ret = .ok p) :
    ∀ q', (q' ∈ p.next ∨ q' ∈ p.previous) →
      q'.rest = q.rest ∧ q'.pageSize = q.pageSize ∧ q'.order = q.order := by
  intro q' hq'
  unfold buildCursorCol at h
  cases hrev : q.reverse with
  | true =>
    by_cases hm : ret.length > effPageSize q.pageSize
    · simp only [hrev, hm, decide_true, ↓reduceIte] at h
      split at h
      · cases h
      · cases h
        simp only [Option.mem_def, Option.some.injEq] at hq'
        rcases hq' with hq' | hq' <;> (subst hq'; exact ⟨rfl, rfl, rfl⟩)
    · simp only [hrev, hm, decide_false, Bool.false_eq_true, ↓reduceIte] at h
      cases h
      simp only [Option.mem_def, Option.some.injEq, reduceCtorEq, or_false] at hq'
      subst hq'; exact ⟨rfl, rfl, rfl⟩
  | false =>
    simp only [hrev, Bool.false_eq_true, ↓reduceIte] at h
    split at h
    · cases h
      simp only [Option.mem_def, reduceCtorEq, or_false] at hq'
      split at hq'
      · cases hq'; exact ⟨rfl, rfl, rfl⟩
      · cases hq'
    · split at h
      · cases h
        simp only [Option.mem_def, reduceCtorEq, or_false] at hq'
        split at hq'
        · cases hq'; exact ⟨rfl, rfl, rfl⟩
        · cases hq'
      · cases h
        simp only [Option.mem_def] at hq'
        rcases hq' with hq' | hq'
        · split at hq'
          · cases hq'; exact ⟨rfl, rfl, rfl⟩
          · cases hq'
        · split at hq'
          · cases hq'; exact ⟨rfl, rfl, rfl⟩
          · cases hq'

theorem buildCursorOff_same_query {φ : Type} (q : OffQuery φ) (ret : List Row)
    (p : Page (OffQuery φ)) (h : buildCursorOff q ret = .ok p) :
    ∀ q', (q' ∈ p.next ∨ q' ∈ p.previous) →
      q'.rest = q.rest ∧ q'.pageSize = q.pageSize ∧ q'.order = q.order := by
  intro q' hq'
  unfold buildCursorOff at h
  have hprev : ∀ x : OffQuery φ,
      x ∈ (if q.offset > 0 then
        some ({ q with offset := if q.offset < q.pageSize then 0 else q.offset - q.pageSize } : OffQuery φ)
        else none) → x.rest = q.rest ∧ x.pageSize = q.pageSize ∧ x.order = q.order := by
    intro x hx
    split at hx
    · simp only [Option.mem_def, Option.some.injEq] at hx; subst hx; exact ⟨rfl, rfl, rfl⟩
    · cases hx
  by_cases hc : (q.pageSize ≠ 0 && decide (ret.length > q.pageSize)) = true
  · simp only [hc, ↓reduceIte] at h
    by_cases hov : q.offset > maxUint64 - q.pageSize
    · simp only [hov, ↓reduceIte] at h; cases h
    · simp only [hov, ↓reduceIte] at h
      cases h
      rcases hq' with hq' | hq'
      · simp only [Option.mem_def, Option.some.injEq] at hq'; subst hq'; exact ⟨rfl, rfl, rfl⟩
      · exact hprev q' hq'
  · simp only [hc, Bool.false_eq_true, ↓reduceIte] at h
    cases h
    rcases hq' with hq' | hq'
    · cases hq'
    · exact hprev q' hq'

end Ledger.Query
