import Ledger.Chart.Model

/-!
Helper lemmas for C30: every chart `unmarshal` returns is `Valid` (so the round-trip
theorem applies to every chart that was ever read from JSON). Mutual structural
recursion over the nested JSON tree.
-/
namespace Ledger.Chart

theorem bind_ok {ε α β} {x : Except ε α} {f : α → Except ε β} {b : β}
    (h : (x >>= f) = .ok b) : ∃ a, x = .ok a ∧ f a = .ok b := by
  cases x with
  | error e => cases h
  | ok a => exact ⟨a, rfl, h⟩

theorem validName_of_validateSegment {k : Key} (h : validateSegment k = true) (hp : isProp k = false)
    (hv : isVar k = false) : validName k = true := by
  unfold validateSegment at h
  split at h
  · simp [isVar] at hv
  · simp [isProp] at hp
  · exact h

theorem readPattern_compiles {ops : RegexOps} {fields pat} (h : readPattern ops fields = .ok pat) :
    ∀ p, pat = some p → ops.compiles p = true := by
  unfold readPattern at h
  split at h
  · cases h; intro p hp; cases hp
  · rename_i p0 _
    split at h
    · rename_i hc; cases h; intro p hp; cases hp; exact hc
    · cases h
  · cases h

theorem finish_valid {ops : RegexOps} {a : Acc} {s : Segment} (h : a.finish = .ok s)
    (hf : validFixed ops a.fixed) (hv : validVar ops a.var) : s.Valid ops := by
  unfold Acc.finish at h
  simp only [] at h
  split at h
  · cases h
  · split at h
    · cases h
    · cases h
      simp only [Segment.Valid]
      refine ⟨hf, hv, ?_⟩
      intro hnone
      split at hnone
      · cases hnone
      · rename_i hacc
        simp only [Bool.or_eq_true, Bool.and_eq_true, List.isEmpty_iff, Option.isNone_iff_eq_none, not_or, not_and] at hacc
        by_cases hfx : a.fixed = []
        · exact .inr (hacc.2 hfx)
        · exact .inl hfx

mutual
theorem seg_valid (ops : RegexOps) : (j : JTree) → (s : Segment) → unmarshalSeg ops j = .ok s → s.Valid ops
  | .null, s, h => by
    simp only [unmarshalSeg] at h
    exact finish_valid h (by simp [validFixed]) (by simp [validVar])
  | .obj kvs, s, h => by
    simp only [unmarshalSeg] at h
    obtain ⟨acc, hacc, hfin⟩ := bind_ok h
    have := members_valid ops kvs acc hacc
    exact finish_valid hfin this.1 this.2
  | .bool _, s, h => by simp [unmarshalSeg] at h
  | .num _, s, h => by simp [unmarshalSeg] at h
  | .str _, s, h => by simp [unmarshalSeg] at h
  | .arr _, s, h => by simp [unmarshalSeg] at h
theorem members_valid (ops : RegexOps) : (kvs : List (Key × JTree)) → (acc : Acc) →
    unmarshalMembers ops kvs = .ok acc → validFixed ops acc.fixed ∧ validVar ops acc.var
  | [], acc, h => by
    simp only [unmarshalMembers, pure, Except.pure] at h
    cases h
    simp [validFixed, validVar]
  | (k, v) :: rest, acc, h => by
    simp only [unmarshalMembers] at h
    split at h
    · -- sub-segment
      rename_i hprop
      split at h
      · cases h
      · rename_i hvs
        split at h
        · cases h
        · rename_i fields hfields
          obtain ⟨pat, hpat, h⟩ := bind_ok h
          obtain ⟨seg, hseg, h⟩ := bind_ok h
          obtain ⟨acc', hacc', h⟩ := bind_ok h
          have ih := members_valid ops rest acc' hacc'
          have hsv := seg_valid ops v seg hseg
          split at h
          · rename_i hvar
            split at h
            · cases h
            · rename_i hnone
              simp only [pure, Except.pure] at h
              cases h
              refine ⟨ih.1, ?_⟩
              simp only [validVar]
              refine ⟨?_, readPattern_compiles hpat, hsv⟩
              cases k with
              | nil => simp [isVar] at hvar
              | cons c r =>
                unfold isVar at hvar
                split at hvar
                · rename_i heq
                  cases heq
                  simpa [validateSegment] using hvs
                · cases hvar
          · rename_i hvar
            split at h
            · cases h
            · simp only [pure, Except.pure] at h
              cases h
              refine ⟨?_, ih.2⟩
              simp only [validFixed]
              exact ⟨validName_of_validateSegment (by simpa using hvs) (by simpa using hprop) (by simpa using hvar), hsv, ih.1⟩
    · split at h
      · -- .self
        split at h
        · obtain ⟨acc', hacc', h⟩ := bind_ok h
          simp only [pure, Except.pure] at h
          cases h
          exact members_valid ops rest acc' hacc'
        · cases h
      · split at h
        · -- .metadata
          obtain ⟨m, _, h⟩ := bind_ok h
          obtain ⟨acc', hacc', h⟩ := bind_ok h
          simp only [pure, Except.pure] at h
          cases h
          exact members_valid ops rest acc' hacc'
        · split at h
          · -- .rules
            split at h
            · obtain ⟨acc', hacc', h⟩ := bind_ok h
              simp only [pure, Except.pure] at h
              cases h
              exact members_valid ops rest acc' hacc'
            · cases h
          · exact members_valid ops rest acc h
end
theorem root_valid (ops : RegexOps) : (kvs : List (Key × JTree)) → (c : Chart) →
    unmarshalRoot ops kvs = .ok c → validFixed ops c
  | [], c, h => by
    simp only [unmarshalRoot, pure, Except.pure] at h
    cases h; simp [validFixed]
  | (k, v) :: rest, c, h => by
    simp only [unmarshalRoot] at h
    split at h
    · cases h
    · rename_i hvs
      split at h
      · cases h
      · rename_i hvar
        split at h
        · cases h
        · rename_i hprop
          split at h
          · cases h
          · split at h
            · cases h
            · obtain ⟨seg, hseg, h⟩ := bind_ok h
              obtain ⟨r, hr, h⟩ := bind_ok h
              simp only [pure, Except.pure] at h
              cases h
              simp only [validFixed]
              exact ⟨validName_of_validateSegment (by simpa using hvs) (by simpa using hprop) (by simpa using hvar),
                seg_valid ops v seg hseg, root_valid ops rest r hr⟩

theorem unmarshal_valid' (ops : RegexOps) (j : JTree) (c : Chart) (h : unmarshal ops j = .ok c) :
    Valid ops c := by
  unfold unmarshal at h
  split at h
  · cases h
  · exact root_valid ops _ c h

end Ledger.Chart
