import Ledger.Proofs.SqlTxInsertHist

/-!
# `CommitTransaction` (UpdateVolumes; InsertTransaction; InsertMoves) with TRANSACTION_METADATA_HISTORY = SYNC

The composition of `SqlCommit.lean` in the DEFAULT feature set for transactions: `transactions` carries the ledger's AFTER INSERT ROW
trigger `insert_transaction_metadata_history`; InsertTransaction additionally appends the first metadata revision to
`transactions_metadata` (two more command ids, one more sequence). Everything else is as in `exec_commit3` / `commit_refines_applyTx`.
-/
open Ledger Ledger.Sql Ledger.Generated Ledger.Core Ledger.Base

namespace Ledger.Sql
open Ledger.Spec

theorem mvFull_ne_tmFull (b : String) : mvFull b ≠ tmFull b := by
  intro h
  have := congrArg String.length h
  simp [mvFull, tmFull, String.length_append] at this
  exact absurd this (by decide)

theorem tmFull_ne_avFull (b : String) : tmFull b ≠ avFull b := by
  intro h
  have := congrArg String.length h
  simp [tmFull, avFull, String.length_append] at this
  exact absurd this (by decide)

theorem mvSeqFull_ne_tmSeqFull (b : String) : mvSeqFull b ≠ tmSeqFull b := by
  intro h
  have := congrArg String.length h
  simp [mvSeqFull, tmSeqFull, String.length_append] at this
  exact absurd this (by decide)

/-- `CommitState` with the metadata-history trigger on `transactions` -/
structure CommitStateH (s : St) (b l : String)
    (rsA : List Ver) (nrA : Nat)
    (trigsT : List TriggerDef) (nrT : Nat) (rowsT : List Ver) (fullT : String) (sqT : Seq)
    (AT1 AT2 : List TriggerDef) (trAT : TriggerDef) (fAT : PlFunc) (nrH : Nat) (rowsH : List Ver) (sqH : Seq)
    (trigsM : List TriggerDef) (B1 B2 : List TriggerDef) (trB : TriggerDef) (A1 A2 : List TriggerDef) (trA : TriggerDef)
    (item wher dflt_ : Expr) (fB : PlFunc) (setE whereU : Expr) (fA : PlFunc) (nrM : Nat) (rowsM : List Ver) (sqM : Seq) : Prop where
  tx : TxState s
  q0 : s.afterQ = []
  bne : b.isEmpty = false
  cidLt : s.cid < s.nextCid
  -- accounts_volumes
  avTable : s.w.table? (avFull b) = some (avT b rsA nrA)
  avInv : AvInv (latestView s.w s.xid) rsA nrA
  avFresh : ∀ r ∈ rsA, r.xmin = s.xid → r.cmin < s.nextCid
  -- transactions
  txTable : s.w.table? (txFull b) = some ((txT b trigsT nrT).withRows rowsT)
  txInv : TxInv (latestView s.w s.xid) rowsT
  txBefore : ∀ tr ∈ trigsT, tr.timing = .before → tr.event = .insert → tr.when_ = some updatedAtIsNull
  txSeq : s.w.seqs.find? (·.name == fullT) = some sqT
  txIdBound : ∀ r ∈ rowsT, r.visible (latestView s.w s.xid) = true → ∀ x', r.vals = txVals x' → x'.ledger = l → x'.id < sqT.next
  seqNe : fullT ≠ mvSeqFull b
  -- the metadata history of transactions
  sortedAT : sortTriggers (trigsT.filter (fun x => x.timing == .after && x.event == .insert)) = AT1 ++ trAT :: AT2
  othersAT1 : ∀ x ∈ AT1, OtherLedgerTrig l x
  othersAT2 : ∀ x ∈ AT2, OtherLedgerTrig l x
  evAT : trAT.event = .insert
  whenAT : trAT.when_ = some (ledgerIs l)
  schAT : schemaOf trAT.fname = b
  funAT : s.w.funcs.lookup trAT.fname = some fAT
  declsAT : fAT.decls = []
  bodyAT : fAT.body = [PlStmt.exec tmInsertStmt [], PlStmt.ret (some (Expr.col "" "new"))]
  schH : schemaOf (tmFull b) = b
  histTable : s.w.table? (tmFull b) = some ((tmT b nrH).withRows rowsH)
  histSeq : s.w.seqs.find? (·.name == tmSeqFull b) = some sqH
  histAll : TmAll sqH.next rowsH
  histLo : 0 ≤ sqH.next
  histHi : sqH.next ≤ 9223372036854775807
  seqNeH : fullT ≠ tmSeqFull b
  -- moves
  mvStatic : MvStatic s.w.funcs s.w.types b l trigsM B1 B2 trB A1 A2 trA item wher dflt_ fB
  schA : schemaOf trA.fname = b
  funA : s.w.funcs.lookup trA.fname = some fA
  declsA : fA.decls = []
  bodyA : fA.body = updEffBody setE whereU
  semA : UpdEffSem setE whereU
  noUpdB : trigsM.filter (fun tr => tr.timing == .before && tr.event == .update) = []
  noUpdA : trigsM.filter (fun tr => tr.timing == .after && tr.event == .update) = []
  mvTable : s.w.table? (mvFull b) = some ((mvT b trigsM nrM).withRows rowsM)
  mvSeq : s.w.seqs.find? (·.name == mvSeqFull b) = some sqM
  mvInv : MvInv (latestView s.w s.xid) sqM.next rowsM
  mvFresh : Fresh s.xid s.nextCid rowsM
  mvRidLt : ∀ r ∈ rowsM, r.rid < nrM

end Ledger.Sql

namespace Ledger.Sql
open Ledger.Spec
open Ledger.Generated.WriteSql

theorem enter_hist_withCid (s : St) (q : List Seq) (t1 t2 : Table) :
    ((((s.enter.withSeqs q).bump 2).withTable t1).withTable t2).withCid s.cid = (((s.bump 3).withSeqs q).withTable t1).withTable t2 := by
  simp only [St.enter, St.withSeqs, St.bump, St.withTable, St.withCid, Nat.add_assoc]

/-- **CommitTransaction (UpdateVolumes; InsertTransaction; InsertMoves), transaction metadata history on.** -/
theorem exec_commit3H (p : Nat) (env : Env) (b l : String) (id : Nat)
    (rsA : List Ver) (nrA : Nat) (trigsT : List TriggerDef) (nrT : Nat) (rowsT : List Ver) (fullT : String) (sqT : Seq)
    (AT1 AT2 : List TriggerDef) (trAT : TriggerDef) (fAT : PlFunc) (nrH : Nat) (rowsH : List Ver) (sqH : Seq)
    (trigsM : List TriggerDef) (B1 B2 : List TriggerDef) (trB : TriggerDef) (A1 A2 : List TriggerDef) (trA : TriggerDef)
    (item wher dflt_ : Expr) (fB : PlFunc) (setE whereU : Expr) (fA : PlFunc) (nrM : Nat) (rowsM : List Ver) (sqM : Seq) (s : St)
    (hst : CommitStateH s b l rsA nrA trigsT nrT rowsT fullT sqT AT1 AT2 trAT fAT nrH rowsH sqH trigsM B1 B2 trB A1 A2 trA item wher dflt_ fB
      setE whereU fA nrM rowsM sqM)
    -- UpdateVolumes
    (vrows : List P.VolumeRow) (hvne : vrows ≠ []) (hvnd : (vrows.map avKeyOf).Nodup)
    (av : PCV) (hwf : Map.WF av) (habs : ∀ k, avAbs s b l k = av.get? k)
    -- InsertTransaction
    (L : TxLits) (hl : SeqLit (txSeqLit b id) fullT) (x : TxR) (hlit : TxLit s.w.types l L x) (hid : x.id = sqT.next)
    (hi1 : -9223372036854775808 ≤ x.id) (hi2 : x.id ≤ 9223372036854775807)
    (href : ∀ r ∈ rowsT, r.visible (latestView s.w s.xid) = true → ∀ x', r.vals = txVals x' → txConf2 x x' = false)
    -- InsertMoves
    (pm : List (P.MoveRow × Spec.MoveRow)) (hne : pm ≠ []) (hlits : ∀ y ∈ pm, MvLit s.w.types y.1 y.2)
    (hsf : SeqFrom sqM.next (pm.map (·.2))) (hrange : sqM.next + pm.length ≤ 9223372036854775808)
    (hnc : s.nextCid + 5 + 4 * pm.length ≤ 1000000000)
    (T : List Spec.MoveRow) (hT : T.Perm (ledgerMoves l (mvAbs (latestView s.w s.xid) rowsM))) :
    ∃ (rsA' : List Ver) (nrA' : Nat) (rowsM' : List Ver) (seqs' : List Seq) (s' : St),
      (seqRun (p + 15) env (P.updateVolumes b l id vrows ++
          P.insertTransaction b l id L.postings L.metadata L.timestamp L.reference L.inserted_at L.updated_at L.post_commit_volumes
            L.template L.sources L.destinations L.sources_arrays L.destinations_arrays ++
          P.insertMoves b l id (pm.map (·.1)))).exec s =
        (.ok [{ rel := { cols := ["input", "output"],
                         rows := (Spec.upsertVolumes av (vuOf vrows)).2.map (fun e => [.int e.2.input, .int e.2.output]) },
                affected := vrows.length },
              { rel := { cols := ["id", "timestamp", "inserted_at", "updated_at"],
                         rows := [[.int x.id, .ts x.timestamp, optTs x.insertedAt, .ts x.updatedAt]] }, affected := 1 },
              { rel := { cols := ["post_commit_volumes", "post_commit_effective_volumes"],
                         rows := (Spec.insertedRows T (pm.map (·.2))).map retOf }, affected := pm.length }], s') ∧
      s' = (((((s.bump (5 + 4 * pm.length)).withSeqs seqs').withTable (avT b rsA' nrA')).withTable
              ((txT b trigsT (nrT + 1)).withRows (newVer s.xid (s.nextCid + 1) nrT (txVals x) :: rowsT))).withTable
              ((tmT b (nrH + 1)).withRows (newVer s.xid (s.nextCid + 2) nrH (tmVals (tmOf x sqH.next)) :: rowsH))).withTable
              ((mvT b trigsM (nrM + pm.length)).withRows rowsM') ∧
      -- accounts_volumes
      AvInv (latestView s.w s.xid) rsA' nrA' ∧
      (∀ k, avView (latestView s.w s.xid) rsA' l k = (Spec.upsertVolumes av (vuOf vrows)).1.get? k) ∧
      (∀ l', l' ≠ l → ∀ k, avView (latestView s.w s.xid) rsA' l' k = avView (latestView s.w s.xid) rsA l' k) ∧
      -- moves
      (ledgerMoves l (mvAbs (latestView s.w s.xid) rowsM')).Perm (Spec.insertMoves T (pm.map (·.2))) ∧
      (∀ l', l' ≠ l → (ledgerMoves l' (mvAbs (latestView s.w s.xid) rowsM')).Perm (ledgerMoves l' (mvAbs (latestView s.w s.xid) rowsM))) ∧
      MvInv (latestView s.w s.xid) (sqM.next + pm.length) rowsM' ∧
      -- sequences
      seqs'.find? (·.name == mvSeqFull b) = some { sqM with last := sqM.next + pm.length - 1, called := true } ∧
      seqs'.find? (·.name == fullT) = some { sqT with last := sqT.next, called := true } ∧
      seqs'.find? (·.name == tmSeqFull b) = some { sqH with last := sqH.next, called := true } ∧
      (∀ other, other ≠ mvSeqFull b → other ≠ fullT → other ≠ tmSeqFull b →
        seqs'.find? (·.name == other) = s.w.seqs.find? (·.name == other)) := by
  have hxid := hst.tx.xid
  -- 1. UpdateVolumes
  have hAv : AvState s.enter b l rsA nrA :=
    ⟨hst.avTable, hst.tx.solo, hxid, (by simp only [enter_cid]; omega), hst.avInv, (by
      intro r hr h1 h2
      have := hst.avFresh r hr h1
      simp only [enter_cid] at h2
      omega)⟩
  obtain ⟨s1', hrun1, hav1, hav3, rsA', nrA', hs1', hinvA'⟩ :=
    updateVolumes_bridge (p + 8) env b l id hst.bne s.enter rsA nrA hAv vrows hvne hvnd av hwf habs
  obtain ⟨_, _, _, _, _, hshape1, _, _, _⟩ := updateVolumes_shape env b l id
  have hseq1 := exec_seqRun_single (p + 15) env _ _ (hshape1 vrows) s s1' _ hrun1
  rw [hs1', enter_withTable_withCid] at hseq1
  have hT1av : (s.enter.withTable (avT b rsA' nrA')).w.table? (avFull b) = some (avT b rsA' nrA') :=
    withTable_table? s.enter (avT b rsA nrA) (avT b rsA' nrA') hst.avTable
  -- 2. InsertTransaction (+ metadata history)
  have hTx : TxInsStateH ((s.bump 1).withTable (avT b rsA' nrA')).enter b l trigsT nrT rowsT fullT sqT AT1 AT2 trAT fAT nrH rowsH sqH :=
    { tx := ((hst.tx.bump 1).withTable _).enter (by simp; omega)
      q0 := hst.q0
      bne := hst.bne
      table := by
        have := withTable_table?_ne (s.bump 1) (avT b rsA' nrA') (txFull b) (txFull_ne_avFull b)
        exact this.trans hst.txTable
      inv := hst.txInv
      beforeTrigs := hst.txBefore
      seq := hst.txSeq
      idBound := hst.txIdBound
      sortedA := hst.sortedAT
      othersA1 := hst.othersAT1
      othersA2 := hst.othersAT2
      evA := hst.evAT
      whenA := hst.whenAT
      schA := hst.schAT
      funA := hst.funAT
      declsA := hst.declsAT
      bodyA := hst.bodyAT
      schH := hst.schH
      hist := ⟨by
          have := withTable_table?_ne (s.bump 1) (avT b rsA' nrA') (tmFull b) (tmFull_ne_avFull b)
          exact this.trans hst.histTable, hst.histSeq, hst.histAll, hst.histLo, hst.histHi⟩
      seqNe := hst.seqNeH
      cidLt := by simp; omega }
  have hrun2 := exec_runStmt_insertTx_hist (p + 3) env b l id L trigsT nrT rowsT fullT sqT AT1 AT2 trAT fAT nrH rowsH sqH _ hTx hl x hlit hid
    hi1 hi2 href
  have hseq2 := exec_seqRun_single' (p + 15) env _ _ _ _ hrun2
  rw [← insertTransaction_shape, enter_hist_withCid] at hseq2
  simp only [enter_xid, enter_cid, enter_nextCid, withTable_xid, bump_xid, withTable_nextCid, bump_nextCid, enter_w, withTable_seqs, bump_w] at hseq2
  -- 3. InsertMoves
  have hMv : MvStmtState ((((((s.bump 1).withTable (avT b rsA' nrA')).bump 3).withSeqs
        (seqsSet (tmSeqFull b) sqH.next (seqsSet fullT sqT.next s.w.seqs))).withTable
        ((txT b trigsT (nrT + 1)).withRows (newVer s.xid (s.nextCid + 1) nrT (txVals x) :: rowsT))).withTable
        ((tmT b (nrH + 1)).withRows (newVer s.xid (s.nextCid + 1 + 1) nrH (tmVals (tmOf x sqH.next)) :: rowsH))).enter
      b l trigsM B1 B2 trB A1 A2 trA item wher dflt_ fB setE whereU fA nrM rowsM sqM :=
    { tx := ((((((hst.tx.bump 1).withTable _).bump 3).withSeqs _).withTable _).withTable _).enter (by simp; omega)
      cidLt := by simp
      q0 := hst.q0
      bne := hst.bne
      static := hst.mvStatic
      schA := hst.schA
      funA := hst.funA
      declsA := hst.declsA
      bodyA := hst.bodyA
      semA := hst.semA
      noUpdB := hst.noUpdB
      noUpdA := hst.noUpdA
      table := by
        have e0 := withTable_table?_ne (((((s.bump 1).withTable (avT b rsA' nrA')).bump 3).withSeqs
            (seqsSet (tmSeqFull b) sqH.next (seqsSet fullT sqT.next s.w.seqs))).withTable
            ((txT b trigsT (nrT + 1)).withRows (newVer s.xid (s.nextCid + 1) nrT (txVals x) :: rowsT)))
          ((tmT b (nrH + 1)).withRows (newVer s.xid (s.nextCid + 1 + 1) nrH (tmVals (tmOf x sqH.next)) :: rowsH)) (mvFull b) (mvFull_ne_tmFull b)
        have e1 := withTable_table?_ne ((((s.bump 1).withTable (avT b rsA' nrA')).bump 3).withSeqs
            (seqsSet (tmSeqFull b) sqH.next (seqsSet fullT sqT.next s.w.seqs)))
          ((txT b trigsT (nrT + 1)).withRows (newVer s.xid (s.nextCid + 1) nrT (txVals x) :: rowsT)) (mvFull b) (mvFull_ne_txFull b)
        have e2 := withTable_table?_ne (s.bump 1) (avT b rsA' nrA') (mvFull b) (mvFull_ne_avFull b)
        exact e0.trans (e1.trans (e2.trans hst.mvTable))
      seq := by
        show (seqsSet (tmSeqFull b) sqH.next (seqsSet fullT sqT.next s.w.seqs)).find? (·.name == mvSeqFull b) = some sqM
        rw [find_seqsSet_ne (tmSeqFull b) (mvSeqFull b) sqH.next (mvSeqFull_ne_tmSeqFull b),
          find_seqsSet_ne fullT (mvSeqFull b) sqT.next (fun e => hst.seqNe e.symm)]
        exact hst.mvSeq
      inv := hst.mvInv
      fresh := hst.mvFresh.mono (by simp; omega)
      ridLt := hst.mvRidLt }
  obtain ⟨rowsM', seqs', hrun3, hmv1, hmv2, hmvInv, _, _, hseqM, hseqO⟩ := insertMoves_refines p env b l trigsM B1 B2 trB A1 A2 trA item wher dflt_ fB setE whereU fA
    nrM rowsM sqM _ hMv pm hne hlits hsf hrange (by simp; omega) T hT
  have hseq3 := exec_seqRun_single' (p + 15) env _ _ _ _ hrun3
  rw [← insertMoves_shape b l id, enter_full_withCid] at hseq3
  have h12 := exec_seqRun_append (p + 15) env _ _ _ _ _ _ _ hseq1 hseq2
  have h123 := exec_seqRun_append (p + 15) env _ _ _ _ _ _ _ h12 hseq3
  refine ⟨rsA', nrA', rowsM', seqs', (((((s.bump (5 + 4 * pm.length)).withSeqs seqs').withTable (avT b rsA' nrA')).withTable
      ((txT b trigsT (nrT + 1)).withRows (newVer s.xid (s.nextCid + 1) nrT (txVals x) :: rowsT))).withTable
      ((tmT b (nrH + 1)).withRows (newVer s.xid (s.nextCid + 2) nrH (tmVals (tmOf x sqH.next)) :: rowsH))).withTable
      ((mvT b trigsM (nrM + pm.length)).withRows rowsM'), ?_, rfl, hinvA', ?_, ?_, hmv1, hmv2, hmvInv, hseqM, ?_, ?_, ?_⟩
  · have hstate : ((((((((s.bump 1).withTable (avT b rsA' nrA')).bump 3).withSeqs
        (seqsSet (tmSeqFull b) sqH.next (seqsSet fullT sqT.next s.w.seqs))).withTable
        ((txT b trigsT (nrT + 1)).withRows (newVer s.xid (s.nextCid + 1) nrT (txVals x) :: rowsT))).withTable
        ((tmT b (nrH + 1)).withRows (newVer s.xid (s.nextCid + 1 + 1) nrH (tmVals (tmOf x sqH.next)) :: rowsH))).bump (1 + 4 * pm.length)).withSeqs seqs').withTable
        ((mvT b trigsM (nrM + pm.length)).withRows rowsM') =
        (((((s.bump (5 + 4 * pm.length)).withSeqs seqs').withTable (avT b rsA' nrA')).withTable
          ((txT b trigsT (nrT + 1)).withRows (newVer s.xid (s.nextCid + 1) nrT (txVals x) :: rowsT))).withTable
          ((tmT b (nrH + 1)).withRows (newVer s.xid (s.nextCid + 2) nrH (tmVals (tmOf x sqH.next)) :: rowsH))).withTable
          ((mvT b trigsM (nrM + pm.length)).withRows rowsM') := by
      simp only [St.bump, St.withSeqs, St.withTable]
      congr 1
      omega
    rw [← hstate]
    simpa [List.append_assoc] using h123
  · intro k
    have := hav1 k
    rw [hs1', avAbs_of_table hT1av] at this
    exact this
  · intro l' hl' k
    have := hav3 l' hl' k
    rw [hs1', avAbs_of_table hT1av, avAbs_of_table (s := s.enter) hst.avTable] at this
    exact this
  · have := hseqO fullT hst.seqNe
    rw [this]
    show (seqsSet (tmSeqFull b) sqH.next (seqsSet fullT sqT.next s.w.seqs)).find? (·.name == fullT) = _
    rw [find_seqsSet_ne (tmSeqFull b) fullT sqH.next hst.seqNeH]
    exact find_seqsSet _ _ _ _ hst.txSeq
  · have := hseqO (tmSeqFull b) (fun e => mvSeqFull_ne_tmSeqFull b e.symm)
    rw [this]
    show (seqsSet (tmSeqFull b) sqH.next (seqsSet fullT sqT.next s.w.seqs)).find? (·.name == tmSeqFull b) = _
    apply find_seqsSet
    rw [find_seqsSet_ne fullT (tmSeqFull b) sqT.next (fun e => hst.seqNeH e.symm)]
    exact hst.histSeq
  · intro other h1 h2 h3
    have := hseqO other h1
    rw [this]
    show (seqsSet (tmSeqFull b) sqH.next (seqsSet fullT sqT.next s.w.seqs)).find? (·.name == other) = _
    rw [find_seqsSet_ne (tmSeqFull b) other sqH.next h3, find_seqsSet_ne fullT other sqT.next h2]

/-- **Refinement of `Spec.applyTx` (CommitTransaction without the account upsert), transaction metadata history on.** As
    `commit_refines_applyTx`; additionally the first metadata revision `tmOf x` of the new transaction is appended to
    `transactions_metadata` (a table the Spec store does not model: the read side uses it for metadata at a point in time). -/
theorem commit_refines_applyTx_H (p : Nat) (env : Env) (b l : String) (id : Nat)
    (rsA : List Ver) (nrA : Nat) (trigsT : List TriggerDef) (nrT : Nat) (rowsT : List Ver) (fullT : String) (sqT : Seq)
    (AT1 AT2 : List TriggerDef) (trAT : TriggerDef) (fAT : PlFunc) (nrH : Nat) (rowsH : List Ver) (sqH : Seq)
    (trigsM : List TriggerDef) (B1 B2 : List TriggerDef) (trB : TriggerDef) (A1 A2 : List TriggerDef) (trA : TriggerDef)
    (item wher dflt_ : Expr) (fB : PlFunc) (setE whereU : Expr) (fA : PlFunc) (nrM : Nat) (rowsM : List Ver) (sqM : Seq) (s : St)
    (hst : CommitStateH s b l rsA nrA trigsT nrT rowsT fullT sqT AT1 AT2 trAT fAT nrH rowsH sqH trigsM B1 B2 trB A1 A2 trA item wher dflt_ fB
      setE whereU fA nrM rowsM sqM)
    -- the Spec store the state abstracts to
    (st st' : Spec.Store) (t : Spec.TxIn) (hup : t.upsertAccounts = false) (happly : Spec.applyTx st t = .ok st')
    (hwf : Map.WF st.accountsVolumes) (habsA : ∀ k, avAbs s b l k = st.accountsVolumes.get? k)
    (habsM : st.moves.Perm (ledgerMoves l (mvAbs (latestView s.w s.xid) rowsM)))
    (hidT : (st.nextTxId : Int) = sqT.next) (hidM : (st.nextSeq : Int) = sqM.next)
    -- what the Go layer passes
    (vrows : List P.VolumeRow) (hvu : vuOf vrows = volumeUpdates t.postings) (hvne : vrows ≠ []) (hvnd : (vrows.map avKeyOf).Nodup)
    (L : TxLits) (hl : SeqLit (txSeqLit b id) fullT) (x : TxR) (hlit : TxLit s.w.types l L x) (hid : x.id = st.nextTxId)
    (hidR : (st.nextTxId : Int) ≤ 9223372036854775807)
    (href : ∀ r ∈ rowsT, r.visible (latestView s.w s.xid) = true → ∀ x', r.vals = txVals x' → txConf2 x x' = false)
    (pm : List (P.MoveRow × Spec.MoveRow)) (hne : pm ≠ []) (hlits : ∀ y ∈ pm, MvLit s.w.types y.1 y.2)
    (hpm : ∀ ms, movesOf (Spec.upsertVolumes st.accountsVolumes (volumeUpdates t.postings)).2 t.postings = .ok ms →
      pm.map (·.2) = toRows st.nextSeq st.nextTxId t.insertedAt t.timestamp ms)
    (hrange : sqM.next + pm.length ≤ 9223372036854775808) (hnc : s.nextCid + 5 + 4 * pm.length ≤ 1000000000) :
    ∃ (rsA' : List Ver) (nrA' : Nat) (rowsM' : List Ver) (seqs' : List Seq) (res : List DmlResult),
      (seqRun (p + 15) env (P.updateVolumes b l id vrows ++
          P.insertTransaction b l id L.postings L.metadata L.timestamp L.reference L.inserted_at L.updated_at L.post_commit_volumes
            L.template L.sources L.destinations L.sources_arrays L.destinations_arrays ++
          P.insertMoves b l id (pm.map (·.1)))).exec s =
        (.ok res, (((((s.bump (5 + 4 * pm.length)).withSeqs seqs').withTable (avT b rsA' nrA')).withTable
              ((txT b trigsT (nrT + 1)).withRows (newVer s.xid (s.nextCid + 1) nrT (txVals x) :: rowsT))).withTable
              ((tmT b (nrH + 1)).withRows (newVer s.xid (s.nextCid + 2) nrH (tmVals (tmOf x sqH.next)) :: rowsH))).withTable
              ((mvT b trigsM (nrM + pm.length)).withRows rowsM')) ∧
      (∀ k, avView (latestView s.w s.xid) rsA' l k = st'.accountsVolumes.get? k) ∧
      (∀ l', l' ≠ l → ∀ k, avView (latestView s.w s.xid) rsA' l' k = avView (latestView s.w s.xid) rsA l' k) ∧
      (ledgerMoves l (mvAbs (latestView s.w s.xid) rowsM')).Perm st'.moves ∧
      (∀ l', l' ≠ l → (ledgerMoves l' (mvAbs (latestView s.w s.xid) rowsM')).Perm (ledgerMoves l' (mvAbs (latestView s.w s.xid) rowsM))) ∧
      AvInv (latestView s.w s.xid) rsA' nrA' ∧ MvInv (latestView s.w s.xid) (st'.nextSeq : Int) rowsM' ∧
      (∃ sq', seqs'.find? (·.name == mvSeqFull b) = some sq' ∧ sq'.next = (st'.nextSeq : Int)) ∧
      (∃ sq', seqs'.find? (·.name == fullT) = some sq' ∧ sq'.next = (st'.nextTxId : Int)) ∧
      (∃ sq', seqs'.find? (·.name == tmSeqFull b) = some sq' ∧ sq'.next = sqH.next + 1) := by
  unfold Spec.applyTx at happly
  simp only at happly
  cases hm : movesOf (Spec.upsertVolumes st.accountsVolumes (volumeUpdates t.postings)).2 t.postings with
  | error e => rw [hm] at happly; cases happly
  | ok ms =>
    rw [hm] at happly
    simp only [hup, Bool.false_eq_true, if_false, Except.ok.injEq] at happly
    have hpm' := hpm ms hm
    have hlen : pm.length = ms.length := by
      have := congrArg List.length hpm'
      rw [List.length_map, toRows_length] at this
      exact this
    have hsf : SeqFrom sqM.next (pm.map (·.2)) := by
      rw [hpm']; exact seqFrom_toRows ms sqM.next _ _ _ _ hidM
    obtain ⟨rsA', nrA', rowsM', seqs', s', hrun, hs', hinvA, hav1, hav2, hmv1, hmv2, hmvInv, hsM, hsT, hsH, _⟩ :=
      exec_commit3H p env b l id rsA nrA trigsT nrT rowsT fullT sqT AT1 AT2 trAT fAT nrH rowsH sqH trigsM B1 B2 trB A1 A2 trA item wher dflt_ fB
        setE whereU fA nrM rowsM sqM s hst vrows hvne hvnd st.accountsVolumes hwf habsA L hl x hlit (by rw [hid]; exact hidT)
        (by rw [hid]; omega) (by rw [hid]; exact hidR) href pm hne hlits hsf hrange hnc st.moves habsM
    subst hs'
    refine ⟨rsA', nrA', rowsM', seqs', _, hrun, ?_, hav2, ?_, hmv2, hinvA, ?_, ?_, ?_, ?_⟩
    · intro k
      rw [hav1 k, hvu, ← happly]
    · rw [← happly]
      simp only
      rw [← hpm']
      exact hmv1
    · rw [← happly]
      simp only
      have : ((st.nextSeq + ms.length : Nat) : Int) = sqM.next + pm.length := by rw [hlen]; push_cast; omega
      rw [this]; exact hmvInv
    · refine ⟨_, hsM, ?_⟩
      rw [← happly, Seq.next_set]
      simp only
      rw [hlen]; push_cast; omega
    · refine ⟨_, hsT, ?_⟩
      rw [← happly, Seq.next_set]
      simp only
      push_cast; omega
    · exact ⟨_, hsH, Seq.next_set _ _⟩

end Ledger.Sql
