import Ledger.Proofs.InterpAll
import Ledger.Proofs.InterpDstSim

/-!
Statements: one F1 statement run by both models from related states ends in related
states, or fails on both sides.
-/
namespace Ledger.Interp
open Ledger.Machine

/-- The relation between the two states between statements. -/
structure SRel (P : List (String × String)) (st : State) (ist : IState) : Prop where
  rel : Rel P st.bal ist.bal
  wf : st.bal.WF
  posts : unitsP st.postings = unitsP ist.postings
  nnM : ∀ p ∈ st.postings, 0 ≤ p.amount
  okI : ∀ p ∈ ist.postings, badPosting p = false
  tx : st.txMeta = ist.txMeta
  acc : st.accMeta.map (fun x => (x.1, x.2.1, valStr x.2.2)) = ist.accMeta
  queue : ist.queue = []

/-- Both fail, or both succeed in related states. -/
def StmtAgree (P : List (String × String)) (r : Except Err State) (ri : Except String IState) : Prop :=
  match r, ri with
  | .error _, .error _ => True
  | .ok st, .ok ist => SRel P st ist
  | _, _ => False

theorem leavesIn_spec {P : List (String × String)} {env : Env} {c : String} {es : List Expr}
    (h : leavesIn P env c es = true) : LeavesIn P env c es := by
  intro e he
  have := List.all_eq_true.mp h e he
  split at this
  · rename_i a ha
    exact ⟨a, ha, by simpa using this⟩
  · cases this

/-! ## The asset of a send -/

theorem leftmost_monetary {env : Env} : ∀ (e : Expr) (a : String) (x : Option Int),
    Machine.evalExpr env e = .ok (.monetary a x) →
    ∃ x', Machine.evalExpr env e.leftmost = .ok (.monetary a x') := by
  intro e
  induction e with
  | acct s => intro a x h; simp [Machine.evalExpr] at h
  | asset s => intro a x h; simp [Machine.evalExpr] at h
  | num n => intro a x h; simp [Machine.evalExpr] at h
  | str s => intro a x h; simp [Machine.evalExpr] at h
  | portion t =>
    intro a x h
    simp only [Machine.evalExpr] at h
    split at h <;> cases h
  | mon a' n _ => intro a x h; exact ⟨x, by simpa [Expr.leftmost] using h⟩
  | var y => intro a x h; exact ⟨x, by simpa [Expr.leftmost] using h⟩
  | add l r ihl _ =>
    intro a x h
    simp only [Machine.evalExpr] at h
    split at h
    · cases h
    · rename_i va hva
      split at h
      · cases h
      · split at h
        · cases h
        · rename_i a1 x1 a2 x2
          split at h
          · cases h
          · cases h
            simpa [Expr.leftmost] using ihl _ _ hva
        · cases h
  | sub l r ihl _ =>
    intro a x h
    simp only [Machine.evalExpr] at h
    split at h
    · cases h
    · rename_i va hva
      split at h
      · cases h
      · split at h
        · cases h
        · rename_i a1 x1 a2 x2
          split at h
          · cases h
          · cases h
            simpa [Expr.leftmost] using ihl _ _ hva
        · cases h

theorem leftmostAsset_of_monetary {env : Env} {mon : Expr} {c : String} {x : Option Int}
    (h : evalMonetary env mon = .ok (c, x)) : leftmostAsset env mon = .ok c := by
  unfold evalMonetary at h
  split at h
  · rename_i a v hv
    cases h
    obtain ⟨x', hx'⟩ := leftmost_monetary mon _ _ hv
    simp [leftmostAsset, hx']
  · cases h
  · cases h

theorem take_neg (ps : List Part) {amt : Int} (h : amt < 0) : take ps amt = none := by
  have : (takeLoop ps amt).2.2 = amt := by
    cases ps with
    | nil => rfl
    | cons p ps => unfold takeLoop; rw [if_neg (by omega)]
  simp [take, this]; omega

/-! ## From the inter-statement relation to the one of a send and back -/

theorem SRel.toDRel {P : List (String × String)} {st : State} {ist : IState} (h : SRel P st ist)
    (c : String) : DRel P c st { ist with asset := c } :=
  ⟨h.rel, h.wf, h.posts, h.nnM, h.okI, h.tx, h.acc, rfl, by simp [h.queue, Pos.nil],
    by simp [h.queue]⟩

/-- After the sources: the machine holds the funding `r`, the interpreter has pushed its
    units on an empty queue. -/
theorem drel_after_sources {P : List (String × String)} {c : String} {st : State} {ist ist1 : IState}
    {b2 : Balances} {r : Funding} (h : SRel P st ist) (hrc : r.asset = c) (hrn : partsNonneg r.parts)
    (hd : Delta st.bal b2 (fun a c' => - fl a c' r))
    (hp : Pushed c { ist with asset := c } ist1 (units r.parts))
    (hval : ∀ x ∈ units r.parts, validAccount x = true) :
    DRel P c { st with bal := b2 } ist1 ∧ units ist1.queue = units r.parts ++ [] := by
  obtain ⟨Q, q1, q2, q3⟩ := hp.queue
  have hq : ist1.queue = Q := by simpa [h.queue] using q1
  refine ⟨⟨?_, hd.wf h.wf, ?_, h.nnM, ?_, ?_, ?_, hp.asset, ?_, ?_⟩, ?_⟩
  · refine h.rel.delta h.wf hd ?_
    intro a c' _ _
    rw [hp.bal]
    simp only [fl_eq_count a c' r hrn, hrc]
    by_cases hc : c = c'
    · subst hc; simp; omega
    · have : ¬ c' = c := fun x => hc x.symm
      simp [hc, this]
  · rw [hp.postings]; exact h.posts
  · rw [hp.postings]; exact h.okI
  · rw [hp.txMeta]; exact h.tx
  · rw [hp.accMeta]; exact h.acc
  · rw [hq]; exact q3
  · rw [hq, q2]; exact hval
  · rw [hq, q2]; simp

/-- After the destination: the remainder the machine repays holds no unit. -/
theorem srel_after_dest {P : List (String × String)} {c : String} {st1 : State} {ist2 : IState}
    {rem : List Part} (h : DRel P c st1 ist2) (hq : units ist2.queue = []) (hn : partsNonneg rem)
    (hu : units rem = []) : SRel P { st1 with bal := repay st1.bal c rem } ist2 := by
  have hd := repay_delta st1.bal c rem
  refine ⟨?_, hd.wf h.wf, h.posts, h.nnM, h.okI, h.tx, h.acc, h.pos.units_nil hq⟩
  refine h.rel.delta h.wf hd ?_
  intro a c' _ _
  rw [fl_eq_count a c' ⟨c, rem⟩ hn]
  simp [hu]

/-! ## `send` -/

theorem send_sim {env ienv : Env} (heq : EnvEq env ienv) (henv : EnvOK env)
    {P : List (String × String)} {mon : Expr} {s : Source} {dst : Dest} {st : State} {ist : IState}
    (hwf : stmtWf env (.send mon (.src s) dst) = true)
    (hin : stmtLeavesIn P env (.send mon (.src s) dst) = true) (h : SRel P st ist) :
    StmtAgree P (Machine.evalStmt Cfg.fixed env (.send mon (.src s) dst) st)
      (Interp.evalStmt ienv (.send mon (.src s) dst) ist) := by
  simp only [stmtWf, Bool.and_eq_true] at hwf
  obtain ⟨hlm, hwf2⟩ := hwf
  split at hwf2
  · rename_i c amt hmon
    simp only [Bool.and_eq_true] at hwf2
    obtain ⟨⟨hvc, hws⟩, hwd⟩ := hwf2
    have hin' : LeavesIn P env c s.neededAccts := by
      simp only [stmtLeavesIn, hmon] at hin
      exact leavesIn_spec hin
    have hla := leftmostAsset_of_monetary hmon
    have himon := evalMon_agree heq henv hlm hmon
    by_cases hneg : amt < 0
    · -- negative amount: both fail
      obtain ⟨f, b1, h1, h2, _⟩ := src_sim heq henv s hws hin' st.bal { ist with asset := c } 0
        (by omega) rfl h.wf h.rel.hasP (fun _ => h.rel)
      have hm : ∃ e, Machine.evalStmt Cfg.fixed env (.send mon (.src s) dst) st = .error e := by
        simp only [Machine.evalStmt, hla, h1, hmon]
        cases hfb : s.fallback with
        | some e =>
          simp [takeFromSource, takeMaxStep, needAmt, hneg]
        | none =>
          simp [takeFromSource, h2, needAmt, take_neg f.parts hneg]
      obtain ⟨e, he⟩ := hm
      rw [he]
      simp [Interp.evalStmt, himon, hneg, StmtAgree]
    · have hamt : 0 ≤ amt := by omega
      obtain ⟨f, b1, h1, h2, h3, hval, sent, ist1, h4, h5, h6⟩ :=
        src_sim heq henv s hws hin' st.bal { ist with asset := c } amt hamt rfl h.wf
          h.rel.hasP (fun _ => h.rel)
      have hok := (evalSource_ok Cfg.fixed env c s st.bal f b1 h1).1
      have hn := hok.nonneg f (by simp)
      have hlen := total_eq_length f.parts hn
      -- what the machine takes from the funding
      have key : (∃ e, takeFromSource env s.fallback f (c, some amt) b1 = .error e ∧ sent ≠ amt) ∨
          (∃ r b2, takeFromSource env s.fallback f (c, some amt) b1 = .ok (r, b2) ∧ r.asset = c ∧
            units r.parts = takeExt amt.toNat (units f.parts) (fbOf env s.fallback) ∧ sent = amt) := by
        cases hfb : s.fallback with
        | some e =>
          right
          obtain ⟨g, b2, g1, g2, g3⟩ := takeMaxStep_units (b := b1) hn h2 hamt (fb := some e)
            (fun e' he' => h3 e' (by rw [hfb]; exact he'))
          refine ⟨g, b2, by simpa [takeFromSource] using g1, g2, g3, ?_⟩
          obtain ⟨w, hw⟩ := h3 e hfb
          rw [hfb] at h6
          simp only [fbOf, hw, takeExt_length_some] at h6
          omega
        | none =>
          rw [hfb] at h6
          simp only [fbOf, takeExt_none, List.length_take] at h6
          by_cases hle : amt ≤ total f.parts
          · right
            have hs := (take_isSome_iff f.parts hn amt hamt).mpr hle
            obtain ⟨⟨res, rem⟩, ht⟩ := Option.isSome_iff_exists.mp hs
            refine ⟨⟨f.asset, res⟩, repay b1 f.asset rem, ?_, h2, ?_, by omega⟩
            · simp [takeFromSource, h2, needAmt, ht]
            · simp [fbOf, takeExt_none, (take_units hn ht).1]
          · left
            have hnone : take f.parts amt = none := by
              cases ht : take f.parts amt with
              | none => rfl
              | some x =>
                have := (take_isSome_iff f.parts hn amt hamt).mp (by simp [ht])
                omega
            exact ⟨.run "exec" "insufficient", by simp [takeFromSource, h2, needAmt, hnone], by omega⟩
      rcases key with ⟨e, ke, kne⟩ | ⟨r, b2, k1, k2, k3, k4⟩
      · -- insufficient funds on both sides
        have hm : Machine.evalStmt Cfg.fixed env (.send mon (.src s) dst) st = .error e := by
          simp only [Machine.evalStmt, hla, h1, hmon, ke]
        rw [hm]
        simp [Interp.evalStmt, himon, hneg, tryExact, h4, kne, StmtAgree]
      · subst k4
        have tk := (takeFromSource_ok k1).1
        have hrn : partsNonneg r.parts := tk.nonneg hn
        have hdelta : Delta st.bal b2 (fun a c' => - fl a c' r) :=
          Delta.trans hok.delta tk.delta (by intro a c'; simp [inFlight]; omega)
        rw [← k3] at h5 hval h6
        obtain ⟨hd1, hq1⟩ := drel_after_sources h k2 hrn hdelta h5 hval
        obtain ⟨rem, st1, ist2, d1, d2, d3, d4, d5, d6⟩ :=
          dst_sim heq henv hvc dst hwd r.parts [] { st with bal := b2 } ist1 hrn hd1 hq1
        have htot : total r.parts = sent := by rw [total_eq_length _ hrn]; omega
        have hm : Machine.evalStmt Cfg.fixed env (.send mon (.src s) dst) st =
            .ok { st1 with bal := repay st1.bal c rem } := by
          simp only [Machine.evalStmt, hla, h1, hmon, k1, finishSend, k2, d1]
        rw [hm]
        have hi : Interp.evalStmt ienv (.send mon (.src s) dst) ist = .ok ist2 := by
          simp only [Interp.evalStmt, himon, if_neg hneg, tryExact, h4]
          simp only [ne_eq, not_true_eq_false, if_false]
          rw [← htot]; exact d4
        rw [hi]
        exact srel_after_dest d5 d6 d2 d3
  · cases hwf2

/-! ## `send [A *]` -/

theorem sendAll_sim {env ienv : Env} (heq : EnvEq env ienv) (henv : EnvOK env)
    {P : List (String × String)} {ae : Expr} {s : Source} {dst : Dest} {st : State} {ist : IState}
    (hwf : stmtWf env (.sendAll ae (.src s) dst) = true)
    (hin : stmtLeavesIn P env (.sendAll ae (.src s) dst) = true) (h : SRel P st ist) :
    StmtAgree P (Machine.evalStmt Cfg.fixed env (.sendAll ae (.src s) dst) st)
      (Interp.evalStmt ienv (.sendAll ae (.src s) dst) ist) := by
  simp only [stmtWf, Bool.and_eq_true] at hwf
  obtain ⟨hlae, hwf⟩ := hwf
  split at hwf
  · rename_i c hc
    simp only [Bool.and_eq_true] at hwf
    obtain ⟨⟨⟨hvc, hws⟩, hfb⟩, hwd⟩ := hwf
    have hfb' : s.fallback = none := by simpa using hfb
    have hin' : LeavesIn P env c s.neededAccts := by
      simp only [stmtLeavesIn, hc] at hin
      exact leavesIn_spec hin
    have hia := evalAsset_agree heq henv hlae hc
    obtain ⟨f, b1, h1, h2, hval, ist1, h4, h5⟩ :=
      all_sim heq henv s hws hfb' hin' st.bal { ist with asset := c } rfl h.wf h.rel
    have hok := (evalSource_ok Cfg.fixed env c s st.bal f b1 h1).1
    have hn := hok.nonneg f (by simp)
    have hdelta : Delta st.bal b1 (fun a c' => - fl a c' f) :=
      hok.delta.congr (by intro a c'; simp [inFlight])
    obtain ⟨hd1, hq1⟩ := drel_after_sources h h2 hn hdelta h5 hval
    obtain ⟨rem, st1, ist2, d1, d2, d3, d4, d5, d6⟩ :=
      dst_sim heq henv hvc dst hwd f.parts [] { st with bal := b1 } ist1 hn hd1 hq1
    have hm : Machine.evalStmt Cfg.fixed env (.sendAll ae (.src s) dst) st =
        .ok { st1 with bal := repay st1.bal c rem } := by
      simp only [Machine.evalStmt, hc, h1, finishSend, h2, d1]
    have hi : Interp.evalStmt ienv (.sendAll ae (.src s) dst) ist = .ok ist2 := by
      simp only [Interp.evalStmt, hia, h4, d4]
    rw [hm, hi]
    exact srel_after_dest d5 d6 d2 d3
  · cases hwf

end Ledger.Interp
