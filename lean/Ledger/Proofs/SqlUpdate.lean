import Ledger.Proofs.SqlTable

/-!
# UPDATE (without FROM) over any table: the evaluator's loop against a pure model
-/
namespace Ledger.Sql

def Table.withRows (t : Table) (rows : List Ver) : Table := { t with rows := rows }

@[simp] theorem withRows_name (t : Table) (rows : List Ver) : (t.withRows rows).name = t.name := rfl
@[simp] theorem withRows_rows (t : Table) (rows : List Ver) : (t.withRows rows).rows = rows := rfl
@[simp] theorem withRows_colNames (t : Table) (rows : List Ver) : (t.withRows rows).colNames = t.colNames := rfl
@[simp] theorem withRows_cols (t : Table) (rows : List Ver) : (t.withRows rows).cols = t.cols := rfl
@[simp] theorem withRows_triggers (t : Table) (rows : List Ver) : (t.withRows rows).triggers = t.triggers := rfl
@[simp] theorem withRows_uniques (t : Table) (rows : List Ver) : (t.withRows rows).uniques = t.uniques := rfl
@[simp] theorem withRows_fks (t : Table) (rows : List Ver) : (t.withRows rows).fks = t.fks := rfl
@[simp] theorem withRows_withRows (t : Table) (r1 r2 : List Ver) : (t.withRows r1).withRows r2 = t.withRows r2 := rfl

/-- append to the queue of AFTER ROW triggers -/
def St.addQ (s : St) (q : List PendingTrig) : St := { s with afterQ := s.afterQ ++ q }

@[simp] theorem addQ_w (s : St) (q : List PendingTrig) : (s.addQ q).w = s.w := rfl
@[simp] theorem addQ_xid (s : St) (q : List PendingTrig) : (s.addQ q).xid = s.xid := rfl
@[simp] theorem addQ_cid (s : St) (q : List PendingTrig) : (s.addQ q).cid = s.cid := rfl
@[simp] theorem addQ_nil (s : St) : s.addQ [] = s := by simp [St.addQ]
@[simp] theorem addQ_addQ (s : St) (q1 q2 : List PendingTrig) : (s.addQ q1).addQ q2 = s.addQ (q1 ++ q2) := by
  simp [St.addQ, List.append_assoc]
theorem addQ_withTable (s : St) (q : List PendingTrig) (t : Table) : (s.addQ q).withTable t = (s.withTable t).addQ q := rfl

theorem TxState.withTable {s : St} (h : TxState s) (t : Table) : TxState (s.withTable t) :=
  ⟨h.solo, h.xid, h.cid, h.snap, h.noEpq, by
    show ((s.w.setTable t).tables.map (·.name)).Nodup
    rw [names_setTable]; exact h.names⟩
theorem TxState.addQ {s : St} (h : TxState s) (q : List PendingTrig) : TxState (s.addQ q) :=
  ⟨h.solo, h.xid, h.cid, h.snap, h.noEpq, h.names⟩

theorem exec_fireBefore_none (n : Nat) (t : Table) (ev : TrigEvent) (hev : ev ≠ .delete) (setCols : List String)
    (new : List Value) (old : Option (List Value)) (s : St)
    (h : t.triggers.filter (fun tr => tr.timing == .before && tr.event == ev) = []) :
    (fireBefore (n + 1) t ev setCols (some new) old).exec s = (.ok (some new), s) := by
  simp only [fireBefore, h, sortTriggers, List.foldl_nil, List.foldlM_nil, exec_bind, exec_pure]
  cases ev <;> simp at hev ⊢

theorem exec_queueAfter_none (n : Nat) (t : Table) (ev : TrigEvent) (setCols : List String)
    (new old : Option (List Value)) (s : St)
    (h : t.triggers.filter (fun tr => tr.timing == .after && tr.event == ev) = []) :
    (queueAfter (n + 1) t ev setCols new old).exec s = (.ok (), s) := by
  simp only [queueAfter, h, sortTriggers, List.foldl_nil, List.foldlM_nil, exec_pure]

def newVer (xid cid rid : Nat) (vals : List Value) : Ver := { rid := rid, xmin := xid, cmin := cid, vals := vals }

/-- one target row of an UPDATE with guard `g` and new values `f` -/
def updStep (lv : View) (xid cid : Nat) (g : List Value → Bool) (f : List Value → List Value) (rows : List Ver) (r : Ver) : List Ver :=
  if g r.vals then newVer xid cid r.rid (f r.vals) :: rows.map (closeRow lv xid cid r.rid) else rows

/-- what the statement needs from its pieces, for the rows of table `t` (semantic hypotheses, established
    per statement by evaluation of its expressions) -/
structure UpdSem (env : Env) (t : Table) (alias a : String) (sets : List SetItem) (wher : Option Expr) (returning : List SelItem)
    (g : List Value → Bool) (f : List Value → List Value) (accStep : DmlAcc → Ver → DmlAcc) (Q : Ver → List PendingTrig)
    (P : Ver → Prop) (Sok : St → Prop := fun _ => True) : Prop where
  hguard : ∀ r, P r → ∀ m s, Sok s → (whereHolds (m + 2) env wher [rowScopeOf t a r]).exec s = (.ok (g r.vals), s)
  hsets : ∀ r, P r → g r.vals = true → ∀ m rows s, Sok s →
    (applySets (m + 3) { env with locals := [rowScopeOf t a r] } (t.withRows rows) r.vals sets).exec s =
      (.ok (f r.vals), s)
  hchecks : ∀ r, P r → g r.vals = true → ∀ rows s, Sok s → (checkConstraints (t.withRows rows) (f r.vals)).exec s = (.ok (), s)
  hfks : ∀ r, P r → g r.vals = true → ∀ rows s, Sok s → (checkForeignKeys (t.withRows rows) (f r.vals)).exec s = (.ok (), s)
  hbefore : t.triggers.filter (fun tr => tr.timing == .before && tr.event == .update) = []
  hafter : ∀ r, P r → g r.vals = true → ∀ m rows s, Sok s →
    (queueAfter (m + 3) (t.withRows rows) .update (sets.map (fun si => match si with | .mk c _ => c)) (some (f r.vals)) (some r.vals)).exec s =
      (.ok (), s.addQ (Q r))
  hacc : ∀ r, P r → g r.vals = true → ∀ m rows s a, Sok s →
    (accReturning (m + 3) env (t.withRows rows) alias (f r.vals) [] returning a).exec s = (.ok (accStep a r), s)


theorem firstJoinMatch_single (n : Nat) (env : Env) (wher : Option Expr) (tsc : Scope) (s : St) (b : Bool)
    (h : (whereHolds (n + 1) env wher [tsc]).exec s = (.ok b, s)) :
    (firstJoinMatch (n + 2) env wher tsc [[]]).exec s = (.ok (if b then some [] else none), s) := by
  rw [firstJoinMatch]
  simp only [List.foldlM_cons, List.foldlM_nil, exec_bind, Option.isSome_none, Bool.false_eq_true, if_false, List.append_nil, h]
  cases b <;> simp

/-- one target row of `UPDATE t SET … WHERE …` (no FROM) -/
theorem exec_updateRowStep_gen (n : Nat) (env : Env) (full alias a : String) (sets : List SetItem) (wher : Option Expr)
    (returning : List SelItem) (t : Table) (g : List Value → Bool) (f : List Value → List Value)
    (accStep : DmlAcc → Ver → DmlAcc) (Q : Ver → List PendingTrig) (P : Ver → Prop)
    (Sok : St → Prop) (hSokT : ∀ s t, Sok s → Sok (s.withTable t)) (hSokQ : ∀ s q, Sok s → Sok (s.addQ q))
    (sem : UpdSem env t alias a sets wher returning g f accStep Q P Sok)
    (s : St) (hs : TxState s) (hS : Sok s) (rows : List Ver) (hT : s.w.table? full = some (t.withRows rows)) (hname : t.name = full)
    (r : Ver) (hr : r ∈ rows) (hv : r.visible (latestView s.w s.xid) = true) (hP : P r)
    (hinj : RidInj (latestView s.w s.xid) rows)
    (hnc : g r.vals = true → (findConflict (t.withRows rows) t.uniques (f r.vals) (some r.rid)).exec s = (.ok none, s))
    (acc : DmlAcc) :
    (updateRowStep (n + 4) env full alias sets [[]] wher returning (rowScopeOf t a r) acc).exec s =
      (if g r.vals then
        (.ok (accStep acc r), (s.withTable (t.withRows (updStep (latestView s.w s.xid) s.xid s.cid g f rows r))).addQ (Q r))
       else (.ok acc, s)) := by
  rw [updateRowStep]
  have hfj := firstJoinMatch_single (n + 1) env wher (rowScopeOf t a r) s (g r.vals) (sem.hguard r hP n s hS)
  simp only [exec_bind, hfj]
  cases hg : g r.vals with
  | false => simp
  | true =>
    have hlat := exec_latestVersion s (t.withRows rows) r (by simpa using hr) hv (by simpa using hinj)
    have hsrc : (rowScopeOf t a r).src = some (t.name, r.rid) := rfl
    have hsc : ({ alias := (rowScopeOf t a r).alias, cols := (rowScopeOf t a r).cols, vals := r.vals,
                  src := some (t.name, r.rid) } : Scope) = rowScopeOf t a r := rfl
    have hwh := sem.hguard r hP (n + 1) s hS
    rw [hg] at hwh
    have hT2 : (s.withTable (t.withRows (updStep (latestView s.w s.xid) s.xid s.cid g f rows r))).w.table? full =
        some (t.withRows (updStep (latestView s.w s.xid) s.xid s.cid g f rows r)) := by
      have := withTable_table? s (t.withRows rows) (t.withRows (updStep (latestView s.w s.xid) s.xid s.cid g f rows r)) (by rw [withRows_name, hname]; exact hT)
      simpa [hname] using this
    have hupd : (updateVersion full r.rid (f r.vals)).exec s =
        (.ok (), s.withTable (t.withRows (updStep (latestView s.w s.xid) s.xid s.cid g f rows r))) := by
      rw [exec_updateVersion hT]
      simp [updStep, hg, newVer, Table.withRows]
    simp only [if_true, hsrc, exec_getTable hT, hlat, exec_heldByOther s hs, exec_bind]
    have hrest : ∀ (ok : Bool), ok = true →
        ((if (!ok) = true then pure acc
          else do
            let newVals ← applySets (n + 3) { env with locals := [rowScopeOf t a r] } (t.withRows rows) r.vals sets
            let __do_lift ← fireBefore (n + 3) (t.withRows rows) TrigEvent.update (sets.map (fun x => match x with | SetItem.mk c _ => c)) (some newVals) (some r.vals)
            match __do_lift with
            | none => pure acc
            | some newVals => do
              let t ← getTable full
              checkConstraints t newVals
              let __do_lift ← findConflict t t.uniques newVals (some r.rid)
              match __do_lift with
              | some (idx, _) => throw (uniqueViolation t idx (keyOf t idx.cols newVals))
              | none => do
                checkForeignKeys t newVals
                updateVersion full r.rid newVals
                let t ← getTable full
                queueAfter (n + 3) t TrigEvent.update (sets.map (fun x => match x with | SetItem.mk c _ => c)) (some newVals) (some r.vals)
                accReturning (n + 3) env t alias newVals [] returning acc) : M DmlAcc).exec s =
          (.ok (accStep acc r), (s.withTable (t.withRows (updStep (latestView s.w s.xid) s.xid s.cid g f rows r))).addQ (Q r)) := by
      intro ok hok
      subst hok
      have h1 := fun m rows' => sem.hsets r hP hg m rows' s hS
      have h2 := fun rows' => sem.hchecks r hP hg rows' s hS
      have h3 := fun rows' => sem.hfks r hP hg rows' s hS
      have hS2 := hSokT s (t.withRows (updStep (latestView s.w s.xid) s.xid s.cid g f rows r)) hS
      have h4 := fun m rows' => sem.hafter r hP hg m rows' _ hS2
      have h5 := fun m rows' a' => sem.hacc r hP hg m rows' _ a' (hSokQ _ (Q r) hS2)
      simp only [Bool.not_true, Bool.false_eq_true, if_false, exec_bind, withRows_uniques,
        h1, exec_fireBefore_none _ (t.withRows rows) .update (by simp) _ _ _ _ (by simpa using sem.hbefore),
        exec_getTable hT, h2, hnc hg, h3, hupd, exec_getTable hT2, h4, h5]
    cases (r.vals == (rowScopeOf t a r).vals) with
    | true =>
      simp only [if_true, hsc, List.append_nil, exec_bind, exec_pure]
      exact hrest true rfl
    | false =>
      simp only [Bool.false_eq_true, if_false, hsc, List.append_nil, exec_bind, hwh]
      exact hrest true rfl


/-! ### the loop -/

def updRun (lv : View) (xid cid : Nat) (g : List Value → Bool) (f : List Value → List Value) (rows : List Ver) (ts : List Ver) : List Ver :=
  ts.foldl (updStep lv xid cid g f) rows

def updAcc (g : List Value → Bool) (accStep : DmlAcc → Ver → DmlAcc) (acc : DmlAcc) (ts : List Ver) : DmlAcc :=
  ts.foldl (fun a r => if g r.vals then accStep a r else a) acc

def updQ (g : List Value → Bool) (Q : Ver → List PendingTrig) (ts : List Ver) : List PendingTrig :=
  ts.flatMap (fun r => if g r.vals then Q r else [])

theorem updQ_nil (g : List Value → Bool) (ts : List Ver) : updQ g (fun _ => ([] : List PendingTrig)) ts = [] := by
  induction ts with
  | nil => rfl
  | cons r rest ih =>
    show (if g r.vals then [] else []) ++ updQ _ _ rest = []
    rw [ih]; simp

/-- a table-specific invariant that rules out unique violations by the updated rows -/
structure UpdInv (t : Table) (g : List Value → Bool) (f : List Value → List Value) (lv : View) (xid cid : Nat)
    (P : Ver → Prop) (Inv : List Ver → Prop) : Prop where
  step : ∀ rows r, Inv rows → r ∈ rows → r.visible lv = true → P r → g r.vals = true → Inv (updStep lv xid cid g f rows r)
  noConflict : ∀ rows r, Inv rows → r ∈ rows → r.visible lv = true → P r → g r.vals = true →
    ∀ s, TxState s → latestView s.w s.xid = lv → s.xid = xid →
      (findConflict (t.withRows rows) t.uniques (f r.vals) (some r.rid)).exec s = (.ok none, s)

theorem newVer_visible (w : World) (xid cid rid : Nat) (vals : List Value) (hx : xid ≠ 0) (hc : cid < 1000000000) :
    (newVer xid cid rid vals).visible (latestView w xid) = true := by
  simp [newVer, Ver.visible, xidVisible, latestView, hx, hc]

theorem closeRow_ne (lv : View) (xid cid rid : Nat) (r : Ver) (h : r.rid ≠ rid) : closeRow lv xid cid rid r = r := by
  unfold closeRow
  have : (r.rid == rid) = false := by simpa using h
  simp [this]

theorem RidInj_updStep (w : World) (xid cid : Nat) (hx : xid ≠ 0) (hc : cid < 1000000000) (g : List Value → Bool) (f : List Value → List Value)
    (rows : List Ver) (r : Ver) (hinj : RidInj (latestView w xid) rows) :
    RidInj (latestView w xid) (updStep (latestView w xid) xid cid g f rows r) := by
  unfold updStep
  cases g r.vals with
  | false => exact hinj
  | true =>
    simp only [if_true]
    -- an old row still visible after the update was visible and has another row id
    have hold : ∀ q ∈ rows, (closeRow (latestView w xid) xid cid r.rid q).visible (latestView w xid) = true →
        q.visible (latestView w xid) = true ∧ q.rid ≠ r.rid := by
      intro q _ hv
      rw [closeRow_visible w xid cid r.rid q hx hc] at hv
      simpa using hv
    intro a ha b hb va vb hab
    simp only [List.mem_cons, List.mem_map] at ha hb
    rcases ha with rfl | ⟨qa, hqa, rfl⟩ <;> rcases hb with rfl | ⟨qb, hqb, rfl⟩
    · rfl
    · obtain ⟨_, hne⟩ := hold qb hqb vb
      simp [newVer] at hab
      exact absurd hab.symm hne
    · obtain ⟨_, hne⟩ := hold qa hqa va
      simp [newVer] at hab
      exact absurd hab hne
    · obtain ⟨v1, n1⟩ := hold qa hqa va
      obtain ⟨v2, n2⟩ := hold qb hqb vb
      simp only [closeRow_rid] at hab
      rw [closeRow_ne _ _ _ _ _ n1, closeRow_ne _ _ _ _ _ n2]
      exact hinj qa hqa qb hqb v1 v2 hab

theorem exec_updLoop (n : Nat) (env : Env) (full alias a : String) (sets : List SetItem) (wher : Option Expr)
    (returning : List SelItem) (t : Table) (g : List Value → Bool) (f : List Value → List Value)
    (accStep : DmlAcc → Ver → DmlAcc) (Q : Ver → List PendingTrig) (P : Ver → Prop)
    (Sok : St → Prop) (hSokT : ∀ s t, Sok s → Sok (s.withTable t)) (hSokQ : ∀ s q, Sok s → Sok (s.addQ q))
    (sem : UpdSem env t alias a sets wher returning g f accStep Q P Sok)
    (s0 : St) (hs : TxState s0) (hS0 : Sok s0) (rows0 : List Ver) (hT0 : s0.w.table? full = some (t.withRows rows0)) (hname : t.name = full)
    (Inv : List Ver → Prop) (hI : UpdInv t g f (latestView s0.w s0.xid) s0.xid s0.cid P Inv) :
    ∀ (ts : List Ver) (rows : List Ver) (acc : DmlAcc) (q : List PendingTrig),
      (∀ r ∈ ts, r ∈ rows ∧ r.visible (latestView s0.w s0.xid) = true ∧ P r) → (ts.map (·.rid)).Nodup →
      RidInj (latestView s0.w s0.xid) rows → Inv rows →
      ((ts.map (rowScopeOf t a)).foldlM (fun acc tsc =>
          updateRowStep (n + 4) env full alias sets [[]] wher returning tsc acc) acc).exec ((s0.withTable (t.withRows rows)).addQ q) =
        (.ok (updAcc g accStep acc ts),
         (s0.withTable (t.withRows (updRun (latestView s0.w s0.xid) s0.xid s0.cid g f rows ts))).addQ (q ++ updQ g Q ts)) := by
  intro ts
  induction ts with
  | nil => intro rows acc q _ _ _ _; simp [updAcc, updRun, updQ]
  | cons r rest ih =>
    intro rows acc q hts hnd hinj hinv
    obtain ⟨hr, hv, hP⟩ := hts r (by simp)
    have hnd' := List.nodup_cons.mp hnd
    have hsT : TxState ((s0.withTable (t.withRows rows)).addQ q) := (hs.withTable _).addQ q
    have hT : ((s0.withTable (t.withRows rows)).addQ q).w.table? full = some (t.withRows rows) := by
      have := withTable_table? s0 (t.withRows rows0) (t.withRows rows) (by rw [withRows_name, hname]; exact hT0)
      simpa [hname] using this
    have hstep := exec_updateRowStep_gen n env full alias a sets wher returning t g f accStep Q P Sok hSokT hSokQ sem
      ((s0.withTable (t.withRows rows)).addQ q) hsT (hSokQ _ q (hSokT _ _ hS0)) rows hT hname r hr (by simpa using hv) hP (by simpa using hinj)
      (fun hg => hI.noConflict rows r hinv hr hv hP hg _ hsT (by simp) (by simp)) acc
    simp only [addQ_w, withTable_latestView, addQ_xid, withTable_xid, addQ_cid, withTable_cid] at hstep
    simp only [List.map_cons, exec_foldlM_cons, hstep]
    -- the remaining targets are untouched
    have hrest : ∀ r' ∈ rest, r' ∈ updStep (latestView s0.w s0.xid) s0.xid s0.cid g f rows r ∧
        r'.visible (latestView s0.w s0.xid) = true ∧ P r' := by
      intro r' hr'
      obtain ⟨h1, h2, h3⟩ := hts r' (by simp [hr'])
      refine ⟨?_, h2, h3⟩
      unfold updStep
      cases g r.vals with
      | false => exact h1
      | true =>
        simp only [if_true, List.mem_cons, List.mem_map]
        right
        refine ⟨r', h1, closeRow_ne _ _ _ _ _ ?_⟩
        intro e
        exact hnd'.1 (by
          have := List.mem_map_of_mem (f := fun x : Ver => x.rid) hr'
          simpa [e] using this)
    have hinj' := RidInj_updStep s0.w s0.xid s0.cid hs.xid hs.cid g f rows r hinj
    cases hg : g r.vals with
    | false =>
      have e : updStep (latestView s0.w s0.xid) s0.xid s0.cid g f rows r = rows := by simp [updStep, hg]
      simp only [Bool.false_eq_true, if_false]
      rw [ih rows acc q (by rw [← e]; exact hrest) hnd'.2 hinj hinv]
      simp [updAcc, updRun, updQ, hg, e]
    | true =>
      have hinv' := hI.step rows r hinv hr hv hP hg
      simp only [if_true]
      rw [addQ_withTable, withTable_withTable _ _ _ (by simp), addQ_addQ]
      rw [ih _ (accStep acc r) (q ++ Q r) hrest hnd'.2 hinj' hinv']
      simp [updAcc, updRun, updQ, hg, List.append_assoc]


/-! ### the statement -/

theorem nodup_map_inj {α β : Type} (f : α → β) : ∀ (l : List α), (l.map f).Nodup → ∀ a ∈ l, ∀ b ∈ l, f a = f b → a = b := by
  intro l
  induction l with
  | nil => intro _ a ha; simp at ha
  | cons x xs ih =>
    intro h a ha b hb e
    simp only [List.map_cons, List.nodup_cons] at h
    rcases List.mem_cons.mp ha with rfl | ha' <;> rcases List.mem_cons.mp hb with rfl | hb'
    · rfl
    · exact absurd (by rw [e]; exact List.mem_map_of_mem hb') h.1
    · exact absurd (by rw [← e]; exact List.mem_map_of_mem ha') h.1
    · exact ih h.2 a ha' b hb' e

theorem nodup_reverse' {α : Type} (l : List α) (h : l.Nodup) : l.reverse.Nodup := by
  unfold List.Nodup at *
  rw [List.pairwise_reverse]
  exact h.imp (fun hab e => hab e.symm)


/-- RETURNING items with the expressions blanked (column names of an UPDATE that wrote no row) -/
def protoReturning (returning : List SelItem) : List SelItem :=
  returning.map (fun it => match it with
    | .expr _ al => if al.isEmpty then it else SelItem.expr .null al
    | it => it)

theorem exec_execUpdate_gen (n : Nat) (env : Env) (schema table full alias a : String) (sets : List SetItem) (wher : Option Expr)
    (returning : List SelItem) (t : Table) (g : List Value → Bool) (f : List Value → List Value)
    (accStep : DmlAcc → Ver → DmlAcc) (Q : Ver → List PendingTrig) (P : Ver → Prop)
    (Sok : St → Prop) (hSokT : ∀ s t, Sok s → Sok (s.withTable t)) (hSokQ : ∀ s q, Sok s → Sok (s.addQ q))
    (sem : UpdSem env t alias a sets wher returning g f accStep Q P Sok)
    (s : St) (hs : TxState s) (hS : Sok s) (rows : List Ver) (hT : s.w.table? full = some (t.withRows rows)) (hname : t.name = full)
    (hq : (qualify schema table).exec s = (.ok full, s)) (ha : a = if alias.isEmpty then table else alias)
    (hfresh : Fresh s.xid s.cid rows)
    (hnd : ((rows.filter (fun r => r.visible (latestView s.w s.xid))).map (·.rid)).Nodup)
    (hP : ∀ r ∈ rows, r.visible (latestView s.w s.xid) = true → P r)
    (Inv : List Ver → Prop) (hI : UpdInv t g f (latestView s.w s.xid) s.xid s.cid P Inv) (hinv : Inv rows)
    (protoCols : List String)
    (hproto : returning.isEmpty = false → ∀ s', ∃ pv, (evalReturning (n + 4) env (t.withRows
        (updRun (latestView s.w s.xid) s.xid s.cid g f rows (rows.filter (fun r => r.visible (latestView s.w s.xid))).reverse))
        alias (t.cols.map (fun _ => Value.null)) [] (protoReturning returning)).exec s' = (.ok (protoCols, pv), s')) :
    (execUpdate (n + 5) env schema table alias sets [] wher returning).exec s =
      (let ts := (rows.filter (fun r => r.visible (latestView s.w s.xid))).reverse
       let acc := updAcc g accStep {} ts
       (.ok { rel := { cols := if acc.retCols.isEmpty && !returning.isEmpty then protoCols else acc.retCols, rows := acc.retRows },
              affected := acc.affected },
        (s.withTable (t.withRows (updRun (latestView s.w s.xid) s.xid s.cid g f rows ts))).addQ (updQ g Q ts))) := by
  have hscanEq : (t.withRows rows).scan (cv s) = (rows.filter (fun r => r.visible (latestView s.w s.xid))).reverse := by
    rw [scan_eq]
    congr 1
    apply List.filter_congr
    intro r hr
    exact visible_cv_latest s hs rows hfresh r hr
  have hself : s.withTable (t.withRows rows) = s := withTable_self s _ (by rw [withRows_name, hname]; exact hT) hs.names
  have hinj : RidInj (latestView s.w s.xid) rows := by
    intro r1 h1 r2 h2 v1 v2 e
    have m1 : r1 ∈ rows.filter (fun r => r.visible (latestView s.w s.xid)) := List.mem_filter.mpr ⟨h1, v1⟩
    have m2 : r2 ∈ rows.filter (fun r => r.visible (latestView s.w s.xid)) := List.mem_filter.mpr ⟨h2, v2⟩
    exact nodup_map_inj (fun x : Ver => x.rid) _ hnd r1 m1 r2 m2 e
  have hts : ∀ r ∈ (rows.filter (fun r => r.visible (latestView s.w s.xid))).reverse,
      r ∈ rows ∧ r.visible (latestView s.w s.xid) = true ∧ P r := by
    intro r hr
    have := List.mem_filter.mp (List.mem_reverse.mp hr)
    exact ⟨this.1, this.2, hP r this.1 this.2⟩
  have hndr : (((rows.filter (fun r => r.visible (latestView s.w s.xid))).reverse).map (·.rid)).Nodup := by
    rw [List.map_reverse]; exact nodup_reverse' _ hnd
  have hloop := exec_updLoop n env full alias a sets wher returning t g f accStep Q P Sok hSokT hSokQ sem s hs hS rows hT hname Inv hI
    _ rows {} [] hts hndr hinj hinv
  rw [hself, addQ_nil] at hloop
  have hT2 := withTable_table? s (t.withRows rows) (t.withRows (updRun (latestView s.w s.xid) s.xid s.cid g f rows
      (rows.filter (fun r => r.visible (latestView s.w s.xid))).reverse)) (by rw [withRows_name, hname]; exact hT)
  rw [execUpdate]
  have hfl : (evalFromList (n + 4) env [] [[]]).exec s = (.ok [[]], s) := by
    rw [evalFromList]
    · rfl
    · intro h; omega
  have hsc := exec_scanTable s hs (t.withRows rows) (if alias.isEmpty then table else alias)
  rw [hscanEq] at hsc
  have hmapsc : (rows.filter (fun r => r.visible (latestView s.w s.xid))).reverse.map (rowScopeOf (t.withRows rows) (if alias.isEmpty then table else alias)) =
      (rows.filter (fun r => r.visible (latestView s.w s.xid))).reverse.map (rowScopeOf t a) := by
    rw [ha]; rfl
  simp only [exec_bind, hq, exec_getTable hT, hsc, hfl, hmapsc, hloop, List.nil_append]
  cases hcase : ((updAcc g accStep {} (rows.filter (fun r => r.visible (latestView s.w s.xid))).reverse).retCols.isEmpty && !returning.isEmpty) with
  | false => simp [hcase]
  | true =>
    have hre : returning.isEmpty = false := by
      cases h : returning.isEmpty <;> simp_all
    have hps : ∀ s', (protoScopes (n + 4) env []).exec s' = (.ok [], s') := by
      intro s'
      rw [protoScopes]
      · rfl
      · intro h; omega
    simp only [hcase, if_true, exec_bind]
    rw [exec_getTable (by simpa [hname] using hT2)]
    simp only [hps]
    obtain ⟨pv, hpv⟩ := hproto hre ((s.withTable (t.withRows (updRun (latestView s.w s.xid) s.xid s.cid g f rows
      (rows.filter (fun r => r.visible (latestView s.w s.xid))).reverse))).addQ (updQ g Q (rows.filter (fun r => r.visible (latestView s.w s.xid))).reverse))
    unfold protoReturning at hpv
    simp only [withRows_cols]
    erw [hpv]
    rfl


/-! ### what the visible rows become -/

/-- the values of the version of row `rid` that the transaction sees now -/
def visLookup (lv : View) (rows : List Ver) (rid : Nat) : Option (List Value) :=
  (rows.find? (fun r => r.rid == rid && r.visible lv)).map (·.vals)

theorem find?_ext_mem' {α : Type} (p q : α → Bool) (l : List α) (h : ∀ x ∈ l, p x = q x) : l.find? p = l.find? q := by
  induction l with
  | nil => rfl
  | cons x xs ih =>
    simp only [List.find?_cons, h x (by simp)]
    rw [ih (fun y hy => h y (by simp [hy]))]

theorem visLookup_of_mem (lv : View) (rows : List Ver) (r : Ver) (hr : r ∈ rows) (hv : r.visible lv = true) (hinj : RidInj lv rows) :
    visLookup lv rows r.rid = some r.vals := by
  unfold visLookup
  cases hf : rows.find? (fun x => x.rid == r.rid && x.visible lv) with
  | none =>
    have := List.find?_eq_none.mp hf r hr
    simp [hv] at this
  | some x =>
    have hx := List.find?_some hf
    have hmem := List.mem_of_find?_eq_some hf
    simp only [Bool.and_eq_true, beq_iff_eq] at hx
    rw [hinj x hmem r hr hx.2 hv hx.1]
    rfl

theorem visLookup_updStep (w : World) (xid cid : Nat) (hx : xid ≠ 0) (hc : cid < 1000000000) (g : List Value → Bool) (f : List Value → List Value)
    (rows : List Ver) (r : Ver) (rid : Nat) :
    visLookup (latestView w xid) (updStep (latestView w xid) xid cid g f rows r) rid =
      if rid = r.rid ∧ g r.vals = true then some (f r.vals) else visLookup (latestView w xid) rows rid := by
  unfold updStep
  cases hg : g r.vals with
  | false => simp
  | true =>
    by_cases he : rid = r.rid
    · subst he
      have hnv := newVer_visible w xid cid r.rid (f r.vals) hx hc
      have hrid : ((newVer xid cid r.rid (f r.vals)).rid == r.rid) = true := by simp [newVer]
      simp only [if_true, visLookup, List.find?_cons, hrid, hnv, Bool.and_self, and_self, Option.map_some]
      rfl
    · have hne : ¬ (r.rid = rid) := fun e => he e.symm
      have h1 : ((newVer xid cid r.rid (f r.vals)).rid == rid) = false := by simp [newVer, hne]
      simp only [if_true, he, false_and, if_false, visLookup, List.find?_cons, h1, Bool.false_and, List.find?_map]
      have : rows.find? ((fun q => q.rid == rid && q.visible (latestView w xid)) ∘ closeRow (latestView w xid) xid cid r.rid) =
          rows.find? (fun q => q.rid == rid && q.visible (latestView w xid)) := by
        apply find?_ext_mem'
        intro q _
        simp only [Function.comp, closeRow_rid, closeRow_visible w xid cid r.rid q hx hc]
        by_cases hq : q.rid = rid
        · have h2 : (q.rid == r.rid) = false := by rw [hq]; simpa using he
          rw [h2]; simp
        · have h3 : (q.rid == rid) = false := by simpa using hq
          rw [h3]; simp
      rw [this]
      cases rows.find? (fun q => q.rid == rid && q.visible (latestView w xid)) <;> simp

/-- After the UPDATE, every row the transaction sees holds `f` of its former values if the guard held on them,
    its former values otherwise; no row appears or disappears. -/
theorem visLookup_updRun (w : World) (xid cid : Nat) (hx : xid ≠ 0) (hc : cid < 1000000000) (g : List Value → Bool) (f : List Value → List Value) :
    ∀ (ts rows : List Ver), (∀ r ∈ ts, r ∈ rows ∧ r.visible (latestView w xid) = true) → (ts.map (·.rid)).Nodup →
      RidInj (latestView w xid) rows → ∀ rid,
      visLookup (latestView w xid) (updRun (latestView w xid) xid cid g f rows ts) rid =
        if rid ∈ ts.map (·.rid) then (visLookup (latestView w xid) rows rid).map (fun v => if g v then f v else v)
        else visLookup (latestView w xid) rows rid := by
  intro ts
  induction ts with
  | nil => intro rows _ _ _ rid; simp [updRun]
  | cons r rest ih =>
    intro rows hts hnd hinj rid
    obtain ⟨hr, hv⟩ := hts r (by simp)
    have hnd' := List.nodup_cons.mp hnd
    have hrest : ∀ r' ∈ rest, r' ∈ updStep (latestView w xid) xid cid g f rows r ∧ r'.visible (latestView w xid) = true := by
      intro r' hr'
      obtain ⟨h1, h2⟩ := hts r' (by simp [hr'])
      refine ⟨?_, h2⟩
      unfold updStep
      cases g r.vals with
      | false => exact h1
      | true =>
        simp only [if_true, List.mem_cons, List.mem_map]
        right
        refine ⟨r', h1, closeRow_ne _ _ _ _ _ ?_⟩
        intro e
        exact hnd'.1 (by
          have := List.mem_map_of_mem (f := fun x : Ver => x.rid) hr'
          simpa [e] using this)
    have hinj' := RidInj_updStep w xid cid hx hc g f rows r hinj
    show visLookup _ (updRun _ xid cid g f (updStep _ xid cid g f rows r) rest) rid = _
    rw [ih _ hrest hnd'.2 hinj' rid, visLookup_updStep w xid cid hx hc g f rows r rid]
    have hlr := visLookup_of_mem _ rows r hr hv hinj
    by_cases he : rid = r.rid
    · subst he
      have hnotin : ¬ r.rid ∈ rest.map (·.rid) := hnd'.1
      simp only [hnotin, if_false, List.map_cons, List.mem_cons, true_or, if_true, true_and, hlr, Option.map_some]
      cases g r.vals <;> simp [hlr]
    · simp [he]

end Ledger.Sql
