import Ledger.Proofs.SqlAccountsIns

/-!
# `UpsertAccounts`: the whole statement
-/
open Ledger Ledger.Sql Ledger.Generated Ledger.Core
open Ledger.Generated.WriteSql.P (AccountRow)
namespace Ledger.Sql

/-- six values -/
def Six (r : List Value) : Prop := ∃ v1 v2 v3 v4 v5 v6, r = [v1, v2, v3, v4, v5, v6]

theorem exec_evalExprs_star6 (cb : Callbacks) (te : TypeEnv) (env : Env) (name : String) (hne : name.isEmpty = false)
    (hlc : lastComponent name = name) (v1 v2 v3 v4 v5 v6 : Value) (s : St) :
    (evalExprs cb te { env with locals := [cteScope name updRetCols [v1, v2, v3, v4, v5, v6]], group := none, wins := [] }
      (updRetCols.map (fun c => Expr.col name c))).exec s = (.ok [v1, v2, v3, v4, v5, v6], s) := by
  have hq : ∀ c v, lookupIn updRetCols [v1, v2, v3, v4, v5, v6] c = some v →
      lookupColumn { env with locals := [cteScope name updRetCols [v1, v2, v3, v4, v5, v6]], group := none, wins := [] } name c = .ok v := by
    intro c v h
    simp [lookupColumn, hne, Env.scopes, findScope, hlc, cteScope, h]
    rfl
  have q1 := hq "address" v1 rfl
  have q2 := hq "metadata" v2 rfl
  have q3 := hq "first_usage" v3 rfl
  have q4 := hq "updated_at" v4 rfl
  have q5 := hq "insertion_date" v5 rfl
  have q6 := hq "batch_index" v6 rfl
  simp only [updRetCols, List.map_cons, List.map_nil, evalExprs, evalExpr, exec_bind, exec_liftR_ok, exec_pure] at q1 q2 q3 q4 q5 q6 ⊢
  simp only [q1, q2, q3, q4, q5, q6, exec_liftR_ok]

/-- `SELECT * FROM <cte>` for a CTE with the six RETURNING columns of `UpsertAccounts` -/
theorem exec_selectStar_cte6 (n : Nat) (env : Env) (name : String) (hne : name.isEmpty = false) (hlc : lastComponent name = name)
    (rel : Rel) (s : St) (hcte : env.ctes.lookup name = some rel)
    (hcols : rel.cols = updRetCols) (hrows : ∀ r ∈ rel.rows, Six r) :
    ∃ outs : List OutRow, (evalSelect (n + 5) env (Select.mk false [] [SelItem.star ""] [FromItem.table "" name ""] none [] none) []).exec s =
      (.ok (updRetCols, outs), s) ∧ outs.map (·.vals) = rel.rows := by
  have hfrom := exec_evalFromList_cte (n + 1) env name "" rel s hcte
  simp only [show ("" : String).isEmpty = true from by decide, if_true, hne, Bool.false_eq_true, if_false] at hfrom
  have hproto := fun s' => exec_protoScopes_cte (n + 1) env name "" rel s' hcte
  simp only [show ("" : String).isEmpty = true from by decide, if_true, hne, Bool.false_eq_true, if_false] at hproto
  have hE : updRetCols.map ((fun x : String × String => Expr.col x.1 x.2) ∘ fun c => (name, c)) = updRetCols.map (fun c => Expr.col name c) := rfl
  have hN : updRetCols.map ((fun x : String × String => x.2) ∘ fun c => (name, c)) = updRetCols := rfl
  have hagg : Expr.anyHasAgg (updRetCols.map (fun c => Expr.col name c)) = false := by
    simp [updRetCols, Expr.anyHasAgg, Expr.hasAgg]
  have hwin : Expr.winsList (updRetCols.map (fun c => Expr.col name c)) = [] := by
    simp [updRetCols, Expr.winsList, Expr.wins]
  have hso : ∀ (outs : List OutRow) s', (sortOut (n + 4) env updRetCols outs []).exec s' = (.ok (updRetCols, outs), s') := by
    intro outs s'
    rw [sortOut]
    · rfl
    · intro h; omega
  cases hr : rel.rows with
  | nil =>
    rw [hr] at hfrom
    refine ⟨[], ?_, by simp⟩
    rw [evalSelect]
    simp only [exec_bind, exec_typeEnv, hfrom, exec_pure, exec_foldlM_cons, List.foldlM_nil, List.map_nil, hproto,
      show ("" : String).isEmpty = true from by decide, if_true]
    simp only [nullScope, hcols, List.foldl_cons, List.foldl_nil, List.nil_append, List.map_map, hE, hN, hagg, hwin]
    simp [exec_bind, hso, Expr.winsList]
  | cons r rs =>
    rw [hr] at hfrom
    have hall : ∀ v ∈ r :: rs, Six v := by rw [← hr]; exact hrows
    refine ⟨(r :: rs).map (fun v => outRowOfL (fun L => match L with | sc :: _ => sc.vals | [] => []) [cteScope name rel.cols v]), ?_, ?_⟩
    · rw [evalSelect]
      simp only [exec_bind, exec_typeEnv, hfrom, exec_pure, exec_foldlM_cons, List.foldlM_nil, List.map_cons,
        show ("" : String).isEmpty = true from by decide, if_true]
      simp only [cteScope, hcols, List.foldl_cons, List.foldl_nil, List.nil_append, List.map_map, hE, hN, hagg, hwin]
      simp only [List.isEmpty_nil, Bool.not_true, Bool.false_or, List.any_nil, Bool.false_eq_true, if_false, exec_pure, exec_bind,
        List.map_nil, show Expr.winsList [] = [] from rfl, List.append_nil, List.foldlM_nil]
      rw [exec_mapM_pure _ (fun (x : Nat × List Scope × Option (List (List Scope))) =>
        outRowOfL (fun L => match L with | sc :: _ => sc.vals | [] => []) x.2.1)]
      · rw [map_zip_range _ (fun u : List Scope × Option (List (List Scope)) => outRowOfL (fun L => match L with | sc :: _ => sc.vals | [] => []) u.1)]
        simp only [hso, List.map_cons, List.map_map, Function.comp]
        rfl
      · intro x hx
        obtain ⟨i, u⟩ := x
        have hx2 := (List.of_mem_zip hx).2
        have hu : ∃ v ∈ r :: rs, u = ([({ alias := name, cols := updRetCols, vals := v } : Scope)], none) := by
          rcases List.mem_cons.mp hx2 with e | hm
          · exact ⟨r, by simp, e⟩
          · obtain ⟨v, hv, e⟩ := List.mem_map.mp hm
            exact ⟨v, by simp [hv], e.symm⟩
        obtain ⟨v, hv, rfl⟩ := hu
        obtain ⟨v1, v2, v3, v4, v5, v6, rfl⟩ := hall v hv
        have := exec_evalExprs_star6 (cbs (n + 4)) s.w.types env name hne hlc v1 v2 v3 v4 v5 v6 s
        simp only [cteScope] at this
        simp only [List.map_nil, exec_bind, this, exec_pure]
        rfl
    · simp [outRowOfL, List.map_map, Function.comp, cteScope]
      exact List.map_id _

end Ledger.Sql

namespace Ledger.Sql

/-- the addresses `existing_accounts` returns, typed -/
def exAddrs (b l : String) (trigs : List TriggerDef) (nr : Nat) (rows : List Ver) (v : View) (ds : List DbR) : List String :=
  (joinRows ((((acT b trigs nr).withRows rows).scan v).map (rowScopeOf ((acT b trigs nr).withRows rows) "a"))
      ((dbRel ds).rows.map (cteScope "d" dbCols)) (joinAD l)).map
    (fun L => match L with
      | a :: _ => (match acDec a.vals with | some x => x.address | none => "")
      | [] => "")

theorem existingRows_eq (b l : String) (trigs : List TriggerDef) (nr : Nat) (rows : List Ver) (v : View) (ds : List DbR) (htyped : AcTyped rows) :
    existingRows b l trigs nr rows v ds = (exAddrs b l trigs nr rows v ds).map (fun a => [Value.text a]) := by
  unfold existingRows exAddrs
  rw [List.map_map]
  apply List.map_congr_left
  intro L hL
  simp only [joinRows, List.mem_flatMap, List.mem_map] at hL
  obtain ⟨a, ⟨r, hr, rfl⟩, dsc, _, rfl⟩ := hL
  have hrm : r ∈ rows := by
    rw [scan_eq] at hr
    exact (List.mem_filter.mp (List.mem_reverse.mp hr)).1
  obtain ⟨a0, ha0⟩ := htyped r hrm
  simp [rowScopeOf, ha0, acT_colNames, acDec_vals]
  rfl

/-- an address is returned by `existing_accounts` iff a visible account of the ledger has it and the batch mentions it -/
theorem mem_exAddrs (b l : String) (trigs : List TriggerDef) (nr : Nat) (rows : List Ver) (v : View) (ds : List DbR) (htyped : AcTyped rows)
    (addr : String) :
    addr ∈ exAddrs b l trigs nr rows v ds ↔
      ∃ r ∈ rows, r.visible v = true ∧ ∃ a : AcR, r.vals = a.vals ∧ a.address = addr ∧ a.ledger = l ∧ ∃ d ∈ ds, d.address = addr := by
  unfold exAddrs
  simp only [List.mem_map, joinRows, List.mem_flatMap, List.mem_filter]
  constructor
  · rintro ⟨L, ⟨asc, ⟨r, hr, rfl⟩, dsc, ⟨hd, hj⟩, rfl⟩, rfl⟩
    have hr' : r ∈ rows ∧ r.visible v = true := by
      rw [scan_eq] at hr
      exact List.mem_filter.mp (List.mem_reverse.mp hr)
    obtain ⟨a0, ha0⟩ := htyped r hr'.1
    obtain ⟨vv, hvv, rfl⟩ := hd
    obtain ⟨d0, hd0, rfl⟩ := List.mem_map.mp hvv
    simp only [joinAD, rowScopeOf, ha0, cteScope, acDec_vals, dbDec_vals, Bool.and_eq_true, decide_eq_true_eq] at hj
    have haddr : (match [rowScopeOf ((acT b trigs nr).withRows rows) "a" r, cteScope "d" dbCols d0.vals] with
        | a :: _ => (match acDec a.vals with | some x => x.address | none => "")
        | [] => "") = a0.address := by simp [rowScopeOf, ha0, acDec_vals]
    rw [haddr]
    exact ⟨r, hr'.1, hr'.2, a0, ha0, rfl, hj.2, d0, hd0, hj.1.symm⟩
  · rintro ⟨r, hr, hv, a0, ha0, rfl, hl, d0, hd0, hda⟩
    refine ⟨[rowScopeOf ((acT b trigs nr).withRows rows) "a" r, cteScope "d" dbCols d0.vals], ⟨_, ⟨r, ?_, rfl⟩, _, ⟨⟨d0.vals, List.mem_map_of_mem hd0, rfl⟩, ?_⟩, rfl⟩, ?_⟩
    · rw [scan_eq]
      exact List.mem_reverse.mpr (List.mem_filter.mpr ⟨hr, hv⟩)
    · simp [joinAD, rowScopeOf, ha0, cteScope, acDec_vals, dbDec_vals, hl, hda]
    · simp [rowScopeOf, ha0, acDec_vals]

end Ledger.Sql

namespace Ledger.Sql

/-- the hypotheses on the state in which `UpsertAccounts` runs -/
structure UpsertState (s : St) (b : String) (trigs : List TriggerDef) (nr : Nat) (rows : List Ver) : Prop where
  tbl : AcTblState s b trigs nr rows
  q0 : s.afterQ = []
  /-- no AFTER row trigger fires on UPDATE / INSERT of `accounts`: ACCOUNT_METADATA_HISTORY is off -/
  noUpdA : trigs.filter (fun tr => tr.timing == .after && tr.event == .update) = []
  noInsB : trigs.filter (fun tr => tr.timing == .before && tr.event == .insert) = []
  noInsA : trigs.filter (fun tr => tr.timing == .after && tr.event == .insert) = []

theorem AcInv_acUpdRows (b : String) (trigs : List TriggerDef) (nr : Nat) (w : World) (xid cid : Nat) (hx : xid ≠ 0) (hc : cid < 1000000000)
    (l : String) (ds : List DbR) (rows : List Ver) (h : AcInv (latestView w xid) nr rows) :
    AcInv (latestView w xid) nr (acUpdRows (latestView w xid) xid cid l ds rows) := by
  apply (acUpdInv b trigs nr w xid cid hx hc l ds).run _ _ _ _ h
  · intro r hr
    have := List.mem_filter.mp (List.mem_reverse.mp hr)
    exact ⟨this.1, this.2, h.typed r this.1⟩
  · rw [List.map_reverse]; exact nodup_reverse' _ h.ridNodup

/-- the keys the transaction sees after the UPDATE are those it saw before -/
theorem key_acUpdRows (w : World) (xid cid : Nat) (hx : xid ≠ 0) (hc : cid < 1000000000) (l : String) (ds : List DbR) (nr : Nat) (rows : List Ver)
    (h : AcInv (latestView w xid) nr rows) (q : Ver) (hq : q ∈ acUpdRows (latestView w xid) xid cid l ds rows)
    (hv : q.visible (latestView w xid) = true) :
    ∃ r ∈ rows, r.visible (latestView w xid) = true ∧ acKeyOf q.vals = acKeyOf r.vals := by
  have hperm := visible_updRun_all w xid cid hx hc (fun v => (acMatch l ds v).isSome) (acUpdF l ds) rows h.ridNodup
  have hmem : (q.rid, q.vals) ∈ ((acUpdRows (latestView w xid) xid cid l ds rows).filter (fun q => q.visible (latestView w xid))).map (fun q => (q.rid, q.vals)) :=
    List.mem_map.mpr ⟨q, List.mem_filter.mpr ⟨hq, hv⟩, rfl⟩
  have := (hperm.mem_iff).mp hmem
  obtain ⟨r, hr, he⟩ := List.mem_map.mp this
  have hr' := List.mem_filter.mp hr
  refine ⟨r, hr'.1, hr'.2, ?_⟩
  obtain ⟨a, ha⟩ := h.typed r hr'.1
  have hvals : q.vals = if (acMatch l ds r.vals).isSome then acUpdF l ds r.vals else r.vals := by
    have := congrArg Prod.snd he
    simpa using this.symm
  rw [hvals]
  split
  · rw [ha, acUpdF_key, acKeyOf_vals]
  · rfl

end Ledger.Sql

namespace Ledger.Sql

theorem updAcc_ac_six (l : String) (ds : List DbR) (g : List Value → Bool) : ∀ (ts : List Ver) (acc : DmlAcc),
    (∀ r ∈ acc.retRows, Six r) → ∀ r ∈ (updAcc g (acAccStep l ds) acc ts).retRows, Six r := by
  intro ts
  induction ts with
  | nil => intro acc h; exact h
  | cons t rest ih =>
    intro acc h
    simp only [updAcc, List.foldl_cons]
    apply ih
    split
    · unfold acAccStep
      split
      · intro r hr
        simp only [List.mem_append, List.mem_singleton] at hr
        rcases hr with hr | rfl
        · exact h r hr
        · exact ⟨_, _, _, _, _, _, rfl⟩
      · exact h
    · exact h

open Ledger.Generated.WriteSql in
/-- **`UpsertAccounts`, the statement**: the CTE chain run on ANY `accounts` table; the AFTER ROW triggers of the written rows (`QU`, `QI`:
    what `queueAfter` appends per updated / inserted row) are left in the queue. -/
theorem exec_upsertAccounts_core (k : Nat) (env : Env) (b l : String) (id : Nat) (trigs : List TriggerDef) (nr : Nat) (rows : List Ver)
    (s : St) (htb : AcTblState s b trigs nr rows)
    (hnoInsB : trigs.filter (fun tr => tr.timing == .before && tr.event == .insert) = [])
    (QU : Ver → List PendingTrig) (QI : AcR → List PendingTrig)
    (pm : List (AccountRow × DbR))
    (hqaU : ∀ (r : Ver) (a : AcR), r.vals = a.vals → (acMatch l (pm.map (·.2)) r.vals).isSome = true → ∀ (m : Nat) (rows : List Ver) (s : St),
      (queueAfter (m + 3) ((acT b trigs nr).withRows rows) .update ["metadata", "first_usage", "updated_at"]
        (some (acUpdF l (pm.map (·.2)) r.vals)) (some r.vals)).exec s = (.ok (), s.addQ (QU r)))
    (hqaI : ∀ (nr' : Nat) (rows' : List Ver) (a : AcR) (s' : St), a.ledger = l →
      (queueAfter (k + 9) ((acT b trigs nr').withRows rows') .insert [] (some a.vals) none).exec s' = (.ok (), s'.addQ (QI a)))
    (henv : env.ctes = [])
    (hlits : ∀ x ∈ pm, DbLit s.w.types x.1 x.2) (hnd : ((pm.map (·.2)).map (·.address)).Nodup) :
    ∃ (res : DmlResult) (stmt : Stmt), P.upsertAccounts b l id (pm.map (·.1)) = [stmt] ∧
      (execStmt (k + 18) env stmt).exec s =
        (.ok res,
         (s.withTable ((acT b trigs (nr + ((pm.map (·.2)).filter (fun d => !(exAddrs b l trigs nr rows (cv s) (pm.map (·.2))).contains d.address)).length)).withRows
           (acInsRows s.xid s.cid l nr (acUpdRows (latestView s.w s.xid) s.xid s.cid l (pm.map (·.2)) rows)
             ((pm.map (·.2)).filter (fun d => !(exAddrs b l trigs nr rows (cv s) (pm.map (·.2))).contains d.address))))).addQ
           (updQ (fun v => (acMatch l (pm.map (·.2)) v).isSome) QU ((rows.filter (fun r => r.visible (latestView s.w s.xid))).reverse) ++
            acInsQ l QI ((pm.map (·.2)).filter (fun d => !(exAddrs b l trigs nr rows (cv s) (pm.map (·.2))).contains d.address)))) := by
  obtain ⟨eMd, eFu, eUp, wherU, items, wherI, hshape, hsemU, hsemI⟩ := upsertAccounts_shape4 b l id
  have hx := htb.tx.xid
  have hc := htb.tx.cid
  -- CTE 1
  obtain ⟨cs1, h1, hcs1⟩ := exec_dataBatch (k + 11) env pm s hlits
  have hshape1 := hshape (pm.map (·.1))
  generalize hds : pm.map (·.2) = ds at *
  -- CTE 2
  have h2 := exec_existing (k + 6) { env with ctes := ("data_batch", dbRel ds) :: env.ctes } b l htb.bne trigs nr rows ds s htb.tx
    htb.table htb.inv.typed (by simp [List.lookup])
  rw [existingRows_eq b l trigs nr rows (cv s) ds htb.inv.typed] at h2
  have hEmem := mem_exAddrs b l trigs nr rows (cv s) ds htb.inv.typed
  generalize hE : exAddrs b l trigs nr rows (cv s) ds = E at *
  -- CTE 3
  have h3 := exec_updatedRows (k + 6) { env with ctes := ("existing_accounts", exRel E) :: ("data_batch", dbRel ds) :: env.ctes }
    b l trigs nr rows ds eMd eFu eUp wherU hsemU s htb QU hqaU (by simp [List.lookup])
  have hinv3 := AcInv_acUpdRows b trigs nr s.w s.xid s.cid hx hc l ds rows htb.inv
  have hkey3 := key_acUpdRows s.w s.xid s.cid hx hc l ds nr rows htb.inv
  have hT3 : (s.withTable ((acT b trigs nr).withRows (acUpdRows (latestView s.w s.xid) s.xid s.cid l ds rows))).w.table? (acFull b) =
      some ((acT b trigs nr).withRows (acUpdRows (latestView s.w s.xid) s.xid s.cid l ds rows)) :=
    withTable_table? s ((acT b trigs nr).withRows rows) _ htb.table
  have hSixU0 : ∀ r ∈ (acUpdAcc (latestView s.w s.xid) l ds rows).retRows, Six r :=
    updAcc_ac_six l ds _ _ {} (by intro r hr; cases hr)
  generalize hR3 : acUpdRows (latestView s.w s.xid) s.xid s.cid l ds rows = rows3 at *
  generalize hU3 : acUpdAcc (latestView s.w s.xid) l ds rows = acc3 at *
  generalize hQUl : updQ (fun v => (acMatch l ds v).isSome) QU ((rows.filter (fun r => r.visible (latestView s.w s.xid))).reverse) = QUl at *
  -- CTE 4, in the state the UPDATE left
  have hno : ∀ d ∈ ds, E.contains d.address = false → ∀ q ∈ rows3,
      q.visible (latestView (s.withTable ((acT b trigs nr).withRows rows3)).w (s.withTable ((acT b trigs nr).withRows rows3)).xid) = true →
      acKeyOf q.vals ≠ (l, d.address) := by
    intro d hd hEc q hq hv
    simp only [withTable_latestView, withTable_xid] at hv
    obtain ⟨r, hr, hrv, hk⟩ := hkey3 q hq hv
    rw [hk]
    intro hkey
    obtain ⟨a, ha⟩ := htb.inv.typed r hr
    rw [ha, acKeyOf_vals] at hkey
    have hmem : d.address ∈ E := by
      apply (hEmem d.address).mpr
      refine ⟨r, hr, ?_, a, ha, ?_, ?_, d, hd, rfl⟩
      · rw [visible_cv_latest s htb.tx rows htb.fresh r hr]; exact hrv
      · exact (Prod.mk.inj hkey).2
      · exact (Prod.mk.inj hkey).1
    have : E.contains d.address = true := List.contains_iff_mem.mpr hmem
    rw [this] at hEc
    cases hEc
  have h4 := exec_insertedRows k { env with ctes := ("updated_rows", { cols := updRetCols, rows := acc3.retRows }) ::
      ("existing_accounts", exRel E) :: ("data_batch", dbRel ds) :: env.ctes }
    b l trigs nr rows3 ds E items wherI hsemI ((s.withTable ((acT b trigs nr).withRows rows3)).addQ QUl) ((htb.tx.withTable _).addQ _) htb.bne hT3
    hinv3.typed hnoInsB QI hqaI (by simp [List.lookup]) (by simp [List.lookup]) hnd hno
  simp only [withTable_xid, withTable_cid, addQ_xid, addQ_cid] at h4
  rw [addQ_withTable, withTable_withTable _ _ _ (by rfl), addQ_addQ] at h4
  -- the body
  have hSixU : ∀ r ∈ acc3.retRows, Six r := hSixU0
  have hSixI : ∀ r ∈ (ds.filter (fun d => !E.contains d.address)).map (insRetRow l), Six r := by
    intro r hr
    obtain ⟨d, _, rfl⟩ := List.mem_map.mp hr
    exact ⟨_, _, _, _, _, _, rfl⟩
  suffices hex : ∀ stmt, P.upsertAccounts b l id (pm.map (·.1)) = [stmt] → ∃ res, (execStmt (k + 18) env stmt).exec s =
      (.ok res, (s.withTable ((acT b trigs (nr + (ds.filter (fun d => !E.contains d.address)).length)).withRows
        (acInsRows s.xid s.cid l nr rows3 (ds.filter (fun d => !E.contains d.address))))).addQ
          (QUl ++ acInsQ l QI (ds.filter (fun d => !E.contains d.address)))) by
    obtain ⟨res, hres⟩ := hex _ hshape1
    exact ⟨res, _, hshape1, hres⟩
  intro stmt hstmt
  rw [hshape1] at hstmt
  simp only [List.cons.injEq, and_true] at hstmt
  subst hstmt
  rw [execStmt, evalQuery, evalCtes]
  simp only [exec_bind, h1]
  have hrel1 : (if dbCols.isEmpty = true then ({ cols := cs1, rows := List.map (fun x => x.snd.vals) pm } : Rel)
      else { cols := dbCols ++ List.drop dbCols.length cs1, rows := List.map (fun x => x.snd.vals) pm }) = dbRel ds := by
    have : dbCols.isEmpty = false := rfl
    simp only [this, Bool.false_eq_true, if_false, hcs1, dbRel]
    congr 1
    rw [← hds, List.map_map]
    rfl
  rw [hrel1]
  rw [evalCtes]
  simp only [exec_bind, h2, List.isEmpty_nil, if_true]
  have hrel2 : ({ cols := ["address"], rows := List.map (fun a => [Value.text a]) E } : Rel) = exRel E := rfl
  rw [hrel2, evalCtes]
  simp only [exec_bind, h3, List.isEmpty_nil, if_true]
  rw [evalCtes]
  simp only [exec_bind]
  have h4' : (execStmt (k + 12) { env with ctes := ("updated_rows", { cols := updRetCols, rows := acc3.retRows }) ::
      ("existing_accounts", exRel E) :: ("data_batch", dbRel ds) :: env.ctes }
      (Stmt.insert [] b "accounts" "" insCols (InsertSrc.query (Query.mk [] (SetExpr.select (Select.mk false []
        (List.map (fun p => SelItem.expr p.fst p.snd) items) [FromItem.table "" "data_batch" "d"] (some wherI) [] none)) [] none none LockMode.none))
        none (insReturning b))).exec ((s.withTable ((acT b trigs nr).withRows rows3)).addQ QUl) = _ := h4
  simp only [h4', List.isEmpty_nil, if_true]
  rw [evalCtes]
  · simp only [exec_pure, exec_typeEnv]
    generalize hS4 : (s.withTable ((acT b trigs (nr + (List.filter (fun d => !E.contains d.address) ds).length)).withRows
      (acInsRows s.xid s.cid l nr rows3 (List.filter (fun d => !E.contains d.address) ds)))).addQ
        (QUl ++ acInsQ l QI (List.filter (fun d => !E.contains d.address) ds)) = S4
    generalize henv4 : (Env.mk env.locals env.outer (("inserted_rows", (Rel.mk updRetCols
        (List.map (insRetRow l) (List.filter (fun d => !E.contains d.address) ds)))) ::
      ("updated_rows", Rel.mk updRetCols acc3.retRows) :: ("existing_accounts", exRel E) :: ("data_batch", dbRel ds) :: env.ctes)
      env.group env.wins) = env4
    have hcU : env4.ctes.lookup "updated_rows" = some { cols := updRetCols, rows := acc3.retRows } := by
      rw [← henv4]; simp [List.lookup]
    have hcI : env4.ctes.lookup "inserted_rows" = some { cols := updRetCols, rows := List.map (insRetRow l) (List.filter (fun d => !E.contains d.address) ds) } := by
      rw [← henv4]; simp [List.lookup]
    obtain ⟨outsU, hselU, houtU⟩ := exec_selectStar_cte6 (k + 9) env4 "updated_rows" (by decide) (by decide) _ S4 hcU rfl hSixU
    obtain ⟨outsI, hselI, houtI⟩ := exec_selectStar_cte6 (k + 9) env4 "inserted_rows" (by decide) (by decide) _ S4 hcI rfl hSixI
    have hbody : ∃ outs, (evalSetExpr (k + 16) env4 upsertBody []).exec S4 = (.ok (updRetCols, outs), S4) := by
      refine ⟨(outsU ++ outsI).map (fun r => { r with locals := [], group := none, wins := [] }), ?_⟩
      rw [upsertBody, evalSetExpr]
      simp only [exec_bind]
      rw [evalSetExpr, evalSetExpr]
      simp only [hselU, hselI, if_true, exec_pure, exec_bind]
      rw [sortOut]
      · rfl
      · intro h; omega
    obtain ⟨outs, hbody⟩ := hbody
    refine ⟨{ rel := { cols := updRetCols, rows := outs.map (·.vals) }, affected := (outs.map (·.vals)).length }, ?_⟩
    simp only [hbody, evalOpt, exec_pure, applyLimit, exec_bind]
  · intro h; omega

/-- the AFTER triggers queue nothing when the table has none -/
theorem exec_queueAfter_none' (n : Nat) (t : Table) (ev : TrigEvent) (setCols : List String) (new old : Option (List Value)) (s : St)
    (h : t.triggers.filter (fun tr => tr.timing == .after && tr.event == ev) = []) :
    (queueAfter (n + 1) t ev setCols new old).exec s = (.ok (), s.addQ []) := by
  rw [exec_queueAfter_none n t ev setCols new old s h]; simp

open Ledger.Generated.WriteSql in
/-- **`UpsertAccounts`** (ACCOUNT_METADATA_HISTORY off) on ANY `accounts` table satisfying the storage invariant. -/
theorem exec_runStmt_upsertAccounts (k : Nat) (env : Env) (b l : String) (id : Nat) (trigs : List TriggerDef) (nr : Nat) (rows : List Ver)
    (s : St) (hst : UpsertState s b trigs nr rows) (henv : env.ctes = [])
    (pm : List (AccountRow × DbR)) (hlits : ∀ x ∈ pm, DbLit s.w.types x.1 x.2) (hnd : ((pm.map (·.2)).map (·.address)).Nodup) :
    ∃ res : DmlResult,
      ((P.upsertAccounts b l id (pm.map (·.1))).mapM (runStmt (k + 19) env)).exec s =
        (.ok [res],
         s.withTable ((acT b trigs (nr + ((pm.map (·.2)).filter (fun d => !(exAddrs b l trigs nr rows (cv s) (pm.map (·.2))).contains d.address)).length)).withRows
           (acInsRows s.xid s.cid l nr (acUpdRows (latestView s.w s.xid) s.xid s.cid l (pm.map (·.2)) rows)
             ((pm.map (·.2)).filter (fun d => !(exAddrs b l trigs nr rows (cv s) (pm.map (·.2))).contains d.address))))) := by
  have hcl : s.clearQ = s := clearQ_of_empty s hst.q0
  obtain ⟨res, stmt, hshape, hexec⟩ := exec_upsertAccounts_core k env b l id trigs nr rows s hst.tbl hst.noInsB (fun _ => []) (fun _ => []) pm
    (by
      intro r a _ _ m rows' s'
      exact exec_queueAfter_none' _ _ _ _ _ _ _ (by simpa [acT, Table.withRows] using hst.noUpdA))
    (by
      intro nr' rows' a s' _
      exact exec_queueAfter_none' _ _ _ _ _ _ _ (by simpa [acT, Table.withRows] using hst.noInsA))
    henv hlits hnd
  have hq : updQ (fun v => (acMatch l (pm.map (·.2)) v).isSome) (fun _ => ([] : List PendingTrig))
      ((rows.filter (fun r => r.visible (latestView s.w s.xid))).reverse) ++
      acInsQ l (fun _ => []) ((pm.map (·.2)).filter (fun d => !(exAddrs b l trigs nr rows (cv s) (pm.map (·.2))).contains d.address)) = [] := by
    rw [updQ_nil]
    simp [acInsQ]
  rw [hq, addQ_nil] at hexec
  refine ⟨res, ?_⟩
  rw [hshape]
  simp only [exec_mapM_cons, List.mapM_nil, exec_pure]
  generalize hS4 : s.withTable ((acT b trigs (nr + ((pm.map (·.2)).filter (fun d => !(exAddrs b l trigs nr rows (cv s) (pm.map (·.2))).contains d.address)).length)).withRows
    (acInsRows s.xid s.cid l nr (acUpdRows (latestView s.w s.xid) s.xid s.cid l (pm.map (·.2)) rows)
      ((pm.map (·.2)).filter (fun d => !(exAddrs b l trigs nr rows (cv s) (pm.map (·.2))).contains d.address)))) = S4 at hexec ⊢
  have hq4 : S4.afterQ = [] := by rw [← hS4]; exact hst.q0
  have := exec_runStmt_noAfter' (k + 17) env stmt s S4 res (by rw [hcl]; exact hexec) hq4
  rw [this]
  simp only [exec_bind, exec_pure]
  rw [hst.q0, show ({ S4 with afterQ := [] } : St) = S4.clearQ from rfl, clearQ_of_empty S4 hq4]

end Ledger.Sql
