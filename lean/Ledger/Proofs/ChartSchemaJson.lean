import Ledger.Chart.SchemaJson
import Ledger.Proofs.ChartRoundtrip

/-!
Helper lemmas for C30: `unmarshalSchemaData (marshalSchemaData s) = .ok s` –
chart, transaction templates and query templates survive the JSON round trip.
-/
namespace Ledger.Chart

@[simp] theorem ff_nil (n : Key) (acc : Option JTree) : findField n [] acc = acc := rfl
theorem ff_cons (n k : Key) (v : JTree) (rest : List (Key × JTree)) (acc : Option JTree) :
    findField n ((k, v) :: rest) acc =
      findField n rest (if k.map asciiLower = n then some v else acc) := rfl

theorem template_rt (t : TxTemplate) : unmarshalTemplate (marshalTemplate t) = .ok t := by
  obtain ⟨d, s, r⟩ := t
  by_cases hr : r = ""
  · subst hr
    simp [marshalTemplate, unmarshalTemplate, strFieldOf, ff_cons, kDescription, kScript, kRuntime,
      asciiLower, pure, Except.pure, bind, Except.bind]
  · simp [marshalTemplate, unmarshalTemplate, strFieldOf, ff_cons, kDescription, kScript, kRuntime,
      asciiLower, pure, Except.pure, bind, Except.bind, hr]

theorem templates_rt : (ts : List (Key × TxTemplate)) →
    unmarshalTemplates (marshalTemplates ts) = .ok ts
  | [] => rfl
  | (k, t) :: rest => by
    simp [marshalTemplates, unmarshalTemplates, template_rt, templates_rt rest, pure, Except.pure,
      bind, Except.bind]

theorem varType_rt (t : VarType) : VarType.ofString t.toString = some t := by
  cases t <;> decide

theorem varDecl_rt (d : VarDecl) (h : d.Valid) : unmarshalVarDecl (marshalVarDecl d) = .ok d := by
  obtain ⟨t, dflt⟩ := d
  cases dflt with
  | none =>
    simp [marshalVarDecl, unmarshalVarDecl, strFieldOf, ff_cons, kType, keyDefault, asciiLower,
      varType_rt, pure, Except.pure, bind, Except.bind]
  | some v =>
    have hv : v ≠ .null := by
      intro e; subst e; exact h rfl
    cases v <;>
      simp_all [marshalVarDecl, unmarshalVarDecl, strFieldOf, ff_cons, kType, keyDefault, asciiLower,
        varType_rt, pure, Except.pure, bind, Except.bind]

theorem vars_rt : (vs : List (Key × VarDecl)) → (∀ kv ∈ vs, kv.2.Valid) →
    unmarshalVars (marshalVars vs) = .ok vs
  | [], _ => rfl
  | (k, d) :: rest, h => by
    have hd := varDecl_rt d (h (k, d) (by simp))
    have hr := vars_rt rest (fun kv hkv => h kv (by simp [hkv]))
    simp [marshalVars, unmarshalVars, hd, hr, pure, Except.pure, bind, Except.bind]

theorem query_rt (q : QueryTemplate) (h : q.Valid) : unmarshalQuery (marshalQuery q) = .ok q := by
  obtain ⟨d, r, params, vars, body⟩ := q
  have hv := vars_rt vars h
  cases params <;> cases body <;> by_cases hd : d = "" <;> cases hvs : vars <;>
    simp_all [marshalQuery, unmarshalQuery, strFieldOf, optMember, ff_cons, kDescription, kResource,
      kParams, kVars, kBody, asciiLower, pure, Except.pure, bind, Except.bind, marshalVars, unmarshalVars]

theorem queries_rt : (qs : List (Key × QueryTemplate)) → (∀ kq ∈ qs, kq.2.Valid) →
    unmarshalQueries (marshalQueries qs) = .ok qs
  | [], _ => rfl
  | (k, q) :: rest, h => by
    have hq := query_rt q (h (k, q) (by simp))
    have hr := queries_rt rest (fun kq hkq => h kq (by simp [hkq]))
    simp [marshalQueries, unmarshalQueries, hq, hr, pure, Except.pure, bind, Except.bind]

theorem schemaData_rt (ops : RegexOps) (s : SchemaData) (h : s.Valid ops) :
    unmarshalSchemaData ops (marshalSchemaData s) = .ok s := by
  obtain ⟨chart, ts, qs⟩ := s
  obtain ⟨hc, hq⟩ := h
  have h1 : unmarshal ops (marshal chart) = .ok chart := by
    unfold Ledger.Chart.Valid at hc
    simp only [unmarshal, marshal, JTree.fields?]
    exact root_rt ops chart hc
  have h2 := templates_rt ts
  have h3 := queries_rt qs hq
  cases hts : ts <;> cases hqs : qs <;>
    simp_all [marshalSchemaData, unmarshalSchemaData, mapFieldOf, ff_cons, kChart, kTransactions, kQueries,
      asciiLower, pure, Except.pure, bind, Except.bind, marshalTemplates, unmarshalTemplates,
      marshalQueries, unmarshalQueries]

end Ledger.Chart
