import Ledger.Proofs.CtrlAcc

/-!
Chart defaults play a role exactly when `UpsertAccounts` CREATES the row: the
value the store leaves at an address that already had a row does not depend on the
`defaults` the controller attached (`tx.AccountsWithDefaultMetadata`,
`saveAccountMetadata`), for a single row and for a whole batch.
-/
namespace Ledger.Ctrl
open Ledger.Base Ledger.Core

theorem upsertAccount_get?_ne (now : Time) (accs : Map String Account) (r : AccIn) (a : String)
    (hne : a ≠ r.address) : (upsertAccount now accs r).get? a = accs.get? a := by
  unfold upsertAccount
  cases accs.get? r.address with
  | none => exact get?_insert_ne _ _ _ _ hne
  | some x =>
    dsimp only
    split <;> split <;> first | exact get?_insert_ne _ _ _ _ hne | rfl

/-- The value at an existing address after one row depends only on the value
    before and on the row's explicit fields — not on its `defaults`, not on the rest of the map. -/
theorem upsertAccount_get?_existing (now : Time) (accs1 accs2 : Map String Account) (r : AccIn) (D : Meta)
    (x : Account) (h1 : accs1.get? r.address = some x) (h2 : accs2.get? r.address = some x) :
    (upsertAccount now accs1 r).get? r.address = (upsertAccount now accs2 { r with defaults := D }).get? r.address ∧
    ((upsertAccount now accs1 r).get? r.address).isSome = true := by
  unfold upsertAccount
  simp only [h1, h2]
  split <;> split <;> simp [get?_insert_self, h1, h2]

/-- Batches: two runs of `UpsertAccounts` whose rows differ only in the attached
    defaults agree on every address that had a row before. -/
theorem upsertAccounts_existing_ignores_defaults (now : Time) (mk1 mk2 : String → AccIn)
    (hadr1 : ∀ a, (mk1 a).address = a)
    (hsame : ∀ a, mk2 a = { mk1 a with defaults := (mk2 a).defaults })
    (as : List String) (accs1 accs2 : Map String Account) (a : String) (x : Account)
    (h1 : accs1.get? a = some x) (h2 : accs2.get? a = some x) :
    ((as.map mk1).foldl (upsertAccount now) accs1).get? a = ((as.map mk2).foldl (upsertAccount now) accs2).get? a := by
  induction as generalizing accs1 accs2 x with
  | nil => simp only [List.map_nil, List.foldl_nil, h1, h2]
  | cons b rest ih =>
    simp only [List.map_cons, List.foldl_cons]
    by_cases hb : a = b
    · subst hb
      have ha1 : accs1.get? (mk1 a).address = some x := by rw [hadr1]; exact h1
      have ha2 : accs2.get? (mk1 a).address = some x := by rw [hadr1]; exact h2
      have hk := upsertAccount_get?_existing now accs1 accs2 (mk1 a) (mk2 a).defaults x ha1 ha2
      rw [← hsame a, hadr1] at hk
      obtain ⟨y, hy⟩ := Option.isSome_iff_exists.mp hk.2
      exact ih _ _ y hy (hk.1 ▸ hy)
    · have hn1 : a ≠ (mk1 b).address := by rw [hadr1]; exact hb
      have hn2 : a ≠ (mk2 b).address := by rw [hsame b]; exact hn1
      exact ih _ _ x ((upsertAccount_get?_ne now accs1 (mk1 b) a hn1).trans h1)
        ((upsertAccount_get?_ne now accs2 (mk2 b) a hn2).trans h2)

end Ledger.Ctrl
