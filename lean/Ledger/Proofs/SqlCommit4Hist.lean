import Ledger.Proofs.SqlCommitHist
import Ledger.Proofs.SqlAccountsHist
import Ledger.Proofs.SqlCommit4Refine

/-!
# Transaction creation in the DEFAULT feature set: the four statements with both metadata histories

UpdateVolumes; InsertTransaction (+ `insert_transaction_metadata_history`); InsertMoves (+ the `moves` triggers); UpsertAccounts
(+ `update_account_metadata_history` / `insert_account_metadata_history`), as successive commands of one transaction.
-/
open Ledger Ledger.Sql Ledger.Generated Ledger.Core Ledger.Base
open Ledger.Generated.WriteSql.P (AccountRow)

namespace Ledger.Sql
open Ledger.Spec
open Ledger.Generated.WriteSql

theorem amFull_ne_avFull (b : String) : amFull b ≠ avFull b := by
  intro h
  have := congrArg String.length h
  simp [amFull, avFull, String.length_append] at this
  exact absurd this (by decide)

theorem amFull_ne_txFull (b : String) : amFull b ≠ txFull b := by
  intro h
  have := congrArg String.length h
  simp [amFull, txFull, String.length_append] at this
  exact absurd this (by decide)

theorem amFull_ne_tmFull (b : String) : amFull b ≠ tmFull b := by
  intro h
  have := congrArg String.length h
  simp [amFull, tmFull, String.length_append] at this
  exact absurd this (by decide)

theorem amFull_ne_mvFull (b : String) : amFull b ≠ mvFull b := by
  intro h
  have := congrArg String.length h
  simp [amFull, mvFull, String.length_append] at this
  exact absurd this (by decide)

theorem acFull_ne_tmFull (b : String) : acFull b ≠ tmFull b := by
  intro h
  have := congrArg String.length h
  simp [acFull, tmFull, String.length_append] at this
  exact absurd this (by decide)

theorem amSeqFull_ne_mvSeqFull (b : String) : amSeqFull b ≠ mvSeqFull b := by
  intro h
  have := congrArg String.length h
  simp [amSeqFull, mvSeqFull, String.length_append] at this
  exact absurd this (by decide)

theorem amSeqFull_ne_tmSeqFull (b : String) : amSeqFull b ≠ tmSeqFull b := by
  intro h
  have := congrArg String.length h
  simp [amSeqFull, tmSeqFull, String.length_append] at this
  exact absurd this (by decide)

/-- the hypotheses on `accounts` / `accounts_metadata` at the start of the store call, ACCOUNT_METADATA_HISTORY on -/
structure CommitAccountsH (s : St) (b l fullT : String) (trigsC : List TriggerDef) (nrC : Nat) (rowsC : List Ver)
    (AU1 AU2 : List TriggerDef) (trU : TriggerDef) (AI1 AI2 : List TriggerDef) (trI : TriggerDef) (fnI fnU : PlFunc)
    (nrHA : Nat) (rowsHA : List Ver) (sqHA : Seq) (tblHA : List AmR) : Prop where
  table : s.w.table? (acFull b) = some ((acT b trigsC nrC).withRows rowsC)
  fresh : Fresh s.xid s.nextCid rowsC
  inv : AcInv (latestView s.w s.xid) nrC rowsC
  noUpdB : trigsC.filter (fun tr => tr.timing == .before && tr.event == .update) = []
  noInsB : trigsC.filter (fun tr => tr.timing == .before && tr.event == .insert) = []
  sortedU : sortTriggers (trigsC.filter (fun x => x.timing == .after && x.event == .update)) = AU1 ++ trU :: AU2
  othersU1 : ∀ x ∈ AU1, OtherLedgerTrigU l x
  othersU2 : ∀ x ∈ AU2, OtherLedgerTrigU l x
  ofU : trU.ofCols = []
  whenU : trU.when_ = some (ledgerIs l)
  sortedI : sortTriggers (trigsC.filter (fun x => x.timing == .after && x.event == .insert)) = AI1 ++ trI :: AI2
  othersI1 : ∀ x ∈ AI1, OtherLedgerTrig l x
  othersI2 : ∀ x ∈ AI2, OtherLedgerTrig l x
  evI : trI.event = .insert
  whenI : trI.when_ = some (ledgerIs l)
  stat : AmStatic s.w.funcs b trI.fname trU.fname fnI fnU
  hist : AmState s b nrHA rowsHA sqHA
  histView : AmView (latestView s.w s.xid) rowsHA tblHA
  histFresh : Fresh s.xid s.nextCid rowsHA
  seqNeT : amSeqFull b ≠ fullT

/-- **CommitTransaction + UpsertAccounts, both metadata histories on.** -/
theorem exec_commit4H (k : Nat) (env : Env) (henv : env.ctes = []) (b l : String) (id : Nat)
    (rsA : List Ver) (nrA : Nat) (trigsT : List TriggerDef) (nrT : Nat) (rowsT : List Ver) (fullT : String) (sqT : Seq)
    (AT1 AT2 : List TriggerDef) (trAT : TriggerDef) (fAT : PlFunc) (nrH : Nat) (rowsH : List Ver) (sqH : Seq)
    (trigsM : List TriggerDef) (B1 B2 : List TriggerDef) (trB : TriggerDef) (A1 A2 : List TriggerDef) (trA : TriggerDef)
    (item wher dflt_ : Expr) (fB : PlFunc) (setE whereU : Expr) (fA : PlFunc) (nrM : Nat) (rowsM : List Ver) (sqM : Seq) (s : St)
    (hst : CommitStateH s b l rsA nrA trigsT nrT rowsT fullT sqT AT1 AT2 trAT fAT nrH rowsH sqH trigsM B1 B2 trB A1 A2 trA item wher dflt_ fB
      setE whereU fA nrM rowsM sqM)
    -- UpdateVolumes
    (vrows : List P.VolumeRow) (hvne : vrows ≠ []) (hvnd : (vrows.map avKeyOf).Nodup)
    (av : PCV) (hwf : Map.WF av) (habs : ∀ k, avAbs s b l k = av.get? k)
    -- InsertTransaction
    (L : TxLits) (hl : SeqLit (txSeqLit b id) fullT) (x : TxR) (hlit : TxLit s.w.types l L x) (hid : x.id = sqT.next)
    (hi1 : -9223372036854775808 ≤ x.id) (hi2 : x.id ≤ 9223372036854775807)
    (href : ∀ r ∈ rowsT, r.visible (latestView s.w s.xid) = true → ∀ x', r.vals = txVals x' → txConf2 x x' = false)
    -- InsertMoves
    (pm : List (P.MoveRow × Spec.MoveRow)) (hne : pm ≠ []) (hlits : ∀ y ∈ pm, MvLit s.w.types y.1 y.2)
    (hsf : SeqFrom sqM.next (pm.map (·.2))) (hrange : sqM.next + pm.length ≤ 9223372036854775808)
    (T : List Spec.MoveRow) (hT : T.Perm (ledgerMoves l (mvAbs (latestView s.w s.xid) rowsM)))
    (trigsC : List TriggerDef) (nrC : Nat) (rowsC : List Ver)
    (AU1 AU2 : List TriggerDef) (trU : TriggerDef) (AI1 AI2 : List TriggerDef) (trI : TriggerDef) (fnI fnU : PlFunc)
    (nrHA : Nat) (rowsHA : List Ver) (sqHA : Seq) (tblHA : List AmR)
    (hac : CommitAccountsH s b l fullT trigsC nrC rowsC AU1 AU2 trU AI1 AI2 trI fnI fnU nrHA rowsHA sqHA tblHA)
    (am : List (P.AccountRow × DbR)) (halits : ∀ y ∈ am, DbLit s.w.types y.1 y.2) (hand : ((am.map (·.2)).map (·.address)).Nodup)
    (items : List AmItem)
    (hitems : items = acUpdItems l (am.map (·.2)) ((rowsC.filter (fun r => r.visible (latestView s.w s.xid))).reverse) ++
      acInsItems l ((am.map (·.2)).filter (fun d => !hasAccount l (acAbs (latestView s.w s.xid) rowsC) d.address)))
    (hnc : s.nextCid + 6 + 4 * pm.length + 2 * items.length ≤ 1000000000)
    (hrangeA : sqHA.next + items.length ≤ 9223372036854775807) :
    ∃ (rsA' : List Ver) (nrA' : Nat) (rowsM' : List Ver) (seqs' : List Seq) (rowsC' : List Ver) (nC : Nat) (resA : DmlResult) (s' : St),
      (seqRun (k + 19) env (P.updateVolumes b l id vrows ++
          P.insertTransaction b l id L.postings L.metadata L.timestamp L.reference L.inserted_at L.updated_at L.post_commit_volumes
            L.template L.sources L.destinations L.sources_arrays L.destinations_arrays ++
          P.insertMoves b l id (pm.map (·.1)) ++ P.upsertAccounts b l id (am.map (·.1)))).exec s =
        (.ok [{ rel := { cols := ["input", "output"],
                         rows := (Spec.upsertVolumes av (vuOf vrows)).2.map (fun e => [.int e.2.input, .int e.2.output]) },
                affected := vrows.length },
              { rel := { cols := ["id", "timestamp", "inserted_at", "updated_at"],
                         rows := [[.int x.id, .ts x.timestamp, optTs x.insertedAt, .ts x.updatedAt]] }, affected := 1 },
              { rel := { cols := ["post_commit_volumes", "post_commit_effective_volumes"],
                         rows := (Spec.insertedRows T (pm.map (·.2))).map retOf }, affected := pm.length },
              resA], s') ∧
      s' = (amDrainSt b s.xid
              ((((((((s.bump (5 + 4 * pm.length)).withSeqs seqs').withTable (avT b rsA' nrA')).withTable
                ((txT b trigsT (nrT + 1)).withRows (newVer s.xid (s.nextCid + 1) nrT (txVals x) :: rowsT))).withTable
                ((tmT b (nrH + 1)).withRows (newVer s.xid (s.nextCid + 2) nrH (tmVals (tmOf x sqH.next)) :: rowsH))).withTable
                ((mvT b trigsM (nrM + pm.length)).withRows rowsM')).enter).withTable ((acT b trigsC (nrC + nC)).withRows rowsC'))
              nrHA sqHA.next rowsHA tblHA items).withCid s.cid ∧
      AvInv (latestView s.w s.xid) rsA' nrA' ∧
      (∀ key, avView (latestView s.w s.xid) rsA' l key = (Spec.upsertVolumes av (vuOf vrows)).1.get? key) ∧
      (∀ l', l' ≠ l → ∀ key, avView (latestView s.w s.xid) rsA' l' key = avView (latestView s.w s.xid) rsA l' key) ∧
      (ledgerMoves l (mvAbs (latestView s.w s.xid) rowsM')).Perm (Spec.insertMoves T (pm.map (·.2))) ∧
      (∀ l', l' ≠ l → (ledgerMoves l' (mvAbs (latestView s.w s.xid) rowsM')).Perm (ledgerMoves l' (mvAbs (latestView s.w s.xid) rowsM))) ∧
      MvInv (latestView s.w s.xid) (sqM.next + pm.length) rowsM' ∧
      (acAbs (latestView s.w s.xid) rowsC').Perm
        (((am.map (·.2)).filter (fun d => !hasAccount l (acAbs (latestView s.w s.xid) rowsC) d.address)).map (insRow l) ++
          (acAbs (latestView s.w s.xid) rowsC).map (updOf l (am.map (·.2)))) ∧
      AcInv (latestView s.w s.xid) (nrC + nC) rowsC' ∧
      seqs'.find? (·.name == mvSeqFull b) = some { sqM with last := sqM.next + pm.length - 1, called := true } ∧
      seqs'.find? (·.name == fullT) = some { sqT with last := sqT.next, called := true } ∧
      seqs'.find? (·.name == tmSeqFull b) = some { sqH with last := sqH.next, called := true } := by
  obtain ⟨rsA', nrA', rowsM', seqs', s3, hrun3, hs3, hinvA, hav1, hav2, hmv1, hmv2, hmvInv, hsqM, hsqT, hsqH, hsqO⟩ :=
    exec_commit3H (k + 4) env b l id rsA nrA trigsT nrT rowsT fullT sqT AT1 AT2 trAT fAT nrH rowsH sqH trigsM B1 B2 trB A1 A2 trA item wher dflt_ fB
      setE whereU fA nrM rowsM sqM s hst vrows hvne hvnd av hwf habs L hl x hlit hid hi1 hi2 href pm hne hlits hsf hrange (by omega) T hT
  generalize hAV : avT b rsA' nrA' = AV at hs3
  generalize hTX : (txT b trigsT (nrT + 1)).withRows (newVer s.xid (s.nextCid + 1) nrT (txVals x) :: rowsT) = TX at hs3
  generalize hTM : (tmT b (nrH + 1)).withRows (newVer s.xid (s.nextCid + 2) nrH (tmVals (tmOf x sqH.next)) :: rowsH) = TM at hs3
  generalize hMV : (mvT b trigsM (nrM + pm.length)).withRows rowsM' = MV at hs3
  have nAV : AV.name = avFull b := by rw [← hAV]; rfl
  have nTX : TX.name = txFull b := by rw [← hTX]; rfl
  have nTM : TM.name = tmFull b := by rw [← hTM]; rfl
  have nMV : MV.name = mvFull b := by rw [← hMV]; rfl
  -- lookups through the four written tables
  have hthru : ∀ name, name ≠ avFull b → name ≠ txFull b → name ≠ tmFull b → name ≠ mvFull b →
      s3.w.table? name = s.w.table? name := by
    intro name h1 h2 h3 h4
    rw [hs3]
    have e1 := withTable_table?_ne (((((s.bump (5 + 4 * pm.length)).withSeqs seqs').withTable AV).withTable TX).withTable TM) MV name (by rw [nMV]; exact h4)
    have e2 := withTable_table?_ne ((((s.bump (5 + 4 * pm.length)).withSeqs seqs').withTable AV).withTable TX) TM name (by rw [nTM]; exact h3)
    have e3 := withTable_table?_ne (((s.bump (5 + 4 * pm.length)).withSeqs seqs').withTable AV) TX name (by rw [nTX]; exact h2)
    have e4 := withTable_table?_ne ((s.bump (5 + 4 * pm.length)).withSeqs seqs') AV name (by rw [nAV]; exact h1)
    exact e1.trans (e2.trans (e3.trans e4))
  have hT3 : s3.w.table? (acFull b) = some ((acT b trigsC nrC).withRows rowsC) :=
    (hthru _ (acFull_ne_avFull b) (acFull_ne_txFull b) (acFull_ne_tmFull b) (acFull_ne_mvFull b)).trans hac.table
  have hTH3 : s3.w.table? (amFull b) = some ((amT b nrHA).withRows rowsHA) :=
    (hthru _ (amFull_ne_avFull b) (amFull_ne_txFull b) (amFull_ne_tmFull b) (amFull_ne_mvFull b)).trans hac.hist.table
  have hTx3 : TxState s3 := by
    rw [hs3]; exact (((((hst.tx.bump _).withSeqs _).withTable _).withTable _).withTable _).withTable _
  have hnc3 : s3.nextCid = s.nextCid + (5 + 4 * pm.length) := by rw [hs3]; rfl
  have hxid3 : s3.xid = s.xid := by rw [hs3]; rfl
  have hcid3 : s3.cid = s.cid := by rw [hs3]; rfl
  have hq3 : s3.afterQ = [] := by rw [hs3]; exact hst.q0
  have hlv3 : latestView s3.w s.xid = latestView s.w s.xid := by rw [hs3]; rfl
  have hty3 : s3.w.types = s.w.types := by rw [hs3]; rfl
  have hfn3 : s3.w.funcs = s.w.funcs := by rw [hs3]; rfl
  have hsq3 : s3.w.seqs = seqs' := by rw [hs3]; rfl
  have hUS : UpsertStateH s3.enter b l trigsC nrC rowsC AU1 AU2 trU AI1 AI2 trI fnI fnU nrHA rowsHA sqHA tblHA :=
    { tbl :=
        { tx := hTx3.enter (by rw [hnc3]; omega)
          bne := hst.bne
          table := hT3
          fresh := by
            show Fresh s3.xid s3.nextCid rowsC
            rw [hxid3, hnc3]; exact hac.fresh.mono (by omega)
          inv := by
            show AcInv (latestView s3.w s3.xid) nrC rowsC
            rw [hxid3, hlv3]; exact hac.inv
          noUpdB := hac.noUpdB }
      q0 := hq3
      noInsB := hac.noInsB
      sortedU := hac.sortedU
      othersU1 := hac.othersU1
      othersU2 := hac.othersU2
      ofU := hac.ofU
      whenU := hac.whenU
      sortedI := hac.sortedI
      othersI1 := hac.othersI1
      othersI2 := hac.othersI2
      evI := hac.evI
      whenI := hac.whenI
      stat := by
        show AmStatic s3.w.funcs b trI.fname trU.fname fnI fnU
        rw [hfn3]; exact hac.stat
      hist :=
        { table := hTH3
          seq := by
            show s3.w.seqs.find? (·.name == amSeqFull b) = some sqHA
            rw [hsq3, hsqO (amSeqFull b) (amSeqFull_ne_mvSeqFull b) hac.seqNeT (amSeqFull_ne_tmSeqFull b)]
            exact hac.hist.seq
          all := hac.hist.all
          lo := hac.hist.lo
          hi := hac.hist.hi }
      histView := by
        show AmView (latestView s3.w s3.xid) rowsHA tblHA
        rw [hxid3, hlv3]; exact hac.histView
      histFresh := by
        show Fresh s3.xid (s3.nextCid + 1) rowsHA
        rw [hxid3, hnc3]; exact hac.histFresh.mono (by omega) }
  have hlvE : latestView s3.enter.w s3.enter.xid = latestView s.w s.xid := by
    show latestView s3.w s3.xid = _
    rw [hxid3, hlv3]
  have hitems3 : items = acUpdItems l (am.map (·.2)) ((rowsC.filter (fun r => r.visible (latestView s3.enter.w s3.enter.xid))).reverse) ++
      acInsItems l ((am.map (·.2)).filter (fun d => !(exAddrs b l trigsC nrC rowsC (cv s3.enter) (am.map (·.2))).contains d.address)) := by
    rw [filter_exAddrs_eq b l trigsC nrC rowsC s3.enter hUS.tbl (am.map (·.2)), hlvE]
    exact hitems
  obtain ⟨resA, hrun4⟩ := exec_runStmt_upsertAccounts_hist k env b l id trigsC nrC rowsC AU1 AU2 trU AI1 AI2 trI fnI fnU nrHA rowsHA sqHA tblHA
    s3.enter hUS henv am (by intro y hy; show DbLit s3.w.types y.1 y.2; rw [hty3]; exact halits y hy) hand items hitems3
    (by show s3.nextCid + 1 + 2 * items.length ≤ 1000000000; rw [hnc3]; omega) hrangeA
  obtain ⟨hpermC, hinvC⟩ := upsertAccounts_rows_sem b l trigsC nrC rowsC s3.enter hUS.tbl (am.map (·.2)) hand
  rw [hlvE] at hpermC hinvC hrun4
  generalize hD : (am.map (·.2)).filter (fun d => !(exAddrs b l trigsC nrC rowsC (cv s3.enter) (am.map (·.2))).contains d.address) = D
    at hrun4 hpermC hinvC
  generalize hRC : acInsRows s3.enter.xid s3.enter.cid l nrC (acUpdRows (latestView s.w s.xid) s3.enter.xid s3.enter.cid l (am.map (·.2)) rowsC) D = rowsC4
    at hrun4 hpermC hinvC
  obtain ⟨_, _, _, _, _, _, hshapeU, _, _⟩ := upsertAccounts_shape4 b l id
  have hsh := hshapeU (am.map (·.1))
  generalize hU4 : P.upsertAccounts b l id (am.map (·.1)) = U4 at *
  subst hsh
  have hone := exec_mapM_single_inv _ _ _ _ _ hrun4
  have hseq4 := exec_seqRun_single' (k + 19) env _ s3 _ resA hone
  have hall := exec_seqRun_append (k + 19) env _ _ _ _ _ _ _ hrun3 hseq4
  refine ⟨rsA', nrA', rowsM', seqs', rowsC4, D.length, resA,
    (amDrainSt b s3.enter.xid (s3.enter.withTable ((acT b trigsC (nrC + D.length)).withRows rowsC4)) nrHA sqHA.next rowsHA tblHA items).withCid s3.cid,
    ?_, ?_, hinvA, hav1, hav2, hmv1, hmv2, hmvInv, hpermC, hinvC, hsqM, hsqT, hsqH⟩
  · simpa [List.append_assoc] using hall
  · rw [hcid3, hs3, ← hMV, ← hAV]
    rfl

/-- **Refinement of `Spec.applyTx`, transaction creation (`upsertAccounts = true`), DEFAULT feature set: both metadata histories on.** -/
theorem commit4H_refines_applyTx (k : Nat) (env : Env) (henv : env.ctes = []) (b l : String) (id : Nat)
    (rsA : List Ver) (nrA : Nat) (trigsT : List TriggerDef) (nrT : Nat) (rowsT : List Ver) (fullT : String) (sqT : Seq)
    (AT1 AT2 : List TriggerDef) (trAT : TriggerDef) (fAT : PlFunc) (nrH : Nat) (rowsH : List Ver) (sqH : Seq)
    (trigsM : List TriggerDef) (B1 B2 : List TriggerDef) (trB : TriggerDef) (A1 A2 : List TriggerDef) (trA : TriggerDef)
    (item wher dflt_ : Expr) (fB : PlFunc) (setE whereU : Expr) (fA : PlFunc) (nrM : Nat) (rowsM : List Ver) (sqM : Seq)
    (trigsC : List TriggerDef) (nrC : Nat) (rowsC : List Ver)
    (AU1 AU2 : List TriggerDef) (trU : TriggerDef) (AI1 AI2 : List TriggerDef) (trI : TriggerDef) (fnI fnU : PlFunc)
    (nrHA : Nat) (rowsHA : List Ver) (sqHA : Seq) (tblHA : List AmR) (s : St)
    (hst : CommitStateH s b l rsA nrA trigsT nrT rowsT fullT sqT AT1 AT2 trAT fAT nrH rowsH sqH trigsM B1 B2 trB A1 A2 trA item wher dflt_ fB
      setE whereU fA nrM rowsM sqM)
    (hac : CommitAccountsH s b l fullT trigsC nrC rowsC AU1 AU2 trU AI1 AI2 trI fnI fnU nrHA rowsHA sqHA tblHA)
    -- the Spec store the state abstracts to
    (st st' : Spec.Store) (t : Spec.TxIn) (hup : t.upsertAccounts = true) (happly : Spec.applyTx st t = .ok st')
    (hwf : Map.WF st.accountsVolumes) (habsA : ∀ key, avAbs s b l key = st.accountsVolumes.get? key)
    (habsM : st.moves.Perm (ledgerMoves l (mvAbs (latestView s.w s.xid) rowsM)))
    (habsC : AcAbsTo l (acAbs (latestView s.w s.xid) rowsC) st.accounts)
    (hmetaC : ∀ a ∈ acAbs (latestView s.w s.xid) rowsC, IsMeta a.md)
    (hidT : (st.nextTxId : Int) = sqT.next) (hidM : (st.nextSeq : Int) = sqM.next)
    -- what the Go layer passes
    (vrows : List P.VolumeRow) (hvu : vuOf vrows = volumeUpdates t.postings) (hvne : vrows ≠ []) (hvnd : (vrows.map avKeyOf).Nodup)
    (L : TxLits) (hl : SeqLit (txSeqLit b id) fullT) (x : TxR) (hlit : TxLit s.w.types l L x) (hid : x.id = st.nextTxId)
    (hidR : (st.nextTxId : Int) ≤ 9223372036854775807)
    (href : ∀ r ∈ rowsT, r.visible (latestView s.w s.xid) = true → ∀ x', r.vals = txVals x' → txConf2 x x' = false)
    (pm : List (P.MoveRow × Spec.MoveRow)) (hne : pm ≠ []) (hlits : ∀ y ∈ pm, MvLit s.w.types y.1 y.2)
    (hpm : ∀ ms, movesOf (Spec.upsertVolumes st.accountsVolumes (volumeUpdates t.postings)).2 t.postings = .ok ms →
      pm.map (·.2) = toRows st.nextSeq st.nextTxId t.insertedAt t.timestamp ms)
    (hrange : sqM.next + pm.length ≤ 9223372036854775808)
    (am : List (P.AccountRow × DbR)) (halits : ∀ y ∈ am, DbLit s.w.types y.1 y.2) (hand : ((am.map (·.2)).map (·.address)).Nodup)
    (hbatch : (am.map (·.2)).map (fun d => (d.address, metaOfJV d.md)) = acctBatch t)
    (hdmeta : ∀ d ∈ am.map (·.2), IsMeta d.md ∧ d.dm = JV.obj [])
    (hdates : ∀ d ∈ am.map (·.2), d.fu = t.timestamp ∧ d.ins = t.insertedAt ∧ d.upd = t.insertedAt)
    (items : List AmItem)
    (hitems : items = acUpdItems l (am.map (·.2)) ((rowsC.filter (fun r => r.visible (latestView s.w s.xid))).reverse) ++
      acInsItems l ((am.map (·.2)).filter (fun d => !hasAccount l (acAbs (latestView s.w s.xid) rowsC) d.address)))
    (hnc : s.nextCid + 6 + 4 * pm.length + 2 * items.length ≤ 1000000000)
    (hrangeA : sqHA.next + items.length ≤ 9223372036854775807) :
    ∃ (rsA' : List Ver) (nrA' : Nat) (rowsM' : List Ver) (seqs' : List Seq) (rowsC' : List Ver) (nC : Nat) (res : List DmlResult),
      (seqRun (k + 19) env (P.updateVolumes b l id vrows ++
          P.insertTransaction b l id L.postings L.metadata L.timestamp L.reference L.inserted_at L.updated_at L.post_commit_volumes
            L.template L.sources L.destinations L.sources_arrays L.destinations_arrays ++
          P.insertMoves b l id (pm.map (·.1)) ++ P.upsertAccounts b l id (am.map (·.1)))).exec s =
        (.ok res, (amDrainSt b s.xid
              ((((((((s.bump (5 + 4 * pm.length)).withSeqs seqs').withTable (avT b rsA' nrA')).withTable
                ((txT b trigsT (nrT + 1)).withRows (newVer s.xid (s.nextCid + 1) nrT (txVals x) :: rowsT))).withTable
                ((tmT b (nrH + 1)).withRows (newVer s.xid (s.nextCid + 2) nrH (tmVals (tmOf x sqH.next)) :: rowsH))).withTable
                ((mvT b trigsM (nrM + pm.length)).withRows rowsM')).enter).withTable ((acT b trigsC (nrC + nC)).withRows rowsC'))
              nrHA sqHA.next rowsHA tblHA items).withCid s.cid) ∧
      (∀ key, avView (latestView s.w s.xid) rsA' l key = st'.accountsVolumes.get? key) ∧
      (∀ l', l' ≠ l → ∀ key, avView (latestView s.w s.xid) rsA' l' key = avView (latestView s.w s.xid) rsA l' key) ∧
      (ledgerMoves l (mvAbs (latestView s.w s.xid) rowsM')).Perm st'.moves ∧
      (∀ l', l' ≠ l → (ledgerMoves l' (mvAbs (latestView s.w s.xid) rowsM')).Perm (ledgerMoves l' (mvAbs (latestView s.w s.xid) rowsM))) ∧
      AcAbsTo l (acAbs (latestView s.w s.xid) rowsC') st'.accounts ∧
      AvInv (latestView s.w s.xid) rsA' nrA' ∧ MvInv (latestView s.w s.xid) (st'.nextSeq : Int) rowsM' ∧
      AcInv (latestView s.w s.xid) (nrC + nC) rowsC' ∧
      (∃ sq', seqs'.find? (·.name == mvSeqFull b) = some sq' ∧ sq'.next = (st'.nextSeq : Int)) ∧
      (∃ sq', seqs'.find? (·.name == fullT) = some sq' ∧ sq'.next = (st'.nextTxId : Int)) := by
  unfold Spec.applyTx at happly
  simp only at happly
  cases hm : movesOf (Spec.upsertVolumes st.accountsVolumes (volumeUpdates t.postings)).2 t.postings with
  | error e => rw [hm] at happly; cases happly
  | ok ms =>
    rw [hm] at happly
    simp only [hup, if_true, Except.ok.injEq] at happly
    have hpm' := hpm ms hm
    have hlen : pm.length = ms.length := by
      have := congrArg List.length hpm'
      rw [List.length_map, toRows_length] at this
      exact this
    have hsf : SeqFrom sqM.next (pm.map (·.2)) := by
      rw [hpm']; exact seqFrom_toRows ms sqM.next _ _ _ _ hidM
    obtain ⟨rsA', nrA', rowsM', seqs', rowsC', nC, resA, s', hrun, hs', hinvA, hav1, hav2, hmv1, hmv2, hmvInv, hpermC, hinvC, hsM, hsT, _⟩ :=
      exec_commit4H k env henv b l id rsA nrA trigsT nrT rowsT fullT sqT AT1 AT2 trAT fAT nrH rowsH sqH trigsM B1 B2 trB A1 A2 trA item wher dflt_ fB
        setE whereU fA nrM rowsM sqM s hst vrows hvne hvnd st.accountsVolumes hwf habsA L hl x hlit (by rw [hid]; exact hidT)
        (by rw [hid]; omega) (by rw [hid]; exact hidR) href pm hne hlits hsf hrange st.moves habsM
        trigsC nrC rowsC AU1 AU2 trU AI1 AI2 trI fnI fnU nrHA rowsHA sqHA tblHA hac am halits hand items hitems hnc hrangeA
    subst hs'
    -- accounts
    have hfold := upsert_refines_fold l _ _ (am.map (·.2)) st.accounts t.insertedAt habsC (acAbs_keys_nodup _ _ _ hinvC) hpermC hand hmetaC
      hdmeta (fun d hd => (hdates d hd).2)
    have hacc : (am.map (·.2)).foldl (fun acc d => upsertAccount acc d.address (some d.fu) t.insertedAt (metaOfJV d.md)) st.accounts =
        st'.accounts := by
      have h1 : (am.map (·.2)).foldl (fun acc d => upsertAccount acc d.address (some d.fu) t.insertedAt (metaOfJV d.md)) st.accounts =
          ((am.map (·.2)).map (fun d => (d.address, metaOfJV d.md))).foldl
            (fun acc e => upsertAccount acc e.1 (some t.timestamp) t.insertedAt e.2) st.accounts := by
        conv => rhs; rw [List.foldl_map]
        have : ∀ (ds : List DbR) (m : Map String Spec.AccountRow), (∀ d ∈ ds, d.fu = t.timestamp) →
            ds.foldl (fun acc d => upsertAccount acc d.address (some d.fu) t.insertedAt (metaOfJV d.md)) m =
            ds.foldl (fun acc d => upsertAccount acc d.address (some t.timestamp) t.insertedAt (metaOfJV d.md)) m := by
          intro ds
          induction ds with
          | nil => intro m _; rfl
          | cons d rest ih =>
            intro m h
            simp only [List.foldl_cons, h d (by simp)]
            exact ih _ (fun d' hd' => h d' (by simp [hd']))
        exact this _ _ (fun d hd => (hdates d hd).1)
      rw [h1, hbatch, foldl_acctBatch, ← happly]
    rw [hacc] at hfold
    refine ⟨rsA', nrA', rowsM', seqs', rowsC', nC, _, hrun, ?_, hav2, ?_, hmv2, hfold, hinvA, ?_, hinvC, ?_, ?_⟩
    · intro key
      rw [hav1 key, hvu, ← happly]
    · rw [← happly]
      simp only
      rw [← hpm']
      exact hmv1
    · rw [← happly]
      simp only
      have : ((st.nextSeq + ms.length : Nat) : Int) = sqM.next + pm.length := by rw [hlen]; push_cast; omega
      rw [this]; exact hmvInv
    · refine ⟨_, hsM, ?_⟩
      rw [← happly, Seq.next_set]
      simp only
      rw [hlen]; push_cast; omega
    · refine ⟨_, hsT, ?_⟩
      rw [← happly, Seq.next_set]
      simp only
      push_cast; omega

end Ledger.Sql
