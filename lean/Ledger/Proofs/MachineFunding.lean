import Ledger.Machine.Funding

/-! Lemmas on the funding operations (`Take`, `TakeMax`, `Concat`, `Reverse`, `Total`). -/
namespace Ledger.Machine

variable {cfg : Cfg}

/-- Sum of the amounts of the parts whose account satisfies `P`
    (`P = fun _ => true` gives `total`). -/
def totalOf (P : String → Bool) : List Part → Int
  | [] => 0
  | p :: ps => (if P p.account then p.amount else 0) + totalOf P ps

theorem total_eq_totalOf (ps : List Part) : total ps = totalOf (fun _ => true) ps := by
  induction ps with
  | nil => rfl
  | cons p ps ih => simp [total, totalOf, ih]

theorem totalOf_append (P : String → Bool) (a b : List Part) :
    totalOf P (a ++ b) = totalOf P a + totalOf P b := by
  induction a with
  | nil => simp [totalOf]
  | cons p ps ih => simp [totalOf, ih]; omega

theorem totalOf_reverse (P : String → Bool) (a : List Part) : totalOf P a.reverse = totalOf P a := by
  induction a with
  | nil => rfl
  | cons p ps ih => simp [totalOf_append, totalOf, ih]; omega

theorem total_append (a b : List Part) : total (a ++ b) = total a + total b := by
  simp [total_eq_totalOf, totalOf_append]

theorem total_reverse (a : List Part) : total a.reverse = total a := by
  simp [total_eq_totalOf, totalOf_reverse]

theorem totalOf_nonneg (P : String → Bool) (ps : List Part) (h : partsNonneg ps) : 0 ≤ totalOf P ps := by
  induction ps with
  | nil => simp [totalOf]
  | cons p ps ih =>
    have hp : 0 ≤ p.amount := h p (by simp)
    have := ih (fun q hq => h q (by simp [hq]))
    simp only [totalOf]
    split <;> omega

theorem total_nonneg (ps : List Part) (h : partsNonneg ps) : 0 ≤ total ps := by
  rw [total_eq_totalOf]; exact totalOf_nonneg _ _ h

theorem partsNonneg_nil : partsNonneg [] := by intro p hp; cases hp

theorem partsNonneg_cons {p : Part} {ps : List Part} :
    partsNonneg (p :: ps) ↔ 0 ≤ p.amount ∧ partsNonneg ps := by
  constructor
  · intro h
    exact ⟨h p (by simp), fun q hq => h q (by simp [hq])⟩
  · rintro ⟨h1, h2⟩ q hq
    rcases List.mem_cons.mp hq with rfl | hq
    · exact h1
    · exact h2 q hq

theorem partsNonneg_append {a b : List Part} :
    partsNonneg (a ++ b) ↔ partsNonneg a ∧ partsNonneg b := by
  constructor
  · intro h
    exact ⟨fun q hq => h q (by simp [hq]), fun q hq => h q (by simp [hq])⟩
  · rintro ⟨h1, h2⟩ q hq
    rcases List.mem_append.mp hq with hq | hq
    · exact h1 q hq
    · exact h2 q hq

theorem partsNonneg_reverse {a : List Part} (h : partsNonneg a) : partsNonneg a.reverse := by
  intro q hq; exact h q (by simpa using hq)

/-! ### `takeLoop` -/

/-- Conservation per account class. -/
theorem takeLoop_totalOf (P : String → Bool) (ps : List Part) (r : Int) :
    totalOf P (takeLoop ps r).1 + totalOf P (takeLoop ps r).2.1 = totalOf P ps := by
  induction ps generalizing r with
  | nil => simp [takeLoop, totalOf]
  | cons p ps ih =>
    unfold takeLoop
    split
    · split
      · simp only [totalOf]
        split <;> omega
      · simp only [totalOf]
        have := ih (r - p.amount)
        omega
    · simp [totalOf]

/-- The result holds exactly what was asked minus what could not be withdrawn. -/
theorem takeLoop_total (ps : List Part) (r : Int) :
    total (takeLoop ps r).1 = r - (takeLoop ps r).2.2 := by
  induction ps generalizing r with
  | nil => simp [takeLoop, total]
  | cons p ps ih =>
    unfold takeLoop
    split
    · split
      · simp [total]
      · simp only [total]
        have := ih (r - p.amount)
        omega
    · simp [total]

theorem takeLoop_nonneg (ps : List Part) (r : Int) (h : partsNonneg ps) :
    partsNonneg (takeLoop ps r).1 ∧ partsNonneg (takeLoop ps r).2.1 := by
  induction ps generalizing r with
  | nil => simp [takeLoop, partsNonneg_nil]
  | cons p ps ih =>
    obtain ⟨hp, hps⟩ := partsNonneg_cons.mp h
    unfold takeLoop
    split
    · split
      · refine ⟨partsNonneg_cons.mpr ⟨by simp; omega, partsNonneg_nil⟩,
          partsNonneg_cons.mpr ⟨by simp; omega, hps⟩⟩
      · have := ih (r - p.amount) hps
        exact ⟨partsNonneg_cons.mpr ⟨hp, this.1⟩, this.2⟩
    · exact ⟨partsNonneg_nil, h⟩

theorem total_cons (p : Part) (ps : List Part) : total (p :: ps) = p.amount + total ps := rfl

/-- What is left to withdraw at the end: the shortfall, or nothing. -/
theorem takeLoop_missing (ps : List Part) (r : Int) (h : partsNonneg ps) (hr : 0 ≤ r) :
    (total ps < r → (takeLoop ps r).2.2 = r - total ps) ∧
    (r ≤ total ps → (takeLoop ps r).2.2 = 0) := by
  induction ps generalizing r with
  | nil =>
    simp only [takeLoop]
    have : total [] = 0 := rfl
    constructor <;> intro _ <;> omega
  | cons p ps ih =>
    obtain ⟨hp, hps⟩ := partsNonneg_cons.mp h
    have htn := total_nonneg ps hps
    rw [total_cons]
    unfold takeLoop
    split
    · split
      · constructor <;> intro _ <;> simp <;> omega
      · obtain ⟨i1, i2⟩ := ih (r - p.amount) hps (by omega)
        constructor
        · intro hlt
          have := i1 (by omega)
          simp only [this]; omega
        · intro hle
          exact i2 (by omega)
    · constructor <;> intro _ <;> simp <;> omega

/-! ### `takeMax`, `take` -/

theorem takeMax_totalOf (P : String → Bool) (ps : List Part) (amt : Int) :
    totalOf P (takeMax ps amt).1 + totalOf P (takeMax ps amt).2 = totalOf P ps := by
  simp [takeMax, takeLoop_totalOf]

theorem takeMax_total_split (ps : List Part) (amt : Int) :
    total (takeMax ps amt).1 + total (takeMax ps amt).2 = total ps := by
  simp only [total_eq_totalOf]; exact takeMax_totalOf _ ps amt

theorem takeMax_nonneg (ps : List Part) (amt : Int) (h : partsNonneg ps) :
    partsNonneg (takeMax ps amt).1 ∧ partsNonneg (takeMax ps amt).2 := by
  simpa [takeMax] using takeLoop_nonneg ps amt h

/-- `TakeMax` takes `min amount total`, and the VM's `missing` is the rest. -/
theorem takeMax_total (ps : List Part) (amt : Int) (h : partsNonneg ps) (hr : 0 ≤ amt) :
    total (takeMax ps amt).1 + (if total ps < amt then amt - total ps else 0) = amt := by
  have h1 := takeLoop_total ps amt
  obtain ⟨h2, h3⟩ := takeLoop_missing ps amt h hr
  simp only [takeMax]
  split
  · rename_i hlt; have := h2 hlt; omega
  · rename_i hge; have := h3 (by omega); omega

theorem zeroHead_totalOf (P : String → Bool) (ps : List Part) (amt : Int) :
    totalOf P (zeroHead ps amt) = 0 := by
  unfold zeroHead
  split
  · split <;> simp [totalOf]
  · rfl

theorem zeroHead_nonneg (ps : List Part) (amt : Int) : partsNonneg (zeroHead ps amt) := by
  unfold zeroHead
  split
  · split
    · exact partsNonneg_cons.mpr ⟨by simp, partsNonneg_nil⟩
    · exact partsNonneg_nil
  · exact partsNonneg_nil

theorem take_totalOf (P : String → Bool) {ps : List Part} {amt : Int} {res rem : List Part}
    (h : take ps amt = some (res, rem)) : totalOf P res + totalOf P rem = totalOf P ps := by
  unfold take at h
  split at h
  · cases h
    rw [totalOf_append, zeroHead_totalOf]
    have := takeLoop_totalOf P ps amt
    omega
  · cases h

theorem take_total_split {ps : List Part} {amt : Int} {res rem : List Part}
    (h : take ps amt = some (res, rem)) : total res + total rem = total ps := by
  simp only [total_eq_totalOf]; exact take_totalOf _ h

/-- `Take` succeeds only with exactly the requested amount. -/
theorem take_total {ps : List Part} {amt : Int} {res rem : List Part}
    (h : take ps amt = some (res, rem)) : total res = amt := by
  unfold take at h
  split at h
  · rename_i h0
    cases h
    rw [total_append]
    have h1 := takeLoop_total ps amt
    have h2 : total (zeroHead ps amt) = 0 := by
      rw [total_eq_totalOf]; exact zeroHead_totalOf _ _ _
    omega
  · cases h

theorem take_nonneg {ps : List Part} {amt : Int} {res rem : List Part}
    (h : take ps amt = some (res, rem)) (hn : partsNonneg ps) : partsNonneg res ∧ partsNonneg rem := by
  unfold take at h
  split at h
  · cases h
    have := takeLoop_nonneg ps amt hn
    exact ⟨partsNonneg_append.mpr ⟨zeroHead_nonneg _ _, this.1⟩, this.2⟩
  · cases h

/-- Taking the whole total of a non-negative funding always succeeds. -/
theorem take_all_isSome (ps : List Part) (hn : partsNonneg ps) : (take ps (total ps)).isSome := by
  unfold take
  have := (takeLoop_missing ps (total ps) hn (total_nonneg ps hn)).2 (by omega)
  simp [this]

/-! ### `concatParts` -/

theorem concatParts_totalOf (P : String → Bool) (a b : List Part) :
    totalOf P (concatParts a b) = totalOf P a + totalOf P b := by
  fun_induction concatParts a b with
  | case1 b => simp [totalOf]
  | case2 l => simp [totalOf]
  | case3 l o os h =>
    simp only [totalOf]
    rw [← h]
    split <;> omega
  | case4 l o os h => simp [totalOf]
  | case5 x y a b ih =>
    simp only [totalOf] at *
    omega

theorem concatParts_total (a b : List Part) : total (concatParts a b) = total a + total b := by
  simp only [total_eq_totalOf]; exact concatParts_totalOf _ a b

theorem concatParts_nonneg (a b : List Part) (ha : partsNonneg a) (hb : partsNonneg b) :
    partsNonneg (concatParts a b) := by
  fun_induction concatParts a b with
  | case1 b => exact hb
  | case2 l => exact ha
  | case3 l o os h =>
    have h1 := (partsNonneg_cons.mp ha).1
    obtain ⟨h2, h3⟩ := partsNonneg_cons.mp hb
    exact partsNonneg_cons.mpr ⟨by simp; omega, h3⟩
  | case4 l o os h =>
    exact partsNonneg_cons.mpr ⟨(partsNonneg_cons.mp ha).1, hb⟩
  | case5 x y a b ih =>
    obtain ⟨h1, h2⟩ := partsNonneg_cons.mp ha
    exact partsNonneg_cons.mpr ⟨h1, ih h2 hb⟩

end Ledger.Machine
