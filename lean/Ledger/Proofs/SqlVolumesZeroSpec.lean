import Ledger.Proofs.SqlVolumesZero
import Ledger.Proofs.SqlVolumesSpec

/-!
# The zero rows of `GetBalances` against `Spec.lockBalances`
-/
open Ledger.Sql Ledger.Generated
open Ledger.Generated.WriteSql.P (BalanceRow)
open Ledger.Base Ledger.Core

namespace Ledger.Sql

/-- the statements of the CTEs of a query statement (they run through `execStmt`, see `evalCtes`) -/
def cteStmts : Stmt → List Stmt
  | .query (.mk ctes _ _ _ _ _) => ctes.map (fun c => match c with | .mk _ _ st => st)
  | _ => []

def bkOf (rows : List BalanceRow) : List Key := rows.map (fun r => (r.accounts_address, r.asset))

open Ledger.Generated.WriteSql in
/-- `GetBalances` taken apart: one CTE, an INSERT of zero rows with `ON CONFLICT DO NOTHING` -/
theorem getBalances_shape (b l : String) (id : Nat) :
    ∃ (cols target : List String) (f : BalanceRow → List Expr),
      (∀ rows, (P.getBalances b l id rows).flatMap cteStmts =
        [Stmt.insert [] b "accounts_volumes" "" cols (.values (rows.map f)) (some (.mk target none "" .nothing)) []]) ∧
      cols.isEmpty = false ∧ (∀ r, allLit (f r) = true) ∧
      AvShapeN b l cols target (fun r => litRow (f r)) := by
  refine ⟨_, _, _, fun rows => rfl, rfl, fun r => rfl, ?_⟩
  constructor
  · intro r m rs nr s
    have h0 : castTo s.w.types (SqlType.mk "" "numeric" "" false) (.text "0") = .ok (.int 0) := castTo_numeric_text _ 0
    simp [litRow, buildRow, exec_bind, avT, Schema.tbl_accounts_volumes, Table.colNames, List.lookup,
      castTo_varchar, h0]
  · intro rs nr s
    simp [arbiterIndexes, avT, Schema.tbl_accounts_volumes, avPkey]

/-- the pure run against `Spec.lockBalances` -/
theorem avRunN_spec (w : World) (xid cid : Nat) (hx : xid ≠ 0) (hc : cid < 1000000000) (l : String) :
    ∀ (rows : List BalanceRow) (rs : List Ver) (nr : Nat) (av : PCV),
      AvInv (latestView w xid) rs nr → Map.WF av → (∀ k, avView (latestView w xid) rs l k = av.get? k) →
      (∀ k, avView (latestView w xid) (avRunN (latestView w xid) xid cid l rows (rs, nr)).1 l k =
          ((bkOf rows).foldl (fun m k => Map.insertWith (fun old _ => old) k Volumes.zero m) av).get? k) ∧
      (∀ l', l' ≠ l → ∀ k, avView (latestView w xid) (avRunN (latestView w xid) xid cid l rows (rs, nr)).1 l' k =
          avView (latestView w xid) rs l' k) ∧
      AvInv (latestView w xid) (avRunN (latestView w xid) xid cid l rows (rs, nr)).1
          (avRunN (latestView w xid) xid cid l rows (rs, nr)).2 := by
  intro rows
  induction rows with
  | nil => intro rs nr av hinv _ habs; exact ⟨habs, fun _ _ _ => rfl, hinv⟩
  | cons r rest ih =>
    intro rs nr av hinv hwf habs
    have hsame := avGet_stepN_same w xid cid l r.accounts_address r.asset 0 0 rs nr hx hc
    have hother := avGet_stepN_other w xid cid l r.accounts_address r.asset 0 0 rs nr hx hc
    have hinv1 := avStepN_inv w xid cid l r.accounts_address r.asset 0 0 rs nr hx hc hinv
    have hwf1 : Map.WF (Map.insertWith (fun old _ => old) (r.accounts_address, r.asset) Volumes.zero av) := Map.WF_insertWith _ _ _ hwf
    have habs_k := habs (r.accounts_address, r.asset)
    simp only [avView] at habs_k
    have habs1 : ∀ k, avView (latestView w xid) (avStepN (latestView w xid) xid cid l r.accounts_address r.asset 0 0 (rs, nr)).1 l k =
        (Map.insertWith (fun old _ => old) (r.accounts_address, r.asset) Volumes.zero av).get? k := by
      intro k
      rw [Map.get?_insertWith _ _ _ hwf]
      by_cases hk : k = (r.accounts_address, r.asset)
      · subst hk
        simp only [avView, if_true, hsame, Option.map_some]
        cases hg : avGet (latestView w xid) rs l r.accounts_address r.asset with
        | none => rw [hg] at habs_k; simp [← habs_k, Volumes.zero]
        | some v => rw [hg] at habs_k; simp [← habs_k]
      · rw [if_neg hk, ← habs k]
        simp only [avView]
        rw [hother l k.1 k.2 (by
          intro ⟨_, h2, h3⟩
          exact hk (Prod.ext h2.symm h3.symm))]
    obtain ⟨ih1, ih2, ih3⟩ := ih _ _ _ hinv1 hwf1 habs1
    refine ⟨?_, ?_, ?_⟩
    · intro k; exact ih1 k
    · intro l' hl k
      rw [show (avRunN (latestView w xid) xid cid l (r :: rest) (rs, nr)).1 =
        (avRunN (latestView w xid) xid cid l rest (avStepN (latestView w xid) xid cid l r.accounts_address r.asset 0 0 (rs, nr))).1 from rfl]
      rw [ih2 l' hl k]
      simp only [avView]
      rw [hother l' k.1 k.2 (by intro ⟨h1, _, _⟩; exact hl h1.symm)]
    · exact ih3


/-- hypotheses on the state for the zero-row insert (no freshness of the command id is needed:
    `ON CONFLICT DO NOTHING` never touches an existing row) -/
structure AvStateN (s : St) (b : String) (rs : List Ver) (nr : Nat) : Prop where
  table : s.w.table? (avFull b) = some (avT b rs nr)
  /-- table names are unique in the catalogue -/
  names : (s.w.tables.map (·.name)).Nodup
  solo : ∀ x ∈ s.w.active, x = s.xid
  xid : s.xid ≠ 0
  cid : s.cid < 1000000000
  inv : AvInv (latestView s.w s.xid) rs nr

open Ledger.Generated.WriteSql in
/-- The data-modifying CTE of `GetBalances` is `Spec.lockBalances` on `accounts_volumes`: absent keys get a
    `(0, 0)` row, present keys (and everything else) are untouched. Any rows (duplicates allowed), any
    table contents satisfying the invariants. -/
theorem getBalances_zero_rows_bridge (n : Nat) (env : Env) (b l : String) (id : Nat) (hb : b.isEmpty = false)
    (s : St) (rs : List Ver) (nr : Nat) (hs : AvStateN s b rs nr) (rows : List BalanceRow)
    (av : PCV) (hwf : Map.WF av) (habs : ∀ k, avAbs s b l k = av.get? k) :
    ∃ r s', (((P.getBalances b l id rows).flatMap cteStmts).mapM (execStmt (n + 5) env)).exec s = (.ok r, s') ∧
      (∀ k, avAbs s' b l k = ((bkOf rows).foldl (fun m k => Map.insertWith (fun old _ => old) k Volumes.zero m) av).get? k) ∧
      (∀ l', l' ≠ l → ∀ k, avAbs s' b l' k = avAbs s b l' k) ∧
      (∃ rs' nr', s' = s.withTable (avT b rs' nr') ∧ AvInv (latestView s.w s.xid) rs' nr') := by
  obtain ⟨cols, target, f, hstmt, hcols, hlit, sh⟩ := getBalances_shape b l id
  have habs' : ∀ k, avView (latestView s.w s.xid) rs l k = av.get? k := fun k => by
    rw [← avAbs_of_table hs.table]; exact habs k
  obtain ⟨h1, h2, h3⟩ := avRunN_spec s.w s.xid s.cid hs.xid hs.cid l rows rs nr av hs.inv hwf habs'
  have hT' := withTable_av_table? s b rs (avRunN (latestView s.w s.xid) s.xid s.cid l rows (rs, nr)).1 nr
    (avRunN (latestView s.w s.xid) s.xid s.cid l rows (rs, nr)).2 hs.table
  have hins := exec_execInsert_av_nothing n env b "" l cols target none "" f (fun r => litRow (f r)) hb hcols
    (fun r m s => exec_evalValuesRow_lit m env (f r) (hlit r) s) sh s rs nr hs.table hs.names hs.solo hs.xid hs.cid hs.inv rows
  have hexec : (((P.getBalances b l id rows).flatMap cteStmts).mapM (execStmt (n + 5) env)).exec s =
      (.ok [{ rel := { cols := [], rows := [] }, affected := avRunNCount (latestView s.w s.xid) s.xid s.cid l rows (rs, nr) }],
       s.withTable (avT b (avRunN (latestView s.w s.xid) s.xid s.cid l rows (rs, nr)).1
                          (avRunN (latestView s.w s.xid) s.xid s.cid l rows (rs, nr)).2)) := by
    rw [hstmt rows]
    simp only [exec_mapM_cons, exec_mapM_nil]
    rw [execStmt, evalCtes]
    · simp only [exec_bind, exec_pure, hins]
    · intro h; omega
  refine ⟨_, _, hexec, ?_, ?_, ⟨_, _, rfl, h3⟩⟩
  · intro k
    rw [avAbs_of_table hT']
    exact h1 k
  · intro l' hl k
    rw [avAbs_of_table hT', avAbs_of_table hs.table]
    exact h2 l' hl k

end Ledger.Sql
