import Ledger.Machine.TxScript
import Ledger.Proofs.MachineAsset

/-! C25: the statement `TxToScriptData` writes for one posting produces exactly that
    posting. -/
namespace Ledger.Machine

variable {cfg : Cfg}

/-- The expressions of one generated statement evaluate to the posting's fields. -/
structure TxBinding (env : Env) (monE srcE dstE : Expr) (p : TxPosting) : Prop where
  mon : evalExpr env monE = .ok (.monetary p.asset (some p.amount))
  monAtom : monE.leftmost = monE
  src : evalExpr env srcE = .ok (.account p.source)
  dst : evalExpr env dstE = .ok (.account p.destination)

theorem take_single_zero (a : String) (x : Int) :
    take [⟨a, x⟩] 0 = some ([⟨a, 0⟩], [⟨a, x⟩]) := by
  simp [take, takeLoop, zeroHead]

theorem take_single_pos (a : String) (x amt : Int) (h : 0 < amt) :
    take [⟨a, x⟩] amt =
      if amt < x then some ([⟨a, amt⟩], [⟨a, x - amt⟩])
      else if amt = x then some ([⟨a, x⟩], []) else none := by
  simp only [take, takeLoop, h, if_true, zeroHead]
  by_cases h1 : amt < x
  · simp [h1]; omega
  · simp only [h1, if_false]
    by_cases h2 : amt = x
    · subst h2; simp; omega
    · simp [h2]; omega

/-- Destination `= <account>` on a one-part funding: one posting, nothing of value left. -/
theorem evalDest_account_single {env : Env} {asset : String} {e : Expr} {d a : String} {amt : Int}
    (hd : evalExpr env e = .ok (.account d)) (hamt : 0 ≤ amt) (st : State) :
    ∃ rem, evalDest env asset (.account e) [⟨a, amt⟩] st =
      .ok (rem, sendTo asset d [⟨a, amt⟩] st) ∧ total rem = 0 := by
  simp only [evalDest, total, evalAccount, hd]
  by_cases h0 : amt = 0
  · subst h0
    simp only [Int.add_zero, take_single_zero]
    exact ⟨[⟨a, 0⟩], rfl, by simp [total]⟩
  · have hpos : 0 < amt := by omega
    rw [Int.add_zero, take_single_pos a amt amt hpos]
    simp only [Int.lt_irrefl, if_false, if_true]
    exact ⟨[], rfl, rfl⟩

theorem sendTo_postings (asset d a : String) (amt : Int) (st : State) :
    (sendTo asset d [⟨a, amt⟩] st).postings = st.postings ++ [⟨a, d, asset, amt⟩] := by
  simp [sendTo, mkPostings]

theorem finishSend_single {env : Env} {e : Expr} {d a asset : String} {amt : Int}
    (hd : evalExpr env e = .ok (.account d)) (hamt : 0 ≤ amt) (st st' : State)
    (h : finishSend env (.account e) ⟨asset, [⟨a, amt⟩]⟩ st = .ok st') :
    st'.postings = st.postings ++ [⟨a, d, asset, amt⟩] := by
  obtain ⟨rem, hev, _⟩ := evalDest_account_single (asset := asset) (a := a) hd hamt st
  simp only [finishSend, hev] at h
  cases h
  exact sendTo_postings asset d a amt st

/-- A bounded source (`source = $acc`): the generated statement posts exactly the posting. -/
theorem txStmt_bounded {env : Env} {monE srcE dstE : Expr} {p : TxPosting}
    (hb : TxBinding env monE srcE dstE p) (hw : srcE.isWorld = false) (st st' : State)
    (h : evalStmt cfg env (.send monE (.src (.account srcE .none)) (.account dstE)) st = .ok st') :
    st'.postings = st.postings ++ [p] := by
  cases hwa : withdrawAll st.bal p.source p.asset (some 0) with
  | error e =>
    simp [evalStmt, leftmostAsset, hb.monAtom, hb.mon, evalSource, evalAccount, hb.src, hw, hwa] at h
  | ok r =>
    obtain ⟨pt, b1⟩ := r
    obtain ⟨w0, w1, _⟩ := withdrawAll_spec hwa
    have hpt : pt = ⟨p.source, pt.amount⟩ := by cases pt; simp_all
    simp only [evalStmt, leftmostAsset, hb.monAtom, hb.mon, evalSource, evalAccount, hb.src, hw,
      Bool.false_eq_true, if_false, hwa, evalMonetary, Source.fallback, takeFromSource,
      ne_eq, not_true_eq_false, needAmt] at h
    rw [hpt] at h
    by_cases h0 : p.amount = 0
    · rw [h0, take_single_zero] at h
      simp only at h
      have := finishSend_single (a := p.source) hb.dst (by omega : (0 : Int) ≤ 0) _ st' h
      rw [this]
      obtain ⟨ps, pd, pa, pm⟩ := p
      simp only at h0
      subst h0; rfl
    · by_cases hneg : p.amount < 0
      · have hnp : ¬ (0 < p.amount) := by omega
        simp [take, takeLoop, hnp, h0] at h
      · have hpos : 0 < p.amount := by omega
        rw [take_single_pos _ _ _ hpos] at h
        by_cases h1 : p.amount < pt.amount
        · simp only [h1, if_true] at h
          have := finishSend_single (a := p.source) hb.dst (by omega) _ st' h
          rw [this]
        · simp only [h1, if_false] at h
          by_cases h2 : pt.amount = p.amount
          · rw [h2] at h
            simp only [if_true] at h
            have := finishSend_single (a := p.source) hb.dst (by omega) _ st' h
            rw [this]
          · have h2' : ¬ p.amount = pt.amount := fun x => h2 x.symm
            simp [h2'] at h

/-- An unbounded source (`@world`, or `$acc allowing unbounded overdraft`). -/
theorem txStmt_unbounded {env : Env} {monE srcE dstE : Expr} {p : TxPosting} {od : Overdraft}
    (hb : TxBinding env monE srcE dstE p)
    (hod : od = .unbounded ∨ (od = .none ∧ srcE.isWorld = true)) (st st' : State)
    (h : evalStmt cfg env (.send monE (.src (.account srcE od)) (.account dstE)) st = .ok st') :
    st'.postings = st.postings ++ [p] := by
  have hfb : (Source.account srcE od).fallback = some srcE := by
    rcases hod with rfl | ⟨rfl, hw⟩
    · rfl
    · simp [Source.fallback, hw]
  have hsrc : evalSource cfg env p.asset (.account srcE od) st.bal =
      .ok (⟨p.asset, [(withdrawAlways st.bal p.source p.asset 0).1]⟩,
        (withdrawAlways st.bal p.source p.asset 0).2) := by
    rcases hod with rfl | ⟨rfl, hw⟩
    · simp [evalSource, evalAccount, hb.src]
    · simp [evalSource, evalAccount, hb.src, hw]
  simp only [evalStmt, leftmostAsset, hb.monAtom, hb.mon, hsrc, evalMonetary, hfb,
    takeFromSource, takeMaxStep, needAmt] at h
  have hw1 := (withdrawAlways_spec st.bal p.source p.asset 0).1
  rw [hw1] at h
  split at h
  · cases h
  · rename_i f2 b2 hnn
    by_cases hneg : p.amount < 0
    · simp [hneg] at hnn
    · have hnn' : 0 ≤ p.amount := by omega
      have hacc : evalAccount env srcE = .ok p.source := by simp [evalAccount, hb.src]
      simp only [hneg, if_false, ne_eq, not_true_eq_false, hacc] at hnn
      -- the funding handed to the destination is the single part (source, amount)
      have key : concatParts (takeMax [⟨p.source, 0⟩] p.amount).1
          [(withdrawAlways (repay (withdrawAlways st.bal p.source p.asset 0).2 p.asset
              (takeMax [⟨p.source, 0⟩] p.amount).2) p.source p.asset
              (if total [⟨p.source, (0 : Int)⟩] < p.amount then p.amount - total [⟨p.source, (0 : Int)⟩] else 0)).1] =
          [⟨p.source, p.amount⟩] := by
        rw [(withdrawAlways_spec _ p.source p.asset _).1]
        simp only [total, Int.add_zero, takeMax, takeLoop]
        by_cases hz : p.amount = 0
        · simp [hz, concatParts]
        · have hpos : 0 < p.amount := by omega
          simp [hpos, hneg, concatParts, takeLoop]
      rw [key] at hnn
      cases hnn
      have := finishSend_single (a := p.source) hb.dst hnn' _ st' h
      rw [this]

end Ledger.Machine
