import Ledger.Proofs.SchedGuard
import Ledger.Sched.Writers

/-!
# The writers' programs follow the lock discipline (`Safe`)

For every answer of every statement: `sendProg` / `revertProg` on a ledger in use with
HASH_LOGS=SYNC insert their log under `pg_advisory_xact_lock(ledger id)` inside the transaction
(discipline `logKey`, strict); `sendProg` on an initializing ledger (state tracker) and `importProg`
insert theirs under the ledger lock `hashtext('ledger:<id>')` (discipline `ledgerKey`).
-/
namespace Ledger.Sched

/-- held in a way no failed statement can take away: session-scoped, or transaction-scoped with an odd
    key (the ledger lock) inside a savepoint -/
def RH (d : Disc) (m : Mon) : Prop := m.held = true ∧ (m.xact = false ∨ (m.sp = true ∧ d.K % 2 = 1))

/-- what a write on ledger `l` with flag `sync` needs of the monitor while its (sub)transaction runs -/
def Keep (d : Disc) (l : Nat) (sync : Bool) (m : Mon) : Prop :=
  l = d.l₀ → m.tx = true ∧ (RH d m ∨ (sync = true ∧ logKey l = d.K)) ∧ (d.strict = true → sync = true)

theorem monStep_aborted (d : Disc) (m : Mon) (st : Stmt) (o : Out) (h : o.err = some .aborted) : monStep d m st o = m := by
  unfold monStep; rw [h]

theorem keep_err (d : Disc) (l : Nat) (sync : Bool) (m : Mon) (st : Stmt) (o : Out) (e : Err)
    (ho : o.err = some e) (h : Keep d l sync m) : Keep d l sync (monStep d m st o) := by
  by_cases ha : e = .aborted
  · rw [ha] at ho; rw [monStep_aborted d m st o ho]; exact h
  · rw [monStep_err d m st o e ho ha]
    intro hl
    obtain ⟨htx, hh, hs⟩ := h hl
    refine ⟨htx, ?_, hs⟩
    rcases hh with ⟨hheld, hr⟩ | hr
    · left
      refine ⟨?_, hr⟩
      rcases hr with hx | ⟨hsp, hodd⟩
      · simp [hheld, hx]
      · simp [hheld, hsp, hodd]
    · exact Or.inr hr

/-- statements the monitor ignores -/
def Stmt.plain : Stmt → Bool
  | .getBalances _ | .updateVolumes _ | .insertTx _ _ _ | .upsertAccounts _ | .readIK _ _ | .readState _
  | .readLastLog _ | .updateState _ | .revertUpdate _ _ _ | .createBlocks _ _ | .rollbackTo | .setval _ => true
  | _ => false

theorem monStep_plain (d : Disc) (m : Mon) (st : Stmt) (o : Out) (hp : st.plain = true) (ho : o.err = none) :
    monStep d m st o = m := by
  unfold monStep; rw [ho]
  cases st <;> first | rfl | (simp [Stmt.plain] at hp)

theorem monOk_plain (d : Disc) (m : Mon) (st : Stmt) (hp : st.plain = true) (hs : ∀ l, st = .setval l → d.strict = true → l ≠ d.l₀) :
    monOk d m st := by
  cases st with
  | setval l => intro h; exact hs l rfl h
  | _ => first | trivial | (simp [Stmt.plain] at hp)

/-- a plain statement followed by `match o.err with | some e => fail e | none => next o` -/
theorem safe_plain (d : Disc) (m : Mon) (st : Stmt) (next : Out → Prog) (fail : Err → Prog) (P : Mon → Prop)
    (hp : st.plain = true) (hs : ∀ l, st = .setval l → d.strict = true → l ≠ d.l₀)
    (hP : P m) (hPerr : ∀ o e, o.err = some e → P (monStep d m st o))
    (hfail : ∀ m' e, P m' → Safe d m' (fail e))
    (hnext : ∀ o, o.err = none → Safe d m (next o)) :
    Safe d m (.stmt st fun o => match o.err with | some e => fail e | none => next o) := by
  refine ⟨monOk_plain d m st hp hs, fun o _ => ?_⟩
  dsimp only
  split
  · rename_i e ho; exact hfail _ e (hPerr o e ho)
  · rename_i ho; rw [monStep_plain d m st o hp ho]; exact hnext o ho

end Ledger.Sched

namespace Ledger.Sched

theorem keep_dirty (d : Disc) (l : Nat) (sync : Bool) (m : Mon) (h : Keep d l sync m) :
    Keep d l sync { m with dirty := true } := by
  intro hl
  obtain ⟨htx, hh, hs⟩ := h hl
  exact ⟨htx, hh, hs⟩

/-- the log INSERT followed by the success continuation -/
theorem safe_ins (d : Disc) (m : Mon) (l ik hash tx : Nat) (sync : Bool) (fail : Err → Prog) (succ : Nat → Prog)
    (hk : Keep d l sync m) (hheld : l = d.l₀ → m.held = true)
    (hfail : ∀ m' e, Keep d l sync m' → Safe d m' (fail e))
    (hsucc : ∀ m' a, Keep d l sync m' → Safe d m' (succ a)) :
    Safe d m (.stmt (.insertLog l ik hash sync none tx) fun o' => match o'.err with | some e => fail e | none => succ (headNat o')) := by
  refine ⟨?_, fun o _ => ?_⟩
  · intro hl
    obtain ⟨htx, _, hs⟩ := hk hl
    exact ⟨hheld hl, htx, fun h => ⟨hs h, rfl⟩⟩
  · dsimp only
    split
    · rename_i e ho; exact hfail _ e (keep_err d l sync m _ o e ho hk)
    · rename_i ho
      have : monStep d m (.insertLog l ik hash sync none tx) o = if l = d.l₀ then { m with dirty := true } else m := by
        unfold monStep; rw [ho]
      rw [this]
      split
      · exact hsucc _ _ (keep_dirty d l sync m hk)
      · exact hsucc _ _ hk

/-- `[advLockLog;] insertLog` -/
theorem safe_lock_ins (d : Disc) (m : Mon) (l ik hash tx : Nat) (sync : Bool) (fail : Err → Prog) (succ : Nat → Prog)
    (hk : Keep d l sync m)
    (hfail : ∀ m' e, Keep d l sync m' → Safe d m' (fail e))
    (hsucc : ∀ m' a, Keep d l sync m' → Safe d m' (succ a)) :
    Safe d m (if sync = true then
        .stmt (.advLockLog l) fun o' => match o'.err with
          | some e => fail e
          | none => .stmt (.insertLog l ik hash sync none tx) fun o' => match o'.err with | some e => fail e | none => succ (headNat o')
      else .stmt (.insertLog l ik hash sync none tx) fun o' => match o'.err with | some e => fail e | none => succ (headNat o')) := by
  split
  · rename_i hsync
    refine ⟨trivial, fun o _ => ?_⟩
    dsimp only
    split
    · rename_i e ho; exact hfail _ e (keep_err d l sync m _ o e ho hk)
    · rename_i ho
      by_cases hkey : logKey l = d.K
      · have hm : monStep d m (.advLockLog l) o = { m with held := true, xact := if (m.held && !m.xact) = true then false else true } := by
          unfold monStep; rw [ho]; simp [locksK, hkey]
        rw [hm]
        refine safe_ins d _ l ik hash tx sync fail succ ?_ (fun _ => rfl) hfail hsucc
        intro hl
        obtain ⟨htx, hh, hs⟩ := hk hl
        refine ⟨htx, ?_, hs⟩
        rcases hh with ⟨hheld, hr⟩ | hr
        · left
          refine ⟨rfl, ?_⟩
          rcases hr with hx | ⟨hsp, hodd⟩
          · left; simp [hheld, hx]
          · by_cases hx : m.xact = true
            · right; exact ⟨hsp, hodd⟩
            · left; simp [hheld, hx]
        · exact Or.inr hr
      · have hm : monStep d m (.advLockLog l) o = m := by
          unfold monStep; rw [ho]; simp [locksK, hkey]
        rw [hm]
        refine safe_ins d m l ik hash tx sync fail succ hk ?_ hfail hsucc
        intro hl
        obtain ⟨_, hh, _⟩ := hk hl
        rcases hh with ⟨hheld, _⟩ | ⟨_, hk'⟩
        · exact hheld
        · exact absurd hk' hkey
  · rename_i hsync
    refine safe_ins d m l ik hash tx sync fail succ hk ?_ hfail hsucc
    intro hl
    obtain ⟨_, hh, _⟩ := hk hl
    rcases hh with ⟨hheld, _⟩ | ⟨hs, _⟩
    · exact hheld
    · exact absurd hs hsync

end Ledger.Sched

namespace Ledger.Sched

theorem safe_sendBody (d : Disc) (m : Mon) (q : Send) (fail : Err → Prog) (refuse : String → Prog) (succ : Nat → Nat → Prog)
    (hk : Keep d q.l q.sync m)
    (hfail : ∀ m' e, Keep d q.l q.sync m' → Safe d m' (fail e))
    (hrefuse : ∀ m' r, Keep d q.l q.sync m' → Safe d m' (refuse r))
    (hsucc : ∀ m' a b, Keep d q.l q.sync m' → Safe d m' (succ a b)) :
    Safe d m (sendBody q fail refuse succ) := by
  have perr : ∀ (st : Stmt) (o : Out) (e : Err), o.err = some e → Keep d q.l q.sync (monStep d m st o) :=
    fun st o e ho => keep_err d q.l q.sync m st o e ho hk
  have nosv : ∀ (st : Stmt), st.plain = true → (∀ l, st ≠ .setval l) → ∀ l, st = .setval l → d.strict = true → l ≠ d.l₀ :=
    fun st _ h l hl => absurd hl (h l)
  unfold sendBody
  dsimp only
  have hwrite : ∀ ds : List (Nat × Int), Safe d m (.stmt (.updateVolumes ds) fun o => match o.err with
      | some e => fail e
      | none => .stmt (.insertTx q.l q.ref none) fun o => match o.err with
        | some e => fail e
        | none => .stmt (.upsertAccounts q.accts) fun oa => match oa.err with
          | some e => fail e
          | none =>
            if q.sync = true then
              .stmt (.advLockLog q.l) fun o' => match o'.err with
                | some e => fail e
                | none => .stmt (.insertLog q.l q.ik q.hash q.sync none (headNat o)) fun o' => match o'.err with
                  | some e => fail e | none => succ (headNat o) (headNat o')
            else .stmt (.insertLog q.l q.ik q.hash q.sync none (headNat o)) fun o' => match o'.err with
                  | some e => fail e | none => succ (headNat o) (headNat o')) := by
    intro ds
    refine safe_plain d m _ _ _ (Keep d q.l q.sync) rfl (by intro l h; cases h) hk (perr _) hfail (fun o _ => ?_)
    refine safe_plain d m _ _ _ (Keep d q.l q.sync) rfl (by intro l h; cases h) hk (perr _) hfail (fun o _ => ?_)
    refine safe_plain d m _ _ _ (Keep d q.l q.sync) rfl (by intro l h; cases h) hk (perr _) hfail (fun oa _ => ?_)
    exact safe_lock_ins d m q.l q.ik q.hash _ q.sync fail (fun a => succ _ a) hk hfail (fun m' a h => hsucc m' _ a h)
  have hread : ∀ (reads : List Nat) (ds : List (Nat × Int)) (legs : List Leg),
      Safe d m (.stmt (.getBalances reads) fun o => match o.err with
        | some e => fail e
        | none => if fundsOk (reads.zip o.vals) legs = true then
            (.stmt (.updateVolumes ds) fun o => match o.err with
              | some e => fail e
              | none => .stmt (.insertTx q.l q.ref none) fun o => match o.err with
                | some e => fail e
                | none => .stmt (.upsertAccounts q.accts) fun oa => match oa.err with
                  | some e => fail e
                  | none =>
                    if q.sync = true then
                      .stmt (.advLockLog q.l) fun o' => match o'.err with
                        | some e => fail e
                        | none => .stmt (.insertLog q.l q.ik q.hash q.sync none (headNat o)) fun o' => match o'.err with
                          | some e => fail e | none => succ (headNat o) (headNat o')
                    else .stmt (.insertLog q.l q.ik q.hash q.sync none (headNat o)) fun o' => match o'.err with
                          | some e => fail e | none => succ (headNat o) (headNat o'))
          else refuse "insufficient-funds") := by
    intro reads ds legs
    refine safe_plain d m _ _ _ (Keep d q.l q.sync) rfl (by intro l h; cases h) hk (perr _) hfail (fun o _ => ?_)
    split
    · exact hwrite _
    · exact hrefuse _ _ hk
  split
  · exact hwrite _
  · exact hread _ _ _

end Ledger.Sched
