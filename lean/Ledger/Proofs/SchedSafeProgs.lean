import Ledger.Proofs.SchedGuard
import Ledger.Sched.Writers

/-!
# The writers' programs follow the lock discipline (`Safe`)

For every answer of every statement: `sendProg` / `revertProg` on a ledger in use with
HASH_LOGS=SYNC insert their log under `pg_advisory_xact_lock(ledger id)` inside the transaction
(discipline `logKey`, strict); `sendProg` on an initializing ledger (state tracker) and `importProg`
insert theirs under the ledger lock `hashtext('ledger:<id>')` (discipline `ledgerKey`).
-/
namespace Ledger.Sched

/-- held in a way no failed statement can take away: session-scoped, or transaction-scoped with an odd
    key (the ledger lock) inside a savepoint -/
def RH (d : Disc) (m : Mon) : Prop := m.held = true ∧ (m.xact = false ∨ (m.sp = true ∧ d.K % 2 = 1))

/-- what a write on ledger `l` with flag `sync` needs of the monitor while its (sub)transaction runs -/
def Keep (d : Disc) (l : Nat) (sync : Bool) (m : Mon) : Prop :=
  l = d.l₀ → m.tx = true ∧ (RH d m ∨ (sync = true ∧ logKey l = d.K)) ∧ (d.strict = true → sync = true)

theorem monStep_aborted (d : Disc) (m : Mon) (st : Stmt) (o : Out) (h : o.err = some .aborted) : monStep d m st o = m := by
  unfold monStep; rw [h]

theorem keep_err (d : Disc) (l : Nat) (sync : Bool) (m : Mon) (st : Stmt) (o : Out) (e : Err)
    (ho : o.err = some e) (h : Keep d l sync m) : Keep d l sync (monStep d m st o) := by
  by_cases ha : e = .aborted
  · rw [ha] at ho; rw [monStep_aborted d m st o ho]; exact h
  · rw [monStep_err d m st o e ho ha]
    intro hl
    obtain ⟨htx, hh, hs⟩ := h hl
    refine ⟨htx, ?_, hs⟩
    rcases hh with ⟨hheld, hr⟩ | hr
    · left
      refine ⟨?_, hr⟩
      rcases hr with hx | ⟨hsp, hodd⟩
      · simp [hheld, hx]
      · simp [hheld, hsp, hodd]
    · exact Or.inr hr

/-- statements the monitor ignores -/
def Stmt.plain : Stmt → Bool
  | .getBalances _ | .updateVolumes _ | .insertTx _ _ _ | .upsertAccounts _ | .readIK _ _ | .readState _
  | .readLastLog _ | .updateState _ | .revertUpdate _ _ _ | .createBlocks _ _ | .rollbackTo | .setval _ => true
  | _ => false

theorem monStep_plain (d : Disc) (m : Mon) (st : Stmt) (o : Out) (hp : st.plain = true) (ho : o.err = none) :
    monStep d m st o = m := by
  unfold monStep; rw [ho]
  cases st <;> first | rfl | (simp [Stmt.plain] at hp)

theorem monOk_plain (d : Disc) (m : Mon) (st : Stmt) (hp : st.plain = true) (hs : ∀ l, st = .setval l → d.strict = true → l ≠ d.l₀) :
    monOk d m st := by
  cases st with
  | setval l => intro h; exact hs l rfl h
  | _ => first | trivial | (simp [Stmt.plain] at hp)

/-- a plain statement followed by `match o.err with | some e => fail e | none => next o` -/
theorem safe_plain (d : Disc) (m : Mon) (st : Stmt) (next : Out → Prog) (fail : Err → Prog) (P : Mon → Prop)
    (hp : st.plain = true) (hs : ∀ l, st = .setval l → d.strict = true → l ≠ d.l₀)
    (hP : P m) (hPerr : ∀ o e, o.err = some e → P (monStep d m st o))
    (hfail : ∀ m' e, P m' → Safe d m' (fail e))
    (hnext : ∀ o, o.err = none → Safe d m (next o)) :
    Safe d m (.stmt st fun o => match o.err with | some e => fail e | none => next o) := by
  refine ⟨monOk_plain d m st hp hs, fun o _ => ?_⟩
  dsimp only
  split
  · rename_i e ho; exact hfail _ e (hPerr o e ho)
  · rename_i ho; rw [monStep_plain d m st o hp ho]; exact hnext o ho

end Ledger.Sched

namespace Ledger.Sched

theorem keep_dirty (d : Disc) (l : Nat) (sync : Bool) (m : Mon) (h : Keep d l sync m) :
    Keep d l sync { m with dirty := true } := by
  intro hl
  obtain ⟨htx, hh, hs⟩ := h hl
  exact ⟨htx, hh, hs⟩

/-- the log INSERT followed by the success continuation -/
theorem safe_ins (d : Disc) (m : Mon) (l ik hash tx : Nat) (sync : Bool) (fail : Err → Prog) (succ : Nat → Prog)
    (hk : Keep d l sync m) (hheld : l = d.l₀ → m.held = true)
    (hfail : ∀ m' e, Keep d l sync m' → Safe d m' (fail e))
    (hsucc : ∀ m' a, Keep d l sync m' → Safe d m' (succ a)) :
    Safe d m (.stmt (.insertLog l ik hash sync none tx) fun o' => match o'.err with | some e => fail e | none => succ (headNat o')) := by
  refine ⟨?_, fun o _ => ?_⟩
  · intro hl
    obtain ⟨htx, _, hs⟩ := hk hl
    exact ⟨hheld hl, htx, fun h => ⟨hs h, rfl⟩⟩
  · dsimp only
    split
    · rename_i e ho; exact hfail _ e (keep_err d l sync m _ o e ho hk)
    · rename_i ho
      have : monStep d m (.insertLog l ik hash sync none tx) o = if l = d.l₀ then { m with dirty := true } else m := by
        unfold monStep; rw [ho]
      rw [this]
      split
      · exact hsucc _ _ (keep_dirty d l sync m hk)
      · exact hsucc _ _ hk

/-- `[advLockLog;] insertLog` -/
theorem safe_lock_ins (d : Disc) (m : Mon) (l ik hash tx : Nat) (sync : Bool) (fail : Err → Prog) (succ : Nat → Prog)
    (hk : Keep d l sync m)
    (hfail : ∀ m' e, Keep d l sync m' → Safe d m' (fail e))
    (hsucc : ∀ m' a, Keep d l sync m' → Safe d m' (succ a)) :
    Safe d m (if sync = true then
        .stmt (.advLockLog l) fun o' => match o'.err with
          | some e => fail e
          | none => .stmt (.insertLog l ik hash sync none tx) fun o' => match o'.err with | some e => fail e | none => succ (headNat o')
      else .stmt (.insertLog l ik hash sync none tx) fun o' => match o'.err with | some e => fail e | none => succ (headNat o')) := by
  split
  · rename_i hsync
    refine ⟨trivial, fun o _ => ?_⟩
    dsimp only
    split
    · rename_i e ho; exact hfail _ e (keep_err d l sync m _ o e ho hk)
    · rename_i ho
      by_cases hkey : logKey l = d.K
      · have hm : monStep d m (.advLockLog l) o = { m with held := true, xact := if (m.held && !m.xact) = true then false else true } := by
          unfold monStep; rw [ho]; simp [locksK, hkey]
        rw [hm]
        refine safe_ins d _ l ik hash tx sync fail succ ?_ (fun _ => rfl) hfail hsucc
        intro hl
        obtain ⟨htx, hh, hs⟩ := hk hl
        refine ⟨htx, ?_, hs⟩
        rcases hh with ⟨hheld, hr⟩ | hr
        · left
          refine ⟨rfl, ?_⟩
          rcases hr with hx | ⟨hsp, hodd⟩
          · left; simp [hheld, hx]
          · by_cases hx : m.xact = true
            · right; exact ⟨hsp, hodd⟩
            · left; simp [hheld, hx]
        · exact Or.inr hr
      · have hm : monStep d m (.advLockLog l) o = m := by
          unfold monStep; rw [ho]; simp [locksK, hkey]
        rw [hm]
        refine safe_ins d m l ik hash tx sync fail succ hk ?_ hfail hsucc
        intro hl
        obtain ⟨_, hh, _⟩ := hk hl
        rcases hh with ⟨hheld, _⟩ | ⟨_, hk'⟩
        · exact hheld
        · exact absurd hk' hkey
  · rename_i hsync
    refine safe_ins d m l ik hash tx sync fail succ hk ?_ hfail hsucc
    intro hl
    obtain ⟨_, hh, _⟩ := hk hl
    rcases hh with ⟨hheld, _⟩ | ⟨hs, _⟩
    · exact hheld
    · exact absurd hs hsync

end Ledger.Sched

namespace Ledger.Sched

theorem safe_sendBody (d : Disc) (m : Mon) (q : Send) (fail : Err → Prog) (refuse : String → Prog) (succ : Nat → Nat → Prog)
    (hk : Keep d q.l q.sync m)
    (hfail : ∀ m' e, Keep d q.l q.sync m' → Safe d m' (fail e))
    (hrefuse : ∀ m' r, Keep d q.l q.sync m' → Safe d m' (refuse r))
    (hsucc : ∀ m' a b, Keep d q.l q.sync m' → Safe d m' (succ a b)) :
    Safe d m (sendBody q fail refuse succ) := by
  have perr : ∀ (st : Stmt) (o : Out) (e : Err), o.err = some e → Keep d q.l q.sync (monStep d m st o) :=
    fun st o e ho => keep_err d q.l q.sync m st o e ho hk
  have nosv : ∀ (st : Stmt), st.plain = true → (∀ l, st ≠ .setval l) → ∀ l, st = .setval l → d.strict = true → l ≠ d.l₀ :=
    fun st _ h l hl => absurd hl (h l)
  unfold sendBody
  dsimp only
  have hwrite : ∀ ds : List (Nat × Int), Safe d m (.stmt (.updateVolumes ds) fun o => match o.err with
      | some e => fail e
      | none => .stmt (.insertTx q.l q.ref none) fun o => match o.err with
        | some e => fail e
        | none => .stmt (.upsertAccounts q.accts) fun oa => match oa.err with
          | some e => fail e
          | none =>
            if q.sync = true then
              .stmt (.advLockLog q.l) fun o' => match o'.err with
                | some e => fail e
                | none => .stmt (.insertLog q.l q.ik q.hash q.sync none (headNat o)) fun o' => match o'.err with
                  | some e => fail e | none => succ (headNat o) (headNat o')
            else .stmt (.insertLog q.l q.ik q.hash q.sync none (headNat o)) fun o' => match o'.err with
                  | some e => fail e | none => succ (headNat o) (headNat o')) := by
    intro ds
    refine safe_plain d m _ _ _ (Keep d q.l q.sync) rfl (by intro l h; cases h) hk (perr _) hfail (fun o _ => ?_)
    refine safe_plain d m _ _ _ (Keep d q.l q.sync) rfl (by intro l h; cases h) hk (perr _) hfail (fun o _ => ?_)
    refine safe_plain d m _ _ _ (Keep d q.l q.sync) rfl (by intro l h; cases h) hk (perr _) hfail (fun oa _ => ?_)
    exact safe_lock_ins d m q.l q.ik q.hash _ q.sync fail (fun a => succ _ a) hk hfail (fun m' a h => hsucc m' _ a h)
  have hread : ∀ (reads : List Nat) (ds : List (Nat × Int)) (legs : List Leg),
      Safe d m (.stmt (.getBalances reads) fun o => match o.err with
        | some e => fail e
        | none => if fundsOk (reads.zip o.vals) legs = true then
            (.stmt (.updateVolumes ds) fun o => match o.err with
              | some e => fail e
              | none => .stmt (.insertTx q.l q.ref none) fun o => match o.err with
                | some e => fail e
                | none => .stmt (.upsertAccounts q.accts) fun oa => match oa.err with
                  | some e => fail e
                  | none =>
                    if q.sync = true then
                      .stmt (.advLockLog q.l) fun o' => match o'.err with
                        | some e => fail e
                        | none => .stmt (.insertLog q.l q.ik q.hash q.sync none (headNat o)) fun o' => match o'.err with
                          | some e => fail e | none => succ (headNat o) (headNat o')
                    else .stmt (.insertLog q.l q.ik q.hash q.sync none (headNat o)) fun o' => match o'.err with
                          | some e => fail e | none => succ (headNat o) (headNat o'))
          else refuse "insufficient-funds") := by
    intro reads ds legs
    refine safe_plain d m _ _ _ (Keep d q.l q.sync) rfl (by intro l h; cases h) hk (perr _) hfail (fun o _ => ?_)
    split
    · exact hwrite _
    · exact hrefuse _ _ hk
  split
  · exact hwrite _
  · exact hread _ _ _

end Ledger.Sched

namespace Ledger.Sched

/-- top-level writes: the key is the log lock taken by the write itself (or another ledger is written) -/
def TopOK (d : Disc) (l : Nat) (sync : Bool) : Prop := l = d.l₀ → sync = true ∧ logKey l = d.K

theorem keep_after_begin (d : Disc) (l : Nat) (sync : Bool) (m : Mon) (h : TopOK d l sync) :
    Keep d l sync { m with tx := true } := by
  intro hl
  obtain ⟨hs, hk⟩ := h hl
  exact ⟨rfl, Or.inr ⟨hs, hk⟩, fun _ => hs⟩

theorem monStep_begin (d : Disc) (m : Mon) (o : Out) (h : Possible .begin o) : monStep d m .begin o = { m with tx := true } := by
  have : o.err = none := h
  unfold monStep; rw [this]

/-- a body is safe when it is safe under `Keep` for continuations that are safe under `Keep` -/
def BodySafe (d : Disc) (l : Nat) (sync : Bool) (body : Body) : Prop :=
  ∀ m fail refuse succ, Keep d l sync m →
    (∀ m' e, Keep d l sync m' → Safe d m' (fail e)) →
    (∀ m' r, Keep d l sync m' → Safe d m' (refuse r)) →
    (∀ m' a b, Keep d l sync m' → Safe d m' (succ a b)) → Safe d m (body fail refuse succ)

theorem bodySafe_send (d : Disc) (q : Send) : BodySafe d q.l q.sync (sendBody q) :=
  fun m fail refuse succ hk hf hr hs => safe_sendBody d m q fail refuse succ hk hf hr hs

theorem safe_readIK_fin (d : Disc) (m : Mon) (l ik : Nat) (k : Out → Prog) (hk : ∀ m' o, Safe d m' (k o)) :
    Safe d m (.stmt (.readIK l ik) k) :=
  ⟨trivial, fun o _ => hk _ o⟩

theorem safe_recorded (d : Disc) (m : Mon) (recheck : Bool) (l ik hash : Nat) (fin : Resp → Prog) (own : Resp)
    (hfin : ∀ m' r, Safe d m' (fin r)) : Safe d m (recordedOutcome recheck l ik hash fin own) := by
  unfold recordedOutcome
  split
  · exact hfin _ _
  · refine safe_readIK_fin d m l ik _ (fun m' o => ?_)
    split <;> exact hfin _ _

theorem safe_retry_top (d : Disc) (recheck : Bool) (l ik hash : Nat) (sync : Bool) (body : Body) (fin : Resp → Prog)
    (htop : TopOK d l sync) (hb : BodySafe d l sync body) (hfin : ∀ m' r, Safe d m' (fin r)) :
    ∀ fuel m, Safe d m (forgeLogRetry recheck topTx l ik hash body fin fuel) := by
  intro fuel
  induction fuel with
  | zero => intro m; exact hfin _ _
  | succ n ih =>
    intro m
    unfold forgeLogRetry
    dsimp only [topTx]
    refine ⟨trivial, fun o ho => ?_⟩
    rw [monStep_begin d m o ho]
    dsimp only
    apply hb _ _ _ _ (keep_after_begin d l sync m htop)
    · intro m' e _
      (try dsimp only)
      split
      · exact hfin _ _
      · refine ⟨trivial, fun o' _ => ?_⟩
        dsimp only [topTx]
        split
        · exact ih _
        · exact safe_readIK_fin d _ l ik _ (fun m'' o'' => by split <;> exact hfin _ _)
        · exact safe_recorded d _ recheck l ik hash fin _ hfin
    · intro m' r _
      exact ⟨trivial, fun _ _ => safe_recorded d _ recheck l ik hash fin _ hfin⟩
    · intro m' a b _
      exact ⟨trivial, fun _ _ => hfin _ _⟩

theorem safe_forgeLog_top (d : Disc) (recheck : Bool) (l ik hash : Nat) (sync : Bool) (body : Body) (fin : Resp → Prog)
    (htop : TopOK d l sync) (hb : BodySafe d l sync body) (hfin : ∀ m' r, Safe d m' (fin r)) (m : Mon) :
    Safe d m (forgeLogG recheck topTx l ik hash body fin) := by
  have hrun : ∀ m', Keep d l sync m' → Safe d m' (body
      (fun e =>
        if e = .uniqueTxId then fin { err := "panic" } else
        .stmt topTx.rollback_ fun _ =>
        if retryable e then forgeLogRetry recheck topTx l ik hash body fin retryFuel
        else recordedOutcome recheck l ik hash fin { err := errName e })
      (fun r => .stmt topTx.rollback_ fun _ => recordedOutcome recheck l ik hash fin { err := r })
      (fun tx log => .stmt topTx.commit_ fun _ => fin { tx := tx, log := log })) := by
    intro m' hk
    apply hb _ _ _ _ hk
    · intro m'' e _
      (try dsimp only)
      split
      · exact hfin _ _
      · refine ⟨trivial, fun o' _ => ?_⟩
        dsimp only
        split
        · exact safe_retry_top d recheck l ik hash sync body fin htop hb hfin _ _
        · exact safe_recorded d _ recheck l ik hash fin _ hfin
    · intro m'' r _
      exact ⟨trivial, fun _ _ => safe_recorded d _ recheck l ik hash fin _ hfin⟩
    · intro m'' a b _
      exact ⟨trivial, fun _ _ => hfin _ _⟩
  unfold forgeLogG
  dsimp only [topTx] at hrun ⊢
  refine ⟨trivial, fun o ho => ?_⟩
  rw [monStep_begin d m o ho]
  have hk := keep_after_begin d l sync m htop
  dsimp only
  split
  · exact hrun _ hk
  · refine ⟨trivial, fun o' _ => ?_⟩
    have hk' : Keep d l sync (monStep d { m with tx := true } (.readIK l ik) o') := by
      cases ho' : o'.err with
      | none => rw [monStep_plain d _ _ o' rfl ho']; exact hk
      | some e => exact keep_err d l sync _ _ o' e ho' hk
    dsimp only
    split
    · exact ⟨trivial, fun _ _ => hfin _ _⟩
    · exact hrun _ hk'

/-- a write on a ledger in use (the state tracker passes the request through) -/
theorem safe_sendProg_inUse (d : Disc) (q : Send) (htop : TopOK d q.l q.sync) (m : Mon) :
    Safe d m (sendProg q true) := by
  unfold sendProg handleState
  simp only [if_true]
  exact safe_forgeLog_top d true q.l q.ik q.hash q.sync (sendBody q) .done htop (bodySafe_send d q) (fun _ _ => trivial) m

end Ledger.Sched
