import Ledger.Proofs.SqlRevert

/-!
# UPDATE statements on `transactions`, in general

`RevertTransaction` (date from `transaction_date()`), `UpdateTransactionMetadata … AT`,
`DeleteTransactionMetadata … AT`: the UPDATE inside the statement's CTE, for ANY contents of `transactions`
satisfying the storage invariants (`TxTblState`), through the generic UPDATE theorem of
`Ledger/Proofs/SqlUpdate.lean`. Restriction: the table carries no UPDATE trigger (ledgers without
TRANSACTION_METADATA_HISTORY); the SELECT part of the statements is not covered here.
-/

open Ledger Ledger.Sql Ledger.Generated

namespace Ledger.Sql

/-- the bucket's `transaction_date()` exists and has already been called in this SQL transaction (it answered `d`) -/
def TxDateSet (b : String) (d : Int) (s : St) : Prop :=
  s.w.funcs.any (·.1 == b ++ "." ++ "transaction_date") = true ∧ (s.w.session s.sid).txDate = some d

theorem TxDateSet.withTable {b : String} {d : Int} (s : St) (t : Table) (h : TxDateSet b d s) : TxDateSet b d (s.withTable t) := h
theorem TxDateSet.addQ {b : String} {d : Int} (s : St) (q : List PendingTrig) (h : TxDateSet b d s) : TxDateSet b d (s.addQ q) := h

/-- `<bucket>.transaction_date()` once the transaction's date is set -/
theorem exec_transaction_date (m : Nat) (te : TypeEnv) (env : Env) (b : String) (d : Int) (s : St)
    (hbs : (b.isEmpty || b == "public" || b == "pg_catalog") = false) (h : TxDateSet b d s) :
    (evalExpr (cbs (m + 2)) te env (Expr.call b "transaction_date" [])).exec s = (.ok (.ts d), s) := by
  have hbe : b.isEmpty = false := by
    cases hb : b.isEmpty <;> simp_all
  rw [evalExpr_call _ _ _ _ _ _ (by decide)]
  simp only [evalExpr, evalExprs, exec_bind, exec_pure, hbs, Bool.false_eq_true, if_false, cbs]
  have hnp : ¬ (b = "public" ∨ b = "pg_catalog") := by simpa [hbe] using hbs
  rw [callFunc]
  simp [hnp, exec_bind, qualify, hbe, h.1, h.2]


def txScope (x : TxR) (src : Option (String × Nat)) : Scope :=
  { alias := "transactions", cols := txCols, vals := txVals x, src := src }

/-- the semantic hypotheses of the generic UPDATE theorem for any `UPDATE transactions … RETURNING *`, from the
    meaning of its WHERE clause and SET list on typed rows -/
theorem txUpdSem (env : Env) (b : String) (trigs : List TriggerDef) (nr : Nat) (sets : List SetItem) (wher : Expr)
    (gR : TxR → Bool) (fR : TxR → TxR) (Px : TxR → Prop) (Sok : St → Prop)
    (hnb : trigs.filter (fun tr => tr.timing == .before && tr.event == .update) = [])
    (hna : trigs.filter (fun tr => tr.timing == .after && tr.event == .update) = [])
    (hguard : ∀ x, Px x → ∀ m s src, Sok s → (whereHolds (m + 2) env (some wher) [txScope x src]).exec s = (.ok (gR x), s))
    (hsets : ∀ x, Px x → gR x = true → ∀ m rows s src, Sok s →
      (applySets (m + 3) { env with locals := [txScope x src] } ((txT b trigs nr).withRows rows) (txVals x) sets).exec s =
        (.ok (txVals (fR x)), s)) :
    UpdSem env (txT b trigs nr) "" "transactions" sets (some wher) [SelItem.star ""]
      (txG gR) (txF fR) (starAcc fR) (fun _ => []) (fun r => ∃ x, r.vals = txVals x ∧ Px x) Sok where
  hguard := by
    intro r ⟨x, hx, hpx⟩ m s hS
    have := hguard x hpx m s (some ((txT b trigs nr).name, r.rid)) hS
    simp only [rowScopeOf, hx, txG_txVals, txT_colNames]
    exact this
  hsets := by
    intro r ⟨x, hx, hpx⟩ hg m rows s hS
    rw [hx, txG_txVals] at hg
    have := hsets x hpx hg m rows s (some ((txT b trigs nr).name, r.rid)) hS
    simp only [rowScopeOf, hx, txF_txVals, txT_colNames]
    exact this
  hchecks := by
    intro r ⟨x, hx, _⟩ _ rows s _
    rw [hx, txF_txVals]
    exact exec_checkConstraints_tx b trigs nr rows _ s
  hfks := by
    intro r _ _ rows s _
    simp [checkForeignKeys, txT, Table.withRows, Schema.tbl_transactions, checkForeignKeysOf]
  hbefore := hnb
  hafter := by
    intro r _ _ m rows s _
    rw [exec_queueAfter_none _ _ _ _ _ _ _ (by simpa [txT, Table.withRows] using hna)]
    simp
  hacc := by
    intro r _ _ m rows s a _
    exact exec_accReturning_star_tx (m + 1) env b trigs nr rows "" _ a s

theorem castTo_ts_ts (te : TypeEnv) (d : Int) : castTo te (SqlType.mk "" "timestamp" "" false) (.ts d) = .ok (.ts d) := by
  simp [castTo, castNonArray, castScalar, isIntType]
  rfl

/-- `SET reverted_at = <bucket>.transaction_date(), updated_at = <bucket>.transaction_date()` on a typed row -/
theorem exec_applySets_revert (m : Nat) (env : Env) (b : String) (trigs : List TriggerDef) (nr : Nat) (rows : List Ver)
    (x : TxR) (d : Int) (s : St) (hbs : (b.isEmpty || b == "public" || b == "pg_catalog") = false) (h : TxDateSet b d s) :
    (applySets (m + 3) env ((txT b trigs nr).withRows rows) (txVals x)
        [SetItem.mk "reverted_at" (Expr.call b "transaction_date" []), SetItem.mk "updated_at" (Expr.call b "transaction_date" [])]).exec s =
      (.ok (txVals (revF d x)), s) := by
  rw [applySets]
  have hc := fun env' => exec_transaction_date m s.w.types env' b d s hbs h
  simp [exec_bind, txT, Table.withRows, Schema.tbl_transactions, hc, castTo_ts_ts, txVals, List.lookup, optTs, revF]


/-! ### the statements -/

open Ledger.Generated.WriteSql

/-- result of `UPDATE transactions … RETURNING *` with guard `gR` and effect `fR` -/
def txUpdResult (lv : View) (rows : List Ver) (gR : TxR → Bool) (fR : TxR → TxR) : DmlResult :=
  { rel := { cols := txCols,
             rows := (((rows.filter (fun r => r.visible lv)).reverse).filter (fun r => txG gR r.vals)).map (fun r => txF fR r.vals) },
    affected := (((rows.filter (fun r => r.visible lv)).reverse).filter (fun r => txG gR r.vals)).length }

/-- `RevertTransaction` (date from `transaction_date()`): the UPDATE of its CTE -/
theorem revert_update_bridge (n : Nat) (env : Env) (b l : String) (id : Nat) (txid : Int) (d : Int)
    (hbs : (b.isEmpty || b == "public" || b == "pg_catalog") = false)
    (trigs : List TriggerDef) (nr : Nat) (rows : List Ver) (s : St) (hs : TxTblState s b trigs nr rows) (hd : TxDateSet b d s)
    (hnb : trigs.filter (fun tr => tr.timing == .before && tr.event == .update) = [])
    (hna : trigs.filter (fun tr => tr.timing == .after && tr.event == .update) = []) :
    ∃ rows', (((P.revertTransaction b l id txid).flatMap cteStmts).mapM (execStmt (n + 7) env)).exec s =
        (.ok [txUpdResult (latestView s.w s.xid) rows (revG l txid) (revF d)], s.withTable ((txT b trigs nr).withRows rows')) ∧
      (∀ rid, visLookup (latestView s.w s.xid) rows' rid =
        (visLookup (latestView s.w s.xid) rows rid).map (fun v => if txG (revG l txid) v then txF (revF d) v else v)) ∧
      TxInv (latestView s.w s.xid) rows' ∧ RidInj (latestView s.w s.xid) rows' := by
  have hbe : b.isEmpty = false := by cases hb : b.isEmpty <;> simp_all
  have hstmt : (P.revertTransaction b l id txid).flatMap cteStmts =
      [Stmt.update [] b "transactions" "" [SetItem.mk "reverted_at" (Expr.call b "transaction_date" []),
        SetItem.mk "updated_at" (Expr.call b "transaction_date" [])] [] (some (revWhere l txid)) [SelItem.star ""]] := rfl
  obtain ⟨rows', h1, h2, h3, h4⟩ := tx_update_exec n env b hbe trigs nr rows s hs _ _ (revG l txid) (revF d)
    (fun x => ⟨rfl, rfl, rfl⟩) (fun r => ∃ x, r.vals = txVals x ∧ True) (fun _ ⟨x, h, _⟩ => ⟨x, h⟩)
    (fun r hr _ => by obtain ⟨x, hx⟩ := hs.inv.typed r hr; exact ⟨x, hx, trivial⟩)
    (TxDateSet b d) (fun s t h => h.withTable s t) (fun s q h => h.addQ s q) hd
    (txUpdSem env b trigs nr _ (revWhere l txid) (revG l txid) (revF d) (fun _ => True) (TxDateSet b d) hnb hna
      (fun x _ m s src _ => exec_whereHolds_revert (m + 1) env "transactions" l txid x src s)
      (fun x _ _ m rows s src hS => exec_applySets_revert m _ b trigs nr rows x d s hbs hS))
  refine ⟨rows', ?_, h2, h3, h4⟩
  rw [hstmt]
  simp only [exec_mapM_cons, exec_mapM_nil, h1, txUpdResult]


/-! #### UpdateTransactionMetadata -/

def umG (l : String) (txid : Int) (mj : JV) (x : TxR) : Bool := decide (x.id = txid ∧ x.ledger = l) && !jsonContains x.metadata mj
def umF (mj : JV) (T : Int) (x : TxR) : TxR := { x with metadata := jsonConcat x.metadata mj, updatedAt := T }

def umWhere (l : String) (txid : Int) (metadataJson : String) : Expr :=
  Expr.binop BinOp.and (Expr.binop BinOp.and (Expr.binop BinOp.eq (Expr.col "" "id") (Expr.int txid)) (Expr.binop BinOp.eq (Expr.col "" "ledger") (Expr.str l)))
    (Expr.unop UnOp.not (Expr.binop BinOp.contains (Expr.col "" "metadata") (Expr.str metadataJson)))

theorem lookup_txScope (env : Env) (x : TxR) (src : Option (String × Nat)) (c : String) (v : Value)
    (h : lookupIn txCols (txVals x) c = some v) :
    lookupColumn { env with locals := [txScope x src] } "" c = .ok v := lookup_tx env "transactions" x src c v h

theorem exec_whereHolds_um (m : Nat) (env : Env) (l : String) (txid : Int) (metadataJson : String) (mj : JV)
    (hj : JV.parse metadataJson = .ok mj) (x : TxR) (src : Option (String × Nat)) (s : St) :
    (whereHolds (m + 1) env (some (umWhere l txid metadataJson)) [txScope x src]).exec s = (.ok (umG l txid mj x), s) := by
  rw [whereHolds]
  have c1 := lookup_txScope env x src "id" (.int x.id) rfl
  have c2 := lookup_txScope env x src "ledger" (.text x.ledger) rfl
  have c3 := lookup_txScope env x src "metadata" (.json x.metadata) rfl
  have hc : evalBinop .contains (.json x.metadata) (.text metadataJson) = .ok (.bool (jsonContains x.metadata mj)) := by
    simp [evalBinop, jsonOfValue, hj, liftStr]; rfl
  simp only [umWhere, evalExpr, exec_bind, exec_typeEnv, c1, c2, c3, exec_liftR_ok, evalBinop_eq_int, evalBinop_eq_text, truth_bool, hc, exec_pure]
  by_cases h1 : x.id = txid <;> by_cases h2 : x.ledger = l <;> cases h3 : jsonContains x.metadata mj <;>
    simp [h1, h2, h3, umG, ofTruth, and3, not3, truth_bool, exec_bind, evalBinop_eq_text, hc]

theorem castTo_jsonb_json (te : TypeEnv) (j : JV) : castTo te (SqlType.mk "" "jsonb" "" false) (.json j) = .ok (.json j) := by
  simp [castTo, castNonArray, castScalar, isIntType]
  rfl

theorem exec_applySets_um (m : Nat) (env : Env) (b : String) (trigs : List TriggerDef) (nr : Nat) (rows : List Ver)
    (x : TxR) (metadataJson atTs : String) (mj : JV) (T : Int) (hj : JV.parse metadataJson = .ok mj) (hT : tsParse atTs = .ok T)
    (src : Option (String × Nat)) (s : St) :
    (applySets (m + 1) { env with locals := [txScope x src] } ((txT b trigs nr).withRows rows) (txVals x)
        [SetItem.mk "metadata" (Expr.binop BinOp.concat (Expr.col "" "metadata") (Expr.str metadataJson)),
         SetItem.mk "updated_at" (Expr.str atTs)]).exec s =
      (.ok (txVals (umF mj T x)), s) := by
  rw [applySets]
  have c3 := lookup_txScope env x src "metadata" (.json x.metadata) rfl
  have hc : evalBinop .concat (.json x.metadata) (.text metadataJson) = .ok (.json (jsonConcat x.metadata mj)) := by
    simp [evalBinop, Value.isNull, hj, liftStr]; rfl
  simp [exec_bind, txT, Table.withRows, Schema.tbl_transactions, evalExpr, c3, hc, castTo_jsonb_json, castTo_ts_text _ atTs T hT,
    txVals, List.lookup, umF]

/-- `UpdateTransactionMetadata … AT`: the UPDATE of its CTE -/
theorem updateTxMetadataAt_update_bridge (n : Nat) (env : Env) (b l : String) (id : Nat) (txid : Int) (metadataJson atTs : String)
    (mj : JV) (T : Int) (hb : b.isEmpty = false) (hj : JV.parse metadataJson = .ok mj) (hT : tsParse atTs = .ok T)
    (trigs : List TriggerDef) (nr : Nat) (rows : List Ver) (s : St) (hs : TxTblState s b trigs nr rows)
    (hnb : trigs.filter (fun tr => tr.timing == .before && tr.event == .update) = [])
    (hna : trigs.filter (fun tr => tr.timing == .after && tr.event == .update) = []) :
    ∃ rows', (((P.updateTransactionMetadataAt b l id txid metadataJson atTs).flatMap cteStmts).mapM (execStmt (n + 7) env)).exec s =
        (.ok [txUpdResult (latestView s.w s.xid) rows (umG l txid mj) (umF mj T)], s.withTable ((txT b trigs nr).withRows rows')) ∧
      (∀ rid, visLookup (latestView s.w s.xid) rows' rid =
        (visLookup (latestView s.w s.xid) rows rid).map (fun v => if txG (umG l txid mj) v then txF (umF mj T) v else v)) ∧
      TxInv (latestView s.w s.xid) rows' ∧ RidInj (latestView s.w s.xid) rows' := by
  have hstmt : (P.updateTransactionMetadataAt b l id txid metadataJson atTs).flatMap cteStmts =
      [Stmt.update [] b "transactions" "" [SetItem.mk "metadata" (Expr.binop BinOp.concat (Expr.col "" "metadata") (Expr.str metadataJson)),
        SetItem.mk "updated_at" (Expr.str atTs)] [] (some (umWhere l txid metadataJson)) [SelItem.star ""]] := rfl
  obtain ⟨rows', h1, h2, h3, h4⟩ := tx_update_exec n env b hb trigs nr rows s hs _ _ (umG l txid mj) (umF mj T)
    (fun x => ⟨rfl, rfl, rfl⟩) (fun r => ∃ x, r.vals = txVals x ∧ True) (fun _ ⟨x, h, _⟩ => ⟨x, h⟩)
    (fun r hr _ => by obtain ⟨x, hx⟩ := hs.inv.typed r hr; exact ⟨x, hx, trivial⟩)
    (fun _ => True) (fun _ _ _ => trivial) (fun _ _ _ => trivial) trivial
    (txUpdSem env b trigs nr _ (umWhere l txid metadataJson) (umG l txid mj) (umF mj T) (fun _ => True) (fun _ => True) hnb hna
      (fun x _ m s src _ => exec_whereHolds_um (m + 1) env l txid metadataJson mj hj x src s)
      (fun x _ _ m rows s src _ => exec_applySets_um (m + 2) env b trigs nr rows x metadataJson atTs mj T hj hT src s))
  refine ⟨rows', ?_, h2, h3, h4⟩
  rw [hstmt]
  simp only [exec_mapM_cons, exec_mapM_nil, h1, txUpdResult]


/-! #### DeleteTransactionMetadata (the metadata of every row is a JSON object) -/

def metaErase (key : String) : JV → JV
  | .obj kvs => .obj (jobjErase key kvs)
  | j => j

def dmG (l : String) (txid : Int) (key : String) (x : TxR) : Bool :=
  decide (x.id = txid ∧ x.ledger = l) && (jsonGet x.metadata (.text key)).isSome
def dmF (key : String) (T : Int) (x : TxR) : TxR := { x with metadata := metaErase key x.metadata, updatedAt := T }

def dmWhere (l : String) (txid : Int) (key : String) : Expr :=
  Expr.binop BinOp.and (Expr.binop BinOp.and (Expr.binop BinOp.eq (Expr.col "" "id") (Expr.int txid)) (Expr.binop BinOp.eq (Expr.col "" "ledger") (Expr.str l)))
    (Expr.isNull (Expr.binop BinOp.jsonGet (Expr.col "" "metadata") (Expr.str key)) true)

theorem exec_whereHolds_dm (m : Nat) (env : Env) (l : String) (txid : Int) (key : String) (x : TxR) (src : Option (String × Nat)) (s : St) :
    (whereHolds (m + 1) env (some (dmWhere l txid key)) [txScope x src]).exec s = (.ok (dmG l txid key x), s) := by
  rw [whereHolds]
  have c1 := lookup_txScope env x src "id" (.int x.id) rfl
  have c2 := lookup_txScope env x src "ledger" (.text x.ledger) rfl
  have c3 := lookup_txScope env x src "metadata" (.json x.metadata) rfl
  have hc : evalBinop .jsonGet (.json x.metadata) (.text key) =
      .ok (match jsonGet x.metadata (.text key) with | some v => .json v | none => .null) := by
    simp [evalBinop, jsonOfValue, Value.isNull]; rfl
  simp only [dmWhere, evalExpr, exec_bind, exec_typeEnv, c1, c2, c3, exec_liftR_ok, evalBinop_eq_int, evalBinop_eq_text, truth_bool, hc, exec_pure]
  by_cases h1 : x.id = txid <;> by_cases h2 : x.ledger = l <;> cases h3 : jsonGet x.metadata (.text key) <;>
    simp [h1, h2, h3, dmG, ofTruth, and3, truth_bool, exec_bind, evalBinop_eq_text, hc]

theorem exec_applySets_dm (m : Nat) (env : Env) (b : String) (trigs : List TriggerDef) (nr : Nat) (rows : List Ver)
    (x : TxR) (kvs : List JKV) (hobj : x.metadata = .obj kvs) (key atTs : String) (T : Int) (hT : tsParse atTs = .ok T)
    (src : Option (String × Nat)) (s : St) :
    (applySets (m + 1) { env with locals := [txScope x src] } ((txT b trigs nr).withRows rows) (txVals x)
        [SetItem.mk "metadata" (Expr.binop BinOp.sub (Expr.col "" "metadata") (Expr.str key)),
         SetItem.mk "updated_at" (Expr.str atTs)]).exec s =
      (.ok (txVals (dmF key T x)), s) := by
  rw [applySets]
  have c3 := lookup_txScope env x src "metadata" (.json x.metadata) rfl
  have hc : evalBinop .sub (.json x.metadata) (.text key) = .ok (.json (metaErase key x.metadata)) := by
    rw [hobj]; simp [evalBinop, Value.isNull, metaErase]; rfl
  simp [exec_bind, txT, Table.withRows, Schema.tbl_transactions, evalExpr, c3, hc, castTo_jsonb_json, castTo_ts_text _ atTs T hT,
    txVals, List.lookup, dmF]

/-- `DeleteTransactionMetadata … AT`: the UPDATE of its CTE -/
theorem deleteTxMetadataAt_update_bridge (n : Nat) (env : Env) (b l : String) (id : Nat) (txid : Int) (key atTs : String)
    (T : Int) (hb : b.isEmpty = false) (hT : tsParse atTs = .ok T)
    (trigs : List TriggerDef) (nr : Nat) (rows : List Ver) (s : St) (hs : TxTblState s b trigs nr rows)
    (hobj : ∀ r ∈ rows, ∀ x, r.vals = txVals x → ∃ kvs, x.metadata = .obj kvs)
    (hnb : trigs.filter (fun tr => tr.timing == .before && tr.event == .update) = [])
    (hna : trigs.filter (fun tr => tr.timing == .after && tr.event == .update) = []) :
    ∃ rows', (((P.deleteTransactionMetadataAt b l id txid key atTs).flatMap cteStmts).mapM (execStmt (n + 7) env)).exec s =
        (.ok [txUpdResult (latestView s.w s.xid) rows (dmG l txid key) (dmF key T)], s.withTable ((txT b trigs nr).withRows rows')) ∧
      (∀ rid, visLookup (latestView s.w s.xid) rows' rid =
        (visLookup (latestView s.w s.xid) rows rid).map (fun v => if txG (dmG l txid key) v then txF (dmF key T) v else v)) ∧
      TxInv (latestView s.w s.xid) rows' ∧ RidInj (latestView s.w s.xid) rows' := by
  have hstmt : (P.deleteTransactionMetadataAt b l id txid key atTs).flatMap cteStmts =
      [Stmt.update [] b "transactions" "" [SetItem.mk "metadata" (Expr.binop BinOp.sub (Expr.col "" "metadata") (Expr.str key)),
        SetItem.mk "updated_at" (Expr.str atTs)] [] (some (dmWhere l txid key)) [SelItem.star ""]] := rfl
  obtain ⟨rows', h1, h2, h3, h4⟩ := tx_update_exec n env b hb trigs nr rows s hs _ _ (dmG l txid key) (dmF key T)
    (fun x => ⟨rfl, rfl, rfl⟩) (fun r => ∃ x, r.vals = txVals x ∧ ∃ kvs, x.metadata = .obj kvs) (fun _ ⟨x, h, _⟩ => ⟨x, h⟩)
    (fun r hr _ => by obtain ⟨x, hx⟩ := hs.inv.typed r hr; exact ⟨x, hx, hobj r hr x hx⟩)
    (fun _ => True) (fun _ _ _ => trivial) (fun _ _ _ => trivial) trivial
    (txUpdSem env b trigs nr _ (dmWhere l txid key) (dmG l txid key) (dmF key T) (fun x => ∃ kvs, x.metadata = .obj kvs) (fun _ => True) hnb hna
      (fun x _ m s src _ => exec_whereHolds_dm (m + 1) env l txid key x src s)
      (fun x ⟨kvs, hk⟩ _ m rows s src _ => exec_applySets_dm (m + 2) env b trigs nr rows x kvs hk key atTs T hT src s))
  refine ⟨rows', ?_, h2, h3, h4⟩
  rw [hstmt]
  simp only [exec_mapM_cons, exec_mapM_nil, h1, txUpdResult]

end Ledger.Sql

namespace Ledger.Sql

/-- reading a `visLookup` result on typed rows: guard and effect act on the decoded row -/
theorem tx_row_effect (gR : TxR → Bool) (fR : TxR → TxR) (x : TxR) :
    (if txG gR (txVals x) then txF fR (txVals x) else txVals x) = txVals (if gR x then fR x else x) := by
  simp only [txG_txVals, txF_txVals]
  cases gR x <;> rfl

end Ledger.Sql
