import Ledger.Proofs.SqlLock

/-!
# Nested commands: `withNewCid`, `withSearchPath`, PL/pgSQL statements, row triggers
-/
namespace Ledger.Sql

/-- the state in which a nested command runs: a fresh command id -/
def St.enter (s : St) : St := { s with cid := s.nextCid, nextCid := s.nextCid + 1 }
def St.withCid (s : St) (c : Nat) : St := { s with cid := c }
def St.withSP (s : St) (sp : String) : St := { s with searchPath := sp }

@[simp] theorem enter_w (s : St) : s.enter.w = s.w := rfl
@[simp] theorem enter_xid (s : St) : s.enter.xid = s.xid := rfl
@[simp] theorem enter_cid (s : St) : s.enter.cid = s.nextCid := rfl
@[simp] theorem enter_nextCid (s : St) : s.enter.nextCid = s.nextCid + 1 := rfl
@[simp] theorem enter_sp (s : St) : s.enter.searchPath = s.searchPath := rfl
@[simp] theorem withCid_w (s : St) (c : Nat) : (s.withCid c).w = s.w := rfl
@[simp] theorem withCid_xid (s : St) (c : Nat) : (s.withCid c).xid = s.xid := rfl
@[simp] theorem withCid_cid (s : St) (c : Nat) : (s.withCid c).cid = c := rfl
@[simp] theorem withCid_nextCid (s : St) (c : Nat) : (s.withCid c).nextCid = s.nextCid := rfl
@[simp] theorem withSP_w (s : St) (sp : String) : (s.withSP sp).w = s.w := rfl
@[simp] theorem withSP_xid (s : St) (sp : String) : (s.withSP sp).xid = s.xid := rfl
@[simp] theorem withSP_cid (s : St) (sp : String) : (s.withSP sp).cid = s.cid := rfl
@[simp] theorem withSP_nextCid (s : St) (sp : String) : (s.withSP sp).nextCid = s.nextCid := rfl
@[simp] theorem withSP_sp (s : St) (sp : String) : (s.withSP sp).searchPath = sp := rfl

theorem exec_withNewCid {α : Type} (act : M α) (s s2 : St) (r : α) (h : act.exec s.enter = (.ok r, s2)) :
    (withNewCid act).exec s = (.ok r, s2.withCid s.cid) := by
  simp only [withNewCid, exec_bind, exec_get, exec_set, exec_modify, exec_pure]
  show (match act.exec s.enter with | (.ok a, s') => _ | (.error e, s') => _) = _
  rw [h]
  rfl

theorem exec_withSearchPath {α : Type} (sp : String) (act : M α) (s s2 : St) (r : α) (h : act.exec (s.withSP sp) = (.ok r, s2)) :
    (withSearchPath sp act).exec s = (.ok r, s2.withSP s.searchPath) := by
  simp only [withSearchPath, exec_bind, exec_get, exec_modify, exec_pure]
  show (match act.exec (s.withSP sp) with | (.ok a, s') => _ | (.error e, s') => _) = _
  rw [h]
  rfl

theorem TxState.enter {s : St} (h : TxState s) (hn : s.nextCid < 1000000000) : TxState s.enter :=
  ⟨h.solo, h.xid, hn, h.snap, h.noEpq, h.names⟩
theorem TxState.withCid {s : St} (h : TxState s) (c : Nat) (hc : c < 1000000000) : TxState (s.withCid c) :=
  ⟨h.solo, h.xid, hc, h.snap, h.noEpq, h.names⟩
theorem TxState.withSP {s : St} (h : TxState s) (sp : String) : TxState (s.withSP sp) :=
  ⟨h.solo, h.xid, h.cid, h.snap, h.noEpq, h.names⟩

/-- the state with an empty AFTER-trigger queue -/
def St.clearQ (s : St) : St := { s with afterQ := [] }

@[simp] theorem clearQ_w (s : St) : s.clearQ.w = s.w := rfl
@[simp] theorem clearQ_xid (s : St) : s.clearQ.xid = s.xid := rfl
@[simp] theorem clearQ_cid (s : St) : s.clearQ.cid = s.cid := rfl

/-- `runStmt` around a statement that queues no AFTER trigger and only writes one table -/
theorem exec_runStmt_noAfter (n : Nat) (env : Env) (stmt : Stmt) (s : St) (r : DmlResult) (t : Table)
    (h : (execStmt (n + 1) env stmt).exec s.clearQ = (.ok r, s.clearQ.withTable t)) :
    (runStmt (n + 2) env stmt).exec s = (.ok r, s.withTable t) := by
  rw [runStmt]
  simp only [exec_bind, exec_get, exec_modify, exec_pure]
  have h' : (execStmt (n + 1) env stmt).exec { s with afterQ := [] } = (.ok r, s.clearQ.withTable t) := h
  rw [h']
  simp only
  rw [drainAfter]
  simp [exec_bind, St.withTable, St.clearQ]

/-- `runStmt` around a statement that queues no AFTER trigger -/
theorem exec_runStmt_noAfter' (n : Nat) (env : Env) (stmt : Stmt) (s s' : St) (r : DmlResult)
    (h : (execStmt (n + 1) env stmt).exec s.clearQ = (.ok r, s')) (hq : s'.afterQ = []) :
    (runStmt (n + 2) env stmt).exec s = (.ok r, { s' with afterQ := s.afterQ }) := by
  rw [runStmt]
  simp only [exec_bind, exec_get, exec_modify, exec_pure]
  have h' : (execStmt (n + 1) env stmt).exec { s with afterQ := [] } = (.ok r, s') := h
  rw [h']
  simp only
  rw [drainAfter]
  simp [exec_bind, hq]

theorem TxState.clearQ {s : St} (h : TxState s) : TxState s.clearQ :=
  ⟨h.solo, h.xid, h.cid, h.snap, h.noEpq, h.names⟩

end Ledger.Sql
