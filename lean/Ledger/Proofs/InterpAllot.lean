import Ledger.Proofs.InterpStmt
import Ledger.Proofs.InterpAllotBase

/-!
Allotments (F2), sources: `exact_sim` — one source asked for an exact amount
(`takeFromSource` / `tryTakingExact`), the step an allotment source repeats per item.
-/
namespace Ledger.Interp
open Ledger.Machine

/-! ## One source, an exact amount -/

/-- `evalSource` + `takeFromSource amt` against `tryTakingExact amt`: both fail (insufficient
    funds), or the machine's funding and the interpreter's pushed senders are the same units
    and the balances stay related. -/
theorem exact_sim {env ienv : Env} (heq : EnvEq env ienv) (henv : EnvOK env)
    {P : List (String × String)} {c : String} (s : Source) (hws : srcWf env c s = true)
    (hin : LeavesIn P env c s.neededAccts) (b : Balances) (ist : IState) (amt : Int)
    (hamt : 0 ≤ amt) (hc : ist.asset = c) (hbwf : b.WF) (hrel : Rel P b ist.bal) :
    ∃ f b1, evalSource Cfg.fixed env c s b = .ok (f, b1) ∧
      ((∃ e e', takeFromSource env s.fallback f (c, some amt) b1 = .error e ∧
          tryExact ienv s amt ist = .error e') ∨
       (∃ r b2 ist1, takeFromSource env s.fallback f (c, some amt) b1 = .ok (r, b2) ∧
          r.asset = c ∧ partsNonneg r.parts ∧ total r.parts = amt ∧
          tryExact ienv s amt ist = .ok ist1 ∧ Pushed c ist ist1 (units r.parts) ∧
          (∀ x ∈ units r.parts, validAccount x = true) ∧ Rel P b2 ist1.bal ∧ b2.WF)) := by
  obtain ⟨f, b1, h1, h2, h3, hval, sent, ist1, h4, h5, h6⟩ :=
    src_sim heq henv s hws hin b ist amt hamt hc hbwf hrel.hasP (fun _ => hrel)
  have hok := (evalSource_ok Cfg.fixed env c s b f b1 h1).1
  have hn := hok.nonneg f (by simp)
  have hlen := total_eq_length f.parts hn
  refine ⟨f, b1, h1, ?_⟩
  have key : (∃ e, takeFromSource env s.fallback f (c, some amt) b1 = .error e ∧ sent ≠ amt) ∨
      (∃ r b2, takeFromSource env s.fallback f (c, some amt) b1 = .ok (r, b2) ∧ r.asset = c ∧
        units r.parts = takeExt amt.toNat (units f.parts) (fbOf env s.fallback) ∧ sent = amt) := by
    cases hfb : s.fallback with
    | some e =>
      right
      obtain ⟨g, b2, g1, g2, g3⟩ := takeMaxStep_units (b := b1) hn h2 hamt (fb := some e)
        (fun e' he' => h3 e' (by rw [hfb]; exact he'))
      refine ⟨g, b2, by simpa [takeFromSource] using g1, g2, g3, ?_⟩
      obtain ⟨w, hw⟩ := h3 e hfb
      rw [hfb] at h6
      simp only [fbOf, hw, takeExt_length_some] at h6
      omega
    | none =>
      rw [hfb] at h6
      simp only [fbOf, takeExt_none, List.length_take] at h6
      by_cases hle : amt ≤ total f.parts
      · right
        have hs := (take_isSome_iff f.parts hn amt hamt).mpr hle
        obtain ⟨⟨res, rem⟩, ht⟩ := Option.isSome_iff_exists.mp hs
        refine ⟨⟨f.asset, res⟩, repay b1 f.asset rem, ?_, h2, ?_, by omega⟩
        · simp [takeFromSource, h2, needAmt, ht]
        · simp [fbOf, takeExt_none, (take_units hn ht).1]
      · left
        have hnone : take f.parts amt = none := by
          cases ht : take f.parts amt with
          | none => rfl
          | some x =>
            have := (take_isSome_iff f.parts hn amt hamt).mp (by simp [ht])
            omega
        exact ⟨.run "exec" "insufficient", by simp [takeFromSource, h2, needAmt, hnone], by omega⟩
  rcases key with ⟨e, ke, kne⟩ | ⟨r, b2, k1, k2, k3, k4⟩
  · left
    exact ⟨e, "MissingFundsErr", ke, by simp [tryExact, h4, kne]⟩
  · right
    subst k4
    have tk := (takeFromSource_ok k1).1
    have hrn : partsNonneg r.parts := tk.nonneg hn
    have hdelta : Delta b b2 (fun a c' => - fl a c' r) :=
      Delta.trans hok.delta tk.delta (by intro a c'; simp [inFlight]; omega)
    rw [← k3] at h5 hval h6
    refine ⟨r, b2, ist1, k1, k2, hrn, by rw [total_eq_length _ hrn]; omega, ?_, h5, hval, ?_,
      hdelta.wf hbwf⟩
    · simp [tryExact, h4]
    · refine hrel.delta hbwf hdelta ?_
      intro a c' _ _
      rw [h5.bal]
      simp only [fl_eq_count a c' r hrn, k2]
      by_cases hcc : c = c'
      · subst hcc; simp; omega
      · have : ¬ c' = c := fun x => hcc x.symm
        simp [hcc, this]

/-! ## Allotment sources -/

theorem allotSrc_portions_length (items : AllotSrcList) : items.portions.length = items.length := by
  induction items with
  | nil => rfl
  | cons p s rest ih => simp [AllotSrcList.portions, AllotSrcList.length, ih]

/-- The item loop of an allotment source: `evalSource` + `takeFromSource share` per item
    against `tryTakingExact share` per item. -/
theorem allotsrc_sim {env ienv : Env} (heq : EnvEq env ienv) (henv : EnvOK env)
    {P : List (String × String)} {c : String} : (items : AllotSrcList) →
    allotSrcWf env c items = true → LeavesIn P env c items.neededAccts →
    ∀ (ps : List Int) (b : Balances) (ist : IState), ps.length = items.length →
      (∀ p ∈ ps, 0 ≤ p) → ist.asset = c → b.WF → Rel P b ist.bal →
    ((∃ e e', evalAllotSrc Cfg.fixed env c c items ps b = .error e ∧
        takeAllot ienv items ps ist = .error e') ∨
     (∃ fs b1 ist1, evalAllotSrc Cfg.fixed env c c items ps b = .ok (fs, b1) ∧
        (∀ f ∈ fs, f.asset = c ∧ partsNonneg f.parts) ∧ fs.length = items.length ∧
        ((unitsAll fs).length : Int) = ps.sum ∧
        takeAllot ienv items ps ist = .ok ist1 ∧ Pushed c ist ist1 (unitsAll fs) ∧
        (∀ x ∈ unitsAll fs, validAccount x = true) ∧ Rel P b1 ist1.bal ∧ b1.WF))
  | .nil, _, _, ps, b, ist, hlen, _, _, hbwf, hrel => by
    have hps : ps = [] := List.eq_nil_of_length_eq_zero (by simpa [AllotSrcList.length] using hlen)
    subst hps
    right
    exact ⟨[], b, ist, rfl, by simp, rfl, by simp [unitsAll], rfl,
      by simpa [unitsAll] using Pushed.refl c ist, by simp [unitsAll], hrel, hbwf⟩
  | .cons _ s rest, hwf, hin, ps, b, ist, hlen, hnn, hc, hbwf, hrel => by
    simp only [allotSrcWf, Bool.and_eq_true] at hwf
    have hin' : LeavesIn P env c (s.neededAccts ++ rest.neededAccts) := by
      simpa [AllotSrcList.neededAccts] using hin
    cases ps with
    | nil => simp [AllotSrcList.length] at hlen
    | cons p ps =>
      have hp0 : 0 ≤ p := hnn p (by simp)
      obtain ⟨f, b1, h1, hcase⟩ := exact_sim heq henv s hwf.1 hin'.left b ist p hp0 hc hbwf hrel
      rcases hcase with ⟨e, e', k1, k2⟩ | ⟨r, b2, ist1, k1, k2, k3, k4, k5, k6, k7, k8, k9⟩
      · left
        exact ⟨e, e', by simp [evalAllotSrc, h1, k1], by simp [takeAllot, k2]⟩
      · have ih := allotsrc_sim heq henv rest hwf.2 hin'.right ps b2 ist1
          (by simpa [AllotSrcList.length] using hlen) (fun q hq => hnn q (by simp [hq]))
          (k6.asset.trans hc) k9 k8
        rcases ih with ⟨e, e', i1, i2⟩ | ⟨fs, b3, ist2, i1, i2, i3, i4, i5, i6, i7, i8, i9⟩
        · left
          exact ⟨e, e', by simp [evalAllotSrc, h1, k1, i1], by simp [takeAllot, k5, i2]⟩
        · right
          refine ⟨r :: fs, b3, ist2, by simp [evalAllotSrc, h1, k1, i1], ?_, ?_, ?_,
            by simp [takeAllot, k5, i5], ?_, ?_, i8, i9⟩
          · intro g hg
            rcases List.mem_cons.mp hg with rfl | hg
            · exact ⟨k2, k3⟩
            · exact i2 g hg
          · simp [AllotSrcList.length, i3]
          · simp only [unitsAll, List.length_append, List.sum_cons]
            have := total_eq_length r.parts k3
            push_cast; omega
          · simpa [unitsAll] using k6.trans i6
          · intro x hx
            simp only [unitsAll, List.mem_append] at hx
            rcases hx with hx | hx
            · exact k7 x hx
            · exact i7 x hx

/-- `drel_after_sources` when the balances are already known to be related. -/
theorem drel_after_sources' {P : List (String × String)} {c : String} {st : State} {ist ist1 : IState}
    {b2 : Balances} {X : List String} (h : SRel P st ist) (hrel : Rel P b2 ist1.bal) (hwf : b2.WF)
    (hp : Pushed c { ist with asset := c } ist1 X) (hval : ∀ x ∈ X, validAccount x = true) :
    DRel P c { st with bal := b2 } ist1 ∧ units ist1.queue = X := by
  obtain ⟨Q, q1, q2, q3⟩ := hp.queue
  have hq : ist1.queue = Q := by simpa [h.queue] using q1
  refine ⟨⟨hrel, hwf, ?_, h.nnM, ?_, ?_, ?_, hp.asset, ?_, ?_⟩, ?_⟩
  · rw [hp.postings]; exact h.posts
  · rw [hp.postings]; exact h.okI
  · rw [hp.txMeta]; exact h.tx
  · rw [hp.accMeta]; exact h.acc
  · rw [hq]; exact q3
  · rw [hq, q2]; exact hval
  · rw [hq, q2]

/-! ## `send` from an allotment -/

theorem send_allot_sim {env ienv : Env} (heq : EnvEq env ienv) (henv : EnvOK env)
    {P : List (String × String)} {mon : Expr} {items : AllotSrcList} {dst : Dest} {st : State}
    {ist : IState} (hwf : stmtWf env (.send mon (.allot items) dst) = true)
    (hin : stmtLeavesIn P env (.send mon (.allot items) dst) = true) (h : SRel P st ist) :
    StmtAgree P (Machine.evalStmt Cfg.fixed env (.send mon (.allot items) dst) st)
      (Interp.evalStmt ienv (.send mon (.allot items) dst) ist) := by
  simp only [stmtWf, Bool.and_eq_true] at hwf
  obtain ⟨hlm, hwf2⟩ := hwf
  split at hwf2
  · rename_i c amt hmon
    simp only [Bool.and_eq_true, decide_eq_true_eq] at hwf2
    obtain ⟨⟨⟨⟨hamt, hvc⟩, hao⟩, hws⟩, hwd⟩ := hwf2
    have hin' : LeavesIn P env c items.neededAccts := by
      simp only [stmtLeavesIn, hmon] at hin
      exact leavesIn_spec hin
    have hla := leftmostAsset_of_monetary hmon
    have himon := evalMon_agree heq henv hlm hmon
    obtain ⟨a, hm, hsum, hpos, hi⟩ := makeAllotment_agree ienv hao
    have hlen : (allocate a amt).length = items.length := by
      rw [allocate_length_eq, makeAllotment_length hm, allotSrc_portions_length]
    have hneg : ¬ amt < 0 := by omega
    have hsim := allotsrc_sim heq henv items hws hin' (allocate a amt) st.bal { ist with asset := c }
      hlen (allocate_mem_nonneg a amt hsum hamt hpos) rfl h.wf h.rel
    rcases hsim with ⟨e, e', k1, k2⟩ | ⟨fs, b1, ist1, k1, k2, k3, k4, k5, k6, k7, k8, k9⟩
    · have hmE : Machine.evalStmt Cfg.fixed env (.send mon (.allot items) dst) st = .error e := by
        simp only [Machine.evalStmt, hmon, hm, needAmt, hla, k1]
      rw [hmE]
      simp [Interp.evalStmt, himon, hneg, hi, k2, StmtAgree]
    · -- `assemble`
      have hne : fs ≠ [] := by
        intro hfs
        rw [hfs] at k3
        have ha0 : a.length = 0 := by
          rw [makeAllotment_length hm, allotSrc_portions_length]; simpa using k3.symm
        have : a = [] := List.eq_nil_of_length_eq_zero ha0
        rw [this] at hsum; simp at hsum
      obtain ⟨l, hl⟩ : ∃ l, fs.getLast? = some l := by
        cases hg : fs.getLast? with
        | none => exact absurd (List.getLast?_eq_none_iff.mp hg) hne
        | some l => exact ⟨l, rfl⟩
      have hlc : l.asset = c := (k2 l (List.mem_of_getLast? hl)).1
      have hall : fs.all (fun f => f.asset = c) = true := by
        rw [List.all_eq_true]; intro f hf; simp [(k2 f hf).1]
      have hnn : ∀ f ∈ fs, partsNonneg f.parts := fun f hf => (k2 f hf).2
      have hcn : partsNonneg (concatAll fs) := by
        simpa [concatAll] using concatAll_nonneg_aux fs [] partsNonneg_nil hnn
      have hcu := concatAll_units fs hnn
      obtain ⟨hd1, hq1⟩ := drel_after_sources' h k8 k9 k6 k7
      obtain ⟨rem, st1, ist2, d1, d2, d3, d4, d5, d6⟩ :=
        dst_sim heq henv hvc dst hwd (concatAll fs) [] { st with bal := b1 } ist1 hcn hd1
          (by rw [hq1, hcu]; simp)
      have htot : total (concatAll fs) = amt := by
        rw [total_eq_length _ hcn, hcu, k4, allocate_sum_eq a amt hsum]
      have hmO : Machine.evalStmt Cfg.fixed env (.send mon (.allot items) dst) st =
          .ok { st1 with bal := repay st1.bal c rem } := by
        simp only [Machine.evalStmt, hmon, hm, needAmt, hla, k1, assemble, hl, hlc, hall, if_true,
          finishSend, d1]
      rw [hmO]
      have hiO : Interp.evalStmt ienv (.send mon (.allot items) dst) ist = .ok ist2 := by
        simp only [Interp.evalStmt, himon, if_neg hneg, hi, k5]
        rw [← htot]; exact d4
      rw [hiO]
      exact srel_after_dest d5 d6 d2 d3
  · cases hwf2

end Ledger.Interp
