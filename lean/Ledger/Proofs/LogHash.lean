import Ledger.Log.Safe
import Ledger.Log.SqlHash

/-!
Helper lemmas for C10 / C09 (log hash preimages):

* character classes of the date / number printers (`plain`, `noBs`);
* `byteain ∘ encode(…,'escape')` is the identity (the memento survives the
  `text → bytea` cast of `set_log_hash` untouched);
* `safeText`: Go prints it verbatim, PostgreSQL accepts it, `byteain` keeps it;
* safe dates print identically on both sides;
* `trigger_bridge`: the GENERATED `set_log_hash` body (Ledger/Generated/LogHash.lean),
  run by the evaluator, computes the clean function `sqlClean (sqlJsonText …)`.
  This is the bridge lemma re-checked on every run against the regenerated AST.
-/
namespace Ledger.Log
set_option linter.unusedSimpArgs false

/-- no backslash -/
def noBs (l : Bytes) : Bool := l.all (fun c => c != 0x5c)
/-- neither `"` nor backslash -/
def plain (l : Bytes) : Bool := l.all (fun c => c != 0x22 && c != 0x5c)

@[simp] theorem noBs_nil : noBs [] = true := rfl
@[simp] theorem noBs_cons (a : UInt8) (l : Bytes) : noBs (a :: l) = (a != 0x5c && noBs l) := by simp [noBs]
@[simp] theorem noBs_append (a b : Bytes) : noBs (a ++ b) = (noBs a && noBs b) := by simp [noBs]
@[simp] theorem plain_nil : plain [] = true := rfl
@[simp] theorem plain_cons (a : UInt8) (l : Bytes) : plain (a :: l) = ((a != 0x22 && a != 0x5c) && plain l) := by simp [plain]
@[simp] theorem plain_append (a b : Bytes) : plain (a ++ b) = (plain a && plain b) := by simp [plain]
theorem noBs_of_plain {l : Bytes} (h : plain l = true) : noBs l = true := by
  induction l with
  | nil => rfl
  | cons a t ih => simp at h ⊢; exact ⟨h.1.2, ih h.2⟩

theorem digitChar_plain (n : Nat) : (digitChar n != 0x22 && digitChar n != 0x5c) = true := by
  unfold digitChar; split <;> decide

@[simp] theorem plain_pad2 (n : Nat) : plain (pad2 n) = true := by
  simp [pad2, digitChar_plain]

theorem plain_natDecAux (fuel n : Nat) (acc : Bytes) (h : plain acc = true) : plain (natDecAux fuel n acc) = true := by
  induction fuel generalizing n acc with
  | zero => simpa [natDecAux] using h
  | succ f ih =>
    unfold natDecAux
    split
    · simp [digitChar_plain, h]
    · exact ih _ _ (by simp [digitChar_plain, h])

@[simp] theorem plain_natDec (n : Nat) : plain (natDec n) = true := plain_natDecAux _ _ _ rfl

@[simp] theorem plain_pad4 (n : Nat) : plain (pad4 n) = true := by
  unfold pad4; split <;> simp [digitChar_plain]

@[simp] theorem plain_civilBytes (y mo d h mi s : Nat) : plain (civilBytes y mo d h mi s) = true := by
  simp [civilBytes]

theorem plain_map_digitChar (l : List Nat) : plain (l.map digitChar) = true := by
  induction l with
  | nil => rfl
  | cons a t ih => simp [digitChar_plain, ih]

@[simp] theorem plain_fracBytes (ds : List Nat) : plain (fracBytes ds) = true := by
  unfold fracBytes; split
  · rfl
  · simp [plain_map_digitChar]

@[simp] theorem plain_pgTimestampIso (t : PgTimestamp) : plain (pgTimestampIso t) = true := by
  simp [pgTimestampIso]

theorem jsonPlainString_quote (body : Bytes) (h : plain body = true) :
    jsonPlainString (0x22 :: (body ++ [0x22])) = some body := by
  simp [jsonPlainString, List.reverse_append]
  simpa [plain] using h


/-! ### bytea input -/

/-- prepend to a successful result -/
def prependOk (a : Bytes) : Except HashErr Bytes → Except HashErr Bytes
  | .ok r => .ok (a ++ r)
  | .error e => .error e

@[simp] theorem prependOk_nil (r : Except HashErr Bytes) : prependOk [] r = r := by
  cases r <;> rfl

theorem prependOk_prependOk (a b : Bytes) (r : Except HashErr Bytes) :
    prependOk a (prependOk b r) = prependOk (a ++ b) r := by
  cases r <;> simp [prependOk]

theorem byteaInAux_cons_noBs (b : UInt8) (t : Bytes) (h : (b != 0x5c) = true) :
    byteaInAux .normal (b :: t) = prependOk [b] (byteaInAux .normal t) := by
  have hb : b ≠ 0x5c := by simpa using h
  rw [byteaInAux]
  simp only [hb, if_false]
  cases byteaInAux .normal t <;> rfl

theorem byteaInAux_append_noBs (a t : Bytes) (h : noBs a = true) :
    byteaInAux .normal (a ++ t) = prependOk a (byteaInAux .normal t) := by
  induction a with
  | nil => simp
  | cons b r ih =>
    simp at h
    rw [List.cons_append, byteaInAux_cons_noBs _ _ (by simpa using h.1), ih h.2, prependOk_prependOk]
    rfl

def od1 (c : UInt8) : UInt8 := (0x30 : UInt8) + (c >>> 6)
def od2 (c : UInt8) : UInt8 := (0x30 : UInt8) + ((c >>> 3) &&& 7)
def od3 (c : UInt8) : UInt8 := (0x30 : UInt8) + (c &&& 7)

def OctalOk (c : UInt8) : Prop :=
    ((0x30 : UInt8) ≤ od1 c && od1 c ≤ (0x33 : UInt8)) = true ∧
    isOct (od2 c) = true ∧ isOct (od3 c) = true ∧
    (((od1 c - 0x30) <<< 6) + ((od2 c - 0x30) <<< 3) + (od3 c - 0x30)) = c ∧
    (od1 c ≠ 0x5c)

instance (c : UInt8) : Decidable (OctalOk c) := by unfold OctalOk; exact inferInstance

theorem octal_roundtrip_nat : ∀ k, k < 256 → OctalOk (UInt8.ofNat k) := by
  decide +kernel

theorem octal_roundtrip (c : UInt8) : OctalOk c := by
  have h := octal_roundtrip_nat c.toNat c.toNat_lt
  simpa using h

theorem byteaInAux_escEncodeByte (c : UInt8) (t : Bytes) :
    byteaInAux .normal (escEncodeByte c ++ t) = prependOk [c] (byteaInAux .normal t) := by
  unfold escEncodeByte
  split
  · obtain ⟨h1, h2, h3, h4, h5⟩ := octal_roundtrip c
    show byteaInAux .normal ([0x5c, od1 c, od2 c, od3 c] ++ t) = _
    simp only [List.cons_append, List.nil_append]
    rw [byteaInAux]; simp only [if_true]
    rw [byteaInAux]; simp only [h5, if_false, h1, if_true]
    rw [byteaInAux]; simp only [h2, if_true]
    rw [byteaInAux]; simp only [h3, if_true, h4]
    cases byteaInAux .normal t <;> rfl
  · split
    · next h => 
      subst h
      simp only [List.cons_append, List.nil_append]
      rw [byteaInAux]; simp only [if_true]
      rw [byteaInAux]; simp only [if_true]
      cases byteaInAux .normal t <;> rfl
    · next h0 h =>
      exact byteaInAux_cons_noBs c t (by simpa using h)

theorem byteaInAux_escEncode (m t : Bytes) :
    byteaInAux .normal (escEncode m ++ t) = prependOk m (byteaInAux .normal t) := by
  induction m with
  | nil => simp [escEncode]
  | cons c r ih =>
    rw [escEncode, List.append_assoc, byteaInAux_escEncodeByte, ih, prependOk_prependOk]
    rfl


/-! ### safe text -/

theorem isCont_ne_bs {b : UInt8} (h : isCont b = true) : (b != 0x5c) = true := by
  simp only [bne_iff_ne, ne_eq]
  intro hb; subst hb; revert h; decide

theorem htmlSafe_facts {b : UInt8} (h : htmlSafe b = true) :
    (b != 0x5c) = true ∧ (b != 0) = true ∧ escAscii b = [b] := by
  refine ⟨?_, ?_, ?_⟩
  · simp only [bne_iff_ne, ne_eq]; intro hb; subst hb; revert h; decide
  · simp only [bne_iff_ne, ne_eq]; intro hb; subst hb; revert h; decide
  · simp [escAscii, h]

theorem high_ne_bs {b : UInt8} (h : ¬ b < 0x80) : (b != 0x5c) = true := by
  simp only [bne_iff_ne, ne_eq]
  intro hb; subst hb; exact h (by decide)

theorem safeTextAux_facts (s : Bytes) : ∀ n, safeTextAux n s = true →
    goStrAux n true s = s ∧ pgTextAux n s = true ∧ noBs s = true := by
  induction s with
  | nil =>
    intro n h
    cases n with
    | zero => simp [goStrAux, pgTextAux]
    | succ k => simp [safeTextAux] at h
  | cons b t ih =>
    intro n h
    cases n with
    | succ k =>
      simp only [safeTextAux, Bool.and_eq_true] at h
      obtain ⟨h1, h2, h3⟩ := ih k h.2
      refine ⟨?_, ?_, ?_⟩
      · simp [goStrAux, h1]
      · simp [pgTextAux, h.1, h2]
      · simp [h3, isCont_ne_bs h.1]
    | zero =>
      unfold safeTextAux at h
      split at h
      · next hlt =>
        simp only [Bool.and_eq_true] at h
        obtain ⟨h1, h2, h3⟩ := ih 0 h.2
        obtain ⟨f1, f2, f3⟩ := htmlSafe_facts h.1
        refine ⟨?_, ?_, ?_⟩
        · simp [goStrAux, hlt, f3, h1]
        · simp [pgTextAux, hlt, f2, h2]
        · simp [h3, f1]
      · next hge =>
        simp only [Bool.and_eq_true, bne_iff_ne, ne_eq, Option.isNone_iff_eq_none] at h
        obtain ⟨⟨hc, hl⟩, hr⟩ := h
        obtain ⟨h1, h2, h3⟩ := ih _ hr
        refine ⟨?_, ?_, ?_⟩
        · simp [goStrAux, hge, hc, hl, h1]
        · simp [pgTextAux, hge, hc, h2]
        · simp [h3, high_ne_bs hge]

theorem goString_safe {s : Bytes} (h : safeText s = true) : goString s = 0x22 :: (s ++ [0x22]) := by
  simp [goString, (safeTextAux_facts s 0 h).1]

theorem pgTextOk_safe {s : Bytes} (h : safeText s = true) : pgTextOk s = true :=
  (safeTextAux_facts s 0 h).2.1

theorem noBs_safe {s : Bytes} (h : safeText s = true) : noBs s = true :=
  (safeTextAux_facts s 0 h).2.2


/-! ### dates -/

theorem trimZeros_append_zeros (xs : List Nat) : trimZeros (xs ++ [0, 0, 0]) = trimZeros xs := by
  induction xs with
  | nil => decide
  | cons d t ih => simp only [List.cons_append, trimZeros, ih]

theorem digits9_eq (n : Nat) (h : n % 1000 = 0) : digits9 n = digits6 (n / 1000) ++ [0, 0, 0] := by
  simp only [digits9, digits6, List.cons_append, List.nil_append, List.cons.injEq, and_true]
  and_intros
  all_goals first | trivial | omega

theorem fracBytes_micro (n : Nat) (h : n % 1000 = 0) : fracBytes (digits9 n) = fracBytes (digits6 (n / 1000)) := by
  simp only [fracBytes, digits9_eq n h, trimZeros_append_zeros]

/-- the stored timestamp of a safe date: same civil fields, whole microseconds -/
def tsOfDate (d : Date) : PgTimestamp :=
  { year := d.year, month := d.month, day := d.day, hour := d.hour,
    minute := d.minute, second := d.second, micro := d.nano / 1000 }

theorem timestampIn_safe {nz : Bool} {d : Date} (h : safeDate nz d = true) :
    timestampIn d = .ok (tsOfDate d) := by
  simp only [safeDate, Bool.and_eq_true, decide_eq_true_eq] at h
  obtain ⟨⟨⟨⟨hz, hn⟩, hy1⟩, hy2⟩, _⟩ := h
  have h1 : ¬ (d.year = 0 ∨ 9999 < d.year) := by omega
  simp [timestampIn, h1, hn, tsOfDate]

theorem goTime_safe {nz : Bool} {d : Date} (h : safeDate nz d = true) :
    goTime d = pgTimestampIso (tsOfDate d) ++ [0x5a] := by
  simp only [safeDate, Bool.and_eq_true, decide_eq_true_eq] at h
  obtain ⟨⟨⟨⟨hz, hn⟩, _⟩, _⟩, _⟩ := h
  simp [goTime, pgTimestampIso, zoneBytes, hz, fracBytes_micro _ hn, tsOfDate]


/-! ### bridge: the GENERATED trigger body computes this clean function -/

open Ledger.Generated

def sqlJsonText (ty m : Bytes) (ts : PgTimestamp) (ik : Bytes) : Bytes :=
  b!"{\"type\":\"" ++ (ty ++ (b!"\",\"data\":" ++ (escEncode m ++ (b!",\"date\":\"" ++ (pgTimestampIso ts ++
  (b!"Z\",\"idempotencyKey\":\"" ++ (ik ++ b!"\",\"id\":0,\"hash\":null}")))))))

/-- what the final `set_log_hash` hands to `digest`, given the JSON text `T` it built -/
def sqlClean (prev : PrevHash) (T : Bytes) : Except HashErr Bytes :=
  match prev with
  | none => match byteaIn T with
    | .error e => .error e
    | .ok j => .ok (j ++ [0x0a])
  | some h => match byteaIn (pgBase64 h) with
    | .error e => .error e
    | .ok p => match byteaIn T with
      | .error e => .error e
      | .ok j => .ok (0x22 :: (p ++ (0x22 :: 0x0a :: (j ++ [0x0a]))))

def mkRow (ledger : Bytes) (id : Int) (ty m : Bytes) (ts : PgTimestamp) (ikv sv hash : PgVal) : Row :=
  { ledger := .text ledger, id := .num id, type := .enumv ty, memento := .bytea m,
    date := .timestamp ts, idempotencyKey := ikv, schemaVersion := sv, hash := hash }

/-- `coalesce(new.idempotency_key, '')` -/
def ikText : PgVal → Option Bytes
  | .null => some []
  | .text b => some b
  | _ => none

/-- the value `previousHash` receives -/
def prevVal : PrevHash → PgVal
  | none => .null
  | some h => .bytea h

/-- the query of the generated body (first statement of `set_log_hash`) -/
def genQuery : LastRowQuery :=
  { col := "hash", var := "previoushash", table := "logs", whereCol := "ledger", record := "new",
    recordCol := "ledger", orderCol := "id", desc := true, limit := 1 }

set_option maxRecDepth 4000 in
/-- Bridge lemma: on ANY table for which the generated `select hash into previousHash …`
    yields `prevVal prev`, the generated trigger body returns the row unchanged except
    for `hash := digest (sqlClean prev (sqlJsonText …))`. -/
theorem trigger_bridge_row (tbl : Table) (ledger : Bytes) (id : Int) (ty m : Bytes) (ts : PgTimestamp)
    (ikv sv hash : PgVal) (ik : Bytes) (prev : PrevHash) (hik : ikText ikv = some ik)
    (hsel : selectLastKey genQuery tbl "new" (some (.text ledger)) = .ok (prevVal prev)) :
    runSetLogHash tbl (mkRow ledger id ty m ts ikv sv hash) =
      match sqlClean prev (sqlJsonText ty m ts ik) with
      | .ok pre => .ok (mkRow ledger id ty m ts ikv sv (.digest pre))
      | .error e => .error e := by
  have hiso := jsonPlainString_quote (pgTimestampIso ts) (plain_pgTimestampIso ts)
  have hb1 : byteaIn [0x22] = .ok [0x22] := by decide
  have hb2 : byteaIn [0x22, 0x0a] = .ok [0x22, 0x0a] := by decide
  have hb3 : byteaIn [0x0a] = .ok [0x0a] := by decide
  unfold genQuery at hsel
  cases prev with
  | none =>
    simp only [prevVal] at hsel
    cases ikv <;> simp [ikText] at hik <;> subst hik <;>
    simp [mkRow, runSetLogHash, runTrigger, LogHash.setLogHash, LogHash.computeHash,
      execStmts, initVars, evalExpr,
      selectLast, hsel, Row.get, Row.set, assignTo, lookupDecl, coerceAssign, setVar, lookupVar,
      concatVals, textual, call2Val, call1Val, castVal, hiso, sqlJsonText, sqlClean, hb1, hb2, hb3] <;>
    (generalize byteaIn _ = r; cases r <;> simp [hb3])
  | some h =>
    simp only [prevVal] at hsel
    cases ikv <;> simp [ikText] at hik <;> subst hik <;>
    simp [mkRow, runSetLogHash, runTrigger, LogHash.setLogHash, LogHash.computeHash,
      execStmts, initVars, evalExpr,
      selectLast, hsel, Row.get, Row.set, assignTo, lookupDecl, coerceAssign, setVar, lookupVar,
      concatVals, textual, call2Val, call1Val, castVal, hiso, sqlJsonText, sqlClean, hb1, hb2, hb3] <;>
    (generalize byteaIn (pgBase64 h) = r1; cases r1 <;> simp [hb1, hb2, hb3] <;>
     (generalize byteaIn _ = r; cases r <;> simp [hb1, hb2, hb3]))

/-- the digest preimage, same hypothesis -/
theorem trigger_bridge_sel (tbl : Table) (ledger : Bytes) (id : Int) (ty m : Bytes) (ts : PgTimestamp)
    (ikv sv hash : PgVal) (ik : Bytes) (prev : PrevHash) (hik : ikText ikv = some ik)
    (hsel : selectLastKey genQuery tbl "new" (some (.text ledger)) = .ok (prevVal prev)) :
    triggerPreimage tbl (mkRow ledger id ty m ts ikv sv hash) =
      sqlClean prev (sqlJsonText ty m ts ik) := by
  rw [triggerPreimage, trigger_bridge_row tbl ledger id ty m ts ikv sv hash ik prev hik hsel]
  cases sqlClean prev (sqlJsonText ty m ts ik) <;> simp [mkRow]

theorem selectLastKey_prevTable (ledger : Bytes) (pid : Nat) (prev : PrevHash) :
    selectLastKey genQuery (prevTable ledger pid prev) "new" (some (.text ledger)) = .ok (prevVal prev) := by
  cases prev <;> simp [genQuery, selectLastKey, prevTable, pickLast, Row.get, prevVal]

/-- the bridge on the one-row table used by `sqlPreimage` -/
theorem trigger_bridge (ledger : Bytes) (pid : Nat) (id : Int) (ty m : Bytes) (ts : PgTimestamp)
    (ikv sv hash : PgVal) (ik : Bytes) (prev : PrevHash) (hik : ikText ikv = some ik) :
    triggerPreimage (prevTable ledger pid prev) (mkRow ledger id ty m ts ikv sv hash) =
      sqlClean prev (sqlJsonText ty m ts ik) :=
  trigger_bridge_sel _ ledger id ty m ts ikv sv hash ik prev hik (selectLastKey_prevTable ledger pid prev)

/-! ### composition -/

theorem byteaInAux_noBs (a : Bytes) (h : noBs a = true) : byteaInAux .normal a = .ok a := by
  have := byteaInAux_append_noBs a [] h
  simpa [byteaInAux, prependOk] using this

theorem byteaIn_noBs (a : Bytes) (h : noBs a = true) : byteaIn a = .ok a := by
  unfold byteaIn
  split
  · next x y t =>
    have hx : x ≠ 0x5c := by simp at h; exact h.1
    simp only [hx, decide_false, Bool.false_and, Bool.false_eq_true, if_false]
    exact byteaInAux_noBs _ h
  · exact byteaInAux_noBs _ h

theorem b64Char_ne_bs_nat : ∀ k, k < 256 → (b64Char (UInt8.ofNat k) != 0x5c) = true := by decide +kernel

theorem b64Char_ne_bs (n : UInt8) : (b64Char n != 0x5c) = true := by
  have h := b64Char_ne_bs_nat n.toNat n.toNat_lt
  simpa using h

theorem noBs_base64 (l : Bytes) : noBs (base64 l) = true := by
  fun_induction base64 l <;> simp_all [b64Char_ne_bs]

theorem pgBase64_short (h : Bytes) (hl : h.length < 57) : pgBase64 h = base64 h := by
  have : h.length / 57 = 0 := by omega
  simp [pgBase64, this, pgBase64Aux, hl]

theorem label_safe (t : LogType) : safeText t.label = true := by
  cases t <;> decide

theorem byteaIn_sqlJsonText (ty m : Bytes) (ts : PgTimestamp) (ik : Bytes)
    (hty : noBs ty = true) (hik : noBs ik = true) :
    byteaIn (sqlJsonText ty m ts ik) =
      .ok (b!"{\"type\":\"" ++ (ty ++ (b!"\",\"data\":" ++ (m ++ (b!",\"date\":\"" ++ (pgTimestampIso ts ++
        (b!"Z\",\"idempotencyKey\":\"" ++ (ik ++ b!"\",\"id\":0,\"hash\":null}")))))))) := by
  have h0 : byteaIn (sqlJsonText ty m ts ik) = byteaInAux .normal (sqlJsonText ty m ts ik) := by
    simp [byteaIn, sqlJsonText]
  rw [h0, sqlJsonText]
  rw [byteaInAux_append_noBs _ _ (by decide), byteaInAux_append_noBs _ _ hty,
    byteaInAux_append_noBs _ _ (by decide), byteaInAux_escEncode,
    byteaInAux_append_noBs _ _ (by decide),
    byteaInAux_append_noBs _ _ (noBs_of_plain (plain_pgTimestampIso ts)),
    byteaInAux_append_noBs _ _ (by decide), byteaInAux_append_noBs _ _ hik,
    byteaInAux_noBs _ (by decide)]
  simp [prependOk]

end Ledger.Log
