import Ledger.Wrap.Trace

/-!
Facts about the specification fold `Spec` of `Ledger/Wrap/Trace.lean` alone
(no wrapper model involved), used to spell out what `c31Ok` means.
-/
namespace Ledger.Wrap
open List

/-- A bad listener call is never forgiven by what follows. -/
theorem bad_sticky (σ : Spec) (tr : List Item) (h : σ.bad = true) : (Spec.run σ tr).bad = true := by
  induction tr generalizing σ with
  | nil => exact h
  | cons it tr ih =>
    apply ih
    cases it with
    | begin t p r => cases r <;> simpa [Spec.step] using h
    | lock t r => exact h
    | release t => exact h
    | commit t r =>
      cases r
      · simp only [Spec.step]; split <;> exact h
      · exact h
      · exact h
    | rollback t r => cases r <;> exact h
    | write t k dry w r =>
      cases r <;> cases dry <;> try exact h
      simp only [Spec.step]; split <;> exact h
    | sql t tag r => exact h
    | publish k w => simp [Spec.step, h]

/-- Everything durable or pending in `σ` stems from a successful non-dry write of `tr`. -/
def Src (σ : Spec) (tr : List Item) : Prop :=
  (∀ x ∈ σ.dur, ∃ t, Item.write t x.1 false x.2 .ok ∈ tr) ∧
  (∀ t, ∀ x ∈ σ.pend t, ∃ t', Item.write t' x.1 false x.2 .ok ∈ tr)

theorem Src.mono {σ : Spec} {tr : List Item} (h : Src σ tr) (it : Item) : Src σ (tr ++ [it]) :=
  ⟨fun x hx => (h.1 x hx).imp fun _ hm => List.mem_append_left _ hm,
   fun t x hx => (h.2 t x hx).imp fun _ hm => List.mem_append_left _ hm⟩

theorem mem_upd_nil {f : Nat → List Ev} {t t' : Nat} {x : Ev} (h : x ∈ upd f t [] t') : x ∈ f t' := by
  unfold upd at h
  split at h
  · cases h
  · exact h

theorem src_step (σ : Spec) (tr : List Item) (it : Item) (h : Src σ tr) :
    Src (σ.step it) (tr ++ [it]) := by
  have hm := h.mono it
  cases it with
  | begin t p r =>
    cases r
    · exact ⟨hm.1, fun t' x hx => by
        simp only [Spec.step] at hx
        exact hm.2 t' x (mem_upd_nil hx)⟩
    · exact hm
    · exact hm
  | lock t r => exact hm
  | release t => exact hm
  | commit t r =>
    cases r
    · simp only [Spec.step]
      split
      · refine ⟨fun x hx => ?_, fun t' x hx => hm.2 t' x (mem_upd_nil hx)⟩
        rcases List.mem_append.1 hx with hx | hx
        · exact hm.1 x hx
        · exact hm.2 t x hx
      · refine ⟨hm.1, fun t' x hx => ?_⟩
        simp only [] at hx
        have hx' := mem_upd_nil hx
        unfold upd at hx'
        split at hx'
        · rcases List.mem_append.1 hx' with hx' | hx'
          · exact hm.2 _ x hx'
          · exact hm.2 t x hx'
        · exact hm.2 t' x hx'
    · exact ⟨hm.1, fun t' x hx => hm.2 t' x (mem_upd_nil hx)⟩
    · exact hm
  | rollback t r =>
    cases r
    · exact ⟨hm.1, fun t' x hx => hm.2 t' x (mem_upd_nil hx)⟩
    · exact ⟨hm.1, fun t' x hx => hm.2 t' x (mem_upd_nil hx)⟩
    · exact hm
  | write t k dry w r =>
    cases r <;> cases dry <;> try exact hm
    simp only [Spec.step]
    have hnew : ∃ t', Item.write t' k false w .ok ∈ tr ++ [Item.write t k false w .ok] :=
      ⟨t, List.mem_append_right _ (List.mem_singleton.2 rfl)⟩
    split
    · refine ⟨fun x hx => ?_, hm.2⟩
      rcases List.mem_append.1 hx with hx | hx
      · exact hm.1 x hx
      · rw [List.mem_singleton.1 hx]; exact hnew
    · refine ⟨hm.1, fun t' x hx => ?_⟩
      simp only [] at hx
      unfold upd at hx
      split at hx
      · rcases List.mem_append.1 hx with hx | hx
        · exact hm.2 t x hx
        · rw [List.mem_singleton.1 hx]; exact hnew
      · exact hm.2 t' x hx
  | sql t tag r => exact hm
  | publish k w => exact ⟨hm.1, hm.2⟩

theorem src_run (σ : Spec) (tr0 tr : List Item) (h : Src σ tr0) : Src (Spec.run σ tr) (tr0 ++ tr) := by
  induction tr generalizing σ tr0 with
  | nil => simpa [Spec.run] using h
  | cons it tr ih =>
    have := ih (σ.step it) (tr0 ++ [it]) (src_step σ tr0 it h)
    simpa [Spec.run] using this


end Ledger.Wrap
