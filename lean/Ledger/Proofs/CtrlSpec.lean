import Ledger.Proofs.CtrlSpecStep

/-!
The tables equal the reference reading of the journal (`specOf`): preserved by
every committed write, hence by every write operation and every history.
-/
namespace Ledger.Ctrl
open Ledger.Base Ledger.Core

/-- What the reference reading talks about, taken from the actual tables. -/
def view (d : Db) : SpecSt := { schemas := d.schemas, accounts := projAccounts d, txMeta := projTxMeta d }

/-- The tables agree with the journal. -/
def SpecOk (d : Db) : Prop := specOf d.logs = view d

def mkLog (lid : Nat) (p : Payload) (now : Time) (ik ihash sv : String) : Log :=
  { id := lid, payload := p, date := now, ik := ik, ihash := ihash, schemaVersion := sv }

theorem spec_saveAccMeta (now : Time) (strict : Bool) (n : Nat) (sv a : String) (m : Meta) (d1 d2 : Db)
    (sq1 sq2 : Seqs) (p : Payload) (lid : Nat) (ik ihash : String)
    (h : eval now (body strict (.saveAccMeta a m) n (if sv ≠ "" then findSchema sv d1 else none)) d1 sq1 = some (p, d2, sq2)) :
    specStep (view d1) (mkLog lid p now ik ihash sv) = view d2 := by
  simp only [body, saveAccMetaBody, eval, exec, Option.some.injEq, Prod.mk.injEq] at h
  obtain ⟨rfl, rfl, _⟩ := h
  simp only [specStep, mkLog, view, specSave, upsertAccounts, List.foldl_cons, List.foldl_nil, projAccounts_eq,
    save_step, defaults_eq]
  rfl

theorem spec_delAccMeta (now : Time) (strict : Bool) (n : Nat) (sv a key : String) (schema : Option Schema) (d1 d2 : Db)
    (sq1 sq2 : Seqs) (p : Payload) (lid : Nat) (ik ihash : String)
    (h : eval now (body strict (.delAccMeta a key) n schema) d1 sq1 = some (p, d2, sq2)) :
    specStep (view d1) (mkLog lid p now ik ihash sv) = view d2 := by
  simp only [body, eval, exec, Option.some.injEq, Prod.mk.injEq] at h
  obtain ⟨rfl, rfl, _⟩ := h
  simp only [specStep, mkLog, view, deleteAccountMeta_step, (deleteAccountMeta_frame now d1 a key).1]
  have : projTxMeta (deleteAccountMeta now a key d1) = projTxMeta d1 := by
    unfold projTxMeta; rw [(deleteAccountMeta_frame now d1 a key).2]
  rw [this]
  cases (projAccounts d1).get? a <;> rfl

theorem spec_insertSchema (now : Time) (strict : Bool) (n : Nat) (sv version : String)
    (chart : Option (String × List (String × Meta))) (tpls : List String) (bad : Bool) (schema : Option Schema)
    (d1 d2 : Db) (sq1 sq2 : Seqs) (p : Payload) (lid : Nat) (ik ihash : String)
    (h : eval now (body strict (.insertSchema version chart tpls bad) n schema) d1 sq1 = some (p, d2, sq2)) :
    specStep (view d1) (mkLog lid p now ik ihash sv) = view d2 := by
  simp only [body] at h
  cases chart with
  | none => simp only [eval] at h; cases h
  | some c =>
    obtain ⟨raw, table⟩ := c
    simp only at h
    cases bad with
    | true => simp only [↓reduceIte, eval] at h; cases h
    | false =>
      simp only [Bool.false_eq_true, ↓reduceIte, eval, exec, insertSchema] at h
      by_cases hdup : (d1.schemas.any fun x => decide (x.version = version)) = true
      · simp only [hdup, ↓reduceIte, eval] at h; cases h
      · simp only [hdup, Bool.false_eq_true, ↓reduceIte, eval, Option.some.injEq, Prod.mk.injEq] at h
        obtain ⟨rfl, rfl, _⟩ := h
        rfl

theorem modifyTx_frame (d : Db) (id : Nat) (g : Tx → Tx) :
    (d.modifyTx id g).schemas = d.schemas ∧ projAccounts (d.modifyTx id g) = projAccounts d := ⟨rfl, rfl⟩

theorem spec_saveTxMeta (now : Time) (strict : Bool) (n : Nat) (sv : String) (id : Nat) (m : Meta) (schema : Option Schema)
    (d1 d2 : Db) (sq1 sq2 : Seqs) (p : Payload) (lid : Nat) (ik ihash : String)
    (h : eval now (body strict (.saveTxMeta id m) n schema) d1 sq1 = some (p, d2, sq2)) :
    specStep (view d1) (mkLog lid p now ik ihash sv) = view d2 := by
  simp only [body, eval, exec, updateTxMeta] at h
  cases hf : d1.findTx id with
  | none => simp only [hf, eval] at h; cases h
  | some t =>
    simp only [hf, eval, Option.some.injEq, Prod.mk.injEq] at h
    obtain ⟨rfl, rfl, _⟩ := h
    simp only [specStep, mkLog, view]
    rw [projTxMeta_modifyTx d1 id _ (fun old => if metaContains old m then old else metaMerge old m)]
    · rfl
    · intro x; split <;> rfl
    · intro x; split <;> rfl

theorem spec_delTxMeta (now : Time) (strict : Bool) (n : Nat) (sv : String) (id : Nat) (key : String) (schema : Option Schema)
    (d1 d2 : Db) (sq1 sq2 : Seqs) (p : Payload) (lid : Nat) (ik ihash : String)
    (h : eval now (body strict (.delTxMeta id key) n schema) d1 sq1 = some (p, d2, sq2)) :
    specStep (view d1) (mkLog lid p now ik ihash sv) = view d2 := by
  simp only [body, eval, exec, deleteTxMeta] at h
  cases hf : d1.findTx id with
  | none => simp only [hf, eval] at h; cases h
  | some t =>
    simp only [hf, eval] at h
    by_cases hc : t.metadata.contains key = true
    · simp only [hc, ↓reduceIte, eval, Option.some.injEq, Prod.mk.injEq] at h
      obtain ⟨rfl, rfl, _⟩ := h
      simp only [specStep, mkLog, view]
      rw [projTxMeta_modifyTx d1 id _ (fun old => if old.contains key then old.erase key else old)]
      · rfl
      · intro x; split <;> rfl
      · intro x; split <;> rfl
    · simp only [hc, Bool.false_eq_true, ↓reduceIte, eval] at h; cases h

theorem eval_call_some {α : Type} (now : Time) (c : Call) (k : c.Ret → Prog α) (d : Db) (sq : Seqs)
    (x : α × Db × Seqs) (h : eval now (.call c k) d sq = some x) :
    ∃ sq' r d', exec now c d sq = (sq', .ok (r, d')) ∧ eval now (k r) d' sq' = some x := by
  simp only [eval] at h
  split at h
  · cases h
  · rename_i sq' r d' heq
    exact ⟨sq', r, d', heq, h⟩

/-- `CommitTransaction`: schemas and accounts untouched, one row appended. -/
theorem commit_view (now : Time) (t : TxIn) (d : Db) (sq sq' : Seqs) (row : Tx) (d' : Db)
    (h : exec now (.commitTransaction t) d sq = (sq', .ok (row, d'))) :
    d'.schemas = d.schemas ∧ d'.accounts = d.accounts ∧ d'.txs = d.txs ++ [row] := by
  simp only [exec] at h
  have key : ∀ x : Tx × Db, (commitTransaction now t d sq).2 = .ok x →
      x.2.schemas = d.schemas ∧ x.2.accounts = d.accounts ∧ x.2.txs = d.txs ++ [x.1] := by
    intro x hx
    unfold commitTransaction at hx
    cases hid : t.id <;> simp only [hid] at hx <;> split at hx <;> (try split at hx) <;>
      first | (cases hx; exact ⟨rfl, rfl, rfl⟩) | cases hx
  exact key (row, d') (by rw [h])

theorem projTxMeta_append (d d' : Db) (row : Tx) (h : d'.txs = d.txs ++ [row]) :
    projTxMeta d' = projTxMeta d ++ [(row.id, row.metadata)] := by
  unfold projTxMeta; rw [h, List.map_append]; rfl

theorem spec_revert (now : Time) (strict : Bool) (n : Nat) (sv : String) (id : Nat) (force aed : Bool) (m : Meta)
    (schema : Option Schema) (d1 d2 : Db) (sq1 sq2 : Seqs) (p : Payload) (lid : Nat) (ik ihash : String)
    (h : eval now (body strict (.revert id force aed m) n schema) d1 sq1 = some (p, d2, sq2)) :
    specStep (view d1) (mkLog lid p now ik ihash sv) = view d2 := by
  simp only [body, revertBody] at h
  obtain ⟨sqa, r, da, hex, h⟩ := eval_call_some now _ _ d1 sq1 _ h
  simp only [exec, revertTransaction, Prod.mk.injEq] at hex
  obtain ⟨_, hex⟩ := hex
  cases hf : d1.findTx id with
  | none => simp only [hf] at hex; cases hex
  | some t =>
    simp only [hf] at hex
    cases hr : t.revertedAt with
    | some w =>
      simp only [hr, Except.ok.injEq, Prod.mk.injEq] at hex
      obtain ⟨rfl, rfl⟩ := hex
      simp only [Bool.not_false, ↓reduceIte, eval] at h
      cases h
    | none =>
      simp only [hr, Except.ok.injEq, Prod.mk.injEq] at hex
      obtain ⟨rfl, rfl⟩ := hex
      simp only [Bool.not_true, Bool.false_eq_true, ↓reduceIte] at h
      obtain ⟨sqb, bal, db, hexb, h⟩ := eval_call_some now _ _ _ _ _ h
      simp only [exec, getBalances, Prod.mk.injEq, Except.ok.injEq] at hexb
      obtain ⟨_, _, rfl⟩ := hexb
      split at h
      · simp only [eval] at h; cases h
      · obtain ⟨sqc, row, dc, hexc, h⟩ := eval_call_some now _ _ _ _ _ h
        simp only [eval, Option.some.injEq, Prod.mk.injEq] at h
        obtain ⟨rfl, rfl, _⟩ := h
        obtain ⟨hs, ha, ht⟩ := commit_view now _ _ _ _ _ _ hexc
        simp only [specStep, mkLog, view]
        have htx : projTxMeta dc = projTxMeta d1 ++ [(row.id, row.metadata)] := by
          rw [projTxMeta_append _ dc row ht]
          congr 1
          show projTxMeta (d1.modifyTx id _) = projTxMeta d1
          refine ((projTxMeta_modifyTx d1 id _ (fun old => old) ?_ ?_).trans (updTxMeta_id _ _)) <;> intro x <;> rfl
        rw [htx]
        have hacc : projAccounts dc = projAccounts d1 := by
          unfold projAccounts; rw [ha]; rfl
        rw [hacc, hs]
        rfl

/-- The account rows of a committed transaction, folded, are the journal's touches. -/
theorem touch_fold (now ts ins : Time) (schemas : List Schema) (sv : String) (schema : Option Schema)
    (am : Map String Meta)
    (hD : ∀ a, defaultsOf schema a = specDefaults schemas sv a)
    (addrs : List String) (accs : Map String Account) :
    (addrs.foldl (fun acc a => upsertAccount now acc
        { address := a, metadata := (match am.get? a with | some m => m | none => []),
          firstUsage := some ts, insertionDate := some ins, updatedAt := some ins, defaults := defaultsOf schema a })
      accs).map (fun e => (e.1, projAcc e.2)) =
    addrs.foldl (fun acc a => specTouch schemas sv ts ins acc a (match am.get? a with | some m => m | none => []))
      (accs.map fun e => (e.1, projAcc e.2)) := by
  induction addrs generalizing accs with
  | nil => rfl
  | cons a r ih =>
    simp only [List.foldl_cons]
    rw [ih]
    congr 1
    rw [touch_step, hD]
    rfl

theorem spec_create (now : Time) (strict : Bool) (sv : String) (schema : Option Schema) (c : CreateIn)
    (machine : Prog MachineResult) (hm : machine.All Call.LockOnly) (d1 d2 : Db) (sq1 sq2 : Seqs) (p : Payload)
    (lid : Nat) (ik ihash : String) (hD : ∀ a, defaultsOf schema a = specDefaults d1.schemas sv a)
    (h : eval now (createBody strict schema c machine) d1 sq1 = some (p, d2, sq2)) :
    specStep (view d1) (mkLog lid p now ik ihash sv) = view d2 := by
  unfold createBody at h
  by_cases htr : templateRefused strict schema c.template = true
  · rw [if_pos htr] at h; simp only [eval] at h; cases h
  · rw [if_neg htr] at h
    obtain ⟨r, dm, sqm, hmach, h⟩ := eval_bind_some now _ _ _ _ _ h
    obtain ⟨hms, hma, hmt, _⟩ := eval_lockOnly now machine hm d1 sq1 _ hmach
    simp only at hms hma hmt
    by_cases hp : r.postings = []
    · rw [if_pos hp] at h; simp only [eval] at h; cases h
    · rw [if_neg hp] at h
      by_cases ho : metaOverride r.txMeta c.metadata = true
      · rw [if_pos ho] at h; simp only [eval] at h; cases h
      · rw [if_neg ho] at h
        obtain ⟨sqc, row, dc, hexc, h⟩ := eval_call_some now _ _ _ _ _ h
        obtain ⟨hs, ha, ht⟩ := commit_view now _ _ _ _ _ _ hexc
        simp only [eval, exec, Option.some.injEq, Prod.mk.injEq] at h
        obtain ⟨rfl, rfl, _⟩ := h
        simp only [specStep, mkLog, view]
        have htx : projTxMeta (upsertAccounts now (accountRows schema row
              (mergeAccountMeta r.accountMeta c.accountMeta)) dc) = projTxMeta d1 ++ [(row.id, row.metadata)] := by
          show projTxMeta dc = _
          rw [projTxMeta_append dm dc row ht]
          unfold projTxMeta; rw [hmt]
        rw [htx]
        have hsch : (upsertAccounts now (accountRows schema row
              (mergeAccountMeta r.accountMeta c.accountMeta)) dc).schemas = d1.schemas := by
          show dc.schemas = _; rw [hs, hms]
        rw [hsch]
        have hacc : projAccounts (upsertAccounts now (accountRows schema row
              (mergeAccountMeta r.accountMeta c.accountMeta)) dc) =
            (accountsToUpsert row.postings (mergeAccountMeta r.accountMeta c.accountMeta)).foldl
              (fun acc a => specTouch d1.schemas sv row.timestamp row.insertedAt acc a
                (match (mergeAccountMeta r.accountMeta c.accountMeta).get? a with | some m => m | none => []))
              (projAccounts d1) := by
          rw [projAccounts_eq, projAccounts_eq]
          simp only [upsertAccounts, accountRows, List.foldl_map, ha, hma]
          exact touch_fold now row.timestamp row.insertedAt d1.schemas sv schema _ hD _ _
        rw [hacc]
        rfl

/-- Every operation's function, seen from the journal. -/
theorem body_spec (now : Time) (strict : Bool) (kind : OpKind) (n : Nat) (sv : String) (d1 d2 : Db)
    (sq1 sq2 : Seqs) (p : Payload) (lid : Nat) (ik ihash : String)
    (h : eval now (body strict kind n (if sv ≠ "" then findSchema sv d1 else none)) d1 sq1 = some (p, d2, sq2)) :
    specStep (view d1) (mkLog lid p now ik ihash sv) = view d2 := by
  cases kind with
  | createP c ps force =>
    exact spec_create now strict sv _ c _ (postingsMachine_lockOnly ps force) d1 d2 sq1 sq2 p lid ik ihash
      (fun a => defaults_eq d1 sv a) h
  | createS c obs =>
    exact spec_create now strict sv _ c _ (scriptMachine_lockOnly obs n) d1 d2 sq1 sq2 p lid ik ihash
      (fun a => defaults_eq d1 sv a) h
  | revert id force aed m => exact spec_revert now strict n sv id force aed m _ d1 d2 sq1 sq2 p lid ik ihash h
  | saveTxMeta id m => exact spec_saveTxMeta now strict n sv id m _ d1 d2 sq1 sq2 p lid ik ihash h
  | saveAccMeta a m => exact spec_saveAccMeta now strict n sv a m d1 d2 sq1 sq2 p lid ik ihash h
  | delTxMeta id key => exact spec_delTxMeta now strict n sv id key _ d1 d2 sq1 sq2 p lid ik ihash h
  | delAccMeta a key => exact spec_delAccMeta now strict n sv a key _ d1 d2 sq1 sq2 p lid ik ihash h
  | insertSchema v chart tpls bad => exact spec_insertSchema now strict n sv v chart tpls bad _ d1 d2 sq1 sq2 p lid ik ihash h

theorem eval_schemaPhase (now : Time) (strict : Bool) (kind : OpKind) (sv : String) (d : Db) (sq : Seqs)
    (x : Option Schema × Db × Seqs) (h : eval now (schemaPhase strict kind sv) d sq = some x) :
    x.1 = (if sv ≠ "" then findSchema sv d else none) ∧ x.2.1 = d := by
  unfold schemaPhase at h
  by_cases hsv : sv = ""
  · simp only [hsv, ne_eq, not_true_eq_false, ↓reduceIte] at h ⊢
    split at h
    · simp only [eval, exec] at h
      split at h
      · cases h
      · simp only [eval, Option.some.injEq] at h; subst h; exact ⟨rfl, rfl⟩
    · simp only [eval, Option.some.injEq] at h; subst h; exact ⟨rfl, rfl⟩
  · simp only [ne_eq, hsv, not_false_eq_true, ↓reduceIte, eval, exec] at h ⊢
    cases hf : findSchema sv d with
    | none => simp only [hf, eval, exec] at h; cases h
    | some sc => simp only [hf, eval, Option.some.injEq] at h; subst h; exact ⟨rfl, rfl⟩

theorem eval_logPhase (now : Time) (strict : Bool) (ik ihash sv : String) (schema : Option Schema) (p : Payload)
    (d : Db) (sq : Seqs) (x : Log × Db × Seqs) (h : eval now (logPhase strict ik ihash sv schema p) d sq = some x) :
    ∃ lid, x.1 = mkLog lid p now ik ihash sv ∧ view x.2.1 = view d := by
  have key : ∀ y : Log × Db × Seqs,
      eval now (Prog.call (Call.insertLog { payload := p, ik := ik, ihash := ihash, schemaVersion := sv }) Prog.pure) d sq
        = some y → ∃ lid, y.1 = mkLog lid p now ik ihash sv ∧ view y.2.1 = view d := by
    intro y hy
    simp only [eval, exec, insertLog] at hy
    split at hy
    · cases hy
    · rename_i sq' r d' heq
      simp only [eval, Option.some.injEq] at hy
      subst hy
      split at heq
      · simp only [Prod.mk.injEq] at heq; exact nomatch heq.2
      · split at heq
        · simp only [Prod.mk.injEq] at heq; exact nomatch heq.2
        · simp only [Prod.mk.injEq, Except.ok.injEq] at heq
          obtain ⟨_, rfl, rfl⟩ := heq
          exact ⟨_, rfl, rfl⟩
  unfold logPhase at h
  cases schema with
  | none => simp only [Bool.false_eq_true, ↓reduceIte] at h; exact key x h
  | some sc =>
    simp only at h
    by_cases hb : (strict && !validPayload sc p) = true
    · rw [if_pos hb] at h; simp only [eval] at h; cases h
    · rw [if_neg hb] at h; exact key x h

/-- A complete `runLog` keeps the tables in agreement with the journal. -/
theorem runLog_spec (now : Time) (hn : String) (f : Faults) (strict : Bool) (kind : OpKind)
    (ik ihash sv : String) (n : Nat) (st0 st : RunSt) (log : Log)
    (h : run now hn f (runLog strict kind ik ihash sv n) st0 = (.ok log, st)) (hs : SpecOk st0.db) :
    SpecOk st.db := by
  have happ := run_runLog_ok now hn f strict kind ik ihash sv n st0 st log h
  have hev := run_ok_eval now hn f _ st0 st log h
  unfold runLog at hev
  obtain ⟨schema, d1, sq1, h1, hev⟩ := eval_bind_some now _ _ _ _ _ hev
  obtain ⟨hsch, hd1⟩ := eval_schemaPhase now strict kind sv _ _ _ h1
  simp only at hsch hd1
  subst hd1
  obtain ⟨p, d2, sq2, h2, h3⟩ := eval_bind_some now _ _ _ _ _ hev
  obtain ⟨lid, hlog, hview⟩ := eval_logPhase now strict ik ihash sv schema p d2 sq2 _ h3
  simp only at hlog hview
  rw [hsch] at h2
  have hb := body_spec now strict kind n sv st0.db d2 sq1 sq2 p lid ik ihash h2
  unfold SpecOk at *
  rw [happ.logs, specOf, List.foldl_append, List.foldl_cons, List.foldl_nil]
  show specStep (specOf st0.db.logs) log = view st.db
  rw [hs, hlog, hb, hview]

theorem SpecOk.empty : SpecOk {} := rfl

/-- Every write operation — with or without faults — keeps the tables in agreement
    with the journal. -/
theorem forgeLog_spec (strict : Bool) (op : Op) (f : Faults) (cf : Bool) (s : State) (h : SpecOk s.db) :
    SpecOk (forgeLog strict op f cf s).state.db := by
  rcases forgeLog_ending strict op f cf s with ⟨hu, _, _⟩ | ⟨st0, st, log, hn, f', n, _, h0, _, hrun, hc⟩
  · rw [hu]; exact h
  · rw [hc.1]
    exact runLog_spec op.now hn f' strict op.kind op.ik op.ihash op.sv n st0 st log hrun (by rw [h0]; exact h)

theorem runHist_spec (strict : Bool) (s : State) (ops : List Op) (h : SpecOk s.db) :
    SpecOk (runHist strict s ops).db := by
  induction ops generalizing s with
  | nil => exact h
  | cons op r ih => exact ih _ (forgeLog_spec strict op [] false s h)

end Ledger.Ctrl
