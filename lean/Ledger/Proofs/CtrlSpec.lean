import Ledger.Proofs.CtrlSpecStep

/-!
The tables equal the reference reading of the journal (`specOf`): preserved by
every committed write, hence by every write operation and every history.
-/
namespace Ledger.Ctrl
open Ledger.Base Ledger.Core

/-- What the reference reading talks about, taken from the actual tables. -/
def view (d : Db) : SpecSt := { schemas := d.schemas, accounts := projAccounts d, txMeta := projTxMeta d }

/-- The tables agree with the journal. -/
def SpecOk (d : Db) : Prop := specOf d.logs = view d

def mkLog (lid : Nat) (p : Payload) (now : Time) (ik ihash sv : String) : Log :=
  { id := lid, payload := p, date := now, ik := ik, ihash := ihash, schemaVersion := sv }

theorem spec_saveAccMeta (now : Time) (strict : Bool) (n : Nat) (sv a : String) (m : Meta) (d1 d2 : Db)
    (sq1 sq2 : Seqs) (p : Payload) (lid : Nat) (ik ihash : String)
    (h : eval now (body strict (.saveAccMeta a m) n (if sv ≠ "" then findSchema sv d1 else none)) d1 sq1 = some (p, d2, sq2)) :
    specStep (view d1) (mkLog lid p now ik ihash sv) = view d2 := by
  simp only [body, saveAccMetaBody, eval, exec, Option.some.injEq, Prod.mk.injEq] at h
  obtain ⟨rfl, rfl, _⟩ := h
  simp only [specStep, mkLog, view, specSave, upsertAccounts, List.foldl_cons, List.foldl_nil, projAccounts_eq,
    save_step, defaults_eq]
  rfl

theorem spec_delAccMeta (now : Time) (strict : Bool) (n : Nat) (sv a key : String) (schema : Option Schema) (d1 d2 : Db)
    (sq1 sq2 : Seqs) (p : Payload) (lid : Nat) (ik ihash : String)
    (h : eval now (body strict (.delAccMeta a key) n schema) d1 sq1 = some (p, d2, sq2)) :
    specStep (view d1) (mkLog lid p now ik ihash sv) = view d2 := by
  simp only [body, eval, exec, Option.some.injEq, Prod.mk.injEq] at h
  obtain ⟨rfl, rfl, _⟩ := h
  simp only [specStep, mkLog, view, deleteAccountMeta_step, (deleteAccountMeta_frame d1 a key).1]
  have : projTxMeta (deleteAccountMeta a key d1) = projTxMeta d1 := by
    unfold projTxMeta; rw [(deleteAccountMeta_frame d1 a key).2]
  rw [this]
  cases (projAccounts d1).get? a <;> rfl

theorem spec_insertSchema (now : Time) (strict : Bool) (n : Nat) (sv version : String)
    (chart : Option (String × List (String × Meta))) (tpls : List String) (bad : Bool) (schema : Option Schema)
    (d1 d2 : Db) (sq1 sq2 : Seqs) (p : Payload) (lid : Nat) (ik ihash : String)
    (h : eval now (body strict (.insertSchema version chart tpls bad) n schema) d1 sq1 = some (p, d2, sq2)) :
    specStep (view d1) (mkLog lid p now ik ihash sv) = view d2 := by
  simp only [body] at h
  cases chart with
  | none => simp only [eval] at h; cases h
  | some c =>
    obtain ⟨raw, table⟩ := c
    simp only at h
    cases bad with
    | true => simp only [↓reduceIte, eval] at h; cases h
    | false =>
      simp only [Bool.false_eq_true, ↓reduceIte, eval, exec, insertSchema] at h
      by_cases hdup : (d1.schemas.any fun x => decide (x.version = version)) = true
      · simp only [hdup, ↓reduceIte, eval] at h; cases h
      · simp only [hdup, Bool.false_eq_true, ↓reduceIte, eval, Option.some.injEq, Prod.mk.injEq] at h
        obtain ⟨rfl, rfl, _⟩ := h
        rfl

theorem modifyTx_frame (d : Db) (id : Nat) (g : Tx → Tx) :
    (d.modifyTx id g).schemas = d.schemas ∧ projAccounts (d.modifyTx id g) = projAccounts d := ⟨rfl, rfl⟩

theorem spec_saveTxMeta (now : Time) (strict : Bool) (n : Nat) (sv : String) (id : Nat) (m : Meta) (schema : Option Schema)
    (d1 d2 : Db) (sq1 sq2 : Seqs) (p : Payload) (lid : Nat) (ik ihash : String)
    (h : eval now (body strict (.saveTxMeta id m) n schema) d1 sq1 = some (p, d2, sq2)) :
    specStep (view d1) (mkLog lid p now ik ihash sv) = view d2 := by
  simp only [body, eval, exec, updateTxMeta] at h
  cases hf : d1.findTx id with
  | none => simp only [hf, eval] at h; cases h
  | some t =>
    simp only [hf, eval, Option.some.injEq, Prod.mk.injEq] at h
    obtain ⟨rfl, rfl, _⟩ := h
    simp only [specStep, mkLog, view]
    rw [projTxMeta_modifyTx d1 id _ (fun old => if metaContains old m then old else metaMerge old m)]
    · rfl
    · intro x; split <;> rfl
    · intro x; split <;> rfl

theorem spec_delTxMeta (now : Time) (strict : Bool) (n : Nat) (sv : String) (id : Nat) (key : String) (schema : Option Schema)
    (d1 d2 : Db) (sq1 sq2 : Seqs) (p : Payload) (lid : Nat) (ik ihash : String)
    (h : eval now (body strict (.delTxMeta id key) n schema) d1 sq1 = some (p, d2, sq2)) :
    specStep (view d1) (mkLog lid p now ik ihash sv) = view d2 := by
  simp only [body, eval, exec, deleteTxMeta] at h
  cases hf : d1.findTx id with
  | none => simp only [hf, eval] at h; cases h
  | some t =>
    simp only [hf, eval] at h
    by_cases hc : t.metadata.contains key = true
    · simp only [hc, ↓reduceIte, eval, Option.some.injEq, Prod.mk.injEq] at h
      obtain ⟨rfl, rfl, _⟩ := h
      simp only [specStep, mkLog, view]
      rw [projTxMeta_modifyTx d1 id _ (fun old => if old.contains key then old.erase key else old)]
      · rfl
      · intro x; split <;> rfl
      · intro x; split <;> rfl
    · simp only [hc, Bool.false_eq_true, ↓reduceIte, eval] at h; cases h

end Ledger.Ctrl
