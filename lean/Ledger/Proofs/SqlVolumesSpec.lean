import Ledger.Proofs.SqlVolumesStmt
import Ledger.Proofs.CoreMap
import Ledger.Spec.Store

/-!
# `UpdateVolumes` against `Spec.upsertVolumes`

`avAbs` is the abstraction function (the rows of a ledger as the running transaction reads
them, as a partial map key ↦ volumes). `updateVolumes_bridge`: running the generated
statement from a state abstracting to `av` succeeds, returns the rows of
`(Spec.upsertVolumes av vu).2` and ends in a state abstracting to `(Spec.upsertVolumes av vu).1`.
-/
open Ledger.Sql Ledger.Generated
open Ledger.Generated.WriteSql.P (VolumeRow)
open Ledger.Base Ledger.Core

namespace Ledger.Sql

/-- the `VALUES` rows as the volume updates of the Spec -/
def vuOf (rows : List VolumeRow) : PCV :=
  rows.map (fun r => ((r.accounts_address, r.asset), ⟨r.input_, r.output_⟩))

/-- `accounts_volumes` of ledger `l` as the running transaction reads it: the abstraction function -/
def avView (lv : View) (rs : List Ver) (l : String) (k : Key) : Option Volumes :=
  (avGet lv rs l k.1 k.2).map (fun p => ⟨p.1, p.2⟩)

/-- the same, from a state -/
def avAbs (s : St) (b l : String) (k : Key) : Option Volumes :=
  match s.w.table? (avFull b) with
  | some t => avView (latestView s.w s.xid) t.rows l k
  | none => none

theorem upsertRow_insertWith (av : PCV) (hw : Map.WF av) (k k' : Key) (v v' : Volumes) (hne : k' ≠ k) :
    Spec.upsertRow (Map.insertWith Volumes.add k v av) k' v' = Spec.upsertRow av k' v' := by
  unfold Spec.upsertRow
  rw [Map.get?_insertWith _ _ _ hw, if_neg hne]

/-- The pure run against the Spec: look-ups of ledger `l` follow `Spec.upsertVolumes`, the RETURNING
    values are `upsertRow`, other ledgers are untouched, the invariants are kept. -/
theorem avRun_spec (w : World) (xid cid : Nat) (hx : xid ≠ 0) (hc : cid < 1000000000) (l : String) :
    ∀ (rows : List VolumeRow) (rs : List Ver) (nr : Nat) (av : PCV),
      AvInv (latestView w xid) rs nr → Map.WF av → (∀ k, avView (latestView w xid) rs l k = av.get? k) →
      (rows.map avKeyOf).Nodup →
      (∀ k, avView (latestView w xid) (avRun (latestView w xid) xid cid l rows (rs, nr)).1.1 l k =
          (Spec.upsertVolumes av (vuOf rows)).1.get? k) ∧
      (avRun (latestView w xid) xid cid l rows (rs, nr)).2.map (fun p => (⟨p.1, p.2⟩ : Volumes)) =
          (Spec.upsertVolumes av (vuOf rows)).2.map (·.2) ∧
      (∀ l', l' ≠ l → ∀ k, avView (latestView w xid) (avRun (latestView w xid) xid cid l rows (rs, nr)).1.1 l' k =
          avView (latestView w xid) rs l' k) ∧
      AvInv (latestView w xid) (avRun (latestView w xid) xid cid l rows (rs, nr)).1.1
          (avRun (latestView w xid) xid cid l rows (rs, nr)).1.2 := by
  intro rows
  induction rows with
  | nil =>
    intro rs nr av hinv _ habs _
    simp [avRun, vuOf, Spec.upsertVolumes, Map.mapVal, habs, hinv]
  | cons r rest ih =>
    intro rs nr av hinv hwf habs hnodup
    have hnd := List.nodup_cons.mp hnodup
    -- the first row
    have hsame := avGet_step_same w xid cid l r.accounts_address r.asset r.input_ r.output_ rs nr hx hc
    have hother := avGet_step_other w xid cid l r.accounts_address r.asset r.input_ r.output_ rs nr hx hc hinv
    have hinv1 := avStep_inv w xid cid l r.accounts_address r.asset r.input_ r.output_ rs nr hx hc hinv
    let av1 : PCV := Map.insertWith Volumes.add (r.accounts_address, r.asset) ⟨r.input_, r.output_⟩ av
    have hwf1 : Map.WF av1 := Map.WF_insertWith _ _ _ hwf
    have habs_k := habs (r.accounts_address, r.asset)
    simp only [avView] at habs_k
    have habs1 : ∀ k, avView (latestView w xid) (avStep (latestView w xid) xid cid l r.accounts_address r.asset r.input_ r.output_ (rs, nr)).1.1 l k = av1.get? k := by
      intro k
      show _ = Map.get? (Map.insertWith Volumes.add (r.accounts_address, r.asset) ⟨r.input_, r.output_⟩ av) k
      rw [Map.get?_insertWith _ _ _ hwf]
      by_cases hk : k = (r.accounts_address, r.asset)
      · subst hk
        simp only [avView, if_true, hsame.1, hsame.2, Option.map_some]
        cases hg : avGet (latestView w xid) rs l r.accounts_address r.asset with
        | none => rw [hg] at habs_k; simp [← habs_k]
        | some v => rw [hg] at habs_k; simp [← habs_k, Volumes.add]
      · rw [if_neg hk, ← habs k]
        simp only [avView]
        rw [hother l k.1 k.2 (by
          intro ⟨_, h2, h3⟩
          exact hk (Prod.ext h2.symm h3.symm))]
    obtain ⟨ih1, ih2, ih3, ih4⟩ := ih _ _ av1 hinv1 hwf1 habs1 hnd.2
    refine ⟨?_, ?_, ?_, ?_⟩
    · intro k
      simpa [avRun, vuOf, Spec.upsertVolumes] using ih1 k
    · simp only [avRun, List.map_cons, vuOf, Spec.upsertVolumes, Map.mapVal] at ih2 ⊢
      rw [ih2]
      congr 1
      · simp only [hsame.2, Spec.upsertRow]
        cases hg : avGet (latestView w xid) rs l r.accounts_address r.asset with
        | none => rw [hg] at habs_k; simp [← habs_k]
        | some v => rw [hg] at habs_k; simp [← habs_k, Volumes.add]
      · simp only [List.map_map]
        apply List.map_congr_left
        intro q hq
        simp only [Function.comp]
        apply upsertRow_insertWith av hwf
        intro e
        exact hnd.1 (by rw [show avKeyOf r = (q.accounts_address, q.asset) from e.symm]; exact List.mem_map_of_mem hq)
    · intro l' hl k
      rw [show (avRun (latestView w xid) xid cid l (r :: rest) (rs, nr)).1.1 =
        (avRun (latestView w xid) xid cid l rest (avStep (latestView w xid) xid cid l r.accounts_address r.asset r.input_ r.output_ (rs, nr)).1).1.1 from rfl]
      rw [ih3 l' hl k]
      simp only [avView]
      rw [hother l' k.1 k.2 (by intro ⟨h1, _, _⟩; exact hl h1.symm)]
    · exact ih4


/-- the rows of the other ledgers are not touched (no reference to the Spec) -/
theorem avRun_other (w : World) (xid cid : Nat) (hx : xid ≠ 0) (hc : cid < 1000000000) (l : String) :
    ∀ (rows : List VolumeRow) (rs : List Ver) (nr : Nat), AvInv (latestView w xid) rs nr →
      ∀ l', l' ≠ l → ∀ k, avView (latestView w xid) (avRun (latestView w xid) xid cid l rows (rs, nr)).1.1 l' k =
          avView (latestView w xid) rs l' k := by
  intro rows
  induction rows with
  | nil => intro rs nr _ l' _ k; rfl
  | cons r rest ih =>
    intro rs nr hinv l' hl k
    have hother := avGet_step_other w xid cid l r.accounts_address r.asset r.input_ r.output_ rs nr hx hc hinv
    have hinv1 := avStep_inv w xid cid l r.accounts_address r.asset r.input_ r.output_ rs nr hx hc hinv
    rw [show (avRun (latestView w xid) xid cid l (r :: rest) (rs, nr)).1.1 =
      (avRun (latestView w xid) xid cid l rest (avStep (latestView w xid) xid cid l r.accounts_address r.asset r.input_ r.output_ (rs, nr)).1).1.1 from rfl]
    rw [ih _ _ hinv1 l' hl k]
    simp only [avView]
    rw [hother l' k.1 k.2 (by intro ⟨h1, _, _⟩; exact hl h1.symm)]

/-- a key that no row mentions keeps its value -/
theorem get?_upsert_notMem (vu : PCV) : ∀ (av : PCV), Map.WF av → ∀ k, k ∉ vu.map (·.1) →
    (Spec.upsertVolumes av vu).1.get? k = av.get? k := by
  induction vu with
  | nil => intro av _ k _; rfl
  | cons e r ih =>
    intro av hwf k hk
    obtain ⟨k1, v1⟩ := e
    simp only [List.map_cons, List.mem_cons, not_or] at hk
    show (Spec.upsertVolumes (Map.insertWith Volumes.add k1 v1 av) r).1.get? k = _
    rw [ih _ (Map.WF_insertWith _ _ _ hwf) k hk.2, Map.get?_insertWith _ _ _ hwf, if_neg hk.1]

/-- a key mentioned by a row (keys distinct) reads old + excluded, or the inserted values -/
theorem get?_upsert_mem (vu : PCV) : ∀ (av : PCV), Map.WF av → (vu.map (·.1)).Nodup → ∀ k v, (k, v) ∈ vu →
    (Spec.upsertVolumes av vu).1.get? k = some (Spec.upsertRow av k v) := by
  induction vu with
  | nil => intro av _ _ k v h; simp at h
  | cons e r ih =>
    intro av hwf hnd k v hmem
    obtain ⟨k1, v1⟩ := e
    have hnd' := List.nodup_cons.mp hnd
    show (Spec.upsertVolumes (Map.insertWith Volumes.add k1 v1 av) r).1.get? k = _
    rcases List.mem_cons.mp hmem with e | hin
    · cases e
      rw [get?_upsert_notMem r _ (Map.WF_insertWith _ _ _ hwf) k hnd'.1, Map.get?_insertWith _ _ _ hwf, if_pos rfl]
      unfold Spec.upsertRow
      cases Map.get? av k <;> rfl
    · have hne : k ≠ k1 := by
        intro e; subst e
        exact hnd'.1 (List.mem_map_of_mem (f := (·.1)) hin)
      rw [ih _ (Map.WF_insertWith _ _ _ hwf) hnd'.2 k v hin, upsertRow_insertWith av hwf k1 k v1 v hne]

theorem vuOf_keys (rows : List VolumeRow) : (vuOf rows).map (·.1) = rows.map avKeyOf := by
  simp [vuOf, avKeyOf, List.map_map, Function.comp]

theorem avAbs_of_table {s : St} {b : String} {rs : List Ver} {nr : Nat} (h : s.w.table? (avFull b) = some (avT b rs nr))
    (l : String) (k : Key) : avAbs s b l k = avView (latestView s.w s.xid) rs l k := by
  simp [avAbs, h, avT]

open Ledger.Generated.WriteSql in
/-- The bridge: `UpdateVolumes(rows)` evaluated by LeanPG on the generated AST, from any state whose
    `accounts_volumes` abstracts to `av`, is `Spec.upsertVolumes av (vuOf rows)`. -/
theorem updateVolumes_bridge (n : Nat) (env : Env) (b l : String) (id : Nat) (hb : b.isEmpty = false)
    (s : St) (rs : List Ver) (nr : Nat) (hs : AvState s b l rs nr)
    (rows : List VolumeRow) (hne : rows ≠ []) (hnodup : (rows.map avKeyOf).Nodup)
    (av : PCV) (hwf : Map.WF av) (habs : ∀ k, avAbs s b l k = av.get? k) :
    ∃ s', ((P.updateVolumes b l id rows).mapM (runStmt (n + 7) env)).exec s =
        (.ok [{ rel := { cols := ["input", "output"],
                         rows := (Spec.upsertVolumes av (vuOf rows)).2.map (fun e => [.int e.2.input, .int e.2.output]) },
                affected := rows.length }], s') ∧
      (∀ k, avAbs s' b l k = (Spec.upsertVolumes av (vuOf rows)).1.get? k) ∧
      (∀ l', l' ≠ l → ∀ k, avAbs s' b l' k = avAbs s b l' k) ∧
      (∃ rs' nr', s' = s.withTable (avT b rs' nr') ∧ AvInv (latestView s.w s.xid) rs' nr') := by
  have habs' : ∀ k, avView (latestView s.w s.xid) rs l k = av.get? k := fun k => by
    rw [← avAbs_of_table hs.table]; exact habs k
  obtain ⟨h1, h2, h3, h4⟩ := avRun_spec s.w s.xid s.cid hs.xid hs.cid l rows rs nr av hs.inv hwf habs' hnodup
  have hT' := withTable_av_table? s b rs (avRun (latestView s.w s.xid) s.xid s.cid l rows (rs, nr)).1.1 nr
    (avRun (latestView s.w s.xid) s.xid s.cid l rows (rs, nr)).1.2 hs.table
  refine ⟨_, ?_, ?_, ?_, ⟨_, _, rfl, h4⟩⟩
  · rw [exec_updateVolumes n env b l id hb s rs nr hs rows hne hnodup]
    have : (avRun (latestView s.w s.xid) s.xid s.cid l rows (rs, nr)).2.map (fun p => [Value.int p.1, Value.int p.2]) =
        (Spec.upsertVolumes av (vuOf rows)).2.map (fun e => [Value.int e.2.input, Value.int e.2.output]) := by
      have := congrArg (List.map (fun v : Volumes => [Value.int v.input, Value.int v.output])) h2
      rw [List.map_map, List.map_map] at this
      exact this
    rw [this]
  · intro k
    rw [avAbs_of_table hT']
    exact h1 k
  · intro l' hl k
    rw [avAbs_of_table hT', avAbs_of_table hs.table]
    exact h3 l' hl k

end Ledger.Sql
