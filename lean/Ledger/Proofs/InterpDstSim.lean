import Ledger.Proofs.InterpDst
import Ledger.Proofs.InterpAllotBase

/-!
`dst_sim` / `kd_sim` / `inorder_sim` / `allotdst_sim`: the simulation of kept-free
destinations (account, in-order, allotment), by mutual structural induction.
-/
namespace Ledger.Interp
open Ledger.Machine

/-! ## Sending nothing is a no-op for the interpreter -/

theorem sendInOrder_zero {env ienv : Env} (heq : EnvEq env ienv) (henv : EnvOK env) {c : String}
    (items : InOrderDstList) (hwf : inOrderWf env c items = true) (ist : IState) (hc : ist.asset = c) :
    sendInOrder ienv items 0 ist = .ok (0, ist) := by
  cases items with
  | nil => rfl
  | cons m d rest =>
    simp only [inOrderWf, Bool.and_eq_true] at hwf
    obtain ⟨hlm, cap, hcap, _⟩ := okCap_spec hwf.1.1
    simp [sendInOrder, hc, evalMonOf_agree heq henv hlm hcap]

theorem AllotDstList.portions_length : (items : AllotDstList) → items.portions.length = items.length
  | .nil => rfl
  | .cons _ _ rest => by
    simp [AllotDstList.portions, AllotDstList.length, AllotDstList.portions_length rest]

mutual
  theorem sendTo_zero {env ienv : Env} (heq : EnvEq env ienv) (henv : EnvOK env) {c : String} :
      (d : Dest) → dstWf env c d = true → ∀ (ist : IState), ist.asset = c →
      Interp.sendTo ienv d 0 ist = .ok ist
    | .account e, hwf, ist, _ => by
      obtain ⟨hl, a, ha, _⟩ := okAcct_spec (by simpa [dstWf] using hwf)
      simp [Interp.sendTo, evalAcct_agree heq henv hl ha, pushReceiver]
    | .inorder items remaining, hwf, ist, hc => by
      simp only [dstWf, Bool.and_eq_true] at hwf
      simp [Interp.sendTo, sendInOrder_zero heq henv items hwf.1 ist hc]
    | .allot items, hwf, ist, hc => by
      simp only [dstWf, Bool.and_eq_true] at hwf
      obtain ⟨a, hm, _, _, hi⟩ := makeAllotment_agree ienv hwf.1
      have hlen : (allocate a 0).length = items.length := by
        rw [allocate_length_eq, makeAllotment_length hm, AllotDstList.portions_length]
      simp only [Interp.sendTo, hi 0]
      exact sendAllot_zero heq henv items hwf.2 (allocate a 0) hlen (allocate_zero a) ist hc
  theorem sendKD_zero {env ienv : Env} (heq : EnvEq env ienv) (henv : EnvOK env) {c : String} :
      (d : KeptOrDest) → kdWf env c d = true → ∀ (ist : IState), ist.asset = c →
      sendKD ienv d 0 ist = .ok ist
    | .kept, hwf, _, _ => by simp [kdWf] at hwf
    | .to d, hwf, ist, hc => by
      simpa [sendKD] using sendTo_zero heq henv d (by simpa [kdWf] using hwf) ist hc
  theorem sendAllot_zero {env ienv : Env} (heq : EnvEq env ienv) (henv : EnvOK env) {c : String} :
      (items : AllotDstList) → allotDstWf env c items = true → ∀ (ps : List Int),
      ps.length = items.length → (∀ p ∈ ps, p = 0) → ∀ (ist : IState), ist.asset = c →
      sendAllot ienv items ps ist = .ok ist
    | .nil, _, ps, _, _, ist, _ => by simp [sendAllot]
    | .cons _ d rest, hwf, ps, hlen, hz, ist, hc => by
      simp only [allotDstWf, Bool.and_eq_true] at hwf
      cases ps with
      | nil => simp [AllotDstList.length] at hlen
      | cons p ps =>
        have hp : p = 0 := hz p (by simp)
        subst hp
        simp only [sendAllot, sendKD_zero heq henv d hwf.1 ist hc]
        exact sendAllot_zero heq henv rest hwf.2 ps (by simpa [AllotDstList.length] using hlen)
          (fun q hq => hz q (by simp [hq])) ist hc
end

theorem list_sum_nonneg (ps : List Int) (h : ∀ p ∈ ps, 0 ≤ p) : 0 ≤ ps.sum := by
  induction ps with
  | nil => simp
  | cons p ps ih =>
    have := h p (by simp)
    have := ih (fun q hq => h q (by simp [hq]))
    simp; omega

theorem zeroHead_reverse_units (ps : List Part) (a : Int) : units (zeroHead ps a).reverse = [] := by
  unfold zeroHead
  split
  · split <;> simp
  · rfl

mutual
  theorem dst_sim {env ienv : Env} (heq : EnvEq env ienv) (henv : EnvOK env)
      {P : List (String × String)} {c : String} (hvc : validAsset c = true) :
      (d : Dest) → dstWf env c d = true →
      ∀ (f : List Part) (Z : List String) (st : State) (ist : IState), partsNonneg f →
        DRel P c st ist → units ist.queue = units f ++ Z →
      ∃ rem st' ist', evalDest env c d f st = .ok (rem, st') ∧ partsNonneg rem ∧ units rem = [] ∧
        Interp.sendTo ienv d (total f) ist = .ok ist' ∧ DRel P c st' ist' ∧ units ist'.queue = Z
    | .account e, hwf, f, Z, st, ist, hn, hd, hq =>
      dst_account heq henv hvc (by simpa [dstWf] using hwf) hn hd hq
    | .inorder items remaining, hwf, f, Z, st, ist, hn, hd, hq => by
      simp only [dstWf, Bool.and_eq_true] at hwf
      obtain ⟨f1, st1, left', ist1, h1, h2, h3, h4, h5, h6⟩ :=
        inorder_sim heq henv hvc items hwf.1 f Z st ist hn hd hq
      obtain ⟨r, st2, ist2, k1, k2, k3, k4, k5, k6⟩ :=
        kd_sim heq henv hvc remaining hwf.2 f1 Z st1 ist1 h2 h5 h6
      refine ⟨concatParts r (zeroHead f1.reverse 0).reverse, st2, ist2, ?_, ?_, ?_, ?_, k5, k6⟩
      · simp [evalDest, h1, take_zero, k1]
      · exact concatParts_nonneg _ _ k2 (partsNonneg_reverse (zeroHead_nonneg _ _))
      · rw [concatParts_units _ _ k2 (partsNonneg_reverse (zeroHead_nonneg _ _)), k3,
          zeroHead_reverse_units]; rfl
      · simp only [Interp.sendTo, h3]
        by_cases hz : left' = 0
        · rw [if_pos hz]
          rw [← h4, hz, sendKD_zero heq henv remaining hwf.2 ist1 h5.asset] at k4
          cases k4; rfl
        · rw [if_neg hz, h4]; exact k4
    | .allot items, hwf, f, Z, st, ist, hn, hd, hq => by
      simp only [dstWf, Bool.and_eq_true] at hwf
      obtain ⟨a, hm, hsum, hpos, hi⟩ := makeAllotment_agree ienv hwf.1
      have h0 := total_nonneg f hn
      have hlen : (allocate a (total f)).length = items.length := by
        rw [allocate_length_eq, makeAllotment_length hm, AllotDstList.portions_length]
      obtain ⟨rem, st', ist', k1, k2, k3, k4, k5, k6⟩ :=
        allotdst_sim heq henv hvc items hwf.2 (allocate a (total f)) f Z st ist hlen
          (allocate_mem_nonneg a _ hsum h0 hpos) (allocate_sum_eq a _ hsum) hn hd hq
      exact ⟨rem, st', ist', by simp [evalDest, hm, k1], k2, k3, by simp [Interp.sendTo, hi, k4], k5, k6⟩
  theorem kd_sim {env ienv : Env} (heq : EnvEq env ienv) (henv : EnvOK env)
      {P : List (String × String)} {c : String} (hvc : validAsset c = true) :
      (d : KeptOrDest) → kdWf env c d = true →
      ∀ (f : List Part) (Z : List String) (st : State) (ist : IState), partsNonneg f →
        DRel P c st ist → units ist.queue = units f ++ Z →
      ∃ rem st' ist', evalKD env c d f st = .ok (rem, st') ∧ partsNonneg rem ∧ units rem = [] ∧
        sendKD ienv d (total f) ist = .ok ist' ∧ DRel P c st' ist' ∧ units ist'.queue = Z
    | .kept, hwf, _, _, _, _, _, _, _ => by simp [kdWf] at hwf
    | .to d, hwf, f, Z, st, ist, hn, hd, hq => by
      simpa [evalKD, sendKD] using dst_sim heq henv hvc d (by simpa [kdWf] using hwf) f Z st ist hn hd hq
  theorem inorder_sim {env ienv : Env} (heq : EnvEq env ienv) (henv : EnvOK env)
      {P : List (String × String)} {c : String} (hvc : validAsset c = true) :
      (items : InOrderDstList) → inOrderWf env c items = true →
      ∀ (f : List Part) (Z : List String) (st : State) (ist : IState), partsNonneg f →
        DRel P c st ist → units ist.queue = units f ++ Z →
      ∃ f1 st1 left' ist1, evalInOrder env c items 0 f st = .ok (0, f1, st1) ∧ partsNonneg f1 ∧
        sendInOrder ienv items (total f) ist = .ok (left', ist1) ∧ left' = total f1 ∧
        DRel P c st1 ist1 ∧ units ist1.queue = units f1 ++ Z
    | .nil, _, f, Z, st, ist, hn, hd, hq =>
      ⟨f, st, total f, ist, rfl, hn, rfl, rfl, hd, hq⟩
    | .cons m d rest, hwf, f, Z, st, ist, hn, hd, hq => by
      simp only [inOrderWf, Bool.and_eq_true] at hwf
      obtain ⟨⟨hwm, hwd⟩, hwr⟩ := hwf
      obtain ⟨hlm, cap, hcap, hcap0⟩ := okCap_spec hwm
      have hmo : evalMonOf ienv ist.asset m = .ok cap := by
        rw [hd.asset]; exact evalMonOf_agree heq henv hlm hcap
      obtain ⟨tn1, tn2⟩ := takeMax_nonneg f cap hn
      obtain ⟨tu1, tu2⟩ := takeMax_units f hn cap
      have hlen := total_eq_length f hn
      have hf0 := total_nonneg f hn
      have ht1 : total (takeMax f cap).1 = min cap (total f) := by
        rw [total_eq_length _ tn1, tu1, List.length_take]; omega
      have ht2 : total (takeMax f cap).2 = total f - min cap (total f) := by
        rw [total_eq_length _ tn2, tu2, List.length_drop]; omega
      have hsplit : units f = units (takeMax f cap).1 ++ units (takeMax f cap).2 := by
        rw [tu1, tu2, List.take_append_drop]
      -- the sub-destination receives `tm.1`
      obtain ⟨r, st1, ist1, k1, k2, k3, k4, k5, k6⟩ :=
        kd_sim heq henv hvc d hwd (takeMax f cap).1 (units (takeMax f cap).2 ++ Z) st ist tn1 hd
          (by rw [hq, hsplit, List.append_assoc])
      have hr0 : total r = 0 := by rw [total_eq_length r k2, k3]; rfl
      -- the rest of the clauses receive `r ++ tm.2`
      have hn' : partsNonneg (concatParts r (takeMax f cap).2) := concatParts_nonneg _ _ k2 tn2
      have hu' : units (concatParts r (takeMax f cap).2) = units (takeMax f cap).2 := by
        rw [concatParts_units _ _ k2 tn2, k3]; rfl
      have htot' : total (concatParts r (takeMax f cap).2) = total f - min cap (total f) := by
        rw [concatParts_total, hr0, ht2]; omega
      obtain ⟨f1, st2, left', ist2, i1, i2, i3, i4, i5, i6⟩ :=
        inorder_sim heq henv hvc rest hwr (concatParts r (takeMax f cap).2) Z st1 ist1 hn' k5
          (by rw [k6, hu'])
      refine ⟨f1, st2, left', ist2, ?_, i2, ?_, i4, i5, i6⟩
      · simp only [evalInOrder, hcap, needAmt]
        rw [if_neg (by omega), if_neg (by simp)]
        simp only [k1, hr0]
        exact i1
      · simp only [sendInOrder, hmo]
        have hmax : max (min cap (total f)) 0 = min cap (total f) := by omega
        rw [hmax]
        rw [ht1] at k4
        rw [htot'] at i3
        by_cases hz : total f = 0
        · rw [if_pos hz]
          have hm0 : min cap (total f) = 0 := by omega
          rw [hm0, sendKD_zero heq henv d hwd ist hd.asset] at k4
          cases k4
          rw [hm0, hz, Int.sub_zero, sendInOrder_zero heq henv rest hwr ist hd.asset] at i3
          rw [hz]; exact i3
        · rw [if_neg hz]
          by_cases hm0 : min cap (total f) = 0
          · rw [if_pos hm0]
            rw [hm0, sendKD_zero heq henv d hwd ist hd.asset] at k4
            cases k4
            rw [hm0] at i3
            simpa using i3
          · rw [if_neg hm0, k4]
            exact i3
  theorem allotdst_sim {env ienv : Env} (heq : EnvEq env ienv) (henv : EnvOK env)
      {P : List (String × String)} {c : String} (hvc : validAsset c = true) :
      (items : AllotDstList) → allotDstWf env c items = true →
      ∀ (ps : List Int) (f : List Part) (Z : List String) (st : State) (ist : IState),
        ps.length = items.length → (∀ p ∈ ps, 0 ≤ p) → ps.sum = total f → partsNonneg f →
        DRel P c st ist → units ist.queue = units f ++ Z →
      ∃ rem st' ist', evalAllotDst env c items ps f st = .ok (rem, st') ∧ partsNonneg rem ∧
        units rem = [] ∧ sendAllot ienv items ps ist = .ok ist' ∧ DRel P c st' ist' ∧
        units ist'.queue = Z
    | .nil, _, ps, f, Z, st, ist, hlen, _, hsum, hn, hd, hq => by
      have hps : ps = [] := List.eq_nil_of_length_eq_zero (by simpa [AllotDstList.length] using hlen)
      subst hps
      have hu : units f = [] := units_eq_nil_of_total_zero f hn (by simpa using hsum.symm)
      exact ⟨f, st, ist, by simp [evalAllotDst], hn, hu, by simp [sendAllot], hd, by simpa [hu] using hq⟩
    | .cons _ d rest, hwf, ps, f, Z, st, ist, hlen, hnn, hsum, hn, hd, hq => by
      simp only [allotDstWf, Bool.and_eq_true] at hwf
      cases ps with
      | nil => simp [AllotDstList.length] at hlen
      | cons p ps =>
        have hp0 : 0 ≤ p := hnn p (by simp)
        have hrest0 := list_sum_nonneg ps (fun q hq => hnn q (by simp [hq]))
        simp only [List.sum_cons] at hsum
        have hs := (take_isSome_iff f hn p hp0).mpr (by omega)
        obtain ⟨⟨res, rem⟩, ht⟩ := Option.isSome_iff_exists.mp hs
        obtain ⟨nres, nrem⟩ := take_nonneg ht hn
        obtain ⟨ures, urem⟩ := take_units hn ht
        have htres : total res = p := take_total ht
        have hsplit := take_total_split ht
        obtain ⟨r, st1, ist1, k1, k2, k3, k4, k5, k6⟩ :=
          kd_sim heq henv hvc d hwf.1 res (units rem ++ Z) st ist nres hd
            (by rw [hq, ures, urem, ← List.append_assoc, List.take_append_drop])
        have hr0 : total r = 0 := by rw [total_eq_length r k2, k3]; rfl
        have hn' : partsNonneg (concatParts r rem) := concatParts_nonneg _ _ k2 nrem
        have hu' : units (concatParts r rem) = units rem := by
          rw [concatParts_units _ _ k2 nrem, k3]; rfl
        have htot' : ps.sum = total (concatParts r rem) := by
          rw [concatParts_total, hr0]; omega
        obtain ⟨rem2, st2, ist2, i1, i2, i3, i4, i5, i6⟩ :=
          allotdst_sim heq henv hvc rest hwf.2 ps (concatParts r rem) Z st1 ist1
            (by simpa [AllotDstList.length] using hlen) (fun q hq => hnn q (by simp [hq])) htot' hn' k5
            (by rw [k6, hu'])
        refine ⟨rem2, st2, ist2, ?_, i2, i3, ?_, i5, i6⟩
        · simp only [evalAllotDst, ht, k1]; exact i1
        · rw [htres] at k4
          simp only [sendAllot, k4]; exact i4
end

end Ledger.Interp
