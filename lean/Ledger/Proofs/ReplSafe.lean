import Ledger.Proofs.ReplWF

/-! Safety invariant `Inv` of the replication model: preserved by every step in the
configurations `Good c` (candidate fix, or no `ResetPipeline`). -/
namespace Ledger.Repl

theorem Chain.covers {bs : List (Nat × Nat)} {hw k : Nat} (h : Chain bs hw) (h1 : 1 ≤ k) (h2 : k ≤ hw) :
    ∃ b ∈ bs, b.1 < k ∧ k ≤ b.2 := by
  induction h with
  | nil => omega
  | @cons bs hw lo hi _ hlo hlt ih =>
    by_cases hk : k ≤ hw
    · obtain ⟨b, hb, hb'⟩ := ih hk
      exact ⟨b, List.mem_cons_of_mem _ hb, hb'⟩
    · exact ⟨(lo, hi), List.mem_cons_self, by simp; omega, by simp; omega⟩

theorem inv_init {c : Cfg} : Inv c State.init := by
  constructor <;> simp [State.init]
  exact Chain.nil

theorem inv_finishOp {c : Cfg} {s : State} (g : Good c) (i : Inv c s) (hh : s.handler = none)
    (hc : s.cur = none) : Inv c (finishOp s) := by
  have h1 := i.syncOrph; have h2 := i.noResetPending; have h3 := i.persisted_le
  have h4 := i.cur_le; have h5 := i.orph_le; have h6 := i.last_le; have h7 := i.ack_le
  have h8 := i.deliv_le; have h9 := i.chain
  unfold finishOp
  split
  · exact i
  · constructor <;> simp_all
  · rename_i hp
    have hs : c.sync = true := by
      cases g with
      | inl h => exact h
      | inr h => exact absurd hp (h2 h)
    constructor <;> simp_all [startHandler, resetRow]
    exact Chain.nil
  · constructor <;> simp_all

theorem inv_exit {c : Cfg} {s : State} (g : Good c) (i : Inv c s) : Inv c (exitHandler c s) := by
  have h1 := i.syncOrph; have h2 := i.noResetPending; have h3 := i.persisted_le
  have h4 := i.cur_le; have h5 := i.orph_le; have h7 := i.ack_le
  have h8 := i.deliv_le; have h9 := i.chain
  unfold exitHandler
  split
  · apply inv_finishOp g _ rfl (by assumption)
    constructor <;> simp_all
  · split
    · apply inv_finishOp g _ rfl rfl
      constructor <;> simp_all
      split <;> simp_all
    · apply inv_finishOp g _ rfl rfl
      constructor <;> simp_all
      grind


theorem inv_setHandler {c : Cfg} {s : State} {h : Handler} (i : Inv c s) (hl : h.last ≤ s.ackHW) :
    Inv c { s with handler := some h } := by
  have h1 := i.syncOrph; have h2 := i.noResetPending; have h3 := i.persisted_le
  have h4 := i.cur_le; have h5 := i.orph_le; have h7 := i.ack_le
  have h8 := i.deliv_le; have h9 := i.chain
  constructor <;> simp_all

theorem inv_atSelect {c : Cfg} {s : State} {h : Handler} {next : Pc} (g : Good c) (i : Inv c s)
    (hl : h.last ≤ s.ackHW) : Inv c (atSelect c s h next) := by
  unfold atSelect
  split
  · exact inv_exit g i
  · exact inv_setHandler i hl

theorem inv_afterSend {c : Cfg} {s : State} {h : Handler} {more coin : Bool} (g : Good c) (i : Inv c s)
    (hl : h.last ≤ s.ackHW) : Inv c (afterSend c s h more coin) := by
  unfold afterSend
  split
  · split
    · exact inv_exit g i
    · exact inv_setHandler i hl
  · exact inv_atSelect g i hl

theorem inv_setPending {c : Cfg} {s : State} {op : Op} (i : Inv c s)
    (hop : c.allowReset = false → op ≠ .reset) : Inv c { s with pending := some op } := by
  have h1 := i.syncOrph; have h3 := i.persisted_le
  have h4 := i.cur_le; have h5 := i.orph_le; have h6 := i.last_le; have h7 := i.ack_le
  have h8 := i.deliv_le; have h9 := i.chain
  constructor <;> simp_all

theorem inv_requestStop {c : Cfg} {s : State} {h : Handler} {op : Op} (g : Good c) (i : Inv c s)
    (hh : s.handler = some h) (hop : c.allowReset = false → op ≠ .reset) :
    Inv c (requestStop c { s with pending := some op } h) := by
  have i1 := inv_setPending i hop
  have hl := i.last_le h hh
  unfold requestStop
  split
  · exact inv_setHandler i1 hl
  · exact inv_setHandler i1 hl
  · exact inv_exit g i1

theorem inv_startHandler {c : Cfg} {s : State} {last : Nat} (i : Inv c s) (hl : last ≤ s.ackHW) :
    Inv c (startHandler s last) := by
  have h1 := i.syncOrph; have h2 := i.noResetPending; have h3 := i.persisted_le
  have h4 := i.cur_le; have h5 := i.orph_le; have h7 := i.ack_le
  have h8 := i.deliv_le; have h9 := i.chain
  constructor <;> simp_all [startHandler]

theorem inv_write {c : Cfg} {s : State} {ok : Bool} {v : Nat} (i : Inv c s) (hv : v ≤ s.ackHW) :
    Inv c (write ok v s) := by
  have h1 := i.syncOrph; have h2 := i.noResetPending
  have h4 := i.cur_le; have h5 := i.orph_le; have h6 := i.last_le; have h7 := i.ack_le
  have h8 := i.deliv_le; have h9 := i.chain
  unfold write
  split
  · constructor <;> simp_all
  · exact i

theorem inv_deliver {c : Cfg} {s : State} {lo hi : Nat} (i : Inv c s) (h1 : lo ≤ s.delivHW) (h2 : lo < hi)
    (h3 : hi ≤ s.nLogs) : Inv c (deliver s lo hi) := by
  constructor
  · exact i.syncOrph
  · exact i.noResetPending
  · exact i.persisted_le
  · exact i.cur_le
  · exact i.orph_le
  · exact i.last_le
  · have := i.ack_le; simp only [deliver]; omega
  · have := i.deliv_le; simp only [deliver]; omega
  · exact Chain.cons i.chain h1 h2

theorem inv_ack {c : Cfg} {s : State} {hi : Nat} (i : Inv c s) (h : hi ≤ s.delivHW) : Inv c (ack s hi) := by
  constructor
  · exact i.syncOrph
  · exact i.noResetPending
  · have := i.persisted_le; simp only [ack]; omega
  · intro v hv; have := i.cur_le v hv; simp only [ack]; omega
  · intro v hv; have := i.orph_le v hv; simp only [ack]; omega
  · intro h' hh; have := i.last_le h' hh; simp only [ack]; omega
  · have := i.ack_le; simp only [ack]; omega
  · exact i.deliv_le
  · exact i.chain


theorem deliver_ack_comm (s : State) (lo hi : Nat) : deliver (ack s hi) lo hi = ack (deliver s lo hi) hi := rfl

theorem inv_setCur {c : Cfg} {s : State} {v : Nat} (i : Inv c s) (hv : v ≤ s.ackHW) :
    Inv c { s with cur := some v } := by
  have h1 := i.syncOrph; have h2 := i.noResetPending; have h3 := i.persisted_le
  have h5 := i.orph_le; have h6 := i.last_le; have h7 := i.ack_le
  have h8 := i.deliv_le; have h9 := i.chain
  constructor <;> simp_all

theorem inv_clearCur {c : Cfg} {s : State} (i : Inv c s) : Inv c { s with cur := none } := by
  have h1 := i.syncOrph; have h2 := i.noResetPending; have h3 := i.persisted_le
  have h5 := i.orph_le; have h6 := i.last_le; have h7 := i.ack_le
  have h8 := i.deliv_le; have h9 := i.chain
  constructor <;> simp_all

theorem inv_step {c : Cfg} {s s' : State} {l : Label} (g : Good c) (w : WF s) (i : Inv c s)
    (hs : step c s l = some s') : Inv c s' := by
  cases l with
  | append n =>
    simp only [step, Option.some.injEq] at hs
    subst hs
    have h1 := i.syncOrph; have h2 := i.noResetPending; have h3 := i.persisted_le
    have h4 := i.cur_le; have h5 := i.orph_le; have h6 := i.last_le; have h7 := i.ack_le
    have h8 := i.deliv_le; have h9 := i.chain
    constructor <;> simp_all
    omega
  | create =>
    simp only [step] at hs
    split at hs
    case isFalse => simp at hs
    case isTrue hg =>
      simp at hs; subst hs
      apply inv_startHandler _ (Nat.zero_le _)
      have h1 := i.syncOrph; have h2 := i.noResetPending
      have h4 := i.cur_le; have h5 := i.orph_le; have h6 := i.last_le; have h7 := i.ack_le
      have h8 := i.deliv_le; have h9 := i.chain
      constructor <;> simp_all
  | start =>
    simp only [step] at hs
    split at hs
    case isFalse => simp at hs
    case isTrue hg =>
      split at hs
      · simp at hs; subst hs; exact i
      · split at hs <;> simp at hs <;> subst hs
        · exact i
        · exact inv_startHandler i i.persisted_le
  | stop =>
    simp only [step] at hs
    split at hs
    case isFalse => simp at hs
    case isTrue hg =>
      split at hs <;> simp at hs <;> subst hs
      · exact i
      · rename_i h hh
        exact inv_requestStop g i hh (by simp)
  | reset =>
    simp only [step] at hs
    split at hs
    case isFalse => simp at hs
    case isTrue hg =>
      simp at hg
      have hs1 : c.sync = true := by
        cases g with
        | inl h => exact h
        | inr h => simp [h] at hg
      split at hs
      · simp at hs; subst hs; exact i
      · split at hs <;> simp at hs <;> subst hs
        · rename_i hn
          have hc := w.curNone hn
          have h1 := i.syncOrph hs1; have h2 := i.noResetPending
          constructor <;> simp_all [resetRow]
          exact Chain.nil
        · rename_i h hh
          exact inv_requestStop g i hh (by simp [hg.2])
  | sync =>
    simp only [step] at hs
    split at hs
    case isFalse => simp at hs
    case isTrue hg =>
      split at hs <;> simp at hs <;> subst hs
      · exact inv_startHandler i i.persisted_le
      · exact i
  | mgrStop =>
    simp only [step] at hs
    split at hs
    case isFalse => simp at hs
    case isTrue hg =>
      split at hs <;> simp at hs <;> subst hs
      · have h1 := i.syncOrph; have h2 := i.noResetPending; have h3 := i.persisted_le
        have h4 := i.cur_le; have h5 := i.orph_le; have h6 := i.last_le; have h7 := i.ack_le
        have h8 := i.deliv_le; have h9 := i.chain
        constructor <;> simp_all
      · rename_i h hh
        exact inv_requestStop g i hh (by simp)
  | mgrStart =>
    simp only [step] at hs
    split at hs
    case isFalse => simp at hs
    case isTrue hg =>
      have i1 : Inv c { s with mgrUp := true } := by
        have h1 := i.syncOrph; have h2 := i.noResetPending; have h3 := i.persisted_le
        have h4 := i.cur_le; have h5 := i.orph_le; have h6 := i.last_le; have h7 := i.ack_le
        have h8 := i.deliv_le; have h9 := i.chain
        constructor <;> simp_all
      split at hs <;> simp at hs <;> subst hs
      · exact inv_startHandler i1 i.persisted_le
      · exact i1
  | fetch ok =>
    simp only [step] at hs
    split at hs
    · simp at hs
    · rename_i h hh
      have hl := i.last_le h hh
      split at hs
      · split at hs
        · split at hs <;> simp at hs <;> subst hs <;> exact inv_atSelect g i hl
        · simp at hs; subst hs; exact inv_atSelect g i hl
      · simp at hs
  | accept r =>
    simp only [step] at hs
    split at hs
    · simp at hs
    · rename_i h hh
      have hl := i.last_le h hh
      split at hs
      · rename_i lo hi more hpc
        have hok := w.pcOk h hh
        simp only [PcOk, hpc] at hok
        have hd : lo ≤ s.delivHW := by have := i.ack_le; omega
        have i1 : Inv c (deliver s lo hi) := inv_deliver i hd hok.2.1 hok.2.2
        have i2 : Inv c (deliver (ack s hi) lo hi) := by
          rw [deliver_ack_comm]
          exact inv_ack i1 (by simp only [deliver]; omega)
        split at hs
        · split at hs
          · simp at hs; subst hs
            exact inv_afterSend g (inv_setCur i2 (by simp [deliver, ack]; omega)) (by simp [deliver, ack]; omega)
          · simp at hs; subst hs
            exact inv_setHandler i2 (by simp [deliver, ack]; omega)
        · simp at hs; subst hs; exact inv_atSelect g i hl
        · simp at hs; subst hs; exact inv_atSelect g i1 (by simpa [deliver] using hl)
      · simp at hs
  | persist k ok coin =>
    simp only [step] at hs
    split at hs
    · simp at hs; subst hs
      rename_i hk
      apply inv_write
      · have h1 := i.syncOrph; have h2 := i.noResetPending; have h3 := i.persisted_le
        have h4 := i.cur_le; have h5 := i.orph_le; have h6 := i.last_le; have h7 := i.ack_le
        have h8 := i.deliv_le; have h9 := i.chain
        constructor <;> simp_all
        intro v hv
        exact h5 v (List.mem_of_mem_eraseIdx hv)
      · exact i.orph_le _ (List.getElem_mem hk)
    · split at hs
      · split at hs
        · simp at hs
        · rename_i v hcur
          have hv := i.cur_le v hcur
          have i1 : Inv c (write ok v { s with cur := none }) := inv_write (inv_clearCur i) hv
          split at hs
          · simp at hs; subst hs; exact i1
          · rename_i h hh
            have hl := i.last_le h hh
            have ha : (write ok v { s with cur := none }).ackHW = s.ackHW := by
              unfold write; split <;> rfl
            split at hs
            · simp at hs; subst hs
              exact inv_afterSend g (inv_setCur i1 (by omega)) (by simp [ha]; exact hl)
            · simp at hs; subst hs; exact i1
      · simp at hs
  | tick =>
    simp only [step] at hs
    split at hs
    · simp at hs; subst hs; exact i
    · rename_i h hh
      have hl := i.last_le h hh
      split at hs <;> simp at hs <;> subst hs
      · exact inv_setHandler i hl
      · exact inv_setHandler i hl
      · exact inv_setHandler i hl
      · exact i

theorem inv_reach {c : Cfg} {s : State} (g : Good c) (r : Reach c s) : Inv c s := by
  induction r with
  | init => exact inv_init
  | step l r hs ih => exact inv_step g (wf_reach r) ih hs

end Ledger.Repl
